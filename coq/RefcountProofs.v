(* RefcountProofs.v -- proofs about Refcount.v (property C17).

   Main results
     close_machine_ok     ADFI_close_file (variant Cur) from a state satisfying the reference-count invariant with one
                          reference to drop returns NO_ERROR and re-establishes the invariant without that reference,
                          whatever the link graph (whenever it does not run out of fuel)
     step_inv             every cgio-level operation of variant Cur preserves the invariant
     balanced_fixed       any session, acyclic link graph, every handle closed  ==>  nothing is held
     failing_open_ledger  a failing open leaves the ledger as it was (both variants)
     refuted_* / old_*    witnesses for the code before 909ac4d / def473d (variants Old / MOld)
     cur_cycle_leaks      what is still false of the current code: files linking to each other keep each other open
     mll_*                the MLL table
*)
From Coq Require Import Arith List Bool Lia.
From CgnsV Require Import Fuel ListX Refcount.
Import ListNotations.

(* ============================================================================================ sums over indices *)
Definition sumf (f : nat -> nat) (n : nat) : nat := list_sum (map f (seq 0 n)).

Lemma sumf_S f n : sumf f (S n) = sumf f n + f n.
Proof.
  unfold sumf. rewrite seq_S, map_app, list_sum_app. simpl. lia.
Qed.

Lemma sumf_ext f g n : (forall i, i < n -> f i = g i) -> sumf f n = sumf g n.
Proof.
  induction n as [|n IH]; intros H; [reflexivity|].
  rewrite !sumf_S, IH, (H n) by (auto; intros; apply H; lia). reflexivity.
Qed.

Lemma sumf_zero f n : (forall i, i < n -> f i = 0) -> sumf f n = 0.
Proof.
  induction n as [|n IH]; intros H; [reflexivity|].
  rewrite sumf_S, IH, (H n) by (auto; intros; apply H; lia). reflexivity.
Qed.

Lemma sumf_tail f n m : n <= m -> (forall i, n <= i -> i < m -> f i = 0) -> sumf f m = sumf f n.
Proof.
  induction m as [|m IH]; intros Hle H.
  - assert (n = 0) by lia. subst. reflexivity.
  - destruct (Nat.eq_dec n (S m)) as [->|Hne]; [reflexivity|].
    rewrite sumf_S, IH, (H m) by (try lia; intros; apply H; lia). lia.
Qed.

Lemma sumf_change f g n i0 :
  i0 < n -> (forall i, i < n -> i <> i0 -> f i = g i) -> sumf f n + g i0 = sumf g n + f i0.
Proof.
  induction n as [|n IH]; intros Hi H; [lia|].
  rewrite !sumf_S. destruct (Nat.eq_dec i0 n) as [->|Hne].
  - rewrite (sumf_ext f g n) by (intros; apply H; lia). lia.
  - rewrite <- (H n) by lia. specialize (IH ltac:(lia) ltac:(intros; apply H; lia)). lia.
Qed.

Lemma sumf_pos f n : 0 < sumf f n -> exists i, i < n /\ 0 < f i.
Proof.
  induction n as [|n IH]; intros H; [cbv in H; lia|].
  rewrite sumf_S in H. destruct (Nat.eq_dec (f n) 0) as [E|E].
  - destruct IH as (i & Hi & Hp); [lia|]. exists i. split; [lia|auto].
  - exists n. split; lia.
Qed.

Lemma sumf_ge f n i : i < n -> f i <= sumf f n.
Proof.
  induction n as [|n IH]; intros H; [lia|].
  rewrite sumf_S. destruct (Nat.eq_dec i n) as [->|Hne]; [lia|]. specialize (IH ltac:(lia)). lia.
Qed.

(* ============================================================================================ counting *)
Fixpoint cnt (x : nat) (l : list nat) : nat :=
  match l with [] => 0 | y :: r => (if Nat.eqb y x then 1 else 0) + cnt x r end.

Lemma cnt_app x l1 l2 : cnt x (l1 ++ l2) = cnt x l1 + cnt x l2.
Proof. induction l1 as [|y r IH]; simpl; [reflexivity|]. rewrite IH. lia. Qed.

Lemma cnt_zero_notin x l : cnt x l = 0 <-> ~ In x l.
Proof.
  induction l as [|y r IH]; simpl; [tauto|].
  destruct (Nat.eqb_spec y x).
  - split; [lia|]. intros H. exfalso. apply H. auto.
  - rewrite Nat.add_0_l, IH. split; [intros H [?|?]; [congruence|tauto] | tauto].
Qed.

Lemma cnt_pos_in x l : 0 < cnt x l <-> In x l.
Proof.
  destruct (in_dec Nat.eq_dec x l) as [H|H].
  - split; auto. intros _. destruct (cnt x l) eqn:E; [|lia]. apply cnt_zero_notin in E. tauto.
  - split; [|tauto]. intros Hp. apply cnt_zero_notin in H. lia.
Qed.

Lemma cnt_rem1_same n l : cnt n (rem1 n l) = cnt n l - 1.
Proof.
  induction l as [|y r IH]; simpl; [reflexivity|].
  destruct (Nat.eqb_spec y n); simpl; [lia|].
  destruct (Nat.eqb_spec y n); [congruence|]. rewrite IH. lia.
Qed.

Lemma cnt_rem1_other m n l : m <> n -> cnt m (rem1 n l) = cnt m l.
Proof.
  intros Hne. induction l as [|y r IH]; simpl; [reflexivity|].
  destruct (Nat.eqb_spec y n); simpl.
  - subst. destruct (Nat.eqb_spec n m); [congruence|]. reflexivity.
  - rewrite IH. reflexivity.
Qed.

Lemma all_cnt_zero_nil l : (forall n, cnt n l = 0) -> l = [].
Proof.
  destruct l as [|y r]; [reflexivity|]. intros H. specialize (H y). simpl in H. rewrite Nat.eqb_refl in H. lia.
Qed.

Lemma cnt_skipn_split x k l : cnt x l = cnt x (firstn k l) + cnt x (skipn k l).
Proof. rewrite <- cnt_app, firstn_skipn. reflexivity. Qed.

Lemma skipn_nth_cons (l : list nat) k : k < length l -> skipn k l = nth k l 0 :: skipn (S k) l.
Proof.
  revert k. induction l as [|y r IH]; intros k H; simpl in *; [lia|].
  destruct k; [reflexivity|]. apply IH. lia.
Qed.

(* ============================================================================================ the table *)
Lemma slot_at_out a i : length (tab a) <= i -> slot_at a i = free_slot.
Proof. intros H. unfold slot_at. apply nth_overflow. exact H. Qed.

Lemma slot_at_upd_eq t led c am i s : i < length t -> slot_at (mkadf (upd t i s) led c am) i = s.
Proof. intros H. unfold slot_at. simpl. apply nth_upd_eq. exact H. Qed.

Lemma slot_at_upd_neq t led c am i j s : i <> j -> slot_at (mkadf (upd t i s) led c am) j = slot_at (mkadf t led c am) j.
Proof. intros H. unfold slot_at. simpl. apply nth_upd_neq. exact H. Qed.

Lemma upd_out {A} (l : list A) n v : length l <= n -> upd l n v = l.
Proof. revert n. induction l as [|h t IH]; intros [|n] H; simpl in *; try lia; auto. f_equal. apply IH. lia. Qed.

(* sum over the table of a per-slot quantity that is 0 for a free slot *)
Definition tsum (g : nat -> slot -> nat) (a : adf) : nat := sumf (fun i => g i (slot_at a i)) (length (tab a)).

Definition gfree (g : nat -> slot -> nat) : Prop := forall i, g i free_slot = 0.

Lemma tsum_bound g a N : gfree g -> length (tab a) <= N -> tsum g a = sumf (fun i => g i (slot_at a i)) N.
Proof.
  intros Hg Hle. unfold tsum. symmetry. apply sumf_tail; auto.
  intros i Hi _. rewrite slot_at_out by lia. apply Hg.
Qed.

Lemma tsum_same_slots g a b : gfree g -> (forall i, slot_at a i = slot_at b i) -> tsum g a = tsum g b.
Proof.
  intros Hg H. rewrite (tsum_bound g a (max (length (tab a)) (length (tab b)))), (tsum_bound g b (max (length (tab a)) (length (tab b)))) by (auto; lia).
  apply sumf_ext. intros i _. rewrite H. reflexivity.
Qed.

Lemma tsum_change g a b i0 : gfree g ->
  (forall i, i <> i0 -> slot_at a i = slot_at b i) ->
  tsum g a + g i0 (slot_at b i0) = tsum g b + g i0 (slot_at a i0).
Proof.
  intros Hg H.
  set (N := S (max i0 (max (length (tab a)) (length (tab b))))).
  rewrite (tsum_bound g a N), (tsum_bound g b N) by (auto; unfold N; lia).
  apply (sumf_change (fun i => g i (slot_at a i)) (fun i => g i (slot_at b i)) N i0); [unfold N; lia|].
  intros i _ Hne. rewrite H by auto. reflexivity.
Qed.

Lemma tsum_zero g a : (forall i, g i (slot_at a i) = 0) -> tsum g a = 0.
Proof. intros H. unfold tsum. apply sumf_zero. intros; apply H. Qed.

Lemma tsum_pos g a : 0 < tsum g a -> exists i, i < length (tab a) /\ 0 < g i (slot_at a i).
Proof. intros H. apply sumf_pos in H. exact H. Qed.

Lemma tsum_ge g a i : gfree g -> g i (slot_at a i) <= tsum g a.
Proof.
  intros Hg. destruct (Nat.lt_ge_cases i (length (tab a))) as [H|H].
  - unfold tsum. apply (sumf_ge (fun i => g i (slot_at a i))). exact H.
  - rewrite slot_at_out by lia. rewrite Hg. lia.
Qed.

Lemma tsum_ext g h a : (forall i, g i (slot_at a i) = h i (slot_at a i)) -> tsum g a = tsum h a.
Proof. intros H. unfold tsum. apply sumf_ext. intros; apply H. Qed.

Lemma tsum_ext2 g h a b : gfree g -> gfree h ->
  (forall j, g j (slot_at a j) = h j (slot_at b j)) -> tsum g a = tsum h b.
Proof.
  intros Hg Hh H.
  set (N := max (length (tab a)) (length (tab b))).
  rewrite (tsum_bound g a N), (tsum_bound h b N) by (auto; unfold N; lia).
  apply sumf_ext. intros; apply H.
Qed.

Lemma tsum_change2 g h a b i0 : gfree g -> gfree h ->
  (forall j, j <> i0 -> g j (slot_at a j) = h j (slot_at b j)) ->
  tsum g a + h i0 (slot_at b i0) = tsum h b + g i0 (slot_at a i0).
Proof.
  intros Hg Hh H.
  set (N := S (max i0 (max (length (tab a)) (length (tab b))))).
  rewrite (tsum_bound g a N), (tsum_bound h b N) by (auto; unfold N; lia).
  apply (sumf_change (fun i => g i (slot_at a i)) (fun i => h i (slot_at b i)) N i0); [unfold N; lia|].
  intros i _ Hne. apply H. exact Hne.
Qed.

(* ============================================================================================ the invariant *)
Definition fslot (f : frame) : nat := match f with FEnter i => i | FLoop i _ => i end.

(* how many entries of links[] the activation standing in slot i has already handed to recursive calls *)
Fixpoint prog (stk : list frame) (i : nat) : nat :=
  match stk with
  | [] => 0
  | FLoop j k :: r => if Nat.eqb j i then k else prog r i
  | FEnter _ :: r => prog r i
  end.

(* references to x from the not yet consumed link entries of slot i *)
Definition gl (stk : list frame) (x : nat) (i : nat) (s : slot) : nat :=
  if Nat.eqb (in_use s) 0 then 0 else cnt x (skipn (prog stk i) (links s)).
(* descriptors of file n held by slot i *)
Definition gn (n : nat) (i : nat) (s : slot) : nat :=
  if Nat.eqb (in_use s) 0 then 0
  else match fname s with Some m => if Nat.eqb m n then 1 else 0 | None => 0 end.

Lemma gl_free stk x : gfree (gl stk x). Proof. intros i. reflexivity. Qed.
Lemma gn_free n : gfree (gn n). Proof. intros i. reflexivity. Qed.
#[global] Hint Resolve gl_free gn_free : core.

(* references to slot x: U = references held outside the ADF layer (cgio handles, the caller of a close in progress),
   the activations on the stack (each is dropping one reference to its slot), and the link entries of files in use *)
Definition refs (a : adf) (U : list nat) (stk : list frame) (x : nat) : nat :=
  cnt x U + cnt x (map fslot stk) + tsum (gl stk x) a.

Record Inv (w : world) (a : adf) (U : list nat) (stk : list frame) : Prop := mkInv {
  inv_R : forall x, in_use (slot_at a x) = refs a U stk x;
  inv_W : forall i, in_use (slot_at a i) = 0 -> slot_at a i = free_slot;
  inv_D : forall i, in_use (slot_at a i) <> 0 ->
                    fd_open (slot_at a i) = true /\ exists n, fname (slot_at a i) = Some n;
  inv_L : forall n, cnt n (ledger a) = tsum (gn n) a;
  inv_F : forall i k, In (FLoop i k) stk -> in_use (slot_at a i) = 1;
  inv_N : forall i j ni nj, in_use (slot_at a i) <> 0 -> In j (links (slot_at a i)) ->
            fname (slot_at a i) = Some ni -> fname (slot_at a j) = Some nj -> has_any_link w ni nj = true
}.

Lemma Inv_same w a b U stk :
  (forall i, slot_at a i = slot_at b i) -> ledger a = ledger b -> Inv w a U stk -> Inv w b U stk.
Proof.
  intros Hs Hl [R W D L F N]. constructor.
  - intros x. rewrite <- Hs, R. unfold refs. f_equal. apply tsum_ext2; auto. intros j. rewrite Hs. reflexivity.
  - intros i. rewrite <- Hs. apply W.
  - intros i. rewrite <- Hs. apply D.
  - intros n. rewrite <- Hl, L. apply tsum_ext2; auto. intros j. rewrite Hs. reflexivity.
  - intros i k H. rewrite <- Hs. eapply F; eauto.
  - intros i j ni nj. rewrite <- !Hs. apply N.
Qed.

Lemma forallb_idle_all a :
  forallb (fun s => Nat.eqb (in_use s) 0) (tab a) = true -> forall i, in_use (slot_at a i) = 0.
Proof.
  intros H i. destruct (Nat.lt_ge_cases i (length (tab a))) as [Hi|Hi].
  - rewrite forallb_forall in H. apply Nat.eqb_eq. apply H. unfold slot_at. apply nth_In. exact Hi.
  - rewrite slot_at_out by lia. reflexivity.
Qed.

Lemma free_if_idle_slots a : (forall i, in_use (slot_at a i) = 0 -> slot_at a i = free_slot) ->
  forall i, slot_at a i = slot_at (free_if_idle a) i.
Proof.
  intros W i. unfold free_if_idle. destruct (forallb _ _) eqn:E; [|reflexivity].
  rewrite (W i) by (apply forallb_idle_all; exact E).
  unfold slot_at. simpl. destruct i; reflexivity.
Qed.

Lemma free_if_idle_ledger a : ledger (free_if_idle a) = ledger a.
Proof. unfold free_if_idle. destruct (forallb _ _); reflexivity. Qed.

Lemma Inv_free_if_idle w a U stk : Inv w a U stk -> Inv w (free_if_idle a) U stk.
Proof.
  intros H. apply (Inv_same w a); auto.
  - apply free_if_idle_slots. apply (inv_W _ _ _ _ H).
  - symmetry. apply free_if_idle_ledger.
Qed.

Lemma in_use_lt a i : in_use (slot_at a i) <> 0 -> i < length (tab a).
Proof.
  intros H. destruct (Nat.lt_ge_cases i (length (tab a))); auto.
  rewrite slot_at_out in H by lia. simpl in H. congruence.
Qed.

Lemma slot_set_slot_eq a i s : i < length (tab a) -> slot_at (set_slot a i s) i = s.
Proof. intros H. unfold set_slot. apply slot_at_upd_eq. exact H. Qed.
Lemma slot_set_slot_neq a i j s : i <> j -> slot_at (set_slot a i s) j = slot_at a j.
Proof. intros H. unfold set_slot. rewrite slot_at_upd_neq by auto. destruct a; reflexivity. Qed.

Lemma prog_in stk i : prog stk i <> 0 -> In (FLoop i (prog stk i)) stk.
Proof.
  induction stk as [|f r IH]; simpl; [congruence|]. destruct f as [j|j k].
  - intros H. right. auto.
  - destruct (Nat.eqb_spec j i); [subst; intros _; left; reflexivity|]. intros H. right. auto.
Qed.

Lemma in_fslot_cnt f stk : In f stk -> 1 <= cnt (fslot f) (map fslot stk).
Proof.
  induction stk as [|g r IH]; simpl; [tauto|]. intros [->|H].
  - rewrite Nat.eqb_refl. lia.
  - specialize (IH H). lia.
Qed.

(* ============================================================================================ machine steps (Cur) *)
Section Machine.
Variable w : world.
Variable U : list nat.

Lemma enter_in_use a i rest : Inv w a U (FEnter i :: rest) -> in_use (slot_at a i) <> 0.
Proof.
  intros H. rewrite (inv_R _ _ _ _ H). unfold refs. simpl. rewrite Nat.eqb_refl. lia.
Qed.

Lemma loop_unique a i k rest : Inv w a U (FLoop i k :: rest) -> forall k', ~ In (FLoop i k') rest.
Proof.
  intros H k' Hin.
  assert (E : in_use (slot_at a i) = 1) by (eapply (inv_F _ _ _ _ H); left; reflexivity).
  rewrite (inv_R _ _ _ _ H) in E. unfold refs in E. simpl in E. rewrite Nat.eqb_refl in E.
  pose proof (in_fslot_cnt _ _ Hin) as P. simpl in P. lia.
Qed.

Lemma step_dec a i rest : Inv w a U (FEnter i :: rest) -> 2 <= in_use (slot_at a i) ->
  Inv w (set_in_use a i (in_use (slot_at a i) - 1)) U rest.
Proof.
  intros H Hge. pose proof (in_use_lt a i ltac:(lia)) as Hlt.
  set (s := slot_at a i) in *. set (a1 := set_in_use a i (in_use s - 1)).
  assert (E1 : slot_at a1 i = mkslot (in_use s - 1) (fd_open s) (fname s) (links s)).
  { unfold a1, set_in_use. apply slot_set_slot_eq. exact Hlt. }
  assert (E2 : forall j, j <> i -> slot_at a1 j = slot_at a j).
  { intros j Hj. unfold a1, set_in_use. apply slot_set_slot_neq. auto. }
  assert (Hnl : forall i0 k, In (FLoop i0 k) rest -> i0 <> i).
  { intros i0 k Hin ->. pose proof (inv_F _ _ _ _ H i k (or_intror Hin)). fold s in H0. lia. }
  destruct H as [R W D L F N]. constructor.
  - intros x. unfold refs.
    assert (T : tsum (gl rest x) a1 = tsum (gl (FEnter i :: rest) x) a).
    { apply tsum_ext2; auto. intros j. destruct (Nat.eq_dec j i) as [->|Hj].
      - rewrite E1. fold s. unfold gl. simpl. destruct (Nat.eqb_spec (in_use s - 1) 0); [lia|].
        destruct (Nat.eqb_spec (in_use s) 0); [lia|]. reflexivity.
      - rewrite E2 by auto. reflexivity. }
    rewrite T. specialize (R x). unfold refs in R. simpl in R.
    destruct (Nat.eq_dec x i) as [->|Hx].
    + rewrite E1. simpl. fold s in R. rewrite Nat.eqb_refl in R. lia.
    + rewrite E2 by auto. rewrite R. destruct (Nat.eqb_spec i x); [congruence|]. lia.
  - intros j Hj. destruct (Nat.eq_dec j i) as [->|Hne]; [rewrite E1 in Hj; simpl in Hj; lia|].
    rewrite E2 in * by auto. auto.
  - intros j Hj. destruct (Nat.eq_dec j i) as [->|Hne].
    + rewrite E1. simpl. apply (D i). fold s. lia.
    + rewrite E2 in * by auto. auto.
  - intros n. change (ledger a1) with (ledger a). rewrite L. symmetry. apply tsum_ext2; auto.
    intros j. destruct (Nat.eq_dec j i) as [->|Hj]; [|rewrite E2 by auto; reflexivity].
    rewrite E1. fold s. unfold gn. simpl. destruct (Nat.eqb_spec (in_use s - 1) 0); [lia|].
    destruct (Nat.eqb_spec (in_use s) 0); [lia|]. reflexivity.
  - intros i0 k Hin. rewrite E2 by (eapply Hnl; eauto). eapply F. right. exact Hin.
  - intros i0 j ni nj. destruct (Nat.eq_dec i0 i) as [->|Hi0].
    + rewrite E1. simpl. intros _ Hin Hni Hnj. apply (N i j ni nj); fold s; auto; try lia.
      destruct (Nat.eq_dec j i) as [->|Hj]; [rewrite E1 in Hnj; exact Hnj | rewrite E2 in Hnj by auto; exact Hnj].
    + rewrite (E2 i0) by auto. intros A B C Dn. apply (N i0 j ni nj); auto.
      destruct (Nat.eq_dec j i) as [->|Hj]; [rewrite E1 in Dn; exact Dn | rewrite E2 in Dn by auto; exact Dn].
Qed.

Lemma step_enter_loop a i rest : Inv w a U (FEnter i :: rest) -> in_use (slot_at a i) = 1 ->
  Inv w a U (FLoop i 0 :: rest).
Proof.
  intros H E.
  assert (P0 : prog rest i = 0).
  { destruct (Nat.eq_dec (prog rest i) 0) as [|Hne]; auto. exfalso.
    pose proof (prog_in _ _ Hne) as Hin. pose proof (in_fslot_cnt _ _ Hin) as P. simpl in P.
    rewrite (inv_R _ _ _ _ H) in E. unfold refs in E. simpl in E. rewrite Nat.eqb_refl in E. lia. }
  destruct H as [R W D L F N]. constructor; auto.
  - intros x. rewrite R. unfold refs. simpl. f_equal. apply tsum_ext. intros j. unfold gl. simpl.
    destruct (Nat.eqb_spec i j); [subst; rewrite P0|]; reflexivity.
  - intros i0 k [Heq|Hin]; [inversion Heq; subst; exact E|]. eapply F. right. exact Hin.
Qed.

Lemma step_push a i k rest : Inv w a U (FLoop i k :: rest) -> k < length (links (slot_at a i)) ->
  Inv w a U (FEnter (nth k (links (slot_at a i)) 0) :: FLoop i (S k) :: rest).
Proof.
  intros H Hk.
  assert (E : in_use (slot_at a i) = 1) by (eapply (inv_F _ _ _ _ H); left; reflexivity).
  set (l := nth k (links (slot_at a i)) 0).
  destruct H as [R W D L F N]. constructor; auto.
  - intros x. rewrite R. unfold refs. simpl.
    pose proof (tsum_change2 (gl (FLoop i k :: rest) x) (gl (FEnter l :: FLoop i (S k) :: rest) x) a a i
                  (gl_free _ _) (gl_free _ _)) as T.
    assert (G1 : gl (FLoop i k :: rest) x i (slot_at a i) = cnt x (skipn k (links (slot_at a i)))).
    { unfold gl. simpl. rewrite Nat.eqb_refl, E. reflexivity. }
    assert (G2 : gl (FEnter l :: FLoop i (S k) :: rest) x i (slot_at a i) = cnt x (skipn (S k) (links (slot_at a i)))).
    { unfold gl. simpl. rewrite Nat.eqb_refl, E. reflexivity. }
    rewrite G1, G2 in T.
    specialize (T ltac:(intros j Hj; unfold gl; simpl; destruct (Nat.eqb_spec i j); [congruence|]; reflexivity)).
    rewrite (skipn_nth_cons _ k Hk) in T. fold l in T. simpl in T. lia.
  - intros i0 k0 [Heq|[Heq|Hin]]; [discriminate| inversion Heq; subst; exact E |]. eapply F. right. exact Hin.
Qed.

Lemma slot_really_close_eq a i : i < length (tab a) -> slot_at (really_close a i) i = free_slot.
Proof. intros H. unfold really_close. apply slot_at_upd_eq. exact H. Qed.
Lemma slot_really_close_neq a i j : i <> j -> slot_at (really_close a i) j = slot_at a j.
Proof. intros H. unfold really_close. rewrite slot_at_upd_neq by auto. destruct a; reflexivity. Qed.

Lemma step_finish a i k rest : Inv w a U (FLoop i k :: rest) -> length (links (slot_at a i)) <= k ->
  Inv w (really_close a i) U rest /\ fd_open (slot_at a i) = true.
Proof.
  intros H Hk.
  assert (E : in_use (slot_at a i) = 1) by (eapply (inv_F _ _ _ _ H); left; reflexivity).
  pose proof (in_use_lt a i ltac:(lia)) as Hlt.
  pose proof (loop_unique _ _ _ _ H) as Huniq.
  set (a1 := really_close a i).
  pose proof (slot_really_close_eq a i Hlt) as E1. fold a1 in E1.
  assert (E2 : forall j, j <> i -> slot_at a1 j = slot_at a j).
  { intros j Hj. apply slot_really_close_neq. auto. }
  destruct H as [R W D L F N].
  destruct (D i ltac:(lia)) as (Dfd & n & Dn).
  split; [|exact Dfd]. constructor.
  - intros x. unfold refs.
    assert (T : tsum (gl rest x) a1 = tsum (gl (FLoop i k :: rest) x) a).
    { apply tsum_ext2; auto. intros j. destruct (Nat.eq_dec j i) as [->|Hj].
      - rewrite E1. unfold gl. simpl. rewrite Nat.eqb_refl, E. simpl. rewrite skipn_all2 by lia. reflexivity.
      - rewrite E2 by auto. unfold gl. simpl. destruct (Nat.eqb_spec i j); [congruence|]. reflexivity. }
    rewrite T. specialize (R x). unfold refs in R. simpl in R.
    destruct (Nat.eq_dec x i) as [->|Hx].
    + rewrite E1. simpl. rewrite Nat.eqb_refl in R. lia.
    + rewrite E2 by auto. rewrite R. destruct (Nat.eqb_spec i x); [congruence|]. lia.
  - intros j Hj. destruct (Nat.eq_dec j i) as [->|Hne]; [exact E1|]. rewrite E2 in * by auto. auto.
  - intros j Hj. destruct (Nat.eq_dec j i) as [->|Hne]; [rewrite E1 in Hj; simpl in Hj; congruence|].
    rewrite E2 in * by auto. auto.
  - intros m.
    assert (Hled : ledger a1 = rem1 n (ledger a)).
    { unfold a1, really_close. simpl. rewrite Dfd, Dn. reflexivity. }
    rewrite Hled.
    pose proof (tsum_change2 (gn m) (gn m) a1 a i (gn_free _) (gn_free _)) as T.
    specialize (T ltac:(intros j Hj; rewrite E2 by auto; reflexivity)).
    assert (G1 : gn m i (slot_at a i) = if Nat.eqb n m then 1 else 0).
    { unfold gn. rewrite E, Dn. reflexivity. }
    assert (G2 : gn m i (slot_at a1 i) = 0) by (rewrite E1; reflexivity).
    rewrite G1, G2 in T. pose proof (L m) as Lm. pose proof (L n) as Ln.
    destruct (Nat.eq_dec m n) as [->|Hm].
    + rewrite cnt_rem1_same. rewrite Nat.eqb_refl in T. lia.
    + rewrite cnt_rem1_other by auto. destruct (Nat.eqb_spec n m); [congruence|]. lia.
  - intros i0 k0 Hin. assert (i0 <> i) by (intros ->; eapply Huniq; eauto).
    rewrite E2 by auto. eapply F. right. exact Hin.
  - intros i0 j ni nj. destruct (Nat.eq_dec i0 i) as [->|Hi0]; [rewrite E1; simpl; congruence|].
    rewrite (E2 i0) by auto. intros A B C Dj.
    destruct (Nat.eq_dec j i) as [->|Hj]; [rewrite E1 in Dj; simpl in Dj; discriminate|].
    rewrite E2 in Dj by auto. eapply N; eauto.
Qed.

(* one step of the machine from a state satisfying the invariant *)
Lemma cm_step_inv a stk e m' :
  Inv w a U stk -> cm_step Cur (mkcm a stk e) = inl m' ->
  Inv w (cm_a m') U (cm_stk m') /\ (e = 0 -> cm_err m' = 0).
Proof.
  intros H St. unfold cm_step in St. simpl in St. destruct stk as [|[i|i k] rest]; [discriminate| |].
  - pose proof (enter_in_use _ _ _ H) as Hu. pose proof (in_use_lt _ _ Hu) as Hlt.
    destruct (Nat.leb_spec (length (tab a)) i); [lia|]. simpl in St.
    destruct (Nat.eqb_spec (in_use (slot_at a i)) 0); [congruence|].
    destruct (Nat.eqb_spec (in_use (slot_at a i)) 1) as [E1|E1]; inversion St; subst; simpl.
    + split; auto. apply step_enter_loop; auto.
    + split; auto. apply Inv_free_if_idle. apply step_dec; auto. lia.
  - assert (E : in_use (slot_at a i) = 1) by (eapply (inv_F _ _ _ _ H); left; reflexivity).
    destruct (Nat.ltb_spec k (length (links (slot_at a i)))).
    + inversion St; subst; simpl. split; auto. apply step_push; auto.
    + rewrite E in St. simpl in St. destruct (step_finish _ _ _ _ H ltac:(lia)) as [Hi Hfd].
      inversion St; subst; simpl. rewrite Hfd. split; auto. apply Inv_free_if_idle. exact Hi.
Qed.

Lemma cm_run_inv fuel : forall a stk a' e',
  Inv w a U stk -> loopN (cm_step Cur) fuel (mkcm a stk 0) = inr (a', e') -> e' = 0 /\ Inv w a' U [].
Proof.
  induction fuel as [|fuel IH]; intros a stk a' e' H Run; [discriminate|].
  simpl in Run. destruct (cm_step Cur (mkcm a stk 0)) as [m'|r] eqn:St.
  - destruct (cm_step_inv _ _ _ _ H St) as [Hi He]. destruct m' as [a1 stk1 e1]. simpl in *.
    rewrite (He eq_refl) in Run. eapply IH; eauto.
  - inversion Run; subst. unfold cm_step in St. simpl in St. destruct stk as [|[i|i k] rest].
    + inversion St; subst. auto.
    + destruct (_ || _); [discriminate|]. destruct (Nat.eqb _ 1); discriminate.
    + destruct (_ <? _); [discriminate|]. destruct (Nat.eqb _ 0); [discriminate|]. destruct (Nat.eqb _ 0); discriminate.
Qed.

(* ADFI_close_file drops exactly the caller's reference and reports NO_ERROR *)
Lemma close_machine_ok fuel a i a' e :
  Inv w a (i :: U) [] -> adfi_close_file Cur fuel a i = Some (a', e) -> e = 0 /\ Inv w a' U [].
Proof.
  intros H Cl. unfold adfi_close_file in Cl.
  destruct (loopN _ _ _) as [|[a1 e1]] eqn:Run; [discriminate|]. inversion Cl; subst.
  eapply cm_run_inv; [|exact Run].
  destruct H as [R W D L F N]. constructor; auto.
  - intros x. rewrite R. unfold refs. simpl.
    assert (T : tsum (gl [FEnter i] x) a = tsum (gl [] x) a) by (apply tsum_ext; intros j; reflexivity).
    rewrite T. lia.
  - intros i0 k [Heq|[]]. discriminate.
Qed.
End Machine.

(* ============================================================================================ termination (Cur) *)
(* link entries not yet handed to a recursive call *)
Definition gr (stk : list frame) (i : nat) (s : slot) : nat :=
  if Nat.eqb (in_use s) 0 then 0 else length (links s) - prog stk i.
Definition wt (f : frame) : nat := match f with FEnter _ => 2 | FLoop _ _ => 1 end.
Definition phi (a : adf) (stk : list frame) : nat := 3 * tsum (gr stk) a + list_sum (map wt stk).
Definition tlinks (a : adf) : nat := tsum (gr []) a.

Lemma gr_free stk : gfree (gr stk). Proof. intros i. reflexivity. Qed.
#[global] Hint Resolve gr_free : core.

Section Termination.
Variable w : world.
Variable U : list nat.

Lemma enter_prog0 a i rest : Inv w a U (FEnter i :: rest) -> in_use (slot_at a i) = 1 -> prog rest i = 0.
Proof.
  intros H E. destruct (Nat.eq_dec (prog rest i) 0) as [|Hne]; auto. exfalso.
  pose proof (prog_in _ _ Hne) as Hin. pose proof (in_fslot_cnt _ _ Hin) as P. simpl in P.
  rewrite (inv_R _ _ _ _ H) in E. unfold refs in E. simpl in E. rewrite Nat.eqb_refl in E. lia.
Qed.

Lemma cm_step_phi a stk e m' :
  Inv w a U stk -> cm_step Cur (mkcm a stk e) = inl m' -> phi (cm_a m') (cm_stk m') < phi a stk.
Proof.
  intros H St. pose proof (cm_step_inv w U _ _ _ _ H St) as [Hi' _].
  unfold cm_step in St. simpl in St. destruct stk as [|[i|i k] rest]; [discriminate| |].
  - pose proof (enter_in_use _ _ _ _ _ H) as Hu. pose proof (in_use_lt _ _ Hu) as Hlt.
    destruct (Nat.leb_spec (length (tab a)) i); [lia|]. simpl in St.
    destruct (Nat.eqb_spec (in_use (slot_at a i)) 0); [congruence|].
    destruct (Nat.eqb_spec (in_use (slot_at a i)) 1) as [E1|E1]; inversion St; subst; simpl in *.
    + (* enter -> loop *)
      pose proof (enter_prog0 _ _ _ H E1) as P0. unfold phi. simpl.
      assert (T : tsum (gr (FLoop i 0 :: rest)) a = tsum (gr (FEnter i :: rest)) a).
      { apply tsum_ext. intros j. unfold gr. simpl. destruct (Nat.eqb_spec i j); [subst; rewrite P0|]; reflexivity. }
      rewrite T. lia.
    + (* decrement *)
      unfold phi. simpl.
      set (a1 := set_in_use a i (in_use (slot_at a i) - 1)) in *.
      assert (T : tsum (gr rest) (free_if_idle a1) = tsum (gr (FEnter i :: rest)) a).
      { apply tsum_ext2; auto. intros j.
        assert (Hd : Inv w a1 U rest) by (apply step_dec; auto; lia).
        rewrite <- (free_if_idle_slots a1 (inv_W _ _ _ _ Hd)).
        destruct (Nat.eq_dec j i) as [->|Hj].
        - unfold a1, set_in_use. rewrite slot_set_slot_eq by exact Hlt. unfold gr. simpl.
          destruct (Nat.eqb_spec (in_use (slot_at a i) - 1) 0); [lia|].
          destruct (Nat.eqb_spec (in_use (slot_at a i)) 0); [lia|]. reflexivity.
        - unfold a1, set_in_use. rewrite slot_set_slot_neq by auto. reflexivity. }
      rewrite T. lia.
  - assert (E : in_use (slot_at a i) = 1) by (eapply (inv_F _ _ _ _ H); left; reflexivity).
    destruct (Nat.ltb_spec k (length (links (slot_at a i)))) as [Hk|Hk].
    + (* push *)
      inversion St; subst; simpl in *. unfold phi. simpl.
      set (l := nth k (links (slot_at a i)) 0).
      pose proof (tsum_change2 (gr (FLoop i k :: rest)) (gr (FEnter l :: FLoop i (S k) :: rest)) a a i
                    (gr_free _) (gr_free _)) as T.
      assert (G1 : gr (FLoop i k :: rest) i (slot_at a i) = length (links (slot_at a i)) - k).
      { unfold gr. simpl. rewrite Nat.eqb_refl, E. reflexivity. }
      assert (G2 : gr (FEnter l :: FLoop i (S k) :: rest) i (slot_at a i) = length (links (slot_at a i)) - S k).
      { unfold gr. simpl. rewrite Nat.eqb_refl, E. reflexivity. }
      rewrite G1, G2 in T.
      specialize (T ltac:(intros j Hj; unfold gr; simpl; destruct (Nat.eqb_spec i j); [congruence|]; reflexivity)).
      lia.
    + (* finish *)
      rewrite E in St. simpl in St. inversion St; subst; simpl in *. unfold phi. simpl.
      pose proof (in_use_lt a i ltac:(lia)) as Hlt.
      destruct (step_finish _ _ _ _ _ _ H ltac:(lia)) as [Hf _].
      assert (T : tsum (gr rest) (free_if_idle (really_close a i)) = tsum (gr (FLoop i k :: rest)) a).
      { apply tsum_ext2; auto. intros j.
        rewrite <- (free_if_idle_slots _ (inv_W _ _ _ _ Hf)).
        destruct (Nat.eq_dec j i) as [->|Hj].
        - rewrite slot_really_close_eq by exact Hlt. unfold gr. simpl. rewrite Nat.eqb_refl, E. simpl. lia.
        - rewrite slot_really_close_neq by auto. unfold gr. simpl. destruct (Nat.eqb_spec i j); [congruence|]. reflexivity. }
      rewrite T. lia.
Qed.

Lemma cm_run_terminates fuel : forall a stk,
  Inv w a U stk -> phi a stk < fuel -> exists a', loopN (cm_step Cur) fuel (mkcm a stk 0) = inr (a', 0) /\ Inv w a' U [].
Proof.
  induction fuel as [|fuel IH]; intros a stk H Hp; [lia|].
  simpl. destruct (cm_step Cur (mkcm a stk 0)) as [m'|[a1 e1]] eqn:St.
  - destruct (cm_step_inv w U _ _ _ _ H St) as [Hi He]. pose proof (cm_step_phi _ _ _ _ H St) as Hd.
    destruct m' as [a1 stk1 e1]. simpl in *. rewrite (He eq_refl). apply IH; auto. lia.
  - assert (R : loopN (cm_step Cur) (S fuel) (mkcm a stk 0) = inr (a1, e1)) by (simpl; rewrite St; reflexivity).
    destruct (cm_run_inv w U _ _ _ _ _ H R) as [-> Hi]. eauto.
Qed.

(* ADFI_close_file (repaired) TERMINATES from every state satisfying the invariant, within 3 * (link entries of the
   files in use) + 3 steps, drops exactly the caller's reference and reports NO_ERROR *)
Lemma close_machine_total fuel a i :
  Inv w a (i :: U) [] -> 3 * tlinks a + 3 <= fuel ->
  exists a', adfi_close_file Cur fuel a i = Some (a', 0) /\ Inv w a' U [].
Proof.
  intros H Hf.
  assert (H1 : Inv w a U [FEnter i]).
  { destruct H as [R W D L F N]. constructor; auto.
    - intros x. rewrite R. unfold refs. simpl.
      assert (T : tsum (gl [FEnter i] x) a = tsum (gl [] x) a) by (apply tsum_ext; intros j; reflexivity).
      rewrite T. lia.
    - intros i0 k [Heq|[]]. discriminate. }
  assert (Hp : phi a [FEnter i] < fuel).
  { unfold phi, tlinks in *. simpl.
    assert (T : tsum (gr [FEnter i]) a = tsum (gr []) a) by (apply tsum_ext; intros j; reflexivity).
    rewrite T. lia. }
  destruct (cm_run_terminates fuel a [FEnter i] H1 Hp) as (a' & Run & Hi).
  exists a'. unfold adfi_close_file. rewrite Run. auto.
Qed.
End Termination.

(* ============================================================================================ top-level ADF operations *)
Lemma Inv_U w a U U' stk : (forall x, cnt x U = cnt x U') -> Inv w a U stk -> Inv w a U' stk.
Proof.
  intros HU [R W D L F N]. constructor; auto. intros x. rewrite R. unfold refs. rewrite HU. reflexivity.
Qed.

Lemma targets_in_use w a U i j : Inv w a U [] -> in_use (slot_at a i) <> 0 -> In j (links (slot_at a i)) ->
  in_use (slot_at a j) <> 0.
Proof.
  intros H Hi Hin. rewrite (inv_R _ _ _ _ H). unfold refs.
  pose proof (tsum_ge (gl [] j) a i (gl_free _ _)) as G.
  assert (1 <= gl [] j i (slot_at a i)).
  { unfold gl. destruct (Nat.eqb_spec (in_use (slot_at a i)) 0); [congruence|]. simpl. apply cnt_pos_in. exact Hin. }
  lia.
Qed.

Lemma find_free_spec t : find_free t <= length t /\
  (find_free t < length t -> in_use (nth (find_free t) t free_slot) = 0).
Proof.
  induction t as [|s r [IH1 IH2]]; simpl; [split; [lia|intros; lia]|].
  destruct (Nat.eqb_spec (in_use s) 0); simpl.
  - split; [lia|auto].
  - split; [lia|]. intros H. apply IH2. lia.
Qed.

Lemma slot_at_app_free t led c am k i : slot_at (mkadf (t ++ repeat free_slot k) led c am) i = slot_at (mkadf t led c am) i.
Proof.
  unfold slot_at. simpl. destruct (Nat.lt_ge_cases i (length t)) as [H|H].
  - apply app_nth1. exact H.
  - rewrite app_nth2 by lia. rewrite (nth_overflow t) by lia.
    destruct (Nat.lt_ge_cases (i - length t) k) as [H2|H2].
    + apply nth_repeat.
    + apply nth_overflow. rewrite repeat_length. lia.
Qed.

(* what ADFI_open_file does to the table *)
Lemma adfi_open_file_spec a n hdr os_ok a1 r : adfi_open_file a n hdr os_ok = (a1, r) ->
  match r with
  | Some i => in_use (slot_at a i) = 0 /\ i < length (tab a1) /\ slot_at a1 i = mkslot 1 true (Some n) [] /\
              (forall j, j <> i -> slot_at a1 j = slot_at a j) /\ ledger a1 = n :: ledger a
  | None => ledger a1 = ledger a /\
            ((forall j, in_use (slot_at a j) = 0 -> slot_at a j = free_slot) -> forall j, slot_at a1 j = slot_at a j)
  end.
Proof.
  unfold adfi_open_file. destruct (find_free_spec (tab a)) as [F1 F2].
  set (i := find_free (tab a)) in *.
  set (t1 := if negb (i <? length (tab a)) then tab a ++ repeat free_slot ADF_FILE_INC else tab a).
  set (m1 := if negb (i <? length (tab a)) then amem a ++ repeat zero_attr ADF_FILE_INC else amem a).
  assert (S1 : forall j led c am, slot_at (mkadf t1 led c am) j = slot_at a j).
  { intros j led c am. unfold t1. destruct (i <? length (tab a)); cbn [negb]; [reflexivity|]. rewrite slot_at_app_free. reflexivity. }
  assert (Li : i < length t1).
  { unfold t1. destruct (Nat.ltb_spec i (length (tab a))); cbn [negb]; [lia|]. rewrite app_length, repeat_length. unfold ADF_FILE_INC. lia. }
  assert (Z : in_use (slot_at a i) = 0).
  { destruct (Nat.lt_ge_cases i (length (tab a))) as [H|H]; [apply F2; exact H|]. rewrite slot_at_out by lia. reflexivity. }
  destruct (MAXIMUM_FILES <? i).
  - intros E. inversion E; subst. split; [reflexivity|intros _ j; apply S1].
  - destruct os_ok; intros E; inversion E; subst.
    + split; [exact Z|]. split; [simpl; rewrite upd_length; exact Li|]. split; [apply slot_at_upd_eq; exact Li|].
      split; [|reflexivity]. intros j Hj. rewrite slot_at_upd_neq by auto. apply S1.
    + split; [reflexivity|]. intros W j. destruct (Nat.eq_dec j i) as [->|Hj].
      * rewrite slot_at_upd_eq by exact Li. symmetry. apply W. exact Z.
      * rewrite slot_at_upd_neq by auto. apply S1.
Qed.

Lemma open_inv w a U a1 i n :
  Inv w a U [] -> in_use (slot_at a i) = 0 -> slot_at a1 i = mkslot 1 true (Some n) [] ->
  (forall j, j <> i -> slot_at a1 j = slot_at a j) -> ledger a1 = n :: ledger a ->
  Inv w a1 (i :: U) [].
Proof.
  intros H Z E1 E2 El. pose proof (inv_W _ _ _ _ H i Z) as Zf.
  pose proof H as [R W D L F N]. constructor.
  - intros x. unfold refs.
    assert (T : tsum (gl [] x) a1 = tsum (gl [] x) a).
    { apply tsum_ext2; auto. intros j. destruct (Nat.eq_dec j i) as [->|Hj]; [rewrite E1, Zf; reflexivity|].
      rewrite E2 by auto. reflexivity. }
    rewrite T. specialize (R x). unfold refs in R. simpl in *.
    destruct (Nat.eq_dec x i) as [->|Hx].
    + rewrite E1, Nat.eqb_refl. simpl. rewrite Z in R. lia.
    + rewrite E2 by auto. destruct (Nat.eqb_spec i x); [congruence|]. lia.
  - intros j Hj. destruct (Nat.eq_dec j i) as [->|Hne]; [rewrite E1 in Hj; simpl in Hj; lia|].
    rewrite E2 in * by auto. auto.
  - intros j Hj. destruct (Nat.eq_dec j i) as [->|Hne]; [rewrite E1; simpl; eauto|]. rewrite E2 in * by auto. auto.
  - intros m. rewrite El. simpl. rewrite L.
    pose proof (tsum_change2 (gn m) (gn m) a1 a i (gn_free _) (gn_free _)) as T.
    specialize (T ltac:(intros j Hj; rewrite E2 by auto; reflexivity)).
    rewrite E1, Zf in T.
    change (gn m i (mkslot 1 true (Some n) [])) with (if Nat.eqb n m then 1 else 0) in T.
    change (gn m i free_slot) with 0 in T. lia.
  - intros ? ? [].
  - intros i0 j ni nj. destruct (Nat.eq_dec i0 i) as [->|Hi0]; [rewrite E1; simpl; tauto|].
    rewrite (E2 i0) by auto. intros A B C Dj.
    destruct (Nat.eq_dec j i) as [->|Hj].
    + exfalso. apply (targets_in_use _ _ _ _ _ H A B). exact Z.
    + rewrite E2 in Dj by auto. eapply N; eauto.
Qed.

(* closing a slot that was opened a moment ago (Open_Error): both variants, no hypothesis on the rest of the table *)
Lemma close_fresh v fuel a1 i n a2 e :
  i < length (tab a1) -> slot_at a1 i = mkslot 1 true (Some n) [] ->
  adfi_close_file v fuel a1 i = Some (a2, e) -> a2 = free_if_idle (really_close a1 i) /\ e = 0.
Proof.
  intros Hlt E Cl. unfold adfi_close_file in Cl.
  destruct fuel as [|[|[|[|fuel]]]]; simpl in Cl; unfold cm_step in Cl; simpl in Cl;
    destruct (Nat.leb_spec (length (tab a1)) i); try lia; simpl in Cl; rewrite ?E in Cl; simpl in Cl;
    destruct v; simpl in Cl; try discriminate; rewrite ?E in Cl; simpl in Cl; try discriminate;
    inversion Cl; auto.
Qed.

Lemma adf_open_fail_ledger v fuel w a n rw a' :
  adf_database_open v fuel w a n rw = Some (a', None) -> ledger a' = ledger a.
Proof.
  unfold adf_database_open. intros H.
  assert (G : forall k, k = kind_of w n -> k <> KMissing ->
     (let '(a1, oi) := adfi_open_file a n (if header_ok k then Some (file_attr w n) else None) (os_open_ok k rw) in
         match oi with
         | None => Some (a1, None)
         | Some i => if header_ok k then Some (a1, Some i)
                     else match adfi_close_file v fuel a1 i with
                          | None => None
                          | Some (a2, _) => Some (a2, None)
                          end
         end) = Some (a', None) -> ledger a' = ledger a).
  { intros k _ _. destruct (adfi_open_file a n (if header_ok k then Some (file_attr w n) else None) (os_open_ok k rw)) as [a1 [i|]] eqn:Op;
      pose proof (adfi_open_file_spec _ _ _ _ _ _ Op) as Sp; simpl in Sp.
    - destruct (header_ok k); [discriminate|]. destruct Sp as (Z & Li & E1 & E2 & El).
      destruct (adfi_close_file v fuel a1 i) as [[a2 e]|] eqn:Cl; [|discriminate].
      intros Q. inversion Q; subst. destruct (close_fresh _ _ _ _ _ _ _ Li E1 Cl) as [-> _].
      rewrite free_if_idle_ledger. unfold really_close. simpl. rewrite E1. simpl. rewrite El. simpl.
      rewrite Nat.eqb_refl. reflexivity.
    - intros Q. inversion Q; subst. apply Sp. }
  destruct (kind_of w n) eqn:K; try (apply (G _ eq_refl); [discriminate|exact H]).
  inversion H; subst. reflexivity.
Qed.

Lemma existsb_eqb_in x l : existsb (Nat.eqb x) l = true <-> In x l.
Proof.
  rewrite existsb_exists. split.
  - intros (y & Hy & E). apply Nat.eqb_eq in E. subst. exact Hy.
  - intros H. exists x. split; auto. apply Nat.eqb_refl.
Qed.

(* ADFI_link_add(cur, li, found = 1): the link file was already open *)
Lemma link_add_found_inv w a U cur li nm n :
  Inv w a U [] -> in_use (slot_at a cur) <> 0 -> in_use (slot_at a li) <> 0 ->
  fname (slot_at a cur) = Some nm -> fname (slot_at a li) = Some n -> has_any_link w nm n = true ->
  Inv w (link_add a cur li true) U [].
Proof.
  intros H Hc Hl Nc Nl Hw. unfold link_add.
  destruct (Nat.eqb_spec cur li) as [|Hne]; [exact H|].
  destruct (existsb (Nat.eqb li) (links (slot_at a cur))) eqn:Ex; [exact H|].
  assert (Hnin : ~ In li (links (slot_at a cur))).
  { intros Hin. apply existsb_eqb_in in Hin. congruence. }
  pose proof (in_use_lt _ _ Hc) as Lc. pose proof (in_use_lt _ _ Hl) as Ll.
  set (s := slot_at a cur) in *.
  set (a1 := set_slot a cur (mkslot (in_use s) (fd_open s) (fname s) (links s ++ [li]))).
  assert (A1l : slot_at a1 li = slot_at a li) by (apply slot_set_slot_neq; auto).
  assert (Ll1 : li < length (tab a1)) by (unfold a1, set_slot; simpl; rewrite upd_length; exact Ll).
  set (a2 := set_in_use a1 li (in_use (slot_at a1 li) + 1)).
  assert (E_li : slot_at a2 li = mkslot (in_use (slot_at a li) + 1) (fd_open (slot_at a li)) (fname (slot_at a li)) (links (slot_at a li))).
  { unfold a2, set_in_use. rewrite slot_set_slot_eq by exact Ll1. rewrite A1l. reflexivity. }
  assert (E_cur : slot_at a2 cur = mkslot (in_use s) (fd_open s) (fname s) (links s ++ [li])).
  { unfold a2, set_in_use. rewrite slot_set_slot_neq by auto. unfold a1. apply slot_set_slot_eq. exact Lc. }
  assert (E_oth : forall j, j <> cur -> j <> li -> slot_at a2 j = slot_at a j).
  { intros j H1 H2. unfold a2, set_in_use. rewrite slot_set_slot_neq by auto. unfold a1. apply slot_set_slot_neq. auto. }
  assert (Led : ledger a2 = ledger a) by reflexivity.
  pose proof H as [R W D L F N]. constructor.
  - intros x. unfold refs.
    pose proof (tsum_change2 (gl [] x) (gl [] x) a a2 cur (gl_free _ _) (gl_free _ _)) as T.
    assert (G1 : gl [] x cur (slot_at a2 cur) = cnt x (links s) + (if Nat.eqb li x then 1 else 0)).
    { rewrite E_cur. unfold gl. simpl. destruct (Nat.eqb_spec (in_use s) 0); [congruence|]. rewrite cnt_app. simpl. lia. }
    assert (G2 : gl [] x cur (slot_at a cur) = cnt x (links s)).
    { fold s. unfold gl. simpl. destruct (Nat.eqb_spec (in_use s) 0); [congruence|]. reflexivity. }
    rewrite G1, G2 in T.
    specialize (T ltac:(intros j Hj; destruct (Nat.eq_dec j li) as [->|Hj2];
                         [rewrite E_li; unfold gl; simpl;
                          destruct (Nat.eqb_spec (in_use (slot_at a li)) 0); [congruence|];
                          destruct (Nat.eqb_spec (in_use (slot_at a li) + 1) 0); [lia|]; reflexivity
                         | rewrite E_oth by auto; reflexivity])).
    specialize (R x). unfold refs in R. simpl in *.
    destruct (Nat.eq_dec x li) as [->|Hx].
    + rewrite E_li. simpl. rewrite Nat.eqb_refl in T. lia.
    + destruct (Nat.eqb_spec li x); [congruence|].
      destruct (Nat.eq_dec x cur) as [->|Hx2]; [rewrite E_cur; simpl; fold s in R; lia|].
      rewrite E_oth by auto. lia.
  - intros j Hj. destruct (Nat.eq_dec j li) as [->|H1]; [rewrite E_li in Hj; simpl in Hj; lia|].
    destruct (Nat.eq_dec j cur) as [->|H2]; [rewrite E_cur in Hj; simpl in Hj; congruence|].
    rewrite E_oth in * by auto. auto.
  - intros j Hj. destruct (Nat.eq_dec j li) as [->|H1]; [rewrite E_li; simpl; apply D; exact Hl|].
    destruct (Nat.eq_dec j cur) as [->|H2]; [rewrite E_cur; simpl; apply (D cur); exact Hc|].
    rewrite E_oth in * by auto. auto.
  - intros m. rewrite Led, L. apply tsum_ext2; auto. intros j.
    destruct (Nat.eq_dec j li) as [->|H1].
    { rewrite E_li. unfold gn. simpl. destruct (Nat.eqb_spec (in_use (slot_at a li)) 0); [congruence|].
      destruct (Nat.eqb_spec (in_use (slot_at a li) + 1) 0); [lia|]. reflexivity. }
    destruct (Nat.eq_dec j cur) as [->|H2]; [rewrite E_cur; reflexivity|].
    rewrite E_oth by auto. reflexivity.
  - intros ? ? [].
  - assert (Nm : forall j, fname (slot_at a2 j) = fname (slot_at a j)).
    { intros j. destruct (Nat.eq_dec j li) as [->|H1]; [rewrite E_li; reflexivity|].
      destruct (Nat.eq_dec j cur) as [->|H2]; [rewrite E_cur; reflexivity|]. rewrite E_oth by auto. reflexivity. }
    intros i0 j ni nj. rewrite !Nm.
    destruct (Nat.eq_dec i0 cur) as [->|H2].
    + rewrite E_cur. simpl. intros _ Hin A B. apply in_app_or in Hin. destruct Hin as [Hin|[<-|[]]].
      * apply (N cur j ni nj); auto.
      * unfold s in *. rewrite Nc in A. rewrite Nl in B. inversion A; inversion B; subst. exact Hw.
    + destruct (Nat.eq_dec i0 li) as [->|H1].
      * rewrite E_li. simpl. intros _ Hin A B. apply (N li j ni nj); auto.
      * rewrite E_oth by auto. apply N.
Qed.

(* ADFI_link_add(cur, li, found = 0): the link file has just been opened for this link *)
Lemma link_add_new_inv w a U cur li nm n :
  Inv w a (li :: U) [] -> cur <> li -> in_use (slot_at a cur) <> 0 -> in_use (slot_at a li) = 1 ->
  fname (slot_at a cur) = Some nm -> fname (slot_at a li) = Some n -> has_any_link w nm n = true ->
  Inv w (link_add a cur li false) U [].
Proof.
  intros H Hne Hc Hl Nc Nl Hw. unfold link_add.
  destruct (Nat.eqb_spec cur li) as [|_]; [congruence|].
  pose proof H as [R W D L F N].
  assert (T0 : tsum (gl [] li) a = 0).
  { specialize (R li). unfold refs in R. simpl in R. rewrite Nat.eqb_refl in R. lia. }
  assert (Hnin : ~ In li (links (slot_at a cur))).
  { intros Hin. pose proof (tsum_ge (gl [] li) a cur (gl_free _ _)) as G.
    assert (1 <= gl [] li cur (slot_at a cur)).
    { unfold gl. destruct (Nat.eqb_spec (in_use (slot_at a cur)) 0); [congruence|]. simpl. apply cnt_pos_in. exact Hin. }
    lia. }
  destruct (existsb (Nat.eqb li) (links (slot_at a cur))) eqn:Ex; [apply existsb_eqb_in in Ex; tauto|].
  pose proof (in_use_lt _ _ Hc) as Lc.
  set (s := slot_at a cur) in *.
  set (a2 := set_slot a cur (mkslot (in_use s) (fd_open s) (fname s) (links s ++ [li]))).
  assert (E_cur : slot_at a2 cur = mkslot (in_use s) (fd_open s) (fname s) (links s ++ [li])).
  { apply slot_set_slot_eq. exact Lc. }
  assert (E_oth : forall j, j <> cur -> slot_at a2 j = slot_at a j).
  { intros j H1. apply slot_set_slot_neq. auto. }
  constructor.
  - intros x. unfold refs.
    pose proof (tsum_change2 (gl [] x) (gl [] x) a a2 cur (gl_free _ _) (gl_free _ _)) as T.
    assert (G1 : gl [] x cur (slot_at a2 cur) = cnt x (links s) + (if Nat.eqb li x then 1 else 0)).
    { rewrite E_cur. unfold gl. simpl. destruct (Nat.eqb_spec (in_use s) 0); [congruence|]. rewrite cnt_app. simpl. lia. }
    assert (G2 : gl [] x cur (slot_at a cur) = cnt x (links s)).
    { fold s. unfold gl. simpl. destruct (Nat.eqb_spec (in_use s) 0); [congruence|]. reflexivity. }
    rewrite G1, G2 in T.
    specialize (T ltac:(intros j Hj; rewrite E_oth by auto; reflexivity)).
    specialize (R x). unfold refs in R. simpl in *.
    destruct (Nat.eq_dec x cur) as [->|Hx].
    + rewrite E_cur. simpl. fold s in R. destruct (Nat.eqb_spec li cur); lia.
    + rewrite E_oth by auto. destruct (Nat.eqb_spec li x); lia.
  - intros j Hj. destruct (Nat.eq_dec j cur) as [->|H2]; [rewrite E_cur in Hj; simpl in Hj; congruence|].
    rewrite E_oth in * by auto. auto.
  - intros j Hj. destruct (Nat.eq_dec j cur) as [->|H2]; [rewrite E_cur; simpl; apply (D cur); exact Hc|].
    rewrite E_oth in * by auto. auto.
  - intros m. change (ledger a2) with (ledger a). rewrite L. apply tsum_ext2; auto. intros j.
    destruct (Nat.eq_dec j cur) as [->|H2]; [rewrite E_cur; reflexivity|]. rewrite E_oth by auto. reflexivity.
  - intros ? ? [].
  - assert (Nm : forall j, fname (slot_at a2 j) = fname (slot_at a j)).
    { intros j. destruct (Nat.eq_dec j cur) as [->|H2]; [rewrite E_cur; reflexivity|]. rewrite E_oth by auto. reflexivity. }
    intros i0 j ni nj. rewrite !Nm.
    destruct (Nat.eq_dec i0 cur) as [->|H2].
    + rewrite E_cur. simpl. intros _ Hin A B. apply in_app_or in Hin. destruct Hin as [Hin|[<-|[]]].
      * apply (N cur j ni nj); auto.
      * unfold s in *. rewrite Nc in A. rewrite Nl in B. inversion A; inversion B; subst. exact Hw.
    + rewrite E_oth by auto. apply N.
Qed.

Lemma find_name_spec t n li : find_name t n = Some li ->
  li < length t /\ in_use (nth li t free_slot) <> 0 /\ fname (nth li t free_slot) = Some n.
Proof.
  revert li. induction t as [|s r IH]; simpl; intros li H; [discriminate|].
  destruct (negb (Nat.eqb (in_use s) 0) && _) eqn:C.
  - inversion H; subst. apply andb_prop in C. destruct C as [C1 C2]. simpl.
    split; [lia|]. split.
    + destruct (Nat.eqb_spec (in_use s) 0); [discriminate|auto].
    + destruct (fname s) as [m|]; [|discriminate]. apply Nat.eqb_eq in C2. subst. reflexivity.
  - destruct (find_name r n) as [k|] eqn:Fk; [|discriminate]. simpl in H. inversion H; subst.
    destruct (IH k eq_refl) as (A & B & Cc). simpl. split; [lia|auto].
Qed.

(* ADF_Database_Open from a state satisfying the invariant *)
Lemma adf_open_inv w a U fuel n rw a1 r :
  Inv w a U [] -> adf_database_open Cur fuel w a n rw = Some (a1, r) ->
  match r with
  | Some i => Inv w a1 (i :: U) [] /\ in_use (slot_at a i) = 0 /\ slot_at a1 i = mkslot 1 true (Some n) [] /\
              (forall j, j <> i -> slot_at a1 j = slot_at a j)
  | None => Inv w a1 U []
  end.
Proof.
  intros H. unfold adf_database_open.
  assert (G : forall k,
     (let '(a1', oi) := adfi_open_file a n (if header_ok k then Some (file_attr w n) else None) (os_open_ok k rw) in
         match oi with
         | None => Some (a1', None)
         | Some i => if header_ok k then Some (a1', Some i)
                     else match adfi_close_file Cur fuel a1' i with
                          | None => None
                          | Some (a2, _) => Some (a2, None)
                          end
         end) = Some (a1, r) ->
     match r with
     | Some i => Inv w a1 (i :: U) [] /\ in_use (slot_at a i) = 0 /\ slot_at a1 i = mkslot 1 true (Some n) [] /\
                 (forall j, j <> i -> slot_at a1 j = slot_at a j)
     | None => Inv w a1 U []
     end).
  { intros k. destruct (adfi_open_file a n (if header_ok k then Some (file_attr w n) else None) (os_open_ok k rw)) as [a1' [i|]] eqn:Op;
      pose proof (adfi_open_file_spec _ _ _ _ _ _ Op) as Sp; simpl in Sp.
    - destruct Sp as (Z & Li & E1 & E2 & El). pose proof (open_inv _ _ _ _ _ _ H Z E1 E2 El) as Hi.
      destruct (header_ok k).
      + intros Q. inversion Q; subst. auto.
      + destruct (adfi_close_file Cur fuel a1' i) as [[a2 e]|] eqn:Cl; [|discriminate].
        intros Q. inversion Q; subst. eapply close_machine_ok; eauto.
    - intros Q. inversion Q; subst. destruct Sp as [S2 S1]. specialize (S1 (inv_W _ _ _ _ H)).
      apply (Inv_same w a); auto. }
  destruct (kind_of w n); try apply G. intros Q. inversion Q; subst. exact H.
Qed.

Lemma Inv_set_cache w a U stk c : Inv w a U stk -> Inv w (set_cache a c) U stk.
Proof. intros H. apply (Inv_same w a); auto. Qed.

Lemma chase_inv w a U fuel cur n dang a' r :
  Inv w a U [] -> chase Cur fuel w a cur n dang = Some (a', r) -> Inv w a' U [].
Proof.
  intros H. unfold chase.
  destruct ((length (tab a) <=? cur) || Nat.eqb (in_use (slot_at a cur)) 0) eqn:Bad; [intros Q; inversion Q; subst; exact H|].
  apply orb_false_elim in Bad. destruct Bad as [_ Bu]. apply Nat.eqb_neq in Bu.
  destruct (fname (slot_at a cur)) as [nm|] eqn:Nc; [|intros Q; inversion Q; subst; exact H].
  destruct (if dang then has_dlink w nm n else has_link w nm n) eqn:Hw0; simpl; [|intros Q; inversion Q; subst; exact H].
  assert (Hw : has_any_link w nm n = true).
  { unfold has_any_link. destruct dang; rewrite Hw0; [apply orb_true_r|reflexivity]. }
  destruct (match lcache a with
            | Some (c, m, li) => if Nat.eqb c cur && Nat.eqb m n && negb dang then Some li else None
            | None => None
            end) as [hli|].
  { destruct ((length (tab a) <=? hli) || Nat.eqb (in_use (slot_at a hli)) 0); intros Q; inversion Q; subst; exact H. }
  assert (G : match find_name (tab a) n with
        | Some li => let a1 := link_add a cur li true in
                     if dang then Some (a1, None) else Some (set_cache a1 (Some (cur, n, li)), Some li)
        | None => match adf_database_open Cur fuel w a n true with
                  | None => None
                  | Some (a1, None) => Some (a1, None)
                  | Some (a1, Some li) => let a2 := link_add a1 cur li false in
                                          if dang then Some (a2, None) else Some (set_cache a2 (Some (cur, n, li)), Some li)
                  end
        end = Some (a', r) -> Inv w a' U []).
  { destruct (find_name (tab a) n) as [li|] eqn:Fn.
    - destruct (find_name_spec _ _ _ Fn) as (A & B & C).
      assert (I1 : Inv w (link_add a cur li true) U []) by (eapply link_add_found_inv; eauto).
      simpl. destruct dang; intros Q; inversion Q; subst; [exact I1|apply Inv_set_cache; exact I1].
    - destruct (adf_database_open Cur fuel w a n true) as [[a1 [li|]]|] eqn:Op; [| |discriminate].
      + destruct (adf_open_inv _ _ _ _ _ _ _ _ H Op) as (Hi & Z & E1 & E2).
        assert (cur <> li) by (intros ->; congruence).
        assert (I1 : Inv w (link_add a1 cur li false) U []).
        { eapply (link_add_new_inv w a1 U cur li nm n); eauto.
          * rewrite E2 by auto. exact Bu.
          * rewrite E1. reflexivity.
          * rewrite E2 by auto. exact Nc.
          * rewrite E1. reflexivity. }
        simpl. destruct dang; intros Q; inversion Q; subst; [exact I1|apply Inv_set_cache; exact I1].
      + intros Q. inversion Q; subst. exact (adf_open_inv _ _ _ _ _ _ _ _ H Op). }
  destruct (kind_of w n); try exact G; intros Q; inversion Q; subst; exact H.
Qed.

Lemma walk_inv w U fuel chain : forall a cur a' ok,
  Inv w a U [] -> walk Cur fuel w a cur chain = Some (a', ok) -> Inv w a' U [].
Proof.
  induction chain as [|[n dang] r IH]; intros a cur a' ok H; simpl.
  - intros Q. inversion Q; subst. exact H.
  - destruct (chase Cur fuel w a cur n dang) as [[a1 [li|]]|] eqn:Ch; [| |discriminate].
    + intros Q. eapply IH; [|exact Q]. eapply chase_inv; eauto.
    + intros Q. inversion Q; subst. eapply chase_inv; eauto.
Qed.

(* ============================================================================================ acyclic link graphs *)
Lemma inlink_source w a U x : Inv w a U [] -> 0 < tsum (gl [] x) a ->
  exists i, in_use (slot_at a i) <> 0 /\ In x (links (slot_at a i)).
Proof.
  intros H P. apply tsum_pos in P. destruct P as (i & _ & Pi). exists i. unfold gl in Pi.
  destruct (Nat.eqb_spec (in_use (slot_at a i)) 0); [lia|]. split; auto. simpl in Pi. apply cnt_pos_in. exact Pi.
Qed.

Definition rk (rank : nat -> nat) (a : adf) (i : nat) : nat :=
  match fname (slot_at a i) with Some n => rank n | None => 0 end.

Lemma acyclic_all_idle w a rank : Inv w a [] [] -> acyclic w rank -> forall i, in_use (slot_at a i) = 0.
Proof.
  intros H Hac.
  set (B := list_max (map (rk rank a) (seq 0 (length (tab a))))).
  assert (HB : forall i, in_use (slot_at a i) <> 0 -> rk rank a i <= B).
  { intros i Hi. pose proof (in_use_lt _ _ Hi) as Hlt.
    pose proof (proj1 (list_max_le (map (rk rank a) (seq 0 (length (tab a)))) B) (Nat.le_refl _)) as Fa.
    rewrite Forall_forall in Fa. apply Fa. apply in_map. apply in_seq. lia. }
  assert (Up : forall i, in_use (slot_at a i) <> 0 ->
                 exists i', in_use (slot_at a i') <> 0 /\ rk rank a i < rk rank a i').
  { intros i Hi. pose proof (inv_R _ _ _ _ H i) as R. unfold refs in R. simpl in R.
    destruct (inlink_source _ _ _ i H ltac:(lia)) as (i' & Hi' & Hin). exists i'. split; auto.
    destruct (inv_D _ _ _ _ H i Hi) as (_ & n & Dn). destruct (inv_D _ _ _ _ H i' Hi') as (_ & n' & Dn').
    unfold rk. rewrite Dn, Dn'. apply Hac. eapply (inv_N _ _ _ _ H i' i); eauto. }
  assert (G : forall d i, in_use (slot_at a i) <> 0 -> B - rk rank a i <= d -> False).
  { induction d as [|d IH]; intros i Hi Hd; destruct (Up i Hi) as (i' & Hi' & Hlt); pose proof (HB i' Hi').
    - lia.
    - apply (IH i' Hi'). lia. }
  intros i. destruct (Nat.eq_dec (in_use (slot_at a i)) 0) as [|Hn]; auto. exfalso. eapply (G B i); eauto. lia.
Qed.

(* ============================================================================================ the cgio table *)
Definition handles (l : list (option nat)) : list nat :=
  flat_map (fun o => match o with Some i => [i] | None => [] end) l.

Lemma handles_upd_some l : forall k i, k < length l -> nth k l None = None ->
  (forall x, cnt x (handles (upd l k (Some i))) = (if Nat.eqb i x then 1 else 0) + cnt x (handles l)) /\
  length (handles (upd l k (Some i))) = S (length (handles l)).
Proof.
  induction l as [|o r IH]; intros k i Hk Hn; simpl in *; [lia|]. destruct k.
  - subst o. simpl. split; auto.
  - destruct (IH k i ltac:(lia) Hn) as [A B]. destruct o as [j|]; simpl.
    + split; [intros x; rewrite A; lia | rewrite B; reflexivity].
    + split; auto.
Qed.

Lemma handles_upd_none l : forall k i, nth k l None = Some i ->
  (forall x, cnt x (handles l) = (if Nat.eqb i x then 1 else 0) + cnt x (handles (upd l k None))) /\
  length (handles l) = S (length (handles (upd l k None))).
Proof.
  induction l as [|o r IH]; intros k i Hn; simpl in *; [destruct k; discriminate|]. destruct k.
  - subst o. simpl. split; auto.
  - destruct (IH k i Hn) as [A B]. destruct o as [j|]; simpl.
    + split; [intros x; rewrite A; lia | rewrite B; reflexivity].
    + split; auto.
Qed.

Lemma first_none_spec l : first_none l <= length l /\ (first_none l < length l -> nth (first_none l) l None = None).
Proof.
  induction l as [|o r [A B]]; simpl; [split; [lia|intros; lia]|]. destruct o; simpl.
  - split; [lia|]. intros H. apply B. lia.
  - split; [lia|auto].
Qed.

Lemma handles_app_none l : handles (l ++ [None]) = handles l.
Proof. unfold handles. rewrite flat_map_app. simpl. apply app_nil_r. Qed.

Lemma handles_repeat_none k : handles (repeat None k) = [].
Proof. induction k; simpl; auto. Qed.

Lemma nth_repeat_none k c : nth c (repeat (@None nat) k) None = None.
Proof. revert c. induction k; intros [|c]; simpl; auto. Qed.

Lemma handles_all_none l : (forall c, nth c l None = None) -> handles l = [].
Proof.
  induction l as [|o r IH]; intros H; [reflexivity|]. pose proof (H 0) as H0. simpl in H0. subst o. simpl.
  apply IH. intros c. apply (H (S c)).
Qed.

Lemma in_remove_all x c l : In x l -> x <> c -> In x (remove_all c l).
Proof.
  induction l as [|y r IH]; simpl; [tauto|]. intros [->|H] Hne.
  - destruct (Nat.eqb_spec x c); [congruence|]. left. reflexivity.
  - destruct (Nat.eqb_spec y c); [auto|right; auto].
Qed.

Lemma nth_some_lt {A} (l : list (option A)) c v : nth c l None = Some v -> c < length l.
Proof.
  intros H. destruct (Nat.lt_ge_cases c (length l)); auto. rewrite nth_overflow in H by lia. discriminate.
Qed.

Lemma handle_in_use w a l c idx : Inv w a (handles l) [] -> nth c l None = Some idx -> in_use (slot_at a idx) <> 0.
Proof.
  intros H Hn. rewrite (inv_R _ _ _ _ H). unfold refs.
  destruct (handles_upd_none l c idx Hn) as [A _]. rewrite A, Nat.eqb_refl. lia.
Qed.

Record IOInv (w : world) (s : io) (pend : list nat) : Prop := mkIOInv {
  io_inv : Inv w (io_adf s) (handles (iol s)) [];
  io_cnt : nopen s = length (handles (iol s));
  io_nil : nopen s = 0 -> iol s = [];
  io_pend : forall c1 idx, nth c1 (iol s) None = Some idx -> In (S c1) pend
}.

Lemma step_inv w fuel s pend o s' r :
  IOInv w s pend -> step Cur fuel w s o = Some (s', r) -> IOInv w s' (track pend o r).
Proof.
  intros [I C Z P]. destruct o as [n rw|c ch|c]; simpl.
  - (* open *)
    unfold cgio_open_file.
    assert (G : match adf_database_open Cur fuel w (io_adf s) n rw with
         | None => None
         | Some (a1, None) => Some (mkio a1 (iol s) (nopen s), None)
         | Some (a1, Some idx) =>
             let l0 := match iol s with [] => repeat None 5 | l => l end in
             let k := first_none l0 in
             let l1 := if k <? length l0 then l0 else l0 ++ [None] in
             Some (mkio a1 (upd l1 k (Some idx)) (S (nopen s)), Some (S k))
         end = Some (s', match r with ResOpen c => c | _ => None end) -> (exists c, r = ResOpen c) ->
         IOInv w s' (track pend (OOpen n rw) r)).
    { destruct (adf_database_open Cur fuel w (io_adf s) n rw) as [[a1 [idx|]]|] eqn:Op; [| |discriminate].
      - destruct (adf_open_inv _ _ _ _ _ _ _ _ I Op) as (Hi & _).
        set (l0 := match iol s with [] => repeat None 5 | l => l end).
        assert (H0 : handles l0 = handles (iol s)).
        { unfold l0. destruct (iol s); [apply handles_repeat_none|reflexivity]. }
        assert (P0 : forall c1 idx0, nth c1 l0 None = Some idx0 -> In (S c1) pend).
        { unfold l0. destruct (iol s); [intros c1 idx0; rewrite nth_repeat_none; discriminate|]. exact P. }
        set (k := first_none l0). destruct (first_none_spec l0) as [K1 K2]. fold k in K1, K2.
        set (l1 := if k <? length l0 then l0 else l0 ++ [None]).
        assert (H1 : handles l1 = handles l0).
        { unfold l1. destruct (k <? length l0); [reflexivity|apply handles_app_none]. }
        assert (Kl : k < length l1 /\ nth k l1 None = None).
        { unfold l1. destruct (Nat.ltb_spec k (length l0)); [auto|].
          assert (k = length l0) by lia. rewrite app_length. simpl. split; [lia|]. rewrite app_nth2 by lia.
          replace (k - length l0) with 0 by lia. reflexivity. }
        assert (P1 : forall c1 idx0, nth c1 l1 None = Some idx0 -> In (S c1) pend).
        { unfold l1. destruct (Nat.ltb_spec k (length l0)); [exact P0|]. intros c1 idx0 Hn.
          destruct (Nat.lt_ge_cases c1 (length l0)) as [Hc|Hc]; [rewrite app_nth1 in Hn by lia; eauto|].
          rewrite app_nth2 in Hn by lia. destruct (c1 - length l0) as [|[|q]]; simpl in Hn; discriminate. }
        destruct Kl as [Kl1 Kl2]. destruct (handles_upd_some l1 k idx Kl1 Kl2) as [A B].
        intros Q (c & ->). inversion Q; subst. simpl. constructor; simpl.
        + fold l0. fold k. fold l1. apply (Inv_U w a1 (idx :: handles (iol s))); auto. intros x. rewrite A, H1, H0. reflexivity.
        + fold l0. fold k. fold l1. rewrite B, H1, H0, C. reflexivity.
        + discriminate.
        + fold l0. fold k. fold l1. intros c1 idx0 Hn. destruct (Nat.eq_dec c1 k) as [->|Hne]; [left; reflexivity|].
          right. rewrite nth_upd_neq in Hn by auto. eauto.
      - intros Q (c & ->). inversion Q; subst. simpl. constructor; simpl; auto.
        exact (adf_open_inv _ _ _ _ _ _ _ _ I Op). }
    destruct (kind_of w n);
      try (destruct (adf_database_open Cur fuel w (io_adf s) n rw) as [[a1 [idx|]]|] eqn:Op; [| |discriminate];
           intros Q; inversion Q; subst; apply G; eauto; rewrite Op; reflexivity);
      intros Q; inversion Q; subst; simpl; constructor; auto.
  - (* walk *)
    unfold cgio_walk. destruct c as [|c1]; [intros Q; inversion Q; subst; simpl; constructor; auto|].
    destruct (nth c1 (iol s) None) as [idx|]; [|intros Q; inversion Q; subst; simpl; constructor; auto].
    destruct (walk Cur fuel w (io_adf s) idx ch) as [[a1 ok]|] eqn:Wk; [|discriminate].
    intros Q. inversion Q; subst. simpl. constructor; simpl; auto. eapply walk_inv; eauto.
  - (* close *)
    unfold cgio_close_file.
    assert (Keep0 : forall c1', (exists v, nth c1' (iol s) None = Some v) -> S c1' <> c -> In (S c1') (remove_all c pend)).
    { intros c1' (v & Hv) Hne. apply in_remove_all; [eauto|lia]. }
    destruct c as [|c1]; [intros Q; inversion Q; subst; simpl; constructor; auto; intros c1' idx Hn; apply Keep0; eauto|].
    assert (Keep : forall c1', (exists v, nth c1' (iol s) None = Some v) -> c1' <> c1 -> In (S c1') (remove_all (S c1) pend)).
    { intros c1' Hv Hne. apply Keep0; auto. }
    destruct (Nat.leb_spec (length (iol s)) c1) as [Hlen|Hlen].
    { intros Q. inversion Q; subst. simpl. constructor; auto. intros c1' idx Hn. apply Keep; eauto.
      apply nth_some_lt in Hn. lia. }
    destruct (nth c1 (iol s) None) as [idx|] eqn:Hc.
    2:{ intros Q. inversion Q; subst. simpl. constructor; auto. intros c1' idx Hn. apply Keep; eauto. congruence. }
    pose proof (handle_in_use _ _ _ _ _ I Hc) as Hu. pose proof (in_use_lt _ _ Hu) as Hlt.
    destruct (Nat.leb_spec (length (tab (io_adf s))) idx); [lia|].
    destruct (adfi_close_file Cur fuel (io_adf s) idx) as [[a1 e]|] eqn:Cl; [|discriminate].
    destruct (handles_upd_none _ _ _ Hc) as [A B].
    assert (I' : Inv w (io_adf s) (idx :: handles (upd (iol s) c1 None)) []).
    { apply (Inv_U w _ (handles (iol s))); auto. }
    destruct (close_machine_ok _ _ _ _ _ _ _ I' Cl) as [-> I1]. simpl.
    intros Q. inversion Q; subst. simpl.
    destruct (Nat.eqb_spec (nopen s - 1) 0) as [E0|E0].
    + assert (Hnil : handles (upd (iol s) c1 None) = []) by (apply length_zero_iff_nil; lia).
      rewrite Hnil in I1. constructor; simpl; auto. intros c1' idx'. destruct c1'; discriminate.
    + constructor; simpl; auto; try lia.
      intros c1' idx' Hn. destruct (Nat.eq_dec c1' c1) as [->|Hne].
      * rewrite nth_upd_eq in Hn by lia. discriminate.
      * rewrite nth_upd_neq in Hn by auto. apply Keep; eauto.
Qed.

Lemma run_inv w fuel ops : forall s pend s' pend' rs,
  IOInv w s pend -> run Cur fuel w s pend ops = Some (s', pend', rs) -> IOInv w s' pend'.
Proof.
  induction ops as [|o r IH]; intros s pend s' pend' rs H; simpl.
  - intros Q. inversion Q; subst. exact H.
  - destruct (step Cur fuel w s o) as [[s1 x]|] eqn:St; [|discriminate].
    destruct (run Cur fuel w s1 (track pend o x) r) as [[[s2 p2] xs]|] eqn:Rn; [|discriminate].
    intros Q. inversion Q; subst. eapply IH; [|exact Rn]. eapply step_inv; eauto.
Qed.

Lemma Inv_init w : Inv w (mkadf [] [] None []) [] [].
Proof.
  assert (S0 : forall i, slot_at (mkadf [] [] None []) i = free_slot) by (intros [|i]; reflexivity).
  constructor.
  - intros x. rewrite S0. reflexivity.
  - intros i _. apply S0.
  - intros i H. rewrite S0 in H. simpl in H. congruence.
  - intros n. reflexivity.
  - intros ? ? [].
  - intros i j ni nj H. rewrite S0 in H. simpl in H. congruence.
Qed.

Lemma IOInv_init w : IOInv w io_init [].
Proof. constructor; simpl; auto. apply Inv_init. intros c1 idx. destruct c1; discriminate. Qed.

(* The positive theorem for the repaired ADFI_close_file *)
Theorem balanced_fixed : forall w rank fuel ops s rs,
  acyclic w rank -> run Cur fuel w io_init [] ops = Some (s, [], rs) -> clean s.
Proof.
  intros w rank fuel ops s rs Hac Rn.
  pose proof (run_inv _ _ _ _ _ _ _ _ (IOInv_init w) Rn) as [I C Z P].
  assert (Hh : handles (iol s) = []).
  { apply handles_all_none. intros c. destruct (nth c (iol s) None) eqn:E; auto. exfalso. eapply P; eauto. }
  rewrite Hh in I, C. simpl in C. specialize (Z C).
  pose proof (acyclic_all_idle _ _ _ I Hac) as Idle.
  unfold clean. repeat split; auto.
  apply all_cnt_zero_nil. intros n. rewrite (inv_L _ _ _ _ I). apply tsum_zero. intros i. unfold gn.
  rewrite Idle. reflexivity.
Qed.

(* ============================================================================================ failing opens *)
(* a failing cgio_open_file leaves the ledger exactly as it was: both variants, any state *)
Theorem failing_open_ledger : forall v fuel w s n rw s',
  cgio_open_file v fuel w s n rw = Some (s', None) -> ledger (io_adf s') = ledger (io_adf s).
Proof.
  intros v fuel w s n rw s'. unfold cgio_open_file.
  assert (G : match adf_database_open v fuel w (io_adf s) n rw with
         | None => None
         | Some (a1, None) => Some (mkio a1 (iol s) (nopen s), None)
         | Some (a1, Some idx) =>
             let l0 := match iol s with [] => repeat None 5 | l => l end in
             let k := first_none l0 in
             let l1 := if k <? length l0 then l0 else l0 ++ [None] in
             Some (mkio a1 (upd l1 k (Some idx)) (S (nopen s)), Some (S k))
         end = Some (s', None) -> ledger (io_adf s') = ledger (io_adf s)).
  { destruct (adf_database_open v fuel w (io_adf s) n rw) as [[a1 [idx|]]|] eqn:Op; try discriminate.
    intros Q. inversion Q; subst. simpl. eapply adf_open_fail_ledger; eauto. }
  destruct (kind_of w n); try exact G; intros Q; inversion Q; reflexivity.
Qed.

(* the same for the file a link traversal tries to open (ADFI_link_open) *)
Theorem failing_link_open_ledger : forall v fuel w a n a',
  adf_database_open v fuel w a n true = Some (a', None) -> ledger a' = ledger a.
Proof. intros. eapply adf_open_fail_ledger; eauto. Qed.

(* ============================================================================================ the code before 909ac4d *)
(* W1: B = F1 has /D; A = F0 links to B; C = F2 links to A.  A is opened once, C twice; both C handles read through A
   (the first one on to B).  Closing the first C handle closes B although A (still open, still linking to it) remains;
   closing A then reports ADF_FILE_NOT_OPENED (its links[] names the dead slot) AFTER having dropped A's reference, so
   cgio keeps the slot: every file has been closed by its user and one cgio handle is held for ever. *)
Definition w1 : world := mkW [KOk; KOk; KOk] [(0, 1); (2, 0)] [] [].
Definition ops1 : list op :=
  [OOpen 0 false; OOpen 2 false; OOpen 2 false; OWalk 2 [(0, false); (1, false)]; OWalk 3 [(0, false)]; OClose 2; OClose 1; OClose 3].


(* evaluate a concrete run, then read the claims off the resulting state (no existential variables under vm_compute) *)
Ltac run_concrete :=
  match goal with
  | |- exists s rs, ?R = Some (s, ?p, rs) /\ _ =>
      let E := fresh "E" in
      destruct R as [[[? ?] ?]|] eqn:E; [|vm_compute in E; discriminate];
      vm_compute in E; inversion E; subst; clear E;
      eexists; eexists; split; [reflexivity|]
  end.

Lemma refuted_shared_link :
  exists s rs, run Old 1000 w1 io_init [] ops1 = Some (s, [], rs) /\
               nth 5 rs (ResWalk false) = ResClose ROk /\
               nth 6 rs (ResWalk false) = ResClose (RAdf ADF_FILE_NOT_OPENED) /\
               nopen s = 1 /\ iol s <> [] /\ ~ clean s.
Proof.
  run_concrete. split; [reflexivity|]. split; [reflexivity|]. split; [reflexivity|]. split; [discriminate|].
  intros (_ & _ & H & _). discriminate.
Qed.

(* the moment of the premature close: A (slot 0) is in use and lists slot 2 in links[], slot 2 (B) is closed *)
Lemma refuted_premature_close :
  exists s rs, run Old 1000 w1 io_init [] [OOpen 0 false; OOpen 2 false; OWalk 2 [(0, false); (1, false)]; OClose 2] = Some (s, [1], rs) /\
               in_use (slot_at (io_adf s) 0) = 1 /\ links (slot_at (io_adf s) 0) = [2] /\
               in_use (slot_at (io_adf s) 2) = 0 /\ ledger (io_adf s) = [0].
Proof. run_concrete. repeat split; reflexivity. Qed.

(* W2: two files that link to each other.  ADFI_close_file never returns, whatever the fuel (the C: stack overflow). *)
Definition w2 : world := mkW [KOk; KOk] [(0, 1); (1, 0)] [] [].
Definition ops2 : list op := [OOpen 0 false; OWalk 1 [(1, false); (0, false)]; OClose 1].
Definition a2 : adf := mkadf [mkslot 2 true (Some 0) [1]; mkslot 1 true (Some 1) [0]; free_slot; free_slot; free_slot] [1; 0]
                            (Some (1, 0, 0)) [layout_attr LNative; layout_attr LNative; zero_attr; zero_attr; zero_attr].

Definition top_ok (stk : list frame) : Prop :=
  match stk with
  | FEnter 0 :: _ | FEnter 1 :: _ | FLoop 0 0 :: _ | FLoop 1 0 :: _ => True
  | _ => False
  end.

Lemma cycle_diverges fuel : forall stk e, top_ok stk -> exists m, loopN (cm_step Old) fuel (mkcm a2 stk e) = inl m.
Proof.
  induction fuel as [|fuel IH]; intros stk e H; [eexists; reflexivity|].
  destruct stk as [|[[|[|i]]|[|[|i]] [|k]] rest]; simpl in H; try contradiction; simpl; unfold cm_step; simpl; apply IH; exact I.
Qed.

Lemma refuted_cycle : forall fuel, run Old fuel w2 io_init [] ops2 = None.
Proof.
  intros fuel. unfold ops2.
  set (s1 := mkio (mkadf [mkslot 1 true (Some 0) []; free_slot; free_slot; free_slot; free_slot] [0] None
                         [layout_attr LNative; zero_attr; zero_attr; zero_attr; zero_attr])
                  [Some 0; None; None; None; None] 1).
  set (s2 := mkio a2 [Some 0; None; None; None; None] 1).
  assert (S1 : step Old fuel w2 io_init (OOpen 0 false) = Some (s1, ResOpen (Some 1))) by reflexivity.
  assert (S2 : step Old fuel w2 s1 (OWalk 1 [(1, false); (0, false)]) = Some (s2, ResWalk true)) by reflexivity.
  assert (S3 : step Old fuel w2 s2 (OClose 1) = None).
  { unfold step, cgio_close_file, s2. cbn [iol io_adf length nth Nat.leb tab a2]. unfold adfi_close_file.
    destruct (cycle_diverges fuel [FEnter 0] 0 I) as [m ->]. reflexivity. }
  cbn [run]. rewrite S1. cbn [run]. rewrite S2. cbn [run]. rewrite S3. reflexivity.
Qed.

(* the repair Cur terminates on W2 but the two files then keep each other open: a reference-count cycle *)
Lemma fixA_cycle_leaks :
  exists s rs, run Cur 1000 w2 io_init [] ops2 = Some (s, [], rs) /\ ledger (io_adf s) = [1; 0] /\
               in_use (slot_at (io_adf s) 0) = 1 /\ in_use (slot_at (io_adf s) 1) = 1 /\ iol s = [].
Proof. run_concrete. repeat split; reflexivity. Qed.

(* and Cur on W1: every close succeeds and nothing is left *)
Lemma fixA_w1_clean : exists s rs, run Cur 1000 w1 io_init [] ops1 = Some (s, [], rs) /\ cleanb s = true /\
  forallb (fun r => match r with ResClose ROk | ResOpen (Some _) | ResWalk true => true | _ => false end) rs = true.
Proof. run_concrete. split; reflexivity. Qed.

(* ============================================================================================ the MLL table *)
Record MInv (m : mll) (pend : list nat) : Prop := mkMInv {
  m_cnt : n_open m = length (handles (files m));
  m_nil : n_open m = 0 -> files m = [] /\ fsize m = 0;
  m_held : forall h, cnt h (held m) = cnt h (handles (files m));
  m_pend : forall i h, nth i (files m) None = Some h -> In (i + 1 + foffset m) pend
}.

Lemma handles_app l1 l2 : handles (l1 ++ l2) = handles l1 ++ handles l2.
Proof. unfold handles. apply flat_map_app. Qed.

Lemma upd_app_last {A} (l : list A) x y : upd (l ++ [x]) (length l) y = l ++ [y].
Proof. induction l as [|h t IH]; simpl; [reflexivity|]. rewrite IH. reflexivity. Qed.

Lemma mll_release_inv v m pend i h :
  MInv m pend -> nth i (files m) None = Some h ->
  MInv (mll_release v m i h) (remove_all (i + 1 + foffset m) pend).
Proof.
  intros [C Z H P] Hn. destruct (handles_upd_none _ _ _ Hn) as [A B]. unfold mll_release.
  destruct (Nat.eqb_spec (n_open m - 1) 0) as [E|E].
  - assert (Hnil : handles (upd (files m) i None) = []) by (apply length_zero_iff_nil; lia).
    constructor; simpl; auto.
    + intros h'. destruct (Nat.eq_dec h' h) as [->|Hne].
      * rewrite cnt_rem1_same, H, A, Hnil, Nat.eqb_refl. simpl. lia.
      * rewrite cnt_rem1_other by auto. rewrite H, A, Hnil. destruct (Nat.eqb_spec h h'); [congruence|]. reflexivity.
    + intros i' h'. destruct i'; discriminate.
  - constructor; simpl; try lia.
    + intros h'. destruct (Nat.eq_dec h' h) as [->|Hne].
      * rewrite cnt_rem1_same, H, A, Nat.eqb_refl. lia.
      * rewrite cnt_rem1_other by auto. rewrite H, A. destruct (Nat.eqb_spec h h'); [congruence|]. reflexivity.
    + intros i' h' Hn'. destruct (Nat.eq_dec i' i) as [->|Hne].
      * pose proof (nth_some_lt _ _ _ Hn). rewrite nth_upd_eq in Hn' by lia. discriminate.
      * rewrite nth_upd_neq in Hn' by auto. apply in_remove_all; [eauto|lia].
Qed.

Lemma remove_all_notin c l : ~ In c l -> remove_all c l = l.
Proof.
  induction l as [|y r IH]; simpl; [reflexivity|]. intros H. destruct (Nat.eqb_spec y c); [subst; tauto|].
  rewrite IH by tauto. reflexivity.
Qed.

Lemma MInv_weaken m p p' : (forall x, In x p -> In x p') -> MInv m p -> MInv m p'.
Proof. intros Hs [C Z H P]. constructor; auto. intros i h Hn. apply Hs. eauto. Qed.

Lemma in_remove_all_inv x c l : In x (remove_all c l) -> In x l /\ x <> c.
Proof.
  induction l as [|y r IH]; simpl; [tauto|]. destruct (Nat.eqb_spec y c).
  - intros H. destruct (IH H). auto.
  - intros [->|H]; [auto|]. destruct (IH H). auto.
Qed.

Lemma mstep_inv m pend o : MInv m pend ->
  let '(m1, p1, _) := mstep MCur m pend o in MInv m1 p1.
Proof.
  intros HI. pose proof HI as [C Z H P]. destruct o as [oc|fn ok]; simpl.
  - (* cg_open *)
    assert (Succ : forall sz, MInv (mkmll (S (n_open m)) (files m ++ [Some (nexth m)]) sz (foffset m) (nexth m :: held m) (S (nexth m)))
                           (length (files m ++ [Some (nexth m)]) + foffset m :: pend)).
    { intros sz. constructor; simpl.
      - rewrite handles_app, app_length. simpl. lia.
      - discriminate.
      - intros h. rewrite handles_app, cnt_app. simpl. rewrite H. lia.
      - intros i h Hn. destruct (Nat.lt_ge_cases i (length (files m))) as [Hi|Hi].
        + rewrite app_nth1 in Hn by lia. right. eauto.
        + rewrite app_nth2 in Hn by lia. destruct (i - length (files m)) as [|[|q]] eqn:Eq; simpl in Hn; try discriminate.
          left. rewrite app_length. simpl. lia. }
    destruct oc; simpl; auto.
    + (* late failure, repaired: the entry is released as cg_close would *)
      set (sz := if Nat.eqb (fsize m) 0 then 1 else if Nat.eqb (length (files m)) (fsize m) then 2 * fsize m else fsize m).
      pose proof (Succ sz) as S1.
      pose proof (mll_release_inv MCur _ _ (length (files m)) (nexth m) S1) as R. simpl in R.
      rewrite app_nth2, Nat.sub_diag in R by lia. specialize (R eq_refl).
      eapply MInv_weaken; [|exact R].
      intros x Hx.
      destruct (Nat.eqb_spec (length (files m ++ [Some (nexth m)]) + foffset m) (length (files m) + 1 + foffset m)) as [_|Hne].
      * apply in_remove_all_inv in Hx. tauto.
      * exfalso. apply Hne. rewrite app_length. simpl. lia.
  - (* cg_close *)
    unfold cg_close.
    assert (NoLive : forall i h, nth i (files m) None = Some h -> i + 1 + foffset m = fn ->
                     ((fn <=? foffset m) || (length (files m) <? fn - foffset m)) = false /\
                     nth (fn - foffset m - 1) (files m) None = Some h).
    { intros i h Hn <-. pose proof (nth_some_lt _ _ _ Hn). split.
      - apply orb_false_intro; [apply Nat.leb_gt; lia|apply Nat.ltb_ge; lia].
      - replace (i + 1 + foffset m - foffset m - 1) with i by lia. exact Hn. }
    assert (Same : forall b : bool, (forall i h, nth i (files m) None = Some h -> i + 1 + foffset m <> fn) ->
                   MInv m (if b then remove_all fn pend else pend)).
    { intros b Hno. destruct b; auto. constructor; auto. intros i h Hn. apply in_remove_all; eauto. }
    destruct ((fn <=? foffset m) || (length (files m) <? fn - foffset m)) eqn:Bad; simpl.
    + apply Same. intros i h Hn Heq. destruct (NoLive i h Hn Heq). congruence.
    + destruct (nth (fn - foffset m - 1) (files m) None) as [h|] eqn:En; simpl.
      * apply orb_false_elim in Bad. destruct Bad as [B1 B2]. apply Nat.leb_gt in B1. apply Nat.ltb_ge in B2.
        destruct ok; simpl; auto.
        pose proof (mll_release_inv MCur _ _ _ _ HI En) as R.
        replace (fn - foffset m - 1 + 1 + foffset m) with fn in R by lia. exact R.
      * apply Same. intros i h Hn Heq. destruct (NoLive i h Hn Heq). congruence.
Qed.

Lemma mrun_inv ops : forall m pend, MInv m pend -> let '(m1, p1) := mrun MCur m pend ops in MInv m1 p1.
Proof.
  induction ops as [|o r IH]; intros m pend H; simpl; auto.
  pose proof (mstep_inv m pend o H) as S1. destruct (mstep MCur m pend o) as [[m1 p1] x]. apply IH. exact S1.
Qed.

Theorem mll_released_fixed : forall ops m, mrun MCur mll_init [] ops = (m, []) -> mclean m.
Proof.
  intros ops m Rn.
  assert (I0 : MInv mll_init []).
  { constructor; simpl; auto. intros i h. destruct i; discriminate. }
  pose proof (mrun_inv ops _ _ I0) as R. rewrite Rn in R. destruct R as [C Z H P].
  assert (Hh : handles (files m) = []).
  { apply handles_all_none. intros c. destruct (nth c (files m) None) eqn:E; auto. exfalso. eapply P; eauto. }
  rewrite Hh in C, H. simpl in C. destruct (Z C) as [Z1 Z2].
  unfold mclean. repeat split; auto. apply all_cnt_zero_nil. intros h. rewrite H. reflexivity.
Qed.

(* the code as it is: one cg_open that fails after cgio_open_file succeeded; the user holds nothing, the library does *)
Lemma mll_refuted_failed_open :
  exists m, mrun MOld mll_init [] [MOpen OLateFail] = (m, []) /\ n_open m = 1 /\ held m = [0] /\ files m = [Some 0].
Proof. eexists. repeat split; reflexivity. Qed.

Lemma mll_fixed_failed_open :
  exists m, mrun MCur mll_init [] [MOpen OLateFail] = (m, []) /\ n_open m = 0 /\ held m = [] /\ files m = [].
Proof. eexists. repeat split; reflexivity. Qed.

(* ============================================================================================ the full statements *)
Lemma refcount_balanced_refuted : ~ refcount_balanced Old.
Proof.
  intros H. destruct refuted_shared_link as (s & rs & Rn & _ & _ & _ & _ & Nc). exact (Nc (H _ _ _ _ _ Rn)).
Qed.

Lemma handles_released_refuted : ~ handles_released MOld.
Proof.
  intros H. destruct mll_refuted_failed_open as (m & Rn & N1 & _). destruct (H _ _ Rn) as (N0 & _). congruence.
Qed.

Lemma handles_released_fixed : handles_released MCur.
Proof. exact mll_released_fixed. Qed.

Lemma w1_acyclic : acyclic w1 (fun n => match n with 2 => 2 | 0 => 1 | _ => 0 end).
Proof.
  intros a b H. unfold has_any_link, has_link, has_dlink, w1 in H. simpl in H.
  destruct a as [|[|[|a]]]; destruct b as [|[|[|b]]]; simpl in H; try discriminate; lia.
Qed.

Lemma invariant_example :
  exists s rs, run Cur 1000 w1 io_init [] [OOpen 0 false; OOpen 2 false; OWalk 2 [(0, false); (1, false)]] = Some (s, [2; 1], rs) /\
               IOInv w1 s [2; 1] /\ in_use (slot_at (io_adf s) 0) = 2 /\ ledger (io_adf s) = [1; 2; 0].
Proof.
  destruct (run Cur 1000 w1 io_init [] [OOpen 0 false; OOpen 2 false; OWalk 2 [(0, false); (1, false)]]) as [[[s p] rs]|] eqn:E;
    [|vm_compute in E; discriminate].
  pose proof (run_inv _ _ _ _ _ _ _ _ (IOInv_init w1) E) as I.
  vm_compute in E. inversion E; subst. eexists. eexists. split; [reflexivity|]. split; [exact I|]. split; reflexivity.
Qed.

Lemma mll_fixed_example :
  exists m, mrun MCur mll_init [] [MOpen OSuccess; MOpen OLateFail; MOpen OSuccess; MClose 1 true; MClose 3 true] = (m, []) /\
            n_open m = 0 /\ held m = [] /\ files m = [] /\ foffset m = 3.
Proof. eexists. repeat split; reflexivity. Qed.

(* the full statement, without the acyclicity hypothesis, is still false of the CURRENT close (known finding
   fd:adf-link-cycle-keeps-files-open): reference counts cannot release files that link to each other *)
Lemma refcount_balanced_cur_refuted : ~ refcount_balanced Cur.
Proof.
  intros H. destruct fixA_cycle_leaks as (s & rs & Rn & L & _). destruct (H _ _ _ _ _ Rn) as (_ & Hl & _).
  rewrite L in Hl. discriminate.
Qed.

(* ============================================================================================ dangling paths *)
(* a link whose FILE exists and whose stored PATH does not: the traversal fails ... *)
Lemma chase_dangling_fails v fuel w a cur n a' r : chase v fuel w a cur n true = Some (a', r) -> r = None.
Proof.
  unfold chase.
  destruct ((length (tab a) <=? cur) || Nat.eqb (in_use (slot_at a cur)) 0); [intros Q; inversion Q; reflexivity|].
  destruct (fname (slot_at a cur)) as [nm|]; [|intros Q; inversion Q; reflexivity].
  destruct (has_dlink w nm n); simpl; [|intros Q; inversion Q; reflexivity].
  assert (E : match lcache a with
              | Some (c, m, li) => if Nat.eqb c cur && Nat.eqb m n && false then Some li else None
              | None => None
              end = None).
  { destruct (lcache a) as [[[c m] li]|]; [rewrite andb_false_r|]; reflexivity. }
  rewrite E.
  destruct (kind_of w n); try (intros Q; inversion Q; reflexivity);
    (destruct (find_name (tab a) n); [intros Q; inversion Q; reflexivity|];
     destruct (adf_database_open v fuel w a n true) as [[a1 [li|]]|]; intros Q; inversion Q; reflexivity).
Qed.

(* ... and what it opened on the way is owned: the reference-count invariant (every open file is accounted for by a
   handle or by a link entry of a file in use) still holds, so the file is released when the referencing file closes.
   This is the order open -> ADFI_link_add -> path lookup of ADFI_chase_link. *)
Lemma failing_lookup_owned w a U fuel cur n a' r :
  Inv w a U [] -> chase Cur fuel w a cur n true = Some (a', r) -> r = None /\ Inv w a' U [].
Proof. intros H C. split; [eapply chase_dangling_fails; eauto|eapply chase_inv; eauto]. Qed.

(* file 0 links to the existing file 1 with a path that does not exist there: the lookup fails, file 1 is open and listed in
   links[] of file 0; closing file 0 releases both *)
Definition w3 : world := mkW [KOk; KOk] [] [(0, 1)] [].
Lemma dangling_example :
  exists s rs, run Cur 1000 w3 io_init [] [OOpen 0 false; OWalk 1 [(1, true)]] = Some (s, [1], rs) /\
               rs = [ResOpen (Some 1); ResWalk false] /\ ledger (io_adf s) = [1; 0] /\ links (slot_at (io_adf s) 0) = [1] /\
  exists s' rs', run Cur 1000 w3 io_init [] [OOpen 0 false; OWalk 1 [(1, true)]; OClose 1] = Some (s', [], rs') /\ cleanb s' = true.
Proof.
  destruct (run Cur 1000 w3 io_init [] [OOpen 0 false; OWalk 1 [(1, true)]]) as [[[s p] rs]|] eqn:E; [|vm_compute in E; discriminate].
  vm_compute in E. inversion E; subst. clear E. eexists. eexists. split; [reflexivity|].
  split; [reflexivity|]. split; [reflexivity|]. split; [reflexivity|].
  destruct (run Cur 1000 w3 io_init [] [OOpen 0 false; OWalk 1 [(1, true)]; OClose 1]) as [[[s' p'] rs']|] eqn:E2; [|vm_compute in E2; discriminate].
  vm_compute in E2. inversion E2; subst. eexists. eexists. split; reflexivity.
Qed.

(* ------------------------------------------------------------------ HDF5 side: the forced close of ADFH_Database_Close *)
Lemma forced_close_all (s : h5ids) : forced_close passes_cur s = no_ids.
Proof.
  unfold forced_close. destruct (Nat.eqb (id_total s) 0) eqn:E.
  - apply Nat.eqb_eq in E. destruct s as [a b c d]. unfold id_total in E. simpl in E.
    assert (a = 0 /\ b = 0 /\ c = 0 /\ d = 0) as (-> & -> & -> & ->) by lia. reflexivity.
  - destruct s as [a b c d]. unfold passes_cur, no_ids. simpl. rewrite !Nat.min_id, !Nat.sub_diag. reflexivity.
Qed.

Lemma forced_close_releases (s : h5ids) : file_released (forced_close passes_cur s) = true /\
  forall k, id_count (forced_close passes_cur s) k = 0.
Proof. rewrite forced_close_all. split; [reflexivity | intros []; reflexivity]. Qed.

Lemma h5session_releases (ops : list h5op) : file_released (h5session ops) = true.
Proof. unfold h5session. apply forced_close_releases. Qed.

(* the pairing matters: a block whose dataset step counts datatypes leaves the datasets (and with them the file) open *)
Lemma forced_close_pairing_example :
  let ps := [(IType, IType); (IType, IDset); (IAttr, IAttr); (IGroup, IGroup)] in
  forced_close ps (fold_left h5step [HNode; HFailedRead] no_ids) = mkids 0 1 0 0 /\
  file_released (forced_close ps (fold_left h5step [HNode; HFailedRead] no_ids)) = false.
Proof. split; reflexivity. Qed.

(* ------------------------------------------------------------------ refused opens: the library holds what it held *)
Lemma same_holdings_refl a : same_holdings a a.
Proof. split; [reflexivity|]. intros j. split; auto. Qed.

Lemma slot_at_really_close a i j : i < length (tab a) ->
  slot_at (really_close a i) j = if Nat.eq_dec j i then free_slot else slot_at a j.
Proof.
  intros Li. unfold really_close. destruct (Nat.eq_dec j i) as [->|Hj].
  - apply slot_at_upd_eq. exact Li.
  - rewrite slot_at_upd_neq by auto. unfold slot_at. reflexivity.
Qed.

Lemma adf_open_fail_holdings v fuel w a n rw a' :
  adf_database_open v fuel w a n rw = Some (a', None) -> same_holdings a a'.
Proof.
  intros H. split; [eapply adf_open_fail_ledger; eauto|].
  unfold adf_database_open in H.
  assert (G : forall k,
     (let '(a1, oi) := adfi_open_file a n (if header_ok k then Some (file_attr w n) else None) (os_open_ok k rw) in
         match oi with
         | None => Some (a1, None)
         | Some i => if header_ok k then Some (a1, Some i)
                     else match adfi_close_file v fuel a1 i with
                          | None => None
                          | Some (a2, _) => Some (a2, None)
                          end
         end) = Some (a', None) ->
     forall j, in_use (slot_at a' j) = in_use (slot_at a j) /\ (in_use (slot_at a j) <> 0 -> slot_at a' j = slot_at a j)).
  { intros k. destruct (adfi_open_file a n (if header_ok k then Some (file_attr w n) else None) (os_open_ok k rw)) as [a1 [i|]] eqn:Op.
    - pose proof (adfi_open_file_spec _ _ _ _ _ _ Op) as Sp; simpl in Sp.
      destruct (header_ok k); [discriminate|]. destruct Sp as (Z & Li & E1 & E2 & El).
      destruct (adfi_close_file v fuel a1 i) as [[a2 e]|] eqn:Cl; [|discriminate].
      intros Q. inversion Q; subst. destruct (close_fresh _ _ _ _ _ _ _ Li E1 Cl) as [-> _].
      assert (RC : forall j, slot_at (really_close a1 i) j = if Nat.eq_dec j i then free_slot else slot_at a j).
      { intros j. rewrite slot_at_really_close by exact Li. destruct (Nat.eq_dec j i); [reflexivity|apply E2; auto]. }
      assert (RI : forall j, in_use (slot_at (really_close a1 i) j) = in_use (slot_at a j)).
      { intros j. rewrite RC. destruct (Nat.eq_dec j i) as [->|]; [rewrite Z; reflexivity|reflexivity]. }
      intros j. unfold free_if_idle. destruct (forallb _ _) eqn:Fa.
      + assert (I0 : in_use (slot_at a j) = 0).
        { rewrite <- RI. rewrite (forallb_idle_all _ Fa). reflexivity. }
        split; [|intros C; contradiction].
        rewrite I0. unfold slot_at. simpl. destruct j; reflexivity.
      + split; [apply RI|]. intros Hj. rewrite RC. destruct (Nat.eq_dec j i) as [->|]; [congruence|reflexivity].
    - (* ADFI_open_file itself failed: the entry it had chosen was free *)
      unfold adfi_open_file in Op. destruct (find_free_spec (tab a)) as [F1 F2].
      set (i := find_free (tab a)) in *.
      set (t1 := if negb (i <? length (tab a)) then tab a ++ repeat free_slot ADF_FILE_INC else tab a) in *.
      set (m1 := if negb (i <? length (tab a)) then amem a ++ repeat zero_attr ADF_FILE_INC else amem a) in *.
      assert (S1 : forall j led c am, slot_at (mkadf t1 led c am) j = slot_at a j).
      { intros j led c am. unfold t1. destruct (i <? length (tab a)); cbn [negb]; [reflexivity|]. rewrite slot_at_app_free. reflexivity. }
      assert (Li : i < length t1).
      { unfold t1. destruct (Nat.ltb_spec i (length (tab a))); cbn [negb]; [lia|]. rewrite app_length, repeat_length. unfold ADF_FILE_INC. lia. }
      assert (Z : in_use (slot_at a i) = 0).
      { destruct (Nat.lt_ge_cases i (length (tab a))) as [H0|H0]; [apply F2; exact H0|]. rewrite slot_at_out by lia. reflexivity. }
      destruct (MAXIMUM_FILES <? i).
      + inversion Op; subst. intros Q. inversion Q; subst. intros j. rewrite S1. split; auto.
      + destruct (os_open_ok k rw); [discriminate|]. inversion Op; subst. intros Q. inversion Q; subst.
        intros j. destruct (Nat.eq_dec j i) as [->|Hj].
        * rewrite slot_at_upd_eq by exact Li. rewrite Z. split; [reflexivity|intros C; contradiction].
        * rewrite slot_at_upd_neq by auto. rewrite S1. split; auto. }
  destruct (kind_of w n) as [| | |code|] eqn:K.
  - exact (G KOk H).
  - inversion H; subst. intros j. split; auto.
  - exact (G KGarbage H).
  - exact (G (KBadHdr code) H).
  - exact (G KDir H).
Qed.

(* THE STATEMENT about refused opens: whatever the state, an open of a file the world marks as refused (missing, not a
   database, a directory, or a database whose header ADF_Database_Open rejects after having opened the file) returns an
   error, leaves the cgio table as it was, and the ADF layer holds exactly what it held *)
Theorem refused_open_keeps_holdings : forall v fuel w s n rw s' r,
  refused (kind_of w n) = true -> cgio_open_file v fuel w s n rw = Some (s', r) ->
  r = None /\ same_holdings (io_adf s) (io_adf s') /\ iol s' = iol s /\ nopen s' = nopen s.
Proof.
  intros v fuel w s n rw s' r Rf. unfold cgio_open_file.
  assert (G : forall code, kind_of w n = KBadHdr code ->
         match adf_database_open v fuel w (io_adf s) n rw with
         | None => None
         | Some (a1, None) => Some (mkio a1 (iol s) (nopen s), None)
         | Some (a1, Some idx) =>
             let l0 := match iol s with [] => repeat None 5 | l => l end in
             let k := first_none l0 in
             let l1 := if k <? length l0 then l0 else l0 ++ [None] in
             Some (mkio a1 (upd l1 k (Some idx)) (S (nopen s)), Some (S k))
         end = Some (s', r) ->
         r = None /\ same_holdings (io_adf s) (io_adf s') /\ iol s' = iol s /\ nopen s' = nopen s).
  { intros code K. destruct (adf_database_open v fuel w (io_adf s) n rw) as [[a1 [idx|]]|] eqn:Op; try discriminate.
    - exfalso. unfold adf_database_open in Op. rewrite K in Op. simpl in Op.
      destruct (adfi_open_file (io_adf s) n None true) as [a0 [i|]]; [|discriminate].
      destruct (adfi_close_file v fuel a0 i) as [[? ?]|]; discriminate.
    - intros Q. inversion Q; subst. simpl. split; [reflexivity|]. split; [|split; reflexivity].
      eapply adf_open_fail_holdings; eauto. }
  destruct (kind_of w n) eqn:K; try discriminate Rf;
    try (intros Q; inversion Q; subst; split; [reflexivity|]; split; [apply same_holdings_refl|split; reflexivity]).
  apply (G _ eq_refl).
Qed.

(* file 1 carries a minor format revision newer than the library's (ADF error 57 = INVALID_VERSION, raised after the file was
   opened): refused three times between uses of file 0, and a link to it followed -- nothing but file 0 is ever held *)
Definition w5 : world := mkW [KOk; KBadHdr 57] [(0, 1)] [] [].
Lemma refused_example :
  exists s rs, run Cur 1000 w5 io_init [] [OOpen 1 false; OOpen 0 false; OOpen 1 true; OWalk 1 [(1, false)]; OOpen 1 false] = Some (s, [1], rs) /\
               rs = [ResOpen None; ResOpen (Some 1); ResOpen None; ResWalk false; ResOpen None] /\ ledger (io_adf s) = [0] /\
               nopen s = 1 /\ in_use (slot_at (io_adf s) 0) = 1 /\ in_use (slot_at (io_adf s) 1) = 0.
Proof.
  destruct (run Cur 1000 w5 io_init [] [OOpen 1 false; OOpen 0 false; OOpen 1 true; OWalk 1 [(1, false)]; OOpen 1 false]) as [[[s p] rs]|] eqn:E;
    [|vm_compute in E; discriminate].
  vm_compute in E. inversion E; subst. clear E. eexists. eexists. split; [reflexivity|]. repeat split.
Qed.
