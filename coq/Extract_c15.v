(* Extract_c15.v -- extraction of the C15 model (Compact + the regenerated table) to OCaml. ExtrOcamlBasic only. *)
From Coq Require Import Extraction ExtrOcamlBasic.
From CgnsV Require Import Compact CompactProofs Gen_C15.
Extraction Language OCaml.
Set Extraction KeepSingleton.
Extraction "extracted/c15/model.ml" Compact.expected_toks Compact.states_after Compact.safe_order Compact.fault_safe
  Compact.exec Compact.trace Compact.resolve CompactProofs.code_plain CompactProofs.code_symlink CompactProofs.code_ok.
