(* AdfWalk.v -- C13: ADFI_read_file, ADF_Database_Open and the node-level operations of ADF_interface.c /
   ADF_internals.c that a read-only client performs (names, labels, types, dimensions, children, child lookup,
   link chasing, data), as fuelled total functions over the byte string of the file, with sized buffers.
   No proofs in this file. *)
From Coq Require Import ZArith List Bool.
From CgnsV Require Import ListX Fuel AdfCodec.
Import ListNotations.
Local Open Scope Z_scope.

Record fstate := { f_bytes : bytes; f_len : Z; f_attr : fattr }.

Section WithFixes.
Variable cfg : fixes.        (* which repairs of notes/C13-fixes the transcribed code contains *)

(* ---------------------------------------------------------------- ADFI_read_file (+ fseek + read) *)
Definition read_file (f : fstate) (p : ptr) (len : Z) : out bytes :=
  let '(blk, off) := p in
  if (len + off) mod W64 >? BLK then
    (* direct: seek to block*4096+offset (64-bit wrap, negative off_t rejected), read exactly len bytes *)
    let pos := (blk * BLK + off) mod W64 in
    if pos >=? H63 then Err E_MAX_FILE_SIZE
    else if len <? 0 then Err E_FREAD
    else if len =? 0 then Ok []
    else if pos + len <=? f_len f then Ok (sliceZ (f_bytes f) pos len) else Err E_FREAD
  else
    (* buffered: (re)read the whole 4096-byte block; a short read is accepted when at least 1 byte came *)
    let base := (blk * BLK) mod W64 in
    if base >=? H63 then Err E_MAX_FILE_SIZE
    else let avail := Z.min BLK (f_len f - base) in
      if avail <=? 0 then Err E_FREAD
      else if fx_short cfg && ((len <? 0) || (off + len >? avail)) then Err E_FREAD     (* repair 13 *)
      else if len <? 0 then OOBW 6                       (* memcpy(data, buf+off, (size_t)len) *)
      else if len =? 0 then Ok []
      else if off + len <=? avail then Ok (sliceZ (f_bytes f) (base + off) len)
      else Stale.                                        (* bytes of rd_block_buffer beyond num_in_rd_block *)

(* ADFI_read_disk_pointer_from_disk *)
Definition rdpfd (f : fstate) (p : ptr) : out ptr :=
  if snd p >? BLK then Err E_BLOCK_OFFSET
  else d <- read_file f p 12 ;; dp_dec (f_attr f) d.

(* ADFI_file_block_offset_2_ID followed by ADFI_ID_2_file_block_offset: 38-bit block, 12-bit offset *)
Definition id_of_ptr (p : ptr) : out ptr :=
  if snd p >=? BLK then Err E_BLOCK_OFFSET else Ok (fst p mod 274877906944, snd p).

(* ---------------------------------------------------------------- open *)
Definition open_attr (bs : bytes) : fattr :=
  if 102 <=? Z.of_nat (length bs)
  then {| fa_old := negb (nth 25 bs 0 =? 66); fa_fmt := nth 100 bs 0; fa_os := nth 101 bs 0 |}
  else {| fa_old := false; fa_fmt := 0; fa_os := 0 |}.
Definition mkfile (bs : bytes) : fstate := {| f_bytes := bs; f_len := Z.of_nat (length bs); f_attr := open_attr bs |}.

Definition read_file_header (f : fstate) : out file_header :=
  d <- read_file f (0, 0) 186 ;; dec_file_header cfg (f_attr f) d.

(* cgio_check_file, ADF branch (after libhdf5 declined the file) : 1 = ADF, 2 = HDF5 signature, 0 = neither *)
Definition adf_magic := [65;68;70;32;68;97;116;97;98;97;115;101;32;86;101;114;115;105;111;110].
Definition hdf5_sig := [137;72;68;70;13;10;26;10].
Definition check_file (bs : bytes) : Z :=
  if Z.of_nat (length bs) <? 32 then 0
  else if beq (sub bs 4 20) adf_magic then 1
  else if beq (sub bs 0 8) hdf5_sig then 2 else 0.

(* ADF_Database_Open(file, "READ_ONLY", "NATIVE") on a little-endian 64-bit machine *)
Definition database_open (bs : bytes) : out (fstate * ptr) :=
  let f := mkfile bs in
  h <- read_file_header f ;;
  let w := fh_what h in
  old <- (if nth 25 w 0 =? 66 then Ok (fa_old (f_attr f))
          else if nth 25 w 0 =? 65 then Ok true else Err E_INVALID_VERSION) ;;
  if nth 28 w 0 =? 62 then Err E_INVALID_VERSION else
  minor <- hex2uint 0 255 (sub w 26 2) ;;
  if minor >? 2 then Err E_INVALID_VERSION else
  root <- id_of_ptr (fh_root h) ;;
  let f' := {| f_bytes := bs; f_len := f_len f;
               f_attr := {| fa_old := old; fa_fmt := fh_fmt h; fa_os := fh_os h |} |} in
  if fh_fmt h =? 78 then
    (if beq (firstn 6 (fh_sizes h)) [1; 2; 4; 8; 4; 8] then Ok (f', root) else Err E_MACHINE_FILE)
  else Ok (f', root).

(* ---------------------------------------------------------------- strings *)
(* strcspn(s, ">"): the index of the first '>' or NUL; None = neither inside s *)
Fixpoint first_stop (s : bytes) : option nat :=
  match s with [] => None | c :: t => if (c =? 62) || (c =? 0) then Some O else option_map S (first_stop t) end.

Fixpoint drop_blanks (r : bytes) : bytes := match r with c :: t => if c =? 32 then drop_blanks t else r | [] => r end.
(* ADFI_string_2_C_string *)
Definition c_string (s : bytes) (n : nat) : bytes := rev (drop_blanks (rev (cstr_or_all (firstn n s)))).
(* ADFI_compare_node_names(name[32], new_name) *)
Definition names_match (name32 new : bytes) : bool :=
  let k := Nat.min (length new) 32 in
  beq (firstn k name32) (firstn k new) && forallb (fun c => c =? 32) (skipn k name32).
(* successive ADFI_strtok(.., "/") results *)
Fixpoint split_slash_aux (s cur : bytes) : list bytes :=
  match s with
  | [] => match cur with [] => [] | _ => [rev cur] end
  | c :: t => if c =? 47 then match cur with [] => split_slash_aux t [] | _ => rev cur :: split_slash_aux t [] end
              else split_slash_aux t (c :: cur)
  end.
Definition split_slash (s : bytes) : list bytes := split_slash_aux s [].
Fixpoint index_of (c : Z) (s : bytes) : option nat :=
  match s with [] => None | x :: t => if x =? c then Some O else option_map S (index_of c t) end.

(* ADF_Database_Version(root, version[cap], ..): the text between "@(#)" and '>' of the what field.
   Legacy: strcspn runs over struct FILE_HEADER as it lies in memory -- what[32] is followed by tag0, the creation
   date, tag1, the modification date, tag2, the two format letters and tag3 (106 characters), then padding. *)
Definition VER_CAP := 33.
Definition database_version (f : fstate) (cap : Z) : out bytes :=
  h <- read_file_header f ;;
  let what := fh_what h in
  if fx_ver cfg then
    let L := match first_stop (firstn 32 what) with Some k => k | None => length (firstn 32 what) end in
    let v := c_string (skipn 4 what) (L - 4) in
    if Z.of_nat (length v) + 1 >? cap then OOBW 9 else Ok v
  else
    let mem := what ++ tag_AdF 0 ++ fh_cdate h ++ tag_AdF 1 ++ fh_mdate h ++ tag_AdF 2 ++ [fh_fmt h; fh_os h] ++ tag_AdF 3 in
    match first_stop mem with
    | None => OOBW 9
    | Some L => let v := c_string (skipn 4 mem) (L - 4) in
                if Z.of_nat (length v) + 1 >? cap then OOBW 9 else Ok v
    end.

(* ---------------------------------------------------------------- chunks *)
Definition read_node_header (f : fstate) (p : ptr) : out node_header :=
  d <- read_file f p 246 ;; dec_node_header cfg (f_attr f) d.

(* the 'z' run of ADFI_read_chunk_length: state (count, cur) *)
Definition recast {A B} (r : out A) : out B := bind r (fun _ => OutOfFuel).   (* r is not Ok *)

Definition zstep (f : fstate) (st : Z * ptr) : (Z * ptr) + out Z :=
  let '(count, cur) := st in
  let count := count + 1 in
  match adjust (fst cur, snd cur + 1) with
  | Ok cur' =>
      match read_file f cur' 1 with
      | Ok c => if nth 0 c 0 =? 122 then inl (count, cur') else inr (Ok count)
      | Err e => if (e =? 13) || (e =? 15) then inr (Ok count) else inr (Err e)
      | r => inr (recast r)
      end
  | r => inr (recast r)
  end.

Definition of_loop {S A} (r : S + out A) : out A := match r with inl _ => OutOfFuel | inr o => o end.

(* ADFI_read_chunk_length: (tag, end-of-chunk-tag pointer) *)
Definition read_chunk_length (f : fstate) (p : ptr) : out (bytes * ptr) :=
  if (fst p =? 0) && (snd p =? 0) then Ok (tag_AdF 0, (0, 182))
  else if (fst p =? 0) && (snd p =? 186) then Ok (tag_fCbt, (0, 262))
  else
    c0 <- read_file f p 1 ;;
    if nth 0 c0 0 =? 122 then
      count <- of_loop (loopN (zstep f) (Z.to_nat (f_len f) + 2) (0, p)) ;;
      e <- adjust (fst p, (snd p + count - 4) mod W64) ;;
      Ok ([122; 122; 122; 122], e)
    else
      info <- read_file f p 16 ;;
      let tag := sub info 0 4 in
      if tag_eq_ci tag tag_NoDe then e <- adjust (fst p, snd p + 242) ;; Ok (tag, e)
      else e <- dp_dec (f_attr f) (sub info 4 12) ;; Ok (tag, e).

(* ADFI_read_sub_node_table into a buffer of [cap] entries (filled front to back) *)
Definition snt_step (f : fstate) (n cap : Z) (st : Z * ptr * list (bytes * ptr))
  : (Z * ptr * list (bytes * ptr)) + out (list (bytes * ptr)) :=
  let '(i, cur, acc) := st in
  if i >=? n then inr (Ok (rev acc)) else
  match (cur1 <- adjust cur ;;
         nm <- read_file f cur1 32 ;;
         if i >=? cap then OOBW 1 else
         cur2 <- adjust (fst cur1, snd cur1 + 32) ;;
         cp <- rdpfd f cur2 ;;
         Ok (i + 1, (fst cur2, snd cur2 + 12), (nm, cp) :: acc)) with
  | Ok st' => inl st'
  | r => inr (recast r)
  end.

Definition snt_count (p e : ptr) : Z := ((((fst e - fst p) * BLK + (snd e - snd p)) mod W64) mod W32) / 44.

(* [cap] = entries_for_sub_nodes of the node header = the size of the caller's array; repair 01 passes it in *)
Definition read_sub_node_table (f : fstate) (p : ptr) (cap : Z) : out (list (bytes * ptr)) :=
  '(_, e) <- read_chunk_length f p ;;
  if fx_snt cfg && negb (snt_count p e =? cap) then Err E_SNT_ENTRIES_BAD else
  cur <- adjust (fst p, snd p + 16) ;;
  of_loop (loopN (snt_step f (snt_count p e) cap) (Z.to_nat (f_len f / 44) + 2) (0, cur, [])).

(* ADFI_read_data_chunk_table into a buffer of [cap] entries *)
Definition dct_step (f : fstate) (n cap : Z) (st : Z * ptr * list (ptr * ptr))
  : (Z * ptr * list (ptr * ptr)) + out (list (ptr * ptr)) :=
  let '(i, cur, acc) := st in
  if i >=? n then inr (Ok (rev acc)) else
  match (cur1 <- adjust (fst cur, snd cur + 12) ;;
         s <- rdpfd f cur1 ;;
         if i >=? cap then OOBW 2 else
         cur2 <- adjust (fst cur1, snd cur1 + 12) ;;
         e <- rdpfd f cur2 ;;
         Ok (i + 1, cur2, (s, e) :: acc)) with
  | Ok st' => inl st'
  | r => inr (recast r)
  end.

Definition dct_count (p e : ptr) : Z := ((((fst e - fst p) * BLK + (snd e - snd p)) - 16) mod W64) / 24.

Definition read_dct (f : fstate) (p : ptr) (cap : Z) : out (list (ptr * ptr)) :=
  '(tag, e) <- read_chunk_length f p ;;
  if negb (tag_eq_ci tag tag_DCtb) then Err E_DISK_TAG else
  if fx_dct cfg && negb (dct_count p e =? cap) then Err E_DISK_TAG else          (* repair 02 *)
  tbl <- of_loop (loopN (dct_step f (dct_count p e) cap) (Z.to_nat (f_len f / 24) + 2) (0, (fst p, snd p + 4), [])) ;;
  t <- read_file f e 4 ;;
  if negb (tag_eq_ci t tag_dcTE) then Err E_DISK_TAG else Ok tbl.

(* ---------------------------------------------------------------- ADFI_check_4_child_name *)
(* sub_node_table[i] for a buffer of [cap] cells of which the first [length tbl] were written *)
Definition tbl_get {A} (tbl : list A) (cap i : Z) (site : Z) : out A :=
  match nth_error tbl (Z.to_nat i) with
  | Some e => Ok e
  | None => if i <? cap then Uninit else OOBR site
  end.

Fixpoint c4c_loop (tbl : list (bytes * ptr)) (cap : Z) (snt : ptr) (name : bytes) (n : nat) (i : Z)
  : out (option ptr) :=
  match n with
  | O => Ok None
  | S n' =>
      e <- tbl_get tbl cap i 1 ;;
      if names_match (fst e) name then
        _ <- adjust (fst snt, snd snt + 16 + 44 * i) ;; Ok (Some (snd e))
      else c4c_loop tbl cap snt name n' (i + 1)
  end.

(* found child's location, or None *)
Definition check_4_child_name (f : fstate) (parent : ptr) (name : bytes) : out (option ptr) :=
  h <- read_node_header f parent ;;
  if nh_nsub h =? 0 then Ok None else
  let cap := nh_entries h in
  tbl <- (if cap >? 0 then read_sub_node_table f (nh_snt h) cap else Ok []) ;;
  c4c_loop tbl cap (nh_snt h) name (Z.to_nat (toS32 (nh_nsub h))) 0.

(* ---------------------------------------------------------------- data types (ADFI_evaluate_datatype) *)
Definition INTMAX := 2147483647.
Definition dt_sizes (sz : list Z) (c1 c2 : Z) : option (Z * Z) :=
  let s i := nth i sz 0 in
  if (c1 =? 73) && (c2 =? 52) then Some (s 2%nat, 4)          (* I4 *)
  else if (c1 =? 73) && (c2 =? 56) then Some (s 3%nat, 8)     (* I8 *)
  else if (c1 =? 85) && (c2 =? 52) then Some (s 2%nat, 4)     (* U4 *)
  else if (c1 =? 85) && (c2 =? 56) then Some (s 3%nat, 8)     (* U8 *)
  else if (c1 =? 82) && (c2 =? 52) then Some (s 4%nat, 4)     (* R4 *)
  else if (c1 =? 82) && (c2 =? 56) then Some (s 5%nat, 8)     (* R8 *)
  else if (c1 =? 88) && (c2 =? 52) then Some (2 * s 4%nat, 8) (* X4 *)
  else if (c1 =? 88) && (c2 =? 56) then Some (2 * s 5%nat, 16)(* X8 *)
  else if (c1 =? 66) && (c2 =? 49) then Some (1, 1)           (* B1 *)
  else if ((c1 =? 67) && (c2 =? 49)) || ((c1 =? 76) && (c2 =? 75)) then Some (s 0%nat, 1)  (* C1, LK *)
  else None.

(* array length: legacy lets  array_size * 10 + digit  overflow (UB); repair 07 refuses it first *)
Fixpoint dt_digits (s : bytes) (acc : Z) : out (Z * bytes) :=
  match s with
  | c :: t => if (48 <=? c) && (c <=? 57) then
                if fx_dtov cfg && (acc >? 214748363) then Err E_INVALID_DATA_TYPE       (* (INT_MAX - 9) / 10 *)
                else let a := acc * 10 + (c - 48) in if a >? INTMAX then UB else dt_digits t a
              else Ok (acc, s)
  | [] => Ok (acc, s)
  end.

(* *total += size * count  (ADFI_add_type_bytes of repair 07; legacy: plain int arithmetic, overflow = UB) *)
Definition add_bytes (total size count : Z) : out Z :=
  let s := total + size * count in
  if fx_dtov cfg then (if s >? INTMAX then Err E_INVALID_DATA_TYPE else Ok s)
  else if (size * count >? INTMAX) || (s >? INTMAX) then UB else Ok s.

(* one iteration per token; [tokcap] = number of elements of the caller's tokenized_data_type[].
   Result (file_bytes, machine_bytes, sizes_equal): sizes_equal = every token left in the array -- the terminating
   one carries the totals -- has file size = machine size (what ADFI_file_and_machine_compare looks at) *)
Fixpoint dt_parse (fuel : nat) (sz : list Z) (tokcap : Z) (s : bytes) (pos0 : bool) (ntok fb mb : Z) (teq : bool)
  : out (Z * Z * bool) :=
  match fuel with
  | O => OutOfFuel
  | S fu =>
    match s with
    | [] => if ntok >=? tokcap then OOBW 4 else Ok (fb, mb, teq && (fb =? mb))
    | c1 :: r1 =>
      let c2 := nth 0 r1 0 in
      if (c1 =? 77) && (c2 =? 84) then                       (* MT *)
        (if ntok >=? tokcap then OOBW 4
         else if pos0 && (match r1 with [_] => true | _ => false end) then Ok (0, 0, true) else Err E_INVALID_DATA_TYPE)
      else match dt_sizes sz c1 c2 with
      | None => Err E_INVALID_DATA_TYPE
      | Some (sf, sm) =>
        if ntok >=? tokcap then OOBW 4 else
        let r2 := tl r1 in
        match r2 with
        | [] => fb' <- add_bytes fb sf 1 ;; mb' <- add_bytes mb sm 1 ;;
                dt_parse fu sz tokcap [] false (ntok + 1) fb' mb' (teq && (sf =? sm))
        | c3 :: r3 =>
          if c3 =? 91 then                                     (* '[' *)
            '(n, r4) <- dt_digits r3 0 ;;
            match r4 with
            | c4 :: r5 =>
                if negb (c4 =? 93) then Err E_INVALID_DATA_TYPE else
                let r6 := match r5 with c5 :: r => if c5 =? 44 then r else r5 | [] => r5 end in
                fb' <- add_bytes fb sf n ;; mb' <- add_bytes mb sm n ;;
                dt_parse fu sz tokcap r6 false (ntok + 1) fb' mb' (teq && (sf =? sm))
            | [] => Err E_INVALID_DATA_TYPE
            end
          else if c3 =? 44 then
            fb' <- add_bytes fb sf 1 ;; mb' <- add_bytes mb sm 1 ;;     (* the token is overwritten by the next *)
            dt_parse fu sz tokcap r3 false ntok fb' mb' teq
          else Err E_INVALID_DATA_TYPE
        end
      end
    end
  end.

Definition eval_dtype (f : fstate) (dtype : bytes) (tokcap : Z) : out (Z * Z * bool) :=
  let s := map upc (c_string dtype 32) in
  match s with
  | [] => Err E_LEN_ZERO
  | _ => h <- read_file_header f ;; dt_parse 40 (fh_sizes h) tokcap s true 0 0 0 true
  end.

(* ---------------------------------------------------------------- data chunks *)
(* ADFI_file_and_machine_compare on a little-endian 64-bit machine ('L' = 76, 'B' = 66): may the bytes be moved
   without translation?  [teq] = the token sizes of the data type agree (file header vs this machine).  Legacy trusts
   the header when format and OS size are the machine's; repair 14 always looks at the sizes. *)
Definition direct_read_ok (f : fstate) (teq : bool) : bool :=
  (fa_fmt (f_attr f) =? 76) && (if fx_sizes cfg then teq else (fa_os (f_attr f) =? 66) || teq).
Definition CONV_BUF := 100000.

(* ADFI_read_data_chunk; returns the bytes and checks them against the room left in the destination buffer
   ([room] bytes; site of the buffer in [site]).  [fb] = file bytes of one element (data_size) *)
Definition read_data_chunk (f : fstate) (p : ptr) (fb : Z) (teq : bool) (chunk_bytes start total room site : Z) : out bytes :=
  if total + start >? chunk_bytes then Err E_DATA_TOO_LONG else
  '(tag, e) <- read_chunk_length f p ;;
  if negb (tag_eq_ci tag tag_DaTa) then Err E_DISK_TAG else
  t <- read_file f e 4 ;;
  if negb (tag_eq_ci t tag_dEnD) then Err E_DISK_TAG else
  ds <- adjust (fst p, (snd p + start + 16) mod W64) ;;
  let chunk_total := toS64 (snd e - snd ds + start + (fst e - fst ds) * BLK) in
  if chunk_bytes >? chunk_total then Err E_DATA_TOO_LONG else
  if direct_read_ok f teq then
    d <- read_file f ds total ;;
    if total >? room then OOBW site else Ok d
  else if (fa_fmt (f_attr f) =? 76) && (fa_os (f_attr f) =? 66) && (fb >? 0) && (fb <=? CONV_BUF) then
    (* ADFI_read_data_translated between equal formats: the first buffer-full is read, then
       ADFI_convert_number_format answers CONVERSION_FORMATS_EQUAL *)
    let n := (Z.quot total fb) mod W64 in
    if n =? 0 then Ok [] else
    _ <- read_file f ds (Z.min n (CONV_BUF / fb) * fb) ;; Err E_CONV_FORMATS_EQUAL
  else Ext.

Definition prod_dims (h : node_header) : Z :=
  fold_left Z.mul (firstn (Z.to_nat (nh_ndims h)) (nh_dims h)) 1.

Fixpoint rad_loop (f : fstate) (teq : bool) (tbl : list (ptr * ptr)) (cap : Z) (n : nat) (i total nread mb fb room : Z) (acc : bytes)
  : out (Z * Z * bytes) :=                                   (* (bytes_read, room left, data) *)
  match n with
  | O => Ok (nread, room, acc)
  | S n' =>
      e <- tbl_get tbl cap i 2 ;;
      let '(s, en) := e in
      let btr := toS64 ((fst en - fst s) * BLK + (snd en - snd s) - 16) in
      if fx_rad cfg && (btr <? 0) then Err E_DISK_TAG else          (* repair 15 *)
      let btr := if nread + btr >? total then total - nread else btr in
      if btr =? 0 then Ok (nread, room, acc) else
      d <- read_data_chunk f s fb teq btr 0 btr room 7 ;;
      rad_loop f teq tbl cap n' (i + 1) total (nread + btr) mb fb (room - Z.quot (btr * mb) fb) (acc ++ d)
  end.

(* strncmp(m_data_type, node.data_type, 2) == 0 *)
Definition strncmp2_eq (m d : bytes) : bool :=
  let m := m ++ [0; 0] in
  (nth 0 m 0 =? nth 0 d 0) && ((nth 0 m 0 =? 0) || (nth 1 m 0 =? nth 1 d 0)).

(* ADF_Read_All_Data(ID, m_data_type, data) on the (link-chased) node header, data buffer of [cap] bytes.
   Ok (w, data): w = 0 plain success, 33 / 55 = the NO_DATA / INCOMPLETE_DATA "warnings" (buffer zero-filled) *)
Definition read_all_data (f : fstate) (h : node_header) (mtype : bytes) (cap : Z) : out (Z * bytes) :=
  (* strncmp(m, type, 2) != 0 || (m[2] == 0 && type[2] != ' ' && type[2] != 0)   -- the second test is repair 08 *)
  let c2 := nth 2 (nh_dtype h) 0 in
  if negb (strncmp2_eq mtype (nh_dtype h)) ||
     (fx_rtype cfg && (nth 2 (mtype ++ [0; 0; 0]) 0 =? 0) && negb ((c2 =? 32) || (c2 =? 0)))
  then Err E_INVALID_DATA_TYPE else
  '(fb, mb, teq) <- eval_dtype f (nh_dtype h) 12 ;;
  if (fb =? 0) || (nh_ndims h =? 0) then Err E_NO_DATA else
  let total := toS64 (fb * prod_dims h) in
  if nh_nchunks h =? 0 then
    (if (Z.quot (toS64 (total * mb)) fb) mod W64 >? cap then OOBW 7 else Ok (E_NO_DATA, []))
  else if nh_nchunks h =? 1 then
    d <- read_data_chunk f (nh_data h) fb teq total 0 total cap 7 ;; Ok (0, d)
  else
    tbl <- read_dct f (nh_data h) (nh_nchunks h) ;;
    '(nread, room, d) <- rad_loop f teq tbl (nh_nchunks h) (Z.to_nat (nh_nchunks h)) 0 total 0 mb fb cap [] ;;
    if nread <? total then
      (* memset(data_pointer, 0, ..): legacy counts the missing bytes of the file, repair 15 those of memory *)
      let z := if fx_rad cfg then Z.quot (toS64 ((total - nread) * mb)) fb else total - nread in
      if z mod W64 >? room then OOBW 7 else Ok (E_INCOMPLETE_DATA, d)
    else Ok (0, d).

(* ---------------------------------------------------------------- links *)
Definition is_LK (h : node_header) : bool := (nth 0 (nh_dtype h) 0 =? 76) && (nth 1 (nh_dtype h) 0 =? 75).

(* ADF_Is_Link *)
Definition is_link (f : fstate) (id : ptr) : out Z :=
  h <- read_node_header f id ;; Ok (if is_LK h then toS32 (nth 0 (nh_dims h) 0) else 0).

Definition LINK_BUF := 5122.      (* char link_data[ADF_FILENAME_LENGTH + ADF_MAX_LINK_DATA_SIZE + 1 + 1] *)

(* the tail of ADF_Get_Link_Path: split the NUL-terminated link text at the separator '>' *)
Definition split_link (full : bytes) (capf capp : Z) : out (bytes * bytes) :=
  let s := cstr_or_all full in
  match index_of 62 s with
  | Some (S k) =>
      let file := firstn (S k) s in let path := skipn (S (S k)) s in
      if (fx_lfile cfg && (Z.of_nat (S k) >? 1024)) || (fx_lpath cfg && (Z.of_nat (length path) >? 4096)) then Err E_LEN_BIG else
      if (Z.of_nat (S k) + 1 >? capf) || (Z.of_nat (length path) + 1 >? capp) then OOBW 8 else Ok (file, path)
  | sep => (* no file part: the payload starts with the separator, or has none; the path is &link_data[1] *)
         let guard := match sep with None => fx_lnosep cfg | _ => fx_lpath cfg end in
         match full with
         | [_] | [] => Uninit
         | _ :: t => let path := cstr_or_all t in
                     if guard && (Z.of_nat (length path) >? 4096) then Err E_LEN_BIG else
                     if Z.of_nat (length path) + 1 >? capp then OOBW 8 else Ok ([], path)
         end
  end.

(* ADF_Get_Link_Path into file[capf], name_in_file[capp] *)
Definition get_link_path (f : fstate) (id : ptr) (capf capp : Z) : out (bytes * bytes) :=
  h <- read_node_header f id ;;
  if negb (is_LK h) then Err E_NOT_A_LINK else
  let c2 := nth 2 (nh_dtype h) 0 in
  if fx_link cfg && negb ((c2 =? 32) || (c2 =? 0)) then Err E_INVALID_DATA_TYPE else
  '(fb, mb, teq) <- eval_dtype f (nh_dtype h) 2 ;;
  let d0 := nth 0 (nh_dims h) 0 in
  if fx_link cfg && negb (nh_ndims h =? 1) then Err E_BAD_NDIMS else
  if fx_link cfg && ((fb <? 1) || (d0 <? 1) || (d0 >? (LINK_BUF - 1) / fb)) then Err E_BAD_DIM_VALUE else
  if negb (fx_link cfg) && negb (fb =? 1) then Ext else      (* legacy: file_bytes * (int)dim in int arithmetic *)
  let total := toS32 (fb * toS32 d0) in
  d <- read_data_chunk f (nh_data h) fb teq total 0 total LINK_BUF 3 ;;
  if d0 >=? LINK_BUF then OOBW 3 else
  split_link (firstn (Z.to_nat d0) d ++ [0]) capf capp.          (* link_data[dim] = 0 *)

(* ADFI_chase_link with ADF_Get_Node_ID passed in (they are mutually recursive in the C) *)
Fixpoint chase_loop (g : ptr -> bytes -> out ptr) (f : fstate) (n : nat) (id : ptr) (depth : Z) : out (ptr * node_header) :=
  match n with
  | O => Err E_LINKS_TOO_DEEP
  | S n' =>
      h <- read_node_header f id ;;
      if is_LK h then
        '(file, path) <- get_link_path f id 1025 4097 ;;
        match file with
        | _ :: _ => Ext
        | [] =>
            t <- g id [47] ;;
            t2 <- (match g t path with Err e => if e =? 29 then Err E_LINK_TARGET else Err e | r => r end) ;;
            if depth + 1 >? 100 then Err E_LINKS_TOO_DEEP else chase_loop g f n' t2 (depth + 1)
        end
      else Ok (id, h)
  end.

(* the token loop of ADF_Get_Node_ID *)
Fixpoint gni_tokens (chase : ptr -> out (ptr * node_header)) (f : fstate) (toks : list bytes) (parent cur : ptr)
  : out ptr :=
  match toks with
  | [] => Ok cur
  | tok :: rest =>
      r <- check_4_child_name f parent tok ;;
      match r with
      | None => Err E_CHILD_NOT_OF_PARENT
      | Some loc =>
          match rest with
          | [] => id_of_ptr loc
          | _ => let cur' := match id_of_ptr loc with Ok i => i | _ => cur end in
                 '(lid, _) <- chase cur' ;;
                 gni_tokens chase f rest lid lid
          end
      end
  end.

(* ADFI_chase_link entered while [nest] activations of it are on the stack (the static counter of repair 04);
   [g] = ADF_Get_Node_ID as it runs inside this activation *)
Definition chase_at (g : ptr -> bytes -> out ptr) (f : fstate) (nest : Z) (id : ptr) : out (ptr * node_header) :=
  if fx_nest cfg && (nest >=? 100) then Err E_LINKS_TOO_DEEP else chase_loop g f 102 id 0.

(* ADF_Get_Node_ID with [nest] activations of ADFI_chase_link on the stack; fuel = how much deeper the
   Get_Node_ID -> chase_link -> Get_Node_ID ... nesting may still go *)
Fixpoint get_node_id (fuel : nat) (f : fstate) (nest : Z) (pid : ptr) (name : bytes) : out ptr :=
  match fuel with
  | O => OutOfFuel
  | S fu =>
      match name with
      | [] => Err E_LEN_ZERO
      | c :: rest =>
          id0 <- (if c =? 47 then h <- read_file_header f ;; id_of_ptr (fh_root h) else Ok pid) ;;
          if (c =? 47) && (match rest with [] => true | _ => false end) then Ok id0 else
          match split_slash name with
          | [] => Err E_INVALID_NODE_NAME
          | toks =>
              let chase := chase_at (get_node_id fu f (nest + 1)) f nest in
              '(lid, _) <- chase id0 ;;
              gni_tokens chase f toks lid lid
          end
      end
  end.

Definition LINK_FUEL : nat := 104.
Definition chase_link (f : fstate) (id : ptr) : out (ptr * node_header) :=
  chase_at (get_node_id LINK_FUEL f 1) f 0 id.
Definition get_node_id_top (f : fstate) (pid : ptr) (name : bytes) : out ptr := get_node_id (S LINK_FUEL) f 0 pid name.

(* ---------------------------------------------------------------- children *)
(* the loop shared by ADF_Children_Names / ADF_Children_IDs (istart = 1): raw 44-byte entries *)
Fixpoint children_loop (f : fstate) (n : nat) (cur : ptr) : out (list (bytes * ptr)) :=
  match n with
  | O => Ok []
  | S n' =>
      cur1 <- adjust cur ;;
      d <- read_file f cur1 44 ;;
      e <- dec_snt_entry (f_attr f) d ;;
      r <- children_loop f n' (fst cur1, snd cur1 + 44) ;;
      Ok (e :: r)
  end.
Definition children_entries (f : fstate) (h : node_header) (imax : Z) : out (list (bytes * ptr)) :=
  if nh_nsub h =? 0 then Ok [] else
  children_loop f (Z.to_nat (Z.min imax (toS32 (nh_nsub h)))) (fst (nh_snt h), snd (nh_snt h) + 16).

Fixpoint ids_of (es : list (bytes * ptr)) : out (list ptr) :=
  match es with [] => Ok [] | e :: t => i <- id_of_ptr (snd e) ;; r <- ids_of t ;; Ok (i :: r) end.

(* ---------------------------------------------------------------- the read-only walk *)
Inductive ev :=
| EvN (depth : Z) (r : out bytes)            (* ADF_Get_Name *)
| EvK0 (r : out Z)                           (* ADF_Is_Link *)
| EvK (r : out (bytes * bytes))              (* ADF_Get_Link_Path *)
| EvL (r : out bytes)                        (* ADF_Get_Label (first call that chases the link) *)
| EvT (t : bytes) | EvD (n : Z) | EvV (r : out (list Z)) | EvC (n : Z)     (* ADF_Get_Dimension_Values *)
| EvX (r : out (Z * bytes))                  (* ADF_Read_All_Data *)
| EvM (r : out (list bytes))                 (* ADF_Children_Names *)
| EvI (r : out (list ptr))                   (* ADF_Children_IDs *)
| EvG (r : out ptr)                          (* ADF_Get_Node_ID(parent, child name) *)
| EvVer (r : out bytes)                      (* ADF_Database_Version *)
| EvFuel.

Definition clean {A} (r : out A) : bool := match r with Ok _ | Err _ => true | _ => false end.

Definition mach_size (t : bytes) : Z :=
  match t with
  | [c1; c2] => if ((c1 =? 67) || (c1 =? 66)) && (c2 =? 49) then 1
                else if ((c1 =? 73) || (c1 =? 85) || (c1 =? 82)) && (c2 =? 52) then 4
                else if ((c1 =? 73) || (c1 =? 85) || (c1 =? 82)) && (c2 =? 56) then 8
                else if (c1 =? 88) && (c2 =? 52) then 8
                else if (c1 =? 88) && (c2 =? 56) then 16 else 0
  | _ => 0
  end.
Definition DATA_CAP := 65536.
Definition KIDS_CAP := 512.

Definition pending := (ptr * bytes * Z)%type.       (* parent id, child name, depth of the child *)

Definition visit_kids (f : fstate) (id : ptr) (depth : Z) (h : node_header) (head : list ev)
  : list ev * option (list pending) :=
  let nc := toS32 (nh_nsub h) in
  if nc >? 0 then
    let rm := children_entries f h (Z.min nc KIDS_CAP) in
    match rm with
    | Ok es =>
        let names := map (fun e => c_string (fst e) 32) es in
        let ri := ids_of es in
        (head ++ [EvM (Ok names); EvI ri],
         if clean ri then Some (map (fun nm => (id, nm, depth + 1)) names) else None)
    | _ => (head ++ [EvM (recast rm)], if clean rm then Some [] else None)
    end
  else (head, Some []).

(* the part of a visit that goes through ADFI_chase_link *)
Definition visit_chased (f : fstate) (id : ptr) (depth : Z) (pre : list ev) : list ev * option (list pending) :=
  let rc := chase_link f id in
  match rc with
  | Ok (lid, h) =>
      let t := c_string (nh_dtype h) 2 in          (* ADF_Get_Data_Type: the first ADF_CGIO_DATA_TYPE_LENGTH characters *)
      let nd := nh_ndims h in
      let dims := firstn (Z.to_nat nd) (nh_dims h) in
      let pre2 := pre ++ [EvL (Ok (c_string (nh_label h) 32)); EvT t; EvD nd] in
      if fx_dim cfg && (nd >? 0) && negb (forallb (fun d => d <? H63) dims) then
        (pre2 ++ [EvV (Err E_BAD_DIM_VALUE)], Some [])          (* repair 11; the client gives the node up *)
      else
      let head := pre2 ++ (if nd >? 0 then [EvV (Ok dims)] else []) ++ [EvC (toS32 (nh_nsub h))] in
      let ms := mach_size t in
      let cnt := prod_dims h in
      let want := (ms >? 0) && (nd >? 0) && forallb (fun d => (0 <? d) && (d <=? DATA_CAP)) dims &&
                  (cnt * ms <=? DATA_CAP) in
      if want then
        (* the client's buffer: calloc(cnt * ms), hashed whole; it passes the type it was told *)
        let r := match read_all_data f h t (cnt * ms) with
                 | Ok (w, d) => Ok (w, d ++ repeat 0 (Z.to_nat (cnt * ms) - length d))
                 | r => r
                 end in
        if clean r then visit_kids f id depth h (head ++ [EvX r]) else (head ++ [EvX r], None)
      else visit_kids f id depth h head
  | _ => (pre ++ [EvL (recast rc)], if clean rc then Some [] else None)
  end.

(* everything the client asks about one node; None = the walk cannot go on (abnormal outcome) *)
Definition visit (f : fstate) (id : ptr) (depth : Z) : list ev * option (list pending) :=
  let rn := (h <- read_node_header f id ;; Ok (c_string (nh_name h) 32)) in
  match rn with
  | Ok _ =>
    let rk0 := is_link f id in
    match rk0 with
    | Ok len =>
      if len >? 0 then
        let rk := get_link_path f id 5200 5200 in
        match rk with
        | Ok (_ :: _, _) => ([EvN depth rn; EvK0 rk0; EvK rk], Some [])        (* external link: not followed *)
        | Ok ([], _) => visit_chased f id depth [EvN depth rn; EvK0 rk0; EvK rk]
        | _ => ([EvN depth rn; EvK0 rk0; EvK rk], if clean rk then Some [] else None)
        end
      else visit_chased f id depth [EvN depth rn; EvK0 rk0]
    | _ => ([EvN depth rn; EvK0 rk0], if clean rk0 then Some [] else None)
    end
  | _ => ([EvN depth rn], if clean rn then Some [] else None)
  end.

(* depth-first, pre-order, driven by a stack of pending child lookups; one unit of fuel per lookup *)
Fixpoint walk_loop (fuel : nat) (f : fstate) (stack : list pending) : list ev :=
  match stack with
  | [] => []
  | (pid, nm, d) :: rest =>
      match fuel with
      | O => [EvFuel]
      | S fu =>
          let rg := get_node_id_top f pid nm in
          match rg with
          | Ok cid =>
              let '(evs, k) := visit f cid d in
              match k with
              | Some kids => EvG rg :: evs ++ walk_loop fu f (kids ++ rest)
              | None => EvG rg :: evs
              end
          | _ => if clean rg then EvG rg :: walk_loop fu f rest else [EvG rg]
          end
      end
  end.

Inductive walk_result := WOpenFail (r : out unit) | WOk (root : ptr) (evs : list ev).

Definition walk (fuel : nat) (bs : bytes) : walk_result :=
  match database_open bs with
  | Ok (f, root) =>
      let rv := database_version f VER_CAP in
      if negb (clean rv) then WOk root [EvVer rv] else
      let '(evs, k) := visit f root 0 in
      WOk root (EvVer rv :: match k with Some kids => evs ++ walk_loop fuel f kids | None => evs end)
  | r => WOpenFail (bind r (fun _ => Ok tt))
  end.

End WithFixes.

(* data checksum printed instead of the bytes *)
Definition cksum (d : bytes) : Z := fold_left (fun h b => (h * 31 + b) mod W32) d 7.

(* ---------------------------------------------------------------- witness files, built with the encoders *)
Definition wa : fattr := {| fa_old := false; fa_fmt := 76; fa_os := 66 |}.
Definition pad32 (s : bytes) : bytes := s ++ repeat 32 (32 - length s).
Definition what_B02 : bytes := [192; 168; 163; 169] ++ adf_magic ++ [32; 66; 48; 50; 48; 49; 50; 62].
Definition blank_ptr : ptr := (0, 4096).
Definition wit_header : bytes :=
  enc_file_header wa {| fh_what := what_B02; fh_cdate := repeat 32 28; fh_mdate := repeat 32 28; fh_fmt := 76; fh_os := 66;
                        fh_sizes := [1; 2; 4; 8; 4; 8; 8; 8; 8; 8; 8; 8];
                        fh_root := (0, 266); fh_eof := (0, 4095); fh_free := (0, 186); fh_extra := blank_ptr |}
  ++ enc_fct wa (repeat blank_ptr 6).
Definition mk_node (name label dtype : bytes) (nsub entries : Z) (snt : ptr) (nd : Z) (d0 : Z) (nch : Z) (data : ptr) : bytes :=
  enc_node_header wa {| nh_name := pad32 name; nh_label := pad32 label; nh_nsub := nsub; nh_entries := entries;
                        nh_snt := snt; nh_dtype := pad32 dtype; nh_ndims := nd; nh_dims := d0 :: repeat 0 11;
                        nh_nchunks := nch; nh_data := data |}.
Definition nm_root := [65; 68; 70; 32; 77; 111; 116; 104; 101; 114; 78; 111; 100; 101].   (* "ADF MotherNode" *)
Definition MT := [77; 84].
Definition blank_entry : bytes * ptr := (repeat 32 32, blank_ptr).

(* root with two children "A" and "B"; the table on disk has room for 8 entries; the root header claims
   [entries] entries and [nsub] children; child A is located at [pa] *)
Definition wit_two (nsub entries : Z) (pa : ptr) : bytes :=
  wit_header
  ++ mk_node nm_root [82] MT nsub entries (0, 512) 0 0 0 blank_ptr                       (* 266 *)
  ++ enc_snt wa (0, 880) ((pad32 [65], pa) :: (pad32 [66], (0, 1130)) :: repeat blank_entry 6)   (* 512 .. 884 *)
  ++ mk_node [65] [76; 65] MT 0 0 blank_ptr 0 0 0 blank_ptr                             (* 884 *)
  ++ mk_node [66] [76; 66] MT 0 0 blank_ptr 0 0 0 blank_ptr.                            (* 1130 .. 1376 *)

Definition wit_valid : bytes := wit_two 2 8 (0, 884).
Definition wit_oobw : bytes := wit_two 2 2 (0, 884).       (* DESIGN section 6 #12: 00000008 -> 00000002 *)
Definition wit_oobr : bytes := wit_two 2 0 (0, 884).       (* children claimed, zero-size table buffer *)
Definition wit_cycle : bytes := wit_two 2 8 (0, 266).      (* child A is the root itself *)

(* a link node L whose target path goes through L itself: ">/L/x" *)
Definition wit_linkrec : bytes :=
  wit_header
  ++ mk_node nm_root [82] MT 1 8 (0, 512) 0 0 0 blank_ptr
  ++ enc_snt wa (0, 880) ((pad32 [76], (0, 884)) :: repeat blank_entry 7)
  ++ mk_node [76] [] [76; 75] 0 0 blank_ptr 1 5 1 (0, 1130)
  ++ enc_data_chunk wa (0, 1151) [62; 47; 76; 47; 120].
(* a link whose payload (6000 bytes) exceeds link_data[5122] *)
Definition wit_biglink : bytes :=
  wit_header
  ++ mk_node nm_root [82] MT 1 8 (0, 512) 0 0 0 blank_ptr
  ++ enc_snt wa (0, 880) ((pad32 [76], (0, 884)) :: repeat blank_entry 7)
  ++ mk_node [76] [] [76; 75] 0 0 blank_ptr 1 6000 1 (0, 1130)
  ++ enc_data_chunk wa (1, 3050) (62 :: 47 :: repeat 97 5998).
(* the file header's format byte is NUL: assert(format != UNDEFINED_FORMAT) *)
Definition wit_abort : bytes := firstn 100 wit_valid ++ [0] ++ skipn 101 wit_valid.
(* a broken "TaiL" tag without any NUL after it: ADFI_stridx_c scans past disk_node_data[246] *)
Definition wit_tagscan : bytes := firstn 508 wit_valid ++ [88] ++ skipn 509 wit_valid.
(* truncated inside the root node header: ADFI_read_file serves rd_block_buffer bytes it never read *)
Definition wit_stale : bytes := firstn 400 wit_valid.


(* ---- one witness per repair that had none above (01: oobw / oobr, 03: biglink, 04: linkrec, 05: abort, 06: tagscan,
        13: stale) *)
(* root with one child [name] located at 884, described by the 246 bytes [node]; [rest] follows at 1130 *)
Definition wit_one (hdr : bytes) (name : bytes) (node rest : bytes) : bytes :=
  hdr
  ++ mk_node nm_root [82] MT 1 8 (0, 512) 0 0 0 blank_ptr                                (* 266 *)
  ++ enc_snt wa (0, 880) ((pad32 name, (0, 884)) :: repeat blank_entry 7)                (* 512 .. 884 *)
  ++ node ++ rest.                                                                       (* 884, 1130 *)
Definition tI4 := [73; 52].
(* 02: node D (I4, 2 values, 2 data chunks); the data-chunk table holds 2 entries, its end pointer claims 6 *)
Definition wit_dct : bytes :=
  wit_one wit_header [68] (mk_node [68] [76; 68] tI4 0 0 blank_ptr 1 2 2 (0, 1130))
    (enc_dct wa (0, 1130 + 16 + 24 * 6) [((0, 1198), (0, 1218)); ((0, 1222), (0, 1242))]       (* 1130 .. 1198 *)
     ++ enc_data_chunk wa (0, 1218) [1; 0; 0; 0] ++ enc_data_chunk wa (0, 1242) [2; 0; 0; 0]   (* 1198, 1222 .. 1246 *)
     ++ repeat 0 154).
(* 03, other fields: length 2^64-1 (negative as int), length 2^63 (0 as int), a data type of five tokens *)
Definition wit_link_with (dtype : bytes) (d0 : Z) : bytes :=
  wit_one wit_header [76] (mk_node [76] [] dtype 0 0 blank_ptr 1 d0 1 (0, 1130))
    (enc_data_chunk wa (0, 1151) [62; 47; 76; 47; 120]).
Definition wit_neglink : bytes := wit_link_with [76; 75] (W64 - 1).
Definition wit_hugelink : bytes := wit_link_with [76; 75] H63.
Definition wit_toklink : bytes :=
  wit_link_with ([76; 75; 91; 49; 93] ++ flat_map (fun _ => [67; 49; 91; 49; 93]) [1; 2; 3; 4]) 5.   (* LK[1]C1[1]C1[1]C1[1]C1[1] *)
(* 03, output side: a 3000-character file part (ADFI_chase_link hands ADF_Get_Link_Path a char[1025]) *)
Definition wit_longfile : bytes :=
  wit_one wit_header [76] (mk_node [76] [] [76; 75] 0 0 blank_ptr 1 3004 1 (0, 1130))
    (enc_data_chunk wa (1, 54) (repeat 102 3000 ++ [62; 47; 83; 120])).
(* 03, output side: a 4500-character path part behind a 10-character file part; a payload of 4901 characters
   without separator (ADFI_chase_link hands ADF_Get_Link_Path a char[4097] for the path) *)
Definition wit_longpath : bytes :=
  wit_one wit_header [76] (mk_node [76] [] [76; 75] 0 0 blank_ptr 1 4511 1 (0, 1130))
    (enc_data_chunk wa (1, 1561) (repeat 102 10 ++ [62] ++ repeat 112 4500)).
Definition wit_nosep : bytes :=
  wit_one wit_header [76] (mk_node [76] [] [76; 75] 0 0 blank_ptr 1 4901 1 (0, 1130))
    (enc_data_chunk wa (1, 1951) (repeat 102 900 ++ [70] ++ repeat 112 4000)).
(* 20: the '>' that ends the version (byte 31) damaged *)
Definition wit_ver : bytes := firstn 31 wit_valid ++ [88] ++ skipn 32 wit_valid.
(* 05, other letter: format byte 0xFF (a negative char) *)
Definition wit_fmtneg : bytes := firstn 100 wit_valid ++ [255] ++ skipn 101 wit_valid.
(* 07: array length that does not fit an int *)
Definition wit_dtov : bytes :=
  wit_one wit_header [68] (mk_node [68] [76; 68] (tI4 ++ [91] ++ repeat 57 14 ++ [93]) 0 0 blank_ptr 1 1 1 (0, 1130))
    (enc_data_chunk wa (0, 1150) [1; 0; 0; 0]).
(* 08: node typed "I4,I4" (8 bytes an element), one element; the client is told "I4" and brings 4 bytes *)
Definition wit_rtype : bytes :=
  wit_one wit_header [68] (mk_node [68] [76; 68] (tI4 ++ [44] ++ tI4) 0 0 blank_ptr 1 1 1 (0, 1130))
    (enc_data_chunk wa (0, 1154) [1; 0; 0; 0; 2; 0; 0; 0]).
(* 11: dimension value 2^63 *)
Definition wit_dim : bytes :=
  wit_one wit_header [68] (mk_node [68] [76; 68] tI4 0 0 blank_ptr 1 H63 1 (0, 1130))
    (enc_data_chunk wa (0, 1150) [1; 0; 0; 0]).
(* 14: the file header declares sizeof(int) = 8; node D is I4 with one element and 8 bytes of data *)
Definition wit_header8 : bytes :=
  enc_file_header wa {| fh_what := what_B02; fh_cdate := repeat 32 28; fh_mdate := repeat 32 28; fh_fmt := 76; fh_os := 66;
                        fh_sizes := [1; 2; 8; 8; 4; 8; 8; 8; 8; 8; 8; 8];
                        fh_root := (0, 266); fh_eof := (0, 4095); fh_free := (0, 186); fh_extra := blank_ptr |}
  ++ enc_fct wa (repeat blank_ptr 6).
Definition wit_sizes : bytes :=
  wit_one wit_header8 [68] (mk_node [68] [76; 68] tI4 0 0 blank_ptr 1 1 1 (0, 1130))
    (enc_data_chunk wa (0, 1154) [1; 0; 0; 0; 2; 0; 0; 0]).

(* 15: two data chunks of 2 bytes for a node whose element is 8 bytes in the file (header: sizeof(int) = 8) and 4 in
   memory: 4 bytes are missing, the zero fill of 4 starts 2 bytes before the end of the caller's 4-byte buffer *)
Definition wit_radset : bytes :=
  wit_one wit_header8 [68] (mk_node [68] [76; 68] tI4 0 0 blank_ptr 1 1 2 (0, 1130))
    (enc_dct wa (0, 1194) [((0, 1198), (0, 1216)); ((0, 1220), (0, 1238))]                      (* 1130 .. 1198 *)
     ++ enc_data_chunk wa (0, 1216) [1; 0] ++ enc_data_chunk wa (0, 1238) [2; 0]).             (* 1198, 1220 .. 1242 *)
(* 15 (and 13): the second data chunk ends one byte before its data starts *)
Definition wit_radneg : bytes :=
  wit_one wit_header [68] (mk_node [68] [76; 68] tI4 0 0 blank_ptr 1 2 2 (0, 1130))
    (enc_dct wa (0, 1194) [((0, 1198), (0, 1218)); ((0, 1222), (0, 1237))]
     ++ enc_data_chunk wa (0, 1218) [1; 0; 0; 0] ++ enc_data_chunk wa (0, 1242) [2; 0; 0; 0]).

Definition walk_events (r : walk_result) : list ev := match r with WOk _ evs => evs | WOpenFail _ => [] end.
