(* Extract_c10.v -- extraction of the C10 model (ElemSplice) to OCaml.  ExtrOcamlBasic only; Z, positive,
   nat stay extracted inductives.  No Extract Constant / Extract Inductive directives of our own. *)
From Coq Require Import Extraction ExtrOcamlBasic.
From CgnsV Require Import ElemSplice.
Extraction Language OCaml.
Set Extraction KeepSingleton.
Extraction "extracted/c10/model.ml" ElemSplice.step_gen ElemSplice.impl_pvariant ElemSplice.impl_rvariant ElemSplice.undef
  ElemSplice.npe_table ElemSplice.cg_npe.
