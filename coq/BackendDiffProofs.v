(* BackendDiffProofs.v -- lemmas about the two name validators (BackendDiff.v). *)
From Coq Require Import ZArith List Bool Lia.
From CgnsV Require Import BackendDiff.
Import ListNotations.
Local Open Scope Z_scope.

(* ---------------------------------------------------------------- generic list facts *)
Lemma drop_while_ext_Forall : forall (f g : Z -> bool) (P : Z -> Prop) l,
  (forall c, P c -> f c = g c) -> Forall P l -> drop_while f l = drop_while g l.
Proof.
  intros f g P l Hfg Hl. induction Hl as [|c r Hc Hr IH]; [reflexivity|].
  cbn [drop_while]. rewrite (Hfg c Hc). destruct (g c); [exact IH|reflexivity].
Qed.

Lemma drop_while_In : forall f l x, In x (drop_while f l) -> In x l.
Proof.
  intros f l x. induction l as [|c r IH]; cbn [drop_while]; [tauto|].
  destruct (f c); intro H; [right; apply IH; exact H|exact H].
Qed.

Lemma drop_while_nil_forallb : forall f l, drop_while f l = [] -> forallb f l = true.
Proof.
  intros f l. induction l as [|c r IH]; cbn [drop_while forallb]; [reflexivity|].
  destruct (f c) eqn:E; intro H; [rewrite (IH H); reflexivity|discriminate].
Qed.

Lemma forallb_rev : forall (f : Z -> bool) l, forallb f (rev l) = forallb f l.
Proof.
  intros f l. induction l as [|c r IH]; [reflexivity|].
  cbn [rev forallb]. rewrite forallb_app, IH. cbn [forallb]. rewrite andb_true_r, andb_comm. reflexivity.
Qed.

Lemma rtrim_In : forall f l x, In x (rtrim f l) -> In x l.
Proof.
  intros f l x H. unfold rtrim in H. apply in_rev in H. apply drop_while_In in H. apply in_rev in H. exact H.
Qed.

Lemma rtrim_nil_forallb : forall f l, rtrim f l = [] -> forallb f l = true.
Proof.
  intros f l H. unfold rtrim in H.
  assert (E : drop_while f (rev l) = []).
  { destruct (drop_while f (rev l)) as [|c r]; [reflexivity|].
    cbn [rev] in H. destruct (rev r); discriminate. }
  apply drop_while_nil_forallb in E. rewrite forallb_rev in E. exact E.
Qed.

Lemma rtrim_ext_Forall : forall (f g : Z -> bool) (P : Z -> Prop) l,
  (forall c, P c -> f c = g c) -> Forall P l -> rtrim f l = rtrim g l.
Proof.
  intros f g P l Hfg Hl. unfold rtrim. f_equal.
  apply (drop_while_ext_Forall f g P); [exact Hfg|]. apply Forall_rev. exact Hl.
Qed.

Lemma drop_while_head_false : forall f c r, f c = false -> drop_while f (c :: r) = c :: r.
Proof. intros f c r H. cbn [drop_while]. rewrite H. reflexivity. Qed.

Lemma drop_while_head : forall f l, match drop_while f l with [] => True | c :: _ => f c = false end.
Proof.
  intros f l. induction l as [|c r IH]; cbn [drop_while]; [exact I|].
  destruct (f c) eqn:E; [exact IH|exact E].
Qed.

Lemma rtrim_last_false : forall f l, l <> [] -> f (last l 0) = false -> rtrim f l = l.
Proof.
  intros f l Hne Hl. unfold rtrim.
  rewrite (app_removelast_last 0 Hne) at 1. rewrite rev_app_distr. cbn [rev app].
  rewrite drop_while_head_false by exact Hl.
  change (last l 0 :: rev (removelast l)) with ([last l 0] ++ rev (removelast l)).
  rewrite rev_app_distr, rev_involutive. cbn [rev app].
  symmetry. apply app_removelast_last. exact Hne.
Qed.

Lemma list_eqb_spec : forall a b, list_eqb a b = true <-> a = b.
Proof.
  induction a as [|x a IH]; destruct b as [|y b]; cbn [list_eqb]; split; intro H;
    try reflexivity; try discriminate.
  - apply andb_true_iff in H. destruct H as [H1 H2]. apply Z.eqb_eq in H1. apply IH in H2. subst. reflexivity.
  - injection H as -> ->. apply andb_true_iff. split; [apply Z.eqb_refl|apply IH; reflexivity].
Qed.

Lemma lenZ_zero_nil : forall l, lenZ l = 0 -> l = [].
Proof. intros [|c r] H; [reflexivity|]. unfold lenZ in H. cbn [length] in H. lia. Qed.

(* ---------------------------------------------------------------- character classes *)
Definition okc (c : Z) : Prop := is_print c = true /\ c <> SLASH.

Lemma okc_of_forallb : forall l, forallb (fun c => is_print c && negb (c =? SLASH)) l = true -> Forall okc l.
Proof.
  intros l H. apply Forall_forall. intros c Hc. rewrite forallb_forall in H. specialize (H c Hc).
  apply andb_true_iff in H. destruct H as [H1 H2]. split; [exact H1|].
  apply negb_true_iff in H2. apply Z.eqb_neq in H2. exact H2.
Qed.

Lemma space_is_blank_on_print : forall c, okc c -> is_space c = is_blank c.
Proof.
  intros c [Hp _]. unfold is_print in Hp. apply andb_true_iff in Hp. destruct Hp as [H1 H2].
  apply Z.leb_le in H1. unfold is_space, is_blank.
  destruct (c =? 32) eqn:E; [reflexivity|]. cbn [orb].
  destruct (9 <=? c) eqn:E1; [|reflexivity]. cbn [andb]. apply Z.leb_gt. lia.
Qed.

Lemma blank_is_space : forall c, is_blank c = true -> is_space c = true.
Proof. intros c H. unfold is_blank in H. unfold is_space. rewrite H. reflexivity. Qed.

Lemma drop_space_after_blank : forall s, drop_while is_space s = drop_while is_space (drop_while is_blank s).
Proof.
  induction s as [|c r IH]; [reflexivity|].
  cbn [drop_while]. destruct (is_blank c) eqn:E.
  - rewrite (blank_is_space c E). exact IH.
  - cbn [drop_while]. reflexivity.
Qed.

(* ---------------------------------------------------------------- ADF accepts => ADFH accepts the same name, except "." *)
Lemma adf_accept_inv : forall put s a, adf_name put s = NOk a ->
  let n := drop_while is_blank s in
  lenZ n <= ADF_NAME_LENGTH /\ n <> [] /\ Forall okc n /\ a = rtrim is_blank (if put then s else n).
Proof.
  intros put s a H n. unfold adf_name in H.
  destruct (adf_check_string_length s) as [e|] eqn:Ec; [discriminate|].
  fold n in H.
  destruct (lenZ n >? ADF_NAME_LENGTH) eqn:E1; [discriminate|].
  destruct (put && (lenZ n =? 0)) eqn:E2; [discriminate|].
  destruct (forallb (fun c => is_print c && negb (c =? SLASH)) n) eqn:E3; [|discriminate].
  injection H as <-.
  rewrite Z.gtb_ltb in E1. apply Z.ltb_ge in E1.
  split; [exact E1|]. split; [|split; [apply okc_of_forallb; exact E3|reflexivity]].
  (* n <> []: otherwise s is all blanks and the blank test would have refused it *)
  intro Hn. unfold adf_check_string_length in Ec.
  destruct (lenZ s =? 0); [discriminate|]. destruct (lenZ s >? ADF_NAME_LENGTH); [discriminate|].
  destruct (forallb (fun c => (c =? 32) || (c =? 9)) s) eqn:Eb; [discriminate|].
  apply drop_while_nil_forallb in Hn.
  assert (forallb (fun c => (c =? 32) || (c =? 9)) s = true).
  { rewrite forallb_forall in *. intros c Hc. specialize (Hn c Hc). unfold is_blank in Hn. rewrite Hn. reflexivity. }
  congruence.
Qed.

(* what is stored is the validated name when nothing was skipped: always at creation, at rename when the string has
   no leading blank *)
Definition no_skip (put : bool) (s : list Z) : Prop := put = true -> is_blank (hd 0 s) = false.

Lemma stored_is_validated : forall put s, no_skip put s -> (if put then s else drop_while is_blank s) = drop_while is_blank s.
Proof.
  intros put s H. destruct put; [|reflexivity]. specialize (H eq_refl).
  destruct s as [|c r]; [reflexivity|]. cbn [hd] in H. rewrite drop_while_head_false by exact H. reflexivity.
Qed.

Lemma adf_subset_of_adfh : forall put s a, no_skip put s -> adf_name put s = NOk a -> a <> [DOT] -> adfh_name s = NOk a.
Proof.
  intros put s a Hns H Hdot. pose proof (adf_accept_inv put s a H) as Hinv. cbv zeta in Hinv.
  destruct Hinv as (Hlen & Hne & Hok & Ha). rewrite (stored_is_validated put s Hns) in Ha.
  set (n := drop_while is_blank s) in *.
  assert (Hp : drop_while is_space s = n).
  { rewrite drop_space_after_blank. fold n.
    pose proof (drop_while_head is_blank s) as Hh. fold n in Hh.
    destruct n as [|c r] eqn:En; [contradiction Hne; reflexivity|].
    apply drop_while_head_false. rewrite (space_is_blank_on_print c); [exact Hh|].
    inversion Hok; assumption. }
  unfold adfh_name. rewrite Hp.
  assert (Hl0 : (lenZ n =? 0) = false).
  { apply Z.eqb_neq. intro E. apply Hne. apply lenZ_zero_nil. exact E. }
  rewrite Hl0.
  assert (Hl1 : (lenZ n >? ADF_NAME_LENGTH) = false) by (rewrite Z.gtb_ltb; apply Z.ltb_ge; exact Hlen).
  rewrite Hl1.
  rewrite (rtrim_ext_Forall is_space is_blank okc n space_is_blank_on_print Hok). rewrite <- Ha.
  assert (Ha0 : (lenZ a =? 0) = false).
  { apply Z.eqb_neq. intro E. apply lenZ_zero_nil in E. rewrite E in Ha. symmetry in Ha.
    apply rtrim_nil_forallb in Ha.
    pose proof (drop_while_head is_blank s) as Hh. fold n in Hh.
    destruct n as [|c r]; [apply Hne; reflexivity|]. cbn [forallb] in Ha. rewrite Hh in Ha. discriminate. }
  rewrite Ha0.
  assert (Hs : existsb (fun c => c =? SLASH) a = false).
  { destruct (existsb (fun c => c =? SLASH) a) eqn:E; [|reflexivity].
    apply existsb_exists in E. destruct E as (c & Hc & Hc2). apply Z.eqb_eq in Hc2.
    rewrite Ha in Hc. apply rtrim_In in Hc. rewrite Forall_forall in Hok. destruct (Hok c Hc) as [_ Hnsl]. contradiction. }
  rewrite Hs. cbn [orb].
  destruct (list_eqb a [DOT]) eqn:Ed; [apply list_eqb_spec in Ed; contradiction|reflexivity].
Qed.

Lemma adfh_never_stores_dot : forall s, adfh_name s <> NOk [DOT].
Proof.
  intros s H. unfold adfh_name in H.
  destruct (lenZ (drop_while is_space s) =? 0); [discriminate|].
  destruct (lenZ (drop_while is_space s) >? ADF_NAME_LENGTH); [discriminate|].
  destruct (lenZ (rtrim is_space (drop_while is_space s)) =? 0); [discriminate|].
  destruct (existsb (fun c => c =? SLASH) (rtrim is_space (drop_while is_space s))); [discriminate|].
  cbn [orb] in H.
  destruct (list_eqb (rtrim is_space (drop_while is_space s)) [DOT]) eqn:E; [discriminate|].
  injection H as H. rewrite H in E. cbn in E. discriminate.
Qed.

Lemma names_same_when_both_accept : forall put s a b, no_skip put s ->
  adf_name put s = NOk a -> adfh_name s = NOk b -> a = b.
Proof.
  intros put s a b Hns Ha Hb.
  destruct (list_eqb a [DOT]) eqn:E.
  - (* ADF stores "." : then ADFH refuses, contradiction with Hb *)
    apply list_eqb_spec in E. subst a. exfalso.
    pose proof (adf_accept_inv put s [DOT] Ha) as Hinv. cbv zeta in Hinv. destruct Hinv as (Hlen & Hne & Hok & Hr).
    rewrite (stored_is_validated put s Hns) in Hr.
    set (n := drop_while is_blank s) in *.
    assert (Hp : drop_while is_space s = n).
    { rewrite drop_space_after_blank. fold n.
      pose proof (drop_while_head is_blank s) as Hh. fold n in Hh.
      destruct n as [|c r] eqn:En; [contradiction Hne; reflexivity|].
      apply drop_while_head_false. rewrite (space_is_blank_on_print c); [exact Hh|]. inversion Hok; assumption. }
    unfold adfh_name in Hb. rewrite Hp in Hb.
    destruct (lenZ n =? 0); [discriminate|]. destruct (lenZ n >? ADF_NAME_LENGTH); [discriminate|].
    rewrite (rtrim_ext_Forall is_space is_blank okc n space_is_blank_on_print Hok) in Hb. rewrite <- Hr in Hb.
    cbn in Hb. discriminate.
  - assert (a <> [DOT]) as Hd by (intro X; apply list_eqb_spec in X; congruence).
    rewrite (adf_subset_of_adfh put s a Hns Ha Hd) in Hb. injection Hb as <-. reflexivity.
Qed.

(* ---------------------------------------------------------------- the common subset *)
Lemma common_adf : forall put s, common_name s = true -> adf_name put s = NOk s.
Proof.
  intros put s H. unfold common_name in H.
  repeat (apply andb_true_iff in H; destruct H as [H ?]).
  match goal with X : negb (list_eqb s [DOT]) = true |- _ => clear X end.
  match goal with X : negb (is_blank (last s 0)) = true |- _ => rename X into Hlast end.
  match goal with X : negb (is_blank (hd 0 s)) = true |- _ => rename X into Hhd end.
  match goal with X : forallb _ s = true |- _ => rename X into Hall end.
  match goal with X : (lenZ s <=? ADF_NAME_LENGTH) = true |- _ => rename X into Hle end.
  apply Z.leb_le in H. apply Z.leb_le in Hle. apply negb_true_iff in Hhd. apply negb_true_iff in Hlast.
  destruct s as [|c r]; [unfold lenZ in H; cbn in H; lia|].
  cbn [hd] in Hhd.
  unfold adf_name, adf_check_string_length.
  assert (E0 : (lenZ (c :: r) =? 0) = false) by (apply Z.eqb_neq; lia). rewrite E0.
  assert (E1 : (lenZ (c :: r) >? ADF_NAME_LENGTH) = false) by (rewrite Z.gtb_ltb; apply Z.ltb_ge; lia). rewrite E1.
  assert (Hc : (c =? 32) || (c =? 9) = false).
  { unfold is_blank in Hhd. rewrite Hhd. cbn [orb].
    cbn [forallb] in Hall. apply andb_true_iff in Hall. destruct Hall as [Hc _]. apply andb_true_iff in Hc.
    destruct Hc as [Hp _]. unfold is_print in Hp. apply andb_true_iff in Hp. destruct Hp as [Hp _].
    apply Z.leb_le in Hp. apply Z.eqb_neq. lia. }
  cbn [forallb]. rewrite Hc. cbn [andb].
  rewrite drop_while_head_false by exact Hhd. rewrite E1, E0, andb_false_r, Hall.
  assert (Es : (if put then c :: r else c :: r) = c :: r) by (destruct put; reflexivity). rewrite Es.
  rewrite rtrim_last_false; [reflexivity|discriminate|exact Hlast].
Qed.

Lemma common_not_dot : forall s, common_name s = true -> s <> [DOT].
Proof.
  intros s H. unfold common_name in H. apply andb_true_iff in H. destruct H as [_ H].
  apply negb_true_iff in H. intro E. apply list_eqb_spec in E. congruence.
Qed.

Lemma common_no_skip : forall put s, common_name s = true -> no_skip put s.
Proof.
  intros put s H _. unfold common_name in H.
  repeat (apply andb_true_iff in H; destruct H as [H ?]).
  match goal with X : negb (is_blank (hd 0 s)) = true |- _ => apply negb_true_iff in X; exact X end.
Qed.

Lemma names_agree : forall put s, common_name s = true -> adf_name put s = NOk s /\ adfh_name s = NOk s.
Proof.
  intros put s H. split; [apply common_adf; exact H|].
  apply (adf_subset_of_adfh put s s); [apply common_no_skip; exact H|apply common_adf; exact H|apply common_not_dot; exact H].
Qed.
