(* Extract_c20.v -- extraction of the C20 model (Ftoc) to OCaml.  ExtrOcamlBasic only; Z, N, positive, nat,
   ascii stay extracted inductives.  No Extract Constant / Extract Inductive directives of our own. *)
From Coq Require Import Extraction ExtrOcamlBasic.
From CgnsV Require Import Ftoc.
Extraction Language OCaml.
Set Extraction KeepSingleton.
Extraction "extracted/c20/model.ml" Ftoc.run_helper Ftoc.to_int32 Ftoc.fvalue Ftoc.cvalue.
