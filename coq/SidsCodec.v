(* SidsCodec.v -- property C01: what the mid-level library (MLL) writes for a SIDS entity and what it reads back.

   node tree      [tree]   = T name label datatype dims data children   (children in creation order, as ADF / HDF5
                             keep them; data = the raw little-endian bytes a cgio dump of the file shows)
   written entity [ent]    = E kind name payload children               (children in the order the client wrote them,
                             ANY mix of kinds: this is the session list, organised by parent)
   reader mirror  [rnode]  = R kind name payload slots                  (one list per child slot of the kind's reader,
                             in the order the reader fills its arrays: file order, zones sorted by name)

   Combinators: payload codecs ([enc_payload] / [dec_payload]: MT, C1 string, enumeration stored as its C name,
   blank padded unit names, I4 / cgsize_t integer arrays with a dimension pattern, typed arrays as raw bytes) and the
   children combinator ([dec_slots]: the children selected by label (and name) -- cgi_get_nodes + name dispatch --,
   cardinality, optional sort).  One row of [spec] per entity kind, transcribed from the pair
   (cg_X_write in cgnslib.c, cgi_read_X in cgns_internals.c); [post_ok] holds the cross-node validation the reader of
   that kind performs after it collected the children; [exec] maps an API call to the entities it creates (incl. the
   quirks: default Vertex location is not written, containers created on demand, ElementList -> PointList ...).
   No proofs here (SidsCodecProofs.v).  64-bit build (cgsize_t = I8), file version = library version.
   The only thing taken from the REGENERATED tables (Gen_C01.v) is [dts_loadable], the data types cgi_read_node allocates a
   buffer for: the model follows the sources there (see [complex_array_refuted]).  The obligations over the regenerated
   writer / reader tables are at the end of this file. *)
From Coq Require Import ZArith List Bool Lia Ascii.
From Coq Require String.
Import String.StringSyntax.
From CgnsV Require Import ListX TreeDB SidsRows Gen_C01.
Import ListNotations.
Local Open Scope Z_scope.

Fixpoint bytes_leb (a b : bytes) : bool :=          (* strcmp (a, b) <= 0 *)
  match a, b with
  | [], _ => true
  | _ :: _, [] => false
  | x :: a', y :: b' => if x <? y then true else if y <? x then false else bytes_leb a' b'
  end.

Fixpoint list_eqb {A} (eqb : A -> A -> bool) (a b : list A) : bool :=
  match a, b with
  | [], [] => true
  | x :: a', y :: b' => eqb x y && list_eqb eqb a' b'
  | _, _ => false
  end.
Definition zs_eqb := list_eqb Z.eqb.

(* decimal digits of a small number, for generated node names ("PointRange2") *)
Fixpoint nat_digits_fuel (fuel n : nat) : bytes :=
  match fuel with
  | O => []
  | S f => (if (n <? 10)%nat then [] else nat_digits_fuel f (n / 10)) ++ [48 + Z.of_nat (n mod 10)]
  end.
Definition nat_digits (n : nat) : bytes := nat_digits_fuel 20 n.

Fixpoint names_distinct_b (l : list bytes) : bool :=
  match l with [] => true | x :: r => negb (existsb (bytes_eqb x) r) && names_distinct_b r end.

Fixpoint map_opt {A B} (f : A -> option B) (l : list A) : option (list B) :=
  match l with
  | [] => Some []
  | x :: r => match f x with
              | None => None
              | Some y => match map_opt f r with None => None | Some ys => Some (y :: ys) end
              end
  end.

(* ---- integers as little-endian two's complement bytes -------------------------------------------------- *)
Fixpoint le_bytes (n : nat) (x : Z) : bytes :=
  match n with O => [] | S n' => (x mod 256) :: le_bytes n' (x / 256) end.
Fixpoint le_val (b : bytes) : Z := match b with [] => 0 | x :: r => x + 256 * le_val r end.
Definition enc_int (sz : nat) (x : Z) : bytes := le_bytes sz (x mod 2 ^ (8 * Z.of_nat sz)).
Definition dec_int (sz : nat) (b : bytes) : Z :=
  let u := le_val b in if u <? 2 ^ (8 * Z.of_nat sz - 1) then u else u - 2 ^ (8 * Z.of_nat sz).
Definition int_in_range (sz : nat) (x : Z) : bool :=
  (- 2 ^ (8 * Z.of_nat sz - 1) <=? x) && (x <? 2 ^ (8 * Z.of_nat sz - 1)).
Definition enc_ints (sz : nat) (l : list Z) : bytes := flat_map (enc_int sz) l.
Fixpoint dec_ints (sz : nat) (cnt : nat) (b : bytes) : list Z :=
  match cnt with
  | O => []
  | S c => dec_int sz (firstn sz b) :: dec_ints sz c (skipn sz b)
  end.

(* ---- enumerations stored as their C name ------------------------------------------------------------------ *)
Fixpoint lookup_from (tbl : list bytes) (x : bytes) (i : Z) : option Z :=
  match tbl with
  | [] => None
  | n :: r => if bytes_eqb x n then Some i else lookup_from r x (i + 1)
  end.
Definition lookup (tbl : list bytes) (x : bytes) : option Z := lookup_from tbl x 0.
Definition enum_name (tbl : list bytes) (i : Z) : bytes := nthZ tbl i [].
Definition enum_in (tbl : list bytes) (i : Z) : bool := (0 <=? i) && (i <? lenZ tbl).
Definition opt_z_eqb (a b : option Z) : bool :=
  match a, b with Some x, Some y => x =? y | None, None => true | _, _ => false end.
(* the table is usable as a codec: every name is found at its own index (no duplicate before it), is not empty,
   and -- for the blank padded form -- is at most 32 characters without a trailing blank *)
Definition pad32 (x : bytes) : bytes := x ++ repeat 32 (32 - length x).
Fixpoint rstrip (x : bytes) : bytes :=
  match x with
  | [] => []
  | c :: r => match rstrip r with [] => if c =? 32 then [] else [c] | r' => c :: r' end
  end.
Definition enum_tbl_ok (tbl : list bytes) : bool :=
  forallb (fun i => let n := enum_name tbl (Z.of_nat i) in
                    opt_z_eqb (lookup tbl n) (Some (Z.of_nat i)) && (1 <=? lenZ n) && (lenZ n <=? 32)
                    && bytes_eqb (rstrip (pad32 n)) n && (lenZ (pad32 n) =? 32))
          (seq 0 (length tbl)).

Definition ZoneTypeName := map s ["Null"; "UserDefined"; "Structured"; "Unstructured"]%string.
Definition GridLocationName := map s ["Null"; "UserDefined"; "Vertex"; "CellCenter"; "FaceCenter"; "IFaceCenter";
  "JFaceCenter"; "KFaceCenter"; "EdgeCenter"]%string.
Definition DataClassName := map s ["Null"; "UserDefined"; "Dimensional"; "NormalizedByDimensional";
  "NormalizedByUnknownDimensional"; "NondimensionalParameter"; "DimensionlessConstant"]%string.
Definition GridConnectivityTypeName := map s ["Null"; "UserDefined"; "Overset"; "Abutting"; "Abutting1to1"]%string.
Definition BCTypeName := map s ["Null"; "UserDefined"; "BCAxisymmetricWedge"; "BCDegenerateLine"; "BCDegeneratePoint";
  "BCDirichlet"; "BCExtrapolate"; "BCFarfield"; "BCGeneral"; "BCInflow"; "BCInflowSubsonic"; "BCInflowSupersonic";
  "BCNeumann"; "BCOutflow"; "BCOutflowSubsonic"; "BCOutflowSupersonic"; "BCSymmetryPlane"; "BCSymmetryPolar";
  "BCTunnelInflow"; "BCTunnelOutflow"; "BCWall"; "BCWallInviscid"; "BCWallViscous"; "BCWallViscousHeatFlux";
  "BCWallViscousIsothermal"; "FamilySpecified"]%string.
Definition MassUnitsName := map s ["Null"; "UserDefined"; "Kilogram"; "Gram"; "Slug"; "PoundMass"]%string.
Definition LengthUnitsName := map s ["Null"; "UserDefined"; "Meter"; "Centimeter"; "Millimeter"; "Foot"; "Inch"]%string.
Definition TimeUnitsName := map s ["Null"; "UserDefined"; "Second"]%string.
Definition TemperatureUnitsName := map s ["Null"; "UserDefined"; "Kelvin"; "Celsius"; "Rankine"; "Fahrenheit"]%string.
Definition AngleUnitsName := map s ["Null"; "UserDefined"; "Degree"; "Radian"]%string.
Definition ElectricCurrentUnitsName := map s ["Null"; "UserDefined"; "Ampere"; "Abampere"; "Statampere"; "Edison"; "a.u."]%string.
Definition SubstanceAmountUnitsName := map s ["Null"; "UserDefined"; "Mole"; "Entities"; "StandardCubicFoot";
  "StandardCubicMeter"]%string.
Definition LuminousIntensityUnitsName := map s ["Null"; "UserDefined"; "Candela"; "Candle"; "Carcel"; "Hefner"; "Violle"]%string.
Definition RigidGridMotionTypeName := map s ["Null"; "UserDefined"; "ConstantRate"; "VariableRate"]%string.
Definition ArbitraryGridMotionTypeName := map s ["Null"; "UserDefined"; "NonDeformingGrid"; "DeformingGrid"]%string.
Definition SimulationTypeName := map s ["Null"; "UserDefined"; "TimeAccurate"; "NonTimeAccurate"]%string.
Definition GoverningEquationsTypeName := map s ["Null"; "UserDefined"; "FullPotential"; "Euler"; "NSLaminar"; "NSTurbulent";
  "NSLaminarIncompressible"; "NSTurbulentIncompressible"; "LatticeBoltzmann"]%string.
Definition ModelTypeName := map s ["Null"; "UserDefined"; "Ideal"; "VanderWaals"; "Constant"; "PowerLaw"; "SutherlandLaw";
  "ConstantPrandtl"; "EddyViscosity"; "ReynoldsStress"; "ReynoldsStressAlgebraic"; "Algebraic_BaldwinLomax";
  "Algebraic_CebeciSmith"; "HalfEquation_JohnsonKing"; "OneEquation_BaldwinBarth"; "OneEquation_SpalartAllmaras";
  "TwoEquation_JonesLaunder"; "TwoEquation_MenterSST"; "TwoEquation_Wilcox"; "CaloricallyPerfect"; "ThermallyPerfect";
  "ConstantDensity"; "RedlichKwong"; "Frozen"; "ThermalEquilib"; "ThermalNonequilib"; "ChemicalEquilibCurveFit";
  "ChemicalEquilibMinimization"; "ChemicalNonequilib"; "EMElectricField"; "EMMagneticField"; "EMConductivity"; "Voltage";
  "Interpolated"; "Equilibrium_LinRessler"; "Chemistry_LinRessler"]%string.
Definition ParticleGoverningEquationsTypeName := map s ["Null"; "UserDefined"; "DEM"; "DSMC"; "SPH"]%string.
Definition ParticleModelTypeName := map s ["Null"; "UserDefined"; "Linear"; "NonLinear"; "HardSphere"; "SoftSphere";
  "LinearSpringDashpot"; "Pair"; "HertzMindlin"; "HertzKuwabaraKono"; "ORourke"; "Stochastic"; "NonStochastic"; "NTC";
  "KelvinHelmholtz"; "KelvinHelmholtzACT"; "RayleighTaylor"; "KelvinHelmholtzRayleighTaylor"; "ReitzKHRT"; "TAB"; "ETAB";
  "LISA"; "SHF"; "PilchErdman"; "ReitzDiwakar"; "Sphere"; "NonSphere"; "Tracer"; "BeetstraVanDerHoefKuipers"; "Ergun";
  "CliftGrace"; "Gidaspow"; "HaiderLevenspiel"; "PlessisMasliyah"; "SyamlalOBrien"; "SaffmanMei"; "TennetiGargSubramaniam";
  "Tomiyama"; "Stokes"; "StokesCunningham"; "WenYu"; "BaiGosman"; "Kunkhe"; "Boil"; "Condense"; "Flash"; "Nucleate"; "Chiang";
  "Frossling"; "FuchsKnudsen"]%string.
Definition WallFunctionTypeName := map s ["Null"; "UserDefined"; "Generic"]%string.
Definition AreaTypeName := map s ["Null"; "UserDefined"; "BleedArea"; "CaptureArea"]%string.
Definition AverageInterfaceTypeName := map s ["Null"; "UserDefined"; "AverageAll"; "AverageCircumferential"; "AverageRadial";
  "AverageI"; "AverageJ"; "AverageK"]%string.
Definition units5 := [MassUnitsName; LengthUnitsName; TimeUnitsName; TemperatureUnitsName; AngleUnitsName].
Definition units3 := [ElectricCurrentUnitsName; SubstanceAmountUnitsName; LuminousIntensityUnitsName].

(* the tables the model uses, by the name of the C array in cgnslib.c (compared with the regenerated ones) *)
Definition model_enum_tables : list (bytes * list bytes) :=
  [(s "ZoneTypeName", ZoneTypeName); (s "GridLocationName", GridLocationName); (s "DataClassName", DataClassName);
   (s "GridConnectivityTypeName", GridConnectivityTypeName); (s "BCTypeName", BCTypeName);
   (s "MassUnitsName", MassUnitsName); (s "LengthUnitsName", LengthUnitsName); (s "TimeUnitsName", TimeUnitsName);
   (s "TemperatureUnitsName", TemperatureUnitsName); (s "AngleUnitsName", AngleUnitsName);
   (s "ElectricCurrentUnitsName", ElectricCurrentUnitsName); (s "SubstanceAmountUnitsName", SubstanceAmountUnitsName);
   (s "LuminousIntensityUnitsName", LuminousIntensityUnitsName);
   (s "RigidGridMotionTypeName", RigidGridMotionTypeName); (s "ArbitraryGridMotionTypeName", ArbitraryGridMotionTypeName);
   (s "SimulationTypeName", SimulationTypeName); (s "GoverningEquationsTypeName", GoverningEquationsTypeName);
   (s "ModelTypeName", ModelTypeName); (s "ParticleGoverningEquationsTypeName", ParticleGoverningEquationsTypeName);
   (s "ParticleModelTypeName", ParticleModelTypeName); (s "WallFunctionTypeName", WallFunctionTypeName);
   (s "AreaTypeName", AreaTypeName); (s "AverageInterfaceTypeName", AverageInterfaceTypeName)].

(* ---- data types ---------------------------------------------------------------------------------------------- *)
Definition dMT := s "MT". Definition dC1 := s "C1". Definition dI4 := s "I4". Definition dI8 := s "I8".
Definition dR4 := s "R4". Definition dR8 := s "R8". Definition dX4 := s "X4". Definition dX8 := s "X8".
Definition dU4 := s "U4". Definition dU8 := s "U8".
Definition dt_in (dts : list bytes) (dt : bytes) : bool := existsb (bytes_eqb dt) dts.
Definition dts_int := [dI4; dI8].
Definition dts_real := [dR4; dR8].
Definition dts_array := [dI4; dI8; dR4; dR8; dC1; dX4; dX8].      (* cg_array_write *)
Definition dts_field := [dI4; dI8; dR4; dR8; dX4; dX8].           (* cgi_read_sol *)
(* cgi_read_node allocates a buffer only for these types; an array of another type under a node whose arrays are loaded
   when the file is opened (everything but GridCoordinates_t, FlowSolution_t, Elements_t, DiscreteData_t,
   UserDefinedData_t ...) makes the read fail.  The list is the one of the CURRENT sources (regenerated). *)
Definition dts_loadable : list bytes := gen_read_node_allocates.

(* ---- the context a reader carries down: Cdim, Pdim, Idim, CurrentDim ----------------------------------------- *)
Record ctx := mkCtx { cx_cell : Z; cx_phys : Z; cx_idim : Z; cx_zsize : list Z }.
Definition ctx0 : ctx := mkCtx 0 0 0 [].

(* ---- payloads ---------------------------------------------------------------------------------------------------- *)
Inductive pval :=
| VNone
| VStr (x : bytes)
| VEnum (i : Z)
| VEnums (l : list Z)
| VInts (dims vals : list Z)
| VArr (dt : bytes) (dims : list Z) (data : bytes).

Inductive dim1 := DFix (n : Z) | DIdim | D2Idim | DPhys | DAny.
Inductive pshape :=
| SNone                                                  (* "MT" *)
| SStr                                                   (* "C1" [len] *)
| SEnum (tbl : list bytes)                               (* "C1" [len] = tbl[i] *)
| SEnums (tbls : list (list bytes))                      (* "C1" [32, n]: blank padded names *)
| SI4 (d : list dim1)                                    (* int *)
| SSize (d : list dim1)                                  (* cgsize_t: written as I8, I4 accepted on read *)
| SArr (dts : list bytes) (d : option (list dim1)).      (* typed array, raw bytes *)

Definition dim1_ok (c : ctx) (d : dim1) (v : Z) : bool :=
  match d with
  | DFix n => v =? n
  | DIdim => v =? cx_idim c
  | D2Idim => v =? 2 * cx_idim c
  | DPhys => v =? cx_phys c
  | DAny => true
  end.
Fixpoint dims_match (c : ctx) (ds : list dim1) (dims : list Z) : bool :=
  match ds, dims with
  | [], [] => true
  | d :: ds', v :: dims' => dim1_ok c d v && dims_match c ds' dims'
  | _, _ => false
  end.
Definition dims_pos (dims : list Z) : bool :=
  (1 <=? length dims)%nat && (length dims <=? 12)%nat && forallb (Z.leb 1) dims.
Definition odims_match (c : ctx) (od : option (list dim1)) (dims : list Z) : bool :=
  match od with None => true | Some ds => dims_match c ds dims end.

Definition no_nul (x : bytes) : bool := forallb (fun ch => (1 <=? ch) && (ch <=? 255)) x.
Definition is_byte (ch : Z) : bool := (0 <=? ch) && (ch <=? 255).

Fixpoint enc_enums (tbls : list (list bytes)) (l : list Z) : bytes :=
  match tbls, l with
  | t :: tr, i :: lr => pad32 (enum_name t i) ++ enc_enums tr lr
  | _, _ => []
  end.
Fixpoint dec_enums (tbls : list (list bytes)) (b : bytes) : option (list Z) :=
  match tbls with
  | [] => Some []
  | t :: tr => match lookup t (rstrip (firstn 32 b)) with
               | None => None
               | Some i => match dec_enums tr (skipn 32 b) with None => None | Some r => Some (i :: r) end
               end
  end.
Fixpoint enums_in (tbls : list (list bytes)) (l : list Z) : bool :=
  match tbls, l with
  | [], [] => true
  | t :: tr, i :: lr => enum_in t i && enums_in tr lr
  | _, _ => false
  end.

Definition enc_payload (sh : pshape) (v : pval) : bytes * list Z * bytes :=
  match sh, v with
  | SStr, VStr x => (dC1, [lenZ x], x)
  | SEnum tbl, VEnum i => (dC1, [lenZ (enum_name tbl i)], enum_name tbl i)
  | SEnums tbls, VEnums l => (dC1, [32; lenZ l], enc_enums tbls l)
  | SI4 _, VInts dims vals => (dI4, dims, enc_ints 4 vals)
  | SSize _, VInts dims vals => (dI8, dims, enc_ints 8 vals)
  | SArr _ _, VArr dt dims data => (dt, dims, data)
  | _, _ => (dMT, [], [])
  end.

Definition wf_payload (c : ctx) (sh : pshape) (v : pval) : bool :=
  match sh, v with
  | SNone, VNone => true
  | SStr, VStr x => (1 <=? lenZ x) && no_nul x
  | SEnum tbl, VEnum i => enum_in tbl i
  | SEnums tbls, VEnums l => enums_in tbls l
  | SI4 ds, VInts dims vals =>
      dims_match c ds dims && dims_pos dims && (lenZ vals =? prodZ dims) && forallb (int_in_range 4) vals
  | SSize ds, VInts dims vals =>
      dims_match c ds dims && dims_pos dims && (lenZ vals =? prodZ dims) && forallb (int_in_range 8) vals
  | SArr dts od, VArr dt dims data =>
      dt_in dts dt && odims_match c od dims && dims_pos dims && (lenZ data =? prodZ dims * dt_size dt)
      && forallb is_byte data
  | _, _ => false
  end.

Definition dec_payload (c : ctx) (sh : pshape) (dt : bytes) (dims : list Z) (data : bytes) : option pval :=
  match sh with
  | SNone => if bytes_eqb dt dMT then Some VNone else None
  | SStr => if bytes_eqb dt dC1 && (lenZ data =? prodZ dims) && (1 <=? lenZ data) then Some (VStr data) else None
  | SEnum tbl =>
      if bytes_eqb dt dC1 && (lenZ data =? prodZ dims) then
        match lookup tbl data with Some i => Some (VEnum i) | None => None end
      else None
  | SEnums tbls =>
      if bytes_eqb dt dC1 && (lenZ data =? prodZ dims) && (lenZ data =? 32 * lenZ tbls) then
        match dec_enums tbls data with Some l => Some (VEnums l) | None => None end
      else None
  | SI4 ds =>
      if bytes_eqb dt dI4 && dims_match c ds dims && dims_pos dims && (lenZ data =? 4 * prodZ dims) then
        Some (VInts dims (dec_ints 4 (Z.to_nat (prodZ dims)) data))
      else None
  | SSize ds =>
      if dims_match c ds dims && dims_pos dims then
        if bytes_eqb dt dI8 && (lenZ data =? 8 * prodZ dims) then
          Some (VInts dims (dec_ints 8 (Z.to_nat (prodZ dims)) data))
        else if bytes_eqb dt dI4 && (lenZ data =? 4 * prodZ dims) then
          Some (VInts dims (dec_ints 4 (Z.to_nat (prodZ dims)) data))
        else None
      else None
  | SArr dts od =>
      if dt_in dts dt && odims_match c od dims && dims_pos dims && (lenZ data =? prodZ dims * dt_size dt) then
        Some (VArr dt dims data)
      else None
  end.

(* ---- entity kinds -------------------------------------------------------------------------------------------------- *)
Inductive kind :=
| KRoot | KVersion | KBase | KZone | KZoneType | KGrid | KArray | KRind
| KElements | KElemRange | KElemConn | KElemOffset | KParElem | KParFace
| KSol | KGridLoc | KZoneBC | KBC | KPointList | KPointRange | KNormalList | KNormalIndex
| KBCDataSet | KBCDataD | KBCDataN
| KZGC | K1to1 | KTransform | KPointRangeDonor | KConn | KConnType | KPointListDonor | KCellListDonor | KInterp
| KHole | KHoleRange
| KFamily | KFamilyBC | KFamName | KFamFamName | KGeoRef | KGeoFile | KGeoFormat | KGeoEntity
| KDescr | KDataClass | KUnits | KAddUnits | KExponents | KAddExponents | KConversion | KOrdinal | KUserData
(* tranche 2 *)
| KDiscrete | KIntegral | KRefState | KConverg | KRMotion | KAMotion | KBIter | KZIter | KSimType | KGravity
| KAxisym | KRotating | KEqSet | KGoverning | KEqDim
(* tranche 3 *)
| KPZone | KPCoor | KPSol | KPIter | KPEqSet | KPGoverning | KPModColl | KPModBreak | KPModForce | KPModWall | KPModPhase
| KSubReg
| KBProp | KWallFn | KWallFnType | KArea | KAreaType | KCProp | KPeriodic | KAverage | KAverageType
| KModGas | KModVisc | KModCond | KModClosure | KModTurb | KModRelax | KModChem | KModEMElec | KModEMMagn | KModEMCond
| KDiffusion
| KFamBCDataSet | KAddFamName.
Scheme Equality for kind.
Definition kind_eqb := kind_beq.

Definition all_kinds : list kind :=
  [KRoot; KVersion; KBase; KZone; KZoneType; KGrid; KArray; KRind; KElements; KElemRange; KElemConn; KElemOffset;
   KParElem; KParFace; KSol; KGridLoc; KZoneBC; KBC; KPointList; KPointRange; KNormalList; KNormalIndex; KBCDataSet;
   KBCDataD; KBCDataN; KZGC; K1to1; KTransform; KPointRangeDonor; KConn; KConnType; KPointListDonor; KCellListDonor;
   KInterp; KHole; KHoleRange; KFamily; KFamilyBC; KFamName; KFamFamName; KGeoRef; KGeoFile; KGeoFormat; KGeoEntity;
   KDescr; KDataClass; KUnits; KAddUnits; KExponents; KAddExponents; KConversion; KOrdinal; KUserData;
   KDiscrete; KIntegral; KRefState; KConverg; KRMotion; KAMotion; KBIter; KZIter; KSimType; KGravity; KAxisym;
   KRotating; KEqSet; KGoverning; KEqDim;
   KPZone; KPCoor; KPSol; KPIter; KPEqSet; KPGoverning; KPModColl; KPModBreak; KPModForce; KPModWall; KPModPhase; KSubReg;
   KBProp; KWallFn; KWallFnType; KArea; KAreaType; KCProp; KPeriodic; KAverage; KAverageType;
   KModGas; KModVisc; KModCond; KModClosure; KModTurb; KModRelax; KModChem; KModEMElec; KModEMMagn; KModEMCond; KDiffusion;
   KFamBCDataSet; KAddFamName].

Inductive card := COne | COpt | CMany.
Definition card_ok (cd : card) (n : nat) : bool :=
  match cd with COne => (n =? 1)%nat | COpt => (n <=? 1)%nat | CMany => true end.
Inductive ctxrule := CxKeep | CxBase | CxPZone | CxZone.
Record slot := mkSlot { s_kind : kind; s_card : card; s_sorted : bool }.
Record kspec := mkSpec {
  k_label : bytes;               (* the node label the writer emits and the reader collects *)
  k_fixname : option bytes;      (* the node name is this literal (None: the caller's name) *)
  k_selname : bool;              (* the reader identifies the child by label AND name *)
  k_shape : pshape;
  k_ctx : ctxrule;
  k_slots : list slot
}.
Definition one k := mkSlot k COne false.
Definition opt k := mkSlot k COpt false.
Definition many k := mkSlot k CMany false.
Definition sorted k := mkSlot k CMany true.

(* Descriptor_t, DataClass_t, DimensionalUnits_t (cgi_read_DDD) and UserDefinedData_t *)
Definition ddd := [many KDescr; opt KDataClass; opt KUnits].
Definition dddu := ddd ++ [many KUserData].
Definition q := s.
Definition lab_int_idim := s """int[IndexDimension]""".

Definition fmodel (label name : bytes) (extra : list slot) : kspec :=
  mkSpec label (Some name) false (SEnum ModelTypeName) CxKeep (ddd ++ [many KArray; many KUserData] ++ extra).
Definition pmodel (label name : bytes) : kspec :=
  mkSpec label (Some name) false (SEnum ParticleModelTypeName) CxKeep (ddd ++ [many KArray; many KUserData]).

Definition spec (k : kind) : kspec :=
  match k with
  | KRoot => mkSpec (s "Root Node of ADF File") None false SNone CxKeep [one KVersion; many KBase]
  | KVersion => mkSpec (s "CGNSLibraryVersion_t") (Some (s "CGNSLibraryVersion")) false (SArr [dR4] (Some [DFix 1])) CxKeep []
  | KBase => mkSpec (s "CGNSBase_t") None false (SI4 [DFix 2]) CxBase
      ([sorted KZone; many KFamily] ++ dddu ++
       [opt KRefState; opt KGravity; opt KAxisym; opt KRotating; opt KConverg; opt KEqSet; many KIntegral; opt KSimType; opt KBIter;
        sorted KPZone; opt KPEqSet])
  | KZone => mkSpec (s "Zone_t") None false (SSize [DIdim; DFix 3]) CxZone
      ([opt KZoneType; many KGrid; many KElements; opt KFamName; many KSol; many KZGC; opt KZoneBC] ++ dddu ++
       [opt KOrdinal; many KDiscrete; many KIntegral; opt KRefState; opt KConverg; opt KEqSet; many KRMotion;
        many KAMotion; opt KZIter; opt KRotating; many KSubReg; many KAddFamName])
  | KZoneType => mkSpec (s "ZoneType_t") (Some (s "ZoneType")) false (SEnum ZoneTypeName) CxKeep []
  | KGrid => mkSpec (s "GridCoordinates_t") None false SNone CxKeep ([opt KRind; many KArray] ++ dddu)
  | KArray => mkSpec (s "DataArray_t") None false (SArr dts_array None) CxKeep (ddd ++ [opt KConversion; opt KExponents])
  | KRind => mkSpec (s "Rind_t") (Some (s "Rind")) false (SI4 [D2Idim]) CxKeep []
  | KElements => mkSpec (s "Elements_t") None false (SI4 [DFix 2]) CxKeep
      [one KElemRange; opt KRind; one KElemConn; opt KElemOffset; opt KParElem; opt KParFace; many KDescr; many KUserData]
  | KElemRange => mkSpec (s "IndexRange_t") (Some (s "ElementRange")) true (SSize [DFix 2]) CxKeep []
  | KElemConn => mkSpec (s "DataArray_t") (Some (s "ElementConnectivity")) true (SArr dts_int (Some [DAny])) CxKeep []
  | KElemOffset => mkSpec (s "DataArray_t") (Some (s "ElementStartOffset")) true (SArr dts_int (Some [DAny])) CxKeep []
  | KParElem => mkSpec (s "DataArray_t") (Some (s "ParentElements")) true (SArr dts_int (Some [DAny; DFix 2])) CxKeep []
  | KParFace => mkSpec (s "DataArray_t") (Some (s "ParentElementsPosition")) true (SArr dts_int (Some [DAny; DFix 2])) CxKeep []
  | KSol => mkSpec (s "FlowSolution_t") None false SNone CxKeep
      ([opt KGridLoc; opt KRind; opt KPointList; opt KPointRange; many KArray] ++ dddu)
  | KGridLoc => mkSpec (s "GridLocation_t") (Some (s "GridLocation")) false (SEnum GridLocationName) CxKeep []
  | KZoneBC => mkSpec (s "ZoneBC_t") (Some (s "ZoneBC")) false SNone CxKeep ([many KBC] ++ dddu ++ [opt KRefState])
  | KBC => mkSpec (s "BC_t") None false (SEnum BCTypeName) CxKeep
      ([opt KGridLoc; opt KPointList; opt KPointRange; opt KFamName; opt KNormalList; opt KNormalIndex; many KBCDataSet]
       ++ dddu ++ [opt KRefState; opt KOrdinal; opt KBProp; many KAddFamName])
  | KPointList => mkSpec (s "IndexArray_t") (Some (s "PointList")) true (SSize [DIdim; DAny]) CxKeep []
  | KPointRange => mkSpec (s "IndexRange_t") (Some (s "PointRange")) true (SSize [DIdim; DFix 2]) CxKeep []
  | KNormalList => mkSpec (s "IndexArray_t") (Some (s "InwardNormalList")) true (SArr dts_real (Some [DPhys; DAny])) CxKeep []
  | KNormalIndex => mkSpec lab_int_idim (Some (s "InwardNormalIndex")) true (SI4 [DIdim]) CxKeep []
  | KBCDataSet => mkSpec (s "BCDataSet_t") None false (SEnum BCTypeName) CxKeep
      (ddd ++ [opt KRefState; opt KBCDataD; opt KBCDataN; many KUserData; opt KGridLoc; opt KPointList; opt KPointRange])
  | KBCDataD => mkSpec (s "BCData_t") (Some (s "DirichletData")) true SNone CxKeep ([many KArray] ++ dddu)
  | KBCDataN => mkSpec (s "BCData_t") (Some (s "NeumannData")) true SNone CxKeep ([many KArray] ++ dddu)
  | KZGC => mkSpec (s "ZoneGridConnectivity_t") None false SNone CxKeep
      [many KHole; many KConn; many K1to1; many KDescr; many KUserData]
  | K1to1 => mkSpec (s "GridConnectivity1to1_t") None false SStr CxKeep
      [one KPointRange; one KPointRangeDonor; opt KTransform; opt KOrdinal; many KDescr; many KUserData; opt KCProp]
  | KTransform => mkSpec lab_int_idim (Some (s "Transform")) false (SI4 [DIdim]) CxKeep []
  | KPointRangeDonor => mkSpec (s "IndexRange_t") (Some (s "PointRangeDonor")) true (SSize [DIdim; DFix 2]) CxKeep []
  | KConn => mkSpec (s "GridConnectivity_t") None false SStr CxKeep
      [opt KGridLoc; opt KPointList; opt KPointRange; opt KPointListDonor; opt KCellListDonor; opt KInterp;
       opt KConnType; opt KOrdinal; many KDescr; many KUserData; opt KCProp]
  | KConnType => mkSpec (s "GridConnectivityType_t") (Some (s "GridConnectivityType")) false
      (SEnum GridConnectivityTypeName) CxKeep []
  | KPointListDonor => mkSpec (s "IndexArray_t") (Some (s "PointListDonor")) true (SSize [DAny; DAny]) CxKeep []
  | KCellListDonor => mkSpec (s "IndexArray_t") (Some (s "CellListDonor")) true (SSize [DAny; DAny]) CxKeep []
  | KInterp => mkSpec (s "DataArray_t") (Some (s "InterpolantsDonor")) true (SArr dts_array None) CxKeep []
  | KHole => mkSpec (s "OversetHoles_t") None false SNone CxKeep
      [opt KGridLoc; opt KPointList; many KHoleRange; many KDescr; many KUserData]
  | KHoleRange => mkSpec (s "IndexRange_t") None false (SSize [DIdim; DFix 2]) CxKeep []
  | KFamily => mkSpec (s "Family_t") None false SNone CxKeep
      [many KFamFamName; many KFamilyBC; many KGeoRef; many KDescr; many KFamily; opt KOrdinal; many KUserData; opt KRotating]
  | KFamilyBC => mkSpec (s "FamilyBC_t") None false (SEnum BCTypeName) CxKeep [many KFamBCDataSet]
  | KFamName => mkSpec (s "FamilyName_t") (Some (s "FamilyName")) false SStr CxKeep []
  | KFamFamName => mkSpec (s "FamilyName_t") None false SStr CxKeep []
  | KGeoRef => mkSpec (s "GeometryReference_t") None false SNone CxKeep
      [many KUserData; many KDescr; one KGeoFile; one KGeoFormat; many KGeoEntity]
  | KGeoFile => mkSpec (s "GeometryFile_t") (Some (s "GeometryFile")) false SStr CxKeep []
  | KGeoFormat => mkSpec (s "GeometryFormat_t") (Some (s "GeometryFormat")) false SStr CxKeep []
  | KGeoEntity => mkSpec (s "GeometryEntity_t") None false SNone CxKeep []
  | KDescr => mkSpec (s "Descriptor_t") None false SStr CxKeep []
  | KDataClass => mkSpec (s "DataClass_t") (Some (s "DataClass")) false (SEnum DataClassName) CxKeep []
  | KUnits => mkSpec (s "DimensionalUnits_t") (Some (s "DimensionalUnits")) false (SEnums units5) CxKeep [opt KAddUnits]
  | KAddUnits => mkSpec (s "AdditionalUnits_t") (Some (s "AdditionalUnits")) false (SEnums units3) CxKeep []
  | KExponents => mkSpec (s "DimensionalExponents_t") (Some (s "DimensionalExponents")) false
      (SArr dts_real (Some [DFix 5])) CxKeep [opt KAddExponents]
  | KAddExponents => mkSpec (s "AdditionalExponents_t") (Some (s "AdditionalExponents")) false
      (SArr dts_real (Some [DFix 3])) CxKeep []
  | KConversion => mkSpec (s "DataConversion_t") (Some (s "DataConversion")) false (SArr dts_real (Some [DFix 2])) CxKeep []
  | KOrdinal => mkSpec (s "Ordinal_t") (Some (s "Ordinal")) false (SI4 [DFix 1]) CxKeep []
  | KUserData => mkSpec (s "UserDefinedData_t") None false SNone CxKeep
      (ddd ++ [many KArray; opt KGridLoc; opt KFamName; opt KOrdinal; opt KPointList; opt KPointRange; many KUserData;
               many KAddFamName])
  (* ---- tranche 2 *)
  | KDiscrete => mkSpec (s "DiscreteData_t") None false SNone CxKeep
      ([opt KGridLoc; opt KRind; opt KPointList; opt KPointRange; many KArray] ++ dddu)
  | KIntegral => mkSpec (s "IntegralData_t") None false SNone CxKeep ([many KArray] ++ dddu)
  | KRefState => mkSpec (s "ReferenceState_t") (Some (s "ReferenceState")) false SNone CxKeep ([many KArray] ++ dddu)
  | KConverg => mkSpec (s "ConvergenceHistory_t") None false (SI4 [DFix 1]) CxKeep ([many KArray] ++ dddu)
  | KRMotion => mkSpec (s "RigidGridMotion_t") None false (SEnum RigidGridMotionTypeName) CxKeep ([many KArray] ++ dddu)
  | KAMotion => mkSpec (s "ArbitraryGridMotion_t") None false (SEnum ArbitraryGridMotionTypeName) CxKeep
      ([opt KGridLoc; opt KRind; many KArray] ++ dddu)
  | KBIter => mkSpec (s "BaseIterativeData_t") None false (SI4 [DFix 1]) CxKeep ([many KArray] ++ dddu)
  | KZIter => mkSpec (s "ZoneIterativeData_t") None false SNone CxKeep ([many KArray] ++ dddu)
  | KSimType => mkSpec (s "SimulationType_t") (Some (s "SimulationType")) false (SEnum SimulationTypeName) CxKeep []
  | KGravity => mkSpec (s "Gravity_t") (Some (s "Gravity")) false SNone CxKeep ([many KArray] ++ dddu)
  | KAxisym => mkSpec (s "Axisymmetry_t") (Some (s "Axisymmetry")) false SNone CxKeep ([many KArray] ++ dddu)
  | KRotating => mkSpec (s "RotatingCoordinates_t") (Some (s "RotatingCoordinates")) false SNone CxKeep ([many KArray] ++ dddu)
  | KEqSet => mkSpec (s "FlowEquationSet_t") (Some (s "FlowEquationSet")) false SNone CxKeep
      ([opt KEqDim; opt KGoverning] ++ dddu ++
       [opt KModGas; opt KModVisc; opt KModCond; opt KModClosure; opt KModTurb; opt KModRelax; opt KModChem; opt KModEMElec;
        opt KModEMMagn; opt KModEMCond])
  | KEqDim => mkSpec (s """int""") (Some (s "EquationDimension")) false (SI4 [DFix 1]) CxKeep []
  (* ---- tranche 3: particles (the cg_particle_ writers, the cgi_read_particle readers) *)
  | KPZone => mkSpec (s "ParticleZone_t") None false (SSize [DFix 1]) CxPZone
      ([many KPCoor; opt KFamName; many KAddFamName; many KPSol] ++ ddd ++
       [opt KPEqSet; many KIntegral; opt KRefState; opt KPIter; many KUserData])
  | KPCoor => mkSpec (s "ParticleCoordinates_t") None false SNone CxKeep ([many KArray] ++ dddu)
  | KPSol => mkSpec (s "ParticleSolution_t") None false SNone CxKeep ([opt KPointList; opt KPointRange; many KArray] ++ dddu)
  | KPIter => mkSpec (s "ParticleIterativeData_t") None false SNone CxKeep ([many KArray] ++ dddu)
  | KPEqSet => mkSpec (s "ParticleEquationSet_t") (Some (s "ParticleEquationSet")) false SNone CxKeep
      ([opt KEqDim; opt KPGoverning; opt KPModColl; opt KPModBreak; opt KPModForce; opt KPModWall; opt KPModPhase] ++ dddu)
  | KPGoverning => mkSpec (s "ParticleGoverningEquations_t") (Some (s "ParticleGoverningEquations")) false
      (SEnum ParticleGoverningEquationsTypeName) CxKeep [many KDescr; many KUserData]
  | KPModColl => pmodel (s "ParticleCollisionModel_t") (s "ParticleCollisionModel")
  | KPModBreak => pmodel (s "ParticleBreakupModel_t") (s "ParticleBreakupModel")
  | KPModForce => pmodel (s "ParticleForceModel_t") (s "ParticleForceModel")
  | KPModWall => pmodel (s "ParticleWallInteractionModel_t") (s "ParticleWallInteractionModel")
  | KPModPhase => pmodel (s "ParticlePhaseChangeModel_t") (s "ParticlePhaseChangeModel")
  (* zone sub-regions (the cg_subreg_ writers, cgi_read_subregion); BCRegionName / GridConnectivityRegionName are Descriptor_t *)
  | KSubReg => mkSpec (s "ZoneSubRegion_t") None false (SI4 [DFix 1]) CxKeep
      (ddd ++ [many KArray; opt KGridLoc; opt KFamName; many KAddFamName; opt KPointList; opt KPointRange; opt KRind;
               many KUserData])
  (* BC and connectivity properties (cgi_read_bprop, cgi_read_cprop) *)
  | KBProp => mkSpec (s "BCProperty_t") (Some (s "BCProperty")) false SNone CxKeep
      [many KDescr; many KUserData; opt KWallFn; opt KArea]
  | KWallFn => mkSpec (s "WallFunction_t") (Some (s "WallFunction")) false SNone CxKeep
      [many KDescr; many KUserData; one KWallFnType]
  | KWallFnType => mkSpec (s "WallFunctionType_t") (Some (s "WallFunctionType")) false (SEnum WallFunctionTypeName) CxKeep []
  | KArea => mkSpec (s "Area_t") (Some (s "Area")) false SNone CxKeep [many KDescr; many KUserData; one KAreaType; many KArray]
  | KAreaType => mkSpec (s "AreaType_t") (Some (s "AreaType")) false (SEnum AreaTypeName) CxKeep []
  | KCProp => mkSpec (s "GridConnectivityProperty_t") (Some (s "GridConnectivityProperty")) false SNone CxKeep
      [many KDescr; many KUserData; opt KAverage; opt KPeriodic]
  | KPeriodic => mkSpec (s "Periodic_t") (Some (s "Periodic")) false SNone CxKeep (ddd ++ [many KUserData; many KArray])
  | KAverage => mkSpec (s "AverageInterface_t") (Some (s "AverageInterface")) false SNone CxKeep
      [many KDescr; many KUserData; one KAverageType]
  | KAverageType => mkSpec (s "AverageInterfaceType_t") (Some (s "AverageInterfaceType")) false
      (SEnum AverageInterfaceTypeName) CxKeep []
  (* the model nodes of a flow equation set (cg_model_write, cgi_read_model): the node name is the label without "_t" *)
  | KModGas => fmodel (s "GasModel_t") (s "GasModel") []
  | KModVisc => fmodel (s "ViscosityModel_t") (s "ViscosityModel") []
  | KModCond => fmodel (s "ThermalConductivityModel_t") (s "ThermalConductivityModel") []
  | KModClosure => fmodel (s "TurbulenceClosure_t") (s "TurbulenceClosure") []
  | KModTurb => fmodel (s "TurbulenceModel_t") (s "TurbulenceModel") [opt KDiffusion]
  | KModRelax => fmodel (s "ThermalRelaxationModel_t") (s "ThermalRelaxationModel") []
  | KModChem => fmodel (s "ChemicalKineticsModel_t") (s "ChemicalKineticsModel") []
  | KModEMElec => fmodel (s "EMElectricFieldModel_t") (s "EMElectricFieldModel") []
  | KModEMMagn => fmodel (s "EMMagneticFieldModel_t") (s "EMMagneticFieldModel") []
  | KModEMCond => fmodel (s "EMConductivityModel_t") (s "EMConductivityModel") []
  | KDiffusion => mkSpec (s """int[1+...+IndexDimension]""") (Some (s "DiffusionModel")) false (SI4 [DAny]) CxKeep []
  (* family tree *)
  | KFamBCDataSet => mkSpec (s "FamilyBCDataSet_t") None false (SEnum BCTypeName) CxKeep
      (ddd ++ [opt KRefState; opt KBCDataD; opt KBCDataN; many KUserData])
  | KAddFamName => mkSpec (s "AdditionalFamilyName_t") None false SStr CxKeep []
  | KGoverning => mkSpec (s "GoverningEquations_t") (Some (s "GoverningEquations")) false
      (SEnum GoverningEquationsTypeName) CxKeep [many KDescr; many KUserData; opt KDiffusion]
  end.

(* the name of a kind in scripts and canonical output: label[.fixed name] *)
Definition kind_name (k : kind) : bytes :=
  k_label (spec k) ++ match k_fixname (spec k) with Some n => 46 :: n | None => [] end.
Definition kind_names_distinct : bool := names_distinct_b (map kind_name all_kinds).

(* ---- trees, entities, the reader's mirror -------------------------------------------------------------------------- *)
Inductive tree := T (nm lbl dt : bytes) (dims : list Z) (data : bytes) (kids : list tree).
Inductive ent := E (k : kind) (nm : bytes) (v : pval) (kids : list ent).
Inductive rnode := R (k : kind) (nm : bytes) (v : pval) (slots : list (list rnode)).

Definition t_name (t : tree) := match t with T nm _ _ _ _ _ => nm end.
Definition t_label (t : tree) := match t with T _ l _ _ _ _ => l end.
Definition t_data (t : tree) := match t with T _ _ _ _ d _ => d end.
Definition t_kids (t : tree) := match t with T _ _ _ _ _ k => k end.
Definition ekind (e : ent) := match e with E k _ _ _ => k end.
Definition ename (e : ent) := match e with E _ nm _ _ => nm end.
Definition eval (e : ent) := match e with E _ _ v _ => v end.
Definition ekids (e : ent) := match e with E _ _ _ k => k end.
Definition rname (r : rnode) := match r with R _ nm _ _ => nm end.
Definition rkind (r : rnode) := match r with R k _ _ _ => k end.
Definition rval (r : rnode) := match r with R _ _ v _ => v end.
Definition rslots (r : rnode) := match r with R _ _ _ sl => sl end.

(* the children a reader collects for one of its slots: cgi_get_nodes (parent, label) [+ strcmp on the name] *)
Definition sel (k : kind) (t : tree) : bool :=
  bytes_eqb (t_label t) (k_label (spec k)) &&
  (if k_selname (spec k) then match k_fixname (spec k) with Some n => bytes_eqb (t_name t) n | None => true end
   else true).

(* qsort / insertion sort of the zone children by strcmp of their names *)
Fixpoint insert_by_name (r : rnode) (l : list rnode) : list rnode :=
  match l with
  | [] => [r]
  | x :: rest => if bytes_leb (rname r) (rname x) then r :: l else x :: insert_by_name r rest
  end.
Definition sort_by_name (l : list rnode) : list rnode := fold_right insert_by_name [] l.

(* ---- context rules ------------------------------------------------------------------------------------------------ *)
Definition STRUCTURED := 2. Definition UNSTRUCTURED := 3. Definition VERTEX := 2. Definition CELLCENTER := 3.
Definition idim_of (c : ctx) (zt : Z) : Z :=
  if zt =? STRUCTURED then cx_cell c else if zt =? UNSTRUCTURED then 1 else 0.

(* before the node's own data is interpreted: Idim of a zone comes from its ZoneType_t child (default Structured) *)
Definition ctx_pre_t (k : kind) (c : ctx) (kids : list tree) : ctx :=
  match k_ctx (spec k) with
  | CxZone =>
      let zt := match find (sel KZoneType) kids with
                | Some t => match lookup ZoneTypeName (t_data t) with Some i => i | None => 0 end
                | None => STRUCTURED
                end in
      mkCtx (cx_cell c) (cx_phys c) (idim_of c zt) []
  | CxPZone => mkCtx (cx_cell c) (cx_phys c) 1 []          (* cgi_read_particle: "Reset Idim" *)
  | _ => c
  end.
Definition ctx_pre_e (k : kind) (c : ctx) (kids : list ent) : ctx :=
  match k_ctx (spec k) with
  | CxZone =>
      let zt := match find (fun e => kind_eqb (ekind e) KZoneType) kids with
                | Some e => match eval e with VEnum i => if enum_in ZoneTypeName i then i else 0 | _ => 0 end
                | None => STRUCTURED
                end in
      mkCtx (cx_cell c) (cx_phys c) (idim_of c zt) []
  | CxPZone => mkCtx (cx_cell c) (cx_phys c) 1 []
  | _ => c
  end.
(* after: Cdim / Pdim from the base's data, CurrentDim from the zone's *)
Definition ctx_post (k : kind) (c : ctx) (v : pval) : ctx :=
  match k_ctx (spec k), v with
  | CxBase, VInts _ [cd; pd] => mkCtx cd pd 0 []
  | CxZone, VInts _ vals => mkCtx (cx_cell c) (cx_phys c) (cx_idim c) vals
  | CxPZone, VInts _ vals => mkCtx (cx_cell c) (cx_phys c) (cx_idim c) vals      (* CurrentParticleSize *)
  | _, _ => c
  end.

(* ---- validation a reader performs after collecting the children ([post_ok]) --------------------------------------- *)
Definition slot_of (sl : list (list rnode)) (k : kind) (parent : kind) : list rnode :=
  let fix go (ss : list slot) (sl : list (list rnode)) :=
    match ss, sl with
    | sp :: ss', l :: sl' => if kind_eqb (s_kind sp) k then l else go ss' sl'
    | _, _ => []
    end in
  go (k_slots (spec parent)) sl.

Definition rind_of (c : ctx) (sl : list (list rnode)) (parent : kind) : list Z :=
  match slot_of sl KRind parent with
  | R _ _ (VInts _ vals) _ :: _ => vals
  | _ => repeat 0 (Z.to_nat (2 * cx_idim c))
  end.
Definition loc_of (sl : list (list rnode)) (parent : kind) : Z :=
  match slot_of sl KGridLoc parent with
  | R _ _ (VEnum i) _ :: _ => i
  | _ => VERTEX
  end.
(* cgi_datasize *)
Definition datasize (c : ctx) (loc : Z) (rind : list Z) : option (list Z) :=
  let n := Z.to_nat (cx_idim c) in
  let dims := cx_zsize c in
  let at_ (l : list Z) (i : nat) := nth i l 0 in
  let rnd (j : nat) := at_ rind (2 * j)%nat + at_ rind (2 * j + 1)%nat in
  if loc =? VERTEX then
    Some (map (fun j => at_ dims j + rnd j) (seq 0 n))
  else if (loc =? CELLCENTER) || ((loc =? 4) && (cx_cell c =? 2)) || ((loc =? 8) && (cx_cell c =? 1)) then
    Some (map (fun j => at_ dims (j + n)%nat + rnd j) (seq 0 n))
  else if (5 <=? loc) && (loc <=? 7) then
    Some (map (fun j => at_ dims j + rnd j - (if Z.of_nat j =? loc - 5 then 0 else 1)) (seq 0 n))
  else None.
Definition arr_dims (r : rnode) : list Z := match rval r with VArr _ dims _ => dims | _ => [] end.
Definition arr_dt (r : rnode) : bytes := match rval r with VArr dt _ _ => dt | _ => [] end.

Definition NofValidElementTypes := 57.
Definition zone_sizes_ok (c : ctx) (vals : list Z) (zt : Z) : bool :=
  let n := Z.to_nat (cx_idim c) in
  if zt =? STRUCTURED then
    forallb (fun j => (0 <? nth j vals 0) && (nth j vals 0 =? nth (j + n) vals 0 + 1)) (seq 0 n)
  else (0 <=? nth 0 vals 0) && (0 <=? nth 1 vals 0) && (nth 2 vals 0 <=? nth 0 vals 0).

Definition ptset_count (sl : list (list rnode)) (parent : kind) : nat :=
  length (slot_of sl KPointList parent) + length (slot_of sl KPointRange parent).

(* cgi_read_ptset: size_of_patch of the point set found under the node (a list: its length; a range: the product of the
   extents, as the reader computes them -- without taking absolute values) *)
Definition patch_size (c : ctx) (sl : list (list rnode)) (parent : kind) : Z :=
  match slot_of sl KPointList parent, slot_of sl KPointRange parent with
  | R _ _ (VInts dims _) _ :: _, _ => nth 1 dims 0
  | [], R _ _ (VInts _ vals) _ :: _ =>
      let n := Z.to_nat (cx_idim c) in
      fold_left Z.mul (map (fun j => nth (j + n) vals 0 - nth j vals 0 + 1) (seq 0 n)) 1
  | _, _ => 0
  end.

(* does reader function [fn] call cgi_datasize before it looks for the point set of the node (then a location without a
   zone-wide data size fails the node even when it has a point set)?  Read off the source by the translator. *)
Definition datasize_first (fn : bytes) : bool := existsb (bytes_eqb fn) gen_datasize_before_ptset.
Definition is_some {A} (o : option A) : bool := match o with Some _ => true | None => false end.

Definition arrays_loadable (sl : list (list rnode)) (parent : kind) : bool :=
  forallb (fun a => dt_in dts_loadable (arr_dt a)) (slot_of sl KArray parent).

Definition post_ok (k : kind) (c : ctx) (v : pval) (sl : list (list rnode)) : bool :=
  match k with
  | KBCDataD | KBCDataN | KIntegral | KRefState | KConverg | KRMotion | KAMotion | KBIter | KZIter | KGravity | KAxisym
  | KRotating | KPIter =>
      arrays_loadable sl k
  (* cgi_read_model / cgi_read_particle_model: loaded arrays of one element *)
  | KModGas | KModVisc | KModCond | KModClosure | KModTurb | KModRelax | KModChem | KModEMElec | KModEMMagn | KModEMCond
  | KPModColl | KPModBreak | KPModForce | KPModWall | KPModPhase =>
      arrays_loadable sl k && forallb (fun a => zs_eqb (arr_dims a) [1]) (slot_of sl KArray k)
  (* cgi_read_particle: the count; coordinates and fields have one dimension of that size *)
  | KPZone => match v with VInts _ [n] => 0 <=? n | _ => false end
  | KPCoor =>
      forallb (fun a => zs_eqb (arr_dims a) [nth 0 (cx_zsize c) 0] && dt_in dts_real (arr_dt a)) (slot_of sl KArray KPCoor)
  | KPSol =>
      (ptset_count sl KPSol <=? 1)%nat &&
      forallb (fun a => dt_in dts_field (arr_dt a) &&
                        match ptset_count sl KPSol with
                        | O => zs_eqb (arr_dims a) [nth 0 (cx_zsize c) 0]
                        | _ => zs_eqb (arr_dims a) [patch_size c sl KPSol]
                        end) (slot_of sl KArray KPSol)
  | KSubReg => (ptset_count sl KSubReg <=? 1)%nat
  (* cgi_read_bprop: exactly SurfaceArea <R4, 1> and RegionName <C1, 32>; cgi_read_cprop: exactly the three R4 vectors *)
  | KArea =>
      arrays_loadable sl k && (length (slot_of sl KArray KArea) =? 2)%nat &&
      forallb (fun a => (bytes_eqb (rname a) (s "SurfaceArea") && bytes_eqb (arr_dt a) dR4 && zs_eqb (arr_dims a) [1]) ||
                        (bytes_eqb (rname a) (s "RegionName") && bytes_eqb (arr_dt a) dC1 && zs_eqb (arr_dims a) [32]))
              (slot_of sl KArray KArea)
  | KPeriodic =>
      arrays_loadable sl k && (length (slot_of sl KArray KPeriodic) =? 3)%nat &&
      forallb (fun a => (bytes_eqb (rname a) (s "RotationCenter") || bytes_eqb (rname a) (s "RotationAngle") ||
                         bytes_eqb (rname a) (s "Translation")) && bytes_eqb (arr_dt a) dR4 && zs_eqb (arr_dims a) [cx_phys c])
              (slot_of sl KArray KPeriodic)
  | KBase => match v with VInts _ [cd; pd] => (1 <=? cd) && (cd <=? 3) && (1 <=? pd) && (pd <=? 3) | _ => false end
  | KZone =>
      let zt := match slot_of sl KZoneType KZone with R _ _ (VEnum i) _ :: _ => i | _ => STRUCTURED end in
      ((zt =? STRUCTURED) || (zt =? UNSTRUCTURED)) &&
      match v with VInts _ vals => zone_sizes_ok c vals zt | _ => false end &&
      ((zt =? UNSTRUCTURED) || (length (slot_of sl KElements KZone) =? 0)%nat)
  | KGrid =>
      match datasize c VERTEX (rind_of c sl KGrid) with
      | Some ds => forallb (fun a => zs_eqb (arr_dims a) ds && dt_in dts_real (arr_dt a)) (slot_of sl KArray KGrid)
      | None => false
      end
  (* cgi_read_sol / cgi_read_discrete: the data size of the location is computed first -- also when a point set follows,
     so that a location cgi_datasize does not know fails the whole file -- then the arrays have that shape or, below a point
     set, one dimension of the patch size *)
  | KSol =>
      (ptset_count sl KSol <=? 1)%nat &&
      let ds := datasize c (loc_of sl KSol) (rind_of c sl KSol) in
      match ptset_count sl KSol with
      | O => match ds with
             | Some ds => forallb (fun a => dt_in dts_field (arr_dt a) && zs_eqb (arr_dims a) ds) (slot_of sl KArray KSol)
             | None => false
             end
      | _ => (negb (datasize_first (s "cgi_read_sol")) || is_some ds) &&
             forallb (fun a => dt_in dts_field (arr_dt a) && zs_eqb (arr_dims a) [patch_size c sl KSol]) (slot_of sl KArray KSol)
      end
  | KElements =>
      match v with VInts _ [et; _] => (0 <=? et) && (et <? NofValidElementTypes) | _ => false end
  | KBC => (ptset_count sl KBC =? 1)%nat
  | KBCDataSet => (ptset_count sl KBCDataSet <=? 1)%nat
  | KUserData => (ptset_count sl KUserData <=? 1)%nat
  | KDiscrete =>
      (ptset_count sl KDiscrete <=? 1)%nat &&
      let ds := datasize c (loc_of sl KDiscrete) (rind_of c sl KDiscrete) in
      match ptset_count sl KDiscrete with
      | O => match ds with
             | Some ds => forallb (fun a => zs_eqb (arr_dims a) ds) (slot_of sl KArray KDiscrete)
             | None => false
             end
      | _ => (negb (datasize_first (s "cgi_read_discrete")) || is_some ds) &&
             forallb (fun a => zs_eqb (arr_dims a) [patch_size c sl KDiscrete]) (slot_of sl KArray KDiscrete)
      end
  | KConn =>
      (ptset_count sl KConn =? 1)%nat &&
      (length (slot_of sl KPointListDonor KConn) + length (slot_of sl KCellListDonor KConn) <=? 1)%nat &&
      (let l := loc_of sl KConn in (2 <=? l) && (l <=? 7))
  | KHole =>
      (let l := loc_of sl KHole in (l =? VERTEX) || (l =? CELLCENTER)) &&
      ((length (slot_of sl KPointList KHole) =? 0)%nat || (length (slot_of sl KHoleRange KHole) =? 0)%nat)
  | K1to1 =>
      match slot_of sl KTransform K1to1 with
      | R _ _ (VInts _ vals) _ :: _ => forallb (fun t => (- cx_idim c <=? t) && (t <=? cx_idim c)) vals
      | _ => true
      end
  | _ => true
  end.

(* ---- the writer: entity -> node tree -------------------------------------------------------------------------------- *)
Fixpoint enc (e : ent) : tree :=
  match e with
  | E k nm v kids =>
      let '(dt, dims, data) := enc_payload (k_shape (spec k)) v in
      T nm (k_label (spec k)) dt dims data (map enc kids)
  end.

(* ---- the reader: node tree -> mirror -------------------------------------------------------------------------------- *)
Definition fixname_ok (k : kind) (nm : bytes) : bool :=
  match k_fixname (spec k) with Some n => bytes_eqb nm n | None => true end.

Definition dec_slot (dk : list (tree * (kind -> option rnode))) (sp : slot) : option (list rnode) :=
  match map_opt (fun p => snd p (s_kind sp)) (filter (fun p => sel (s_kind sp) (fst p)) dk) with
  | None => None
  | Some rs => if card_ok (s_card sp) (length rs) then Some (if s_sorted sp then sort_by_name rs else rs) else None
  end.

Fixpoint dec (c : ctx) (k : kind) (t : tree) {struct t} : option rnode :=
  match t with
  | T nm lbl dt dims data kids =>
      if bytes_eqb lbl (k_label (spec k)) && fixname_ok k nm then
        let c1 := ctx_pre_t k c kids in
        match dec_payload c1 (k_shape (spec k)) dt dims data with
        | None => None
        | Some v =>
            let c2 := ctx_post k c1 v in
            let dk := map (fun t' => (t', fun k' => dec c2 k' t')) kids in
            match map_opt (dec_slot dk) (k_slots (spec k)) with
            | None => None
            | Some sl => if post_ok k c2 v sl then Some (R k nm v sl) else None
            end
        end
      else None
  end.

(* ---- what was written, as the reader's mirror ------------------------------------------------------------------------ *)
Definition view_slot (vk : list (kind * rnode)) (sp : slot) : list rnode :=
  let rs := map snd (filter (fun p => kind_eqb (fst p) (s_kind sp)) vk) in
  if s_sorted sp then sort_by_name rs else rs.

Fixpoint view (e : ent) : rnode :=
  match e with
  | E k nm v kids =>
      let vk := map (fun e' => (ekind e', view e')) kids in
      R k nm v (map (view_slot vk) (k_slots (spec k)))
  end.

(* ---- well-formed written entities --------------------------------------------------------------------------------------- *)
(* legal node names: 1..32 characters, printable, no '/', not "." ".." (what both back ends accept) *)
Definition name_ok (nm : bytes) : bool :=
  (1 <=? lenZ nm) && (lenZ nm <=? 32) && forallb (fun ch => (32 <=? ch) && (ch <=? 126) && negb (ch =? 47)) nm
  && negb (bytes_eqb nm [46]) && negb (bytes_eqb nm [46; 46]).
Fixpoint names_distinct (l : list bytes) : bool :=
  match l with [] => true | x :: r => negb (existsb (bytes_eqb x) r) && names_distinct r end.
Definition count_kind (kids : list ent) (k : kind) : nat :=
  length (filter (fun e => kind_eqb (ekind e) k) kids).
Definition has_slot (parent : kind) (k : kind) : bool :=
  existsb (fun sp => kind_eqb (s_kind sp) k) (k_slots (spec parent)).

Fixpoint wf (c : ctx) (e : ent) : bool :=
  match e with
  | E k nm v kids =>
      let c1 := ctx_pre_e k c kids in
      let c2 := ctx_post k c1 v in
      name_ok nm && fixname_ok k nm && wf_payload c1 (k_shape (spec k)) v
      && forallb (fun e' => has_slot k (ekind e')) kids
      && forallb (fun sp => card_ok (s_card sp) (count_kind kids (s_kind sp))) (k_slots (spec k))
      && names_distinct (map ename kids)
      && post_ok k c2 v (rslots (view e))
      && forallb (wf c2) kids
  end.

(* ---- the schema is usable: decidable, evaluated once by the kernel ----------------------------------------------------- *)
Definition shape_ok (sh : pshape) : bool :=
  match sh with
  | SEnum tbl => enum_tbl_ok tbl
  | SEnums tbls => forallb enum_tbl_ok tbls
  | SArr dts _ => forallb (fun dt => 0 <? dt_size dt) dts
  | _ => true
  end.
(* two slots of one reader never claim the same child *)
Definition slots_disjoint (k1 k2 : kind) : bool :=
  kind_eqb k1 k2 ||
  negb (bytes_eqb (k_label (spec k1)) (k_label (spec k2))) ||
  (k_selname (spec k1) && k_selname (spec k2) &&
   match k_fixname (spec k1), k_fixname (spec k2) with Some a, Some b => negb (bytes_eqb a b) | _, _ => false end).
Fixpoint kinds_nodup (l : list kind) : bool :=
  match l with [] => true | x :: r => negb (existsb (kind_eqb x) r) && kinds_nodup r end.
Definition kind_ok (k : kind) : bool :=
  let sp := spec k in
  shape_ok (k_shape sp)
  && (negb (k_selname sp) || match k_fixname sp with Some _ => true | None => false end)
  && kinds_nodup (map s_kind (k_slots sp))
  && match k_ctx sp with CxZone => existsb (fun s1 => kind_eqb (s_kind s1) KZoneType) (k_slots sp) | _ => true end
  && forallb (fun s1 => forallb (fun s2 => slots_disjoint (s_kind s1) (s_kind s2)) (k_slots sp)) (k_slots sp).
Definition schema_ok : bool := forallb kind_ok all_kinds.

(* (parent label, child label, data types the reader accepts): compared with the tables regenerated from the sources *)
Definition shape_dts (sh : pshape) : list bytes :=
  match sh with
  | SNone => [dMT] | SStr | SEnum _ | SEnums _ => [dC1] | SI4 _ => [dI4] | SSize _ => [dI8] | SArr dts _ => dts
  end.
Definition schema_rows : list (bytes * bytes * list bytes) :=
  flat_map (fun k => map (fun sp => (k_label (spec k), k_label (spec (s_kind sp)), shape_dts (k_shape (spec (s_kind sp)))))
                         (k_slots (spec k))) all_kinds.

(* ---- the API as the client sees it after reopen: defaults filled in ------------------------------------------------------- *)
(* cgi_read_location: Vertex; cgi_read_rind: zeros; cgi_read_1to1: Transform 1..Idim; cgi_read_conn: Overset;
   cgi_read_ordinal: 0; cgi_read_zonetype: Structured *)
Definition dflt_of (c : ctx) (parent k : kind) : option pval :=
  match k with
  | KGridLoc => Some (VEnum VERTEX)
  | KRind => Some (VInts [2 * cx_idim c] (repeat 0 (Z.to_nat (2 * cx_idim c))))
  | KTransform => Some (VInts [cx_idim c] (map (fun i => Z.of_nat i + 1) (seq 0 (Z.to_nat (cx_idim c)))))
  | KConnType => Some (VEnum 2)
  | KOrdinal => Some (VInts [1] [0])
  | KZoneType => Some (VEnum STRUCTURED)
  | KDataClass => Some (VEnum 0)
  | _ => None
  end.
Definition name_of_kind (k : kind) : bytes := match k_fixname (spec k) with Some n => n | None => [] end.
Definition ctx_pre_r (k : kind) (c : ctx) (sl : list (list rnode)) : ctx :=
  match k_ctx (spec k) with
  | CxZone =>
      let zt := match slot_of sl KZoneType k with R _ _ (VEnum i) _ :: _ => i | _ => STRUCTURED end in
      mkCtx (cx_cell c) (cx_phys c) (idim_of c zt) []
  | CxPZone => mkCtx (cx_cell c) (cx_phys c) 1 []
  | _ => c
  end.
Fixpoint api_fill (c : ctx) (r : rnode) : rnode :=
  match r with
  | R k nm v sl =>
      let c2 := ctx_post k (ctx_pre_r k c sl) v in
      let fix go (sl : list (list rnode)) (ss : list slot) {struct sl} : list (list rnode) :=
        match sl, ss with
        | l :: sl', sp :: ss' =>
            (match l, dflt_of c2 k (s_kind sp) with
             | [], Some d => [R (s_kind sp) (name_of_kind (s_kind sp)) d []]
             | _, _ => map (api_fill c2) l
             end) :: go sl' ss'
        | _, _ => []
        end in
      R k nm v (go sl (k_slots (spec k)))
  end.

(* ====================================================================================================================== *)
(* the write session: API calls -> entities                                                                                *)
(* ====================================================================================================================== *)
(* an address is the label+index path a client uses (B, Z, S ... / cg_goto): steps (kind, 1-based index among the
   children of that kind, in creation order -- the session mirror appends) *)
Definition path := list (kind * Z).

Fixpoint nth_of_kind (kids : list ent) (k : kind) (i : Z) : option ent :=
  match kids with
  | [] => None
  | e :: r => if kind_eqb (ekind e) k then (if i =? 1 then Some e else nth_of_kind r k (i - 1)) else nth_of_kind r k i
  end.
Fixpoint replace_nth_of_kind (kids : list ent) (k : kind) (i : Z) (e' : ent) : list ent :=
  match kids with
  | [] => []
  | e :: r => if kind_eqb (ekind e) k then (if i =? 1 then e' :: r else e :: replace_nth_of_kind r k (i - 1) e')
              else e :: replace_nth_of_kind r k i e'
  end.

(* apply f at the entity the path designates *)
Fixpoint at_path (p : path) (f : ent -> option ent) (e : ent) : option ent :=
  match p with
  | [] => f e
  | (k, i) :: p' =>
      match e with
      | E k0 nm v kids =>
          match nth_of_kind kids k i with
          | None => None
          | Some ch => match at_path p' f ch with
                       | None => None
                       | Some ch' => Some (E k0 nm v (replace_nth_of_kind kids k i ch'))
                       end
          end
      end
  end.
Fixpoint get_path (p : path) (e : ent) : option ent :=
  match p with
  | [] => Some e
  | (k, i) :: p' => match nth_of_kind (ekids e) k i with None => None | Some ch => get_path p' ch end
  end.

(* append children (CG_MODE_WRITE: a duplicate sibling name is an error; the parent's reader must have a slot) *)
Definition add_kids (news : list ent) (e : ent) : option ent :=
  match e with
  | E k nm v kids =>
      if forallb (fun n => has_slot k (ekind n)) news && names_distinct (map ename (kids ++ news))
      then Some (E k nm v (kids ++ news)) else None
  end.
(* a container the writer creates on demand: cgi_get_zcoorGC / "if (zone->zboco == 0)" / "if (zone->nzconn == 0)" create
   it only when the parent has NO child of that kind yet; otherwise the one with the default name must exist *)
Definition ensure_kid (k : kind) (nm : bytes) (e : ent) : ent :=
  match e with
  | E k0 nm0 v kids =>
      if existsb (fun x => kind_eqb (ekind x) k) kids then e
      else E k0 nm0 v (kids ++ [E k nm VNone []])
  end.
Fixpoint index_named (kids : list ent) (k : kind) (nm : bytes) (i : Z) : Z :=
  match kids with
  | [] => 0
  | e :: r => if kind_eqb (ekind e) k then (if bytes_eqb (ename e) nm then i else index_named r k nm (i + 1))
              else index_named r k nm i
  end.

Inductive fnid :=
| F_base | F_zone | F_grid | F_coord | F_section | F_poly_section | F_parent_data | F_sol | F_field
| F_boco | F_boco_gridlocation | F_boco_normal | F_dataset | F_bcdata
| F_1to1 | F_conn | F_hole | F_family | F_fambc | F_geo | F_part | F_family_name | F_famname
| F_descriptor | F_dataclass | F_units | F_unitsfull | F_exponents | F_expfull | F_conversion | F_ordinal
| F_user_data | F_array | F_rind | F_gridlocation | F_ptset
| F_discrete | F_integral | F_state | F_convergence | F_rigid_motion | F_arbitrary_motion | F_biter | F_ziter
| F_simulation_type | F_gravity | F_axisym | F_rotating | F_equationset | F_governing
| F_particle | F_particle_coord_node | F_particle_coord | F_particle_sol | F_particle_sol_ptset | F_particle_field | F_piter
| F_particle_equationset | F_particle_governing | F_particle_model
| F_subreg_ptset | F_subreg_bcname | F_subreg_gcname
| F_bc_wallfunction | F_bc_area | F_periodic | F_average
| F_model | F_diffusion
| F_bcdataset | F_node_family | F_multifam
| F_sol_ptset | F_discrete_ptset.
Scheme Equality for fnid.
Definition all_fns : list (fnid * bytes) :=
  [(F_base, s "base"); (F_zone, s "zone"); (F_grid, s "grid"); (F_coord, s "coord"); (F_section, s "section");
   (F_poly_section, s "poly_section"); (F_parent_data, s "parent_data"); (F_sol, s "sol"); (F_field, s "field");
   (F_boco, s "boco"); (F_boco_gridlocation, s "boco_gridlocation"); (F_boco_normal, s "boco_normal");
   (F_dataset, s "dataset"); (F_bcdata, s "bcdata"); (F_1to1, s "1to1"); (F_conn, s "conn"); (F_hole, s "hole");
   (F_family, s "family"); (F_fambc, s "fambc"); (F_geo, s "geo"); (F_part, s "part");
   (F_family_name, s "family_name"); (F_famname, s "famname");
   (F_descriptor, s "descriptor"); (F_dataclass, s "dataclass"); (F_units, s "units"); (F_unitsfull, s "unitsfull");
   (F_exponents, s "exponents"); (F_expfull, s "expfull"); (F_conversion, s "conversion"); (F_ordinal, s "ordinal");
   (F_user_data, s "user_data"); (F_array, s "array"); (F_rind, s "rind"); (F_gridlocation, s "gridlocation");
   (F_ptset, s "ptset");
   (F_discrete, s "discrete"); (F_integral, s "integral"); (F_state, s "state"); (F_convergence, s "convergence");
   (F_rigid_motion, s "rigid_motion"); (F_arbitrary_motion, s "arbitrary_motion"); (F_biter, s "biter");
   (F_ziter, s "ziter"); (F_simulation_type, s "simulation_type"); (F_gravity, s "gravity"); (F_axisym, s "axisym");
   (F_rotating, s "rotating"); (F_equationset, s "equationset"); (F_governing, s "governing");
   (F_particle, s "particle"); (F_particle_coord_node, s "particle_coord_node"); (F_particle_coord, s "particle_coord");
   (F_particle_sol, s "particle_sol"); (F_particle_sol_ptset, s "particle_sol_ptset"); (F_particle_field, s "particle_field");
   (F_piter, s "piter"); (F_particle_equationset, s "particle_equationset"); (F_particle_governing, s "particle_governing");
   (F_particle_model, s "particle_model"); (F_subreg_ptset, s "subreg_ptset"); (F_subreg_bcname, s "subreg_bcname");
   (F_subreg_gcname, s "subreg_gcname"); (F_bc_wallfunction, s "bc_wallfunction"); (F_bc_area, s "bc_area");
   (F_periodic, s "periodic"); (F_average, s "average"); (F_model, s "model"); (F_diffusion, s "diffusion");
   (F_bcdataset, s "bcdataset"); (F_node_family, s "node_family"); (F_multifam, s "multifam");
   (F_sol_ptset, s "sol_ptset"); (F_discrete_ptset, s "discrete_ptset")].

Definition fn_returns_index (f : fnid) : bool :=
  match f with
  | F_base | F_zone | F_grid | F_coord | F_section | F_poly_section | F_sol | F_field | F_boco | F_dataset
  | F_1to1 | F_conn | F_hole | F_family | F_fambc | F_geo | F_part | F_discrete | F_rigid_motion
  | F_arbitrary_motion | F_particle | F_particle_coord_node | F_particle_coord | F_particle_sol | F_particle_sol_ptset
  | F_particle_field | F_subreg_ptset | F_subreg_bcname | F_subreg_gcname | F_node_family | F_sol_ptset | F_discrete_ptset => true
  | _ => false
  end.

(* one API call: the function, where (index arguments or the cg_goto path), and its value arguments *)
Record call := mkCall {
  c_fn : fnid; c_at : path; c_name : bytes; c_ints : list Z; c_strs : list bytes;
  c_arrs : list (bytes * list Z * bytes)
}.

Definition arr1 (k : kind) (nm : bytes) (a : bytes * list Z * bytes) : ent :=
  let '(dt, dims, data) := a in E k nm (VArr dt dims data) [].
Definition loc_kid (loc : Z) : list ent :=        (* "if (location != Vertex) cgi_new_node (GridLocation ...)" *)
  if loc =? VERTEX then [] else [E KGridLoc (s "GridLocation") (VEnum loc) []].
Definition PointList := 2. Definition PointListDonor := 3. Definition PointRange := 4. Definition PointRangeDonor := 5.
Definition ElementRange := 6. Definition ElementList := 7. Definition CellListDonor := 8.
(* cgi_write_ptset: label by type, dims (index_dim, npnts) *)
Definition ptset_ent (ptype : Z) (idim : Z) (npnts : Z) (pnts : list Z) : list ent :=
  if ptype =? PointList then [E KPointList (s "PointList") (VInts [idim; npnts] pnts) []]
  else if ptype =? PointRange then [E KPointRange (s "PointRange") (VInts [idim; npnts] pnts) []]
  else [].

(* what a call creates: (path of the parent, container to create on demand, entities appended, kind whose index is
   returned).  Transcribed from the cg_*_write functions of cgnslib.c. *)
Record effect := mkEff { f_at : path; f_ensure : option (kind * bytes); f_new : list ent; f_ret : kind }.

Definition zone_idim (root : ent) (p : path) : Z :=
  match p with
  | (KBase, b) :: (KZone, z) :: _ =>
      match get_path [(KBase, b)] root, get_path [(KBase, b); (KZone, z)] root with
      | Some (E _ _ (VInts _ [cd; _]) _), Some (E _ _ _ zk) =>
          match find (fun e => kind_eqb (ekind e) KZoneType) zk with
          | Some (E _ _ (VEnum i) _) => if i =? STRUCTURED then cd else 1
          | _ => cd
          end
      | _, _ => 0
      end
  | _ => 0
  end.

Definition zone_type (root : ent) (p : path) : Z :=
  match p with
  | (KBase, b) :: (KZone, z) :: _ =>
      match get_path [(KBase, b); (KZone, z)] root with
      | Some (E _ _ _ zk) =>
          match find (fun e => kind_eqb (ekind e) KZoneType) zk with
          | Some (E _ _ (VEnum i) _) => i
          | _ => STRUCTURED
          end
      | None => 0
      end
  | _ => 0
  end.
Definition base_cell (root : ent) (p : path) : Z :=
  match p with
  | (KBase, b) :: _ => match get_path [(KBase, b)] root with Some (E _ _ (VInts _ [cd; _]) _) => cd | _ => 0 end
  | _ => 0
  end.

Definition name_of_fix (k : kind) : bytes := match k_fixname (spec k) with Some n => n | None => [] end.

Definition effect_of (root : ent) (cl : call) : option effect :=
  let p := c_at cl in
  let nm := c_name cl in
  match c_fn cl, c_ints cl, c_strs cl, c_arrs cl with
  | F_base, [cd; pd], [], [] => Some (mkEff [] None [E KBase nm (VInts [2] [cd; pd]) []] KBase)
  | F_zone, zt :: sizes, [], [] =>
      (* cg_zone_write: Zone_t (index_dim, 3) then ZoneType *)
      let idim := match get_path p root with
                  | Some (E _ _ (VInts _ [cd; _]) _) => if zt =? STRUCTURED then cd else 1
                  | _ => 0 end in
      Some (mkEff p None [E KZone nm (VInts [idim; 3] sizes) [E KZoneType (s "ZoneType") (VEnum zt) []]] KZone)
  | F_grid, [], [], [] => Some (mkEff p None [E KGrid nm VNone []] KGrid)
  | F_coord, [], [], [a] =>
      (* cg_coord_write: GridCoordinates created on demand, then the DataArray_t *)
      Some (mkEff (p ++ [(KGrid, 0)]) (Some (KGrid, s "GridCoordinates")) [arr1 KArray nm a] KArray)
  | F_section, [et; st; en; nb], [], [conn] =>
      Some (mkEff p None
        [E KElements nm (VInts [2] [et; nb])
           [E KElemRange (s "ElementRange") (VInts [2] [st; en]) []; arr1 KElemConn (s "ElementConnectivity") conn]]
        KElements)
  | F_poly_section, [et; st; en; nb], [], [conn; off] =>
      Some (mkEff p None
        [E KElements nm (VInts [2] [et; nb])
           [E KElemRange (s "ElementRange") (VInts [2] [st; en]) []; arr1 KElemOffset (s "ElementStartOffset") off;
            arr1 KElemConn (s "ElementConnectivity") conn]]
        KElements)
  | F_parent_data, [], [], [pe; pf] =>
      Some (mkEff p None [arr1 KParElem (s "ParentElements") pe; arr1 KParFace (s "ParentElementsPosition") pf] KParElem)
  | F_sol, [loc], [], [] => Some (mkEff p None [E KSol nm VNone (loc_kid loc)] KSol)
  | F_field, [], [], [a] => Some (mkEff p None [arr1 KArray nm a] KArray)
  | F_boco, bct :: ptype :: npnts :: pnts, [], [] =>
      (* cg_boco_write: ZoneBC on demand; BC_t; point set; (location is Vertex here) *)
      let idim := zone_idim root p in
      Some (mkEff (p ++ [(KZoneBC, 1)]) (Some (KZoneBC, s "ZoneBC"))
                  [E KBC nm (VEnum bct) (ptset_ent ptype idim npnts pnts)] KBC)
  | F_boco_gridlocation, [loc], [], [] =>
      (* cg_boco_gridlocation_write: always writes the node, also for Vertex *)
      Some (mkEff p None [E KGridLoc (s "GridLocation") (VEnum loc) []] KGridLoc)
  | F_boco_normal, nflag :: nidx, [], arrs =>
      (* cg_boco_normal_write: InwardNormalList (if NormalListFlag) then InwardNormalIndex (Structured zones only) *)
      Some (mkEff p None
        ((match arrs with a :: _ => if nflag =? 1 then [arr1 KNormalList (s "InwardNormalList") a] else [] | [] => [] end)
         ++ (match nidx with
             | [] => []
             | _ => if zone_type root p =? STRUCTURED
                    then [E KNormalIndex (s "InwardNormalIndex") (VInts [zone_idim root p] nidx) []] else []
             end)) KNormalIndex)
  | F_dataset, [bct], [], [] => Some (mkEff p None [E KBCDataSet nm (VEnum bct) []] KBCDataSet)
  | F_bcdata, [ty], [], [] =>
      if ty =? 2 then Some (mkEff p None [E KBCDataD (s "DirichletData") VNone []] KBCDataD)
      else if ty =? 3 then Some (mkEff p None [E KBCDataN (s "NeumannData") VNone []] KBCDataN) else None
  | F_1to1, ints, [donor], [] =>
      (* cg_1to1_write: ZoneGridConnectivity on demand; node; Transform; PointRange; PointRangeDonor *)
      let idim := zone_idim root p in
      let n := Z.to_nat idim in
      let rng := firstn (2 * n) ints in
      let drng := firstn (2 * n) (skipn (2 * n) ints) in
      let tr := skipn (4 * n) ints in
      Some (mkEff (p ++ [(KZGC, 1)]) (Some (KZGC, s "ZoneGridConnectivity"))
        [E K1to1 nm (VStr donor)
           [E KTransform (s "Transform") (VInts [idim] tr) [];
            E KPointRange (s "PointRange") (VInts [idim; 2] rng) [];
            E KPointRangeDonor (s "PointRangeDonor") (VInts [idim; 2] drng) []]] K1to1)
  | F_conn, loc :: cty :: ptype :: npnts :: dptype :: dzt :: ndonor :: rest, [donor], [] =>
      (* cg_conn_write: node (donor name); GridConnectivityType; GridLocation (if not Vertex); receiver point set;
         donor point set (if ndata_donor > 0) with index_dim_donor = cell_dim for a Structured donor, else 1 *)
      let idim := zone_idim root p in
      let ddim := if dzt =? STRUCTURED then base_cell root p else 1 in
      let np := Z.to_nat (idim * npnts) in
      let pnts := firstn np rest in
      let dpnts := skipn np rest in
      Some (mkEff (p ++ [(KZGC, 1)]) (Some (KZGC, s "ZoneGridConnectivity"))
        [E KConn nm (VStr donor)
           ([E KConnType (s "GridConnectivityType") (VEnum cty) []] ++ loc_kid loc ++
            ptset_ent ptype idim npnts pnts ++
            (if 0 <? ndonor then
               if dptype =? CellListDonor then [E KCellListDonor (s "CellListDonor") (VInts [ddim; ndonor] dpnts) []]
               else [E KPointListDonor (s "PointListDonor") (VInts [ddim; ndonor] dpnts) []]
             else []))] KConn)
  | F_hole, loc :: ptype :: nptsets :: npnts :: pnts, [], [] =>
      (* cg_hole_write: node; GridLocation (if not Vertex); PointList, or PointRange, PointRange2 ... *)
      let idim := zone_idim root p in
      let n := Z.to_nat (2 * idim) in
      let fix ranges (cnt : nat) (i : Z) (l : list Z) : list ent :=
        match cnt with
        | O => []
        | S c => E KHoleRange (s "PointRange" ++ nat_digits (Z.to_nat i))
                   (VInts [idim; 2] (firstn n l)) [] :: ranges c (i + 1) (skipn n l)
        end in
      Some (mkEff (p ++ [(KZGC, 1)]) (Some (KZGC, s "ZoneGridConnectivity"))
        [E KHole nm VNone
           (loc_kid loc ++
            (if ptype =? PointList then (if 0 <? npnts then [E KPointList (s "PointList") (VInts [idim; npnts] pnts) []] else [])
             else ranges (Z.to_nat nptsets) 1 pnts))] KHole)
  | F_family, [], [], [] => Some (mkEff p None [E KFamily nm VNone []] KFamily)
  | F_fambc, [bct], [], [] => Some (mkEff p None [E KFamilyBC nm (VEnum bct) []] KFamilyBC)
  | F_geo, [], [file; fmt], [] =>
      Some (mkEff p None [E KGeoRef nm VNone [E KGeoFile (s "GeometryFile") (VStr file) [];
                                              E KGeoFormat (s "GeometryFormat") (VStr fmt) []]] KGeoRef)
  | F_part, [], [], [] => Some (mkEff p None [E KGeoEntity nm VNone []] KGeoEntity)
  | F_family_name, [], [fam], [] => Some (mkEff p None [E KFamFamName nm (VStr fam) []] KFamFamName)
  | F_famname, [], [fam], [] => Some (mkEff p None [E KFamName (s "FamilyName") (VStr fam) []] KFamName)
  | F_descriptor, [], [text], [] => Some (mkEff p None [E KDescr nm (VStr text) []] KDescr)
  | F_dataclass, [dc], [], [] => Some (mkEff p None [E KDataClass (s "DataClass") (VEnum dc) []] KDataClass)
  | F_units, [m; l; t; th; a], [], [] =>
      Some (mkEff p None [E KUnits (s "DimensionalUnits") (VEnums [m; l; t; th; a]) []] KUnits)
  | F_unitsfull, [m; l; t; th; a; cu; am; li], [], [] =>
      Some (mkEff p None [E KUnits (s "DimensionalUnits") (VEnums [m; l; t; th; a])
                            [E KAddUnits (s "AdditionalUnits") (VEnums [cu; am; li]) []]] KUnits)
  | F_exponents, [], [], [a] => Some (mkEff p None [arr1 KExponents (s "DimensionalExponents") a] KExponents)
  | F_expfull, [], [], [a; b] =>
      Some (mkEff p None [let '(dt, dims, data) := a in
                          E KExponents (s "DimensionalExponents") (VArr dt dims data)
                            [arr1 KAddExponents (s "AdditionalExponents") b]] KExponents)
  | F_conversion, [], [], [a] => Some (mkEff p None [arr1 KConversion (s "DataConversion") a] KConversion)
  | F_ordinal, [o], [], [] => Some (mkEff p None [E KOrdinal (s "Ordinal") (VInts [1] [o]) []] KOrdinal)
  | F_user_data, [], [], [] => Some (mkEff p None [E KUserData nm VNone []] KUserData)
  | F_array, [], [], [a] => Some (mkEff p None [arr1 KArray nm a] KArray)
  | F_rind, rind, [], [] =>
      (* cgi_write_rind: "write Rind only if different from the default (6*0)" *)
      Some (mkEff p None (if forallb (Z.eqb 0) rind then [] else [E KRind (s "Rind") (VInts [lenZ rind] rind) []]) KRind)
  | F_gridlocation, [loc], [], [] => Some (mkEff p None [E KGridLoc (s "GridLocation") (VEnum loc) []] KGridLoc)
  | F_ptset, ptype :: idim :: npnts :: pnts, [], [] => Some (mkEff p None (ptset_ent ptype idim npnts pnts) KPointList)
  (* ---- tranche 2 *)
  | F_discrete, [], [], [] => Some (mkEff p None [E KDiscrete nm VNone []] KDiscrete)
  | F_integral, [], [], [] => Some (mkEff p None [E KIntegral nm VNone []] KIntegral)
  | F_state, [], descr, [] =>
      Some (mkEff p None [E KRefState (s "ReferenceState") VNone
                            (match descr with [d] => [E KDescr (s "ReferenceStateDescription") (VStr d) []] | _ => [] end)]
                  KRefState)
  | F_convergence, [iters], descr, [] =>
      Some (mkEff p None [E KConverg nm (VInts [1] [iters])
                            (match descr with [d] => [E KDescr (s "NormDefinitions") (VStr d) []] | _ => [] end)] KConverg)
  | F_rigid_motion, [ty], [], [] => Some (mkEff p None [E KRMotion nm (VEnum ty) []] KRMotion)
  | F_arbitrary_motion, [ty], [], [] => Some (mkEff p None [E KAMotion nm (VEnum ty) []] KAMotion)
  | F_biter, [nsteps], [], [] => Some (mkEff p None [E KBIter nm (VInts [1] [nsteps]) []] KBIter)
  | F_ziter, [], [], [] => Some (mkEff p None [E KZIter nm VNone []] KZIter)
  | F_simulation_type, [ty], [], [] => Some (mkEff p None [E KSimType (s "SimulationType") (VEnum ty) []] KSimType)
  | F_gravity, [], [], [a] =>
      Some (mkEff p None [E KGravity (s "Gravity") VNone [arr1 KArray (s "GravityVector") a]] KGravity)
  | F_axisym, [], [], [a; b] =>
      Some (mkEff p None [E KAxisym (s "Axisymmetry") VNone
                            [arr1 KArray (s "AxisymmetryReferencePoint") a; arr1 KArray (s "AxisymmetryAxisVector") b]] KAxisym)
  | F_rotating, [], [], [a; b] =>
      Some (mkEff p None [E KRotating (s "RotatingCoordinates") VNone
                            [arr1 KArray (s "RotationCenter") a; arr1 KArray (s "RotationRateVector") b]] KRotating)
  | F_equationset, [eqdim], [], [] =>
      (* cgi_write_equations: EquationDimension ("int") only if not 0 *)
      Some (mkEff p None [E KEqSet (s "FlowEquationSet") VNone
                            (if eqdim =? 0 then [] else [E KEqDim (s "EquationDimension") (VInts [1] [eqdim]) []])] KEqSet)
  | F_governing, [ty], [], [] => Some (mkEff p None [E KGoverning (s "GoverningEquations") (VEnum ty) []] KGoverning)
  (* ---- tranche 3: particles *)
  | F_particle, [n], [], [] => Some (mkEff p None [E KPZone nm (VInts [1] [n]) []] KPZone)
  | F_particle_coord_node, [], [], [] => Some (mkEff p None [E KPCoor nm VNone []] KPCoor)
  | F_particle_coord, [], [], [a] =>
      (* cg_particle_coord_write: ParticleCoordinates created on demand (cgi_get_particle_pcoorPC), then the DataArray_t *)
      Some (mkEff (p ++ [(KPCoor, 0)]) (Some (KPCoor, s "ParticleCoordinates")) [arr1 KArray nm a] KArray)
  | F_particle_sol, [], [], [] => Some (mkEff p None [E KPSol nm VNone []] KPSol)
  | F_particle_sol_ptset, ptype :: npnts :: pnts, [], [] =>
      Some (mkEff p None [E KPSol nm VNone (ptset_ent ptype 1 npnts pnts)] KPSol)
  | F_particle_field, [], [], [a] => Some (mkEff p None [arr1 KArray nm a] KArray)
  | F_piter, [], [], [] => Some (mkEff p None [E KPIter nm VNone []] KPIter)
  | F_particle_equationset, [eqdim], [], [] =>
      Some (mkEff p None [E KPEqSet (s "ParticleEquationSet") VNone
                            (if eqdim =? 0 then [] else [E KEqDim (s "EquationDimension") (VInts [1] [eqdim]) []])] KPEqSet)
  | F_particle_governing, [ty], [], [] =>
      Some (mkEff p None [E KPGoverning (s "ParticleGoverningEquations") (VEnum ty) []] KPGoverning)
  | F_particle_model, [which; ty], [], [] =>
      match nth_error [KPModColl; KPModBreak; KPModForce; KPModWall; KPModPhase] (Z.to_nat which) with
      | Some k => Some (mkEff p None [E k (name_of_fix k) (VEnum ty) []] k)
      | None => None
      end
  (* zone sub-regions: the node (RegionCellDimension), then the point set and the location (if not Vertex) / the name *)
  | F_subreg_ptset, dimension :: loc :: ptype :: npnts :: pnts, [], [] =>
      Some (mkEff p None [E KSubReg nm (VInts [1] [dimension])
                            (ptset_ent ptype (zone_idim root p) npnts pnts ++ loc_kid loc)] KSubReg)
  | F_subreg_bcname, [dimension], [bc], [] =>
      Some (mkEff p None [E KSubReg nm (VInts [1] [dimension]) [E KDescr (s "BCRegionName") (VStr bc) []]] KSubReg)
  | F_subreg_gcname, [dimension], [gc], [] =>
      Some (mkEff p None [E KSubReg nm (VInts [1] [dimension]) [E KDescr (s "GridConnectivityRegionName") (VStr gc) []]] KSubReg)
  (* BC / connectivity properties: the property container is created on demand *)
  | F_bc_wallfunction, [ty], [], [] =>
      Some (mkEff (p ++ [(KBProp, 1)]) (Some (KBProp, s "BCProperty"))
                  [E KWallFn (s "WallFunction") VNone [E KWallFnType (s "WallFunctionType") (VEnum ty) []]] KWallFn)
  | F_bc_area, [ty], [region], [surface] =>
      (* cg_bc_area_write: AreaType, SurfaceArea <R4, 1>, RegionName blank padded to <C1, 32> *)
      Some (mkEff (p ++ [(KBProp, 1)]) (Some (KBProp, s "BCProperty"))
                  [E KArea (s "Area") VNone
                     [E KAreaType (s "AreaType") (VEnum ty) []; arr1 KArray (s "SurfaceArea") surface;
                      E KArray (s "RegionName") (VArr dC1 [32] (pad32 region)) []]] KArea)
  | F_periodic, [], [], [ce; an; tr] =>
      Some (mkEff (p ++ [(KCProp, 1)]) (Some (KCProp, s "GridConnectivityProperty"))
                  [E KPeriodic (s "Periodic") VNone
                     [arr1 KArray (s "RotationCenter") ce; arr1 KArray (s "RotationAngle") an; arr1 KArray (s "Translation") tr]]
                  KPeriodic)
  | F_average, [ty], [], [] =>
      Some (mkEff (p ++ [(KCProp, 1)]) (Some (KCProp, s "GridConnectivityProperty"))
                  [E KAverage (s "AverageInterface") VNone [E KAverageType (s "AverageInterfaceType") (VEnum ty) []]] KAverage)
  (* equation-set models: the node is named after its label *)
  | F_model, [which; ty], [], [] =>
      match nth_error [KModGas; KModVisc; KModCond; KModClosure; KModTurb; KModRelax; KModChem; KModEMElec; KModEMMagn;
                       KModEMCond] (Z.to_nat which) with
      | Some k => Some (mkEff p None [E k (name_of_fix k) (VEnum ty) []] k)
      | None => None
      end
  | F_diffusion, vals, [], [] => Some (mkEff p None [E KDiffusion (s "DiffusionModel") (VInts [lenZ vals] vals) []] KDiffusion)
  (* family tree *)
  | F_bcdataset, [bct; ty], [], [] =>
      (* cg_bcdataset_write at a FamilyBC_t position: FamilyBCDataSet_t, then the BCData_t of the requested kind *)
      Some (mkEff p None [E KFamBCDataSet nm (VEnum bct)
                            [if ty =? 2 then E KBCDataD (s "DirichletData") VNone [] else E KBCDataN (s "NeumannData") VNone []]]
                  KFamBCDataSet)
  | F_node_family, [], [], [] => Some (mkEff p None [E KFamily nm VNone []] KFamily)
  | F_multifam, [], [fam], [] => Some (mkEff p None [E KAddFamName nm (VStr fam) []] KAddFamName)
  (* point-set solutions and discrete data: the node, the point set, the location (if not Vertex) *)
  | F_sol_ptset, loc :: ptype :: npnts :: pnts, [], [] =>
      Some (mkEff p None [E KSol nm VNone (ptset_ent ptype (zone_idim root p) npnts pnts ++ loc_kid loc)] KSol)
  | F_discrete_ptset, loc :: ptype :: npnts :: pnts, [], [] =>
      Some (mkEff p None [E KDiscrete nm VNone (ptset_ent ptype (zone_idim root p) npnts pnts ++ loc_kid loc)] KDiscrete)
  | _, _, _, _ => None
  end.

(* the last step (k, 0) of an effect path means "the container named by f_ensure" *)
Definition resolve_container (eff : effect) (root : ent) : option (ent * path) :=
  match f_ensure eff with
  | None => Some (root, f_at eff)
  | Some (k, nm) =>
      let pp := removelast (f_at eff) in
      match at_path pp (fun e => Some (ensure_kid k nm e)) root with
      | None => None
      | Some root' =>
          match get_path pp root' with
          | None => None
          | Some par =>
              let i := index_named (ekids par) k nm 1 in
              if i =? 0 then None else Some (root', pp ++ [(k, i)])
          end
      end
  end.

(* one call: the new session tree and the index the call returns (position of the new entity among the children of
   its kind) *)
Definition exec (root : ent) (cl : call) : option (ent * Z) :=
  match effect_of root cl with
  | None => None
  | Some eff =>
      match resolve_container eff root with
      | None => None
      | Some (root1, p) =>
          match at_path p (add_kids (f_new eff)) root1 with
          | None => None
          | Some root2 =>
              match get_path p root2 with
              | None => None
              | Some par => Some (root2, Z.of_nat (count_kind (ekids par) (f_ret eff)))
              end
          end
      end
  end.

Fixpoint run (root : ent) (cls : list call) : option (ent * list Z) :=
  match cls with
  | [] => Some (root, [])
  | cl :: r =>
      match exec root cl with
      | None => None
      | Some (root', i) => match run root' r with None => None | Some (root'', is) => Some (root'', i :: is) end
      end
  end.

(* cg_open (CG_MODE_WRITE): the root with CGNSLibraryVersion (R4 4.6 = 0x40933333) *)
Definition version_bytes : bytes := [51; 51; 147; 64].
Definition root0 : ent := E KRoot (s "HDF5 MotherNode") VNone [E KVersion (s "CGNSLibraryVersion") (VArr dR4 [1] version_bytes) []].

Definition write_file (cls : list call) : option tree :=
  match run root0 cls with Some (root, _) => Some (enc root) | None => None end.
Definition read_file (t : tree) : option rnode := dec ctx0 KRoot t.

(* ---- link to the ideal node database (TreeDB): the table of node records a tree denotes ----------------------------- *)
Fixpoint tree_table (parent next : Z) (t : tree) : Z * list nrec :=
  match t with
  | T nm lbl dt dims data kids =>
      let fix go (nx : Z) (l : list tree) : Z * list nrec :=
        match l with
        | [] => (nx, [])
        | x :: r => let '(n1, a) := tree_table next nx x in let '(n2, b) := go n1 r in (n2, a ++ b)
        end in
      let '(n1, sub) := go (next + 1) kids in
      (n1, mkN next parent nm lbl dt dims (map Some data) None :: sub)
  end.
(* the file's table: the root record (uid 0) followed by the records of all nodes, parents before children *)
Definition file_table (t : tree) : table := snd (tree_table (-1) 0 t).

(* ====================================================================================================================== *)
(* tables regenerated from the sources (Gen_C01.v) and the obligations over them                                           *)
(* ====================================================================================================================== *)
Definition wdt_ok (acc : list bytes) (d : wdt) : bool :=
  match acc with
  | [] => true
  | _ => match d with WLit x => dt_in acc x | WSize => dt_in acc dI8 | WParam => true end
  end.
(* a writer row whose label is chosen at run time among alternatives lists them separated by '|' *)
Fixpoint split_bar (x cur : bytes) : list bytes :=
  match x with
  | [] => [cur]
  | c :: r => if c =? 124 then cur :: split_bar r [] else split_bar r (cur ++ [c])
  end.
Definition reader_takes (rs : list rrow) (parent label : bytes) (d : wdt) : bool :=
  existsb (fun lab =>
    existsb (fun r => match r with
                      | RRow _ p l acc => bytes_eqb p parent && bytes_eqb l lab && wdt_ok acc d
                      | RUnparsed _ _ => false
                      end) rs) (split_bar label []).
(* (parent label, child label) pairs some writer emits although no reader of that parent collects them: each one is a
   DEFECT of the current sources, reported by the check under a stable finding key with a witness (notes/C01.md):
     BC_t / DataArray_t                   cg_array_write at a BC_t position (cgi_array_address hands out boco->normal) creates a
                                          DataArray_t; cgi_read_boco only looks for IndexArray_t "InwardNormalList"
     Family_t / AdditionalFamilyName_t    cg_multifam_write is accepted at a Family_t position; cgi_read_family collects
                                          FamilyName_t only (and cg_nmultifam refuses Family_t)
   A pair leaves this list when the sources are repaired (the obligation then holds without it). *)
Definition write_only : list (bytes * bytes) :=
  [(s "BC_t", s "DataArray_t"); (s "Family_t", s "AdditionalFamilyName_t")].
Definition wrow_closed (rs : list rrow) (w : wrow) : bool :=
  match w with
  | WUnparsed _ _ => false
  | WRow _ p _ l d _ =>
      reader_takes rs p l d || existsb (fun pl => bytes_eqb (fst pl) p && bytes_eqb (snd pl) l) write_only
  end.
Definition labels_closed (ws : list wrow) (rs : list rrow) : bool :=
  forallb (wrow_closed rs) ws &&
  forallb (fun r => match r with RUnparsed _ _ => false | RRow _ _ _ _ => true end) rs.
Definition open_wrows (ws : list wrow) (rs : list rrow) : list wrow := filter (fun w => negb (wrow_closed rs w)) ws.

(* every row of the hand-written schema is backed by the sources: some writer emits that child label under that parent
   label with a data type the schema row lists, and some reader collects it there *)
Definition writer_emits (ws : list wrow) (parent label : bytes) (dts : list bytes) : bool :=
  existsb (fun w => match w with
                    | WRow _ p _ l d _ =>
                        bytes_eqb p parent && existsb (bytes_eqb label) (split_bar l []) &&
                        match d with WLit x => dt_in dts x | WSize => dt_in dts dI8 | WParam => true end
                    | WUnparsed _ _ => false
                    end) ws.
Definition schema_row_backed (ws : list wrow) (rs : list rrow) (row : bytes * bytes * list bytes) : bool :=
  let '(p, l, dts) := row in
  writer_emits ws p l dts && existsb (fun r => match r with RRow _ p' l' _ => bytes_eqb p p' && bytes_eqb l l' | _ => false end) rs.
Definition schema_in_sources (ws : list wrow) (rs : list rrow) : bool := forallb (schema_row_backed ws rs) schema_rows.
Definition unbacked_rows (ws : list wrow) (rs : list rrow) := filter (fun r => negb (schema_row_backed ws rs r)) schema_rows.

(* the enumeration tables of the model are those of cgnslib.c *)
Fixpoint assoc_b {A} (k : bytes) (l : list (bytes * A)) : option A :=
  match l with [] => None | (k', v) :: r => if bytes_eqb k k' then Some v else assoc_b k r end.
Definition enum_tables_match (gen : list (bytes * list bytes)) : bool :=
  forallb (fun kv => match assoc_b (fst kv) gen with
                     | Some t => list_eqb bytes_eqb t (snd kv)
                     | None => false
                     end) model_enum_tables.
