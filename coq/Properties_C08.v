(* Properties_C08.v -- C08: links are transparent, non-owning, and always terminate.
   Exported statements about coq/Links.v (the faithful transcription of cgio_find_file, ADFI_chase_link,
   ADF_Get_Node_ID, ADF_Link / ADF_Get_Link_Path, ADFI_link_add / ADFI_close_file and of ADFH's open_link / parse_path)
   over worlds of TreeDB files.  [Cur] is the code in /repo now, [Old] the code before the repairs 909ac4d, 8281ca0,
   9d19299, fff8c32.  Positive theorems hold for EVERY world / state / link graph; a *_refuted theorem is a witness of
   something the CURRENT code gets wrong (a known finding), an *_old_refuted theorem a witness of what Old got wrong
   (kept as history; the same input is a regression case in corpus/C08).
   Only statements closed by [exact]; Print Assumptions under each. *)
From Coq Require Import ZArith List Bool.
From CgnsV Require Import ListX TreeDB TreeDBProofs Links LinksProofs.
Import ListNotations.
Local Open Scope Z_scope.

(* ---- termination --------------------------------------------------------------------------------------------------- *)
(* the while loop of ADFI_chase_link is bounded by its counter alone: Coq fuel beyond 101 - link_depth is never used *)
Theorem C08_loop_at_most_101_turns : forall ch d e n m depth s lk,
  0 <= depth <= 100 -> (Z.to_nat (101 - depth) <= n)%nat -> (Z.to_nat (101 - depth) <= m)%nat ->
  chase_loop ch d e n depth s lk = chase_loop ch d e m depth s lk.
Proof. exact loop_fuel_irrelevant. Qed.
Print Assumptions C08_loop_at_most_101_turns.

(* if the nested resolutions return, the resolution returns (either version, cached or not) *)
Theorem C08_resolution_returns_if_nested_do : forall v uc f d e, no_stack (chase v uc f d e) -> no_stack (chase v uc (S f) d e).
Proof. exact chase_returns. Qed.
Print Assumptions C08_resolution_returns_if_nested_do.

(* TERMINATION at full strength for the current code: for EVERY world, link graph, state and nesting budget a
   resolution never runs out of stack -- the mutual recursion ADFI_chase_link <-> ADF_Get_Node_ID is cut by the
   nesting counter (at most NEST_LIMIT = 100 activations, each at most 101 turns of the loop) *)
Theorem C08_terminates : forall uc d e f, no_stack (chase Cur uc f d e).
Proof. exact cur_never_out_of_stack. Qed.
Print Assumptions C08_terminates.

(* the link /L -> "/L/x" (its stored path passes through itself): LINKS_TOO_DEEP now, whatever the budget ... *)
Theorem C08_path_through_own_link_fails_cleanly : forall uc f s, r_cache s = None ->
  chase Cur uc f w_nest empty_env s (fA, 1) = (s, Err ETooDeep).
Proof. exact (nested_cycle_out_of_budget Cur). Qed.
Print Assumptions C08_path_through_own_link_fails_cleanly.

(* ... where the old code exhausted every recursion budget (the C stack overflowed) *)
Theorem C08_terminates_old_refuted : forall uc fuel s, r_cache s = None ->
  chase Old uc fuel w_nest empty_env s (fA, 1) = (s, Err EStack).
Proof. exact (nested_cycle_out_of_budget Old). Qed.
Print Assumptions C08_terminates_old_refuted.

(* LINKS_TOO_DEEP exactly when the chain exceeds the limit: k <= 100 links ending in a node resolve to it ... *)
Theorem C08_chain_within_limit_resolves : forall ch d e k s i s' t s'',
  hops ch d e k s i = Some (s', t) -> (k <= 100)%nat -> hop ch d e s' t = (s'', Ok None) ->
  chase_loop ch d e LOOP_FUEL 0 s i = (s'', Ok t).
Proof. exact chain_resolves. Qed.
Print Assumptions C08_chain_within_limit_resolves.

(* ... 101 links that all resolve (longer chains and all cycles) fail with LINKS_TOO_DEEP ... *)
Theorem C08_chain_beyond_limit_fails : forall ch d e s i s' t,
  hops ch d e 101 s i = Some (s', t) -> chase_loop ch d e LOOP_FUEL 0 s i = (s', Err ETooDeep).
Proof. exact chain_too_deep. Qed.
Print Assumptions C08_chain_beyond_limit_fails.

(* ... and the loop reports LINKS_TOO_DEEP for no other reason than its counter (or a nested resolution reporting it) *)
Theorem C08_too_deep_only_beyond_limit : forall ch d e n depth s lk s',
  chase_loop ch d e n depth s lk = (s', Err ETooDeep) -> 0 <= depth <= 100 ->
  (exists k t, hops ch d e (S k) s lk = Some (s', t) /\ depth + Z.of_nat (S k) = 101) \/
  (exists k sk tk, hops ch d e k s lk = Some (sk, tk) /\ hop ch d e sk tk = (s', Err ETooDeep)).
Proof. exact too_deep_exact. Qed.
Print Assumptions C08_too_deep_only_beyond_limit.

(* ---- transparency ------------------------------------------------------------------------------------------------- *)
Theorem C08_transparent : forall v uc fuel d e s i what s' val,
  cache_sane d s -> adf_get v uc fuel d e s i what = (s', AVal val) -> what <> 0 -> what <> 4 -> what <> 5 ->
  exists l, chase v uc fuel d e s i = (s', Ok l) /\ nonlink d l /\ val = node_attr d l what /\ cache_sane d s'.
Proof. exact adf_transparent. Qed.
Print Assumptions C08_transparent.

Theorem C08_direct_read_is_the_node : forall v uc f d e s l what,
  cache_sane d s -> nonlink d l -> what <> 0 -> what <> 4 -> what <> 5 ->
  adf_get v uc (S f) d e s l what = (s, AVal (node_attr d l what)).
Proof. exact adf_direct. Qed.
Print Assumptions C08_direct_read_is_the_node.

(* link queries return the stored file name and path ... *)
Theorem C08_link_query : forall file path, adf_file_ok file = true -> ~ In 62 file ->
  adf_get_link (adf_link_data file path) = (file, path).
Proof. exact link_query_roundtrip. Qed.
Print Assumptions C08_link_query.
Theorem C08_link_query_same_file : forall path, adf_get_link (adf_link_data [] path) = ([], path).
Proof. exact link_query_same_file. Qed.
Print Assumptions C08_link_query_same_file.
(* ... unless the file name contains the payload separator '>' (known finding adf-link-file-name-containing-separator) *)
Theorem C08_link_query_refuted : exists file path,
  adf_file_ok file = true /\ adf_get_link (adf_link_data file path) <> (file, path).
Proof. exact link_query_separator_refuted. Qed.
Print Assumptions C08_link_query_refuted.

(* ---- non-owning ---------------------------------------------------------------------------------------------------- *)
Theorem C08_non_owning : forall v s f p u s' df r,
  disk_get (a_disk s) f = Some df -> find_node (d_tab df) u = Some r -> is_link r = true -> children (d_tab df) u = [] ->
  adf_mutate v s f (ODelete p u) = (s', ROk) ->
  a_cache s' = None /\
  (forall g, g <> f -> disk_get (a_disk s') g = disk_get (a_disk s) g) /\
  (exists df', disk_get (a_disk s') f = Some df' /\
     (forall w r0, w <> u -> find_node (d_tab df) w = Some r0 -> find_node (d_tab df') w = Some r0) /\
     find_node (d_tab df') u = None /\
     (forall q, children (d_tab df') q = filter (fun x => negb (n_uid x =? u)) (children (d_tab df) q))).
Proof. exact delete_link_non_owning. Qed.
Print Assumptions C08_non_owning.

Theorem C08_link_creation_frame : forall pol t p u nm file path t',
  step_table pol t (OLink p u nm file path) = (t', ROk) ->
  (forall v, v <> u -> find_node t' v = find_node t v) /\
  find_node t' u = Some (mkN u p nm [] s_LK [] [] (Some (file, path))) /\
  children t' p = children t p ++ [mkN u p nm [] s_LK [] [] (Some (file, path))] /\
  (forall q, q <> p -> children t' q = children t q).
Proof. exact link_frame. Qed.
Print Assumptions C08_link_creation_frame.

Theorem C08_other_files_untouched : forall v s f o s' r, adf_mutate v s f o = (s', r) ->
  forall g, g <> f -> disk_get (a_disk s') g = disk_get (a_disk s) g.
Proof. exact mutate_other_files. Qed.
Print Assumptions C08_other_files_untouched.

(* ---- dangling ------------------------------------------------------------------------------------------------------ *)
Theorem C08_dangling_file : forall v uc f d e s i r file path,
  node_at d i = Some r -> adf_link_of r = Some (file, path) -> nonempty file = true ->
  (forall p, find_file d e (fst i) file 1 (ADF_FILENAME_LENGTH + 1) <> FOk p) -> cache_misses s i ->
  chase v uc (S f) d e s i = (s, Err ELinkFile).
Proof. exact dangling_file. Qed.
Print Assumptions C08_dangling_file.

Theorem C08_dangling_path : forall v uc f d e s i r file path s0 root s1,
  node_at d i = Some r -> adf_link_of r = Some (file, path) ->
  (if nonempty file then exists p, find_file d e (fst i) file 1 (ADF_FILENAME_LENGTH + 1) = FOk p /\
                                  s0 = log_add s (fst i) p /\ root = (p, root_uid)
   else s0 = s /\ root = root_of i) ->
  get_node_id (chase v uc f d e) d s0 root path = (s1, Err ENotFound) -> cache_misses s i ->
  chase v uc (S f) d e s i = (s1, Err ELinkTarget).
Proof. exact dangling_path. Qed.
Print Assumptions C08_dangling_path.

Theorem C08_dangling_read_is_error : forall v uc fuel d e s i what s' x, what <> 0 -> what <> 4 -> what <> 5 ->
  chase v uc fuel d e s i = (s', Err x) -> node_at d i <> None -> adf_get v uc fuel d e s i what = (s', AErr x).
Proof. exact dangling_read_is_error. Qed.
Print Assumptions C08_dangling_read_is_error.

Theorem C08_reads_change_no_file : forall v fuel s i what, a_disk (fst (adf_read v fuel s i what)) = a_disk s.
Proof. exact read_changes_no_file. Qed.
Print Assumptions C08_reads_change_no_file.

Theorem C08_failed_mutation_changes_nothing : forall v s f o s', adf_mutate v s f o = (s', RErr) -> s' = s.
Proof. exact mutate_failure_changes_nothing. Qed.
Print Assumptions C08_failed_mutation_changes_nothing.

(* ---- the one-entry cache ------------------------------------------------------------------------------------------- *)
(* for every world, from a state whose cache entry equals full resolution, the cached resolution keeps it so and --
   unless it runs out of nesting budget -- answers what full (cache-free) resolution answers once its budget suffices *)
Theorem C08_cache_sound : forall v d e f, sim v d e (chase v true f d e).
Proof. exact chase_sim. Qed.
Print Assumptions C08_cache_sound.

(* full resolution is a function of the world alone, and a larger budget only turns "out of budget" into an answer *)
Theorem C08_resolution_state_independent : forall v d e F, obl v false (U v d e F) (U v d e F).
Proof. exact resolve_state_independent. Qed.
Print Assumptions C08_resolution_state_independent.
Theorem C08_resolution_budget_monotone : forall v d e F, obl v true (U v d e F) (U v d e (S F)).
Proof. exact resolve_budget_monotone. Qed.
Print Assumptions C08_resolution_budget_monotone.

(* transparency at full strength under that hypothesis: the node read is THE target *)
Theorem C08_transparent_target : forall v fuel d e s i what s' val,
  cache_sane d s -> coherent v d e s -> adf_get v true fuel d e s i what = (s', AVal val) -> what <> 0 -> what <> 4 -> what <> 5 ->
  exists l, resolves_to v d e i (Ok l) /\ nonlink d l /\ val = node_attr d l what /\ cache_sane d s' /\ coherent v d e s'.
Proof. exact cached_read_is_full_resolution. Qed.
Print Assumptions C08_transparent_target.

(* EVERY mutation of the current code keeps the cache coherent -- create, link, delete, move, RENAME, relabel,
   re-dimension, any write, any query, accepted or refused, cleared or not ... *)
Theorem C08_mutations_keep_cache_coherent : forall s f o s' r,
  acoherent Cur s -> adf_mutate Cur s f o = (s', r) -> acoherent Cur s'.
Proof. exact mutations_keep_cache_coherent. Qed.
Print Assumptions C08_mutations_keep_cache_coherent.

(* ... hence CACHE COHERENCE: along EVERY history of reads, look-ups and mutations from an empty cache (search
   environment fixed), whatever is read through any link is an attribute of the node full resolution reaches *)
Theorem C08_cache_coherent : forall fuel s0 l i what val,
  a_cache s0 = None ->
  let s := run_evs Cur fuel s0 l in
  file_open s (fst i) = true -> snd (adf_read Cur fuel s i what) = AVal val -> what <> 0 -> what <> 4 -> what <> 5 ->
  exists t, resolves_to Cur (a_disk s) (a_env s) i (Ok t) /\ nonlink (a_disk s) t /\ val = node_attr (a_disk s) t what.
Proof. exact cache_coherent. Qed.
Print Assumptions C08_cache_coherent.

(* history: before 9d19299 the rename left the cached answer in place (/L -> /A/B, read, rename B to C, read) *)
Theorem C08_cache_old_refuted :
  snd (adf_read Old 8 (stale_session Old) (fA, 3) 1) = AVal (RBytes [76; 98]) /\
  resolve Old 8 (a_disk (stale_session Old)) (a_env (stale_session Old)) (fA, 3) = Err ELinkTarget.
Proof. exact cache_old_refuted. Qed.
Print Assumptions C08_cache_old_refuted.

(* ---- file search --------------------------------------------------------------------------------------------------- *)
Theorem C08_search_order : forall d e parent fn ft maxlen p, find_file d e parent fn ft maxlen = FOk p ->
  exists pre post, candidates e parent fn ft maxlen = pre ++ CPath p :: post /\ exists_as d p ft = true /\
                   forall c, In c pre -> missing d ft c.
Proof. exact search_order. Qed.
Print Assumptions C08_search_order.

Theorem C08_search_not_found : forall d e parent fn ft maxlen, lenZ fn <> 0 -> lenZ fn <= maxlen - 1 ->
  (find_file d e parent fn ft maxlen = FNotFound <->
   forall c, In c (candidates e parent fn ft maxlen) -> missing d ft c).
Proof. exact search_not_found. Qed.
Print Assumptions C08_search_not_found.

Theorem C08_search_candidates_absolute : forall e parent fn ft maxlen, hd 0 fn = 47 ->
  candidates e parent fn ft maxlen = [CPath fn].
Proof. exact candidates_absolute. Qed.
Print Assumptions C08_search_candidates_absolute.

Theorem C08_search_candidates_relative : forall e parent fn ft maxlen, hd 0 fn <> 47 ->
  exists c1, (c1 = [] \/ exists dir, dir_of parent = Some dir /\ c1 = [CPath (dir ++ fn)]) /\
  candidates e parent fn ft maxlen =
    c1 ++ [CPath fn] ++ dir_cands (maxlen - 1 - lenZ fn - 1) fn (if ft =? 1 then e_adf e else if ft =? 2 then e_hdf e else [])
       ++ dir_cands (maxlen - 1 - lenZ fn - 1) fn (e_cgns e)
       ++ flat_map (dir_cands (maxlen - 1 - lenZ fn - 1) fn) (e_list e).
Proof. exact candidates_relative. Qed.
Print Assumptions C08_search_candidates_relative.

(* the list set by cg_set_path / cg_add_path / cg_configure is state: an emptying set clears it whatever it held ... *)
Theorem C08_set_path_empty_clears : forall e a, arg_empty a = true -> mll_set_path e a = (env_path_delete_all e, true).
Proof. exact set_path_empty_clears. Qed.
Print Assumptions C08_set_path_empty_clears.
Theorem C08_set_path_replaces : forall e p, lenZ p <> 0 ->
  e_list (fst (mll_set_path e (Some p))) = [p] /\ snd (mll_set_path e (Some p)) = true.
Proof. exact set_path_replaces. Qed.
Print Assumptions C08_set_path_replaces.
Theorem C08_add_path_appends : forall e p, lenZ p <> 0 ->
  mll_add_path e (Some p) = (mkE (e_adf e) (e_hdf e) (e_cgns e) (e_list e ++ [p]), true).
Proof. exact add_path_appends. Qed.
Print Assumptions C08_add_path_appends.
Theorem C08_add_path_empty_refused : forall e a, arg_empty a = true -> mll_add_path e a = (e, false).
Proof. exact add_path_empty_refused. Qed.
Print Assumptions C08_add_path_empty_refused.
(* ... and afterwards a relative name is looked for in the default places and the environment variables only *)
Theorem C08_search_after_empty_set : forall e a parent fn ft maxlen, arg_empty a = true -> hd 0 fn <> 47 ->
  exists c1, candidates (fst (mll_set_path e a)) parent fn ft maxlen =
    c1 ++ [CPath fn] ++ dir_cands (maxlen - 1 - lenZ fn - 1) fn (if ft =? 1 then e_adf e else if ft =? 2 then e_hdf e else [])
       ++ dir_cands (maxlen - 1 - lenZ fn - 1) fn (e_cgns e).
Proof. exact search_after_empty_set. Qed.
Print Assumptions C08_search_after_empty_set.

(* ---- creating under a link node --------------------------------------------------------------------------------------- *)
Theorem C08_adf_create_under_link_refused : forall v s f df p u nm pr, disk_get (a_disk s) f = Some df ->
  find_node (d_tab df) p = Some pr -> is_link pr = true -> adf_mutate v s f (OCreate p u nm) = (s, RErr).
Proof. exact adf_create_under_link_refused. Qed.
Print Assumptions C08_adf_create_under_link_refused.
Theorem C08_h5_create_under_link_refused : forall d f df o, disk_get d f = Some df ->
  h5_parent_is_link (d_tab df) o = true -> h5_mutate Cur d f o = (d, RErr).
Proof. exact h5_create_under_link_refused. Qed.
Print Assumptions C08_h5_create_under_link_refused.
(* history: before 66db802 ADFH accepted the child -- under a dangling link too -- and put it where nothing finds it *)
Theorem C08_h5_create_under_dangling_link_old_refuted :
  h5_get Cur w_dangling (fH, 1) 1 = AErr ELinkTarget /\ h5_mutate Old w_dangling fH (OCreate 1 2 [99]) = (w_dangling, ROk).
Proof. exact h5_create_under_dangling_link_old_refuted. Qed.
Print Assumptions C08_h5_create_under_dangling_link_old_refuted.
Example C08_h5_create_under_dangling_link_now_refused : h5_mutate Cur w_dangling fH (OCreate 1 2 [99]) = (w_dangling, RErr).
Proof. exact h5_create_under_dangling_link_cur. Qed.

(* ---- implicitly opened files ---------------------------------------------------------------------------------------- *)
(* THE REPAIR (909ac4d), for every state: while a file has another reference -- a second handle, a link from another
   open file -- closing it drops that one reference and nothing else: no file it links to is touched or closed *)
Theorem C08_close_keeps_linked_files : forall fuel sl k x,
  0 <= k < lenZ sl -> x = nthZ sl k free_slot -> 1 < sl_use x ->
  slot_close Cur (S fuel) sl k = Some (updZ sl k (mkSl (sl_name x) (sl_use x - 1) (sl_links x)), false).
Proof. exact close_keeps_linked_files. Qed.
Print Assumptions C08_close_keeps_linked_files.

(* history: Old closed B although A, still open, listed it (finding #9) ... *)
Theorem C08_close_old_refuted :
  exists sl', slot_close Old 8 three_files 1 = Some (sl', true) /\
    sl_use (nthZ sl' 0 free_slot) = 1 /\ In 2 (sl_links (nthZ sl' 0 free_slot)) /\
    sl_use (nthZ three_files 2 free_slot) = 1 /\ sl_use (nthZ sl' 2 free_slot) = 0.
Proof. exact close_old_refuted. Qed.
Print Assumptions C08_close_old_refuted.

(* ... and recursed for every budget on two files that link to each other *)
Theorem C08_close_recursion_old_refuted : forall fuel,
  slot_close Old fuel mutual_files 0 = None /\ slot_close Old fuel mutual_files 1 = None.
Proof. exact close_recursion_old_refuted. Qed.
Print Assumptions C08_close_recursion_old_refuted.

(* ---- ADFH ------------------------------------------------------------------------------------------------------------ *)
(* current ADFH: what is read through a node that resolves is the attribute of a node that is not a link *)
Theorem C08_h5_transparent : forall d i what val, what <> 0 -> what <> 4 -> what <> 5 ->
  h5_get Cur d i what = AVal val ->
  exists l, h5_open_link Cur d i = Ok l /\ nonlink d l /\ val = node_attr d l what.
Proof. exact h5_transparent. Qed.
Print Assumptions C08_h5_transparent.

(* its loop is bounded by its own counter, and a resolution always returns an answer or an error of the library *)
Theorem C08_h5_loop_bounded : forall d n m depth l, 0 <= depth <= 99 ->
  (Z.to_nat (100 - depth) <= n)%nat -> (Z.to_nat (100 - depth) <= m)%nat -> h5_follow n depth d l = h5_follow m depth d l.
Proof. exact h5_follow_fuel_irrelevant. Qed.
Print Assumptions C08_h5_loop_bounded.
Theorem C08_h5_terminates : forall d i, h5_open_link Cur d i <> Err EStack.
Proof. exact h5_open_link_returns. Qed.
Print Assumptions C08_h5_terminates.

(* history: before fff8c32 a link to a link answered with the intermediate node (empty label, LK, no children, ok) *)
Theorem C08_h5_chain_old_refuted :
  h5_get Old w_chain (fH, 3) 1 = AVal (RBytes []) /\ h5_get Old w_chain (fH, 3) 2 = AVal (RBytes s_LK) /\
  h5_get Old w_chain (fH, 3) 7 = AVal (RInt 0) /\
  resolve Cur 100 w_chain empty_env (fH, 3) = Ok (fH, 1) /\ node_attr w_chain (fH, 1) 1 = RBytes [76; 98].
Proof. exact h5_chain_old_refuted. Qed.
Print Assumptions C08_h5_chain_old_refuted.
Theorem C08_h5_cycle_old_refuted :
  h5_get Old w_self (fH, 1) 1 = AVal (RBytes []) /\ resolve Cur 100 w_self empty_env (fH, 1) = Err ETooDeep.
Proof. exact h5_cycle_old_refuted. Qed.
Print Assumptions C08_h5_cycle_old_refuted.

(* STILL WRONG (known findings): a stored path through a link, and the search path *)
Theorem C08_h5_path_through_link_refuted :
  h5_get Cur w_via (fH, 4) 1 = AErr ELinkTarget /\ resolve Cur 100 w_via empty_env (fH, 4) = Ok (fH, 2).
Proof. exact h5_via_refuted. Qed.
Print Assumptions C08_h5_path_through_link_refuted.
Theorem C08_h5_search_path_refuted :
  find_file w_path e_path [47; 109; 47; 97] [98] 2 1025 = FOk [47; 112; 47; 98] /\
  h5_get Cur w_path ([47; 109; 47; 97], 1) 1 = AErr ELinkTarget.
Proof. exact h5_search_refuted. Qed.
Print Assumptions C08_h5_search_path_refuted.

(* ---- non-vacuity / the repaired witnesses on the current code ---------------------------------------------------------- *)
Example C08_chain_100_resolves : snd (chase Cur true 100 (chain_world 100) empty_env rs0 (fA, 101)) = Ok (fA, 1).
Proof. exact chain_100_resolves. Qed.
Example C08_chain_101_too_deep : snd (chase Cur true 100 (chain_world 101) empty_env rs0 (fA, 102)) = Err ETooDeep.
Proof. exact chain_101_too_deep. Qed.
Example C08_chain_101_hops : exists s' t,
  hops (chase Cur true 99 (chain_world 101) empty_env) (chain_world 101) empty_env 101 rs0 (fA, 102) = Some (s', t).
Proof. exact chain_101_hops. Qed.
Example C08_cycle_too_deep : snd (chase Cur true 100 w_cycle2 empty_env rs0 (fA, 1)) = Err ETooDeep.
Proof. exact cycle_too_deep. Qed.
Example C08_h5_chain_100_resolves : h5_open_link Cur (h5_chain_world 100) (fH, 101) = Ok (fH, 1).
Proof. exact h5_chain_100_resolves. Qed.
Example C08_h5_chain_101_too_deep : h5_open_link Cur (h5_chain_world 101) (fH, 102) = Err ETooDeep.
Proof. exact h5_chain_101_too_deep. Qed.
Example C08_h5_chain_now_followed : h5_get Cur w_chain (fH, 3) 1 = AVal (RBytes [76; 98]) /\ h5_open_link Cur w_chain (fH, 3) = Ok (fH, 1).
Proof. exact h5_chain_cur. Qed.
Example C08_h5_cycle_now_fails : h5_get Cur w_self (fH, 1) 1 = AErr ETooDeep.
Proof. exact h5_cycle_cur. Qed.
Example C08_cache_cleared_by_rename :
  a_cache (stale_session Cur) = None /\ snd (adf_read Cur 100 (stale_session Cur) (fA, 3) 1) = AErr ELinkTarget.
Proof. exact cache_cleared_by_rename. Qed.
Example C08_history_with_rename :
  let h := [EMut fA (OCreate 0 1 bA); EMut fA (OCreate 1 2 bB); EMut fA (OLabel 2 [76; 98]);
            EMut fA (OLink 0 3 [76] [] [47; 65; 47; 66]); ERead (fA, 3) 1; EMut fA (ORename 1 2 bC);
            EMut fA (OCreate 1 4 bB); EMut fA (OLabel 4 [120])] in
  snd (adf_read Cur 100 (run_evs Cur 100 (s_of (adf_open ast0 fA true)) h) (fA, 3) 1) = AVal (RBytes [120]).
Proof. exact history_with_rename. Qed.
Example C08_close_now_keeps_B :
  exists sl' sl'', slot_close Cur 8 three_files 1 = Some (sl', true) /\
    sl_use (nthZ sl' 0 free_slot) = 1 /\ sl_use (nthZ sl' 2 free_slot) = 1 /\
    slot_close Cur 8 sl' 0 = Some (sl'', true) /\ sl_use (nthZ sl'' 2 free_slot) = 0.
Proof. exact close_cur_three_files. Qed.
Example C08_close_mutual_now_returns :
  exists sl', slot_close Cur 1 mutual_files 0 = Some (sl', false) /\
    sl_use (nthZ sl' 0 free_slot) = 1 /\ sl_use (nthZ sl' 1 free_slot) = 1.
Proof. exact close_cur_mutual. Qed.
Example C08_cache_sane_initially : forall d, cache_sane d rs0.
Proof. exact cache_sane_initially. Qed.
