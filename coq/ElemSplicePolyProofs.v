(* ElemSplicePolyProofs.v -- C10b: the variable-size (MIXED / NGON_n / NFACE_n) path of ElemSplice.v, proved for
   ALL sections, ALL ranges, ALL element sizes.

   SPEC (shared with ElemSpliceProofs.v): a section is (first, list of elements), an element is the list of its
   connectivity values; [splice ph f E s N] is the pointwise element-level splice, [slice_elems f E a b] the slice.
   A variable-size section is stored as (concat E, offs_from 0 E): connectivity + ElementStartOffset.

   Contents
   1. library: offs_from / offs_init, slices of a concat by offsets, exact-position memcpy / file_write / file_read
   2. the loops of cg_poly_elements_general_write: accum_offsets, gap_fill, shift_offsets
   3. poly_splice (the in-memory path) = splice, for every relative position          [poly_splice_is_splice]
   4. the representation invariant rep_poly and the three paths of poly_elements_general_write
      (in place / relocate inside the reserved size / in memory)                          [poly_write_is_splice]
   5. histories                                                                         [poly_history_is_splice]
   6. reads: partial (file / cache), general, full (with the reserved-slack hypothesis and its refutation) *)
From Coq Require Import ZArith List Bool Lia.
From CgnsV Require Import ListX ElemSplice ElemSpliceProofs.
Import ListNotations.
Local Open Scope Z_scope.

(* decide every Z comparison of the goal that lia can decide from the context *)
Ltac zb := repeat match goal with
  | |- context [?a <? ?b] => first [ destruct (Z.ltb_spec a b); [lia|] | destruct (Z.ltb_spec a b); [|lia] ]
  | |- context [?a <=? ?b] => first [ destruct (Z.leb_spec a b); [lia|] | destruct (Z.leb_spec a b); [|lia] ]
  | |- context [?a =? ?b] => first [ destruct (Z.eqb_spec a b); [lia|] | destruct (Z.eqb_spec a b); [|lia] ]
  end.

(* ---- 1. library ------------------------------------------------------------------------------------------------- *)
Definition clen (E : list (list Z)) : Z := lenZ (concat E).

(* start offsets of the elements of E when the first one starts at b: |E| + 1 entries *)
Fixpoint offs_from (b : Z) (E : list (list Z)) : list Z :=
  match E with [] => [b] | e :: r => b :: offs_from (b + lenZ e) r end.
(* the same without the last entry: |E| entries *)
Fixpoint offs_init (b : Z) (E : list (list Z)) : list Z :=
  match E with [] => [] | e :: r => b :: offs_init (b + lenZ e) r end.

Definition nonempty_all (E : list (list Z)) : Prop := Forall (fun e => e <> []) E.

Lemma clen_nil : clen [] = 0.
Proof. reflexivity. Qed.
Lemma clen_cons e E : clen (e :: E) = lenZ e + clen E.
Proof. unfold clen. simpl. apply lenZ_app. Qed.
Lemma clen_app A B : clen (A ++ B) = clen A + clen B.
Proof. unfold clen. rewrite concat_app. apply lenZ_app. Qed.
Lemma clen_nonneg E : 0 <= clen E.
Proof. apply lenZ_nonneg. Qed.

Lemma lenZ_cons {A} (x : A) l : lenZ (x :: l) = 1 + lenZ l.
Proof. unfold lenZ. simpl length. lia. Qed.
Lemma lenZ_nil {A} : lenZ (@nil A) = 0.
Proof. reflexivity. Qed.
Ltac lens := repeat rewrite ?lenZ_app, ?lenZ_cons, ?lenZ_nil.

Lemma offs_from_length b E : lenZ (offs_from b E) = lenZ E + 1.
Proof. revert b. induction E as [|e E IH]; intros b; cbn [offs_from]; [reflexivity|]. rewrite !lenZ_cons, IH. lia. Qed.
Lemma offs_init_length b E : lenZ (offs_init b E) = lenZ E.
Proof. revert b. induction E as [|e E IH]; intros b; cbn [offs_init]; [reflexivity|]. rewrite !lenZ_cons, IH. lia. Qed.

Lemma offs_from_init b E : offs_from b E = offs_init b E ++ [b + clen E].
Proof.
  revert b. induction E as [|e E IH]; intros b; simpl.
  - rewrite clen_nil. f_equal. lia.
  - rewrite IH, clen_cons. simpl. do 3 f_equal. lia.
Qed.
Lemma offs_from_app b A B : offs_from b (A ++ B) = offs_init b A ++ offs_from (b + clen A) B.
Proof.
  revert b. induction A as [|a A IH]; intros b; simpl.
  - rewrite clen_nil. f_equal. lia.
  - rewrite IH, clen_cons. do 3 f_equal. lia.
Qed.
Lemma offs_init_app b A B : offs_init b (A ++ B) = offs_init b A ++ offs_init (b + clen A) B.
Proof.
  revert b. induction A as [|a A IH]; intros b; simpl.
  - rewrite clen_nil. f_equal. lia.
  - rewrite IH, clen_cons. do 3 f_equal. lia.
Qed.
Lemma offs_from_hd b E : offs_from b E = b :: tl (offs_from b E).
Proof. destruct E; reflexivity. Qed.
(* two-sided: the offsets of A ++ B are those of A followed by those of B without their first entry *)
Lemma offs_from_app_tl b A B : offs_from b (A ++ B) = offs_from b A ++ tl (offs_from (b + clen A) B).
Proof.
  rewrite offs_from_app, (offs_from_init b A), (offs_from_hd (b + clen A) B), <- app_assoc. reflexivity.
Qed.
Lemma offs_shift d b E : map (fun v => v + d) (offs_from b E) = offs_from (b + d) E.
Proof.
  revert b. induction E as [|e E IH]; intros b; simpl; [reflexivity|]. rewrite IH. do 2 f_equal. lia.
Qed.
Lemma offs_shift_tl d b E : map (fun v => v + d) (tl (offs_from b E)) = tl (offs_from (b + d) E).
Proof. rewrite <- offs_shift. destruct E; reflexivity. Qed.

Lemma nthZ_app_at {A} (pre : list A) x rest d : nthZ (pre ++ x :: rest) (lenZ pre) d = x.
Proof.
  unfold nthZ, lenZ. destruct (Z.ltb_spec (Z.of_nat (length pre)) 0); [lia|].
  rewrite Nat2Z.id. rewrite app_nth2 by lia. now rewrite Nat.sub_diag.
Qed.
Lemma upd_app_at {A} (pre : list A) x rest v : upd (pre ++ x :: rest) (length pre) v = pre ++ v :: rest.
Proof. induction pre as [|p pre IH]; simpl; [reflexivity|]. now rewrite IH. Qed.
Lemma updZ_app_at {A} (pre : list A) x rest v : updZ (pre ++ x :: rest) (lenZ pre) v = pre ++ v :: rest.
Proof.
  unfold updZ, lenZ. destruct (Z.ltb_spec (Z.of_nat (length pre)) 0); [lia|].
  rewrite Nat2Z.id. apply upd_app_at.
Qed.

Lemma firstn_app_len {A} (a b : list A) : firstn (length a) (a ++ b) = a.
Proof. now apply firstn_app_exact. Qed.
Lemma skipn_app_len {A} (a b : list A) : skipn (length a) (a ++ b) = b.
Proof. now apply skipn_app_exact. Qed.
Lemma to_nat_lenZ {A} (l : list A) : Z.to_nat (lenZ l) = length l.
Proof. unfold lenZ. apply Nat2Z.id. Qed.
Lemma lenZ_skipnZ {A} (l : list A) n : 0 <= n <= lenZ l -> lenZ (skipn (Z.to_nat n) l) = lenZ l - n.
Proof. intros. rewrite lenZ_skipn. unfold lenZ in *. lia. Qed.
Lemma lenZ_firstnZ {A} (l : list A) n : 0 <= n <= lenZ l -> lenZ (firstn (Z.to_nat n) l) = n.
Proof. intros. rewrite lenZ_firstn by (unfold lenZ in *; lia). lia. Qed.
Lemma lenZ_zero_nil {A} (l : list A) : lenZ l = 0 -> l = [].
Proof. destruct l; [reflexivity|]. rewrite lenZ_cons. pose proof (lenZ_nonneg l). lia. Qed.

(* slice / memcpy / file access at an exactly known position *)
Lemma slice_at (pre mid post : list Z) off n :
  off = lenZ pre -> n = lenZ mid -> slice (pre ++ mid ++ post) off n = mid.
Proof.
  intros -> ->. unfold slice. rewrite !to_nat_lenZ, skipn_app_len. apply firstn_app_len.
Qed.
Lemma slice_at0 (mid post : list Z) n : n = lenZ mid -> slice (mid ++ post) 0 n = mid.
Proof. intros. now apply (slice_at [] mid post). Qed.

Lemma memcpy_at pre rest off src soff n :
  off = lenZ pre -> 0 <= n <= lenZ rest -> 0 <= soff -> soff + n <= lenZ src ->
  memcpy (pre ++ rest) off src soff n = Some (pre ++ slice src soff n ++ skipn (Z.to_nat n) rest).
Proof.
  intros -> Hn Hs Hsrc. unfold memcpy. pose proof (lenZ_nonneg pre).
  rewrite lenZ_app.
  destruct (Z.ltb_spec n 0); [lia|]. destruct (Z.ltb_spec (lenZ pre) 0); [lia|].
  destruct (Z.ltb_spec soff 0); [lia|]. destruct (Z.ltb_spec (lenZ pre + lenZ rest) (lenZ pre + n)); [lia|].
  destruct (Z.ltb_spec (lenZ src) (soff + n)); [lia|]. simpl.
  rewrite to_nat_lenZ, firstn_app_len. do 3 f_equal.
  replace (Z.to_nat (lenZ pre + n)) with (length pre + Z.to_nat n)%nat by (unfold lenZ; lia).
  rewrite skipn_app, skipn_all2 by lia. simpl. f_equal. lia.
Qed.
Lemma memcpy_at0 rest src soff n :
  0 <= n <= lenZ rest -> 0 <= soff -> soff + n <= lenZ src ->
  memcpy rest 0 src soff n = Some (slice src soff n ++ skipn (Z.to_nat n) rest).
Proof. intros. now apply (memcpy_at [] rest 0). Qed.

Lemma file_write_at (pre mid post data new : list Z) a b :
  a = lenZ pre + 1 -> b = lenZ pre + lenZ mid -> 0 < lenZ mid -> firstn (length mid) data = new ->
  file_write (pre ++ mid ++ post) a b data = Some (pre ++ new ++ post).
Proof.
  intros -> -> Hm Hd. unfold file_write. pose proof (lenZ_nonneg pre). pose proof (lenZ_nonneg post).
  rewrite !lenZ_app.
  destruct (Z.ltb_spec (lenZ pre + 1) 1); [lia|].
  destruct (Z.ltb_spec (lenZ pre + lenZ mid) (lenZ pre + 1)); [lia|].
  destruct (Z.ltb_spec (lenZ pre + (lenZ mid + lenZ post)) (lenZ pre + lenZ mid)); [lia|]. simpl.
  replace (lenZ pre + 1 - 1) with (lenZ pre) by lia. rewrite to_nat_lenZ, firstn_app_len.
  replace (Z.to_nat (lenZ pre + lenZ mid - (lenZ pre + 1) + 1)) with (length mid) by (unfold lenZ; lia).
  rewrite Hd. do 3 f_equal.
  replace (Z.to_nat (lenZ pre + lenZ mid)) with (length pre + length mid)%nat by (unfold lenZ; lia).
  rewrite skipn_app, skipn_all2 by lia. simpl.
  replace (length pre + length mid - length pre)%nat with (length mid) by lia. apply skipn_app_len.
Qed.
Lemma file_read_at (pre mid post : list Z) a b :
  a = lenZ pre + 1 -> b = lenZ pre + lenZ mid -> 0 < lenZ mid ->
  file_read (pre ++ mid ++ post) a b = Some mid.
Proof.
  intros -> -> Hm. unfold file_read. pose proof (lenZ_nonneg pre). pose proof (lenZ_nonneg post).
  rewrite !lenZ_app.
  destruct (Z.ltb_spec (lenZ pre + 1) 1); [lia|].
  destruct (Z.ltb_spec (lenZ pre + lenZ mid) (lenZ pre + 1)); [lia|].
  destruct (Z.ltb_spec (lenZ pre + (lenZ mid + lenZ post)) (lenZ pre + lenZ mid)); [lia|]. simpl.
  f_equal. apply slice_at; lia.
Qed.

(* elements i .. i+k-1 of E, and the three-way decomposition of E around them *)
Lemma skipn_skipn' {A} (l : list A) i k : skipn k (skipn i l) = skipn (i + k) l.
Proof. revert l. induction i as [|i IH]; intros l; simpl; [reflexivity|]. destruct l; [now rewrite skipn_nil|apply IH]. Qed.
Lemma three_way {A} (E : list A) i k : E = firstn i E ++ firstn k (skipn i E) ++ skipn (i + k) E.
Proof. rewrite <- skipn_skipn'. now rewrite !firstn_skipn. Qed.
Lemma firstn_plus {A} (E : list A) i k : firstn (i + k) E = firstn i E ++ firstn k (skipn i E).
Proof.
  revert E. induction i as [|i IH]; intros E; simpl; [reflexivity|]. destruct E; [now rewrite firstn_nil|].
  simpl. now rewrite IH.
Qed.

Lemma nthZ_offs_from b E k d : 0 <= k <= lenZ E -> nthZ (offs_from b E) k d = b + clen (firstn (Z.to_nat k) E).
Proof.
  intros Hk. rewrite <- (firstn_skipn (Z.to_nat k) E) at 1. rewrite offs_from_app.
  assert (L : lenZ (offs_init b (firstn (Z.to_nat k) E)) = k)
    by (rewrite offs_init_length; apply lenZ_firstnZ; lia).
  rewrite (offs_from_hd _ (skipn _ E)).
  set (P := offs_init b (firstn (Z.to_nat k) E)) in *. rewrite <- L. apply nthZ_app_at.
Qed.
Lemma nthZ_offs_from_0 b E d : nthZ (offs_from b E) 0 d = b.
Proof. destruct E; reflexivity. Qed.
Lemma nthZ_offs_from_last b E d : nthZ (offs_from b E) (lenZ E) d = b + clen E.
Proof.
  rewrite nthZ_offs_from by (pose proof (lenZ_nonneg E); lia). now rewrite to_nat_lenZ, firstn_all.
Qed.

Lemma offs_from_split b E k : offs_from b E = offs_init b (firstn k E) ++ offs_from (b + clen (firstn k E)) (skipn k E).
Proof. rewrite <- (firstn_skipn k E) at 1. apply offs_from_app. Qed.

(* the first k+1 offsets are the offsets of the first k elements *)
Lemma slice_offs_head b E k : (k <= length E)%nat ->
  slice (offs_from b E) 0 (Z.of_nat k + 1) = offs_from b (firstn k E).
Proof.
  intros Hk. rewrite (offs_from_split b E k), (offs_from_hd _ (skipn k E)).
  rewrite (offs_from_init b (firstn k E)).
  replace (offs_init b (firstn k E) ++ (b + clen (firstn k E)) :: tl (offs_from (b + clen (firstn k E)) (skipn k E)))
    with ((offs_init b (firstn k E) ++ [b + clen (firstn k E)]) ++ tl (offs_from (b + clen (firstn k E)) (skipn k E)))
    by (now rewrite <- app_assoc).
  apply slice_at0. rewrite lenZ_app, offs_init_length, lenZ_cons, lenZ_nil.
  unfold lenZ. rewrite firstn_length. lia.
Qed.
(* offsets i .. i+k are the offsets of the elements i .. i+k-1 *)
Lemma slice_offs_mid b E i k : (i + k <= length E)%nat ->
  slice (offs_from b E) (Z.of_nat i) (Z.of_nat k + 1)
  = offs_from (b + clen (firstn i E)) (firstn k (skipn i E)).
Proof.
  intros Hik. rewrite (offs_from_split b E i).
  rewrite (offs_from_split _ (skipn i E) k), (offs_from_hd _ (skipn k (skipn i E))).
  rewrite (offs_from_init _ (firstn k (skipn i E))).
  set (M := firstn k (skipn i E)). set (c := b + clen (firstn i E)).
  replace (offs_init c M ++ (c + clen M) :: tl (offs_from (c + clen M) (skipn k (skipn i E))))
    with ((offs_init c M ++ [c + clen M]) ++ tl (offs_from (c + clen M) (skipn k (skipn i E))))
    by (now rewrite <- app_assoc).
  apply slice_at.
  - rewrite offs_init_length. unfold lenZ. rewrite firstn_length. lia.
  - rewrite lenZ_app, offs_init_length, lenZ_cons, lenZ_nil. subst M. unfold lenZ.
    rewrite firstn_length, skipn_length. lia.
Qed.

(* slices of the connectivity (followed by any slack) at offsets *)
Lemma slice_conn_head E slack k n : n = clen (firstn k E) -> slice (concat E ++ slack) 0 n = concat (firstn k E).
Proof.
  intros ->. rewrite <- (firstn_skipn k E) at 1. rewrite concat_app, <- app_assoc. now apply slice_at0.
Qed.
Lemma slice_conn_mid E slack i k off n :
  off = clen (firstn i E) -> n = clen (firstn k (skipn i E)) ->
  slice (concat E ++ slack) off n = concat (firstn k (skipn i E)).
Proof.
  intros -> ->. rewrite (three_way E i k) at 1. rewrite !concat_app, <- !app_assoc. now apply slice_at.
Qed.
Lemma slice_conn_tail E slack i off n :
  off = clen (firstn i E) -> n = clen (skipn i E) -> slice (concat E ++ slack) off n = concat (skipn i E).
Proof.
  intros -> ->. rewrite <- (firstn_skipn i E) at 1. rewrite concat_app, <- app_assoc. now apply slice_at.
Qed.
Lemma clen_split E k : clen E = clen (firstn k E) + clen (skipn k E).
Proof. rewrite <- clen_app. now rewrite firstn_skipn. Qed.

Lemma nonempty_all_clen E : nonempty_all E -> lenZ E <= clen E.
Proof.
  induction 1 as [|e E He HE IH]; [reflexivity|]. rewrite clen_cons, lenZ_cons.
  pose proof (nonempty_len e He). lia.
Qed.
Lemma nonempty_all_firstn E k : nonempty_all E -> nonempty_all (firstn k E).
Proof. unfold nonempty_all. revert k. induction E; intros [|k] H; simpl; auto. inversion H; subst. constructor; auto. Qed.
Lemma nonempty_all_skipn E k : nonempty_all E -> nonempty_all (skipn k E).
Proof. unfold nonempty_all. revert k. induction E; intros [|k] H; simpl; auto. inversion H; subst. auto. Qed.
Lemma nonempty_all_app A B : nonempty_all A -> nonempty_all B -> nonempty_all (A ++ B).
Proof. intros. apply Forall_app. split; auto. Qed.
Lemma nonempty_all_repeat e k : e <> [] -> nonempty_all (repeat e k).
Proof. intros. induction k; simpl; constructor; auto. Qed.

(* ---- 2. the loops ----------------------------------------------------------------------------------------------- *)
(* for (ii = from; ii < to; ii++) { newoffsets[j+1] = (src[ii+1] - src[ii]) + newoffsets[j]; j++; }
   src holds the offsets of the elements M from position ii on, the destination holds x at position j:
   the |M| entries after j become the offsets of M rebased to x, everything else is untouched. *)
Lemma accum_offsets_spec M : forall pre x rest sp b ss j ii,
  j = lenZ pre -> ii = lenZ sp -> lenZ M <= lenZ rest ->
  accum_offsets (length M) (pre ++ x :: rest) j (sp ++ offs_from b M ++ ss) ii
  = Some (pre ++ offs_from x M ++ skipn (length M) rest, j + lenZ M).
Proof.
  induction M as [|m M IH]; intros pre x rest sp b ss j ii Hj Hi Hr.
  - simpl. rewrite lenZ_nil. do 2 f_equal. lia.
  - rewrite lenZ_cons in Hr. destruct rest as [|r rest]; [rewrite lenZ_nil in Hr; pose proof (lenZ_nonneg M); lia|].
    rewrite lenZ_cons in Hr.
    pose proof (lenZ_nonneg pre). pose proof (lenZ_nonneg sp). pose proof (lenZ_nonneg M). pose proof (lenZ_nonneg ss).
    pose proof (lenZ_nonneg rest).
    cbn [accum_offsets length offs_from app].
    lens. rewrite offs_from_length. zb. cbn [orb].
    assert (S1 : nthZ (sp ++ b :: offs_from (b + lenZ m) M ++ ss) ii undef = b) by (subst ii; apply nthZ_app_at).
    assert (S2 : nthZ (sp ++ b :: offs_from (b + lenZ m) M ++ ss) (ii + 1) undef = b + lenZ m).
    { replace (sp ++ b :: offs_from (b + lenZ m) M ++ ss) with ((sp ++ [b]) ++ offs_from (b + lenZ m) M ++ ss)
        by (now rewrite <- app_assoc).
      rewrite (offs_from_hd _ M). replace (ii + 1) with (lenZ (sp ++ [b])) by (rewrite lenZ_app, lenZ_cons, lenZ_nil; lia).
      apply nthZ_app_at. }
    assert (S3 : nthZ (pre ++ x :: r :: rest) j undef = x) by (subst j; apply nthZ_app_at).
    rewrite S1, S2, S3.
    assert (U : updZ (pre ++ x :: r :: rest) (j + 1) (b + lenZ m - b + x) = (pre ++ [x]) ++ (x + lenZ m) :: rest).
    { replace (pre ++ x :: r :: rest) with ((pre ++ [x]) ++ r :: rest) by (now rewrite <- app_assoc).
      replace (j + 1) with (lenZ (pre ++ [x])) by (rewrite lenZ_app, lenZ_cons, lenZ_nil; lia).
      rewrite updZ_app_at. do 2 f_equal. lia. }
    rewrite U.
    replace (sp ++ b :: offs_from (b + lenZ m) M ++ ss) with ((sp ++ [b]) ++ offs_from (b + lenZ m) M ++ ss)
      by (now rewrite <- app_assoc).
    rewrite (IH (pre ++ [x]) (x + lenZ m) rest (sp ++ [b]) (b + lenZ m) ss (j + 1) (ii + 1))
      by (rewrite ?lenZ_app, ?lenZ_cons, ?lenZ_nil; lia).
    rewrite <- app_assoc. cbn [app skipn]. rewrite ?lenZ_cons. do 2 f_equal. lia.
Qed.

(* while (num-- > 0) { newelems[n++] = val; newelems[n++] = 0; newoffsets[j+1] = newoffsets[j] + 2; j++; } *)
Lemma gap_fill_spec val cnt : forall epre erest opre x orest n j,
  n = lenZ epre -> j = lenZ opre -> 2 * Z.of_nat cnt <= lenZ erest -> Z.of_nat cnt <= lenZ orest ->
  gap_fill cnt (epre ++ erest) (opre ++ x :: orest) n j val
  = Some (epre ++ concat (repeat [val; 0] cnt) ++ skipn (2 * cnt) erest,
          opre ++ offs_from x (repeat [val; 0] cnt) ++ skipn cnt orest,
          n + 2 * Z.of_nat cnt, j + Z.of_nat cnt).
Proof.
  induction cnt as [|cnt IH]; intros epre erest opre x orest n j Hn Hj He Ho.
  - simpl. do 3 f_equal; lia.
  - destruct erest as [|a [|a' erest]]; try (rewrite ?lenZ_cons, ?lenZ_nil in He; lia).
    destruct orest as [|r orest]; [rewrite lenZ_nil in Ho; lia|].
    rewrite !lenZ_cons in He. rewrite lenZ_cons in Ho.
    pose proof (lenZ_nonneg epre). pose proof (lenZ_nonneg opre). pose proof (lenZ_nonneg erest). pose proof (lenZ_nonneg orest).
    cbn [gap_fill].
    lens. zb. cbn [orb].
    assert (U1 : updZ (updZ (epre ++ a :: a' :: erest) n val) (n + 1) 0 = (epre ++ [val; 0]) ++ erest).
    { subst n. rewrite updZ_app_at.
      replace (epre ++ val :: a' :: erest) with ((epre ++ [val]) ++ a' :: erest) by (now rewrite <- app_assoc).
      replace (lenZ epre + 1) with (lenZ (epre ++ [val])) by (rewrite lenZ_app, lenZ_cons, lenZ_nil; lia).
      rewrite updZ_app_at. now rewrite <- !app_assoc. }
    assert (S3 : nthZ (opre ++ x :: r :: orest) j undef = x) by (subst j; apply nthZ_app_at).
    assert (U2 : updZ (opre ++ x :: r :: orest) (j + 1) (x + 2) = (opre ++ [x]) ++ (x + 2) :: orest).
    { replace (opre ++ x :: r :: orest) with ((opre ++ [x]) ++ r :: orest) by (now rewrite <- app_assoc).
      replace (j + 1) with (lenZ (opre ++ [x])) by (rewrite lenZ_app, lenZ_cons, lenZ_nil; lia).
      apply updZ_app_at. }
    rewrite S3, U1, U2.
    rewrite (IH (epre ++ [val; 0]) erest (opre ++ [x]) (x + 2) orest (n + 2) (j + 1))
      by (rewrite ?lenZ_app, ?lenZ_cons, ?lenZ_nil; lia).
    replace (2 * S cnt)%nat with (S (S (2 * cnt))) by lia.
    cbn [repeat concat offs_from skipn]. change (lenZ [val; 0]) with 2.
    rewrite <- !app_assoc. cbn [app]. f_equal. apply f_equal2; [apply f_equal2; [reflexivity|lia]|lia].
Qed.

(* section_offset[j+1] += delta for the cnt entries after j *)
Lemma shift_offsets_spec delta mid : forall pre x rest j,
  j = lenZ pre ->
  shift_offsets (length mid) (pre ++ x :: mid ++ rest) j delta
  = Some (pre ++ x :: map (fun v => v + delta) mid ++ rest).
Proof.
  induction mid as [|m mid IH]; intros pre x rest j Hj; [reflexivity|].
  pose proof (lenZ_nonneg pre). pose proof (lenZ_nonneg mid). pose proof (lenZ_nonneg rest).
  cbn [shift_offsets length app map].
  lens. zb. cbn [orb].
  replace (pre ++ x :: m :: mid ++ rest) with ((pre ++ [x]) ++ m :: mid ++ rest) by (now rewrite <- app_assoc).
  replace (j + 1) with (lenZ (pre ++ [x])) by (rewrite lenZ_app, lenZ_cons, lenZ_nil; lia).
  rewrite nthZ_app_at, updZ_app_at.
  rewrite (IH (pre ++ [x]) (m + delta) rest (lenZ (pre ++ [x]))) by reflexivity.
  now rewrite <- app_assoc.
Qed.

(* ---- 3. poly_splice = splice -------------------------------------------------------------------------------------- *)
(* the placeholder element cg_poly_elements_general_write writes into a gap: (NODE, 0) for MIXED, (0, 0) otherwise *)
Definition ph_of (type : Z) : list Z := [if type =? MIXED then NODE else 0; 0].

Lemma gap_if k c : 0 <= k -> (if 0 <? k then c * k else 0) = c * k.
Proof. intros. destruct (Z.ltb_spec 0 k); [reflexivity|]. replace k with 0 by lia. lia. Qed.
Lemma gap_if1 k : 0 <= k -> (if 0 <? k then k else 0) = k.
Proof. intros. destruct (Z.ltb_spec 0 k); lia. Qed.
Lemma clen_repeat2 (a b : Z) k : clen (repeat [a; b] k) = 2 * Z.of_nat k.
Proof. induction k as [|k IH]; [reflexivity|]. cbn [repeat]. rewrite clen_cons, IH. change (lenZ [a; b]) with 2. lia. Qed.
Lemma lenZ_malloc n : 0 <= n -> lenZ (malloc n) = n.
Proof. intros. unfold malloc. rewrite lenZ_repeat. lia. Qed.

Lemma lenZ_concat E : lenZ (concat E) = clen E.
Proof. reflexivity. Qed.
Lemma lenZ_skipn_malloc n m : 0 <= n <= m -> lenZ (skipn (Z.to_nat n) (malloc m)) = m - n.
Proof. intros. rewrite lenZ_skipnZ; rewrite lenZ_malloc; lia. Qed.
Lemma lenZ_skipn_malloc0 n m : 0 <= n <= m -> lenZ (skipn (Z.to_nat n) (updZ (malloc m) 0 0)) = m - n.
Proof. intros. rewrite lenZ_skipnZ; rewrite lenZ_updZ, lenZ_malloc; lia. Qed.
Ltac lens2 := repeat rewrite ?lenZ_app, ?lenZ_cons, ?lenZ_nil, ?lenZ_concat, ?clen_repeat2, ?offs_init_length,
                             ?offs_from_length, ?clen_app.

Lemma accum_offsets_all M pre x rest b j cnt :
  cnt = length M -> j = lenZ pre -> lenZ M <= lenZ rest ->
  accum_offsets cnt (pre ++ x :: rest) j (offs_from b M) 0
  = Some (pre ++ offs_from x M ++ skipn (length M) rest, j + lenZ M).
Proof.
  intros -> Hj Hr. rewrite <- (accum_offsets_spec M pre x rest [] b [] j 0 Hj eq_refl Hr).
  cbn [app]. now rewrite app_nil_r.
Qed.
(* the source offsets are those of the whole section E, read from element k on *)
Lemma accum_offsets_tail E k pre x rest b j cnt ii :
  (k <= length E)%nat -> cnt = (length E - k)%nat -> ii = Z.of_nat k -> j = lenZ pre -> lenZ E - Z.of_nat k <= lenZ rest ->
  accum_offsets cnt (pre ++ x :: rest) j (offs_from b E) ii
  = Some (pre ++ offs_from x (skipn k E) ++ skipn (length E - k) rest, j + (lenZ E - Z.of_nat k)).
Proof.
  intros Hk -> -> Hj Hr.
  assert (L : length (skipn k E) = (length E - k)%nat) by apply skipn_length.
  rewrite (offs_from_split b E k). rewrite <- L.
  rewrite <- (app_nil_r (offs_from _ (skipn k E))).
  rewrite (accum_offsets_spec (skipn k E) pre x rest (offs_init b (firstn k E)) _ [] j (Z.of_nat k) Hj).
  - do 2 f_equal. unfold lenZ. rewrite L. lia.
  - rewrite offs_init_length. unfold lenZ. rewrite firstn_length. lia.
  - unfold lenZ in *. rewrite L. lia.
Qed.

Ltac prelude :=
  unfold poly_splice, splice_struct;
  repeat match goal with
  | |- context [?s + lenZ ?N - 1 - ?s + 1] => replace (s + lenZ N - 1 - s + 1) with (lenZ N) by lia
  | |- context [?s + lenZ ?N - 1 - ?s + 2] => replace (s + lenZ N - 1 - s + 2) with (lenZ N + 1) by lia
  end;
  rewrite !nthZ_offs_from_last, !nthZ_offs_from_0;
  repeat match goal with
  | |- context [0 + clen ?N - 0] => replace (0 + clen N - 0) with (clen N) by lia
  end.

Ltac sc := lens2; try apply to_nat_lenZ; try (symmetry; apply to_nat_lenZ); rewrite ?lenZ_skipn; try (unfold lenZ in *; lia).

Lemma poly_splice_before type f E s N slack :
  E <> [] -> N <> [] -> s + lenZ N - 1 < f ->
  poly_splice type f (f + lenZ E - 1) s (s + lenZ N - 1) (concat E ++ slack) (offs_from 0 E) (concat N) (offs_from 0 N)
  = Some (Some (concat (splice_struct (ph_of type) f E s N), offs_from 0 (splice_struct (ph_of type) f E s N))).
Proof.
  intros HE HN C1.
  pose proof (nonempty_len E HE) as LE. pose proof (nonempty_len N HN) as LN.
  pose proof (clen_nonneg E) as PE. pose proof (clen_nonneg N) as PN. pose proof (lenZ_nonneg slack) as PS.
  prelude.
  set (num := f - (s + lenZ N - 1) - 1). assert (Hnum : 0 <= num) by (subst num; lia).
  rewrite !(gap_if num 2), !(gap_if1 num) by lia.
  zb. cbn [negb andb].
  set (val := if type =? MIXED then NODE else 0).
  rewrite (memcpy_at0 (malloc _) (concat N) 0 (clen N)) by (rewrite ?lenZ_malloc, ?lenZ_concat by lia; lia).
  rewrite (slice_all (concat N)) by reflexivity. cbn [obind].
  rewrite (memcpy_at0 (updZ _ 0 0) (offs_from 0 N) 0 (lenZ N + 1))
    by (rewrite ?lenZ_updZ, ?lenZ_malloc, ?offs_from_length by lia; lia).
  rewrite (slice_all (offs_from 0 N)) by (now rewrite offs_from_length). cbn [obind].
  set (R1 := skipn (Z.to_nat (clen N)) (malloc _)).
  assert (LR1 : lenZ R1 = clen E + 2 * num) by (subst R1; rewrite lenZ_skipn_malloc; lia).
  set (R2 := skipn (Z.to_nat (lenZ N + 1)) (updZ _ 0 0)).
  assert (LR2 : lenZ R2 = lenZ E + num) by (subst R2; rewrite lenZ_skipn_malloc0; lia).
  rewrite (offs_from_init 0 N), <- app_assoc. cbn [app].
  rewrite (gap_fill_spec val (Z.to_nat num) (concat N) R1 (offs_init 0 N) (0 + clen N) R2 (clen N) (lenZ N))
    by (rewrite ?offs_init_length; try reflexivity; lia).
  cbn [obind].
  change (ph_of type) with [val; 0].
  set (G := repeat [val; 0] (Z.to_nat num)).
  assert (CG : clen G = 2 * num) by (subst G; rewrite clen_repeat2; lia).
  assert (LG : lenZ G = num) by (subst G; rewrite lenZ_repeat; lia).
  rewrite (app_assoc (concat N)).
  rewrite (memcpy_at (concat N ++ concat G) _ _ (concat E ++ slack) 0 (clen E))
    by sc.
  rewrite (slice_at0 (concat E) slack) by reflexivity. cbn [obind].
  rewrite (offs_from_init _ G), <- !app_assoc, (app_assoc (offs_init 0 N)). cbn [app].
  rewrite (accum_offsets_all E) by sc.
  cbn [obind]. zb.
  rewrite !skipn_skipn', !(skipn_all2 R1), !(skipn_all2 R2) by (unfold lenZ in *; lia).
  rewrite !concat_app, !offs_from_app, !app_nil_r, <- !app_assoc. reflexivity.
Qed.

Lemma poly_splice_after type f E s N slack :
  E <> [] -> N <> [] -> f + lenZ E - 1 < s ->
  poly_splice type f (f + lenZ E - 1) s (s + lenZ N - 1) (concat E ++ slack) (offs_from 0 E) (concat N) (offs_from 0 N)
  = Some (Some (concat (splice_struct (ph_of type) f E s N), offs_from 0 (splice_struct (ph_of type) f E s N))).
Proof.
  intros HE HN C1.
  pose proof (nonempty_len E HE) as LE. pose proof (nonempty_len N HN) as LN.
  pose proof (clen_nonneg E) as PE. pose proof (clen_nonneg N) as PN. pose proof (lenZ_nonneg slack) as PS.
  prelude.
  set (num := s - (f + lenZ E - 1) - 1). assert (Hnum : 0 <= num) by (subst num; lia).
  rewrite !(gap_if num 2), !(gap_if1 num) by lia.
  zb. cbn [negb andb].
  set (val := if type =? MIXED then NODE else 0).
  rewrite (memcpy_at0 (malloc _) (concat E ++ slack) 0 (clen E)) by (rewrite ?lenZ_malloc by lia; sc).
  rewrite (slice_at0 (concat E) slack) by reflexivity. cbn [obind].
  rewrite (memcpy_at0 (updZ _ 0 0) (offs_from 0 E) 0 (lenZ E + 1))
    by (rewrite ?lenZ_updZ, ?lenZ_malloc, ?offs_from_length by lia; lia).
  rewrite (slice_all (offs_from 0 E)) by (now rewrite offs_from_length). cbn [obind].
  set (R1 := skipn (Z.to_nat (clen E)) (malloc _)).
  assert (LR1 : lenZ R1 = clen N + 2 * num) by (subst R1; rewrite lenZ_skipn_malloc; lia).
  set (R2 := skipn (Z.to_nat (lenZ E + 1)) (updZ _ 0 0)).
  assert (LR2 : lenZ R2 = lenZ N + num) by (subst R2; rewrite lenZ_skipn_malloc0; lia).
  rewrite (offs_from_init 0 E), <- app_assoc. cbn [app].
  rewrite (gap_fill_spec val (Z.to_nat num) (concat E) R1 (offs_init 0 E) (0 + clen E) R2 (clen E) (lenZ E))
    by (rewrite ?offs_init_length; try reflexivity; lia).
  cbn [obind].
  change (ph_of type) with [val; 0].
  set (G := repeat [val; 0] (Z.to_nat num)).
  assert (CG : clen G = 2 * num) by (subst G; rewrite clen_repeat2; lia).
  assert (LG : lenZ G = num) by (subst G; rewrite lenZ_repeat; lia).
  rewrite (app_assoc (concat E)).
  rewrite (memcpy_at (concat E ++ concat G) _ _ (concat N) 0 (clen N)) by sc.
  rewrite (slice_all (concat N)) by reflexivity. cbn [obind].
  rewrite (offs_from_init _ G), <- !app_assoc, (app_assoc (offs_init 0 E)). cbn [app].
  rewrite (accum_offsets_all N) by sc.
  cbn [obind]. zb.
  rewrite !skipn_skipn', !(skipn_all2 R1), !(skipn_all2 R2) by (unfold lenZ in *; lia).
  rewrite !concat_app, !offs_from_app, !app_nil_r, <- !app_assoc. reflexivity.
Qed.

Lemma head_none_if (so : list Z) f s :
  s <= f -> nthZ so 0 undef = 0 ->
  (if f <=? s then if nthZ so (s - f) undef - 0 <? 0 then None else Some (nthZ so (s - f) undef - 0, s - f) else Some (0, 0))
  = Some (0, 0).
Proof.
  intros H H0. destruct (Z.leb_spec f s); [|reflexivity].
  replace (s - f) with 0 by lia. rewrite H0. reflexivity.
Qed.

Lemma poly_splice_front type f E s N slack :
  E <> [] -> N <> [] -> s <= f -> f <= s + lenZ N - 1 -> s + lenZ N - 1 < f + lenZ E - 1 ->
  poly_splice type f (f + lenZ E - 1) s (s + lenZ N - 1) (concat E ++ slack) (offs_from 0 E) (concat N) (offs_from 0 N)
  = Some (Some (concat (splice_struct (ph_of type) f E s N), offs_from 0 (splice_struct (ph_of type) f E s N))).
Proof.
  intros HE HN C1 C2 C3.
  pose proof (nonempty_len E HE) as LE. pose proof (nonempty_len N HN) as LN.
  pose proof (clen_nonneg E) as PE. pose proof (clen_nonneg N) as PN. pose proof (lenZ_nonneg slack) as PS.
  prelude.
  rewrite (head_none_if (offs_from 0 E) f s C1 (nthZ_offs_from_0 0 E undef)).
  set (k2 := s + lenZ N - 1 - f + 1). assert (Hk2 : 1 <= k2 <= lenZ E - 1) by (subst k2; lia).
  set (T := skipn (Z.to_nat k2) E). set (H2 := firstn (Z.to_nat k2) E).
  assert (K2 : nthZ (offs_from 0 E) k2 undef = clen H2) by (rewrite nthZ_offs_from by lia; subst H2; lia).
  assert (CE : clen E = clen H2 + clen T) by apply clen_split.
  pose proof (clen_nonneg T) as PT. pose proof (clen_nonneg H2) as PH2.
  rewrite K2, CE.
  zb. cbn [negb andb].
  replace (0 + (clen H2 + clen T) - clen H2) with (clen T) by lia.
  rewrite (memcpy_at0 (malloc _) (concat N) 0 (clen N)) by (rewrite ?lenZ_malloc by lia; sc).
  rewrite (slice_all (concat N)) by reflexivity. cbn [obind].
  rewrite (memcpy_at0 (updZ _ 0 0) (offs_from 0 N) 0 (lenZ N + 1))
    by (rewrite ?lenZ_updZ, ?lenZ_malloc, ?offs_from_length by lia; lia).
  rewrite (slice_all (offs_from 0 N)) by (now rewrite offs_from_length). cbn [obind].
  set (R1 := skipn (Z.to_nat (clen N)) (malloc _)).
  assert (LR1 : lenZ R1 = clen T) by (subst R1; rewrite lenZ_skipn_malloc; lia).
  set (R2 := skipn (Z.to_nat (lenZ N + 1)) (updZ _ 0 0)).
  assert (LR2 : lenZ R2 = lenZ E - k2) by (subst R2; rewrite lenZ_skipn_malloc0; lia).
  rewrite (memcpy_at (concat N) R1 _ (concat E ++ slack) (clen H2) (clen T)) by sc.
  rewrite (slice_conn_tail E slack (Z.to_nat k2)) by reflexivity. cbn [obind].
  rewrite (offs_from_init 0 N), <- app_assoc. cbn [app].
  rewrite (accum_offsets_tail E (Z.to_nat k2)) by sc.
  cbn [obind]. zb.
  rewrite !(skipn_all2 R1), !(skipn_all2 R2) by (unfold lenZ in *; lia).
  replace (Z.to_nat (s - f)) with 0%nat by lia. cbn [firstn app].
  rewrite !concat_app, !offs_from_app, !app_nil_r. reflexivity.
Qed.

Lemma tail_none_if E f e :
  f + lenZ E - 1 <= e ->
  (if e <=? f + lenZ E - 1
   then if 0 + clen E - nthZ (offs_from 0 E) (e - f + 1) undef <? 0 then None
        else Some (0 + clen E - nthZ (offs_from 0 E) (e - f + 1) undef, f + lenZ E - 1 - e)
   else Some (0, 0)) = Some (0, 0).
Proof.
  intros H. destruct (Z.leb_spec e (f + lenZ E - 1)); [|reflexivity].
  replace (e - f + 1) with (lenZ E) by lia. rewrite nthZ_offs_from_last.
  replace (0 + clen E - (0 + clen E)) with 0 by lia. replace (f + lenZ E - 1 - e) with 0 by lia. reflexivity.
Qed.

Lemma poly_splice_cover type f E s N slack :
  E <> [] -> N <> [] -> s <= f -> f + lenZ E - 1 <= s + lenZ N - 1 ->
  poly_splice type f (f + lenZ E - 1) s (s + lenZ N - 1) (concat E ++ slack) (offs_from 0 E) (concat N) (offs_from 0 N)
  = Some (Some (concat (splice_struct (ph_of type) f E s N), offs_from 0 (splice_struct (ph_of type) f E s N))).
Proof.
  intros HE HN C1 C2.
  pose proof (nonempty_len E HE) as LE. pose proof (nonempty_len N HN) as LN.
  pose proof (clen_nonneg E) as PE. pose proof (clen_nonneg N) as PN. pose proof (lenZ_nonneg slack) as PS.
  prelude.
  rewrite (head_none_if (offs_from 0 E) f s C1 (nthZ_offs_from_0 0 E undef)).
  rewrite (tail_none_if E f (s + lenZ N - 1) C2).
  zb. cbn [negb andb]. rewrite ?andb_false_r.
  rewrite (memcpy_at0 (malloc _) (concat N) 0 (clen N)) by (rewrite ?lenZ_malloc by lia; sc).
  rewrite (slice_all (concat N)) by reflexivity. cbn [obind].
  rewrite (memcpy_at0 (updZ _ 0 0) (offs_from 0 N) 0 (lenZ N + 1))
    by (rewrite ?lenZ_updZ, ?lenZ_malloc, ?offs_from_length by lia; lia).
  rewrite (slice_all (offs_from 0 N)) by (now rewrite offs_from_length). cbn [obind].
  zb.
  rewrite !skipn_all2 by (rewrite ?updZ_length; unfold malloc; rewrite ?repeat_length; unfold lenZ in *; lia).
  replace (Z.to_nat (s - f)) with 0%nat by lia. cbn [firstn app].
  rewrite !app_nil_r. reflexivity.
Qed.

Lemma poly_splice_inside type f E s N slack :
  E <> [] -> N <> [] -> f < s -> s + lenZ N - 1 < f + lenZ E - 1 ->
  poly_splice type f (f + lenZ E - 1) s (s + lenZ N - 1) (concat E ++ slack) (offs_from 0 E) (concat N) (offs_from 0 N)
  = Some (Some (concat (splice_struct (ph_of type) f E s N), offs_from 0 (splice_struct (ph_of type) f E s N))).
Proof.
  intros HE HN C1 C3.
  pose proof (nonempty_len E HE) as LE. pose proof (nonempty_len N HN) as LN.
  pose proof (clen_nonneg E) as PE. pose proof (clen_nonneg N) as PN. pose proof (lenZ_nonneg slack) as PS.
  prelude.
  set (k1 := s - f). assert (Hk1 : 1 <= k1 <= lenZ E - 1) by (subst k1; lia).
  set (k2 := s + lenZ N - 1 - f + 1). assert (Hk2 : 1 <= k2 <= lenZ E - 1) by (subst k2; lia).
  set (T := skipn (Z.to_nat k2) E). set (H2 := firstn (Z.to_nat k2) E). set (Hd := firstn (Z.to_nat k1) E).
  assert (K1 : nthZ (offs_from 0 E) k1 undef = clen Hd) by (rewrite nthZ_offs_from by lia; subst Hd; lia).
  assert (K2 : nthZ (offs_from 0 E) k2 undef = clen H2) by (rewrite nthZ_offs_from by lia; subst H2; lia).
  assert (CE : clen E = clen H2 + clen T) by apply clen_split.
  pose proof (clen_nonneg T) as PT. pose proof (clen_nonneg H2) as PH2. pose proof (clen_nonneg Hd) as PHd.
  assert (LHd : lenZ Hd = k1) by (subst Hd; apply lenZ_firstnZ; lia).
  assert (CE1 : clen E = clen Hd + clen (skipn (Z.to_nat k1) E)) by apply clen_split.
  pose proof (clen_nonneg (skipn (Z.to_nat k1) E)) as PT1.
  rewrite K1, K2, CE.
  zb. cbn [negb andb].
  replace (0 + (clen H2 + clen T) - clen H2) with (clen T) by lia.
  replace (clen H2 + clen T - clen H2) with (clen T) by lia.
  replace (clen Hd - 0) with (clen Hd) by lia.
  rewrite (memcpy_at0 (malloc _) (concat E ++ slack) 0 (clen Hd)) by (rewrite ?lenZ_malloc by lia; sc).
  rewrite (slice_conn_head E slack (Z.to_nat k1)) by reflexivity. cbn [obind].
  replace (k1 + 1) with (Z.of_nat (Z.to_nat k1) + 1) by lia.
  rewrite (memcpy_at0 (updZ _ 0 0) (offs_from 0 E) 0 (Z.of_nat (Z.to_nat k1) + 1))
    by (rewrite ?lenZ_updZ, ?lenZ_malloc, ?offs_from_length by lia; lia).
  rewrite (slice_offs_head 0 E (Z.to_nat k1)) by (unfold lenZ in *; lia). fold Hd. cbn [obind].
  set (R1 := skipn (Z.to_nat (clen Hd)) (malloc _)).
  assert (LR1 : lenZ R1 = clen N + clen T) by (subst R1; rewrite lenZ_skipn_malloc; lia).
  set (R2 := skipn (Z.to_nat (Z.of_nat (Z.to_nat k1) + 1)) (updZ _ 0 0)).
  assert (LR2 : lenZ R2 = lenZ N + (lenZ E - k2)) by (subst R2; rewrite lenZ_skipn_malloc0; lia).
  rewrite (memcpy_at (concat Hd) R1 _ (concat N) 0 (clen N)) by sc.
  rewrite (slice_all (concat N)) by reflexivity. cbn [obind].
  rewrite (offs_from_init 0 Hd), <- app_assoc. cbn [app].
  rewrite (accum_offsets_all N) by sc.
  cbn [obind].
  rewrite (app_assoc (concat Hd)).
  rewrite (memcpy_at (concat Hd ++ concat N) _ _ (concat E ++ slack) (clen H2) (clen T)) by sc.
  rewrite (slice_conn_tail E slack (Z.to_nat k2)) by reflexivity. cbn [obind].
  rewrite (offs_from_init _ N), <- !app_assoc, (app_assoc (offs_init 0 Hd)). cbn [app].
  rewrite (accum_offsets_tail E (Z.to_nat k2)) by sc.
  cbn [obind]. zb.
  rewrite !skipn_skipn', !(skipn_all2 R1), !(skipn_all2 R2) by (unfold lenZ in *; lia).
  rewrite !concat_app, !offs_from_app, !app_nil_r, <- !app_assoc. reflexivity.
Qed.

Lemma poly_splice_back type f E s N slack :
  E <> [] -> N <> [] -> f < s -> s <= f + lenZ E - 1 -> f + lenZ E - 1 <= s + lenZ N - 1 ->
  poly_splice type f (f + lenZ E - 1) s (s + lenZ N - 1) (concat E ++ slack) (offs_from 0 E) (concat N) (offs_from 0 N)
  = Some (Some (concat (splice_struct (ph_of type) f E s N), offs_from 0 (splice_struct (ph_of type) f E s N))).
Proof.
  intros HE HN C1 C2 C3.
  pose proof (nonempty_len E HE) as LE. pose proof (nonempty_len N HN) as LN.
  pose proof (clen_nonneg E) as PE. pose proof (clen_nonneg N) as PN. pose proof (lenZ_nonneg slack) as PS.
  prelude.
  rewrite (tail_none_if E f (s + lenZ N - 1) C3).
  set (k1 := s - f). assert (Hk1 : 1 <= k1 <= lenZ E - 1) by (subst k1; lia).
  set (Hd := firstn (Z.to_nat k1) E).
  assert (K1 : nthZ (offs_from 0 E) k1 undef = clen Hd) by (rewrite nthZ_offs_from by lia; subst Hd; lia).
  pose proof (clen_nonneg Hd) as PHd.
  assert (LHd : lenZ Hd = k1) by (subst Hd; apply lenZ_firstnZ; lia).
  assert (CE1 : clen E = clen Hd + clen (skipn (Z.to_nat k1) E)) by apply clen_split.
  pose proof (clen_nonneg (skipn (Z.to_nat k1) E)) as PT1.
  rewrite K1.
  zb. cbn [negb andb]. rewrite ?andb_false_r.
  replace (clen Hd - 0) with (clen Hd) by lia.
  rewrite (memcpy_at0 (malloc _) (concat E ++ slack) 0 (clen Hd)) by (rewrite ?lenZ_malloc by lia; sc).
  rewrite (slice_conn_head E slack (Z.to_nat k1)) by reflexivity. cbn [obind].
  replace (k1 + 1) with (Z.of_nat (Z.to_nat k1) + 1) by lia.
  rewrite (memcpy_at0 (updZ _ 0 0) (offs_from 0 E) 0 (Z.of_nat (Z.to_nat k1) + 1))
    by (rewrite ?lenZ_updZ, ?lenZ_malloc, ?offs_from_length by lia; lia).
  rewrite (slice_offs_head 0 E (Z.to_nat k1)) by (unfold lenZ in *; lia). fold Hd. cbn [obind].
  set (R1 := skipn (Z.to_nat (clen Hd)) (malloc _)).
  assert (LR1 : lenZ R1 = clen N) by (subst R1; rewrite lenZ_skipn_malloc; lia).
  set (R2 := skipn (Z.to_nat (Z.of_nat (Z.to_nat k1) + 1)) (updZ _ 0 0)).
  assert (LR2 : lenZ R2 = lenZ N) by (subst R2; rewrite lenZ_skipn_malloc0; lia).
  rewrite (memcpy_at (concat Hd) R1 _ (concat N) 0 (clen N)) by sc.
  rewrite (slice_all (concat N)) by reflexivity. cbn [obind].
  rewrite (offs_from_init 0 Hd), <- app_assoc. cbn [app].
  rewrite (accum_offsets_all N) by sc.
  cbn [obind]. zb.
  rewrite !(skipn_all2 R1), !(skipn_all2 R2), (skipn_all2 E) by (unfold lenZ in *; lia).
  rewrite ?app_nil_r, !concat_app, !offs_from_app, ?app_nil_r. reflexivity.
Qed.

(* THE IN-MEMORY SPLICE of variable-size connectivity: for EVERY stored section (any element sizes), EVERY written
   range (before with / without gap, overlapping the front, inside, overlapping the back, after with / without gap,
   covering) and any reserved slack after the stored connectivity, the program of cg_poly_elements_general_write
   (size computation, malloc, memcpy, gap fill, offset accumulation, "my counting is off" test) returns exactly
   the flattened pointwise splice and its start offsets; it never faults and never miscounts. *)
Theorem poly_splice_is_splice type f E s N slack :
  E <> [] -> N <> [] ->
  poly_splice type f (f + lenZ E - 1) s (s + lenZ N - 1) (concat E ++ slack) (offs_from 0 E) (concat N) (offs_from 0 N)
  = Some (Some (concat (splice (ph_of type) f E s N), offs_from 0 (splice (ph_of type) f E s N))).
Proof.
  intros HE HN. rewrite splice_is_struct by assumption.
  destruct (Z.lt_ge_cases (s + lenZ N - 1) f); [now apply poly_splice_before|].
  destruct (Z.lt_ge_cases (f + lenZ E - 1) s); [now apply poly_splice_after|].
  destruct (Z.le_gt_cases s f); destruct (Z.lt_ge_cases (s + lenZ N - 1) (f + lenZ E - 1)).
  - now apply poly_splice_front.
  - now apply poly_splice_cover.
  - apply poly_splice_inside; auto; lia.
  - apply poly_splice_back; auto; lia.
Qed.

(* ---- 4. representation of a variable-size section; the three paths of cg_poly_elements_general_write ------------ *)
Definition is_poly_type (t : Z) : bool := (t =? MIXED) || (t =? NGON_n) || (t =? NFACE_n).
Lemma poly_not_fixed t : is_poly_type t = true -> is_fixed_size t = false.
Proof.
  unfold is_poly_type, MIXED, NGON_n, NFACE_n. intros H.
  apply orb_prop in H as [H|H]; [apply orb_prop in H as [H|H]|]; apply Z.eqb_eq in H; subst; reflexivity.
Qed.

(* [st] (mirror + nodes on file) represents the section (first = f, elements = E); the ElementConnectivity node may
   hold reserved space [slack] after the elements (cg_section_general_write reserves it, the in-place paths keep it);
   the caches, when present, agree with the nodes; the connectivity is never cached without the offsets. *)
Record rep_poly (st : section) (f : Z) (E : list (list Z)) (slack : list Z) : Prop := mkRepP {
  rq_type : is_poly_type (s_type st) = true;
  rq_hasoff : s_hasoff st = true;
  rq_ne : E <> [];
  rq_all : nonempty_all E;
  rq_r0 : s_r0 st = f;
  rq_r1 : s_r1 st = f + lenZ E - 1;
  rq_conn : s_conn st = concat E ++ slack;
  rq_dim : s_dim st = clen E + lenZ slack;
  rq_off : s_off st = offs_from 0 E;
  rq_odim : s_odim st = lenZ E + 1;
  rq_mem : s_conn_mem st = None \/ s_conn_mem st = Some (concat E ++ slack);
  rq_omem : s_off_mem st = None \/ s_off_mem st = Some (offs_from 0 E);
  rq_coh : s_conn_mem st <> None -> s_off_mem st <> None
}.

Lemma user_take_all l n : n = lenZ l -> user_take l n = Some l.
Proof. intros ->. unfold user_take. zb. now rewrite to_nat_lenZ, firstn_all. Qed.

Lemma read_offset_data_rep st f E slack :
  rep_poly st f E slack ->
  exists s0, read_offset_data st = (s0, offs_from 0 E) /\
    s_type s0 = s_type st /\ s_dt s0 = s_dt st /\ s_r0 s0 = s_r0 st /\ s_r1 s0 = s_r1 st /\ s_dim s0 = s_dim st /\
    s_conn s0 = s_conn st /\ s_conn_mem s0 = s_conn_mem st /\ s_hasoff s0 = s_hasoff st /\ s_odim s0 = s_odim st /\
    s_off s0 = s_off st /\ s_off_mem s0 = Some (offs_from 0 E) /\ s_par s0 = s_par st.
Proof.
  intros R. unfold read_offset_data. destruct (rq_omem _ _ _ _ R) as [H|H]; rewrite H.
  - eexists. split.
    + f_equal. rewrite (rq_off _ _ _ _ R), (rq_odim _ _ _ _ R).
      replace (Z.to_nat (lenZ E + 1)) with (length (offs_from 0 E))
        by (pose proof (offs_from_length 0 E); unfold lenZ in *; lia).
      apply firstn_all.
    + cbn. rewrite (rq_off _ _ _ _ R), (rq_odim _ _ _ _ R).
      replace (Z.to_nat (lenZ E + 1)) with (length (offs_from 0 E))
        by (pose proof (offs_from_length 0 E); unfold lenZ in *; lia).
      rewrite firstn_all. repeat split; reflexivity.
  - exists st. repeat split; auto.
Qed.

Lemma read_element_data_rep s0 st f E slack :
  rep_poly st f E slack -> s_dim s0 = s_dim st -> s_conn s0 = s_conn st -> s_conn_mem s0 = s_conn_mem st ->
  exists s1, read_element_data s0 = (s1, concat E ++ slack) /\
    s_type s1 = s_type s0 /\ s_dt s1 = s_dt s0 /\ s_r0 s1 = s_r0 s0 /\ s_r1 s1 = s_r1 s0 /\ s_dim s1 = s_dim s0 /\
    s_conn s1 = s_conn s0 /\ s_conn_mem s1 = Some (concat E ++ slack) /\ s_hasoff s1 = s_hasoff s0 /\
    s_odim s1 = s_odim s0 /\ s_off s1 = s_off s0 /\ s_off_mem s1 = s_off_mem s0 /\ s_par s1 = s_par s0.
Proof.
  intros R Hd Hc Hm. unfold read_element_data. rewrite Hm, Hd, Hc.
  assert (FA : firstn (Z.to_nat (s_dim st)) (s_conn st) = concat E ++ slack).
  { rewrite (rq_conn _ _ _ _ R), (rq_dim _ _ _ _ R).
    replace (Z.to_nat (clen E + lenZ slack)) with (length (concat E ++ slack))
      by (rewrite app_length; unfold clen, lenZ; lia).
    apply firstn_all. }
  destruct (rq_mem _ _ _ _ R) as [H|H]; rewrite H.
  - eexists. split; [f_equal; exact FA|]. cbn. rewrite FA. repeat split; auto.
  - exists s0. repeat split; auto. congruence.
Qed.

Ltac wprefix R HN :=
  unfold poly_elements_general_write;
  rewrite (poly_not_fixed _ (rq_type _ _ _ _ R)), (rq_hasoff _ _ _ _ R); cbn [negb];
  repeat match goal with
  | |- context [?s + lenZ ?N - 1 - ?s + 1] => replace (s + lenZ N - 1 - s + 1) with (lenZ N) by lia
  end;
  pose proof (nonempty_len _ HN);
  rewrite (user_take_all (offs_from 0 _)) by (now rewrite offs_from_length);
  rewrite !nthZ_offs_from_last, !nthZ_offs_from_0;
  repeat match goal with
  | |- context [0 + clen ?N - 0] => replace (0 + clen N - 0) with (clen N) by lia
  end.

Lemma offs_range_size f E a b d :
  f <= a -> a <= b -> b <= f + lenZ E - 1 ->
  nthZ (offs_from 0 E) (b - f + 1) d - nthZ (offs_from 0 E) (a - f) d = clen (slice_elems f E a b).
Proof.
  intros H1 H2 H3. rewrite !nthZ_offs_from by lia. unfold slice_elems.
  replace (Z.to_nat (b - f + 1)) with (Z.to_nat (a - f) + Z.to_nat (b - a + 1))%nat by lia.
  rewrite firstn_plus, clen_app. lia.
Qed.

Ltac proj := cbn [s_type s_dt s_r0 s_r1 s_dim s_conn s_conn_mem s_hasoff s_odim s_off s_off_mem s_par
                   set_range set_off set_conn].
Ltac wranges R :=
  rewrite ?(rq_r0 _ _ _ _ R), ?(rq_r1 _ _ _ _ R);
  repeat match goal with
  | |- context [?f + lenZ ?E - 1 - ?f + 1] => replace (f + lenZ E - 1 - f + 1) with (lenZ E) by lia
  end;
  rewrite ?nthZ_offs_from_last, ?nthZ_offs_from_0;
  repeat match goal with
  | |- context [0 + clen ?N - 0] => replace (0 + clen N - 0) with (clen N) by lia
  end.

Lemma splice_nonempty_all ph f E s N :
  ph <> [] -> E <> [] -> N <> [] -> nonempty_all E -> nonempty_all N -> nonempty_all (splice ph f E s N).
Proof.
  intros. rewrite splice_is_struct by assumption. unfold splice_struct.
  destruct (_ <? _); [|destruct (_ <? _)];
    repeat apply nonempty_all_app; auto using nonempty_all_repeat, nonempty_all_firstn, nonempty_all_skipn.
Qed.

Ltac inmem_tail R Hpar HN AN F0 st s0 f E slack start N :=
    let F01 := fresh in let F02 := fresh in let F05 := fresh in let F06 := fresh in let F07 := fresh in
    let F08 := fresh in let F012 := fresh in let s1 := fresh "s1" in
    let F11 := fresh in let F12 := fresh in let F18 := fresh in let F112 := fresh in let SL := fresh "SL" in
    destruct F0 as (F01 & F02 & _ & _ & F05 & F06 & F07 & F08 & _ & _ & _ & F012);
    destruct (read_element_data_rep s0 st f E slack R F05 F06 F07) as (s1 & -> & F1);
    destruct F1 as (F11 & F12 & _ & _ & _ & _ & _ & F18 & _ & _ & _ & F112);
    rewrite (user_take_all (concat N)) by reflexivity;
    rewrite poly_splice_is_splice by (auto; apply R);
    unfold parent_resize; proj;
    rewrite F112, F012, Hpar;
    eexists; (split; [reflexivity|]);
    assert (SL := splice_lenZ (ph_of (s_type st)) f E start N (rq_ne _ _ _ _ R) HN);
    unfold splice_hi, splice_lo in SL;
    proj; rewrite ?F11, ?F12, ?F01, ?F02, ?F112, ?F012;
    (split; [|split; [discriminate|auto]]);
    constructor; proj; rewrite ?F11, ?F01, ?F18, ?F08, ?app_nil_r; auto; try apply R;
    try (now apply splice_nonempty);
    try (apply splice_nonempty_all; auto; try apply R; discriminate);
    try (intros _; discriminate);
    try (rewrite ?SL, ?lenZ_nil, ?offs_from_length; unfold clen;
         repeat match goal with |- context [?a <? ?b] => destruct (Z.ltb_spec a b) end; lia).

Lemma poly_write_inmemory pv st f E slack start N mt :
  rep_poly st f E slack -> s_par st = None -> N <> [] -> nonempty_all N ->
  (s_conn_mem st <> None \/ start < f \/ f + lenZ E - 1 < start + lenZ N - 1 \/
   (clen (slice_elems f E start (start + lenZ N - 1)) <> clen N /\
    s_dim st < clen E + clen N - clen (slice_elems f E start (start + lenZ N - 1)))) ->
  exists st', poly_elements_general_write pv st start (start + lenZ N - 1) mt (concat N) (offs_from 0 N) = ROk st'
     /\ rep_poly st' (Z.min f start) (splice (ph_of (s_type st)) f E start N) []
     /\ s_conn_mem st' <> None
     /\ s_par st' = None /\ s_type st' = s_type st /\ s_dt st' = s_dt st.
Proof.
  intros R Hpar HN AN NF.
  pose proof (clen_nonneg N) as PN. pose proof (nonempty_len E (rq_ne _ _ _ _ R)) as LE.
  wprefix R HN. zb.
  destruct (read_offset_data_rep st f E slack R) as (s0 & -> & F0).
  wranges R.
  set (e := start + lenZ N - 1) in *.
  assert (C : (f <=? start) && (e <=? f + lenZ E - 1) && is_none (s_conn_mem st) = true ->
              f <= start /\ e <= f + lenZ E - 1 /\ s_conn_mem st = None).
  { intros HI. apply andb_prop in HI as [HI H3]. apply andb_prop in HI as [H1' H2'].
    apply Z.leb_le in H1', H2'. destruct (s_conn_mem st); [discriminate|]. auto. }
  destruct ((f <=? start) && (e <=? f + lenZ E - 1) && is_none (s_conn_mem st)) eqn:HI; cbn [andb].
  - destruct (C eq_refl) as (C1 & C2 & C3).
    rewrite (offs_range_size f E start e) by (subst e; lia).
    destruct NF as [NF|[NF|[NF|[NF1 NF2]]]]; try (congruence || lia). zb.
    subst e. inmem_tail R Hpar HN AN F0 st s0 f E slack start N.
  - subst e. inmem_tail R Hpar HN AN F0 st s0 f E slack start N.
Qed.


(* ---- the two paths that write the user's data directly into the node (range inside, connectivity not cached) ---- *)
Lemma nthZ_offs_app b A B k d : k = lenZ A -> nthZ (offs_from b (A ++ B)) k d = b + clen A.
Proof.
  intros ->. rewrite offs_from_app, (offs_from_hd _ B). rewrite <- (offs_init_length b A). apply nthZ_app_at.
Qed.
Lemma offs_tl_length b A : length (tl (offs_from b A)) = length A.
Proof. pose proof (offs_from_length b A) as L. rewrite (offs_from_hd b A), lenZ_cons in L. unfold lenZ in L. lia. Qed.
Lemma skipn_tl_offs c A B n : n = length A -> skipn n (tl (offs_from c (A ++ B))) = tl (offs_from (c + clen A) B).
Proof.
  intros ->. rewrite offs_from_app_tl, (offs_from_hd c A). cbn [app tl].
  rewrite <- (offs_tl_length c A). apply skipn_app_len.
Qed.

Lemma file_write_over pre rest data n :
  n = lenZ data -> 0 < n -> n <= lenZ rest ->
  file_write (pre ++ rest) (lenZ pre + 1) (lenZ pre + n) data = Some (pre ++ data ++ skipn (Z.to_nat n) rest).
Proof.
  intros Hn Hp Hr. rewrite <- (firstn_skipn (Z.to_nat n) rest) at 1.
  assert (L : lenZ (firstn (Z.to_nat n) rest) = n) by (apply lenZ_firstnZ; lia).
  apply file_write_at; try lia.
  replace (length (firstn (Z.to_nat n) rest)) with (length data) by (unfold lenZ in *; lia).
  apply firstn_all.
Qed.

(* the offsets after the accumulation over the addressed range (both direct paths) *)
Lemma accum_inside Hd Mid T N cnt j :
  cnt = length N -> length Mid = length N -> j = lenZ Hd ->
  accum_offsets cnt (offs_from 0 (Hd ++ Mid ++ T)) j (offs_from 0 N) 0
  = Some (offs_init 0 Hd ++ offs_from (clen Hd) N ++ tl (offs_from (clen Hd + clen Mid) T), lenZ Hd + lenZ N).
Proof.
  intros -> HL ->. rewrite offs_from_app, (offs_from_hd _ (Mid ++ T)).
  rewrite (accum_offsets_all N) by (rewrite ?offs_init_length; try reflexivity;
     unfold lenZ; rewrite offs_tl_length, app_length; lia).
  rewrite <- HL, skipn_tl_offs by reflexivity. rewrite ?offs_init_length. do 4 f_equal; lia.
Qed.

Lemma poly_write_inplace' pv st f Hd Mid T slack N mt :
  rep_poly st f (Hd ++ Mid ++ T) slack -> s_par st = None -> s_conn_mem st = None ->
  N <> [] -> nonempty_all N -> length Mid = length N -> clen Mid = clen N ->
  exists st', poly_elements_general_write pv st (f + lenZ Hd) (f + lenZ Hd + lenZ N - 1) mt (concat N) (offs_from 0 N)
              = ROk st'
     /\ rep_poly st' f (Hd ++ N ++ T) slack
     /\ s_conn_mem st' = None /\ s_dim st' = s_dim st
     /\ s_par st' = None /\ s_type st' = s_type st /\ s_dt st' = s_dt st.
Proof.
  intros R Hpar Hmem HN AN HL HC.
  pose proof (clen_nonneg N) as PN. pose proof (nonempty_all_clen N AN) as CN.
  assert (LM : lenZ Mid = lenZ N) by (unfold lenZ; lia).
  pose proof (lenZ_nonneg Hd). pose proof (lenZ_nonneg T). pose proof (lenZ_nonneg slack).
  pose proof (clen_nonneg T). pose proof (clen_nonneg Hd).
  wprefix R HN. zb.
  destruct (read_offset_data_rep st f _ slack R) as (s0 & -> & F0).
  wranges R. rewrite Hmem. lens. cbn [is_none].
  replace (f + lenZ Hd - f) with (lenZ Hd) by lia.
  replace (f + lenZ Hd + lenZ N - 1 - f + 1) with (lenZ Hd + lenZ N) by lia.
  rewrite (nthZ_offs_app 0 Hd (Mid ++ T) (lenZ Hd)) by reflexivity.
  rewrite (app_assoc Hd Mid T), (nthZ_offs_app 0 (Hd ++ Mid) T (lenZ Hd + lenZ N)) by (lens; lia).
  rewrite <- (app_assoc Hd Mid T).
  rewrite clen_app. zb. cbn [andb].
  rewrite (user_take_all (concat N)) by reflexivity.
  rewrite (rq_conn _ _ _ _ R), !concat_app, <- !app_assoc.
  replace (0 + clen Hd + 1) with (lenZ (concat Hd) + 1) by (rewrite lenZ_concat; lia).
  replace (0 + (clen Hd + clen Mid)) with (lenZ (concat Hd) + clen N) by (rewrite lenZ_concat; lia).
  rewrite file_write_over by (lens2; lia).
  replace (Z.to_nat (clen N)) with (length (concat Mid)) by (unfold clen, lenZ in *; lia).
  rewrite skipn_app_len.
  rewrite (accum_inside Hd Mid T N) by (auto using to_nat_lenZ).
  assert (OS : offs_init 0 Hd ++ offs_from (clen Hd) N ++ tl (offs_from (clen Hd + clen Mid) T)
               = offs_from 0 (Hd ++ N ++ T)).
  { rewrite (offs_from_app 0 Hd), (offs_from_app_tl _ N T). do 4 f_equal; lia. }
  rewrite OS.
  assert (FO : firstn (Z.to_nat (s_odim st)) (offs_from 0 (Hd ++ N ++ T)) = offs_from 0 (Hd ++ N ++ T)).
  { apply firstn_all2. rewrite (rq_odim _ _ _ _ R). pose proof (offs_from_length 0 (Hd ++ N ++ T)) as L.
    revert L. lens. unfold lenZ in *. lia. }
  rewrite FO.
  destruct F0 as (F01 & F02 & F03 & F04 & F05 & F06 & F07 & F08 & F09 & F010 & F011 & F012).
  unfold parent_resize. proj. rewrite F012, Hpar.
  eexists. split; [reflexivity|]. proj. rewrite F01, F02, F012.
  split; [|auto].
  pose proof (rq_all _ _ _ _ R) as A. apply Forall_app in A as [A1 A2]. apply Forall_app in A2 as [A2 A3].
  constructor; proj; rewrite ?F01, ?F08, ?F03, ?F04; auto; try apply R.
  - intro Q. apply (f_equal (@length _)) in Q. rewrite !app_length in Q. unfold lenZ in *. simpl in Q. lia.
  - repeat apply nonempty_all_app; auto.
  - rewrite (rq_r1 _ _ _ _ R). lens. lia.
  - now rewrite !concat_app, <- !app_assoc.
  - rewrite (rq_dim _ _ _ _ R). rewrite !clen_app. lia.
  - rewrite (rq_odim _ _ _ _ R). lens. lia.
Qed.

Lemma shift_inside Hd Mid T N cnt j delta :
  cnt = length T -> j = lenZ Hd + lenZ N -> delta = clen N - clen Mid ->
  shift_offsets cnt (offs_init 0 Hd ++ offs_from (clen Hd) N ++ tl (offs_from (clen Hd + clen Mid) T)) j delta
  = Some (offs_from 0 (Hd ++ N ++ T)).
Proof.
  intros -> -> ->. rewrite (offs_from_init (clen Hd) N), <- !app_assoc, (app_assoc (offs_init 0 Hd)). cbn [app].
  rewrite <- (app_nil_r (tl (offs_from (clen Hd + clen Mid) T))).
  rewrite <- (offs_tl_length (clen Hd + clen Mid) T).
  rewrite shift_offsets_spec by (lens; rewrite !offs_init_length; lia).
  rewrite offs_shift_tl, app_nil_r.
  rewrite (offs_from_app 0 Hd), (offs_from_app_tl _ N T), (offs_from_init (0 + clen Hd) N), <- !app_assoc.
  cbn [app]. do 4 f_equal; try lia. do 2 f_equal. lia.
Qed.

Lemma poly_write_relocate' pv st f Hd Mid T slack N mt :
  rep_poly st f (Hd ++ Mid ++ T) slack -> s_par st = None -> s_conn_mem st = None ->
  N <> [] -> nonempty_all N -> length Mid = length N -> clen Mid <> clen N ->
  clen (Hd ++ Mid ++ T) + clen N - clen Mid <= s_dim st ->
  exists st' slack', poly_elements_general_write pv st (f + lenZ Hd) (f + lenZ Hd + lenZ N - 1) mt (concat N) (offs_from 0 N)
              = ROk st'
     /\ rep_poly st' f (Hd ++ N ++ T) slack'
     /\ s_conn_mem st' = None /\ s_dim st' = s_dim st
     /\ s_par st' = None /\ s_type st' = s_type st /\ s_dt st' = s_dt st.
Proof.
  intros R Hpar Hmem HN AN HL HC HF.
  pose proof (clen_nonneg N) as PN. pose proof (nonempty_all_clen N AN) as CN.
  assert (LM : lenZ Mid = lenZ N) by (unfold lenZ; lia).
  pose proof (lenZ_nonneg Hd). pose proof (lenZ_nonneg T). pose proof (lenZ_nonneg slack).
  pose proof (clen_nonneg T). pose proof (clen_nonneg Hd). pose proof (clen_nonneg Mid).
  pose proof (rq_dim _ _ _ _ R) as HD. rewrite !clen_app in HD, HF.
  assert (NT : nonempty_all T)
    by (pose proof (rq_all _ _ _ _ R) as A; apply Forall_app in A as [_ A]; apply Forall_app in A as [_ A]; exact A).
  pose proof (nonempty_all_clen T NT) as CT.
  wprefix R HN. zb.
  destruct (read_offset_data_rep st f _ slack R) as (s0 & -> & F0).
  wranges R. rewrite Hmem. lens. cbn [is_none].
  replace (f + lenZ Hd - f) with (lenZ Hd) by lia.
  replace (f + lenZ Hd + lenZ N - 1 - f + 1) with (lenZ Hd + lenZ N) by lia.
  rewrite (nthZ_offs_app 0 Hd (Mid ++ T) (lenZ Hd)) by reflexivity.
  rewrite (app_assoc Hd Mid T), (nthZ_offs_app 0 (Hd ++ Mid) T (lenZ Hd + lenZ N)) by (lens; lia).
  rewrite <- (app_assoc Hd Mid T).
  rewrite !clen_app. zb. cbn [andb].
  replace (0 + (clen Hd + (clen Mid + clen T)) - (0 + (clen Hd + clen Mid))) with (clen T) by lia.
  replace (0 + (clen Hd + clen Mid) - (0 + clen Hd)) with (clen Mid) by lia.
  rewrite (user_take_all (concat N)) by reflexivity.
  rewrite (rq_conn _ _ _ _ R), !concat_app, <- !app_assoc.
  set (rest2 := skipn (Z.to_nat (clen N)) (concat Mid ++ concat T ++ slack)).
  assert (LR2 : lenZ rest2 = clen Mid + clen T + lenZ slack - clen N)
    by (subst rest2; rewrite lenZ_skipnZ; lens2; lia).
  assert (W1 : file_write (concat Hd ++ concat Mid ++ concat T ++ slack) (0 + clen Hd + 1) (0 + clen Hd + clen N) (concat N)
               = Some (concat Hd ++ concat N ++ rest2)).
  { replace (0 + clen Hd + 1) with (lenZ (concat Hd) + 1) by (rewrite lenZ_concat; lia).
    replace (0 + clen Hd + clen N) with (lenZ (concat Hd) + clen N) by (rewrite lenZ_concat; lia).
    apply file_write_over; lens2; lia. }
  assert (X : (if 0 <? clen T
               then file_read (concat Hd ++ concat Mid ++ concat T ++ slack) (0 + (clen Hd + clen Mid) + 1)
                              (0 + (clen Hd + (clen Mid + clen T)))
               else Some []) = Some (concat T)).
  { destruct (Z.ltb_spec 0 (clen T)) as [PT|PT].
    - rewrite (app_assoc (concat Hd) (concat Mid)).
      apply (file_read_at (concat Hd ++ concat Mid) (concat T) slack); lens2; lia.
    - assert (T = []) as -> by (apply lenZ_zero_nil; lia). reflexivity. }
  assert (Y : (if 0 <? clen T
               then file_write (concat Hd ++ concat N ++ rest2) (0 + clen Hd + clen N + 1)
                               (0 + clen Hd + clen N + clen T) (concat T)
               else Some (concat Hd ++ concat N ++ rest2))
              = Some (concat Hd ++ concat N ++ concat T ++ skipn (Z.to_nat (clen T)) rest2)).
  { destruct (Z.ltb_spec 0 (clen T)) as [PT|PT].
    - rewrite (app_assoc (concat Hd) (concat N)).
      replace (0 + clen Hd + clen N + 1) with (lenZ (concat Hd ++ concat N) + 1) by (lens2; lia).
      replace (0 + clen Hd + clen N + clen T) with (lenZ (concat Hd ++ concat N) + clen T) by (lens2; lia).
      rewrite file_write_over by (lens2; lia). now rewrite <- app_assoc.
    - assert (T = []) as -> by (apply lenZ_zero_nil; lia). reflexivity. }
  rewrite X, W1, Y.
  set (slack' := skipn (Z.to_nat (clen T)) rest2).
  assert (LS : lenZ slack' = clen Mid + lenZ slack - clen N) by (subst slack'; rewrite lenZ_skipnZ; lia).
  rewrite (accum_inside Hd Mid T N) by (auto using to_nat_lenZ).
  rewrite (shift_inside Hd Mid T N) by (try reflexivity; unfold lenZ in *; lia).
  assert (FO : firstn (Z.to_nat (s_odim st)) (offs_from 0 (Hd ++ N ++ T)) = offs_from 0 (Hd ++ N ++ T)).
  { apply firstn_all2. rewrite (rq_odim _ _ _ _ R). pose proof (offs_from_length 0 (Hd ++ N ++ T)) as L.
    revert L. lens. unfold lenZ in *. lia. }
  rewrite FO.
  destruct F0 as (F01 & F02 & F03 & F04 & F05 & F06 & F07 & F08 & F09 & F010 & F011 & F012).
  unfold parent_resize. proj. rewrite F012, Hpar.
  eexists. exists slack'. split; [reflexivity|]. proj. rewrite F01, F02, F012.
  split; [|auto].
  pose proof (rq_all _ _ _ _ R) as A. apply Forall_app in A as [A1 A2]. apply Forall_app in A2 as [A2 A3].
  constructor; proj; rewrite ?F01, ?F08, ?F03, ?F04; auto; try apply R.
  - intro Q. apply (f_equal (@length _)) in Q. rewrite !app_length in Q. unfold lenZ in *. simpl in Q. lia.
  - repeat apply nonempty_all_app; auto.
  - rewrite (rq_r1 _ _ _ _ R). lens. lia.
  - now rewrite !concat_app, <- !app_assoc.
  - rewrite !clen_app. lia.
  - rewrite (rq_odim _ _ _ _ R). lens. lia.
Qed.

(* the decomposition of E around an inside range start .. start+|N|-1, and the splice in that case *)
Lemma inside_decomp (ph : list Z) f E start N :
  E <> [] -> N <> [] -> f <= start -> start + lenZ N - 1 <= f + lenZ E - 1 ->
  exists Hd Mid T,
  E = Hd ++ Mid ++ T /\ length Mid = length N /\ start = f + lenZ Hd /\
  slice_elems f E start (start + lenZ N - 1) = Mid /\ splice ph f E start N = Hd ++ N ++ T.
Proof.
  intros HE HN H1 H2.
  pose (k := Z.to_nat (start - f)). pose (n := length N).
  pose (Hd := firstn k E). pose (Mid := firstn n (skipn k E)). pose (T := skipn (k + n) E).
  exists Hd, Mid, T.
  pose proof (nonempty_len N HN). 
  split; [apply three_way|]. split.
  - subst Mid. rewrite firstn_length, skipn_length. unfold lenZ in *. lia.
  - split; [subst Hd k; rewrite lenZ_firstnZ; lia|]. split.
    + unfold slice_elems. subst Mid k n. f_equal. unfold lenZ. lia.
    + rewrite splice_is_struct by assumption. unfold splice_struct. zb.
      subst Hd T k n. do 3 f_equal. unfold lenZ. lia.
Qed.

(* ---- 4a. THE IN-PLACE FAST PATH: taken exactly when the range is inside, the connectivity is not cached and the
   replaced elements have the same TOTAL size as the new ones; connectivity node, dimension and slack stay, the
   ElementStartOffset entries of the addressed range are recomputed from the new element sizes. *)
Theorem poly_write_inplace pv st f E slack start N mt :
  rep_poly st f E slack -> s_par st = None -> N <> [] -> nonempty_all N ->
  s_conn_mem st = None -> f <= start -> start + lenZ N - 1 <= f + lenZ E - 1 ->
  clen (slice_elems f E start (start + lenZ N - 1)) = clen N ->
  exists st', poly_elements_general_write pv st start (start + lenZ N - 1) mt (concat N) (offs_from 0 N) = ROk st'
     /\ rep_poly st' f (splice (ph_of (s_type st)) f E start N) slack
     /\ s_conn_mem st' = None /\ s_dim st' = s_dim st
     /\ s_par st' = None /\ s_type st' = s_type st /\ s_dt st' = s_dt st.
Proof.
  intros R Hpar HN AN Hmem H1 H2 HC.
  destruct (inside_decomp (ph_of (s_type st)) f E start N (rq_ne _ _ _ _ R) HN H1 H2)
    as (Hd & Mid & T & EQ & HL & HS & HM & ->).
  rewrite HM in HC. subst E start.
  apply (poly_write_inplace' pv st f Hd Mid T slack N mt); auto.
Qed.

Theorem poly_write_relocate pv st f E slack start N mt :
  rep_poly st f E slack -> s_par st = None -> N <> [] -> nonempty_all N ->
  s_conn_mem st = None -> f <= start -> start + lenZ N - 1 <= f + lenZ E - 1 ->
  clen (slice_elems f E start (start + lenZ N - 1)) <> clen N ->
  clen E + clen N - clen (slice_elems f E start (start + lenZ N - 1)) <= s_dim st ->
  exists st' slack', poly_elements_general_write pv st start (start + lenZ N - 1) mt (concat N) (offs_from 0 N) = ROk st'
     /\ rep_poly st' f (splice (ph_of (s_type st)) f E start N) slack'
     /\ s_conn_mem st' = None /\ s_dim st' = s_dim st
     /\ s_par st' = None /\ s_type st' = s_type st /\ s_dt st' = s_dt st.
Proof.
  intros R Hpar HN AN Hmem H1 H2 HC HF.
  destruct (inside_decomp (ph_of (s_type st)) f E start N (rq_ne _ _ _ _ R) HN H1 H2)
    as (Hd & Mid & T & EQ & HL & HS & HM & ->).
  rewrite HM in HC, HF. subst E start.
  apply (poly_write_relocate' pv st f Hd Mid T slack N mt); auto.
Qed.

(* ---- THE WRITE THEOREM for variable-size sections ------------------------------------------------------------- *)
Theorem poly_write_is_splice pv st f E slack start N mt :
  rep_poly st f E slack -> s_par st = None -> N <> [] -> nonempty_all N ->
  exists st' slack', poly_elements_general_write pv st start (start + lenZ N - 1) mt (concat N) (offs_from 0 N) = ROk st'
     /\ rep_poly st' (Z.min f start) (splice (ph_of (s_type st)) f E start N) slack'
     /\ s_par st' = None /\ s_type st' = s_type st /\ s_dt st' = s_dt st.
Proof.
  intros R Hpar HN AN.
  destruct (s_conn_mem st) eqn:Hmem.
  { destruct (poly_write_inmemory pv st f E slack start N mt R Hpar HN AN) as (st' & W & R' & _ & P).
    - left. congruence.
    - exists st', []. auto. }
  destruct (Z.lt_ge_cases start f) as [C1|C1].
  { destruct (poly_write_inmemory pv st f E slack start N mt R Hpar HN AN) as (st' & W & R' & _ & P); [auto|].
    exists st', []. auto. }
  destruct (Z.lt_ge_cases (f + lenZ E - 1) (start + lenZ N - 1)) as [C2|C2].
  { destruct (poly_write_inmemory pv st f E slack start N mt R Hpar HN AN) as (st' & W & R' & _ & P); [auto|].
    exists st', []. auto. }
  replace (Z.min f start) with f by lia.
  destruct (Z.eq_dec (clen (slice_elems f E start (start + lenZ N - 1))) (clen N)) as [C3|C3].
  { destruct (poly_write_inplace pv st f E slack start N mt R Hpar HN AN Hmem C1 C2 C3) as (st' & W & R' & _ & _ & P).
    exists st', slack. auto. }
  destruct (Z.le_gt_cases (clen E + clen N - clen (slice_elems f E start (start + lenZ N - 1))) (s_dim st)) as [C4|C4].
  { destruct (poly_write_relocate pv st f E slack start N mt R Hpar HN AN Hmem C1 C2 C3 C4) as (st' & sl & W & R' & _ & _ & P).
    exists st', sl. auto. }
  destruct (poly_write_inmemory pv st f E slack start N mt R Hpar HN AN) as (st' & W & R' & _ & P).
  - right. right. right. split; [exact C3|lia].
  - exists st', []. replace (Z.min f start) with f in R' by lia. auto.
Qed.

(* ---- 5. histories of partial writes ------------------------------------------------------------------------------- *)
Definition pwrite := (dtype * Z * list (list Z))%type.     (* memory type, start, new elements *)
Fixpoint poly_spec_run (ph : list Z) (f : Z) (E : list (list Z)) (ws : list pwrite) : Z * list (list Z) :=
  match ws with
  | [] => (f, E)
  | (_, start, N) :: r => poly_spec_run ph (Z.min f start) (splice ph f E start N) r
  end.
Fixpoint poly_impl_run (pv : pvariant) (st : section) (ws : list pwrite) : res section :=
  match ws with
  | [] => ROk st
  | (mt, start, N) :: r =>
      match poly_elements_general_write pv st start (start + lenZ N - 1) mt (concat N) (offs_from 0 N) with
      | ROk st' => poly_impl_run pv st' r
      | RErr => RErr | RFault => RFault
      end
  end.

Theorem poly_history_is_splice pv ws : forall st f E slack,
  rep_poly st f E slack -> s_par st = None ->
  Forall (fun w : pwrite => snd w <> [] /\ nonempty_all (snd w)) ws ->
  exists st' slack', poly_impl_run pv st ws = ROk st' /\
     rep_poly st' (fst (poly_spec_run (ph_of (s_type st)) f E ws)) (snd (poly_spec_run (ph_of (s_type st)) f E ws)) slack' /\
     s_par st' = None /\ s_type st' = s_type st /\ s_dt st' = s_dt st.
Proof.
  induction ws as [|[[mt start] N] r IH]; intros st f E slack R Hpar HW.
  - exists st, slack. simpl. auto.
  - inversion HW as [|? ? [HN AN] HR]; subst. simpl in HN, AN.
    destruct (poly_write_is_splice pv st f E slack start N mt R Hpar HN AN) as (st1 & sl1 & W & R1 & P1 & T1 & D1).
    destruct (IH st1 _ _ sl1 R1 P1 HR) as (st' & sl' & W' & R' & P' & T' & D').
    exists st', sl'. simpl. rewrite W. rewrite T1 in R'.
    split; [exact W'|]. split; [exact R'|]. split; [exact P'|]. split; congruence.
Qed.

(* ---- 6. reads ---------------------------------------------------------------------------------------------------- *)
Lemma range_decomp f (E : list (list Z)) a b :
  f <= a -> a <= b -> b <= f + lenZ E - 1 ->
  exists Hd Mid T, E = Hd ++ Mid ++ T /\ a = f + lenZ Hd /\ lenZ Mid = b - a + 1 /\ slice_elems f E a b = Mid.
Proof.
  intros H1 H2 H3.
  exists (firstn (Z.to_nat (a - f)) E), (firstn (Z.to_nat (b - a + 1)) (skipn (Z.to_nat (a - f)) E)),
         (skipn (Z.to_nat (a - f) + Z.to_nat (b - a + 1)) E).
  split; [apply three_way|]. split; [rewrite lenZ_firstnZ; lia|]. split; [|reflexivity].
  unfold lenZ. rewrite firstn_length, skipn_length. unfold lenZ in *. lia.
Qed.

Lemma offs_three b Hd Mid T :
  offs_from b (Hd ++ Mid ++ T) = offs_init b Hd ++ offs_from (b + clen Hd) Mid ++ tl (offs_from (b + clen Hd + clen Mid) T).
Proof. now rewrite offs_from_app, offs_from_app_tl. Qed.

Lemma rebase_offs c M : rebase (offs_from c M) = offs_from 0 M.
Proof.
  unfold rebase. replace (hd 0 (offs_from c M)) with c by (destruct M; reflexivity).
  rewrite (map_ext _ (fun v => v + (- c))) by (intros; lia). rewrite offs_shift. f_equal. lia.
Qed.

(* cg_poly_elements_partial_read: from the file (not cached, stored as cgsize_t) or through the cache it fills
   (cached, or stored as I4); the start offsets come back rebased to 0. *)
Theorem poly_partial_read_is_slice st f E slack a b :
  rep_poly st f E slack -> f <= a -> a <= b -> b <= f + lenZ E - 1 ->
  exists st', poly_elements_partial_read st a b false
              = ROk (st', [concat (slice_elems f E a b); offs_from 0 (slice_elems f E a b)])
              /\ rep_poly st' f E slack /\ s_par st' = s_par st /\ s_type st' = s_type st /\ s_dt st' = s_dt st.
Proof.
  intros R H1 H2 H3.
  destruct (range_decomp f E a b H1 H2 H3) as (Hd & Mid & T & EQ & HA & LM & ->).
  pose proof (rq_all _ _ _ _ R) as A. rewrite EQ in A. apply Forall_app in A as [A1 A2]. apply Forall_app in A2 as [A2 A3].
  pose proof (nonempty_all_clen Mid A2) as CM.
  pose proof (lenZ_nonneg Hd). pose proof (lenZ_nonneg T). pose proof (lenZ_nonneg slack).
  pose proof (clen_nonneg T). pose proof (clen_nonneg Hd).
  unfold poly_elements_partial_read.
  rewrite (rq_r0 _ _ _ _ R), (rq_r1 _ _ _ _ R), (rq_hasoff _ _ _ _ R). zb. cbn [orb negb].
  destruct (read_offset_data_rep st f E slack R) as (s0 & -> & F0).
  destruct F0 as (F01 & F02 & F03 & F04 & F05 & F06 & F07 & F08 & F09 & F010 & F011 & F012).
  assert (O1 : nthZ (offs_from 0 E) (a - f) undef = clen Hd).
  { rewrite EQ. rewrite (nthZ_offs_app 0 Hd) by lia. lia. }
  assert (O2 : nthZ (offs_from 0 E) (b - f + 1) undef = clen Hd + clen Mid).
  { rewrite EQ, (app_assoc Hd Mid T). rewrite (nthZ_offs_app 0 (Hd ++ Mid)) by (lens; lia). rewrite clen_app. lia. }
  rewrite O1, O2.
  assert (CO : rebase (slice (offs_from 0 E) (a - f) (b - a + 2)) = offs_from 0 Mid).
  { rewrite EQ, offs_three. rewrite slice_at by (rewrite ?offs_init_length, ?offs_from_length; lia). apply rebase_offs. }
  rewrite CO.
  assert (LT : (lenZ (offs_from 0 E) <? b - f + 2) = false) by (rewrite offs_from_length; zb; reflexivity).
  rewrite LT.
  assert (CONN : s_conn st = concat Hd ++ concat Mid ++ concat T ++ slack).
  { rewrite (rq_conn _ _ _ _ R), EQ, !concat_app, <- !app_assoc. reflexivity. }
  assert (PP : forall s', parent_partial s' a b false = ROk (s', [])) by reflexivity.
  destruct (is_none (s_conn_mem s0) && is_size_t (s_dt s0)) eqn:HB.
  - rewrite F06, CONN.
    rewrite (file_read_at (concat Hd) (concat Mid) (concat T ++ slack)) by (lens2; lia).
    rewrite PP. eexists. split; [reflexivity|]. split; [|auto].
    constructor; rewrite ?F01, ?F03, ?F04, ?F05, ?F06, ?F07, ?F08, ?F09, ?F010, ?F011; auto; try apply R.
    intros _. discriminate.
  - destruct (read_element_data_rep s0 st f E slack R F05 F06 F07) as (s1 & -> & F1).
    destruct F1 as (F11 & F12 & F13 & F14 & F15 & F16 & F17 & F18 & F19 & F110 & F111 & F112).
    replace (clen Hd + clen Mid - clen Hd) with (clen Mid) by lia.
    assert (LD : lenZ (concat E ++ slack) = clen Hd + clen Mid + clen T + lenZ slack).
    { rewrite EQ. lens2. lia. }
    rewrite LD. zb. cbn [orb].
    assert (SL : slice (concat E ++ slack) (clen Hd) (clen Mid) = concat Mid).
    { rewrite EQ, !concat_app, <- !app_assoc. now apply slice_at. }
    rewrite SL, PP. eexists. split; [reflexivity|]. split; [|repeat split; congruence].
    constructor; rewrite ?F11, ?F13, ?F14, ?F15, ?F16, ?F17, ?F18, ?F19, ?F110, ?F111,
                         ?F01, ?F03, ?F04, ?F05, ?F06, ?F07, ?F08, ?F09, ?F010, ?F011; auto; try apply R.
    intros _. discriminate.
Qed.

(* cg_poly_elements_general_read: always from the two nodes on file; state unchanged *)
Theorem poly_general_read_is_slice st f E slack a b mt :
  rep_poly st f E slack -> f <= a -> a <= b -> b <= f + lenZ E - 1 ->
  poly_elements_general_read st a b mt
  = ROk (st, [concat (slice_elems f E a b); offs_from 0 (slice_elems f E a b)]).
Proof.
  intros R H1 H2 H3.
  destruct (range_decomp f E a b H1 H2 H3) as (Hd & Mid & T & EQ & HA & LM & ->).
  pose proof (rq_all _ _ _ _ R) as A. rewrite EQ in A. apply Forall_app in A as [A1 A2]. apply Forall_app in A2 as [A2 A3].
  pose proof (nonempty_all_clen Mid A2) as CM.
  pose proof (lenZ_nonneg Hd). pose proof (lenZ_nonneg T). pose proof (lenZ_nonneg slack).
  pose proof (clen_nonneg T). pose proof (clen_nonneg Hd).
  unfold poly_elements_general_read.
  rewrite (rq_r0 _ _ _ _ R), (rq_r1 _ _ _ _ R), (rq_hasoff _ _ _ _ R). zb. cbn [orb negb].
  rewrite (rq_off _ _ _ _ R), EQ, offs_three.
  rewrite (file_read_at (offs_init 0 Hd) (offs_from (0 + clen Hd) Mid))
    by (rewrite ?offs_init_length, ?offs_from_length; lia).
  replace (hd 0 (offs_from (0 + clen Hd) Mid)) with (clen Hd) by (destruct Mid; simpl; lia).
  replace (b - a + 1) with (lenZ Mid) by lia. rewrite nthZ_offs_from_last.
  zb.
  rewrite (rq_conn _ _ _ _ R), EQ, !concat_app, <- !app_assoc.
  rewrite (file_read_at (concat Hd) (concat Mid) (concat T ++ slack)) by (lens2; lia).
  now rewrite rebase_offs.
Qed.

(* the rebased offsets, pointwise: off'[i] = off[first + i] - off[first] *)
Lemma poly_read_offsets_rebased f E a b i :
  f <= a -> a <= b -> b <= f + lenZ E - 1 -> 0 <= i <= b - a + 1 ->
  nthZ (offs_from 0 (slice_elems f E a b)) i 0
  = nthZ (offs_from 0 E) (a - f + i) 0 - nthZ (offs_from 0 E) (a - f) 0.
Proof.
  intros H1 H2 H3 Hi.
  destruct (range_decomp f E a b H1 H2 H3) as (Hd & Mid & T & EQ & HA & LM & ->).
  pose proof (lenZ_nonneg Hd).
  rewrite EQ. rewrite (nthZ_offs_app 0 Hd (Mid ++ T) (a - f)) by lia.
  rewrite nthZ_offs_from by lia.
  rewrite nthZ_offs_from by (lens; pose proof (lenZ_nonneg T); lia).
  replace (Z.to_nat (a - f + i)) with (length Hd + Z.to_nat i)%nat by (unfold lenZ in *; lia).
  rewrite firstn_app_2, clen_app. rewrite firstn_app.
  replace (Z.to_nat i - length Mid)%nat with 0%nat by (unfold lenZ in *; lia).
  cbn [firstn]. rewrite app_nil_r. lia.
Qed.

(* ---- cg_poly_elements_read (the whole section) and its "double check" ---------------------------------------------- *)
(* a MIXED element is (type, nodes...) with cg_npe type = number of nodes > 0 *)
Definition mixed_elem_ok (e : list Z) : Prop :=
  match e with t :: r => cg_npe t = Some (lenZ r) /\ 0 < lenZ r | [] => False end.
Definition elems_ok (type : Z) (E : list (list Z)) : Prop := type = MIXED -> Forall mixed_elem_ok E.

Lemma mixed_walk_spec E : Forall mixed_elem_ok E -> forall pre post,
  mixed_walk (length E) (pre ++ concat E ++ post) (lenZ pre) = lenZ pre + clen E.
Proof.
  induction 1 as [|e E He HE IH]; intros pre post.
  - simpl. rewrite clen_nil. lia.
  - destruct e as [|t r]; [contradiction|]. destruct He as [Hn Hp].
    cbn [length mixed_walk concat]. rewrite <- !app_assoc. cbn [app].
    rewrite nthZ_app_at, Hn. zb.
    replace (pre ++ t :: r ++ concat E ++ post) with ((pre ++ t :: r) ++ concat E ++ post)
      by (rewrite <- app_assoc; reflexivity).
    replace (lenZ pre + 1 + lenZ r) with (lenZ (pre ++ t :: r)) by (lens; lia).
    rewrite IH. rewrite clen_cons. lens. lia.
Qed.

(* node size = what the start offsets say (no reserved space behind the elements) *)
Definition slack_free_b (st : section) : bool :=
  s_dim st =? nthZ (s_off st) (s_r1 st - s_r0 st + 1) 0 - nthZ (s_off st) 0 0.
(* when the full read answers, per variant of its double check *)
Definition full_read_pre (rv : rvariant) (st : section) : bool :=
  match rv with
  | RFixed => true
  | RCurrent => is_none (s_conn_mem st) || slack_free_b st
  | ROld => is_none (s_conn_mem st) || (((s_type st =? MIXED) || is_size_t (s_dt st)) && slack_free_b st)
  end.

Lemma slack_free_spec st f E slack : rep_poly st f E slack -> slack_free_b st = true <-> slack = [].
Proof.
  intros R. unfold slack_free_b.
  rewrite (rq_off _ _ _ _ R), (rq_r0 _ _ _ _ R), (rq_r1 _ _ _ _ R), (rq_dim _ _ _ _ R).
  replace (f + lenZ E - 1 - f + 1) with (lenZ E) by lia. rewrite nthZ_offs_from_last, nthZ_offs_from_0.
  pose proof (lenZ_nonneg slack). split.
  - intros Q. apply Z.eqb_eq in Q. apply lenZ_zero_nil. lia.
  - intros ->. apply Z.eqb_eq. rewrite lenZ_nil. lia.
Qed.

Lemma poly_count st f E slack (od : option (list Z)) :
  rep_poly st f E slack -> elems_ok (s_type st) E ->
  (s_conn_mem st <> None -> s_type st <> MIXED -> od = Some (offs_from 0 E)) ->
  element_data_size (s_type st) (s_r1 st - s_r0 st + 1) (s_conn_mem st) od
  = match s_conn_mem st with None => 0 | Some _ => clen E end.
Proof.
  intros R OK HO. unfold element_data_size.
  rewrite (rq_r0 _ _ _ _ R), (rq_r1 _ _ _ _ R). replace (f + lenZ E - 1 - f + 1) with (lenZ E) by lia.
  destruct (Z.eqb_spec (s_type st) MIXED) as [TM|TM].
  - destruct (rq_mem _ _ _ _ R) as [M|M]; rewrite M; [reflexivity|].
    rewrite to_nat_lenZ. apply (mixed_walk_spec E (OK TM) [] slack).
  - assert (TT : (s_type st =? NGON_n) || (s_type st =? NFACE_n) = true).
    { pose proof (rq_type _ _ _ _ R) as TP. unfold is_poly_type in TP.
      destruct (Z.eqb_spec (s_type st) MIXED); [contradiction|]. exact TP. }
    rewrite TT. destruct (rq_mem _ _ _ _ R) as [M|M]; rewrite M; [reflexivity|].
    rewrite HO by (auto; congruence). rewrite nthZ_offs_from_last, nthZ_offs_from_0. lia.
Qed.

Lemma poly_read_output st f E slack :
  rep_poly st f E slack ->
  conn_all st = concat E ++ slack /\
  match s_off_mem st with
  | Some m => if is_size_t (s_dt st) then firstn (Z.to_nat (s_odim st)) m else firstn (Z.to_nat (s_odim st)) (s_off st)
  | None => firstn (Z.to_nat (s_odim st)) (s_off st)
  end = offs_from 0 E.
Proof.
  intros R.
  assert (FA : firstn (Z.to_nat (s_dim st)) (concat E ++ slack) = concat E ++ slack).
  { apply firstn_all2. rewrite (rq_dim _ _ _ _ R), app_length. unfold clen, lenZ. lia. }
  assert (FO : firstn (Z.to_nat (s_odim st)) (offs_from 0 E) = offs_from 0 E).
  { apply firstn_all2. rewrite (rq_odim _ _ _ _ R). pose proof (offs_from_length 0 E). unfold lenZ in *. lia. }
  split.
  - unfold conn_all. rewrite (rq_conn _ _ _ _ R).
    destruct (rq_mem _ _ _ _ R) as [M|M]; rewrite M; [exact FA|]. destruct (is_size_t _); exact FA.
  - rewrite (rq_off _ _ _ _ R).
    destruct (rq_omem _ _ _ _ R) as [M|M]; rewrite M; [exact FO|]. destruct (is_size_t _); exact FO.
Qed.

(* the full read answers exactly under full_read_pre; it then returns the whole connectivity node (elements, then
   any reserved space) and the start offsets *)
Theorem poly_full_read rv st f E slack :
  rep_poly st f E slack -> elems_ok (s_type st) E -> full_read_pre rv st = true ->
  poly_elements_read rv st false = ROk (st, [concat E ++ slack; offs_from 0 E]).
Proof.
  intros R OK PRE.
  destruct (poly_read_output st f E slack R) as [OC OO].
  pose proof (nonempty_all_clen E (rq_all _ _ _ _ R)) as CE. pose proof (nonempty_len E (rq_ne _ _ _ _ R)) as LE.
  pose proof (lenZ_nonneg slack) as PS.
  unfold poly_elements_read. rewrite (rq_hasoff _ _ _ _ R). cbn [andb].
  assert (PA : parent_all st false = []) by reflexivity. rewrite PA, OC, OO.
  destruct (rq_mem _ _ _ _ R) as [M|M].
  - (* not cached: count = 0 *)
    rewrite (poly_count st f E slack) by (auto; intros C; rewrite M in C; congruence).
    rewrite M. cbn. destruct rv; reflexivity.
  - assert (OM : s_off_mem st = Some (offs_from 0 E)).
    { destruct (rq_omem _ _ _ _ R) as [Q|Q]; [|exact Q]. exfalso. apply (rq_coh _ _ _ _ R); [congruence|exact Q]. }
    assert (SF : slack_free_b st = true -> s_dim st = clen E).
    { intros Q. apply (slack_free_spec st f E slack R) in Q. rewrite (rq_dim _ _ _ _ R), Q, lenZ_nil. lia. }
    destruct rv; unfold full_read_pre in PRE; rewrite ?M in PRE; cbn [is_none orb] in PRE.
    + apply andb_prop in PRE as [P1 P2].
      rewrite (poly_count st f E slack); auto.
      * rewrite M. rewrite (SF P2). zb. reflexivity.
      * intros _ TM. destruct (Z.eqb_spec (s_type st) MIXED); [contradiction|]. cbn [orb] in P1. now rewrite P1.
    + rewrite (poly_count st f E slack) by auto. rewrite M. rewrite (SF PRE). zb. reflexivity.
    + rewrite (poly_count st f E slack) by auto. rewrite M. rewrite (rq_dim _ _ _ _ R). zb. reflexivity.
Qed.

(* ... and fails (CG_ERROR) on every represented state outside it: for RCurrent that is "connectivity cached and
   reserved space behind the elements" -- the finding poly-read-fails-reserved-slack-cached, for all such states *)
Theorem poly_full_read_refuted_all rv st f E slack :
  rep_poly st f E slack -> elems_ok (s_type st) E -> full_read_pre rv st = false ->
  poly_elements_read rv st false = RErr.
Proof.
  intros R OK PRE.
  pose proof (nonempty_all_clen E (rq_all _ _ _ _ R)) as CE. pose proof (nonempty_len E (rq_ne _ _ _ _ R)) as LE.
  pose proof (lenZ_nonneg slack) as PS.
  unfold poly_elements_read. rewrite (rq_hasoff _ _ _ _ R). cbn [andb].
  destruct (rq_mem _ _ _ _ R) as [M|M]; [destruct rv; unfold full_read_pre in PRE; rewrite ?M in PRE; discriminate|].
  assert (OM : s_off_mem st = Some (offs_from 0 E)).
  { destruct (rq_omem _ _ _ _ R) as [Q|Q]; [|exact Q]. exfalso. apply (rq_coh _ _ _ _ R); [congruence|exact Q]. }
  assert (SF : slack_free_b st = false -> s_dim st <> clen E).
  { intros Q C. assert (slack = []) as S0 by (apply lenZ_zero_nil; rewrite (rq_dim _ _ _ _ R) in C; lia).
    apply (slack_free_spec st f E slack R) in S0. congruence. }
  destruct rv; unfold full_read_pre in PRE; rewrite ?M in PRE; cbn [is_none orb] in PRE; try discriminate.
  - destruct (Z.eqb_spec (s_type st) MIXED) as [TM|TM]; cbn [orb] in PRE.
    + rewrite (poly_count st f E slack); auto; [|congruence]. rewrite M. pose proof (SF PRE). zb. reflexivity.
    + destruct (is_size_t (s_dt st)) eqn:DT; cbn [andb] in PRE.
      * rewrite (poly_count st f E slack) by auto. rewrite M. pose proof (SF PRE). zb. reflexivity.
      * (* NGON_n / NFACE_n stored as I4: the cached offsets are ignored, "missing ElementStartOffset" *)
        unfold element_data_size. destruct (Z.eqb_spec (s_type st) MIXED); [contradiction|].
        assert (TT : (s_type st =? NGON_n) || (s_type st =? NFACE_n) = true).
        { pose proof (rq_type _ _ _ _ R) as TP. unfold is_poly_type in TP.
          destruct (Z.eqb_spec (s_type st) MIXED); [contradiction|]. exact TP. }
        rewrite TT, M. reflexivity.
  - rewrite (poly_count st f E slack) by auto. rewrite M. pose proof (SF PRE). zb. reflexivity.
Qed.

(* ---- 7. what (connectivity, start offsets) say about the elements --------------------------------------------------- *)
Record represents (data offs : list Z) (S : list (list Z)) : Prop := mkRepr {
  rp_len : lenZ offs = lenZ S + 1;
  rp_first : nthZ offs 0 0 = 0;
  rp_last : nthZ offs (lenZ S) 0 = lenZ data;
  rp_mono : forall i, 0 <= i < lenZ S -> nthZ offs i 0 < nthZ offs (i + 1) 0;
  rp_elem : forall i, 0 <= i < lenZ S ->
            slice data (nthZ offs i 0) (nthZ offs (i + 1) 0 - nthZ offs i 0) = nthZ S i []
}.

Lemma firstn1_skipn {A} (S : list A) k d : (k < length S)%nat -> firstn 1 (skipn k S) = [nth k S d].
Proof.
  revert k. induction S as [|x S IH]; intros k Hk; simpl in Hk; [lia|]. destruct k; [reflexivity|].
  simpl. apply IH. lia.
Qed.

Lemma clen_single x : clen [x] = lenZ x.
Proof. unfold clen. cbn [concat]. now rewrite app_nil_r. Qed.

Lemma offs_step S i : 0 <= i < lenZ S ->
  nthZ (offs_from 0 S) i 0 = clen (firstn (Z.to_nat i) S) /\
  nthZ (offs_from 0 S) (i + 1) 0 = clen (firstn (Z.to_nat i) S) + lenZ (nthZ S i []) /\
  slice (concat S) (nthZ (offs_from 0 S) i 0) (nthZ (offs_from 0 S) (i + 1) 0 - nthZ (offs_from 0 S) i 0) = nthZ S i [].
Proof.
  intros Hi. rewrite !nthZ_offs_from by lia.
  replace (Z.to_nat (i + 1)) with (Z.to_nat i + 1)%nat by lia.
  rewrite firstn_plus, clen_app, (firstn1_skipn S (Z.to_nat i) []) by (unfold lenZ in *; lia).
  assert (NT : nthZ S i [] = nth (Z.to_nat i) S []) by (unfold nthZ; zb; reflexivity).
  rewrite NT, clen_single.
  split; [lia|]. split; [lia|].
  rewrite <- (app_nil_r (concat S)).
  rewrite (slice_conn_mid S [] (Z.to_nat i) 1); [|lia|].
  - rewrite (firstn1_skipn S (Z.to_nat i) []) by (unfold lenZ in *; lia). cbn [concat]. apply app_nil_r.
  - rewrite (firstn1_skipn S (Z.to_nat i) []) by (unfold lenZ in *; lia). rewrite clen_single. lia.
Qed.

Theorem represents_canonical S : nonempty_all S -> represents (concat S) (offs_from 0 S) S.
Proof.
  intros A. constructor.
  - apply offs_from_length.
  - apply nthZ_offs_from_0.
  - rewrite nthZ_offs_from_last. unfold clen. lia.
  - intros i Hi. destruct (offs_step S i Hi) as (O1 & O2 & _). rewrite O1, O2.
    assert (nthZ S i [] <> []).
    { unfold nthZ. zb. unfold nonempty_all in A. rewrite Forall_forall in A. apply A, nth_In. unfold lenZ in *. lia. }
    pose proof (nonempty_len _ H). lia.
  - intros i Hi. apply (offs_step S i Hi).
Qed.

(* the decoder of Properties_C10.chunks (same text): elements cut out of the connectivity by the offsets *)
Definition chunks_ (data offs : list Z) : list (list Z) :=
  map (fun k => slice data (nthZ offs (Z.of_nat k) 0) (nthZ offs (Z.of_nat k + 1) 0 - nthZ offs (Z.of_nat k) 0))
      (seq 0 (length offs - 1)).
Lemma chunks_canonical S : chunks_ (concat S) (offs_from 0 S) = S.
Proof.
  assert (L : (length (offs_from 0 S) - 1 = length S)%nat)
    by (pose proof (offs_from_length 0 S); unfold lenZ in *; lia).
  unfold chunks_. rewrite L. apply (list_ext _ _ []).
  - now rewrite map_length, seq_length.
  - intros k Hk. rewrite map_length, seq_length in Hk. rewrite nth_map_seq by exact Hk.
    destruct (offs_step S (Z.of_nat k)) as (_ & _ & SL); [unfold lenZ; lia|]. rewrite SL.
    unfold nthZ. zb. now rewrite Nat2Z.id.
Qed.

Lemma fold_offs l : forall pre x,
  fold_left (fun acc (e : list Z) => acc ++ [last acc 0 + lenZ e]) l (pre ++ [x]) = pre ++ offs_from x l.
Proof.
  induction l as [|e l IH]; intros pre x; [reflexivity|].
  cbn [fold_left offs_from]. rewrite last_last, IH, <- app_assoc. reflexivity.
Qed.

(* Properties_C10.C10_poly_write_is_splice_full, verbatim (it was kept there as an unproved Definition) *)
Theorem poly_full_statement :
  forall type f E s N, (type = MIXED \/ type = NGON_n \/ type = NFACE_n) -> E <> [] -> N <> [] ->
    Forall (fun e => e <> []) E -> Forall (fun e => e <> []) N ->
    let offs l := fold_left (fun acc e => acc ++ [last acc 0 + lenZ e]) l [0] in
    exists data o, poly_splice type f (f + lenZ E - 1) s (s + lenZ N - 1) (concat E) (offs E) (concat N) (offs N)
                   = Some (Some (data, o)) /\
                   chunks_ data o = splice (if type =? MIXED then [NODE; 0] else [0; 0]) f E s N.
Proof.
  intros type f E s N _ HE HN _ _ offs. subst offs. cbv beta.
  rewrite !(fold_offs _ [] 0). cbn [app].
  replace (if type =? MIXED then [NODE; 0] else [0; 0]) with (ph_of type)
    by (unfold ph_of; destruct (type =? MIXED); reflexivity).
  exists (concat (splice (ph_of type) f E s N)), (offs_from 0 (splice (ph_of type) f E s N)).
  split; [|apply chunks_canonical].
  rewrite <- (app_nil_r (concat E)). now apply poly_splice_is_splice.
Qed.

(* poly_splice level, everything the property says about a variable-size write in one statement *)
Theorem poly_splice_represents type f E s N slack :
  E <> [] -> N <> [] -> nonempty_all E -> nonempty_all N ->
  exists data offs,
    poly_splice type f (f + lenZ E - 1) s (s + lenZ N - 1) (concat E ++ slack) (offs_from 0 E) (concat N) (offs_from 0 N)
    = Some (Some (data, offs)) /\
    represents data offs (splice (ph_of type) f E s N).
Proof.
  intros HE HN AE AN. eexists. eexists. split; [now apply poly_splice_is_splice|].
  apply represents_canonical. apply splice_nonempty_all; auto. discriminate.
Qed.

(* ---- 8. the in-place fast path: when it is taken, and that it computes what the general path computes -------------- *)
(* the result of the fast path is the result of the in-memory splice (connectivity AND recomputed start offsets),
   written into the node in place: the slack, the dimension and the range stay, the connectivity is not cached *)
Theorem poly_inplace_eq_general pv st f E slack start N mt :
  rep_poly st f E slack -> s_par st = None -> N <> [] -> nonempty_all N ->
  s_conn_mem st = None -> f <= start -> start + lenZ N - 1 <= f + lenZ E - 1 ->
  clen (slice_elems f E start (start + lenZ N - 1)) = clen N ->
  exists st' data offs,
    poly_elements_general_write pv st start (start + lenZ N - 1) mt (concat N) (offs_from 0 N) = ROk st' /\
    poly_splice (s_type st) f (f + lenZ E - 1) start (start + lenZ N - 1) (concat E ++ slack) (offs_from 0 E)
                (concat N) (offs_from 0 N) = Some (Some (data, offs)) /\
    s_conn st' = data ++ slack /\ s_off st' = offs /\
    (s_off_mem st' = None \/ s_off_mem st' = Some offs) /\
    s_conn_mem st' = None /\ s_dim st' = s_dim st /\ s_r0 st' = s_r0 st /\ s_r1 st' = s_r1 st /\
    lenZ data = clen E.
Proof.
  intros R Hpar HN AN Hmem H1 H2 HC.
  destruct (poly_write_inplace pv st f E slack start N mt R Hpar HN AN Hmem H1 H2 HC) as (st' & W & R' & M' & D' & _).
  exists st', (concat (splice (ph_of (s_type st)) f E start N)), (offs_from 0 (splice (ph_of (s_type st)) f E start N)).
  split; [exact W|]. split; [apply poly_splice_is_splice; auto; apply R|].
  split; [apply R'|]. split; [apply R'|]. split; [apply R'|]. split; [exact M'|]. split; [exact D'|].
  split; [rewrite (rq_r0 _ _ _ _ R'), (rq_r0 _ _ _ _ R); reflexivity|].
  pose proof (rq_dim _ _ _ _ R') as D1. pose proof (rq_dim _ _ _ _ R) as D2.
  pose proof (splice_lenZ (ph_of (s_type st)) f E start N (rq_ne _ _ _ _ R) HN) as SL.
  unfold splice_hi, splice_lo in SL. pose proof (nonempty_len N HN).
  split; [rewrite (rq_r1 _ _ _ _ R'), (rq_r1 _ _ _ _ R), SL; lia|].
  rewrite lenZ_concat. lia.
Qed.

(* WHEN the fast path is taken, in terms of the section and the request: exactly when the range is inside the stored
   range, the connectivity is not cached and the replaced elements have the same total size as the new ones.  The
   right-hand side is the observable signature of the fast path (node not cached afterwards, dimension and total
   size unchanged); the relocating path changes the total size, the in-memory path caches. *)
Theorem poly_inplace_iff pv st f E slack start N mt st' :
  rep_poly st f E slack -> s_par st = None -> N <> [] -> nonempty_all N ->
  poly_elements_general_write pv st start (start + lenZ N - 1) mt (concat N) (offs_from 0 N) = ROk st' ->
  (s_conn_mem st = None /\ f <= start /\ start + lenZ N - 1 <= f + lenZ E - 1 /\
   clen (slice_elems f E start (start + lenZ N - 1)) = clen N)
  <-> (s_conn_mem st' = None /\ s_dim st' = s_dim st /\ clen (splice (ph_of (s_type st)) f E start N) = clen E).
Proof.
  intros R Hpar HN AN W. split.
  - intros (Hmem & H1 & H2 & HC).
    destruct (poly_write_inplace pv st f E slack start N mt R Hpar HN AN Hmem H1 H2 HC) as (st2 & W2 & R2 & M2 & D2 & _).
    rewrite W in W2. inversion W2; subst st2. split; [exact M2|]. split; [exact D2|].
    pose proof (rq_dim _ _ _ _ R2). pose proof (rq_dim _ _ _ _ R). lia.
  - intros (M' & D' & CS).
    assert (NM : forall st2, poly_elements_general_write pv st start (start + lenZ N - 1) mt (concat N) (offs_from 0 N) = ROk st2 ->
                 s_conn_mem st2 <> None -> False) by (intros st2 W2 Q; rewrite W in W2; inversion W2; subst; auto).
    destruct (s_conn_mem st) eqn:Hmem.
    { destruct (poly_write_inmemory pv st f E slack start N mt R Hpar HN AN) as (st2 & W2 & _ & Q & _);
        [left; congruence|]. destruct (NM st2 W2 Q). }
    destruct (Z.lt_ge_cases start f) as [C1|C1].
    { destruct (poly_write_inmemory pv st f E slack start N mt R Hpar HN AN) as (st2 & W2 & _ & Q & _); [auto|].
      destruct (NM st2 W2 Q). }
    destruct (Z.lt_ge_cases (f + lenZ E - 1) (start + lenZ N - 1)) as [C2|C2].
    { destruct (poly_write_inmemory pv st f E slack start N mt R Hpar HN AN) as (st2 & W2 & _ & Q & _); [auto|].
      destruct (NM st2 W2 Q). }
    split; [reflexivity|]. split; [lia|]. split; [lia|].
    destruct (inside_decomp (ph_of (s_type st)) f E start N (rq_ne _ _ _ _ R) HN C1 C2)
      as (Hd & Mid & T & EQ & HL & HS & HM & SP).
    rewrite HM. rewrite SP in CS. rewrite EQ in CS. rewrite !clen_app in CS. lia.
Qed.

(* the offsets of the addressed range MUST be recomputed although the total size is unchanged: same-size elements
   with different individual sizes move the boundaries (the seeded change C10-1 dropped this) *)
Lemma inplace_offsets_change :
  let E := [[1;2;3]; [4;5;6;7]; [8;9;10]] in let N := [[21;22;23;24]; [25;26;27]] in
  clen (slice_elems 10 E 10 11) = clen N /\
  offs_from 0 (splice [0;0] 10 E 10 N) <> offs_from 0 E.
Proof. split; [reflexivity|]. vm_compute. discriminate. Qed.

(* ---- 9. witnesses -------------------------------------------------------------------------------------------------- *)
(* an NGON_n section 10..12 with elements of sizes 3 4 3, as cg_poly_section_write + reopen leave it *)
Definition ngon_state : section := mkS 22 I8 10 12 10 ngon3 None true 4 ngon_off None None.
Lemma ngon_state_rep : rep_poly ngon_state 10 [[1;2;3]; [4;5;6;7]; [8;9;10]] [].
Proof.
  constructor; try reflexivity; cbn; auto; try discriminate.
  repeat constructor; discriminate.
Qed.

(* space reserved by cg_section_general_write (14 values for 2 placeholder elements), node cached by a partial read *)
Definition slack_state : section :=
  mkS 22 I4 1 2 14 ([0;0;0;0] ++ repeat undef 10) (Some ([0;0;0;0] ++ repeat undef 10)) true 3 [0;2;4] (Some [0;2;4]) None.
Lemma slack_state_rep : rep_poly slack_state 1 [[0;0]; [0;0]] (repeat undef 10).
Proof.
  constructor; try reflexivity; cbn; auto; try discriminate.
  repeat constructor; discriminate.
Qed.
Lemma slack_state_reachable :
  exists o, run PFixed RCurrent None [OSecGeneralWrite 22 I4 1 2 14; OPolyPartialRead 1 2 false] = ROk (Some slack_state, o).
Proof. eexists. vm_compute. reflexivity. Qed.
Lemma slack_state_outside : full_read_pre RCurrent slack_state = false.
Proof. reflexivity. Qed.

(* the statement "the full read answers every represented section", per variant; RFixed: proved, RCurrent: refuted *)
Definition poly_full_read_total (rv : rvariant) : Prop :=
  forall st f E slack, rep_poly st f E slack -> elems_ok (s_type st) E -> poly_elements_read rv st false <> RErr.
Lemma poly_full_read_total_fixed : poly_full_read_total RFixed.
Proof. intros st f E slack R OK. rewrite (poly_full_read RFixed st f E slack R OK eq_refl). discriminate. Qed.
Lemma poly_full_read_total_current_refuted : ~ poly_full_read_total RCurrent.
Proof.
  intros H. apply (H slack_state 1 [[0;0];[0;0]] (repeat undef 10) slack_state_rep).
  - intros Q. discriminate Q.
  - reflexivity.
Qed.

(* input offsets that do not start at 0: the "before" / "front" branches memcpy them as they are, the stored
   ElementStartOffset then does not start at 0 (hypothesis of the write theorems: offs_from 0 N) *)
Lemma nonzero_base_refuted :
  exists data offs, poly_splice 22 10 12 6 7 ngon3 ngon_off [21;22;23;24;25;26] [5;8;11] = Some (Some (data, offs)) /\
                    nthZ offs 0 0 <> 0 /\ nthZ offs 7 0 <> lenZ data.
Proof. eexists. eexists. split; [vm_compute; reflexivity|]. split; vm_compute; discriminate. Qed.

(* ---- 10. state level: what a represented section's nodes say; write followed by read ------------------------------- *)
Lemma rep_poly_represents st f E slack :
  rep_poly st f E slack ->
  represents (firstn (Z.to_nat (clen E)) (s_conn st)) (s_off st) E /\
  s_r1 st - s_r0 st + 1 = lenZ E /\ lenZ (s_conn st) = s_dim st /\ clen E <= s_dim st /\
  (slack = [] -> s_conn st = concat E /\ s_dim st = clen E).
Proof.
  intros R. rewrite (rq_conn _ _ _ _ R), (rq_off _ _ _ _ R), (rq_r0 _ _ _ _ R), (rq_r1 _ _ _ _ R), (rq_dim _ _ _ _ R).
  pose proof (lenZ_nonneg slack).
  replace (Z.to_nat (clen E)) with (length (concat E)) by (unfold clen, lenZ; lia). rewrite firstn_app_len.
  split; [apply represents_canonical, R|]. split; [lia|]. split; [lens2; lia|]. split; [lia|].
  intros ->. rewrite app_nil_r, lenZ_nil. split; [reflexivity|lia].
Qed.

Corollary poly_write_then_read pv st f E slack start N mt a b :
  rep_poly st f E slack -> s_par st = None -> N <> [] -> nonempty_all N ->
  Z.min f start <= a -> a <= b -> b <= Z.max (f + lenZ E - 1) (start + lenZ N - 1) ->
  exists st' st'',
    poly_elements_general_write pv st start (start + lenZ N - 1) mt (concat N) (offs_from 0 N) = ROk st' /\
    let S := slice_elems (Z.min f start) (splice (ph_of (s_type st)) f E start N) a b in
    poly_elements_partial_read st' a b false = ROk (st'', [concat S; offs_from 0 S]) /\
    poly_elements_general_read st' a b mt = ROk (st', [concat S; offs_from 0 S]).
Proof.
  intros R Hpar HN AN Ha Hab Hb.
  destruct (poly_write_is_splice pv st f E slack start N mt R Hpar HN AN) as (st' & sl & W & R' & _).
  assert (HB : b <= Z.min f start + lenZ (splice (ph_of (s_type st)) f E start N) - 1).
  { rewrite splice_lenZ by (auto; apply R). unfold splice_hi, splice_lo. lia. }
  destruct (poly_partial_read_is_slice st' _ _ sl a b R' Ha Hab HB) as (st'' & RD & _).
  exists st', st''. split; [exact W|]. split; [exact RD|].
  now apply (poly_general_read_is_slice st' _ _ sl).
Qed.
