(* ElemSplicePolyProofs.v -- C10b: the variable-size (MIXED / NGON_n / NFACE_n) path of ElemSplice.v, proved for
   ALL sections, ALL ranges, ALL element sizes.

   SPEC (shared with ElemSpliceProofs.v): a section is (first, list of elements), an element is the list of its
   connectivity values; [splice ph f E s N] is the pointwise element-level splice, [slice_elems f E a b] the slice.
   A variable-size section is stored as (concat E, offs_from 0 E): connectivity + ElementStartOffset.

   Contents
   1. library: offs_from / offs_init, slices of a concat by offsets, exact-position memcpy / file_write / file_read
   2. the loops of cg_poly_elements_general_write: accum_offsets, gap_fill, shift_offsets
   3. poly_splice (the in-memory path) = splice, for every relative position          [poly_splice_is_splice]
   4. the representation invariant rep_poly and the three paths of poly_elements_general_write
      (in place / relocate inside the reserved size / in memory)                          [poly_write_is_splice]
   5. histories                                                                         [poly_history_is_splice]
   6. reads: partial (file / cache), general, full (with the reserved-slack hypothesis and its refutation) *)
From Coq Require Import ZArith List Bool Lia.
From CgnsV Require Import ListX ElemSplice ElemSpliceProofs.
Import ListNotations.
Local Open Scope Z_scope.

(* decide every Z comparison of the goal that lia can decide from the context *)
Ltac zb := repeat match goal with
  | |- context [?a <? ?b] => first [ destruct (Z.ltb_spec a b); [lia|] | destruct (Z.ltb_spec a b); [|lia] ]
  | |- context [?a <=? ?b] => first [ destruct (Z.leb_spec a b); [lia|] | destruct (Z.leb_spec a b); [|lia] ]
  | |- context [?a =? ?b] => first [ destruct (Z.eqb_spec a b); [lia|] | destruct (Z.eqb_spec a b); [|lia] ]
  end.

(* ---- 1. library ------------------------------------------------------------------------------------------------- *)
Definition clen (E : list (list Z)) : Z := lenZ (concat E).

(* start offsets of the elements of E when the first one starts at b: |E| + 1 entries *)
Fixpoint offs_from (b : Z) (E : list (list Z)) : list Z :=
  match E with [] => [b] | e :: r => b :: offs_from (b + lenZ e) r end.
(* the same without the last entry: |E| entries *)
Fixpoint offs_init (b : Z) (E : list (list Z)) : list Z :=
  match E with [] => [] | e :: r => b :: offs_init (b + lenZ e) r end.

Definition nonempty_all (E : list (list Z)) : Prop := Forall (fun e => e <> []) E.

Lemma clen_nil : clen [] = 0.
Proof. reflexivity. Qed.
Lemma clen_cons e E : clen (e :: E) = lenZ e + clen E.
Proof. unfold clen. simpl. apply lenZ_app. Qed.
Lemma clen_app A B : clen (A ++ B) = clen A + clen B.
Proof. unfold clen. rewrite concat_app. apply lenZ_app. Qed.
Lemma clen_nonneg E : 0 <= clen E.
Proof. apply lenZ_nonneg. Qed.

Lemma lenZ_cons {A} (x : A) l : lenZ (x :: l) = 1 + lenZ l.
Proof. unfold lenZ. simpl length. lia. Qed.
Lemma lenZ_nil {A} : lenZ (@nil A) = 0.
Proof. reflexivity. Qed.
Ltac lens := repeat rewrite ?lenZ_app, ?lenZ_cons, ?lenZ_nil.

Lemma offs_from_length b E : lenZ (offs_from b E) = lenZ E + 1.
Proof. revert b. induction E as [|e E IH]; intros b; cbn [offs_from]; [reflexivity|]. rewrite !lenZ_cons, IH. lia. Qed.
Lemma offs_init_length b E : lenZ (offs_init b E) = lenZ E.
Proof. revert b. induction E as [|e E IH]; intros b; cbn [offs_init]; [reflexivity|]. rewrite !lenZ_cons, IH. lia. Qed.

Lemma offs_from_init b E : offs_from b E = offs_init b E ++ [b + clen E].
Proof.
  revert b. induction E as [|e E IH]; intros b; simpl.
  - rewrite clen_nil. f_equal. lia.
  - rewrite IH, clen_cons. simpl. do 3 f_equal. lia.
Qed.
Lemma offs_from_app b A B : offs_from b (A ++ B) = offs_init b A ++ offs_from (b + clen A) B.
Proof.
  revert b. induction A as [|a A IH]; intros b; simpl.
  - rewrite clen_nil. f_equal. lia.
  - rewrite IH, clen_cons. do 3 f_equal. lia.
Qed.
Lemma offs_init_app b A B : offs_init b (A ++ B) = offs_init b A ++ offs_init (b + clen A) B.
Proof.
  revert b. induction A as [|a A IH]; intros b; simpl.
  - rewrite clen_nil. f_equal. lia.
  - rewrite IH, clen_cons. do 3 f_equal. lia.
Qed.
Lemma offs_from_hd b E : offs_from b E = b :: tl (offs_from b E).
Proof. destruct E; reflexivity. Qed.
(* two-sided: the offsets of A ++ B are those of A followed by those of B without their first entry *)
Lemma offs_from_app_tl b A B : offs_from b (A ++ B) = offs_from b A ++ tl (offs_from (b + clen A) B).
Proof.
  rewrite offs_from_app, (offs_from_init b A), (offs_from_hd (b + clen A) B), <- app_assoc. reflexivity.
Qed.
Lemma offs_shift d b E : map (fun v => v + d) (offs_from b E) = offs_from (b + d) E.
Proof.
  revert b. induction E as [|e E IH]; intros b; simpl; [reflexivity|]. rewrite IH. do 2 f_equal. lia.
Qed.
Lemma offs_shift_tl d b E : map (fun v => v + d) (tl (offs_from b E)) = tl (offs_from (b + d) E).
Proof. rewrite <- offs_shift. destruct E; reflexivity. Qed.

Lemma nthZ_app_at {A} (pre : list A) x rest d : nthZ (pre ++ x :: rest) (lenZ pre) d = x.
Proof.
  unfold nthZ, lenZ. destruct (Z.ltb_spec (Z.of_nat (length pre)) 0); [lia|].
  rewrite Nat2Z.id. rewrite app_nth2 by lia. now rewrite Nat.sub_diag.
Qed.
Lemma upd_app_at {A} (pre : list A) x rest v : upd (pre ++ x :: rest) (length pre) v = pre ++ v :: rest.
Proof. induction pre as [|p pre IH]; simpl; [reflexivity|]. now rewrite IH. Qed.
Lemma updZ_app_at {A} (pre : list A) x rest v : updZ (pre ++ x :: rest) (lenZ pre) v = pre ++ v :: rest.
Proof.
  unfold updZ, lenZ. destruct (Z.ltb_spec (Z.of_nat (length pre)) 0); [lia|].
  rewrite Nat2Z.id. apply upd_app_at.
Qed.

Lemma firstn_app_len {A} (a b : list A) : firstn (length a) (a ++ b) = a.
Proof. now apply firstn_app_exact. Qed.
Lemma skipn_app_len {A} (a b : list A) : skipn (length a) (a ++ b) = b.
Proof. now apply skipn_app_exact. Qed.
Lemma to_nat_lenZ {A} (l : list A) : Z.to_nat (lenZ l) = length l.
Proof. unfold lenZ. apply Nat2Z.id. Qed.
Lemma lenZ_skipnZ {A} (l : list A) n : 0 <= n <= lenZ l -> lenZ (skipn (Z.to_nat n) l) = lenZ l - n.
Proof. intros. rewrite lenZ_skipn. unfold lenZ in *. lia. Qed.
Lemma lenZ_firstnZ {A} (l : list A) n : 0 <= n <= lenZ l -> lenZ (firstn (Z.to_nat n) l) = n.
Proof. intros. rewrite lenZ_firstn by (unfold lenZ in *; lia). lia. Qed.
Lemma lenZ_zero_nil {A} (l : list A) : lenZ l = 0 -> l = [].
Proof. destruct l; [reflexivity|]. rewrite lenZ_cons. pose proof (lenZ_nonneg l). lia. Qed.

(* slice / memcpy / file access at an exactly known position *)
Lemma slice_at (pre mid post : list Z) off n :
  off = lenZ pre -> n = lenZ mid -> slice (pre ++ mid ++ post) off n = mid.
Proof.
  intros -> ->. unfold slice. rewrite !to_nat_lenZ, skipn_app_len. apply firstn_app_len.
Qed.
Lemma slice_at0 (mid post : list Z) n : n = lenZ mid -> slice (mid ++ post) 0 n = mid.
Proof. intros. now apply (slice_at [] mid post). Qed.

Lemma memcpy_at pre rest off src soff n :
  off = lenZ pre -> 0 <= n <= lenZ rest -> 0 <= soff -> soff + n <= lenZ src ->
  memcpy (pre ++ rest) off src soff n = Some (pre ++ slice src soff n ++ skipn (Z.to_nat n) rest).
Proof.
  intros -> Hn Hs Hsrc. unfold memcpy. pose proof (lenZ_nonneg pre).
  rewrite lenZ_app.
  destruct (Z.ltb_spec n 0); [lia|]. destruct (Z.ltb_spec (lenZ pre) 0); [lia|].
  destruct (Z.ltb_spec soff 0); [lia|]. destruct (Z.ltb_spec (lenZ pre + lenZ rest) (lenZ pre + n)); [lia|].
  destruct (Z.ltb_spec (lenZ src) (soff + n)); [lia|]. simpl.
  rewrite to_nat_lenZ, firstn_app_len. do 3 f_equal.
  replace (Z.to_nat (lenZ pre + n)) with (length pre + Z.to_nat n)%nat by (unfold lenZ; lia).
  rewrite skipn_app, skipn_all2 by lia. simpl. f_equal. lia.
Qed.
Lemma memcpy_at0 rest src soff n :
  0 <= n <= lenZ rest -> 0 <= soff -> soff + n <= lenZ src ->
  memcpy rest 0 src soff n = Some (slice src soff n ++ skipn (Z.to_nat n) rest).
Proof. intros. now apply (memcpy_at [] rest 0). Qed.

Lemma file_write_at (pre mid post data new : list Z) a b :
  a = lenZ pre + 1 -> b = lenZ pre + lenZ mid -> 0 < lenZ mid -> firstn (length mid) data = new ->
  file_write (pre ++ mid ++ post) a b data = Some (pre ++ new ++ post).
Proof.
  intros -> -> Hm Hd. unfold file_write. pose proof (lenZ_nonneg pre). pose proof (lenZ_nonneg post).
  rewrite !lenZ_app.
  destruct (Z.ltb_spec (lenZ pre + 1) 1); [lia|].
  destruct (Z.ltb_spec (lenZ pre + lenZ mid) (lenZ pre + 1)); [lia|].
  destruct (Z.ltb_spec (lenZ pre + (lenZ mid + lenZ post)) (lenZ pre + lenZ mid)); [lia|]. simpl.
  replace (lenZ pre + 1 - 1) with (lenZ pre) by lia. rewrite to_nat_lenZ, firstn_app_len.
  replace (Z.to_nat (lenZ pre + lenZ mid - (lenZ pre + 1) + 1)) with (length mid) by (unfold lenZ; lia).
  rewrite Hd. do 3 f_equal.
  replace (Z.to_nat (lenZ pre + lenZ mid)) with (length pre + length mid)%nat by (unfold lenZ; lia).
  rewrite skipn_app, skipn_all2 by lia. simpl.
  replace (length pre + length mid - length pre)%nat with (length mid) by lia. apply skipn_app_len.
Qed.
Lemma file_read_at (pre mid post : list Z) a b :
  a = lenZ pre + 1 -> b = lenZ pre + lenZ mid -> 0 < lenZ mid ->
  file_read (pre ++ mid ++ post) a b = Some mid.
Proof.
  intros -> -> Hm. unfold file_read. pose proof (lenZ_nonneg pre). pose proof (lenZ_nonneg post).
  rewrite !lenZ_app.
  destruct (Z.ltb_spec (lenZ pre + 1) 1); [lia|].
  destruct (Z.ltb_spec (lenZ pre + lenZ mid) (lenZ pre + 1)); [lia|].
  destruct (Z.ltb_spec (lenZ pre + (lenZ mid + lenZ post)) (lenZ pre + lenZ mid)); [lia|]. simpl.
  f_equal. apply slice_at; lia.
Qed.

(* elements i .. i+k-1 of E, and the three-way decomposition of E around them *)
Lemma skipn_skipn' {A} (l : list A) i k : skipn k (skipn i l) = skipn (i + k) l.
Proof. revert l. induction i as [|i IH]; intros l; simpl; [reflexivity|]. destruct l; [now rewrite skipn_nil|apply IH]. Qed.
Lemma three_way {A} (E : list A) i k : E = firstn i E ++ firstn k (skipn i E) ++ skipn (i + k) E.
Proof. rewrite <- skipn_skipn'. now rewrite !firstn_skipn. Qed.
Lemma firstn_plus {A} (E : list A) i k : firstn (i + k) E = firstn i E ++ firstn k (skipn i E).
Proof.
  revert E. induction i as [|i IH]; intros E; simpl; [reflexivity|]. destruct E; [now rewrite firstn_nil|].
  simpl. now rewrite IH.
Qed.

Lemma nthZ_offs_from b E k d : 0 <= k <= lenZ E -> nthZ (offs_from b E) k d = b + clen (firstn (Z.to_nat k) E).
Proof.
  intros Hk. rewrite <- (firstn_skipn (Z.to_nat k) E) at 1. rewrite offs_from_app.
  assert (L : lenZ (offs_init b (firstn (Z.to_nat k) E)) = k)
    by (rewrite offs_init_length; apply lenZ_firstnZ; lia).
  rewrite (offs_from_hd _ (skipn _ E)).
  set (P := offs_init b (firstn (Z.to_nat k) E)) in *. rewrite <- L. apply nthZ_app_at.
Qed.
Lemma nthZ_offs_from_0 b E d : nthZ (offs_from b E) 0 d = b.
Proof. destruct E; reflexivity. Qed.
Lemma nthZ_offs_from_last b E d : nthZ (offs_from b E) (lenZ E) d = b + clen E.
Proof.
  rewrite nthZ_offs_from by (pose proof (lenZ_nonneg E); lia). now rewrite to_nat_lenZ, firstn_all.
Qed.

Lemma offs_from_split b E k : offs_from b E = offs_init b (firstn k E) ++ offs_from (b + clen (firstn k E)) (skipn k E).
Proof. rewrite <- (firstn_skipn k E) at 1. apply offs_from_app. Qed.

(* the first k+1 offsets are the offsets of the first k elements *)
Lemma slice_offs_head b E k : (k <= length E)%nat ->
  slice (offs_from b E) 0 (Z.of_nat k + 1) = offs_from b (firstn k E).
Proof.
  intros Hk. rewrite (offs_from_split b E k), (offs_from_hd _ (skipn k E)).
  rewrite (offs_from_init b (firstn k E)).
  replace (offs_init b (firstn k E) ++ (b + clen (firstn k E)) :: tl (offs_from (b + clen (firstn k E)) (skipn k E)))
    with ((offs_init b (firstn k E) ++ [b + clen (firstn k E)]) ++ tl (offs_from (b + clen (firstn k E)) (skipn k E)))
    by (now rewrite <- app_assoc).
  apply slice_at0. rewrite lenZ_app, offs_init_length, lenZ_cons, lenZ_nil.
  unfold lenZ. rewrite firstn_length. lia.
Qed.
(* offsets i .. i+k are the offsets of the elements i .. i+k-1 *)
Lemma slice_offs_mid b E i k : (i + k <= length E)%nat ->
  slice (offs_from b E) (Z.of_nat i) (Z.of_nat k + 1)
  = offs_from (b + clen (firstn i E)) (firstn k (skipn i E)).
Proof.
  intros Hik. rewrite (offs_from_split b E i).
  rewrite (offs_from_split _ (skipn i E) k), (offs_from_hd _ (skipn k (skipn i E))).
  rewrite (offs_from_init _ (firstn k (skipn i E))).
  set (M := firstn k (skipn i E)). set (c := b + clen (firstn i E)).
  replace (offs_init c M ++ (c + clen M) :: tl (offs_from (c + clen M) (skipn k (skipn i E))))
    with ((offs_init c M ++ [c + clen M]) ++ tl (offs_from (c + clen M) (skipn k (skipn i E))))
    by (now rewrite <- app_assoc).
  apply slice_at.
  - rewrite offs_init_length. unfold lenZ. rewrite firstn_length. lia.
  - rewrite lenZ_app, offs_init_length, lenZ_cons, lenZ_nil. subst M. unfold lenZ.
    rewrite firstn_length, skipn_length. lia.
Qed.

(* slices of the connectivity (followed by any slack) at offsets *)
Lemma slice_conn_head E slack k n : n = clen (firstn k E) -> slice (concat E ++ slack) 0 n = concat (firstn k E).
Proof.
  intros ->. rewrite <- (firstn_skipn k E) at 1. rewrite concat_app, <- app_assoc. now apply slice_at0.
Qed.
Lemma slice_conn_mid E slack i k off n :
  off = clen (firstn i E) -> n = clen (firstn k (skipn i E)) ->
  slice (concat E ++ slack) off n = concat (firstn k (skipn i E)).
Proof.
  intros -> ->. rewrite (three_way E i k) at 1. rewrite !concat_app, <- !app_assoc. now apply slice_at.
Qed.
Lemma slice_conn_tail E slack i off n :
  off = clen (firstn i E) -> n = clen (skipn i E) -> slice (concat E ++ slack) off n = concat (skipn i E).
Proof.
  intros -> ->. rewrite <- (firstn_skipn i E) at 1. rewrite concat_app, <- app_assoc. now apply slice_at.
Qed.
Lemma clen_split E k : clen E = clen (firstn k E) + clen (skipn k E).
Proof. rewrite <- clen_app. now rewrite firstn_skipn. Qed.

Lemma nonempty_all_clen E : nonempty_all E -> lenZ E <= clen E.
Proof.
  induction 1 as [|e E He HE IH]; [reflexivity|]. rewrite clen_cons, lenZ_cons.
  pose proof (nonempty_len e He). lia.
Qed.
Lemma nonempty_all_firstn E k : nonempty_all E -> nonempty_all (firstn k E).
Proof. unfold nonempty_all. revert k. induction E; intros [|k] H; simpl; auto. inversion H; subst. constructor; auto. Qed.
Lemma nonempty_all_skipn E k : nonempty_all E -> nonempty_all (skipn k E).
Proof. unfold nonempty_all. revert k. induction E; intros [|k] H; simpl; auto. inversion H; subst. auto. Qed.
Lemma nonempty_all_app A B : nonempty_all A -> nonempty_all B -> nonempty_all (A ++ B).
Proof. intros. apply Forall_app. split; auto. Qed.
Lemma nonempty_all_repeat e k : e <> [] -> nonempty_all (repeat e k).
Proof. intros. induction k; simpl; constructor; auto. Qed.

(* ---- 2. the loops ----------------------------------------------------------------------------------------------- *)
(* for (ii = from; ii < to; ii++) { newoffsets[j+1] = (src[ii+1] - src[ii]) + newoffsets[j]; j++; }
   src holds the offsets of the elements M from position ii on, the destination holds x at position j:
   the |M| entries after j become the offsets of M rebased to x, everything else is untouched. *)
Lemma accum_offsets_spec M : forall pre x rest sp b ss j ii,
  j = lenZ pre -> ii = lenZ sp -> lenZ M <= lenZ rest ->
  accum_offsets (length M) (pre ++ x :: rest) j (sp ++ offs_from b M ++ ss) ii
  = Some (pre ++ offs_from x M ++ skipn (length M) rest, j + lenZ M).
Proof.
  induction M as [|m M IH]; intros pre x rest sp b ss j ii Hj Hi Hr.
  - simpl. rewrite lenZ_nil. do 2 f_equal. lia.
  - rewrite lenZ_cons in Hr. destruct rest as [|r rest]; [rewrite lenZ_nil in Hr; pose proof (lenZ_nonneg M); lia|].
    rewrite lenZ_cons in Hr.
    pose proof (lenZ_nonneg pre). pose proof (lenZ_nonneg sp). pose proof (lenZ_nonneg M). pose proof (lenZ_nonneg ss).
    pose proof (lenZ_nonneg rest).
    cbn [accum_offsets length offs_from app].
    lens. rewrite offs_from_length. zb. cbn [orb].
    assert (S1 : nthZ (sp ++ b :: offs_from (b + lenZ m) M ++ ss) ii undef = b) by (subst ii; apply nthZ_app_at).
    assert (S2 : nthZ (sp ++ b :: offs_from (b + lenZ m) M ++ ss) (ii + 1) undef = b + lenZ m).
    { replace (sp ++ b :: offs_from (b + lenZ m) M ++ ss) with ((sp ++ [b]) ++ offs_from (b + lenZ m) M ++ ss)
        by (now rewrite <- app_assoc).
      rewrite (offs_from_hd _ M). replace (ii + 1) with (lenZ (sp ++ [b])) by (rewrite lenZ_app, lenZ_cons, lenZ_nil; lia).
      apply nthZ_app_at. }
    assert (S3 : nthZ (pre ++ x :: r :: rest) j undef = x) by (subst j; apply nthZ_app_at).
    rewrite S1, S2, S3.
    assert (U : updZ (pre ++ x :: r :: rest) (j + 1) (b + lenZ m - b + x) = (pre ++ [x]) ++ (x + lenZ m) :: rest).
    { replace (pre ++ x :: r :: rest) with ((pre ++ [x]) ++ r :: rest) by (now rewrite <- app_assoc).
      replace (j + 1) with (lenZ (pre ++ [x])) by (rewrite lenZ_app, lenZ_cons, lenZ_nil; lia).
      rewrite updZ_app_at. do 2 f_equal. lia. }
    rewrite U.
    replace (sp ++ b :: offs_from (b + lenZ m) M ++ ss) with ((sp ++ [b]) ++ offs_from (b + lenZ m) M ++ ss)
      by (now rewrite <- app_assoc).
    rewrite (IH (pre ++ [x]) (x + lenZ m) rest (sp ++ [b]) (b + lenZ m) ss (j + 1) (ii + 1))
      by (rewrite ?lenZ_app, ?lenZ_cons, ?lenZ_nil; lia).
    rewrite <- app_assoc. cbn [app skipn]. rewrite ?lenZ_cons. do 2 f_equal. lia.
Qed.

(* while (num-- > 0) { newelems[n++] = val; newelems[n++] = 0; newoffsets[j+1] = newoffsets[j] + 2; j++; } *)
Lemma gap_fill_spec val cnt : forall epre erest opre x orest n j,
  n = lenZ epre -> j = lenZ opre -> 2 * Z.of_nat cnt <= lenZ erest -> Z.of_nat cnt <= lenZ orest ->
  gap_fill cnt (epre ++ erest) (opre ++ x :: orest) n j val
  = Some (epre ++ concat (repeat [val; 0] cnt) ++ skipn (2 * cnt) erest,
          opre ++ offs_from x (repeat [val; 0] cnt) ++ skipn cnt orest,
          n + 2 * Z.of_nat cnt, j + Z.of_nat cnt).
Proof.
  induction cnt as [|cnt IH]; intros epre erest opre x orest n j Hn Hj He Ho.
  - simpl. do 3 f_equal; lia.
  - destruct erest as [|a [|a' erest]]; try (rewrite ?lenZ_cons, ?lenZ_nil in He; lia).
    destruct orest as [|r orest]; [rewrite lenZ_nil in Ho; lia|].
    rewrite !lenZ_cons in He. rewrite lenZ_cons in Ho.
    pose proof (lenZ_nonneg epre). pose proof (lenZ_nonneg opre). pose proof (lenZ_nonneg erest). pose proof (lenZ_nonneg orest).
    cbn [gap_fill].
    lens. zb. cbn [orb].
    assert (U1 : updZ (updZ (epre ++ a :: a' :: erest) n val) (n + 1) 0 = (epre ++ [val; 0]) ++ erest).
    { subst n. rewrite updZ_app_at.
      replace (epre ++ val :: a' :: erest) with ((epre ++ [val]) ++ a' :: erest) by (now rewrite <- app_assoc).
      replace (lenZ epre + 1) with (lenZ (epre ++ [val])) by (rewrite lenZ_app, lenZ_cons, lenZ_nil; lia).
      rewrite updZ_app_at. now rewrite <- !app_assoc. }
    assert (S3 : nthZ (opre ++ x :: r :: orest) j undef = x) by (subst j; apply nthZ_app_at).
    assert (U2 : updZ (opre ++ x :: r :: orest) (j + 1) (x + 2) = (opre ++ [x]) ++ (x + 2) :: orest).
    { replace (opre ++ x :: r :: orest) with ((opre ++ [x]) ++ r :: orest) by (now rewrite <- app_assoc).
      replace (j + 1) with (lenZ (opre ++ [x])) by (rewrite lenZ_app, lenZ_cons, lenZ_nil; lia).
      apply updZ_app_at. }
    rewrite S3, U1, U2.
    rewrite (IH (epre ++ [val; 0]) erest (opre ++ [x]) (x + 2) orest (n + 2) (j + 1))
      by (rewrite ?lenZ_app, ?lenZ_cons, ?lenZ_nil; lia).
    replace (2 * S cnt)%nat with (S (S (2 * cnt))) by lia.
    cbn [repeat concat offs_from skipn]. change (lenZ [val; 0]) with 2.
    rewrite <- !app_assoc. cbn [app]. f_equal. apply f_equal2; [apply f_equal2; [reflexivity|lia]|lia].
Qed.

(* section_offset[j+1] += delta for the cnt entries after j *)
Lemma shift_offsets_spec delta mid : forall pre x rest j,
  j = lenZ pre ->
  shift_offsets (length mid) (pre ++ x :: mid ++ rest) j delta
  = Some (pre ++ x :: map (fun v => v + delta) mid ++ rest).
Proof.
  induction mid as [|m mid IH]; intros pre x rest j Hj; [reflexivity|].
  pose proof (lenZ_nonneg pre). pose proof (lenZ_nonneg mid). pose proof (lenZ_nonneg rest).
  cbn [shift_offsets length app map].
  lens. zb. cbn [orb].
  replace (pre ++ x :: m :: mid ++ rest) with ((pre ++ [x]) ++ m :: mid ++ rest) by (now rewrite <- app_assoc).
  replace (j + 1) with (lenZ (pre ++ [x])) by (rewrite lenZ_app, lenZ_cons, lenZ_nil; lia).
  rewrite nthZ_app_at, updZ_app_at.
  rewrite (IH (pre ++ [x]) (m + delta) rest (lenZ (pre ++ [x]))) by reflexivity.
  now rewrite <- app_assoc.
Qed.

(* ---- 3. poly_splice = splice -------------------------------------------------------------------------------------- *)
(* the placeholder element cg_poly_elements_general_write writes into a gap: (NODE, 0) for MIXED, (0, 0) otherwise *)
Definition ph_of (type : Z) : list Z := [if type =? MIXED then NODE else 0; 0].

Lemma gap_if k c : 0 <= k -> (if 0 <? k then c * k else 0) = c * k.
Proof. intros. destruct (Z.ltb_spec 0 k); [reflexivity|]. replace k with 0 by lia. lia. Qed.
Lemma gap_if1 k : 0 <= k -> (if 0 <? k then k else 0) = k.
Proof. intros. destruct (Z.ltb_spec 0 k); lia. Qed.
Lemma clen_repeat2 (a b : Z) k : clen (repeat [a; b] k) = 2 * Z.of_nat k.
Proof. induction k as [|k IH]; [reflexivity|]. cbn [repeat]. rewrite clen_cons, IH. change (lenZ [a; b]) with 2. lia. Qed.
Lemma lenZ_malloc n : 0 <= n -> lenZ (malloc n) = n.
Proof. intros. unfold malloc. rewrite lenZ_repeat. lia. Qed.

Lemma lenZ_concat E : lenZ (concat E) = clen E.
Proof. reflexivity. Qed.
Lemma lenZ_skipn_malloc n m : 0 <= n <= m -> lenZ (skipn (Z.to_nat n) (malloc m)) = m - n.
Proof. intros. rewrite lenZ_skipnZ; rewrite lenZ_malloc; lia. Qed.
Lemma lenZ_skipn_malloc0 n m : 0 <= n <= m -> lenZ (skipn (Z.to_nat n) (updZ (malloc m) 0 0)) = m - n.
Proof. intros. rewrite lenZ_skipnZ; rewrite lenZ_updZ, lenZ_malloc; lia. Qed.
Ltac lens2 := repeat rewrite ?lenZ_app, ?lenZ_cons, ?lenZ_nil, ?lenZ_concat, ?clen_repeat2, ?offs_init_length,
                             ?offs_from_length, ?clen_app.

Lemma accum_offsets_all M pre x rest b j cnt :
  cnt = length M -> j = lenZ pre -> lenZ M <= lenZ rest ->
  accum_offsets cnt (pre ++ x :: rest) j (offs_from b M) 0
  = Some (pre ++ offs_from x M ++ skipn (length M) rest, j + lenZ M).
Proof.
  intros -> Hj Hr. rewrite <- (accum_offsets_spec M pre x rest [] b [] j 0 Hj eq_refl Hr).
  cbn [app]. now rewrite app_nil_r.
Qed.
(* the source offsets are those of the whole section E, read from element k on *)
Lemma accum_offsets_tail E k pre x rest b j cnt ii :
  (k <= length E)%nat -> cnt = (length E - k)%nat -> ii = Z.of_nat k -> j = lenZ pre -> lenZ E - Z.of_nat k <= lenZ rest ->
  accum_offsets cnt (pre ++ x :: rest) j (offs_from b E) ii
  = Some (pre ++ offs_from x (skipn k E) ++ skipn (length E - k) rest, j + (lenZ E - Z.of_nat k)).
Proof.
  intros Hk -> -> Hj Hr.
  assert (L : length (skipn k E) = (length E - k)%nat) by apply skipn_length.
  rewrite (offs_from_split b E k). rewrite <- L.
  rewrite <- (app_nil_r (offs_from _ (skipn k E))).
  rewrite (accum_offsets_spec (skipn k E) pre x rest (offs_init b (firstn k E)) _ [] j (Z.of_nat k) Hj).
  - do 2 f_equal. unfold lenZ. rewrite L. lia.
  - rewrite offs_init_length. unfold lenZ. rewrite firstn_length. lia.
  - unfold lenZ in *. rewrite L. lia.
Qed.

Ltac prelude :=
  unfold poly_splice, splice_struct;
  repeat match goal with
  | |- context [?s + lenZ ?N - 1 - ?s + 1] => replace (s + lenZ N - 1 - s + 1) with (lenZ N) by lia
  | |- context [?s + lenZ ?N - 1 - ?s + 2] => replace (s + lenZ N - 1 - s + 2) with (lenZ N + 1) by lia
  end;
  rewrite !nthZ_offs_from_last, !nthZ_offs_from_0;
  repeat match goal with
  | |- context [0 + clen ?N - 0] => replace (0 + clen N - 0) with (clen N) by lia
  end.

Ltac sc := lens2; try apply to_nat_lenZ; try (symmetry; apply to_nat_lenZ); rewrite ?lenZ_skipn; try (unfold lenZ in *; lia).

Lemma poly_splice_before type f E s N slack :
  E <> [] -> N <> [] -> s + lenZ N - 1 < f ->
  poly_splice type f (f + lenZ E - 1) s (s + lenZ N - 1) (concat E ++ slack) (offs_from 0 E) (concat N) (offs_from 0 N)
  = Some (Some (concat (splice_struct (ph_of type) f E s N), offs_from 0 (splice_struct (ph_of type) f E s N))).
Proof.
  intros HE HN C1.
  pose proof (nonempty_len E HE) as LE. pose proof (nonempty_len N HN) as LN.
  pose proof (clen_nonneg E) as PE. pose proof (clen_nonneg N) as PN. pose proof (lenZ_nonneg slack) as PS.
  prelude.
  set (num := f - (s + lenZ N - 1) - 1). assert (Hnum : 0 <= num) by (subst num; lia).
  rewrite !(gap_if num 2), !(gap_if1 num) by lia.
  zb. cbn [negb andb].
  set (val := if type =? MIXED then NODE else 0).
  rewrite (memcpy_at0 (malloc _) (concat N) 0 (clen N)) by (rewrite ?lenZ_malloc, ?lenZ_concat by lia; lia).
  rewrite (slice_all (concat N)) by reflexivity. cbn [obind].
  rewrite (memcpy_at0 (updZ _ 0 0) (offs_from 0 N) 0 (lenZ N + 1))
    by (rewrite ?lenZ_updZ, ?lenZ_malloc, ?offs_from_length by lia; lia).
  rewrite (slice_all (offs_from 0 N)) by (now rewrite offs_from_length). cbn [obind].
  set (R1 := skipn (Z.to_nat (clen N)) (malloc _)).
  assert (LR1 : lenZ R1 = clen E + 2 * num) by (subst R1; rewrite lenZ_skipn_malloc; lia).
  set (R2 := skipn (Z.to_nat (lenZ N + 1)) (updZ _ 0 0)).
  assert (LR2 : lenZ R2 = lenZ E + num) by (subst R2; rewrite lenZ_skipn_malloc0; lia).
  rewrite (offs_from_init 0 N), <- app_assoc. cbn [app].
  rewrite (gap_fill_spec val (Z.to_nat num) (concat N) R1 (offs_init 0 N) (0 + clen N) R2 (clen N) (lenZ N))
    by (rewrite ?offs_init_length; try reflexivity; lia).
  cbn [obind].
  change (ph_of type) with [val; 0].
  set (G := repeat [val; 0] (Z.to_nat num)).
  assert (CG : clen G = 2 * num) by (subst G; rewrite clen_repeat2; lia).
  assert (LG : lenZ G = num) by (subst G; rewrite lenZ_repeat; lia).
  rewrite (app_assoc (concat N)).
  rewrite (memcpy_at (concat N ++ concat G) _ _ (concat E ++ slack) 0 (clen E))
    by sc.
  rewrite (slice_at0 (concat E) slack) by reflexivity. cbn [obind].
  rewrite (offs_from_init _ G), <- !app_assoc, (app_assoc (offs_init 0 N)). cbn [app].
  rewrite (accum_offsets_all E) by sc.
  cbn [obind]. zb.
  rewrite !skipn_skipn', !(skipn_all2 R1), !(skipn_all2 R2) by (unfold lenZ in *; lia).
  rewrite !concat_app, !offs_from_app, !app_nil_r, <- !app_assoc. reflexivity.
Qed.

Lemma poly_splice_after type f E s N slack :
  E <> [] -> N <> [] -> f + lenZ E - 1 < s ->
  poly_splice type f (f + lenZ E - 1) s (s + lenZ N - 1) (concat E ++ slack) (offs_from 0 E) (concat N) (offs_from 0 N)
  = Some (Some (concat (splice_struct (ph_of type) f E s N), offs_from 0 (splice_struct (ph_of type) f E s N))).
Proof.
  intros HE HN C1.
  pose proof (nonempty_len E HE) as LE. pose proof (nonempty_len N HN) as LN.
  pose proof (clen_nonneg E) as PE. pose proof (clen_nonneg N) as PN. pose proof (lenZ_nonneg slack) as PS.
  prelude.
  set (num := s - (f + lenZ E - 1) - 1). assert (Hnum : 0 <= num) by (subst num; lia).
  rewrite !(gap_if num 2), !(gap_if1 num) by lia.
  zb. cbn [negb andb].
  set (val := if type =? MIXED then NODE else 0).
  rewrite (memcpy_at0 (malloc _) (concat E ++ slack) 0 (clen E)) by (rewrite ?lenZ_malloc by lia; sc).
  rewrite (slice_at0 (concat E) slack) by reflexivity. cbn [obind].
  rewrite (memcpy_at0 (updZ _ 0 0) (offs_from 0 E) 0 (lenZ E + 1))
    by (rewrite ?lenZ_updZ, ?lenZ_malloc, ?offs_from_length by lia; lia).
  rewrite (slice_all (offs_from 0 E)) by (now rewrite offs_from_length). cbn [obind].
  set (R1 := skipn (Z.to_nat (clen E)) (malloc _)).
  assert (LR1 : lenZ R1 = clen N + 2 * num) by (subst R1; rewrite lenZ_skipn_malloc; lia).
  set (R2 := skipn (Z.to_nat (lenZ E + 1)) (updZ _ 0 0)).
  assert (LR2 : lenZ R2 = lenZ N + num) by (subst R2; rewrite lenZ_skipn_malloc0; lia).
  rewrite (offs_from_init 0 E), <- app_assoc. cbn [app].
  rewrite (gap_fill_spec val (Z.to_nat num) (concat E) R1 (offs_init 0 E) (0 + clen E) R2 (clen E) (lenZ E))
    by (rewrite ?offs_init_length; try reflexivity; lia).
  cbn [obind].
  change (ph_of type) with [val; 0].
  set (G := repeat [val; 0] (Z.to_nat num)).
  assert (CG : clen G = 2 * num) by (subst G; rewrite clen_repeat2; lia).
  assert (LG : lenZ G = num) by (subst G; rewrite lenZ_repeat; lia).
  rewrite (app_assoc (concat E)).
  rewrite (memcpy_at (concat E ++ concat G) _ _ (concat N) 0 (clen N)) by sc.
  rewrite (slice_all (concat N)) by reflexivity. cbn [obind].
  rewrite (offs_from_init _ G), <- !app_assoc, (app_assoc (offs_init 0 E)). cbn [app].
  rewrite (accum_offsets_all N) by sc.
  cbn [obind]. zb.
  rewrite !skipn_skipn', !(skipn_all2 R1), !(skipn_all2 R2) by (unfold lenZ in *; lia).
  rewrite !concat_app, !offs_from_app, !app_nil_r, <- !app_assoc. reflexivity.
Qed.

Lemma head_none_if (so : list Z) f s :
  s <= f -> nthZ so 0 undef = 0 ->
  (if f <=? s then if nthZ so (s - f) undef - 0 <? 0 then None else Some (nthZ so (s - f) undef - 0, s - f) else Some (0, 0))
  = Some (0, 0).
Proof.
  intros H H0. destruct (Z.leb_spec f s); [|reflexivity].
  replace (s - f) with 0 by lia. rewrite H0. reflexivity.
Qed.

Lemma poly_splice_front type f E s N slack :
  E <> [] -> N <> [] -> s <= f -> f <= s + lenZ N - 1 -> s + lenZ N - 1 < f + lenZ E - 1 ->
  poly_splice type f (f + lenZ E - 1) s (s + lenZ N - 1) (concat E ++ slack) (offs_from 0 E) (concat N) (offs_from 0 N)
  = Some (Some (concat (splice_struct (ph_of type) f E s N), offs_from 0 (splice_struct (ph_of type) f E s N))).
Proof.
  intros HE HN C1 C2 C3.
  pose proof (nonempty_len E HE) as LE. pose proof (nonempty_len N HN) as LN.
  pose proof (clen_nonneg E) as PE. pose proof (clen_nonneg N) as PN. pose proof (lenZ_nonneg slack) as PS.
  prelude.
  rewrite (head_none_if (offs_from 0 E) f s C1 (nthZ_offs_from_0 0 E undef)).
  set (k2 := s + lenZ N - 1 - f + 1). assert (Hk2 : 1 <= k2 <= lenZ E - 1) by (subst k2; lia).
  set (T := skipn (Z.to_nat k2) E). set (H2 := firstn (Z.to_nat k2) E).
  assert (K2 : nthZ (offs_from 0 E) k2 undef = clen H2) by (rewrite nthZ_offs_from by lia; subst H2; lia).
  assert (CE : clen E = clen H2 + clen T) by apply clen_split.
  pose proof (clen_nonneg T) as PT. pose proof (clen_nonneg H2) as PH2.
  rewrite K2, CE.
  zb. cbn [negb andb].
  replace (0 + (clen H2 + clen T) - clen H2) with (clen T) by lia.
  rewrite (memcpy_at0 (malloc _) (concat N) 0 (clen N)) by (rewrite ?lenZ_malloc by lia; sc).
  rewrite (slice_all (concat N)) by reflexivity. cbn [obind].
  rewrite (memcpy_at0 (updZ _ 0 0) (offs_from 0 N) 0 (lenZ N + 1))
    by (rewrite ?lenZ_updZ, ?lenZ_malloc, ?offs_from_length by lia; lia).
  rewrite (slice_all (offs_from 0 N)) by (now rewrite offs_from_length). cbn [obind].
  set (R1 := skipn (Z.to_nat (clen N)) (malloc _)).
  assert (LR1 : lenZ R1 = clen T) by (subst R1; rewrite lenZ_skipn_malloc; lia).
  set (R2 := skipn (Z.to_nat (lenZ N + 1)) (updZ _ 0 0)).
  assert (LR2 : lenZ R2 = lenZ E - k2) by (subst R2; rewrite lenZ_skipn_malloc0; lia).
  rewrite (memcpy_at (concat N) R1 _ (concat E ++ slack) (clen H2) (clen T)) by sc.
  rewrite (slice_conn_tail E slack (Z.to_nat k2)) by reflexivity. cbn [obind].
  rewrite (offs_from_init 0 N), <- app_assoc. cbn [app].
  rewrite (accum_offsets_tail E (Z.to_nat k2)) by sc.
  cbn [obind]. zb.
  rewrite !(skipn_all2 R1), !(skipn_all2 R2) by (unfold lenZ in *; lia).
  replace (Z.to_nat (s - f)) with 0%nat by lia. cbn [firstn app].
  rewrite !concat_app, !offs_from_app, !app_nil_r. reflexivity.
Qed.

Lemma tail_none_if E f e :
  f + lenZ E - 1 <= e ->
  (if e <=? f + lenZ E - 1
   then if 0 + clen E - nthZ (offs_from 0 E) (e - f + 1) undef <? 0 then None
        else Some (0 + clen E - nthZ (offs_from 0 E) (e - f + 1) undef, f + lenZ E - 1 - e)
   else Some (0, 0)) = Some (0, 0).
Proof.
  intros H. destruct (Z.leb_spec e (f + lenZ E - 1)); [|reflexivity].
  replace (e - f + 1) with (lenZ E) by lia. rewrite nthZ_offs_from_last.
  replace (0 + clen E - (0 + clen E)) with 0 by lia. replace (f + lenZ E - 1 - e) with 0 by lia. reflexivity.
Qed.

Lemma poly_splice_cover type f E s N slack :
  E <> [] -> N <> [] -> s <= f -> f + lenZ E - 1 <= s + lenZ N - 1 ->
  poly_splice type f (f + lenZ E - 1) s (s + lenZ N - 1) (concat E ++ slack) (offs_from 0 E) (concat N) (offs_from 0 N)
  = Some (Some (concat (splice_struct (ph_of type) f E s N), offs_from 0 (splice_struct (ph_of type) f E s N))).
Proof.
  intros HE HN C1 C2.
  pose proof (nonempty_len E HE) as LE. pose proof (nonempty_len N HN) as LN.
  pose proof (clen_nonneg E) as PE. pose proof (clen_nonneg N) as PN. pose proof (lenZ_nonneg slack) as PS.
  prelude.
  rewrite (head_none_if (offs_from 0 E) f s C1 (nthZ_offs_from_0 0 E undef)).
  rewrite (tail_none_if E f (s + lenZ N - 1) C2).
  zb. cbn [negb andb]. rewrite ?andb_false_r.
  rewrite (memcpy_at0 (malloc _) (concat N) 0 (clen N)) by (rewrite ?lenZ_malloc by lia; sc).
  rewrite (slice_all (concat N)) by reflexivity. cbn [obind].
  rewrite (memcpy_at0 (updZ _ 0 0) (offs_from 0 N) 0 (lenZ N + 1))
    by (rewrite ?lenZ_updZ, ?lenZ_malloc, ?offs_from_length by lia; lia).
  rewrite (slice_all (offs_from 0 N)) by (now rewrite offs_from_length). cbn [obind].
  zb.
  rewrite !skipn_all2 by (rewrite ?updZ_length; unfold malloc; rewrite ?repeat_length; unfold lenZ in *; lia).
  replace (Z.to_nat (s - f)) with 0%nat by lia. cbn [firstn app].
  rewrite !app_nil_r. reflexivity.
Qed.

Lemma poly_splice_inside type f E s N slack :
  E <> [] -> N <> [] -> f < s -> s + lenZ N - 1 < f + lenZ E - 1 ->
  poly_splice type f (f + lenZ E - 1) s (s + lenZ N - 1) (concat E ++ slack) (offs_from 0 E) (concat N) (offs_from 0 N)
  = Some (Some (concat (splice_struct (ph_of type) f E s N), offs_from 0 (splice_struct (ph_of type) f E s N))).
Proof.
  intros HE HN C1 C3.
  pose proof (nonempty_len E HE) as LE. pose proof (nonempty_len N HN) as LN.
  pose proof (clen_nonneg E) as PE. pose proof (clen_nonneg N) as PN. pose proof (lenZ_nonneg slack) as PS.
  prelude.
  set (k1 := s - f). assert (Hk1 : 1 <= k1 <= lenZ E - 1) by (subst k1; lia).
  set (k2 := s + lenZ N - 1 - f + 1). assert (Hk2 : 1 <= k2 <= lenZ E - 1) by (subst k2; lia).
  set (T := skipn (Z.to_nat k2) E). set (H2 := firstn (Z.to_nat k2) E). set (Hd := firstn (Z.to_nat k1) E).
  assert (K1 : nthZ (offs_from 0 E) k1 undef = clen Hd) by (rewrite nthZ_offs_from by lia; subst Hd; lia).
  assert (K2 : nthZ (offs_from 0 E) k2 undef = clen H2) by (rewrite nthZ_offs_from by lia; subst H2; lia).
  assert (CE : clen E = clen H2 + clen T) by apply clen_split.
  pose proof (clen_nonneg T) as PT. pose proof (clen_nonneg H2) as PH2. pose proof (clen_nonneg Hd) as PHd.
  assert (LHd : lenZ Hd = k1) by (subst Hd; apply lenZ_firstnZ; lia).
  assert (CE1 : clen E = clen Hd + clen (skipn (Z.to_nat k1) E)) by apply clen_split.
  pose proof (clen_nonneg (skipn (Z.to_nat k1) E)) as PT1.
  rewrite K1, K2, CE.
  zb. cbn [negb andb].
  replace (0 + (clen H2 + clen T) - clen H2) with (clen T) by lia.
  replace (clen H2 + clen T - clen H2) with (clen T) by lia.
  replace (clen Hd - 0) with (clen Hd) by lia.
  rewrite (memcpy_at0 (malloc _) (concat E ++ slack) 0 (clen Hd)) by (rewrite ?lenZ_malloc by lia; sc).
  rewrite (slice_conn_head E slack (Z.to_nat k1)) by reflexivity. cbn [obind].
  replace (k1 + 1) with (Z.of_nat (Z.to_nat k1) + 1) by lia.
  rewrite (memcpy_at0 (updZ _ 0 0) (offs_from 0 E) 0 (Z.of_nat (Z.to_nat k1) + 1))
    by (rewrite ?lenZ_updZ, ?lenZ_malloc, ?offs_from_length by lia; lia).
  rewrite (slice_offs_head 0 E (Z.to_nat k1)) by (unfold lenZ in *; lia). fold Hd. cbn [obind].
  set (R1 := skipn (Z.to_nat (clen Hd)) (malloc _)).
  assert (LR1 : lenZ R1 = clen N + clen T) by (subst R1; rewrite lenZ_skipn_malloc; lia).
  set (R2 := skipn (Z.to_nat (Z.of_nat (Z.to_nat k1) + 1)) (updZ _ 0 0)).
  assert (LR2 : lenZ R2 = lenZ N + (lenZ E - k2)) by (subst R2; rewrite lenZ_skipn_malloc0; lia).
  rewrite (memcpy_at (concat Hd) R1 _ (concat N) 0 (clen N)) by sc.
  rewrite (slice_all (concat N)) by reflexivity. cbn [obind].
  rewrite (offs_from_init 0 Hd), <- app_assoc. cbn [app].
  rewrite (accum_offsets_all N) by sc.
  cbn [obind].
  rewrite (app_assoc (concat Hd)).
  rewrite (memcpy_at (concat Hd ++ concat N) _ _ (concat E ++ slack) (clen H2) (clen T)) by sc.
  rewrite (slice_conn_tail E slack (Z.to_nat k2)) by reflexivity. cbn [obind].
  rewrite (offs_from_init _ N), <- !app_assoc, (app_assoc (offs_init 0 Hd)). cbn [app].
  rewrite (accum_offsets_tail E (Z.to_nat k2)) by sc.
  cbn [obind]. zb.
  rewrite !skipn_skipn', !(skipn_all2 R1), !(skipn_all2 R2) by (unfold lenZ in *; lia).
  rewrite !concat_app, !offs_from_app, !app_nil_r, <- !app_assoc. reflexivity.
Qed.

Lemma poly_splice_back type f E s N slack :
  E <> [] -> N <> [] -> f < s -> s <= f + lenZ E - 1 -> f + lenZ E - 1 <= s + lenZ N - 1 ->
  poly_splice type f (f + lenZ E - 1) s (s + lenZ N - 1) (concat E ++ slack) (offs_from 0 E) (concat N) (offs_from 0 N)
  = Some (Some (concat (splice_struct (ph_of type) f E s N), offs_from 0 (splice_struct (ph_of type) f E s N))).
Proof.
  intros HE HN C1 C2 C3.
  pose proof (nonempty_len E HE) as LE. pose proof (nonempty_len N HN) as LN.
  pose proof (clen_nonneg E) as PE. pose proof (clen_nonneg N) as PN. pose proof (lenZ_nonneg slack) as PS.
  prelude.
  rewrite (tail_none_if E f (s + lenZ N - 1) C3).
  set (k1 := s - f). assert (Hk1 : 1 <= k1 <= lenZ E - 1) by (subst k1; lia).
  set (Hd := firstn (Z.to_nat k1) E).
  assert (K1 : nthZ (offs_from 0 E) k1 undef = clen Hd) by (rewrite nthZ_offs_from by lia; subst Hd; lia).
  pose proof (clen_nonneg Hd) as PHd.
  assert (LHd : lenZ Hd = k1) by (subst Hd; apply lenZ_firstnZ; lia).
  assert (CE1 : clen E = clen Hd + clen (skipn (Z.to_nat k1) E)) by apply clen_split.
  pose proof (clen_nonneg (skipn (Z.to_nat k1) E)) as PT1.
  rewrite K1.
  zb. cbn [negb andb]. rewrite ?andb_false_r.
  replace (clen Hd - 0) with (clen Hd) by lia.
  rewrite (memcpy_at0 (malloc _) (concat E ++ slack) 0 (clen Hd)) by (rewrite ?lenZ_malloc by lia; sc).
  rewrite (slice_conn_head E slack (Z.to_nat k1)) by reflexivity. cbn [obind].
  replace (k1 + 1) with (Z.of_nat (Z.to_nat k1) + 1) by lia.
  rewrite (memcpy_at0 (updZ _ 0 0) (offs_from 0 E) 0 (Z.of_nat (Z.to_nat k1) + 1))
    by (rewrite ?lenZ_updZ, ?lenZ_malloc, ?offs_from_length by lia; lia).
  rewrite (slice_offs_head 0 E (Z.to_nat k1)) by (unfold lenZ in *; lia). fold Hd. cbn [obind].
  set (R1 := skipn (Z.to_nat (clen Hd)) (malloc _)).
  assert (LR1 : lenZ R1 = clen N) by (subst R1; rewrite lenZ_skipn_malloc; lia).
  set (R2 := skipn (Z.to_nat (Z.of_nat (Z.to_nat k1) + 1)) (updZ _ 0 0)).
  assert (LR2 : lenZ R2 = lenZ N) by (subst R2; rewrite lenZ_skipn_malloc0; lia).
  rewrite (memcpy_at (concat Hd) R1 _ (concat N) 0 (clen N)) by sc.
  rewrite (slice_all (concat N)) by reflexivity. cbn [obind].
  rewrite (offs_from_init 0 Hd), <- app_assoc. cbn [app].
  rewrite (accum_offsets_all N) by sc.
  cbn [obind]. zb.
  rewrite !(skipn_all2 R1), !(skipn_all2 R2), (skipn_all2 E) by (unfold lenZ in *; lia).
  rewrite ?app_nil_r, !concat_app, !offs_from_app, ?app_nil_r. reflexivity.
Qed.

(* THE IN-MEMORY SPLICE of variable-size connectivity: for EVERY stored section (any element sizes), EVERY written
   range (before with / without gap, overlapping the front, inside, overlapping the back, after with / without gap,
   covering) and any reserved slack after the stored connectivity, the program of cg_poly_elements_general_write
   (size computation, malloc, memcpy, gap fill, offset accumulation, "my counting is off" test) returns exactly
   the flattened pointwise splice and its start offsets; it never faults and never miscounts. *)
Theorem poly_splice_is_splice type f E s N slack :
  E <> [] -> N <> [] ->
  poly_splice type f (f + lenZ E - 1) s (s + lenZ N - 1) (concat E ++ slack) (offs_from 0 E) (concat N) (offs_from 0 N)
  = Some (Some (concat (splice (ph_of type) f E s N), offs_from 0 (splice (ph_of type) f E s N))).
Proof.
  intros HE HN. rewrite splice_is_struct by assumption.
  destruct (Z.lt_ge_cases (s + lenZ N - 1) f); [now apply poly_splice_before|].
  destruct (Z.lt_ge_cases (f + lenZ E - 1) s); [now apply poly_splice_after|].
  destruct (Z.le_gt_cases s f); destruct (Z.lt_ge_cases (s + lenZ N - 1) (f + lenZ E - 1)).
  - now apply poly_splice_front.
  - now apply poly_splice_cover.
  - apply poly_splice_inside; auto; lia.
  - apply poly_splice_back; auto; lia.
Qed.

(* ---- 4. representation of a variable-size section; the three paths of cg_poly_elements_general_write ------------ *)
Definition is_poly_type (t : Z) : bool := (t =? MIXED) || (t =? NGON_n) || (t =? NFACE_n).
Lemma poly_not_fixed t : is_poly_type t = true -> is_fixed_size t = false.
Proof.
  unfold is_poly_type, MIXED, NGON_n, NFACE_n. intros H.
  apply orb_prop in H as [H|H]; [apply orb_prop in H as [H|H]|]; apply Z.eqb_eq in H; subst; reflexivity.
Qed.

(* [st] (mirror + nodes on file) represents the section (first = f, elements = E); the ElementConnectivity node may
   hold reserved space [slack] after the elements (cg_section_general_write reserves it, the in-place paths keep it);
   the caches, when present, agree with the nodes; the connectivity is never cached without the offsets. *)
Record rep_poly (st : section) (f : Z) (E : list (list Z)) (slack : list Z) : Prop := mkRepP {
  rq_type : is_poly_type (s_type st) = true;
  rq_hasoff : s_hasoff st = true;
  rq_ne : E <> [];
  rq_all : nonempty_all E;
  rq_r0 : s_r0 st = f;
  rq_r1 : s_r1 st = f + lenZ E - 1;
  rq_conn : s_conn st = concat E ++ slack;
  rq_dim : s_dim st = clen E + lenZ slack;
  rq_off : s_off st = offs_from 0 E;
  rq_odim : s_odim st = lenZ E + 1;
  rq_mem : s_conn_mem st = None \/ s_conn_mem st = Some (concat E ++ slack);
  rq_omem : s_off_mem st = None \/ s_off_mem st = Some (offs_from 0 E);
  rq_coh : s_conn_mem st <> None -> s_off_mem st <> None
}.

Lemma user_take_all l n : n = lenZ l -> user_take l n = Some l.
Proof. intros ->. unfold user_take. zb. now rewrite to_nat_lenZ, firstn_all. Qed.

Lemma read_offset_data_rep st f E slack :
  rep_poly st f E slack ->
  exists s0, read_offset_data st = (s0, offs_from 0 E) /\
    s_type s0 = s_type st /\ s_dt s0 = s_dt st /\ s_r0 s0 = s_r0 st /\ s_r1 s0 = s_r1 st /\ s_dim s0 = s_dim st /\
    s_conn s0 = s_conn st /\ s_conn_mem s0 = s_conn_mem st /\ s_hasoff s0 = s_hasoff st /\ s_odim s0 = s_odim st /\
    s_off s0 = s_off st /\ s_off_mem s0 = Some (offs_from 0 E) /\ s_par s0 = s_par st.
Proof.
  intros R. unfold read_offset_data. destruct (rq_omem _ _ _ _ R) as [H|H]; rewrite H.
  - eexists. split.
    + f_equal. rewrite (rq_off _ _ _ _ R), (rq_odim _ _ _ _ R).
      replace (Z.to_nat (lenZ E + 1)) with (length (offs_from 0 E))
        by (pose proof (offs_from_length 0 E); unfold lenZ in *; lia).
      apply firstn_all.
    + cbn. rewrite (rq_off _ _ _ _ R), (rq_odim _ _ _ _ R).
      replace (Z.to_nat (lenZ E + 1)) with (length (offs_from 0 E))
        by (pose proof (offs_from_length 0 E); unfold lenZ in *; lia).
      rewrite firstn_all. repeat split; reflexivity.
  - exists st. repeat split; auto.
Qed.

Lemma read_element_data_rep s0 st f E slack :
  rep_poly st f E slack -> s_dim s0 = s_dim st -> s_conn s0 = s_conn st -> s_conn_mem s0 = s_conn_mem st ->
  exists s1, read_element_data s0 = (s1, concat E ++ slack) /\
    s_type s1 = s_type s0 /\ s_dt s1 = s_dt s0 /\ s_r0 s1 = s_r0 s0 /\ s_r1 s1 = s_r1 s0 /\ s_dim s1 = s_dim s0 /\
    s_conn s1 = s_conn s0 /\ s_conn_mem s1 = Some (concat E ++ slack) /\ s_hasoff s1 = s_hasoff s0 /\
    s_odim s1 = s_odim s0 /\ s_off s1 = s_off s0 /\ s_off_mem s1 = s_off_mem s0 /\ s_par s1 = s_par s0.
Proof.
  intros R Hd Hc Hm. unfold read_element_data. rewrite Hm, Hd, Hc.
  assert (FA : firstn (Z.to_nat (s_dim st)) (s_conn st) = concat E ++ slack).
  { rewrite (rq_conn _ _ _ _ R), (rq_dim _ _ _ _ R).
    replace (Z.to_nat (clen E + lenZ slack)) with (length (concat E ++ slack))
      by (rewrite app_length; unfold clen, lenZ; lia).
    apply firstn_all. }
  destruct (rq_mem _ _ _ _ R) as [H|H]; rewrite H.
  - eexists. split; [f_equal; exact FA|]. cbn. rewrite FA. repeat split; auto.
  - exists s0. repeat split; auto. congruence.
Qed.

Ltac wprefix R HN :=
  unfold poly_elements_general_write;
  rewrite (poly_not_fixed _ (rq_type _ _ _ _ R)), (rq_hasoff _ _ _ _ R); cbn [negb];
  repeat match goal with
  | |- context [?s + lenZ ?N - 1 - ?s + 1] => replace (s + lenZ N - 1 - s + 1) with (lenZ N) by lia
  end;
  pose proof (nonempty_len _ HN);
  rewrite (user_take_all (offs_from 0 _)) by (now rewrite offs_from_length);
  rewrite !nthZ_offs_from_last, !nthZ_offs_from_0;
  repeat match goal with
  | |- context [0 + clen ?N - 0] => replace (0 + clen N - 0) with (clen N) by lia
  end.

Lemma offs_range_size f E a b d :
  f <= a -> a <= b -> b <= f + lenZ E - 1 ->
  nthZ (offs_from 0 E) (b - f + 1) d - nthZ (offs_from 0 E) (a - f) d = clen (slice_elems f E a b).
Proof.
  intros H1 H2 H3. rewrite !nthZ_offs_from by lia. unfold slice_elems.
  replace (Z.to_nat (b - f + 1)) with (Z.to_nat (a - f) + Z.to_nat (b - a + 1))%nat by lia.
  rewrite firstn_plus, clen_app. lia.
Qed.

Ltac proj := cbn [s_type s_dt s_r0 s_r1 s_dim s_conn s_conn_mem s_hasoff s_odim s_off s_off_mem s_par
                   set_range set_off set_conn].
Ltac wranges R :=
  rewrite ?(rq_r0 _ _ _ _ R), ?(rq_r1 _ _ _ _ R);
  repeat match goal with
  | |- context [?f + lenZ ?E - 1 - ?f + 1] => replace (f + lenZ E - 1 - f + 1) with (lenZ E) by lia
  end;
  rewrite ?nthZ_offs_from_last, ?nthZ_offs_from_0;
  repeat match goal with
  | |- context [0 + clen ?N - 0] => replace (0 + clen N - 0) with (clen N) by lia
  end.

Lemma splice_nonempty_all ph f E s N :
  ph <> [] -> E <> [] -> N <> [] -> nonempty_all E -> nonempty_all N -> nonempty_all (splice ph f E s N).
Proof.
  intros. rewrite splice_is_struct by assumption. unfold splice_struct.
  destruct (_ <? _); [|destruct (_ <? _)];
    repeat apply nonempty_all_app; auto using nonempty_all_repeat, nonempty_all_firstn, nonempty_all_skipn.
Qed.

Ltac inmem_tail R Hpar HN AN F0 st s0 f E slack start N :=
    let F01 := fresh in let F02 := fresh in let F05 := fresh in let F06 := fresh in let F07 := fresh in
    let F08 := fresh in let F012 := fresh in let s1 := fresh "s1" in
    let F11 := fresh in let F12 := fresh in let F18 := fresh in let F112 := fresh in let SL := fresh "SL" in
    destruct F0 as (F01 & F02 & _ & _ & F05 & F06 & F07 & F08 & _ & _ & _ & F012);
    destruct (read_element_data_rep s0 st f E slack R F05 F06 F07) as (s1 & -> & F1);
    destruct F1 as (F11 & F12 & _ & _ & _ & _ & _ & F18 & _ & _ & _ & F112);
    rewrite (user_take_all (concat N)) by reflexivity;
    rewrite poly_splice_is_splice by (auto; apply R);
    unfold parent_resize; proj;
    rewrite F112, F012, Hpar;
    eexists; (split; [reflexivity|]);
    assert (SL := splice_lenZ (ph_of (s_type st)) f E start N (rq_ne _ _ _ _ R) HN);
    unfold splice_hi, splice_lo in SL;
    proj; rewrite ?F11, ?F12, ?F01, ?F02, ?F112, ?F012;
    (split; [|split; [discriminate|auto]]);
    constructor; proj; rewrite ?F11, ?F01, ?F18, ?F08, ?app_nil_r; auto; try apply R;
    try (now apply splice_nonempty);
    try (apply splice_nonempty_all; auto; try apply R; discriminate);
    try (intros _; discriminate);
    try (rewrite ?SL, ?lenZ_nil, ?offs_from_length; unfold clen;
         repeat match goal with |- context [?a <? ?b] => destruct (Z.ltb_spec a b) end; lia).

Lemma poly_write_inmemory pv st f E slack start N mt :
  rep_poly st f E slack -> s_par st = None -> N <> [] -> nonempty_all N ->
  (s_conn_mem st <> None \/ start < f \/ f + lenZ E - 1 < start + lenZ N - 1 \/
   (clen (slice_elems f E start (start + lenZ N - 1)) <> clen N /\
    s_dim st < clen E + clen N - clen (slice_elems f E start (start + lenZ N - 1)))) ->
  exists st', poly_elements_general_write pv st start (start + lenZ N - 1) mt (concat N) (offs_from 0 N) = ROk st'
     /\ rep_poly st' (Z.min f start) (splice (ph_of (s_type st)) f E start N) []
     /\ s_conn_mem st' <> None
     /\ s_par st' = None /\ s_type st' = s_type st /\ s_dt st' = s_dt st.
Proof.
  intros R Hpar HN AN NF.
  pose proof (clen_nonneg N) as PN. pose proof (nonempty_len E (rq_ne _ _ _ _ R)) as LE.
  wprefix R HN. zb.
  destruct (read_offset_data_rep st f E slack R) as (s0 & -> & F0).
  wranges R.
  set (e := start + lenZ N - 1) in *.
  assert (C : (f <=? start) && (e <=? f + lenZ E - 1) && is_none (s_conn_mem st) = true ->
              f <= start /\ e <= f + lenZ E - 1 /\ s_conn_mem st = None).
  { intros HI. apply andb_prop in HI as [HI H3]. apply andb_prop in HI as [H1' H2'].
    apply Z.leb_le in H1', H2'. destruct (s_conn_mem st); [discriminate|]. auto. }
  destruct ((f <=? start) && (e <=? f + lenZ E - 1) && is_none (s_conn_mem st)) eqn:HI; cbn [andb].
  - destruct (C eq_refl) as (C1 & C2 & C3).
    rewrite (offs_range_size f E start e) by (subst e; lia).
    destruct NF as [NF|[NF|[NF|[NF1 NF2]]]]; try (congruence || lia). zb.
    subst e. inmem_tail R Hpar HN AN F0 st s0 f E slack start N.
  - subst e. inmem_tail R Hpar HN AN F0 st s0 f E slack start N.
Qed.


(* ---- the two paths that write the user's data directly into the node (range inside, connectivity not cached) ---- *)
Lemma nthZ_offs_app b A B k d : k = lenZ A -> nthZ (offs_from b (A ++ B)) k d = b + clen A.
Proof.
  intros ->. rewrite offs_from_app, (offs_from_hd _ B). rewrite <- (offs_init_length b A). apply nthZ_app_at.
Qed.
Lemma offs_tl_length b A : length (tl (offs_from b A)) = length A.
Proof. pose proof (offs_from_length b A) as L. rewrite (offs_from_hd b A), lenZ_cons in L. unfold lenZ in L. lia. Qed.
Lemma skipn_tl_offs c A B n : n = length A -> skipn n (tl (offs_from c (A ++ B))) = tl (offs_from (c + clen A) B).
Proof.
  intros ->. rewrite offs_from_app_tl, (offs_from_hd c A). cbn [app tl].
  rewrite <- (offs_tl_length c A). apply skipn_app_len.
Qed.

Lemma file_write_over pre rest data n :
  n = lenZ data -> 0 < n -> n <= lenZ rest ->
  file_write (pre ++ rest) (lenZ pre + 1) (lenZ pre + n) data = Some (pre ++ data ++ skipn (Z.to_nat n) rest).
Proof.
  intros Hn Hp Hr. rewrite <- (firstn_skipn (Z.to_nat n) rest) at 1.
  assert (L : lenZ (firstn (Z.to_nat n) rest) = n) by (apply lenZ_firstnZ; lia).
  apply file_write_at; try lia.
  replace (length (firstn (Z.to_nat n) rest)) with (length data) by (unfold lenZ in *; lia).
  apply firstn_all.
Qed.

(* the offsets after the accumulation over the addressed range (both direct paths) *)
Lemma accum_inside Hd Mid T N cnt j :
  cnt = length N -> length Mid = length N -> j = lenZ Hd ->
  accum_offsets cnt (offs_from 0 (Hd ++ Mid ++ T)) j (offs_from 0 N) 0
  = Some (offs_init 0 Hd ++ offs_from (clen Hd) N ++ tl (offs_from (clen Hd + clen Mid) T), lenZ Hd + lenZ N).
Proof.
  intros -> HL ->. rewrite offs_from_app, (offs_from_hd _ (Mid ++ T)).
  rewrite (accum_offsets_all N) by (rewrite ?offs_init_length; try reflexivity;
     unfold lenZ; rewrite offs_tl_length, app_length; lia).
  rewrite <- HL, skipn_tl_offs by reflexivity. rewrite ?offs_init_length. do 4 f_equal; lia.
Qed.

Lemma poly_write_inplace' pv st f Hd Mid T slack N mt :
  rep_poly st f (Hd ++ Mid ++ T) slack -> s_par st = None -> s_conn_mem st = None ->
  N <> [] -> nonempty_all N -> length Mid = length N -> clen Mid = clen N ->
  exists st', poly_elements_general_write pv st (f + lenZ Hd) (f + lenZ Hd + lenZ N - 1) mt (concat N) (offs_from 0 N)
              = ROk st'
     /\ rep_poly st' f (Hd ++ N ++ T) slack
     /\ s_conn_mem st' = None /\ s_dim st' = s_dim st
     /\ s_par st' = None /\ s_type st' = s_type st /\ s_dt st' = s_dt st.
Proof.
  intros R Hpar Hmem HN AN HL HC.
  pose proof (clen_nonneg N) as PN. pose proof (nonempty_all_clen N AN) as CN.
  assert (LM : lenZ Mid = lenZ N) by (unfold lenZ; lia).
  pose proof (lenZ_nonneg Hd). pose proof (lenZ_nonneg T). pose proof (lenZ_nonneg slack).
  pose proof (clen_nonneg T). pose proof (clen_nonneg Hd).
  wprefix R HN. zb.
  destruct (read_offset_data_rep st f _ slack R) as (s0 & -> & F0).
  wranges R. rewrite Hmem. lens. cbn [is_none].
  replace (f + lenZ Hd - f) with (lenZ Hd) by lia.
  replace (f + lenZ Hd + lenZ N - 1 - f + 1) with (lenZ Hd + lenZ N) by lia.
  rewrite (nthZ_offs_app 0 Hd (Mid ++ T) (lenZ Hd)) by reflexivity.
  rewrite (app_assoc Hd Mid T), (nthZ_offs_app 0 (Hd ++ Mid) T (lenZ Hd + lenZ N)) by (lens; lia).
  rewrite <- (app_assoc Hd Mid T).
  rewrite clen_app. zb. cbn [andb].
  rewrite (user_take_all (concat N)) by reflexivity.
  rewrite (rq_conn _ _ _ _ R), !concat_app, <- !app_assoc.
  replace (0 + clen Hd + 1) with (lenZ (concat Hd) + 1) by (rewrite lenZ_concat; lia).
  replace (0 + (clen Hd + clen Mid)) with (lenZ (concat Hd) + clen N) by (rewrite lenZ_concat; lia).
  rewrite file_write_over by (lens2; lia).
  replace (Z.to_nat (clen N)) with (length (concat Mid)) by (unfold clen, lenZ in *; lia).
  rewrite skipn_app_len.
  rewrite (accum_inside Hd Mid T N) by (auto using to_nat_lenZ).
  assert (OS : offs_init 0 Hd ++ offs_from (clen Hd) N ++ tl (offs_from (clen Hd + clen Mid) T)
               = offs_from 0 (Hd ++ N ++ T)).
  { rewrite (offs_from_app 0 Hd), (offs_from_app_tl _ N T). do 4 f_equal; lia. }
  rewrite OS.
  assert (FO : firstn (Z.to_nat (s_odim st)) (offs_from 0 (Hd ++ N ++ T)) = offs_from 0 (Hd ++ N ++ T)).
  { apply firstn_all2. rewrite (rq_odim _ _ _ _ R). pose proof (offs_from_length 0 (Hd ++ N ++ T)) as L.
    revert L. lens. unfold lenZ in *. lia. }
  rewrite FO.
  destruct F0 as (F01 & F02 & F03 & F04 & F05 & F06 & F07 & F08 & F09 & F010 & F011 & F012).
  unfold parent_resize. proj. rewrite F012, Hpar.
  eexists. split; [reflexivity|]. proj. rewrite F01, F02, F012.
  split; [|auto].
  pose proof (rq_all _ _ _ _ R) as A. apply Forall_app in A as [A1 A2]. apply Forall_app in A2 as [A2 A3].
  constructor; proj; rewrite ?F01, ?F08, ?F03, ?F04; auto; try apply R.
  - intro Q. apply (f_equal (@length _)) in Q. rewrite !app_length in Q. unfold lenZ in *. simpl in Q. lia.
  - repeat apply nonempty_all_app; auto.
  - rewrite (rq_r1 _ _ _ _ R). lens. lia.
  - now rewrite !concat_app, <- !app_assoc.
  - rewrite (rq_dim _ _ _ _ R). rewrite !clen_app. lia.
  - rewrite (rq_odim _ _ _ _ R). lens. lia.
Qed.

Lemma shift_inside Hd Mid T N cnt j delta :
  cnt = length T -> j = lenZ Hd + lenZ N -> delta = clen N - clen Mid ->
  shift_offsets cnt (offs_init 0 Hd ++ offs_from (clen Hd) N ++ tl (offs_from (clen Hd + clen Mid) T)) j delta
  = Some (offs_from 0 (Hd ++ N ++ T)).
Proof.
  intros -> -> ->. rewrite (offs_from_init (clen Hd) N), <- !app_assoc, (app_assoc (offs_init 0 Hd)). cbn [app].
  rewrite <- (app_nil_r (tl (offs_from (clen Hd + clen Mid) T))).
  rewrite <- (offs_tl_length (clen Hd + clen Mid) T).
  rewrite shift_offsets_spec by (lens; rewrite !offs_init_length; lia).
  rewrite offs_shift_tl, app_nil_r.
  rewrite (offs_from_app 0 Hd), (offs_from_app_tl _ N T), (offs_from_init (0 + clen Hd) N), <- !app_assoc.
  cbn [app]. do 4 f_equal; try lia. do 2 f_equal. lia.
Qed.

Lemma poly_write_relocate' pv st f Hd Mid T slack N mt :
  rep_poly st f (Hd ++ Mid ++ T) slack -> s_par st = None -> s_conn_mem st = None ->
  N <> [] -> nonempty_all N -> length Mid = length N -> clen Mid <> clen N ->
  clen (Hd ++ Mid ++ T) + clen N - clen Mid <= s_dim st ->
  exists st' slack', poly_elements_general_write pv st (f + lenZ Hd) (f + lenZ Hd + lenZ N - 1) mt (concat N) (offs_from 0 N)
              = ROk st'
     /\ rep_poly st' f (Hd ++ N ++ T) slack'
     /\ s_conn_mem st' = None /\ s_dim st' = s_dim st
     /\ s_par st' = None /\ s_type st' = s_type st /\ s_dt st' = s_dt st.
Proof.
  intros R Hpar Hmem HN AN HL HC HF.
  pose proof (clen_nonneg N) as PN. pose proof (nonempty_all_clen N AN) as CN.
  assert (LM : lenZ Mid = lenZ N) by (unfold lenZ; lia).
  pose proof (lenZ_nonneg Hd). pose proof (lenZ_nonneg T). pose proof (lenZ_nonneg slack).
  pose proof (clen_nonneg T). pose proof (clen_nonneg Hd). pose proof (clen_nonneg Mid).
  pose proof (rq_dim _ _ _ _ R) as HD. rewrite !clen_app in HD, HF.
  assert (NT : nonempty_all T)
    by (pose proof (rq_all _ _ _ _ R) as A; apply Forall_app in A as [_ A]; apply Forall_app in A as [_ A]; exact A).
  pose proof (nonempty_all_clen T NT) as CT.
  wprefix R HN. zb.
  destruct (read_offset_data_rep st f _ slack R) as (s0 & -> & F0).
  wranges R. rewrite Hmem. lens. cbn [is_none].
  replace (f + lenZ Hd - f) with (lenZ Hd) by lia.
  replace (f + lenZ Hd + lenZ N - 1 - f + 1) with (lenZ Hd + lenZ N) by lia.
  rewrite (nthZ_offs_app 0 Hd (Mid ++ T) (lenZ Hd)) by reflexivity.
  rewrite (app_assoc Hd Mid T), (nthZ_offs_app 0 (Hd ++ Mid) T (lenZ Hd + lenZ N)) by (lens; lia).
  rewrite <- (app_assoc Hd Mid T).
  rewrite !clen_app. zb. cbn [andb].
  replace (0 + (clen Hd + (clen Mid + clen T)) - (0 + (clen Hd + clen Mid))) with (clen T) by lia.
  replace (0 + (clen Hd + clen Mid) - (0 + clen Hd)) with (clen Mid) by lia.
  rewrite (user_take_all (concat N)) by reflexivity.
  rewrite (rq_conn _ _ _ _ R), !concat_app, <- !app_assoc.
  set (rest2 := skipn (Z.to_nat (clen N)) (concat Mid ++ concat T ++ slack)).
  assert (LR2 : lenZ rest2 = clen Mid + clen T + lenZ slack - clen N)
    by (subst rest2; rewrite lenZ_skipnZ; lens2; lia).
  assert (W1 : file_write (concat Hd ++ concat Mid ++ concat T ++ slack) (0 + clen Hd + 1) (0 + clen Hd + clen N) (concat N)
               = Some (concat Hd ++ concat N ++ rest2)).
  { replace (0 + clen Hd + 1) with (lenZ (concat Hd) + 1) by (rewrite lenZ_concat; lia).
    replace (0 + clen Hd + clen N) with (lenZ (concat Hd) + clen N) by (rewrite lenZ_concat; lia).
    apply file_write_over; lens2; lia. }
  assert (X : (if 0 <? clen T
               then file_read (concat Hd ++ concat Mid ++ concat T ++ slack) (0 + (clen Hd + clen Mid) + 1)
                              (0 + (clen Hd + (clen Mid + clen T)))
               else Some []) = Some (concat T)).
  { destruct (Z.ltb_spec 0 (clen T)) as [PT|PT].
    - rewrite (app_assoc (concat Hd) (concat Mid)).
      apply (file_read_at (concat Hd ++ concat Mid) (concat T) slack); lens2; lia.
    - assert (T = []) as -> by (apply lenZ_zero_nil; lia). reflexivity. }
  assert (Y : (if 0 <? clen T
               then file_write (concat Hd ++ concat N ++ rest2) (0 + clen Hd + clen N + 1)
                               (0 + clen Hd + clen N + clen T) (concat T)
               else Some (concat Hd ++ concat N ++ rest2))
              = Some (concat Hd ++ concat N ++ concat T ++ skipn (Z.to_nat (clen T)) rest2)).
  { destruct (Z.ltb_spec 0 (clen T)) as [PT|PT].
    - rewrite (app_assoc (concat Hd) (concat N)).
      replace (0 + clen Hd + clen N + 1) with (lenZ (concat Hd ++ concat N) + 1) by (lens2; lia).
      replace (0 + clen Hd + clen N + clen T) with (lenZ (concat Hd ++ concat N) + clen T) by (lens2; lia).
      rewrite file_write_over by (lens2; lia). now rewrite <- app_assoc.
    - assert (T = []) as -> by (apply lenZ_zero_nil; lia). reflexivity. }
  rewrite X, W1, Y.
  set (slack' := skipn (Z.to_nat (clen T)) rest2).
  assert (LS : lenZ slack' = clen Mid + lenZ slack - clen N) by (subst slack'; rewrite lenZ_skipnZ; lia).
  rewrite (accum_inside Hd Mid T N) by (auto using to_nat_lenZ).
  rewrite (shift_inside Hd Mid T N) by (try reflexivity; unfold lenZ in *; lia).
  assert (FO : firstn (Z.to_nat (s_odim st)) (offs_from 0 (Hd ++ N ++ T)) = offs_from 0 (Hd ++ N ++ T)).
  { apply firstn_all2. rewrite (rq_odim _ _ _ _ R). pose proof (offs_from_length 0 (Hd ++ N ++ T)) as L.
    revert L. lens. unfold lenZ in *. lia. }
  rewrite FO.
  destruct F0 as (F01 & F02 & F03 & F04 & F05 & F06 & F07 & F08 & F09 & F010 & F011 & F012).
  unfold parent_resize. proj. rewrite F012, Hpar.
  eexists. exists slack'. split; [reflexivity|]. proj. rewrite F01, F02, F012.
  split; [|auto].
  pose proof (rq_all _ _ _ _ R) as A. apply Forall_app in A as [A1 A2]. apply Forall_app in A2 as [A2 A3].
  constructor; proj; rewrite ?F01, ?F08, ?F03, ?F04; auto; try apply R.
  - intro Q. apply (f_equal (@length _)) in Q. rewrite !app_length in Q. unfold lenZ in *. simpl in Q. lia.
  - repeat apply nonempty_all_app; auto.
  - rewrite (rq_r1 _ _ _ _ R). lens. lia.
  - now rewrite !concat_app, <- !app_assoc.
  - rewrite !clen_app. lia.
  - rewrite (rq_odim _ _ _ _ R). lens. lia.
Qed.

(* the decomposition of E around an inside range start .. start+|N|-1, and the splice in that case *)
Lemma inside_decomp (ph : list Z) f E start N :
  E <> [] -> N <> [] -> f <= start -> start + lenZ N - 1 <= f + lenZ E - 1 ->
  exists Hd Mid T,
  E = Hd ++ Mid ++ T /\ length Mid = length N /\ start = f + lenZ Hd /\
  slice_elems f E start (start + lenZ N - 1) = Mid /\ splice ph f E start N = Hd ++ N ++ T.
Proof.
  intros HE HN H1 H2.
  pose (k := Z.to_nat (start - f)). pose (n := length N).
  pose (Hd := firstn k E). pose (Mid := firstn n (skipn k E)). pose (T := skipn (k + n) E).
  exists Hd, Mid, T.
  pose proof (nonempty_len N HN). 
  split; [apply three_way|]. split.
  - subst Mid. rewrite firstn_length, skipn_length. unfold lenZ in *. lia.
  - split; [subst Hd k; rewrite lenZ_firstnZ; lia|]. split.
    + unfold slice_elems. subst Mid k n. f_equal. unfold lenZ. lia.
    + rewrite splice_is_struct by assumption. unfold splice_struct. zb.
      subst Hd T k n. do 3 f_equal. unfold lenZ. lia.
Qed.

(* ---- 4a. THE IN-PLACE FAST PATH: taken exactly when the range is inside, the connectivity is not cached and the
   replaced elements have the same TOTAL size as the new ones; connectivity node, dimension and slack stay, the
   ElementStartOffset entries of the addressed range are recomputed from the new element sizes. *)
Theorem poly_write_inplace pv st f E slack start N mt :
  rep_poly st f E slack -> s_par st = None -> N <> [] -> nonempty_all N ->
  s_conn_mem st = None -> f <= start -> start + lenZ N - 1 <= f + lenZ E - 1 ->
  clen (slice_elems f E start (start + lenZ N - 1)) = clen N ->
  exists st', poly_elements_general_write pv st start (start + lenZ N - 1) mt (concat N) (offs_from 0 N) = ROk st'
     /\ rep_poly st' f (splice (ph_of (s_type st)) f E start N) slack
     /\ s_conn_mem st' = None /\ s_dim st' = s_dim st
     /\ s_par st' = None /\ s_type st' = s_type st /\ s_dt st' = s_dt st.
Proof.
  intros R Hpar HN AN Hmem H1 H2 HC.
  destruct (inside_decomp (ph_of (s_type st)) f E start N (rq_ne _ _ _ _ R) HN H1 H2)
    as (Hd & Mid & T & EQ & HL & HS & HM & ->).
  rewrite HM in HC. subst E start.
  apply (poly_write_inplace' pv st f Hd Mid T slack N mt); auto.
Qed.

Theorem poly_write_relocate pv st f E slack start N mt :
  rep_poly st f E slack -> s_par st = None -> N <> [] -> nonempty_all N ->
  s_conn_mem st = None -> f <= start -> start + lenZ N - 1 <= f + lenZ E - 1 ->
  clen (slice_elems f E start (start + lenZ N - 1)) <> clen N ->
  clen E + clen N - clen (slice_elems f E start (start + lenZ N - 1)) <= s_dim st ->
  exists st' slack', poly_elements_general_write pv st start (start + lenZ N - 1) mt (concat N) (offs_from 0 N) = ROk st'
     /\ rep_poly st' f (splice (ph_of (s_type st)) f E start N) slack'
     /\ s_conn_mem st' = None /\ s_dim st' = s_dim st
     /\ s_par st' = None /\ s_type st' = s_type st /\ s_dt st' = s_dt st.
Proof.
  intros R Hpar HN AN Hmem H1 H2 HC HF.
  destruct (inside_decomp (ph_of (s_type st)) f E start N (rq_ne _ _ _ _ R) HN H1 H2)
    as (Hd & Mid & T & EQ & HL & HS & HM & ->).
  rewrite HM in HC, HF. subst E start.
  apply (poly_write_relocate' pv st f Hd Mid T slack N mt); auto.
Qed.

(* ---- THE WRITE THEOREM for variable-size sections ------------------------------------------------------------- *)
Theorem poly_write_is_splice pv st f E slack start N mt :
  rep_poly st f E slack -> s_par st = None -> N <> [] -> nonempty_all N ->
  exists st' slack', poly_elements_general_write pv st start (start + lenZ N - 1) mt (concat N) (offs_from 0 N) = ROk st'
     /\ rep_poly st' (Z.min f start) (splice (ph_of (s_type st)) f E start N) slack'
     /\ s_par st' = None /\ s_type st' = s_type st /\ s_dt st' = s_dt st.
Proof.
  intros R Hpar HN AN.
  destruct (s_conn_mem st) eqn:Hmem.
  { destruct (poly_write_inmemory pv st f E slack start N mt R Hpar HN AN) as (st' & W & R' & _ & P).
    - left. congruence.
    - exists st', []. auto. }
  destruct (Z.lt_ge_cases start f) as [C1|C1].
  { destruct (poly_write_inmemory pv st f E slack start N mt R Hpar HN AN) as (st' & W & R' & _ & P); [auto|].
    exists st', []. auto. }
  destruct (Z.lt_ge_cases (f + lenZ E - 1) (start + lenZ N - 1)) as [C2|C2].
  { destruct (poly_write_inmemory pv st f E slack start N mt R Hpar HN AN) as (st' & W & R' & _ & P); [auto|].
    exists st', []. auto. }
  replace (Z.min f start) with f by lia.
  destruct (Z.eq_dec (clen (slice_elems f E start (start + lenZ N - 1))) (clen N)) as [C3|C3].
  { destruct (poly_write_inplace pv st f E slack start N mt R Hpar HN AN Hmem C1 C2 C3) as (st' & W & R' & _ & _ & P).
    exists st', slack. auto. }
  destruct (Z.le_gt_cases (clen E + clen N - clen (slice_elems f E start (start + lenZ N - 1))) (s_dim st)) as [C4|C4].
  { destruct (poly_write_relocate pv st f E slack start N mt R Hpar HN AN Hmem C1 C2 C3 C4) as (st' & sl & W & R' & _ & _ & P).
    exists st', sl. auto. }
  destruct (poly_write_inmemory pv st f E slack start N mt R Hpar HN AN) as (st' & W & R' & _ & P).
  - right. right. right. split; [exact C3|lia].
  - exists st', []. replace (Z.min f start) with f in R' by lia. auto.
Qed.
