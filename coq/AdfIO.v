(* AdfIO.v -- executable model of the ADF core's file I/O under a fallible operating system (property C14).
   Definitions only.  Transcribed from src/adf/ADF_internals.c:
     ADFI_write (7934-7961), ADFI_read (6147-6175): the retry loops;
     ADFI_fseek_file (4708-4736), ADFI_fflush_file (3356-3381);
     ADFI_write_file (7982-8125), ADFI_read_file (6199-6292): the 4096-byte block buffers;
     ADFI_flush_buffers (4656-4689), ADFI_close_file (1749-1801, one file, no links, in_use = 1).

   The OS is an oracle: a stream of responses consumed one per system call (read, write, lseek, fsync, close),
   in call order -- exactly the numbering of harness/interpose.c's fault positions.  An exhausted stream answers
   every call normally, so the fault-free run is the run on the empty stream.
   Ghost state (no influence on the computation): the log of system calls (compared with the interposer's trace)
   and [rderr], set when a read() got a hard error.
   (The line numbers above are those of the round-1 transcription.  Re-read against /repo 19c9fb9: the only change in this
   layer since then is 82c39a0 -- ADFI_read_file returns FREAD_ERROR when block_offset + data_length exceeds the number of
   bytes the block read obtained (a short last block) -- transcribed in [read_file]; ADFI_write_file, incl. its block load
   `iret = ADFI_read(..); if (iret < DISK_BLOCK_SIZE) { if (iret < 0) iret = 0; blank fill }`, is unchanged.) *)
From Coq Require Import ZArith List Bool Arith Lia.
Import ListNotations.
Local Open Scope Z_scope.

Inductive resp := Ok (n : Z)     (* accept/deliver at most n bytes (clamped to 1..requested); n >= requested = normal *)
                | Eintr          (* -1, errno = EINTR, nothing transferred *)
                | Err (e : Z).   (* -1, errno = e <> EINTR, nothing transferred *)

Inductive call :=
| LWrite (off req : nat) (ret : Z)
| LRead (off req : nat) (ret : Z)
| LSeek (off : Z) (ret : Z)
| LFsync (ret : Z)
| LClose (ret : Z).

Record os := mkOs {
  disk : list Z;            (* bytes of the file *)
  pos : nat;                (* file position of the descriptor *)
  resps : list resp;        (* the oracle *)
  sys_err : Z;              (* ADF_sys_err *)
  log : list call;          (* ghost, newest first *)
  rderr : bool              (* ghost *)
}.

Definition EINTR : Z := 4.
Definition NO_ERROR : Z := -1.
Definition ADF_FILE_NOT_OPENED : Z := 9.
Definition FSEEK_ERROR : Z := 13.
Definition FWRITE_ERROR : Z := 14.
Definition FREAD_ERROR : Z := 15.
Definition FILE_CLOSE_ERROR : Z := 43.
Definition FFLUSH_ERROR : Z := 61.
Definition MAX_FILE_SIZE_EXCEEDED : Z := 63.
Definition DISK_BLOCK_SIZE : Z := 4096.
Definition BLK : nat := 4096.
Definition CG_MAX_INT32 : Z := 2147483647.
Definition MAXIMUM_32_BITS : Z := 4294967295.

(* pwrite semantics on a byte list: a hole before [p] reads as zeros *)
Definition pad (p : nat) (d : list Z) : list Z := firstn p d ++ repeat 0 (p - length d)%nat.
Definition wsplice (d : list Z) (p : nat) (x : list Z) : list Z :=
  match x with
  | [] => d                                   (* nothing written: no hole is materialised *)
  | _ :: _ => pad p d ++ x ++ skipn (p + length x)%nat d
  end.

Definition clamp (n : Z) (req : nat) : nat := Z.to_nat (Z.max 1 (Z.min n (Z.of_nat req))).

(* write(fd, data, length data), data non-empty *)
Definition sys_write (o : os) (data : list Z) : Z * Z * os :=
  let req := length data in
  match resps o with
  | [] => (Z.of_nat req, 0,
           mkOs (wsplice (disk o) (pos o) data) (pos o + req)%nat [] (sys_err o)
                (LWrite (pos o) req (Z.of_nat req) :: log o) (rderr o))
  | Ok n :: r => let m := clamp n req in
                 (Z.of_nat m, 0,
                  mkOs (wsplice (disk o) (pos o) (firstn m data)) (pos o + m)%nat r (sys_err o)
                       (LWrite (pos o) req (Z.of_nat m) :: log o) (rderr o))
  | Eintr :: r => (-1, EINTR, mkOs (disk o) (pos o) r (sys_err o) (LWrite (pos o) req (-1) :: log o) (rderr o))
  | Err e :: r => (-1, e, mkOs (disk o) (pos o) r (sys_err o) (LWrite (pos o) req (-1) :: log o) (rderr o))
  end.

(* read(fd, buf, req), req > 0: returns the bytes delivered *)
Definition sys_read (o : os) (req : nat) : Z * Z * list Z * os :=
  let avail := (length (disk o) - pos o)%nat in
  match resps o with
  | Eintr :: r => (-1, EINTR, [], mkOs (disk o) (pos o) r (sys_err o) (LRead (pos o) req (-1) :: log o) (rderr o))
  | Err e :: r => (-1, e, [], mkOs (disk o) (pos o) r (sys_err o) (LRead (pos o) req (-1) :: log o)
                             (if e =? EINTR then rderr o else true))
  | rs => let m := Nat.min (match rs with Ok n :: _ => clamp n req | _ => req end) avail in
          (Z.of_nat m, 0, firstn m (skipn (pos o) (disk o)),
           mkOs (disk o) (pos o + m)%nat (tl rs) (sys_err o) (LRead (pos o) req (Z.of_nat m) :: log o) (rderr o))
  end.

(* lseek(fd, off, SEEK_SET), off >= 0; anything but Ok fails *)
Definition sys_lseek (o : os) (off : Z) : Z * Z * os :=
  match resps o with
  | Eintr :: r => (-1, EINTR, mkOs (disk o) (pos o) r (sys_err o) (LSeek off (-1) :: log o) (rderr o))
  | Err e :: r => (-1, e, mkOs (disk o) (pos o) r (sys_err o) (LSeek off (-1) :: log o) (rderr o))
  | rs => (off, 0, mkOs (disk o) (Z.to_nat off) (tl rs) (sys_err o) (LSeek off off :: log o) (rderr o))
  end.

Definition sys_fsync (o : os) : Z * Z * os :=
  match resps o with
  | Eintr :: r => (-1, EINTR, mkOs (disk o) (pos o) r (sys_err o) (LFsync (-1) :: log o) (rderr o))
  | Err e :: r => (-1, e, mkOs (disk o) (pos o) r (sys_err o) (LFsync (-1) :: log o) (rderr o))
  | rs => (0, 0, mkOs (disk o) (pos o) (tl rs) (sys_err o) (LFsync 0 :: log o) (rderr o))
  end.

Definition sys_close (o : os) : Z * Z * os :=
  match resps o with
  | Eintr :: r => (-1, EINTR, mkOs (disk o) (pos o) r (sys_err o) (LClose (-1) :: log o) (rderr o))
  | Err e :: r => (-1, e, mkOs (disk o) (pos o) r (sys_err o) (LClose (-1) :: log o) (rderr o))
  | rs => (0, 0, mkOs (disk o) (pos o) (tl rs) (sys_err o) (LClose 0 :: log o) (rderr o))
  end.

Definition set_sys_err (o : os) (e : Z) : os := mkOs (disk o) (pos o) (resps o) e (log o) (rderr o).

(* ------------------------------------------------------------------ ADFI_write / ADFI_read *)
(* while (bytes_left > 0) { to_write = min(bytes_left, CG_MAX_INT32); nbytes = write(...);
     if (-1 == nbytes) { if (EINTR != errno) { ADF_sys_err = errno; return -1; } }
     else { bytes_left -= nbytes; bytes_out += nbytes; data_ptr += nbytes; } }  return bytes_out;
   None = out of fuel (excluded by theorem adfi_write_fuel) *)
Fixpoint adfi_write_loop (fuel : nat) (o : os) (left : list Z) (out : Z) : option (Z * os) :=
  match left with
  | [] => Some (out, o)
  | _ :: _ =>
      match fuel with
      | O => None
      | S f =>
          let to_write := Z.to_nat (Z.min (Z.of_nat (length left)) CG_MAX_INT32) in
          let '(n, errno, o') := sys_write o (firstn to_write left) in
          if n =? -1 then
            if errno =? EINTR then adfi_write_loop f o' left out
            else Some (-1, set_sys_err o' errno)
          else adfi_write_loop f o' (skipn (Z.to_nat n) left) (out + n)
      end
  end.

Definition write_fuel (o : os) (data : list Z) : nat := S (length (resps o) + length data)%nat.
Definition adfi_write (o : os) (data : list Z) : option (Z * os) :=
  adfi_write_loop (write_fuel o data) (set_sys_err o 0) data 0.

(* while (bytes_left > 0) { nbytes = read(...); if (0 == nbytes) break;
     if (-1 == nbytes) { if (EINTR != errno) { ADF_sys_err = errno; return -1; } }
     else { bytes_left -= nbytes; bytes_read += nbytes; data_ptr += nbytes; } }  return bytes_read;
   result: (return value, bytes stored at the front of the caller's buffer, os) *)
Fixpoint adfi_read_loop (fuel : nat) (o : os) (left : nat) (acc : list Z) : option (Z * list Z * os) :=
  match left with
  | O => Some (Z.of_nat (length acc), acc, o)
  | S _ =>
      match fuel with
      | O => None
      | S f =>
          let to_read := Z.to_nat (Z.min (Z.of_nat left) CG_MAX_INT32) in
          let '(n, errno, bytes, o') := sys_read o to_read in
          if n =? 0 then Some (Z.of_nat (length acc), acc, o')
          else if n =? -1 then
            if errno =? EINTR then adfi_read_loop f o' left acc
            else Some (-1, acc, set_sys_err o' errno)
          else adfi_read_loop f o' (left - length bytes)%nat (acc ++ bytes)
      end
  end.

Definition adfi_read (o : os) (len : nat) : option (Z * list Z * os) :=
  adfi_read_loop (S (length (resps o) + len)%nat) (set_sys_err o 0) len [].

(* ------------------------------------------------------------------ block buffers *)
Record cache := mkCache {
  rd_buf : list Z; last_rd_block : Z; last_rd_file : Z; num_in_rd : Z;
  wr_buf : list Z; last_wr_block : Z; last_wr_file : Z; flush_wr : Z
}.

Record st := mkSt { o_ : os; c_ : cache; in_use : bool }.

Definition init_cache : cache :=
  mkCache (repeat 0 BLK) (-1) (-1) (-1) (repeat 0 BLK) (-2) (-2) (-2).

Definition with_os (s : st) (o : os) : st := mkSt o (c_ s) (in_use s).
Definition with_cache (s : st) (c : cache) : st := mkSt (o_ s) c (in_use s).

Definition reset_rd (c : cache) : cache :=
  mkCache (rd_buf c) (-1) (-1) (-1) (wr_buf c) (last_wr_block c) (last_wr_file c) (flush_wr c).
Definition set_flush (c : cache) (v : Z) : cache :=
  mkCache (rd_buf c) (last_rd_block c) (last_rd_file c) (num_in_rd c) (wr_buf c) (last_wr_block c) (last_wr_file c) v.
Definition set_wr_id (c : cache) (b f : Z) : cache :=
  mkCache (rd_buf c) (last_rd_block c) (last_rd_file c) (num_in_rd c) (wr_buf c) b f (flush_wr c).
Definition set_wr_buf (c : cache) (buf : list Z) : cache :=
  mkCache (rd_buf c) (last_rd_block c) (last_rd_file c) (num_in_rd c) buf (last_wr_block c) (last_wr_file c) (flush_wr c).
Definition set_rd (c : cache) (buf : list Z) (b f n : Z) : cache :=
  mkCache buf b f n (wr_buf c) (last_wr_block c) (last_wr_file c) (flush_wr c).

(* memcpy(&buf[off], data, len) on a 4096-byte buffer *)
Definition bufput (buf : list Z) (off : nat) (data : list Z) : list Z :=
  firstn off buf ++ data ++ skipn (off + length data)%nat buf.

Inductive res (A : Type) := Done (a : A) (s : st) | Fail (e : Z) (s : st) | OutOfFuel.
Arguments Done {A}. Arguments Fail {A}. Arguments OutOfFuel {A}.

(* ADFI_fseek_file: offset = (file_offset_t)(block*4096 + off) in 64-bit arithmetic *)
Definition seek_offset (block off : Z) : Z :=
  let u := (block * DISK_BLOCK_SIZE + off) mod 2 ^ 64 in
  if u >=? 2 ^ 63 then u - 2 ^ 64 else u.

Definition fseek_file (s : st) (block off : Z) : res unit :=
  if negb (in_use s) then Fail ADF_FILE_NOT_OPENED s
  else
    let offset := seek_offset block off in
    if offset <? 0 then Fail MAX_FILE_SIZE_EXCEEDED s
    else
      let '(r, errno, o') := sys_lseek (set_sys_err (o_ s) 0) offset in
      if r <? 0 then Fail FSEEK_ERROR (with_os s (set_sys_err o' errno))
      else Done tt (with_os s o').

Definition fflush_file (s : st) : res unit :=
  if negb (in_use s) then Fail ADF_FILE_NOT_OPENED s
  else
    let '(r, errno, o') := sys_fsync (set_sys_err (o_ s) 0) in
    if r <? 0 then Fail FFLUSH_ERROR (with_os s (set_sys_err o' errno))
    else Done tt (with_os s o').

(* ADFI_write_file (file_index fi, block, offset, data); len = 0 is "just flush" *)
Definition write_file (s : st) (fi block off : Z) (data : list Z) : res unit :=
  if negb (in_use s) then Fail ADF_FILE_NOT_OPENED s
  else
    let len := Z.of_nat (length data) in
    let end_block := block + (off + len) / DISK_BLOCK_SIZE + 1 in
    let c := c_ s in
    (* the read buffer overlaps what is written: invalidate it *)
    let c := if (last_rd_file c =? fi) && (last_rd_block c >=? block) && (last_rd_block c <=? end_block)
             then reset_rd c else c in
    let s := with_cache s c in
    (* flush the write buffer when the write is large, leaves the buffered block, or is a pure flush *)
    let flushed : res unit :=
      if ((len + off >? DISK_BLOCK_SIZE) || negb (last_wr_block c =? block) || negb (last_wr_file c =? fi) ||
          (len =? 0)) && (flush_wr c >? 0)
      then
        match fseek_file s (last_wr_block c) 0 with
        | Done _ s1 =>
            match adfi_write (o_ s1) (wr_buf c) with
            | None => OutOfFuel
            | Some (iret, o2) =>
                (* flush_wr_block = -2 : "make sure we don't flush twice due to error" -- BEFORE the status test *)
                let s2 := mkSt o2 (set_flush c (-2)) (in_use s1) in
                if negb (iret =? DISK_BLOCK_SIZE) then Fail FWRITE_ERROR s2
                else
                  let c2 := c_ s2 in
                  if (last_wr_file c2 =? fi) && (last_wr_block c2 >=? block) && (last_wr_block c2 <=? end_block)
                  then Done tt (with_cache s2 (set_wr_id c2 (-2) (-2)))
                  else Done tt s2
            end
        | Fail e s1 => Fail e s1
        | OutOfFuel => OutOfFuel
        end
      else Done tt s in
    match flushed with
    | Done _ s =>
        if len =? 0 then Done tt s
        else if len + off >? DISK_BLOCK_SIZE then
          (* large piece: straight to disk *)
          match fseek_file s block off with
          | Done _ s1 =>
              match adfi_write (o_ s1) data with
              | None => OutOfFuel
              | Some (iret, o2) =>
                  if negb (iret =? len) then Fail FWRITE_ERROR (with_os s1 o2) else Done tt (with_os s1 o2)
              end
          | Fail e s1 => Fail e s1
          | OutOfFuel => OutOfFuel
          end
        else
          let c := c_ s in
          let loaded : res unit :=
            if negb (block =? last_wr_block c) || negb (fi =? last_wr_file c) then
              if (block =? last_rd_block c) && (fi =? last_rd_file c) then
                Done tt (with_cache s (set_wr_id (set_wr_buf c (rd_buf c)) block fi))
              else
                match fseek_file s block 0 with
                | Done _ s1 =>
                    match adfi_read (o_ s1) BLK with
                    | None => OutOfFuel
                    | Some (iret, bytes, o2) =>
                        (* if (iret < 4096) { if (iret < 0) iret = 0; memset(&buf[iret], ' ', 4096-iret); }
                           -- a read ERROR is treated like "block does not exist yet" *)
                        let got := bufput (wr_buf c) 0 bytes in
                        let n := Z.to_nat (Z.max 0 iret) in
                        let buf := if iret <? DISK_BLOCK_SIZE then firstn n got ++ repeat 32 (BLK - n)%nat else got in
                        Done tt (mkSt o2 (set_wr_id (set_wr_buf c buf) block fi) (in_use s1))
                    end
                | Fail e s1 => Fail e s1
                | OutOfFuel => OutOfFuel
                end
            else Done tt s in
          match loaded with
          | Done _ s =>
              let c := c_ s in
              Done tt (with_cache s (set_flush (set_wr_buf c (bufput (wr_buf c) (Z.to_nat off) data)) 1))
          | r => r
          end
    | r => r
    end.

(* ADFI_read_file: returns the bytes *)
Definition read_file (s : st) (fi block off : Z) (len : nat) : res (list Z) :=
  if negb (in_use s) then Fail ADF_FILE_NOT_OPENED s
  else if Z.of_nat len + off >? DISK_BLOCK_SIZE then
    match fseek_file s block off with
    | Done _ s1 =>
        match adfi_read (o_ s1) len with
        | None => OutOfFuel
        | Some (iret, bytes, o2) =>
            if negb (iret =? Z.of_nat len) then Fail FREAD_ERROR (with_os s1 o2) else Done bytes (with_os s1 o2)
        end
    | Fail e s1 => Fail e s1
    | OutOfFuel => OutOfFuel
    end
  else
    let c := c_ s in
    let loaded : res unit :=
      if (num_in_rd c <? DISK_BLOCK_SIZE) || negb (block =? last_rd_block c) || negb (fi =? last_rd_file c) then
        if (block =? last_wr_block c) && (fi =? last_wr_file c) then
          Done tt (with_cache s (set_rd c (wr_buf c) block fi DISK_BLOCK_SIZE))
        else
          match fseek_file s block 0 with
          | Done _ s1 =>
              match adfi_read (o_ s1) BLK with
              | None => OutOfFuel
              | Some (iret, bytes, o2) =>
                  let s2 := mkSt o2 (set_rd c (bufput (rd_buf c) 0 bytes) (last_rd_block c) (last_rd_file c) (num_in_rd c)) (in_use s1) in
                  if iret <=? 0 then Fail FREAD_ERROR s2
                  else Done tt (with_cache s2 (set_rd (c_ s2) (rd_buf (c_ s2)) block fi iret))
              end
          | Fail e s1 => Fail e s1
          | OutOfFuel => OutOfFuel
          end
      else Done tt s in
    match loaded with
    | Done _ s =>
        (* /repo 82c39a0: the last block of a file is short -- what lies beyond the bytes obtained from the file was not read:
           if (data_length < 0 || block_offset + (cgulong_t)data_length > (cgulong_t)num_in_rd_block) FREAD_ERROR
           (data_length is a length here, never negative; the int num_in_rd_block is converted to unsigned 64 bit) *)
        if off + Z.of_nat len >? (num_in_rd (c_ s)) mod 2 ^ 64 then Fail FREAD_ERROR s
        else Done (firstn len (skipn (Z.to_nat off) (rd_buf (c_ s)))) s
    | Fail e s => Fail e s
    | OutOfFuel => OutOfFuel
    end.

(* ADFI_flush_buffers (close = true for FLUSH_CLOSE) *)
Definition flush_buffers (s : st) (fi : Z) (close : bool) : res unit :=
  if negb (in_use s) then Fail ADF_FILE_NOT_OPENED s
  else
    let r : res unit :=
      if fi =? last_wr_file (c_ s) then
        let r := write_file s fi MAXIMUM_32_BITS 0 [] in
        let fix_ (s : st) := if close then with_cache s (set_flush (set_wr_id (c_ s) (-2) (-2)) (-2)) else s in
        match r with
        | Done _ s => Done tt (fix_ s)
        | Fail e s => Fail e (fix_ s)
        | OutOfFuel => OutOfFuel
        end
      else Done tt s in
    let fix2 (s : st) := if (fi =? last_rd_file (c_ s)) && close then with_cache s (reset_rd (c_ s)) else s in
    match r with
    | Done _ s => Done tt (fix2 s)
    | Fail e s => Fail e (fix2 s)
    | OutOfFuel => OutOfFuel
    end.

(* ADFI_close_file, one file, no links, in_use = 1 *)
Definition close_file (s : st) (fi : Z) : res unit :=
  if negb (in_use s) then Fail ADF_FILE_NOT_OPENED s
  else
    let r := flush_buffers (with_os s (set_sys_err (o_ s) 0)) fi true in
    (* if (CLOSE(fd) < 0) *error_return = FILE_CLOSE_ERROR;  -- a flush error is kept unless the close fails too *)
    let fin (s : st) (e : option Z) : res unit :=
      let '(cr, errno, o') := sys_close (o_ s) in
      let s' := mkSt (if cr <? 0 then set_sys_err o' errno else o') (c_ s) false in
      if cr <? 0 then Fail FILE_CLOSE_ERROR s'
      else match e with None => Done tt s' | Some e => Fail e s' end in
    match r with
    | Done _ s => fin s None
    | Fail e s => fin s (Some e)
    | OutOfFuel => OutOfFuel
    end.

(* ------------------------------------------------------------------ histories *)
Inductive op :=
| OWrite (block off : Z) (data : list Z)
| ORead (block off : Z) (len : nat)
| OFlush                         (* ADFI_flush_buffers(FLUSH): what every mutator's modification-date write ends with *)
| OFsync
| OClose.

(* one result per operation: status and (for reads) the bytes *)
(* status: None = NO_ERROR, Some e = the error code left in *error_return *)
Definition step (fi : Z) (s : st) (p : op) : option (option Z * list Z * st) :=
  let fin {A} (r : res A) (f : A -> list Z) :=
    match r with
    | Done a s' => Some (None, f a, s')
    | Fail e s' => Some (Some e, [], s')
    | OutOfFuel => None
    end in
  match p with
  | OWrite b o d => fin (write_file s fi b o d) (fun _ => [])
  | ORead b o n => fin (read_file s fi b o n) (fun x => x)
  | OFlush => fin (flush_buffers s fi false) (fun _ => [])
  | OFsync => fin (fflush_file s) (fun _ => [])
  | OClose => fin (close_file s fi) (fun _ => [])
  end.

(* per operation: status, bytes read, and the ghost flag "a read() has failed hard so far" *)
Fixpoint run (fi : Z) (s : st) (ops : list op) : option (list (option Z * list Z * bool) * st) :=
  match ops with
  | [] => Some ([], s)
  | p :: rest =>
      match step fi s p with
      | None => None
      | Some (e, d, s') =>
          match run fi s' rest with
          | None => None
          | Some (l, s'') => Some ((e, d, rderr (o_ s')) :: l, s'')
          end
      end
  end.

Definition mk_state (d : list Z) (rs : list resp) : st :=
  mkSt (mkOs d 0 rs 0 [] false) init_cache true.

Definition all_ok (l : list (option Z * list Z * bool)) : bool :=
  forallb (fun x => match fst (fst x) with None => true | Some _ => false end) l.
Definition no_read_error (l : list (option Z * list Z * bool)) : bool := forallb (fun x => negb (snd x)) l.

(* the stream-only specification of ADFI_write: bytes accepted in order, and whether a hard error came first *)
Fixpoint accepted (rs : list resp) (left : nat) : nat * bool :=
  match left with
  | O => (O, false)
  | S _ =>
      match rs with
      | [] => (left, false)
      | Ok n :: r => let m := clamp n (Z.to_nat (Z.min (Z.of_nat left) CG_MAX_INT32)) in
                     let '(a, e) := accepted r (left - m) in ((m + a)%nat, e)
      | Eintr :: r => accepted r left
      | Err e :: r => if e =? EINTR then accepted r left else (O, true)   (* the C code looks at errno only *)
      end
  end.

(* the write calls of a log segment (oldest first) are contiguous from [start]: no byte twice, none skipped *)
Fixpoint contig (start : nat) (l : list call) : option nat :=
  match l with
  | [] => Some start
  | LWrite off _ ret :: r => if Nat.eqb off start then contig (start + Z.to_nat (Z.max 0 ret)) r else None
  | _ :: r => None
  end.
