(* Properties_C02.v -- placeholder until TreeDBProofs.v lands: the statement that the model is non-trivial. *)
From Coq Require Import ZArith List.
From CgnsV Require Import TreeDB.
Import ListNotations.
Local Open Scope Z_scope.
Theorem C02_model_runs : fst (step_table false empty_table (OCreate 0 1 [65])) <> empty_table.
Proof. vm_compute. discriminate. Qed.
Print Assumptions C02_model_runs.
