(* Properties_C02.v -- exported laws of the ideal node database (TreeDB.v), the object every answer of the real
   cgio layer is compared with.  They say that TreeDB really is "an ideal in-memory tree holding the same
   operations": reads return the latest writes, every operation changes what it names and nothing else, child
   lists keep creation order, a close/reopen is the identity, files do not influence each other.
   Only statements closed by [exact]; Print Assumptions under each. *)
From Coq Require Import ZArith List.
From CgnsV Require Import ListX TreeDB TreeDBProofs.
Import ListNotations.
Local Open Scope Z_scope.

Theorem C02_tables_stay_well_formed : forall pol t o, WFt t -> WFt (fst (step_table pol t o)).
Proof. exact step_table_WF. Qed.
Print Assumptions C02_tables_stay_well_formed.

Theorem C02_read_after_write_all : forall t u d t',
  op_write_all t u d = (t', ROk) -> op_read_all t' u = RData (map Some d).
Proof. exact write_all_then_read. Qed.
Print Assumptions C02_read_after_write_all.

Theorem C02_read_after_write_block : forall t u b e d t',
  op_write_block t u b e d = (t', ROk) ->
  (forall r, find_node t u = Some r -> lenZ (n_data r) = node_bytes r) ->
  op_read_block t' u b e = RData (map Some d) /\
  forall r r', find_node t u = Some r -> find_node t' u = Some r' ->
    forall i, (i < Z.to_nat ((b - 1) * dt_size (n_dt r)) \/ Z.to_nat (e * dt_size (n_dt r)) <= i)%nat ->
      nth i (n_data r') None = nth i (n_data r) None.
Proof. exact write_block_then_read. Qed.
Print Assumptions C02_read_after_write_block.

Theorem C02_local_ops_frame : forall t o u t' res, WFt t -> local_target o = Some u ->
  step_table false t o = (t', res) ->
  (forall v, v <> u -> find_node t' v = find_node t v) /\
  map n_uid t' = map n_uid t /\
  (forall p, map n_uid (children t' p) = map n_uid (children t p)) /\
  (forall r r', find_node t u = Some r -> find_node t' u = Some r' ->
                n_parent r' = n_parent r /\ n_name r' = n_name r /\ n_link r' = n_link r).
Proof. exact local_op_frame. Qed.
Print Assumptions C02_local_ops_frame.

Theorem C02_queries_are_pure : forall pol t o, is_mutator o = false -> fst (step_table pol t o) = t.
Proof. exact queries_pure. Qed.
Print Assumptions C02_queries_are_pure.

Theorem C02_create_appends : forall pol t p u nm t', step_table pol t (OCreate p u nm) = (t', ROk) ->
  (forall v, v <> u -> find_node t' v = find_node t v) /\
  find_node t' u = Some (mkN u p nm [] s_MT [] [] None) /\
  children t' p = children t p ++ [mkN u p nm [] s_MT [] [] None] /\
  (forall q, q <> p -> children t' q = children t q).
Proof. exact create_frame. Qed.
Print Assumptions C02_create_appends.

Theorem C02_delete_removes_exactly_the_subtree : forall pol t p u t',
  step_table pol t (ODelete p u) = (t', ROk) ->
  let dead := descendants t u in
  (forall v r, find_node t v = Some r -> ~ In v dead -> find_node t' v = Some r) /\
  (forall v, In v dead -> find_node t' v = None) /\
  (forall q, children t' q = filter (fun x => negb (existsb (Z.eqb (n_uid x)) dead)) (children t q)).
Proof. exact delete_frame. Qed.
Print Assumptions C02_delete_removes_exactly_the_subtree.

Theorem C02_rename_in_place : forall t p u nm t', WFt t -> step_table false t (ORename p u nm) = (t', ROk) ->
  (forall v, v <> u -> find_node t' v = find_node t v) /\
  (forall q, map n_uid (children t' q) = map n_uid (children t q)) /\
  (exists r, find_node t u = Some r /\
             find_node t' u = Some (mkN u p nm (n_label r) (n_dt r) (n_dims r) (n_data r) (n_link r))).
Proof. exact rename_frame. Qed.
Print Assumptions C02_rename_in_place.

Theorem C02_move_relinks_one_node : forall pol t p u np t', step_table pol t (OMove p u np) = (t', ROk) ->
  (forall v, v <> u -> find_node t' v = find_node t v) /\
  (exists r, find_node t u = Some r /\
     let r' := mkN u np (n_name r) (n_label r) (n_dt r) (n_dims r) (n_data r) (n_link r) in
     find_node t' u = Some r' /\
     children t' np = filter (fun x => negb (n_uid x =? u)) (children t np) ++ [r'] /\
     forall q, q <> np -> children t' q = filter (fun x => negb (n_uid x =? u)) (children t q)).
Proof. exact move_frame. Qed.
Print Assumptions C02_move_relinks_one_node.

Theorem C02_reopen_is_identity : forall s f mode s1 s2,
  close_file s f = (s1, ROk) -> open_file s1 f false mode 0 = (s2, ROk) ->
  get_file (s_world s2) f = get_file (s_world s) f /\ get_mode (s_modes s2) f = mode /\
  get_mode (s_pol s2) f = get_mode (s_pol s) f.
Proof. exact reopen_identity. Qed.
Print Assumptions C02_reopen_is_identity.

Theorem C02_files_are_independent : forall evs s1 s2 f, view s1 f = view s2 f ->
  run_for s1 evs f = run_for s2 (only f evs) f /\
  view (final s1 evs) f = view (final s2 (only f evs)) f.
Proof. exact interleaving_independent. Qed.
Print Assumptions C02_files_are_independent.

Theorem C02_wrong_parent_refused : forall to_end t p u r nm np,
  find_node t u = Some r -> n_parent r <> p ->
  step_table to_end t (ODelete p u) = (t, RErr) /\
  step_table to_end t (ORename p u nm) = (t, RErr) /\
  step_table to_end t (OMove p u np) = (t, RErr).
Proof. exact wrong_parent_refused. Qed.
Print Assumptions C02_wrong_parent_refused.

(* non-vacuity: A/x and B/x exist; the node A/x (uid 3) with the parent B (uid 2), which has a child of that name *)
Example C02_wrong_parent_example :
  let t1 := fst (step_table false empty_table (OCreate 0 1 [65])) in
  let t2 := fst (step_table false t1 (OCreate 0 2 [66])) in
  let t3 := fst (step_table false t2 (OCreate 1 3 [120])) in
  let t4 := fst (step_table false t3 (OCreate 2 4 [120])) in
  (exists r, find_node t4 3 = Some r /\ n_parent r <> 2) /\
  step_table false t4 (ORename 2 3 [110]) = (t4, RErr) /\
  snd (step_table false t4 (ORename 1 3 [110])) = ROk.
Proof. vm_compute. split; [eexists; split; [reflexivity|discriminate]|split; reflexivity]. Qed.

(* non-vacuity: a concrete history exercising create / dims / write / block write / delete / rename / move *)
Example C02_example :
  let t1 := fst (step_table false empty_table (OCreate 0 1 [65])) in
  let t2 := fst (step_table false t1 (OCreate 0 2 [66])) in
  let t3 := fst (step_table false t2 (ODims 1 [73; 52] [3])) in
  let t4 := fst (step_table false t3 (OWriteAll 1 [1;0;0;0; 2;0;0;0; 3;0;0;0])) in
  let t5 := fst (step_table false t4 (OWriteBlock 1 2 2 [9;9;9;9])) in
  WFt t5 /\ snd (step_table false t5 (OReadAll 1)) =
            RData (map Some [1;0;0;0; 9;9;9;9; 3;0;0;0]) /\
  snd (step_table false t5 (OMove 0 2 1)) = ROk.
Proof.
  cbv zeta. split; [|split; vm_compute; reflexivity].
  repeat apply step_table_WF. apply WFt_empty.
Qed.
