(* AdfCache.v -- executable, fault-free model of the two shared 4096-byte block buffers of the ADF core, for ANY
   NUMBER OF FILES open together (property C02, extension C02b).  Definitions only.

   Transcribed from src/adf/ADF_internals.c (line numbers of /repo def473d; the routines are found by name):
     statics  rd_block_buffer, last_rd_block, last_rd_file, num_in_rd_block,
              wr_block_buffer, last_wr_block, last_wr_file, flush_wr_block          (269-276)
     ADFI_read_file, ADFI_write_file, ADFI_flush_buffers (as of /repo ab35c99, found by name),
     ADFI_fseek_file's in_use test (4746-4749), the buffer part of ADFI_close_file (1775-1830, in_use = 1, no links)
     and of ADFI_open_file (5477-: a slot becomes in use; no buffer is touched).
   AdfIO.v (property C14) has the same routines for ONE file under a fallible operating system; here the OS never
   fails, and the file index is carried through every comparison because the buffers are shared between files.

   A file is its length and a finite map offset -> byte; a hole left by a write past the end reads as zeros.
   Integers are Z: the model is the C code wherever no 64-bit wrap occurs, i.e. for 0 <= block <= 2^32-1 (what a
   disk pointer can hold), 0 <= offset < 2^32, length < 2^40 ([in_c_range]; the trace monitor checks it). *)
From Coq Require Import ZArith List Bool Lia FMapPositive.
Import ListNotations.
Local Open Scope Z_scope.

Definition BLK : Z := 4096.                       (* DISK_BLOCK_SIZE *)
Definition MAXIMUM_32_BITS : Z := 4294967295.
Definition NO_ERROR : Z := -1.
Definition ADF_FILE_NOT_OPENED : Z := 9.
Definition FREAD_ERROR : Z := 15.
Definition FILE_OPEN_ERROR : Z := 8.

Definition lenZ {A} (l : list A) : Z := Z.of_nat (length l).

(* ------------------------------------------------------------------ files *)
Definition key (p : Z) : positive := Z.to_pos (p + 1).        (* injective on p >= 0 *)
Definition bmap := PositiveMap.t Z.
Record disk := mkDisk { dlen : Z; dbytes : bmap }.

Definition mfind (m : bmap) (p : Z) : Z := match PositiveMap.find (key p) m with Some v => v | None => 0 end.
Fixpoint mget (m : bmap) (p : Z) (n : nat) : list Z :=
  match n with O => [] | S k => mfind m p :: mget m (p + 1) k end.
Fixpoint mput (m : bmap) (p : Z) (l : list Z) : bmap :=
  match l with [] => m | x :: r => mput (PositiveMap.add (key p) x m) (p + 1) r end.

(* lseek(p) + read(n): delivers what the file has from p on, at most n bytes *)
Definition pread (d : disk) (p n : Z) : list Z := mget (dbytes d) p (Z.to_nat (Z.min n (dlen d - p))).
(* lseek(p) + write(data): nothing written = nothing changes (no hole is materialised) *)
Definition pwrite (d : disk) (p : Z) (data : list Z) : disk :=
  match data with [] => d | _ :: _ => mkDisk (Z.max (dlen d) (p + lenZ data)) (mput (dbytes d) p data) end.
Definition dnth (d : disk) (p : Z) : Z := mfind (dbytes d) p.
Definition disk_of_list (l : list Z) : disk := mkDisk (lenZ l) (mput (PositiveMap.empty Z) 0 l).
Definition disk_to_list (d : disk) : list Z := mget (dbytes d) 0 (Z.to_nat (dlen d)).

Definition fmap := PositiveMap.t disk.            (* file index -> file; absent = slot not in use *)

(* ------------------------------------------------------------------ the shared cache *)
Record cache := mkCache {
  rd_buf : list Z; last_rd_block : Z; last_rd_file : Z; num_in_rd : Z;
  wr_buf : list Z; last_wr_block : Z; last_wr_file : Z; flush_wr : Z
}.
Record st := mkSt { files : fmap; c_ : cache }.

Definition init_cache : cache :=
  mkCache (repeat 0 (Z.to_nat BLK)) (-1) (-1) (-1) (repeat 0 (Z.to_nat BLK)) (-2) (-2) (-2).
Definition init_st : st := mkSt (PositiveMap.empty disk) init_cache.

Definition fget (s : st) (f : Z) : option disk := if f <? 0 then None else PositiveMap.find (key f) (files s).
Definition fset (s : st) (f : Z) (d : disk) : st := mkSt (PositiveMap.add (key f) d (files s)) (c_ s).
Definition fdel (s : st) (f : Z) : st := mkSt (PositiveMap.remove (key f) (files s)) (c_ s).
Definition with_cache (s : st) (c : cache) : st := mkSt (files s) c.

Definition reset_rd (c : cache) : cache :=
  mkCache (rd_buf c) (-1) (-1) (-1) (wr_buf c) (last_wr_block c) (last_wr_file c) (flush_wr c).
Definition set_flush (c : cache) (v : Z) : cache :=
  mkCache (rd_buf c) (last_rd_block c) (last_rd_file c) (num_in_rd c) (wr_buf c) (last_wr_block c) (last_wr_file c) v.
Definition set_wr_id (c : cache) (b f : Z) : cache :=
  mkCache (rd_buf c) (last_rd_block c) (last_rd_file c) (num_in_rd c) (wr_buf c) b f (flush_wr c).
Definition set_wr_buf (c : cache) (buf : list Z) : cache :=
  mkCache (rd_buf c) (last_rd_block c) (last_rd_file c) (num_in_rd c) buf (last_wr_block c) (last_wr_file c) (flush_wr c).
Definition set_rd_buf (c : cache) (buf : list Z) : cache :=
  mkCache buf (last_rd_block c) (last_rd_file c) (num_in_rd c) (wr_buf c) (last_wr_block c) (last_wr_file c) (flush_wr c).
Definition set_rd_id (c : cache) (b f n : Z) : cache :=
  mkCache (rd_buf c) b f n (wr_buf c) (last_wr_block c) (last_wr_file c) (flush_wr c).

(* memcpy(&buf[off], data, |data|) *)
Definition bufput (buf : list Z) (off : Z) (data : list Z) : list Z :=
  firstn (Z.to_nat off) buf ++ data ++ skipn (Z.to_nat off + length data) buf.
(* memcpy(out, &buf[off], len) *)
Definition bufsub (buf : list Z) (off len : Z) : list Z := firstn (Z.to_nat len) (skipn (Z.to_nat off) buf).

Inductive res := RUnit | RBytes (l : list Z) | RErr (e : Z).

(* ------------------------------------------------------------------ ADFI_read_file *)
(* the tail of the small path (since /repo 82c39a0): "the last block of a file is short: what lies beyond the bytes
   obtained from the file was not read" -- FREAD_ERROR instead of stale buffer contents *)
Definition serve_rd (s : st) (o len : Z) : res * st :=
  if (len <? 0) || (o + len >? num_in_rd (c_ s)) then (RErr FREAD_ERROR, s)
  else (RBytes (bufsub (rd_buf (c_ s)) o len), s).

Definition read_file (s : st) (f b o len : Z) : res * st :=
  match fget s f with
  | None => (RErr ADF_FILE_NOT_OPENED, s)
  | Some d =>
      if len + o >? BLK then
        (* "No need to buffer large pieces of data": straight from the file, NEITHER buffer is looked at *)
        let bytes := pread d (b * BLK + o) len in
        if lenZ bytes =? len then (RBytes bytes, s) else (RErr FREAD_ERROR, s)
      else
        let c := c_ s in
        if (num_in_rd c <? BLK) || negb (b =? last_rd_block c) || negb (f =? last_rd_file c) then
          if (b =? last_wr_block c) && (f =? last_wr_file c) then
            (* memcpy(rd_block_buffer, wr_block_buffer, 4096); iret = 4096 *)
            serve_rd (with_cache s (set_rd_id (set_rd_buf c (wr_buf c)) b f BLK)) o len
          else
            let bytes := pread d (b * BLK) BLK in
            let c1 := set_rd_buf c (bufput (rd_buf c) 0 bytes) in     (* the buffer is clobbered even on error *)
            if lenZ bytes <=? 0 then (RErr FREAD_ERROR, with_cache s c1)
            else serve_rd (with_cache s (set_rd_id c1 b f (lenZ bytes))) o len
        else serve_rd s o len
  end.

(* EXACTLY when a read of an open file answers FREAD_ERROR, in terms of the state: [block_avail] = the bytes of block b
   the small path can serve (a current read buffer: its fill count; the block the write buffer holds: all 4096;
   else what the file has of that block) *)
Definition block_avail (s : st) (d : disk) (f b : Z) : Z :=
  let c := c_ s in
  if (num_in_rd c <? BLK) || negb (b =? last_rd_block c) || negb (f =? last_rd_file c) then
    if (b =? last_wr_block c) && (f =? last_wr_file c) then BLK else lenZ (pread d (b * BLK) BLK)
  else num_in_rd c.
Definition read_fails (s : st) (d : disk) (f b o len : Z) : bool :=
  if len + o >? BLK then negb (lenZ (pread d (b * BLK + o) len) =? len)
  else (block_avail s d f b <=? 0) || (len <? 0) || (o + len >? block_avail s d f b).

(* ------------------------------------------------------------------ ADFI_write_file *)
(* "If the read buffer overlaps the buffer then reset it" *)
Definition inval_rd (c : cache) (f b end_block : Z) : cache :=
  if (last_rd_file c =? f) && (last_rd_block c >=? b) && (last_rd_block c <=? end_block) then reset_rd c else c.

(* the conditional flush of the write buffer; None = ADFI_fseek_file(last_wr_file, ...) found that slot not in use *)
Definition flush_wr_buffer (s : st) (f b o len end_block : Z) : option st :=
  let c := c_ s in
  if ((len + o >? BLK) || negb (last_wr_block c =? b) || negb (last_wr_file c =? f) || (len =? 0))
     && (flush_wr c >? 0) then
    match fget s (last_wr_file c) with
    | None => None
    | Some dw =>
        let s1 := fset s (last_wr_file c) (pwrite dw (last_wr_block c * BLK) (wr_buf c)) in
        let c1 := set_flush c (-2) in
        let c2 := if (last_wr_file c1 =? f) && (last_wr_block c1 >=? b) && (last_wr_block c1 <=? end_block)
                  then set_wr_id c1 (-2) (-2) else c1 in
        Some (with_cache s1 c2)
    end
  else Some s.

(* make the write buffer hold block (b, f) *)
Definition load_wr_buffer (s : st) (d : disk) (f b : Z) : st :=
  let c := c_ s in
  if negb (b =? last_wr_block c) || negb (f =? last_wr_file c) then
    if (b =? last_rd_block c) && (f =? last_rd_file c) then
      (* memcpy(wr_block_buffer, rd_block_buffer, 4096): all 4096 bytes whatever num_in_rd_block is, no blank fill *)
      with_cache s (set_wr_id (set_wr_buf c (rd_buf c)) b f)
    else
      let bytes := pread d (b * BLK) BLK in
      let n := lenZ bytes in
      let got := bufput (wr_buf c) 0 bytes in
      (* if (iret < 4096) memset(&wr_block_buffer[iret], ' ', 4096 - iret) *)
      let buf := if n <? BLK then firstn (Z.to_nat n) got ++ repeat 32 (Z.to_nat (BLK - n)) else got in
      with_cache s (set_wr_id (set_wr_buf c buf) b f)
  else s.

Definition write_file (s : st) (f b o : Z) (data : list Z) : res * st :=
  match fget s f with
  | None => (RErr ADF_FILE_NOT_OPENED, s)
  | Some _ =>
      let len := lenZ data in
      let end_block := b + (o + len) / BLK + 1 in
      let s0 := with_cache s (inval_rd (c_ s) f b end_block) in
      match flush_wr_buffer s0 f b o len end_block with
      | None => (RErr ADF_FILE_NOT_OPENED, s0)
      | Some s1 =>
          if len =? 0 then (RUnit, s1)                                  (* "Just a buffer flush" *)
          else
            match fget s1 f with
            | None => (RErr ADF_FILE_NOT_OPENED, s1)
            | Some d =>
                if len + o >? BLK then (RUnit, fset s1 f (pwrite d (b * BLK + o) data))   (* straight to the file *)
                else
                  let s2 := load_wr_buffer s1 d f b in
                  let c := c_ s2 in
                  (RUnit, with_cache s2 (set_flush (set_wr_buf c (bufput (wr_buf c) o data)) 1))
            end
      end
  end.

(* ------------------------------------------------------------------ ADFI_flush_buffers *)
Definition flush_buffers (s : st) (f : Z) (close : bool) : res * st :=
  match fget s f with
  | None => (RErr ADF_FILE_NOT_OPENED, s)
  | Some _ =>
      let '(r, s1) :=
        if f =? last_wr_file (c_ s) then
          (* block "set to a nonsense value so that the buffer flags are not reset" *)
          let '(r, s1) := write_file s f MAXIMUM_32_BITS 0 [] in
          (r, if close then with_cache s1 (set_flush (set_wr_id (c_ s1) (-2) (-2)) (-2)) else s1)
        else (RUnit, s) in
      (r, if (f =? last_rd_file (c_ s1)) && close then with_cache s1 (reset_rd (c_ s1)) else s1)
  end.

(* ------------------------------------------------------------------ histories *)
Inductive op :=
| OOpen (f : Z) (d : disk)            (* ADFI_open_file took slot f; d = what the file holds *)
| ORead (f b o len : Z)
| OWrite (f b o : Z) (data : list Z)
| OFlush (f : Z)                      (* ADFI_flush_buffers(f, FLUSH) *)
| OFlushClose (f : Z)                 (* ADFI_flush_buffers(f, FLUSH_CLOSE) *)
| OClose (f : Z).                     (* ADFI_close_file: FLUSH_CLOSE, close(fd), in_use = 0 *)

Definition step (s : st) (p : op) : res * st :=
  match p with
  | OOpen f d => match fget s f with
                 | Some _ => (RErr FILE_OPEN_ERROR, s)
                 | None => if f <? 0 then (RErr FILE_OPEN_ERROR, s) else (RUnit, fset s f d)
                 end
  | ORead f b o len => read_file s f b o len
  | OWrite f b o data => write_file s f b o data
  | OFlush f => flush_buffers s f false
  | OFlushClose f => flush_buffers s f true
  | OClose f => match fget s f with
                | None => (RErr ADF_FILE_NOT_OPENED, s)
                | Some _ => let '(r, s1) := flush_buffers s f true in (r, fdel s1 f)
                end
  end.

Fixpoint exec (s : st) (ops : list op) : st :=
  match ops with [] => s | p :: r => exec (snd (step s p)) r end.

(* ------------------------------------------------------------------ the side condition of the coherence theorem *)
(* block wb shares a byte with [p0, p0 + len) *)
Definition overlaps (wb p0 len : Z) : bool := (wb * BLK <? p0 + len) && (p0 <? wb * BLK + BLK).

Definition safe_step (s : st) (p : op) : bool :=
  let c := c_ s in
  match p with
  | ORead f b o len =>
      (0 <=? b) && (0 <=? o) && (0 <=? len) &&
      (* hole 2: a large read goes to the file and never looks at a DIRTY write buffer of the same file *)
      negb ((len + o >? BLK) && (flush_wr c >? 0) && (last_wr_file c =? f) && overlaps (last_wr_block c) (b * BLK + o) len)
  | OWrite f b o data =>
      (0 <=? b) && (0 <=? o) &&
      (* hole 1: a large write goes to the file and leaves a CLEAN but still identified write buffer of the same
         file as it is (the identity is only reset inside the flush_wr_block > 0 branch) *)
      negb ((lenZ data + o >? BLK) && negb (flush_wr c >? 0) && (last_wr_file c =? f) &&
            overlaps (last_wr_block c) (b * BLK + o) (lenZ data))
  | _ => true
  end.

Fixpoint safe_hist (s : st) (ops : list op) : bool :=
  match ops with [] => true | p :: r => safe_step s p && safe_hist (snd (step s p)) r end.

(* where the Z arithmetic of this file IS the C arithmetic (no wrap of block*4096+offset+length in 64 bits, block
   representable in a disk pointer, file index inside MAXIMUM_FILES); not needed by the proofs, checked on traces *)
Definition in_c_range (p : op) : bool :=
  match p with
  | ORead f b o len => (0 <=? f) && (f <=? 4095) && (b <=? MAXIMUM_32_BITS) && (o <? 2 ^ 32) && (len <? 2 ^ 40)
  | OWrite f b o data => (0 <=? f) && (f <=? 4095) && (b <=? MAXIMUM_32_BITS) && (o <? 2 ^ 32) && (lenZ data <? 2 ^ 40)
  | OOpen f d => (0 <=? f) && (f <=? 4095) && (0 <=? dlen d)
  | OFlush f | OFlushClose f | OClose f => (0 <=? f) && (f <=? 4095)
  end.

(* ------------------------------------------------------------------ the ideal store (specification) *)
Definition istore := Z -> option Z.                (* offset -> byte, of everything written so far *)
Definition ideal := Z -> option istore.            (* file index -> store; None = not open *)
Definition ideal0 : ideal := fun _ => None.
Definition iupd (I : ideal) (f : Z) (v : option istore) : ideal := fun g => if g =? f then v else I g.
Definition store_of_disk (d : disk) : istore := fun p => if (0 <=? p) && (p <? dlen d) then Some (dnth d p) else None.
Definition store_write (m : istore) (p0 : Z) (data : list Z) : istore :=
  fun p => if (p0 <=? p) && (p <? p0 + lenZ data) then Some (nth (Z.to_nat (p - p0)) data 0) else m p.

Definition ideal_step (I : ideal) (p : op) : ideal :=
  match p with
  | OOpen f d => if f <? 0 then I else match I f with None => iupd I f (Some (store_of_disk d)) | Some _ => I end
  | OWrite f b o data => match I f with Some m => iupd I f (Some (store_write m (b * BLK + o) data)) | None => I end
  | OClose f => iupd I f None
  | _ => I
  end.
Fixpoint ideal_exec (I : ideal) (ops : list op) : ideal :=
  match ops with [] => I | p :: r => ideal_exec (ideal_step I p) r end.
Definition ideal_at (I : ideal) (f p : Z) : option Z := match I f with Some m => m p | None => None end.

(* the file an operation names, and the sub-history of one file *)
Definition op_file (p : op) : Z :=
  match p with OOpen f _ | ORead f _ _ _ | OWrite f _ _ _ | OFlush f | OFlushClose f | OClose f => f end.
Definition proj (f : Z) (ops : list op) : list op := filter (fun p => op_file p =? f) ops.

(* the authoritative byte of (f, p) in a state: the file overlaid with the pending (dirty) write block *)
Definition auth_byte (s : st) (f p : Z) : option Z :=
  let c := c_ s in
  match fget s f with
  | None => None
  | Some d =>
      if (flush_wr c >? 0) && (last_wr_file c =? f) && (last_wr_block c * BLK <=? p) && (p <? last_wr_block c * BLK + BLK)
      then Some (nth (Z.to_nat (p - last_wr_block c * BLK)) (wr_buf c) 0)
      else if (0 <=? p) && (p <? dlen d) then Some (dnth d p) else None
  end.
