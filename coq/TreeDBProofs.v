(* TreeDBProofs.v -- laws of the ideal node database TreeDB.v. *)
From Coq Require Import ZArith List Bool Lia.
From CgnsV Require Import ListX TreeDB.
Import ListNotations.
Local Open Scope Z_scope.

(* ------------------------------------------------------------------------- *)
(** * find_node under the elementary table edits *)

Lemma find_replace_same t r' : find_node t (n_uid r') <> None ->
  find_node (replace_node t r') (n_uid r') = Some r'.
Proof.
  induction t as [|r rest IH]; cbn [find_node replace_node]; intros H; [congruence|].
  destruct (Z.eqb_spec (n_uid r) (n_uid r')) as [E|E].
  - cbn [find_node]. now rewrite Z.eqb_refl.
  - cbn [find_node]. destruct (Z.eqb_spec (n_uid r) (n_uid r')); [contradiction|]. now apply IH.
Qed.

Lemma find_replace_other t r' v : v <> n_uid r' ->
  find_node (replace_node t r') v = find_node t v.
Proof.
  intros Hv. induction t as [|r rest IH]; cbn [find_node replace_node]; [reflexivity|].
  destruct (Z.eqb_spec (n_uid r) (n_uid r')) as [E|E]; cbn [find_node].
  - destruct (Z.eqb_spec (n_uid r') v); [congruence|]. destruct (Z.eqb_spec (n_uid r) v); [congruence|reflexivity].
  - destruct (Z.eqb_spec (n_uid r) v); [reflexivity|exact IH].
Qed.

Lemma replace_uids t r' : map n_uid (replace_node t r') = map n_uid t.
Proof.
  induction t as [|r rest IH]; cbn [replace_node map]; [reflexivity|].
  destruct (Z.eqb_spec (n_uid r) (n_uid r')) as [E|E]; cbn [map]; [now rewrite E|now rewrite IH].
Qed.

Lemma find_app t1 t2 v : find_node (t1 ++ t2) v =
  match find_node t1 v with Some r => Some r | None => find_node t2 v end.
Proof.
  induction t1 as [|r rest IH]; cbn [app find_node]; [reflexivity|].
  destruct (n_uid r =? v); [reflexivity|exact IH].
Qed.

Lemma find_filter_keep t (keep : nrec -> bool) v r :
  find_node t v = Some r -> keep r = true ->
  (forall x, In x t -> n_uid x = v -> keep x = true) ->
  find_node (filter keep t) v = Some r.
Proof.
  induction t as [|x rest IH]; cbn [find_node filter]; intros Hf Hk Hall; [discriminate|].
  destruct (Z.eqb_spec (n_uid x) v) as [E|E].
  - inversion Hf; subst x. rewrite Hk. cbn [find_node]. destruct (Z.eqb_spec (n_uid r) v); [reflexivity|contradiction].
  - destruct (keep x); cbn [find_node].
    + destruct (Z.eqb_spec (n_uid x) v); [contradiction|]. apply IH; auto. intros y Hy. apply Hall. now right.
    + apply IH; auto. intros y Hy. apply Hall. now right.
Qed.

Lemma find_filter_drop t (keep : nrec -> bool) v :
  (forall x, In x t -> n_uid x = v -> keep x = false) -> find_node (filter keep t) v = None.
Proof.
  induction t as [|x rest IH]; cbn [find_node filter]; intros Hall; [reflexivity|].
  destruct (keep x) eqn:K; cbn [find_node].
  - destruct (Z.eqb_spec (n_uid x) v) as [E|E].
    + rewrite (Hall x (or_introl eq_refl) E) in K. discriminate.
    + apply IH. intros y Hy. apply Hall. now right.
  - apply IH. intros y Hy. apply Hall. now right.
Qed.

Lemma find_node_uid t v r : find_node t v = Some r -> n_uid r = v.
Proof.
  induction t as [|x rest IH]; cbn [find_node]; intros H; [discriminate|].
  destruct (Z.eqb_spec (n_uid x) v) as [E|E]; [inversion H; subst; reflexivity|auto].
Qed.

Lemma find_node_in t v r : find_node t v = Some r -> In r t.
Proof.
  induction t as [|x rest IH]; cbn [find_node]; intros H; [discriminate|].
  destruct (n_uid x =? v); [inversion H; now left|right; auto].
Qed.

(* ------------------------------------------------------------------------- *)
(** * children (the ordered child list of a parent) *)

Lemma children_app t1 t2 p : children (t1 ++ t2) p = children t1 p ++ children t2 p.
Proof. unfold children. apply filter_app. Qed.

Lemma children_replace_same_parent t r' : (forall r, find_node t (n_uid r') = Some r -> n_parent r = n_parent r') ->
  NoDup (map n_uid t) ->
  forall p, map n_uid (children (replace_node t r') p) = map n_uid (children t p).
Proof.
  intros Hpar Hnd p. unfold children.
  induction t as [|x rest IH]; cbn [replace_node filter map]; [reflexivity|].
  inversion Hnd as [|? ? Hnotin Hnd']; subst.
  destruct (Z.eqb_spec (n_uid x) (n_uid r')) as [E|E].
  - cbn [filter]. assert (Hp : n_parent x = n_parent r').
    { apply Hpar. cbn [find_node]. destruct (Z.eqb_spec (n_uid x) (n_uid r')); [reflexivity|contradiction]. }
    rewrite Hp. destruct (n_parent r' =? p); cbn [map]; [now rewrite E|reflexivity].
  - cbn [filter]. assert (IH' : map n_uid (filter (fun r => n_parent r =? p) (replace_node rest r')) =
                               map n_uid (filter (fun r => n_parent r =? p) rest)).
    { apply IH; [|assumption]. intros r Hr. apply Hpar. cbn [find_node].
      destruct (Z.eqb_spec (n_uid x) (n_uid r')); [contradiction|exact Hr]. }
    destruct (n_parent x =? p); cbn [map]; now rewrite IH'.
Qed.

(* ------------------------------------------------------------------------- *)
(** * Well-formed tables: unique uids *)

Definition WFt (t : table) : Prop := NoDup (map n_uid t).

Lemma WFt_empty : WFt empty_table.
Proof. unfold WFt, empty_table. cbn. constructor; [intros []|constructor]. Qed.

Lemma find_none_notin t v : find_node t v = None -> ~ In v (map n_uid t).
Proof.
  induction t as [|x rest IH]; cbn [find_node map]; intros H Hin; [destruct Hin|].
  destruct (Z.eqb_spec (n_uid x) v) as [E|E]; [discriminate|].
  destruct Hin as [Hx|Hr]; [contradiction|]. now apply IH.
Qed.

Lemma WFt_app_new t r : WFt t -> find_node t (n_uid r) = None -> WFt (t ++ [r]).
Proof.
  unfold WFt. intros Hnd Hnone. rewrite map_app. cbn [map].
  apply NoDup_app_remove_l || idtac.
  induction t as [|x rest IH]; cbn [map app].
  - constructor; [intros []|constructor].
  - inversion Hnd as [|? ? Hnotin Hnd']; subst. cbn [find_node] in Hnone.
    destruct (Z.eqb_spec (n_uid x) (n_uid r)) as [E|E]; [discriminate|].
    constructor.
    + rewrite in_app_iff. intros [H|[H|[]]]; [contradiction|congruence].
    + apply IH; assumption.
Qed.

Lemma WFt_filter t keep : WFt t -> WFt (filter keep t).
Proof.
  unfold WFt. induction t as [|x rest IH]; cbn [filter map]; intros H; [constructor|].
  inversion H as [|? ? Hnotin Hnd]; subst.
  destruct (keep x); cbn [map]; [|auto]. constructor; [|auto].
  intros Hin. apply Hnotin. apply in_map_iff in Hin. destruct Hin as [y [Hy Hiny]].
  apply filter_In in Hiny. apply in_map_iff. exists y. tauto.
Qed.

Lemma WFt_replace t r' : WFt t -> WFt (replace_node t r').
Proof. unfold WFt. now rewrite replace_uids. Qed.

(* ------------------------------------------------------------------------- *)
(** * Laws of the write / read operations *)

(* every operation keeps the table well formed *)
Theorem step_table_WF pol t o : WFt t -> WFt (fst (step_table pol t o)).
Proof.
  intros H. destruct o; cbn [step_table fst]; try exact H.
  - unfold op_create. destruct (find_node t p) as [pr|]; [|exact H].
    destruct (find_node t u) eqn:Eu; [exact H|].
    destruct (name_ok nm && negb (is_link pr)); [|exact H].
    destruct (find_child (children t p) nm); [exact H|]. cbn [fst]. apply WFt_app_new; assumption.
  - unfold op_link. destruct (find_node t p) as [pr|]; [|exact H].
    destruct (find_node t u) eqn:Eu; [exact H|].
    destruct (name_ok nm && negb (is_link pr) && (1 <=? lenZ path)); [|exact H].
    destruct (find_child (children t p) nm); [exact H|]. cbn [fst]. apply WFt_app_new; assumption.
  - unfold op_delete. destruct (find_node t u) as [r|]; [|exact H].
    destruct ((n_parent r =? p) && negb (u =? root_uid)); [|exact H]. cbn [fst]. now apply WFt_filter.
  - unfold op_rename. destruct (find_node t u) as [r|] eqn:Eu; [|exact H].
    destruct ((n_parent r =? p) && negb (u =? root_uid) && name_ok nm); [|exact H].
    destruct (find_child (children t p) nm); [exact H|].
    destruct pol; cbn [fst]; [|now apply WFt_replace].
    apply WFt_app_new; [now apply WFt_filter|]. cbn [n_uid].
    apply find_filter_drop. intros x _ Hx. rewrite Hx. now rewrite Z.eqb_refl.
  - unfold op_move. destruct (find_node t u) as [r|]; [|exact H]. destruct (find_node t np) as [npr|]; [|exact H].
    destruct ((n_parent r =? p) && negb (u =? root_uid) && negb (is_link npr) &&
              negb (existsb (Z.eqb np) (descendants t u)) && negb (np =? p)); [|exact H].
    destruct (find_child (children t np) (n_name r)); [exact H|]. cbn [fst].
    apply WFt_app_new; [now apply WFt_filter|]. cbn [n_uid].
    apply find_filter_drop. intros x _ Hx. rewrite Hx. now rewrite Z.eqb_refl.
  - unfold op_label. destruct (find_node t u) as [r|]; [|exact H].
    destruct (label_ok l && negb (is_link r)); [|exact H]. cbn [fst]. now apply WFt_replace.
  - unfold op_dims. destruct (find_node t u) as [r|]; [|exact H].
    destruct (dims_ok dt dims && negb (is_link r)); [|exact H]. cbn [fst]. now apply WFt_replace.
  - unfold op_write_all. destruct (find_node t u) as [r|]; [|exact H].
    destruct ((0 <? node_bytes r) && (lenZ d =? node_bytes r) && negb (is_link r)); [|exact H]. cbn [fst]. now apply WFt_replace.
  - unfold op_write_block. destruct (find_node t u) as [r|]; [|exact H].
    match goal with |- context [if ?c then _ else _] => destruct c end; [|exact H]. cbn [fst]. now apply WFt_replace.
  - unfold op_write_sel. destruct (find_node t u) as [r|]; [|exact H].
    match goal with |- context [if ?c then _ else _] => destruct c end; [|exact H].
    match goal with |- context [if ?c then _ else _] => destruct c end; [|exact H]. cbn [fst]. now apply WFt_replace.
Qed.

(* a data write changes the data of its node and nothing else, anywhere in the tree *)
Definition same_but_data (r r' : nrec) : Prop :=
  n_uid r' = n_uid r /\ n_parent r' = n_parent r /\ n_name r' = n_name r /\ n_label r' = n_label r /\
  n_dt r' = n_dt r /\ n_dims r' = n_dims r /\ n_link r' = n_link r /\ length (n_data r') = length (n_data r).

Lemma set_data_same r d : length d = length (n_data r) -> same_but_data r (set_data r d).
Proof. intros H. unfold same_but_data, set_data. cbn. tauto. Qed.

Lemma splice_length {A} (l : list A) off new : 0 <= off -> (Z.to_nat off + length new <= length l)%nat ->
  length (splice l off new) = length l.
Proof.
  intros Ho Hl. unfold splice. rewrite !app_length, firstn_length, skipn_length. lia.
Qed.

Lemma slice_length {A} (l : list A) off len : 0 <= off -> 0 <= len -> (Z.to_nat off + Z.to_nat len <= length l)%nat ->
  length (slice l off len) = Z.to_nat len.
Proof. intros. unfold slice. rewrite firstn_length, skipn_length. lia. Qed.

Lemma nth_firstn_lt' {A} (l : list A) : forall n i d, (i < n)%nat -> nth i (firstn n l) d = nth i l d.
Proof. induction l as [|x r IH]; intros [|n] [|i] d H; cbn; auto; try lia. apply IH. lia. Qed.

Lemma nth_skipn' {A} (l : list A) : forall n i d, nth i (skipn n l) d = nth (n + i) l d.
Proof.
  induction l as [|x r IH]; intros n i d.
  - rewrite skipn_nil. assert (H : forall k, nth k (@nil A) d = d) by (intros [|k]; reflexivity). now rewrite !H.
  - destruct n as [|n]; cbn [skipn plus]; [reflexivity|]. cbn [nth]. apply IH.
Qed.

(* positions of a spliced list outside the spliced window are untouched *)
Lemma splice_nth_outside {A} (l : list A) off new i d : 0 <= off ->
  (Z.to_nat off + length new <= length l)%nat ->
  (i < Z.to_nat off \/ Z.to_nat off + length new <= i)%nat ->
  nth i (splice l off new) d = nth i l d.
Proof.
  intros Ho Hl Hi. unfold splice. destruct Hi as [Hi|Hi].
  - rewrite app_nth1 by (rewrite firstn_length; lia). now apply nth_firstn_lt'.
  - rewrite app_nth2 by (rewrite firstn_length; lia). rewrite firstn_length.
    replace (Init.Nat.min (Z.to_nat off) (length l)) with (Z.to_nat off) by lia.
    rewrite app_nth2 by lia. rewrite nth_skipn'. f_equal. lia.
Qed.

Lemma splice_nth_inside {A} (l : list A) off new i d : 0 <= off ->
  (Z.to_nat off + length new <= length l)%nat -> (i < length new)%nat ->
  nth (Z.to_nat off + i)%nat (splice l off new) d = nth i new d.
Proof.
  intros Ho Hl Hi. unfold splice.
  rewrite app_nth2 by (rewrite firstn_length; lia). rewrite firstn_length.
  replace (Z.to_nat off + i - Init.Nat.min (Z.to_nat off) (length l))%nat with i by lia.
  now rewrite app_nth1 by lia.
Qed.

(* READ AFTER WRITE, full array *)
Theorem write_all_then_read t u d t' :
  op_write_all t u d = (t', ROk) -> op_read_all t' u = RData (map Some d).
Proof.
  unfold op_write_all, op_read_all. destruct (find_node t u) as [r|] eqn:Eu; [|discriminate].
  destruct ((0 <? node_bytes r) && (lenZ d =? node_bytes r) && negb (is_link r)) eqn:C; [|discriminate].
  intros H. inversion H; subst t'. clear H.
  assert (Hu : n_uid (set_data r (map Some d)) = u) by (cbn; now apply find_node_uid with (t := t)).
  rewrite <- Hu at 1. rewrite find_replace_same by (rewrite Hu, Eu; discriminate).
  apply andb_true_iff in C. destruct C as [C Hl]. apply andb_true_iff in C. destruct C as [Hb _].
  assert (Hlk : is_link (set_data r (map Some d)) = is_link r) by reflexivity.
  assert (Hnb : node_bytes (set_data r (map Some d)) = node_bytes r) by reflexivity.
  rewrite Hnb, Hb, Hlk, Hl. reflexivity.
Qed.


(* ------------------------------------------------------------------------- *)
(** * Frame laws *)

(* operations that rewrite exactly one record in place *)
Definition local_target (o : op) : option Z :=
  match o with
  | OLabel u _ | ODims u _ _ | OWriteAll u _ | OWriteBlock u _ _ _ | OWriteSel u _ _ _ _ => Some u
  | _ => None
  end.

(* a local operation is [replace_node] of the target's record by one with the same uid, parent, name and link *)
Lemma local_step_shape t o u t' res : local_target o = Some u -> step_table false t o = (t', res) ->
  t' = t \/ exists r r', find_node t u = Some r /\ t' = replace_node t r' /\ n_uid r' = u /\
                         n_parent r' = n_parent r /\ n_name r' = n_name r /\ n_link r' = n_link r.
Proof.
  intros Ht Hs. destruct o; cbn [local_target] in Ht; try discriminate; inversion Ht; subst; cbn [step_table] in Hs.
  - unfold op_label in Hs. destruct (find_node t u) as [r|] eqn:Eu; [|inversion Hs; now left].
    destruct (label_ok l && negb (is_link r)) eqn:C; inversion Hs; [|now left].
    right. exists r. eexists. split; [reflexivity|]. split; [reflexivity|]. cbn.
    apply andb_true_iff in C. destruct C as [_ C]. unfold is_link in C. destruct (n_link r); [discriminate|]. tauto.
  - unfold op_dims in Hs. destruct (find_node t u) as [r|] eqn:Eu; [|inversion Hs; now left].
    destruct (dims_ok dt dims && negb (is_link r)) eqn:C; inversion Hs; [|now left].
    right. exists r. eexists. split; [reflexivity|]. split; [reflexivity|]. cbn.
    apply andb_true_iff in C. destruct C as [_ C]. unfold is_link in C. destruct (n_link r); [discriminate|]. tauto.
  - unfold op_write_all in Hs. destruct (find_node t u) as [r|] eqn:Eu; [|inversion Hs; now left].
    match type of Hs with context [if ?c then _ else _] => destruct c end; inversion Hs; [|now left].
    right. exists r. eexists. split; [reflexivity|]. split; [reflexivity|]. cbn.
    pose proof (find_node_uid _ _ _ Eu). tauto.
  - unfold op_write_block in Hs. destruct (find_node t u) as [r|] eqn:Eu; [|inversion Hs; now left].
    match type of Hs with context [if ?c then _ else _] => destruct c end; inversion Hs; [|now left].
    right. exists r. eexists. split; [reflexivity|]. split; [reflexivity|]. cbn.
    pose proof (find_node_uid _ _ _ Eu). tauto.
  - unfold op_write_sel in Hs. destruct (find_node t u) as [r|] eqn:Eu; [|inversion Hs; now left].
    match type of Hs with context [if ?c then _ else _] => destruct c end; [|inversion Hs; now left].
    match type of Hs with context [if ?c then _ else _] => destruct c end; inversion Hs; [|now left].
    right. exists r. eexists. split; [reflexivity|]. split; [reflexivity|]. cbn.
    pose proof (find_node_uid _ _ _ Eu). tauto.
Qed.

(* FRAME: relabel, re-dimension and all three data writes leave every other node exactly as it was, keep the
   target's identity / parent / name / link status, and do not reorder any child list *)
Theorem local_op_frame t o u t' res : WFt t -> local_target o = Some u -> step_table false t o = (t', res) ->
  (forall v, v <> u -> find_node t' v = find_node t v) /\
  map n_uid t' = map n_uid t /\
  (forall p, map n_uid (children t' p) = map n_uid (children t p)) /\
  (forall r r', find_node t u = Some r -> find_node t' u = Some r' ->
                n_parent r' = n_parent r /\ n_name r' = n_name r /\ n_link r' = n_link r).
Proof.
  intros HW Ht Hs. destruct (local_step_shape t o u t' res Ht Hs) as [->|[r [r' [Eu [-> [Hu [Hp [Hn Hl]]]]]]]].
  - split; [auto|]. split; [auto|]. split; [auto|]. intros r0 r0' H1 H2. rewrite H1 in H2. inversion H2; subst. tauto.
  - split; [intros v Hv; apply find_replace_other; congruence|].
    split; [apply replace_uids|].
    split.
    + apply children_replace_same_parent; [|exact HW]. intros r0 Hr0. rewrite Hu, Eu in Hr0. inversion Hr0; subst. now symmetry.
    + intros r0 r0' H1 H2. rewrite Eu in H1. inversion H1; subst r0.
      rewrite <- Hu in H2. rewrite find_replace_same in H2 by (rewrite Hu, Eu; discriminate).
      inversion H2; subst. tauto.
Qed.

(* queries never change anything *)
Theorem queries_pure pol t o : is_mutator o = false -> fst (step_table pol t o) = t.
Proof. destruct o; cbn; intros H; try discriminate; reflexivity. Qed.

(* CREATE: the new node becomes the LAST child of its parent; nothing else changes *)
Theorem create_frame pol t p u nm t' : step_table pol t (OCreate p u nm) = (t', ROk) ->
  (forall v, v <> u -> find_node t' v = find_node t v) /\
  find_node t' u = Some (mkN u p nm [] s_MT [] [] None) /\
  children t' p = children t p ++ [mkN u p nm [] s_MT [] [] None] /\
  (forall q, q <> p -> children t' q = children t q).
Proof.
  cbn [step_table]. unfold op_create. destruct (find_node t p) as [pr|]; [|discriminate].
  destruct (find_node t u) eqn:Eu; [discriminate|].
  destruct (name_ok nm && negb (is_link pr)); [|discriminate].
  destruct (find_child (children t p) nm); [discriminate|]. intros H. inversion H; subst t'. clear H.
  split; [|split; [|split]].
  - intros v Hv. rewrite find_app. destruct (find_node t v); [reflexivity|]. cbn [find_node n_uid].
    destruct (Z.eqb_spec u v); [congruence|reflexivity].
  - rewrite find_app, Eu. cbn [find_node n_uid]. now rewrite Z.eqb_refl.
  - rewrite children_app. f_equal. unfold children. cbn [filter n_parent]. now rewrite Z.eqb_refl.
  - intros q Hq. rewrite children_app. unfold children at 2. cbn [filter n_parent].
    destruct (Z.eqb_spec p q); [congruence|]. apply app_nil_r.
Qed.

Lemma filter_comm {A} (f g : A -> bool) l : filter f (filter g l) = filter g (filter f l).
Proof.
  induction l as [|x r IH]; cbn [filter]; [reflexivity|].
  destruct (g x) eqn:G, (f x) eqn:F; cbn [filter]; rewrite ?G, ?F, ?IH; reflexivity.
Qed.

(* DELETE: exactly the subtree disappears; every surviving node is untouched and every child list is the old
   one with the dead removed (relative order of the survivors preserved) *)
Theorem delete_frame pol t p u t' : step_table pol t (ODelete p u) = (t', ROk) ->
  let dead := descendants t u in
  (forall v r, find_node t v = Some r -> ~ In v dead -> find_node t' v = Some r) /\
  (forall v, In v dead -> find_node t' v = None) /\
  (forall q, children t' q = filter (fun x => negb (existsb (Z.eqb (n_uid x)) dead)) (children t q)).
Proof.
  cbn [step_table]. unfold op_delete. destruct (find_node t u) as [r|]; [|discriminate].
  destruct ((n_parent r =? p) && negb (u =? root_uid)); [|discriminate]. intros H. inversion H; subst t'. clear H.
  cbv zeta. set (dead := descendants t u).
  assert (Hex : forall v, existsb (Z.eqb v) dead = true <-> In v dead).
  { intros v. rewrite existsb_exists. split; [intros [x [Hx E]]; apply Z.eqb_eq in E; now subst|intros Hv; exists v; split; [assumption|apply Z.eqb_refl]]. }
  split; [|split].
  - intros v r0 Hf Hnd. apply find_filter_keep; [assumption| |].
    + rewrite (find_node_uid _ _ _ Hf). destruct (existsb (Z.eqb v) dead) eqn:E; [apply Hex in E; contradiction|reflexivity].
    + intros x _ Hx. rewrite Hx. destruct (existsb (Z.eqb v) dead) eqn:E; [apply Hex in E; contradiction|reflexivity].
  - intros v Hv. apply find_filter_drop. intros x _ Hx. rewrite Hx. apply Hex in Hv. now rewrite Hv.
  - intros q. unfold children. apply filter_comm.
Qed.

(* RENAME (ADF policy): the node keeps its place in its parent's child list; only its name changes *)
Theorem rename_frame t p u nm t' : WFt t -> step_table false t (ORename p u nm) = (t', ROk) ->
  (forall v, v <> u -> find_node t' v = find_node t v) /\
  (forall q, map n_uid (children t' q) = map n_uid (children t q)) /\
  (exists r, find_node t u = Some r /\
             find_node t' u = Some (mkN u p nm (n_label r) (n_dt r) (n_dims r) (n_data r) (n_link r))).
Proof.
  intros HW. cbn [step_table]. unfold op_rename. destruct (find_node t u) as [r|] eqn:Eu; [|discriminate].
  destruct ((n_parent r =? p) && negb (u =? root_uid) && name_ok nm) eqn:C; [|discriminate].
  destruct (find_child (children t p) nm); [discriminate|]. intros H. inversion H; subst t'. clear H.
  apply andb_true_iff in C. destruct C as [C _]. apply andb_true_iff in C. destruct C as [Hp _]. apply Z.eqb_eq in Hp.
  split; [intros v Hv; apply find_replace_other; cbn; congruence|]. split.
  - apply children_replace_same_parent; [|exact HW]. intros r0 Hr0. cbn [n_uid] in Hr0. rewrite Eu in Hr0. inversion Hr0; subst. cbn. congruence.
  - exists r. split; [reflexivity|].
    change u with (n_uid (mkN u p nm (n_label r) (n_dt r) (n_dims r) (n_data r) (n_link r))) at 1.
    apply find_replace_same. cbn [n_uid]. rewrite Eu. discriminate.
Qed.

(* MOVE: the node (with its whole record) becomes the last child of the new parent, leaves the old parent's list,
   and no other record or child list changes *)
Theorem move_frame pol t p u np t' : step_table pol t (OMove p u np) = (t', ROk) ->
  (forall v, v <> u -> find_node t' v = find_node t v) /\
  (exists r, find_node t u = Some r /\
     let r' := mkN u np (n_name r) (n_label r) (n_dt r) (n_dims r) (n_data r) (n_link r) in
     find_node t' u = Some r' /\
     children t' np = filter (fun x => negb (n_uid x =? u)) (children t np) ++ [r'] /\
     forall q, q <> np -> children t' q = filter (fun x => negb (n_uid x =? u)) (children t q)).
Proof.
  cbn [step_table]. unfold op_move. destruct (find_node t u) as [r|] eqn:Eu; [|discriminate].
  destruct (find_node t np) as [npr|]; [|discriminate].
  match goal with |- context [if ?c then _ else _] => destruct c end; [|discriminate].
  destruct (find_child (children t np) (n_name r)); [discriminate|]. intros H. inversion H; subst t'. clear H.
  assert (Hfc : forall q, children (filter (fun x => negb (n_uid x =? u)) t) q = filter (fun x => negb (n_uid x =? u)) (children t q)).
  { intros q. unfold children. apply filter_comm. }
  split.
  - intros v Hv. rewrite find_app. cbn [find_node n_uid]. destruct (Z.eqb_spec u v); [congruence|].
    destruct (find_node t v) as [rv|] eqn:Ev.
    + rewrite (find_filter_keep t _ v rv Ev).
      * reflexivity.
      * rewrite (find_node_uid _ _ _ Ev). destruct (Z.eqb_spec v u); [congruence|reflexivity].
      * intros x _ Hx. rewrite Hx. destruct (Z.eqb_spec v u); [congruence|reflexivity].
    + rewrite find_filter_drop; [reflexivity|]. intros x Hx Hxv. exfalso.
      clear - Ev Hx Hxv. induction t as [|y rest IH]; [destruct Hx|]. cbn [find_node] in Ev.
      destruct (Z.eqb_spec (n_uid y) v); [discriminate|]. destruct Hx as [->|Hx]; [contradiction|auto].
  - exists r. split; [reflexivity|]. cbv zeta. split; [|split].
    + rewrite find_app. rewrite find_filter_drop.
      * cbn [find_node n_uid]. now rewrite Z.eqb_refl.
      * intros x _ Hx. rewrite Hx. now rewrite Z.eqb_refl.
    + rewrite children_app, Hfc. f_equal. unfold children. cbn [filter n_parent]. now rewrite Z.eqb_refl.
    + intros q Hq. rewrite children_app, Hfc. unfold children at 2. cbn [filter n_parent].
      destruct (Z.eqb_spec np q); [congruence|]. apply app_nil_r.
Qed.

(* BLOCK WRITE then BLOCK READ of the same range returns the bytes written; bytes outside the range keep their
   previous value *)
Theorem write_block_then_read t u b e d t' :
  op_write_block t u b e d = (t', ROk) ->
  (forall r, find_node t u = Some r -> lenZ (n_data r) = node_bytes r) ->
  op_read_block t' u b e = RData (map Some d) /\
  forall r r', find_node t u = Some r -> find_node t' u = Some r' ->
    forall i, (i < Z.to_nat ((b - 1) * dt_size (n_dt r)) \/ Z.to_nat (e * dt_size (n_dt r)) <= i)%nat ->
      nth i (n_data r') None = nth i (n_data r) None.
Proof.
  unfold op_write_block, op_read_block. destruct (find_node t u) as [r|] eqn:Eu; [|discriminate].
  set (sz := dt_size (n_dt r)).
  destruct ((0 <? node_bytes r) && (1 <=? b) && (b <=? e) && (e <=? node_elems r) &&
            (lenZ d =? (e - b + 1) * sz) && negb (is_link r)) eqn:C; [|discriminate].
  intros H Hlen. inversion H; subst t'. clear H. specialize (Hlen r eq_refl).
  repeat (apply andb_true_iff in C; let H := fresh "C" in destruct C as [C H]).
  apply Z.ltb_lt in C. apply Z.leb_le in C4, C3, C2. apply Z.eqb_eq in C1.
  set (r' := set_data r (splice (n_data r) ((b - 1) * sz) (map Some d))).
  assert (Hu : n_uid r' = u) by (cbn; now apply find_node_uid with (t := t)).
  assert (Hsz : 0 <= sz).
  { unfold sz, dt_size. repeat (match goal with |- context [match ?x with _ => _ end] => destruct x end; try lia). }
  assert (Hfit : (Z.to_nat ((b - 1) * sz) + length (map Some d) <= length (n_data r))%nat).
  { rewrite map_length. unfold lenZ in *. unfold node_bytes in Hlen. fold sz in Hlen. nia. }
  assert (Hf' : find_node (replace_node t r') u = Some r').
  { rewrite <- Hu at 1. apply find_replace_same. rewrite Hu, Eu. discriminate. }
  split.
  - rewrite Hf'. change (dt_size (n_dt r')) with sz. change (node_bytes r') with (node_bytes r).
    change (node_elems r') with (node_elems r). change (is_link r') with (is_link r).
    assert (Hc : (0 <? node_bytes r) && (1 <=? b) && (b <=? e) && (e <=? node_elems r) && negb (is_link r) = true).
    { rewrite C0. apply Z.ltb_lt in C. apply Z.leb_le in C4, C3, C2. now rewrite C, C4, C3, C2. }
    rewrite Hc. f_equal. cbn [n_data r' set_data]. unfold slice, splice.
    rewrite skipn_app, firstn_length.
    replace (Init.Nat.min (Z.to_nat ((b - 1) * sz)) (length (n_data r))) with (Z.to_nat ((b - 1) * sz)) by lia.
    rewrite skipn_all2 by (rewrite firstn_length; lia). cbn [app].
    replace (Z.to_nat ((b - 1) * sz) - Z.to_nat ((b - 1) * sz))%nat with 0%nat by lia. cbn [skipn].
    rewrite firstn_app. rewrite firstn_all2 by (rewrite map_length; unfold lenZ in C1; lia).
    replace (Z.to_nat ((e - b + 1) * sz) - length (map Some d))%nat with 0%nat by (rewrite map_length; unfold lenZ in C1; lia).
    cbn [firstn]. apply app_nil_r.
  - intros r0 r0' H1 H2. inversion H1; subst r0. rewrite Hf' in H2. inversion H2; subst r0'. intros i Hi.
    cbn [n_data r' set_data]. apply splice_nth_outside; [nia|exact Hfit|].
    rewrite map_length. unfold lenZ in C1. fold sz in Hi. destruct Hi as [Hi|Hi]; [left; exact Hi|right; nia].
Qed.

(* ------------------------------------------------------------------------- *)
(** * Several files: independence (C16) and reopen (C02) *)

Lemma get_set_file_same w f t : get_file (set_file w f t) f = Some t.
Proof.
  induction w as [|[g t0] rest IH]; cbn [set_file get_file]; [now rewrite Z.eqb_refl|].
  destruct (Z.eqb_spec g f) as [->|E]; cbn [get_file]; [now rewrite Z.eqb_refl|].
  destruct (Z.eqb_spec g f); [contradiction|exact IH].
Qed.

Lemma get_set_file_other w f g t : f <> g -> get_file (set_file w f t) g = get_file w g.
Proof.
  intros Hfg. induction w as [|[h t0] rest IH]; cbn [set_file get_file].
  - destruct (Z.eqb_spec f g); [contradiction|reflexivity].
  - destruct (Z.eqb_spec h f) as [->|E]; cbn [get_file].
    + destruct (Z.eqb_spec f g); [contradiction|reflexivity].
    + destruct (Z.eqb_spec h g); [reflexivity|exact IH].
Qed.

Lemma get_set_mode_same m f x : get_mode (set_mode m f x) f = x.
Proof.
  induction m as [|[g y] rest IH]; cbn [set_mode get_mode]; [now rewrite Z.eqb_refl|].
  destruct (Z.eqb_spec g f) as [->|E]; cbn [get_mode]; [now rewrite Z.eqb_refl|].
  destruct (Z.eqb_spec g f); [contradiction|exact IH].
Qed.

Lemma get_set_mode_other m f g x : f <> g -> get_mode (set_mode m f x) g = get_mode m g.
Proof.
  intros Hfg. induction m as [|[h y] rest IH]; cbn [set_mode get_mode].
  - destruct (Z.eqb_spec f g); [contradiction|reflexivity].
  - destruct (Z.eqb_spec h f) as [->|E]; cbn [get_mode].
    + destruct (Z.eqb_spec f g); [contradiction|reflexivity].
    + destruct (Z.eqb_spec h g); [reflexivity|exact IH].
Qed.

(* what a session knows about file f *)
Definition view (s : session) (f : Z) : option table * Z * Z :=
  (get_file (s_world s) f, get_mode (s_modes s) f, get_mode (s_pol s) f).

(* session-level events: operations, opens and closes *)
Inductive event :=
| EOp (o : op) | EOpen (create : bool) (mode pol : Z) | EClose.

Definition sstep (s : session) (f : Z) (e : event) : session * result :=
  match e with
  | EOp o => step s f o
  | EOpen c m p => open_file s f c m p
  | EClose => close_file s f
  end.

(* an event on file f does not change what the session knows about another file g *)
Lemma sstep_other s f e g : f <> g -> view (fst (sstep s f e)) g = view s g.
Proof.
  intros Hfg. unfold view. destruct e as [o|c m p|]; cbn [sstep].
  - unfold step. destruct ((get_mode (s_modes s) f =? 0) || ((get_mode (s_modes s) f =? 1) && is_mutator o)); [reflexivity|].
    destruct (get_file (s_world s) f) as [t|]; [|reflexivity].
    destruct (step_table _ t o) as [t' r]. cbn [fst s_world s_modes s_pol]. now rewrite get_set_file_other.
  - unfold open_file. destruct (negb (get_mode (s_modes s) f =? 0)); [reflexivity|].
    destruct c; cbn [fst s_world s_modes s_pol].
    + now rewrite get_set_file_other, !get_set_mode_other.
    + destruct (get_file (s_world s) f); cbn [fst s_world s_modes s_pol]; [now rewrite get_set_mode_other|reflexivity].
  - unfold close_file. destruct (get_mode (s_modes s) f =? 0); cbn [fst s_world s_modes s_pol]; [reflexivity|].
    now rewrite get_set_mode_other.
Qed.

(* the answer to an event on f, and the new view of f, depend only on the view of f *)
Lemma sstep_local s1 s2 f e : view s1 f = view s2 f ->
  snd (sstep s1 f e) = snd (sstep s2 f e) /\ view (fst (sstep s1 f e)) f = view (fst (sstep s2 f e)) f.
Proof.
  unfold view. intros H. inversion H as [[Hf Hm Hp]]. destruct e as [o|c m p|]; cbn [sstep].
  - unfold step. rewrite Hm, Hp.
    destruct ((get_mode (s_modes s2) f =? 0) || ((get_mode (s_modes s2) f =? 1) && is_mutator o));
      [cbn [fst snd]; split; [reflexivity|congruence]|].
    rewrite Hf. destruct (get_file (s_world s2) f) as [t|] eqn:E; [|cbn [fst snd]; split; [reflexivity|congruence]].
    destruct (step_table _ t o) as [t' r]. cbn [fst snd s_world s_modes s_pol].
    rewrite !get_set_file_same, Hm, Hp. auto.
  - unfold open_file. rewrite Hm. destruct (negb (get_mode (s_modes s2) f =? 0));
      [cbn [fst snd]; split; [reflexivity|congruence]|].
    destruct c; cbn [fst snd s_world s_modes s_pol].
    + now rewrite !get_set_file_same, !get_set_mode_same.
    + rewrite Hf. destruct (get_file (s_world s2) f) eqn:E; cbn [fst snd s_world s_modes s_pol].
      * rewrite !get_set_mode_same, Hf, E, Hp. auto.
      * split; [reflexivity|congruence].
  - unfold close_file. rewrite Hm. destruct (get_mode (s_modes s2) f =? 0); cbn [fst snd s_world s_modes s_pol].
    + split; [reflexivity|congruence].
    + rewrite !get_set_mode_same, Hf, Hp. auto.
Qed.

(* run an interleaved history; keep the answers given to file f *)
Fixpoint run_for (s : session) (evs : list (Z * event)) (f : Z) : list result :=
  match evs with
  | [] => []
  | (g, e) :: rest =>
      let '(s', r) := sstep s g e in
      if g =? f then r :: run_for s' rest f else run_for s' rest f
  end.

Fixpoint final (s : session) (evs : list (Z * event)) : session :=
  match evs with [] => s | (g, e) :: rest => final (fst (sstep s g e)) rest end.

Definition only (f : Z) (evs : list (Z * event)) := filter (fun ge => fst ge =? f) evs.

(* INDEPENDENCE: in any interleaving of events over any number of files, file f receives exactly the answers,
   and ends with exactly the content, it would have if its own events had run alone *)
Theorem interleaving_independent : forall evs s1 s2 f, view s1 f = view s2 f ->
  run_for s1 evs f = run_for s2 (only f evs) f /\
  view (final s1 evs) f = view (final s2 (only f evs)) f.
Proof.
  induction evs as [|[g e] rest IH]; intros s1 s2 f Hv; cbn [run_for final only filter fst]; [auto|].
  destruct (Z.eqb_spec g f) as [->|Hgf].
  - cbn [run_for final]. destruct (sstep_local s1 s2 f e Hv) as [Hr Hv'].
    destruct (sstep s1 f e) as [s1' r1]. destruct (sstep s2 f e) as [s2' r2]. cbn [fst snd] in *.
    rewrite Z.eqb_refl. subst r2. destruct (IH s1' s2' f Hv') as [H1 H2]. fold (only f rest). now rewrite H1.
  - fold (only f rest). pose proof (sstep_other s1 g e f Hgf) as Ho.
    destruct (sstep s1 g e) as [s1' r1]. cbn [fst] in *. apply IH. now rewrite Ho.
Qed.

(* REOPEN is the identity on content: closing and reopening a file (without truncating it) leaves its tree
   exactly as it was, so every query afterwards answers as before *)
Theorem reopen_identity s f mode s1 s2 :
  close_file s f = (s1, ROk) -> open_file s1 f false mode 0 = (s2, ROk) ->
  get_file (s_world s2) f = get_file (s_world s) f /\ get_mode (s_modes s2) f = mode /\
  get_mode (s_pol s2) f = get_mode (s_pol s) f.
Proof.
  unfold close_file, open_file. destruct (get_mode (s_modes s) f =? 0); [discriminate|].
  intros H1. inversion H1; subst s1. clear H1. cbn [s_modes s_world s_pol]. rewrite get_set_mode_same. cbn.
  destruct (get_file (s_world s) f) eqn:E; [|discriminate]. intros H2. inversion H2; subst s2. cbn.
  rewrite E. now rewrite get_set_mode_same.
Qed.

(* READ-ONLY (C07 at the level of the ideal tree): on a file opened read-only every mutator is refused and no
   event other than an open changes its content *)
Theorem read_only_unchanged s f o : get_mode (s_modes s) f = 1 ->
  get_file (s_world (fst (step s f o))) f = get_file (s_world s) f /\
  (is_mutator o = true -> snd (step s f o) = RErr).
Proof.
  intros Hm. unfold step. rewrite Hm.
  change ((1 =? 0) || ((1 =? 1) && is_mutator o)) with (is_mutator o).
  destruct (is_mutator o) eqn:M; cbn [fst snd]; [auto|].
  destruct (get_file (s_world s) f) as [t|] eqn:E; cbn [fst snd]; [|now rewrite E].
  pose proof (queries_pure (get_mode (s_pol s) f =? 1) t o M) as Hq.
  destruct (step_table _ t o) as [t' r]. cbn [fst snd s_world] in *. subst t'. rewrite get_set_file_same.
  split; [reflexivity|discriminate].
Qed.

(* ------------------------------------------------------------------------- *)
(** * The only latitude TreeDB gives a back end: sibling order after a rename (C03) *)

Theorem policy_only_in_rename t o : (forall p u nm, o <> ORename p u nm) ->
  step_table true t o = step_table false t o.
Proof. intros H. destruct o; try reflexivity. elim (H p u nm). reflexivity. Qed.

Theorem rename_policies_same_nodes t p u nm : WFt t ->
  snd (step_table true t (ORename p u nm)) = snd (step_table false t (ORename p u nm)) /\
  forall v, find_node (fst (step_table true t (ORename p u nm))) v =
            find_node (fst (step_table false t (ORename p u nm))) v.
Proof.
  intros HW. cbn [step_table]. unfold op_rename. destruct (find_node t u) as [r|] eqn:Eu; [|auto].
  destruct ((n_parent r =? p) && negb (u =? root_uid) && name_ok nm); [|auto].
  destruct (find_child (children t p) nm); [auto|]. cbn [fst snd]. split; [reflexivity|].
  intros v. set (r' := mkN u p nm (n_label r) (n_dt r) (n_dims r) (n_data r) (n_link r)).
  rewrite find_app. destruct (Z.eq_dec v u) as [->|Hv].
  - rewrite find_filter_drop by (intros x _ Hx; rewrite Hx; now rewrite Z.eqb_refl).
    cbn [find_node n_uid r']. rewrite Z.eqb_refl.
    symmetry. apply (find_replace_same t r'). cbn [n_uid r']. rewrite Eu. discriminate.
  - rewrite find_replace_other by (cbn; congruence).
    destruct (find_node t v) as [rv|] eqn:Ev.
    + rewrite (find_filter_keep t _ v rv Ev); [reflexivity| |].
      * rewrite (find_node_uid _ _ _ Ev). destruct (Z.eqb_spec v u); [congruence|reflexivity].
      * intros x _ Hx. rewrite Hx. destruct (Z.eqb_spec v u); [congruence|reflexivity].
    + rewrite find_filter_drop.
      * cbn [find_node n_uid r']. destruct (Z.eqb_spec u v); [congruence|reflexivity].
      * intros x Hx Hxv. exfalso. clear - Ev Hx Hxv. induction t as [|y rest IH]; [destruct Hx|].
        cbn [find_node] in Ev. destruct (Z.eqb_spec (n_uid y) v); [discriminate|].
        destruct Hx as [->|Hx]; [contradiction|auto].
Qed.

(* ------------------------------------------------------------------------- *)
(** * calls that name a parent which is not the node's parent: refused, nothing changes
      (whatever children that other parent has -- in particular one of the node's name) *)

Lemma wrong_parent_refused : forall to_end t p u r nm np,
  find_node t u = Some r -> n_parent r <> p ->
  step_table to_end t (ODelete p u) = (t, RErr) /\
  step_table to_end t (ORename p u nm) = (t, RErr) /\
  step_table to_end t (OMove p u np) = (t, RErr).
Proof.
  intros to_end t p u r nm np Hf Hp.
  assert (E : (n_parent r =? p) = false) by (apply Z.eqb_neq; exact Hp).
  cbn [step_table]. unfold op_delete, op_rename, op_move. rewrite Hf, E. cbn [andb].
  repeat split. destruct (find_node t np); reflexivity.
Qed.
