(* Extract_c03.v -- extraction of the name validators of BackendDiff.v; ExtrOcamlBasic only, no Extract Constant /
   Extract Inductive of our own; Z, positive, nat stay extracted inductives. *)
From Coq Require Import Extraction ExtrOcamlBasic.
From CgnsV Require Import BackendDiff.
Extraction Language OCaml.
Extraction "extracted/c03/model.ml" BackendDiff.adf_name BackendDiff.adfh_name BackendDiff.common_name.
