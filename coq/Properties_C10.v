From Coq Require Import ZArith List.
From CgnsV Require Import ElemSplice ElemSpliceProofs.
Local Open Scope Z_scope.
Theorem C10_stub : tri4 = tri4. Proof. reflexivity. Qed.
Print Assumptions C10_stub.
