(* Properties_C10.v -- exported theorems for C10 (element sections: partial reads are slices, partial writes are
   splices).  Only statements, each closed by [exact] of a lemma of ElemSpliceProofs.v, each followed by
   Print Assumptions.  The model is ElemSplice.v (transcription of src/cgnslib.c); [splice] is the pointwise
   element-level specification (it does not mention the case split of the code), [rep_fixed npe st f E] says that
   the mirror + file state [st] of a fixed-size section represents the section (first = f, elements = E) with a
   coherent cache. *)
From Coq Require Import ZArith List.
From CgnsV Require Import ListX ElemSplice ElemSpliceProofs.
Import ListNotations.
Local Open Scope Z_scope.

(* The pointwise specification and the shape built by the code (new ++ gap ++ old | old ++ gap ++ new |
   head ++ new ++ tail) agree for every relative position of the two ranges. *)
Theorem C10_splice_spec_is_struct : forall (A : Type) (ph : A) f E s N,
  E <> [] -> N <> [] -> splice ph f E s N = splice_struct ph f E s N.
Proof. exact @splice_is_struct. Qed.
Print Assumptions C10_splice_spec_is_struct.

(* WRITE IS SPLICE, memcpy level: the in-memory splice program of cg_elements_general_write (malloc, three-way
   case split, memcpy offsets, gap fill, "my counting is off" test) returns exactly the flattened splice -- for all
   element sizes, all stored ranges, all written ranges (before / overlapping the front / inside / overlapping the
   back / after / covering, with or without a gap); in particular it never faults and never miscounts. *)
Theorem C10_write_is_splice_memcpy : forall npe f E s N,
  0 < npe -> E <> [] -> N <> [] -> all_len npe E -> all_len npe N ->
  fixed_splice npe f (f + lenZ E - 1) s (s + lenZ N - 1) (lenZ (concat E)) (concat E) (concat N)
  = Some (Some (concat (splice (repeat 0 (Z.to_nat npe)) f E s N))).
Proof. exact fixed_splice_is_splice. Qed.
Print Assumptions C10_write_is_splice_memcpy.

(* WRITE IS SPLICE, entry-point level (cg_elements_partial_write / cg_elements_general_write with either memory
   type, in-place path and in-memory path, cached or not): range, dimension, file contents and cache of the new
   state represent (min f start, splice zeros f E start N). *)
Theorem C10_write_is_splice : forall pv npe st f E start N mt,
  rep_fixed npe st f E -> s_par st = None -> N <> [] -> all_len npe N ->
  exists st', elements_general_write pv st start (start + lenZ N - 1) mt (concat N) = ROk st'
              /\ rep_fixed npe st' (Z.min f start) (splice (repeat 0 (Z.to_nat npe)) f E start N)
              /\ s_par st' = None /\ s_type st' = s_type st /\ s_dt st' = s_dt st.
Proof. exact elements_general_write_is_splice. Qed.
Print Assumptions C10_write_is_splice.

(* READ IS SLICE (cg_elements_partial_read from the file or from the cache it fills; cg_elements_general_read). *)
Theorem C10_read_is_slice : forall npe st f E a b,
  rep_fixed npe st f E -> f <= a -> a <= b -> b <= f + lenZ E - 1 ->
  exists st', elements_partial_read st a b false = ROk (st', [concat (slice_elems f E a b)])
              /\ rep_fixed npe st' f E /\ s_par st' = s_par st.
Proof. exact elements_partial_read_is_slice. Qed.
Print Assumptions C10_read_is_slice.

Theorem C10_general_read_is_slice : forall npe st f E a b mt,
  rep_fixed npe st f E -> f <= a -> a <= b -> b <= f + lenZ E - 1 ->
  elements_general_read st a b mt = ROk (st, [concat (slice_elems f E a b)]).
Proof. exact elements_general_read_is_slice. Qed.
Print Assumptions C10_general_read_is_slice.

(* HISTORIES: after any sequence of partial writes the state still represents the fold of [splice] -- range,
   connectivity length, contents and cache stay mutually consistent (rep_fixed), by induction over the history. *)
Theorem C10_consistent_fixed : forall pv npe ws st f E,
  rep_fixed npe st f E -> s_par st = None ->
  Forall (fun w => snd w <> [] /\ all_len npe (snd w)) ws ->
  exists st', impl_run pv st ws = ROk st' /\
              rep_fixed npe st' (fst (spec_run npe f E ws)) (snd (spec_run npe f E ws)) /\ s_par st' = None.
Proof. exact write_history_is_splice. Qed.
Print Assumptions C10_consistent_fixed.

(* PARENT DATA, repaired code (/repo 4b28a57, variant PFixed): resizing a parent array (two columns, one row per
   element) after a write of s..e into a section f..l keeps every untouched old row with its element and gives a
   zero row to every gap, new or rewritten element; never faults. *)
Theorem C10_parent_fixed : forall old f l s e,
  f <= l -> s <= e -> lenZ old = 2 * (l - f + 1) ->
  let lo := Z.min f s in let hi := Z.max l e in
  let newsize := hi - lo + 1 in let oldsize := l - f + 1 in
  exists r, resize_one PFixed old newsize oldsize (if s <? f then f - s else 0) (s - lo) (e - s + 1) = Some r /\
            lenZ r = 2 * newsize /\
            forall c i, (c = 0 \/ c = 1) -> lo <= i <= hi ->
              nthZ r (c * newsize + (i - lo)) 0 = parent_row_spec old oldsize f l s e c i.
Proof. exact resize_one_fixed. Qed.
Print Assumptions C10_parent_fixed.

(* PARENT DATA, historical code (variant PCurrent, before 4b28a57): REFUTED.  TRI_3 section 1..4 with parent data,
   reopen, cg_elements_partial_write(5,6): the code writes past the end of the new parent array. *)
Theorem C10_parent_refuted : ~ parent_extend_safe PCurrent.
Proof. exact parent_refuted. Qed.
Print Assumptions C10_parent_refuted.
Theorem C10_parent_refuted_prepend :
  exists st conn, run PCurrent RCurrent None hist_prepend
    = ROk (st, [conn; [0;0;13;14;0;0; 0;0;23;24;0;0; 0;0;33;34;0;0; 0;0;43;44;0;0]]).
Proof. exact parent_current_prepend_clobbers. Qed.
Print Assumptions C10_parent_refuted_prepend.

(* cg_poly_elements_read is total on well-formed sections: the statement, per variant of its "double check". *)
Definition C10_poly_read_total (rv : rvariant) : Prop :=
  run PFixed rv None hist_polyread <> RErr /\ run PFixed rv None hist_polyread_slack <> RErr.
(* historical code (ROld, before /repo 98748ad): REFUTED by the I4-cached witness; the code as it is answers it *)
Theorem C10_poly_read_old_refuted : ~ C10_poly_read_total ROld.
Proof. intros [H _]. exact (H polyread_old_fails). Qed.
Print Assumptions C10_poly_read_old_refuted.
Theorem C10_poly_read_i4_cached_ok :
  exists st, run PFixed RCurrent None hist_polyread = ROk (st, [[0;0;1;2;3;0;0]; [0;2;5;7]]).
Proof. exact polyread_current_ok. Qed.
Print Assumptions C10_poly_read_i4_cached_ok.
(* code AS IT IS (RCurrent): still REFUTED by the reserved-space witness (cg_section_general_write reserves 14
   values for 2 elements, a partial read caches the node, the full read fails its count == ElementDataSize test) *)
Theorem C10_poly_read_refuted : ~ C10_poly_read_total RCurrent.
Proof. intros [_ H]. exact (H polyread_slack_current_fails). Qed.
Print Assumptions C10_poly_read_refuted.

(* Rebased start offsets of a partial read: off'[i] = off[i] - off[0], off'[0] = 0. *)
Theorem C10_rebased_offsets : forall l i, 0 <= i < lenZ l -> nthZ (rebase l) i 0 = nthZ l i 0 - nthZ l 0 0.
Proof. exact rebase_nth. Qed.
Print Assumptions C10_rebased_offsets.

(* VARIABLE-SIZE SECTIONS (MIXED, NGON_n, NFACE_n): the full statement, kept visible; it is NOT proved -- the
   variable-size splice is covered by the correspondence run, by the Python oracle and by computed instances
   (poly_six_positions).  elements are given by their start offsets; placeholder = (NODE,0) for MIXED, (0,0) else. *)
Definition chunks (data offs : list Z) : list (list Z) :=
  map (fun k => slice data (nthZ offs (Z.of_nat k) 0) (nthZ offs (Z.of_nat k + 1) 0 - nthZ offs (Z.of_nat k) 0))
      (seq 0 (length offs - 1)).
Definition C10_poly_write_is_splice_full : Prop :=
  forall type f E s N, (type = MIXED \/ type = NGON_n \/ type = NFACE_n) -> E <> [] -> N <> [] ->
    Forall (fun e => e <> []) E -> Forall (fun e => e <> []) N ->
    let offs l := fold_left (fun acc e => acc ++ [last acc 0 + lenZ e]) l [0] in
    exists data o, poly_splice type f (f + lenZ E - 1) s (s + lenZ N - 1) (concat E) (offs E) (concat N) (offs N)
                   = Some (Some (data, o)) /\
                   chunks data o = splice (if type =? MIXED then [NODE; 0] else [0; 0]) f E s N.
Theorem C10_poly_write_is_splice_partial :
  poly_case 22 6 7 [21;22;23;24;25;26] [0;3;6]
    = Some ([21;22;23;24;25;26; 0;0; 0;0; 1;2;3;4;5;6;7;8;9;10], [0;3;6;8;10;13;17;20]) /\
  poly_case 22 9 10 [21;22;23;24;25;26] [0;3;6] = Some ([21;22;23;24;25;26; 4;5;6;7;8;9;10], [0;3;6;10;13]) /\
  poly_case 22 11 11 [21;22] [0;2] = Some ([1;2;3;21;22;8;9;10], [0;3;5;8]) /\
  poly_case 22 12 13 [21;22;23;24;25;26] [0;3;6] = Some ([1;2;3;4;5;6;7;21;22;23;24;25;26], [0;3;7;10;13]) /\
  poly_case 22 14 14 [21;22;23] [0;3] = Some ([1;2;3;4;5;6;7;8;9;10; 0;0; 21;22;23], [0;3;7;10;12;15]) /\
  poly_case 22 9 13 [1;1;2;2;3;3;4;4;5;5] [0;2;4;6;8;10] = Some ([1;1;2;2;3;3;4;4;5;5], [0;2;4;6;8;10]) /\
  poly_case 20 14 14 [5;21;22;23] [0;4] = Some ([1;2;3;4;5;6;7;8;9;10; 2;0; 5;21;22;23], [0;3;7;10;12;16]).
Proof. exact poly_six_positions. Qed.
Print Assumptions C10_poly_write_is_splice_partial.

(* ---- non-vacuity: concrete states satisfying the hypotheses --------------------------------------------------- *)
Definition tri_state : section :=
  mkS 5 I8 3 6 12 tri4 None false 0 [] None None.
Example rep_fixed_inhabited : rep_fixed 3 tri_state 3 [[1;2;3];[4;5;6];[7;8;9];[10;11;12]].
Proof.
  apply mkRep; try reflexivity; simpl; auto.
  - repeat constructor.
  - discriminate.
Qed.
(* the write theorem instantiated on it, position "before with a gap": elements 0..0 written, 1..2 placeholders *)
Example write_before_gap :
  exists st', elements_general_write PFixed tri_state 0 0 I8 [7;7;7] = ROk st' /\
              s_r0 st' = 0 /\ s_r1 st' = 6 /\ s_conn st' = [7;7;7; 0;0;0; 0;0;0; 1;2;3;4;5;6;7;8;9;10;11;12].
Proof. eexists. vm_compute. repeat split; reflexivity. Qed.
Example parent_fixed_append :
  exists st conn, run PFixed RCurrent None hist_append
    = ROk (st, [conn; [11;12;13;14;0;0; 21;22;23;24;0;0; 31;32;33;34;0;0; 41;42;43;44;0;0]]).
Proof. exact parent_fixed_append_ok. Qed.
Example poly_read_fixed :
  exists st tail, run PFixed RFixed None hist_polyread_slack = ROk (st, [[0;0;0;0] ++ tail; [0;2;4]]).
Proof. exact polyread_slack_fixed_ok. Qed.
