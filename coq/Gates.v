(* Gates.v -- executable model for properties C07 (a read-only file is never changed; reads never mutate) and
   C12 (invalid calls fail cleanly and change nothing).  Definitions only, no proofs.

   Part 1: the row type of the regenerated table coq/Gen_C07.v (written by translators/c07_gates.py from the CURRENT
           sources of src/cgnslib.c, src/cgns_internals.c, src/cgns_io.c, src/cgns_error.c): per function its EVENT
           SKELETON -- the calls, checks, stores through the in-memory tree, error messages, returns and gotos of its
           body in source order, each with the flags
             econd  the event sits in an arm of if/loop/switch/?:/&& -- it may be skipped,
             erf    "returns on failure": the check/call is (part of the ||-chain of) the condition of an `if` whose
                    then-arm always returns, or its status variable is tested that way / returned at once,
             emg    "mode guarded": it sits under `if (.. X->mode == CG_MODE_MODIFY|WRITE ..)` (or in the else-arm of
                    `if (X->mode == CG_MODE_READ)`): it cannot run on a file open in read mode,
             elm    it sits under `if (local_mode == CG_MODE_WRITE)` of a cgi_*_address(local_mode, ..) helper (or
                    under a test of a 0-initialised local that is only assigned there): it runs only when the caller
                    passes CG_MODE_WRITE;
           and the table of index getters of cgns_internals.c.
   Part 2: an abstract machine executing skeletons against (open mode, file log, tree log, error flag) with an oracle
           for everything the skeleton does not determine.
   Part 3: the decidable predicates the kernel evaluates on the regenerated table: call-graph closures ("may change
           the file / the tree"), gate-before-effect, readers-are-pure, validation-before-effect, error-message
           provenance, getter bounds; and the specification-side name lists (primitive effects, exceptions). *)
From Coq Require Import List String Bool PArith ZArith FSetPositive.
Import ListNotations.

(* ------------------------------------------------------------------------------------------------ Part 1 *)
Inductive gmode := MRead | MWrite | MModify.            (* what a mode check demands of the file *)
Inductive fmode := FRead | FWrite | FModify.            (* how the file was opened *)
Inductive vkind := VName | VIndex | VEnum | VRange | VNull | VState.
Inductive rkind := ROk | RErr | RVar | RCall | RVoid.
(* where the message of a failing return comes from: a cgi_error/cg_io_error/set_error earlier in the same block;
   nowhere; or the failing callees (ids; 1 = an inline test, i.e. nobody) whose failure guards the return *)
Inductive why := WMsg | WNone | WCallee (l : list positive).
(* first argument of a call when it is the literal CG_MODE_READ / CG_MODE_WRITE or the caller's own local_mode *)
Inductive arg0 := ANone | ARead | AWrite | APass.
Inductive ekind :=
| KGetFile | KCheckOpen | KCheckMode (m : gmode) | KValidate (v : vkind) | KCall (a : arg0)
| KMirror | KErr | KRet (r : rkind) (w : why) | KJump | KUnparsed.
(* eid: id of the callee (1 = none: an inline test) *)
Record ev := Ev { ek : ekind; eid : positive; econd : bool; erf : bool; emg : bool; elm : bool }.
Inductive doc := DocRead | DocWrite | DocFile.
Inductive vis := Api (d : doc) | Internal.
Inductive srcf := FMll | FInt | FIo.
Record frow := mkRow { rid : positive; rname : string; rvis : vis; rsrc : srcf; revs : list ev }.

Inductive cmpop := OGt | OGe | OLt | OLe | OEq | ONe.
(* one row per non-null return of an index getter cgi_get_*:
   GIdx getter idx parent cnt arr hi lo lo_val sub :  if (idx <hi> parent->cnt || idx <lo> lo_val) return NULL; ... return &parent->arr[idx + sub]
   GSingle getter field checked : return parent->field, preceded (checked) by if (parent->field == 0) return NULL
   GVar : a local pointer is returned (found by a search loop);  GOther : anything else *)
Inductive grow :=
| GIdx (g idx parent cnt arr : string) (hi lo : cmpop) (lo_val sub : Z)
| GLoop (g parent cnt arr : string)          (* for (i = 0; i < parent->cnt; i++) ... return &parent->arr[i]; *)
| GSingle (g field : string) (checked : bool)
| GVar (g v : string)
| GOther (g what : string).

Inductive ctx := CR | CW.       (* the value of local_mode the function runs with (CW also = "has no such parameter") *)

Definition is_read (m : fmode) : bool := match m with FRead => true | _ => false end.
Definition is_CR (c : ctx) : bool := match c with CR => true | CW => false end.
Definition tgt (a : arg0) (c : ctx) : ctx := match a with ARead => CR | APass => c | _ => CW end.

Definition callee (e : ev) : option (positive * arg0) :=
  match ek e with
  | KGetFile | KCheckMode _ | KValidate _ => if Pos.eqb (eid e) 1 then None else Some (eid e, ANone)
  | KCall a => Some (eid e, a)
  | _ => None
  end.

(* argument / handle / mode validation (C12): the checks an invalid CALL fails; VState tests are consistency tests of
   the library's own state and are not counted *)
Definition is_argcheck (e : ev) : bool :=
  match ek e with
  | KGetFile | KCheckOpen | KCheckMode _ => true
  | KValidate VState => false
  | KValidate _ => true
  | _ => false
  end.

(* ------------------------------------------------------------------------------------------------ Part 2 *)
Record st := St { s_file : list positive; s_mir : list positive; s_err : bool }.
Inductive res := ROK | RERR | RINV | RFUEL.      (* RINV: returned at a failing argument check of the function itself *)

Definition add_file (s : st) (i : positive) := St (i :: s_file s) (s_mir s) (s_err s).
Definition add_mir (s : st) (i : positive) := St (s_file s) (i :: s_mir s) (s_err s).
Definition set_err (s : st) := St (s_file s) (s_mir s) true.
Definition pop (o : list bool) : bool * list bool := match o with [] => (false, []) | b :: r => (b, r) end.

Section Machine.
  Variable rows : positive -> option frow.
  Variable prim : positive -> bool.        (* callees that change the file themselves *)
  Variable mode : fmode.

  Definition rejects (m : gmode) : bool :=
    match m, mode with
    | MWrite, FRead | MModify, FRead | MModify, FWrite | MRead, FWrite => true
    | _, _ => false
    end.
  Definition active (c : ctx) (e : ev) : bool := negb (emg e && is_read mode) && negb (elm e && is_CR c).
  Definition fail_res (e : ev) : res := if is_argcheck e then RINV else RERR.

  Section Exec.
    Variable call : ctx -> positive -> list bool -> st -> res * st * list bool.

    (* a check or call: its status (ROK / a failure / out of fuel), the state and the oracle afterwards *)
    Definition do_callee (c : ctx) (e : ev) (o1 : list bool) (s : st) : res * st * list bool :=
      match callee e with
      | None => let '(b, o2) := pop o1 in ((if b then RERR else ROK), s, o2)      (* an inline test *)
      | Some (i, a) =>
        let s1 := if prim i then add_file s i else s in
        match rows i with
        | Some _ => call (tgt a c) i o1 s1
        | None => let '(b, o') := pop o1 in ((if b then RERR else ROK), s1, o')
        end
      end.

    Fixpoint exec (c : ctx) (l : list ev) (o : list bool) (s : st) : res * st * list bool :=
      match l with
      | [] => (ROK, s, o)
      | e :: l' =>
        if negb (active c e) then exec c l' o s else
        let '(take, o1) := if econd e then pop o else (true, o) in
        if negb take then exec c l' o1 s else
        match ek e with
        | KMirror => exec c l' o1 (add_mir s (eid e))
        | KErr => exec c l' o1 (set_err s)
        | KJump => exec c l' o1 s
        | KUnparsed => exec c l' o1 (add_file s 1)          (* unknown code: counted as a change of the file *)
        | KRet r _ =>
          match r with
          | ROk | RVoid | RCall => (ROK, s, o1)              (* a failing operand of `return f(..)` has returned already (erf) *)
          | RErr => (RERR, s, o1)
          | RVar => let '(b, o2) := pop o1 in ((if b then RERR else ROK), s, o2)
          end
        | KCheckMode m =>
          if rejects m then (if erf e then (RINV, set_err s, o1) else exec c l' o1 (set_err s)) else exec c l' o1 s
        | KGetFile | KCheckOpen | KValidate _ | KCall _ =>
          let '(r, s2, o2) := do_callee c e o1 s in
          match r with
          | RFUEL => (RFUEL, s2, o2)
          | ROK => exec c l' o2 s2
          | RERR | RINV => if erf e then (fail_res e, s2, o2) else exec c l' o2 s2
          end
        end
      end.
  End Exec.

  Fixpoint run (fuel : nat) (c : ctx) (id : positive) (o : list bool) (s : st) : res * st * list bool :=
    match fuel with
    | O => (RFUEL, s, o)
    | S n => match rows id with
             | None => (ROK, s, o)
             | Some r => exec (run n) c (revs r) o s
             end
    end.

  (* a sequence of API calls (each with its own oracle) on the same handle *)
  Fixpoint run_seq (fuel : nat) (calls : list (positive * list bool)) (s : st) : list res * st :=
    match calls with
    | [] => ([], s)
    | (id, o) :: cs => let '(r, s1, _) := run fuel CW id o s in
                       let '(rs, s2) := run_seq fuel cs s1 in (r :: rs, s2)
    end.
End Machine.

Definition rows_of (t : list frow) (id : positive) : option frow := find (fun r => Pos.eqb (rid r) id) t.

(* ------------------------------------------------------------------------------------------------ Part 3 *)
Definition key (i : positive) (c : ctx) : positive := match c with CR => xO i | CW => xI i end.
Definition pset := PositiveSet.t.
Definition inset (S : pset) (i : positive) (c : ctx) : bool := PositiveSet.mem (key i c) S.

(* may this event change the state?  um: events under a mode guard are ignored (analysis for a read-mode file);
   mi: stores through the tree count as well *)
Definition touches (um mi : bool) (prim : positive -> bool) (S : positive -> ctx -> bool) (c : ctx) (e : ev) : bool :=
  if (um && emg e) || (elm e && is_CR c) then false else
  match ek e with
  | KMirror => mi
  | KUnparsed => true
  | _ => match callee e with
         | Some (i, a) => prim i || S i (tgt a c)
         | None => false
         end
  end.

Definition row_touch um mi prim (S : pset) (r : frow) (c : ctx) : bool :=
  existsb (touches um mi prim (inset S) c) (revs r).

Definition step um mi prim (t : list frow) (S : pset) : pset :=
  fold_left (fun S r =>
               let S1 := if row_touch um mi prim S r CR then PositiveSet.add (key (rid r) CR) S else S in
               if row_touch um mi prim S1 r CW then PositiveSet.add (key (rid r) CW) S1 else S1) t S.

Fixpoint iter um mi prim t (n : nat) (S : pset) : pset :=
  match n with
  | O => S
  | Datatypes.S n' => let S' := step um mi prim t S in
            if Nat.eqb (PositiveSet.cardinal S') (PositiveSet.cardinal S) then S else iter um mi prim t n' S'
  end.

(* least set closed under "has a touching event": fuel = number of (function, context) pairs *)
Definition closure um mi prim (t : list frow) : pset := iter um mi prim t (2 * List.length t + 1) PositiveSet.empty.

Definition closed_b um mi prim (t : list frow) (S : pset) : bool :=
  forallb (fun r => implb (row_touch um mi prim S r CR) (inset S (rid r) CR) &&
                    implb (row_touch um mi prim S r CW) (inset S (rid r) CW)) t.

(* --- gate before effect (C07).  G: functions already known to fail on a read-mode file before touching anything *)
Definition is_gate (prim : positive -> bool) (G : positive -> bool) (e : ev) : bool :=
  negb (econd e) && erf e &&
  match ek e with
  | KCheckMode MWrite | KCheckMode MModify => true
  | KCall ANone | KCall AWrite => negb (prim (eid e)) && G (eid e)
  | _ => false
  end.

Definition pre_ok (prim : positive -> bool) (SM : positive -> ctx -> bool) (e : ev) : bool :=
  match ek e with
  | KGetFile | KCheckOpen | KCheckMode _ | KValidate _ | KCall _ => negb (touches true true prim SM CW e)
  | KErr => true
  | KRet RErr _ => true
  | KRet _ _ => false
  | KMirror | KJump | KUnparsed => false
  end.

Fixpoint gate_scan prim SM G (l : list ev) : bool :=
  match l with
  | [] => false
  | e :: r => if emg e then gate_scan prim SM G r
              else if is_gate prim G e then true
              else pre_ok prim SM e && gate_scan prim SM G r
  end.

Definition gstep prim SM (t : list frow) (G : PositiveSet.t) : PositiveSet.t :=
  fold_left (fun G r => if gate_scan prim SM (fun i => PositiveSet.mem i G) (revs r) then PositiveSet.add (rid r) G else G) t G.
Fixpoint giter prim SM t (n : nat) (G : PositiveSet.t) : PositiveSet.t :=
  match n with
  | O => G
  | Datatypes.S n' => let G' := gstep prim SM t G in
            if Nat.eqb (PositiveSet.cardinal G') (PositiveSet.cardinal G) then G else giter prim SM t n' G'
  end.
Definition gated_set prim SM (t : list frow) : PositiveSet.t := giter prim SM t (List.length t + 1) PositiveSet.empty.
(* every member really passes the scan relative to the set itself *)
Definition gated_consistent_b prim SM (t : list frow) (G : PositiveSet.t) : bool :=
  forallb (fun r => implb (PositiveSet.mem (rid r) G) (gate_scan prim SM (fun i => PositiveSet.mem i G) (revs r))) t &&
  PositiveSet.for_all (fun i => existsb (fun r => Pos.eqb (rid r) i) t) G.

(* --- validation before effect (C12) *)
Fixpoint vbe_scan prim (SA : positive -> ctx -> bool) (seen : bool) (l : list ev) : bool :=
  match l with
  | [] => true
  | e :: r => let t := touches false true prim SA CW e in
              if is_argcheck e && (seen || t) then false else vbe_scan prim SA (seen || t) r
  end.

(* --- provenance of error messages (C12): a function is SILENT if some failing return of it is explained neither by a
   message in its block nor by failing callees that are themselves not silent.  Least fixpoint, same iteration. *)
Definition ret_silent (Sil : positive -> bool) (e : ev) : bool :=
  match ek e with
  | KRet RErr w | KRet RVar w =>
    match w with
    | WMsg => false
    | WNone => true
    | WCallee l => existsb (fun i => Pos.eqb i 1 || Sil i) l
    end
  | KUnparsed => true
  | _ => false
  end.
Definition sstep (ext_silent : positive -> bool) (t : list frow) (S : PositiveSet.t) : PositiveSet.t :=
  fold_left (fun S r => if existsb (ret_silent (fun i => ext_silent i || PositiveSet.mem i S)) (revs r)
                        then PositiveSet.add (rid r) S else S) t S.
Fixpoint siter ext_silent t (n : nat) (S : PositiveSet.t) : PositiveSet.t :=
  match n with
  | O => S
  | Datatypes.S n' => let S' := sstep ext_silent t S in
            if Nat.eqb (PositiveSet.cardinal S') (PositiveSet.cardinal S) then S else siter ext_silent t n' S'
  end.
Definition silent_set ext_silent (t : list frow) : PositiveSet.t := siter ext_silent t (List.length t + 1) PositiveSet.empty.
Definition silent_closed_b ext_silent (t : list frow) (S : PositiveSet.t) : bool :=
  forallb (fun r => implb (existsb (ret_silent (fun i => ext_silent i || PositiveSet.mem i S)) (revs r))
                          (PositiveSet.mem (rid r) S)) t.

(* --- getters (C12) *)
Local Open Scope Z_scope.
Definition cmpZ (o : cmpop) (a b : Z) : bool :=
  match o with OGt => a >? b | OGe => a >=? b | OLt => a <? b | OLe => a <=? b | OEq => a =? b | ONe => negb (a =? b) end.
(* the C test  if (idx <hi> count || idx <lo> lo_val) return NULL;  : is index i accepted when the count field holds n? *)
Definition getter_accepts (hi lo : cmpop) (lo_val i n : Z) : bool := negb (cmpZ hi i n || cmpZ lo i lo_val).
Definition smem (s : string) (l : list string) : bool := existsb (String.eqb s) l.
Definition pair_mem (p : string * string) (l : list (string * string)) : bool :=
  existsb (fun q => String.eqb (fst p) (fst q) && String.eqb (snd p) (snd q)) l.
(* the test is the canonical one, the element is idx-1, and the count field is the one the array is allocated with *)
Definition getter_ok (pairs : list (string * string)) (g : grow) : bool :=
  match g with
  | GIdx _ _ _ cnt arr hi lo lo_val sub =>
    (match hi with OGt => true | _ => false end) &&
    (match lo, lo_val with OLe, 0 => true | OLt, 1 => true | _, _ => false end) &&
    (sub =? -1) && pair_mem (cnt, arr) pairs
  | GLoop _ _ cnt arr => pair_mem (cnt, arr) pairs
  | GSingle _ _ _ => true           (* a single child pointer (possibly NULL, which the callers test): no index arithmetic *)
  | GVar _ _ => true                (* a pointer found by a bounded search loop over the same array: no index arithmetic *)
  | GOther _ _ => false
  end.
Definition grow_name (g : grow) : string :=
  match g with GIdx n _ _ _ _ _ _ _ _ => n | GLoop n _ _ _ => n | GSingle n _ _ => n | GVar n _ => n | GOther n _ => n end.
Local Close Scope Z_scope.

(* ------------------------------------------------------------------------------------------------ specification side *)
Local Open Scope string_scope.
(* low-level calls that change a file themselves (everything else that changes a file does so by calling these) *)
Definition prim_effects : list string :=
  ["ADF_Create"; "ADF_Delete"; "ADF_Put_Name"; "ADF_Move_Child"; "ADF_Link"; "ADF_Set_Label";
   "ADF_Put_Dimension_Information"; "ADF_Write_All_Data"; "ADF_Write_Block_Data"; "ADF_Write_Data";
   "ADFH_Create"; "ADFH_Delete"; "ADFH_Put_Name"; "ADFH_Move_Child"; "ADFH_Link"; "ADFH_Set_Label";
   "ADFH_Put_Dimension_Information"; "ADFH_Write_All_Data"; "ADFH_Write_Block_Data"; "ADFH_Write_Data";
   "unlink"; "rename"; "remove"; "fwrite"; "write"; "fputs"; "fputc"; "mkstemp"].
(* external callees that do not change a file's content or the tree (queries of the back ends, the zone-name hash map,
   complex-number accessors, the user's error callback, open/close/flush of the back ends) *)
Definition benign_externs : list string :=
  ["ADF_Database_Open"; "ADF_Database_Close"; "ADF_Flush_to_Disk"; "ADF_Library_Version"; "ADF_Database_Version";
   "ADF_Error_Message"; "ADF_Is_Link"; "ADF_Link_Size"; "ADF_Get_Link_Path"; "ADF_Number_of_Children";
   "ADF_Children_IDs"; "ADF_Children_Names"; "ADF_Get_Node_ID"; "ADF_Get_Name"; "ADF_Get_Label"; "ADF_Get_Data_Type";
   "ADF_Get_Number_of_Dimensions"; "ADF_Get_Dimension_Values"; "ADF_Read_All_Data"; "ADF_Read_Block_Data";
   "ADF_Read_Data"; "ADF_Release_ID"; "ADF_Get_Root_ID";
   "ADFH_Database_Open"; "ADFH_Database_Close"; "ADFH_Flush_to_Disk"; "ADFH_Library_Version"; "ADFH_Database_Version";
   "ADFH_Error_Message"; "ADFH_Is_Link"; "ADFH_Link_Size"; "ADFH_Get_Link_Path"; "ADFH_Number_of_Children";
   "ADFH_Children_IDs"; "ADFH_Children_Names"; "ADFH_Get_Node_ID"; "ADFH_Get_Name"; "ADFH_Get_Label";
   "ADFH_Get_Data_Type"; "ADFH_Get_Number_of_Dimensions"; "ADFH_Get_Dimension_Values"; "ADFH_Read_All_Data";
   "ADFH_Read_Block_Data"; "ADFH_Read_Data"; "ADFH_Release_ID"; "ADFH_Get_Root_ID"; "ADFH_Configure";
   "cgi_new_presized_hashmap"; "cgi_map_get_item"; "cgi_map_set_item"; "cgi_map_contains"; "cgi_map_del_shift_item";
   "cgi_hashmap_clear"; "crealf"; "cimagf"; "creal"; "cimag"; "lstat"; "readlink"; "cgns_error_handler"].

(* entry points that create / open files by NAME (not calls on an existing read-mode handle): outside the domain *)
Definition file_ops : list string := ["cg_open"; "cgio_open_file"; "cg_save_as"].

(* the 14 mutating dispatch functions of cgns_io.c named by the property *)
Definition cgio_mutators : list string :=
  ["cgio_create_node"; "cgio_new_node"; "cgio_delete_node"; "cgio_move_node"; "cgio_copy_node"; "cgio_create_link";
   "cgio_set_name"; "cgio_set_label"; "cgio_set_dimensions"; "cgio_write_all_data"; "cgio_write_all_data_type";
   "cgio_write_block_data"; "cgio_write_data"; "cgio_write_data_type"].

(* EXCEPTIONS of the CURRENT code (each is a finding `ungated:<name>`; witnesses and fixes in notes/C07.md).
   A listed function is excused, never required to fail: repairing it in /repo does not break any obligation. *)
Definition known_ungated : list string :=
  ["cg_node_family_write";        (* no cgi_check_mode at all: adds the family to the tree of a read-mode file *)
   "cg_node_family_name_write";   (* no cgi_check_mode at all *)
   "cgio_write_block_data";       (* get_cgnsio(cgio_num, 0): write access is not demanded *)
   "cgio_compress_file"].         (* get_cgnsio(cgio_num, 0): rewrites the file of a read-mode handle *)
Definition known_impure_readers : list string :=
  ["cg_ncoords"; "cg_coord_info"; "cg_coord_read"; "cg_coord_general_read"; "cg_coord_id";
   "cg_particle_ncoords"; "cg_particle_coord_info"; "cg_particle_coord_read"; "cg_particle_coord_general_read";
   "cg_particle_coord_id";        (* cgi_get_zcoorGC / cgi_get_pcoorPC create the coordinates container in write/modify mode *)
   "cg_ptset_info"; "cg_ptset_read";   (* cgi_ptset_address: ADDRESS4SINGLE_ALLOC sets parent_id even for CG_MODE_READ -> cgi_delete_node *)
   "cg_is_cgns"].                 (* opens a private handle with CGIO_MODE_READ through cgio_open_file *)
Local Close Scope string_scope.

(* ------------------------------------------------------------------------------------------------ table-level checks *)
Definition ids_named (names : list string) (t : list frow) : PositiveSet.t :=
  fold_left (fun S r => if smem (rname r) names then PositiveSet.add (rid r) S else S) t PositiveSet.empty.

Definition prim_set (externs : list (positive * string)) : PositiveSet.t :=
  fold_left (fun S p => if smem (snd p) prim_effects || negb (smem (snd p) benign_externs)
                        then PositiveSet.add (fst p) S else S) externs PositiveSet.empty.
Definition unknown_externs (externs : list (positive * string)) : list string :=
  map snd (filter (fun p => negb (smem (snd p) prim_effects) && negb (smem (snd p) benign_externs)) externs).

Definition is_api (r : frow) : bool := match rvis r with Api _ => true | Internal => false end.
Definition is_doc (d : doc) (r : frow) : bool :=
  match rvis r, d with
  | Api DocRead, DocRead | Api DocWrite, DocWrite | Api DocFile, DocFile => true
  | _, _ => false
  end.
Definition in_domain (r : frow) : bool := is_api r && negb (smem (rname r) file_ops).
Definition no_unparsed (r : frow) : bool := forallb (fun e => match ek e with KUnparsed => false | _ => true end) (revs r).

Record analysis := mkAn {
  a_prim : PositiveSet.t;
  a_S    : pset;      (* may change the FILE of a read-mode handle *)
  a_SM   : pset;      (* may change file or tree of a read-mode handle *)
  a_Sany : pset;      (* may change the file in some mode *)
  a_SA   : pset;      (* may change file or tree in some mode *)
  a_G    : PositiveSet.t
}.
Definition analyse (t : list frow) (externs : list (positive * string)) : analysis :=
  let p := prim_set externs in
  let pf := fun i => PositiveSet.mem i p in
  let SM := closure true true pf t in
  mkAn p (closure true false pf t) SM (closure false false pf t) (closure false true pf t)
       (gated_set pf (inset SM) t).

Definition an_ok (t : list frow) (a : analysis) : bool :=
  let pf := fun i => PositiveSet.mem i (a_prim a) in
  closed_b true false pf t (a_S a) && closed_b true true pf t (a_SM a) &&
  closed_b false false pf t (a_Sany a) && closed_b false true pf t (a_SA a) &&
  gated_consistent_b pf (inset (a_SM a)) t (a_G a).

(* C07_mutators_gated: every entry point on a handle that may change the file of a read-mode handle is gated *)
Definition mutator_row_ok (a : analysis) (r : frow) : bool :=
  implb (in_domain r && inset (a_S a) (rid r) CW)
        (PositiveSet.mem (rid r) (a_G a) || smem (rname r) known_ungated || smem (rname r) known_impure_readers).
Definition mutators_gated_b t a := forallb (mutator_row_ok a) t.
(* C07_readers_pure: an entry point not documented as a writer reaches no file effect in any mode *)
Definition reader_row_ok (a : analysis) (r : frow) : bool :=
  implb (is_doc DocRead r) (negb (inset (a_Sany a) (rid r) CW) || smem (rname r) known_impure_readers).
Definition readers_pure_b t a := forallb (reader_row_ok a) t.
(* documented writers that are gated although the closure does not see a mutation are fine; a documented writer must
   at least have a definition that parses *)
Definition all_parsed_b (t : list frow) := forallb no_unparsed t.
Definition cgio_row_ok (a : analysis) (t : list frow) (n : string) : bool :=
  existsb (fun r => String.eqb (rname r) n && (PositiveSet.mem (rid r) (a_G a) || smem n known_ungated)) t.
Definition cgio_gated_b t a := forallb (cgio_row_ok a t) cgio_mutators.

Definition names_where (f : frow -> bool) (t : list frow) : list string := map rname (filter f t).
Definition bad_mutators t a := names_where (fun r => negb (mutator_row_ok a r)) t.
Definition bad_readers t a := names_where (fun r => negb (reader_row_ok a r)) t.
Definition mutator_names t a := names_where (fun r => in_domain r && inset (a_S a) (rid r) CW) t.
Definition gated_names t a := names_where (fun r => is_api r && PositiveSet.mem (rid r) (a_G a)) t.
Definition mirror_readers t a := names_where (fun r => is_doc DocRead r && inset (a_SA a) (rid r) CW && negb (inset (a_Sany a) (rid r) CW)) t.

(* ------------------------------------------------------------------------------------------------ C12, table level *)
Definition vbe_row (a : analysis) (r : frow) : bool :=
  vbe_scan (fun i => PositiveSet.mem i (a_prim a)) (inset (a_SA a)) false (revs r).
Definition late_validation t a := names_where (fun r => is_api r && negb (vbe_row a r)) t.
Definition ext_silent_set (externs : list (positive * string)) : PositiveSet.t :=
  fold_left (fun S p => PositiveSet.add (fst p) S) externs PositiveSet.empty.
Definition silent_api t (Sil : PositiveSet.t) := names_where (fun r => is_api r && PositiveSet.mem (rid r) Sil) t.

(* ------------------------------------------------------------------------------------------------ for the extracted engine *)
(* the machine's verdict on an entry point called with valid arguments (empty oracle: no check fails, no conditional
   event runs) in a given open mode: its result, and whether the file log is non-empty afterwards *)
Definition model_verdict (t : list frow) (p : PositiveSet.t) (mode : fmode) (r : frow) : res * bool :=
  let '(x, s, _) := run (rows_of t) (fun i => PositiveSet.mem i p) mode (List.length t) CW (rid r) [] (St [] [] false) in
  (x, match s_file s with [] => false | _ => true end).
Definition model_all (t : list frow) (externs : list (positive * string)) :=
  let p := prim_set externs in
  map (fun r => (rname r, (model_verdict t p FRead r, model_verdict t p FWrite r, model_verdict t p FModify r)))
      (filter is_api t).
Definition silent_names (t : list frow) (externs : list (positive * string)) : list string :=
  silent_api t (silent_set (fun i => PositiveSet.mem i (ext_silent_set externs)) t).
Definition bad_getters (pairs : list (string * string)) (g : list grow) : list string :=
  map grow_name (filter (fun x => negb (getter_ok pairs x)) g).
