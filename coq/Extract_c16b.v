(* Extract_c16b.v -- extraction of the C16 second-layer model (Handles over Refcount) to OCaml. ExtrOcamlBasic only. *)
From Coq Require Import Extraction ExtrOcamlBasic ZArith.
From CgnsV Require Import Refcount Handles.
Extraction Language OCaml.
Set Extraction KeepSingleton.
Extraction "extracted/c16b/model.ml" Handles.mh_step Handles.fn_left Handles.cgi_get_file Handles.hstep Handles.get_cgnsio
  Handles.cgio_resolve Handles.adf_resolve Refcount.cgio_walk Refcount.io_init Refcount.mll_init
  Refcount.zero_attr Refcount.attr_at
  BinInt.Z.of_nat.   (* pulls in Z / positive, which the shared ocaml/zutil.ml expects *)
