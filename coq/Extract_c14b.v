(* Extract_c14b.v -- extraction of the status-skeleton model (ErrProp) and of the regenerated table to OCaml.
   ExtrOcamlBasic only; positive, nat, Z, string, ascii stay extracted inductives.  No Extract Constant / Extract
   Inductive of our own.  (BinInt.Z.add is listed only because ocaml/zutil.ml mentions the type z.) *)
From Coq Require Import Extraction ExtrOcamlBasic ZArith.
From CgnsV Require Import ErrProp Gen_C14.
Extraction Language OCaml.
Set Extraction KeepSingleton.
Extraction "extracted/c14b/model.ml" BinInt.Z.add ErrProp.run ErrProp.rows_of ErrProp.eff_table ErrProp.prim_set ErrProp.primf
  ErrProp.analyse_R ErrProp.all_checked ErrProp.all_parsed ErrProp.exceptions_named ErrProp.ids_ok ErrProp.bad_rows
  ErrProp.unparsed_rows ErrProp.excused_rows ErrProp.reach_names ErrProp.name_of ErrProp.known_unchecked ErrProp.prim_io
  ErrProp.wrappers Gen_C14.table Gen_C14.externs Gen_C14.exceptions Gen_C14.stale_exceptions.
