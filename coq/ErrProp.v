(* ErrProp.v -- executable model for the translator half of property C14 ("an I/O failure is always reported").
   Definitions only, no proofs.

   Part 1: the row type of the regenerated table coq/Gen_C14.v (written by translators/c14_errprop.py from the CURRENT
           sources of src/adf/ADF_interface.c, src/adf/ADF_internals.c and src/cgns_io.c): per function its STATUS
           SKELETON -- one row per call site of a callee that can deliver a status (or that is defined in the three
           files), with how the status is delivered and what happens to it next:
             KReturn       tested, and the function returns with an error status of its own on the error branch
             KFlow         never overwritten before the function ends: it IS the caller's status at exit
             KHandled      tested, but (on some path) the function goes on and the status is dropped
             KOverwritten  not tested before the same location receives another status
             KIgnored      never read (cast to void, discarded, dummy variable, NULL status pointer, no status at all)
             KUnparsed     the translator could not classify the site.
   Part 2: an abstract machine executing skeletons: a function is a set of call sites; an ORACLE (a list of numbers)
           chooses, step by step, which site runs next (any site, any number of times, in any order -- a superset of
           the paths of the C function), when the function leaves (with success or with an error of its own), and
           which calls of functions outside the table fail.  A failing primitive write / seek / close sets the ghost
           flag `failed`; a status that is not propagated is logged in `lost` with its (caller, callee).
   Part 3: the decidable predicates the kernel evaluates on the regenerated table: the call-graph closure "can reach a
           primitive write / seek / close", every-status-checked, and the specification-side name lists (primitives,
           wrappers, the exceptions of the current code). *)
From Coq Require Import List String Bool PArith FSetPositive.
Import ListNotations.

(* ------------------------------------------------------------------------------------------------ Part 1 *)
Inductive deliv := DPtr | DRet | DNone.
Inductive cont := KReturn | KFlow | KHandled | KOverwritten | KIgnored | KUnparsed.
Inductive srcf := FAdfApi | FAdfInt | FCgio | FMll.
Inductive style := SPtr | SRet | SNone.        (* the function's own status: *error_return / return value / none *)
Record site := mkS { s_callee : positive; s_line : positive; s_deliv : deliv; s_cont : cont }.
Record frow := mkF { f_id : positive; f_name : string; f_src : srcf; f_style : style; f_public : bool;
                     f_sites : list site }.

Definition propagates (k : cont) : bool := match k with KReturn | KFlow => true | _ => false end.
Definition is_unparsed (k : cont) : bool := match k with KUnparsed => true | _ => false end.

(* ------------------------------------------------------------------------------------------------ Part 2 *)
Inductive res := ROK | RERR | RFUEL.
Record st := St { failed : bool;                          (* some primitive write / seek / close has failed *)
                  lost : list (positive * positive) }.    (* (caller, callee) of every error status that was dropped *)
Definition set_failed (s : st) := St true (lost s).
Definition add_lost (s : st) (p : positive * positive) := St (failed s) (p :: lost s).
Definition pop (o : list nat) : nat * list nat := match o with [] => (O, []) | n :: r => (n, r) end.

Section Machine.
  Variable rows : positive -> option frow.
  Variable prim : positive -> bool.          (* callees outside the table that write / seek / close *)

  Section Body.
    Variable call : positive -> list nat -> st -> res * st * list nat.
    Variable me : positive.
    Variable sites : list site.
    (* oracle: 0 = leave with success, 1 = leave with an error of the function's own, i+2 = run site i next *)
    Fixpoint body (steps : nat) (o : list nat) (s : st) : res * st * list nat :=
      match steps with
      | O => (RFUEL, s, o)
      | S n =>
        let '(c, o1) := pop o in
        match c with
        | O => (ROK, s, o1)
        | S O => (RERR, s, o1)
        | S (S i) =>
          match nth_error sites i with
          | None => (ROK, s, o1)
          | Some x =>
            let '(r, s2, o2) := call (s_callee x) o1 s in
            match r with
            | RFUEL => (RFUEL, s2, o2)
            | ROK => body n o2 s2
            | RERR => if propagates (s_cont x) then (RERR, s2, o2)
                      else body n o2 (add_lost s2 (me, s_callee x))
            end
          end
        end
      end.
  End Body.

  (* a callee outside the table: the oracle says whether it fails *)
  Definition leaf (id : positive) (o : list nat) (s : st) : res * st * list nat :=
    let '(c, o1) := pop o in
    match c with
    | O => (ROK, s, o1)
    | _ => (RERR, (if prim id then set_failed s else s), o1)
    end.

  Fixpoint run (steps depth : nat) (id : positive) (o : list nat) (s : st) : res * st * list nat :=
    match depth with
    | O => (RFUEL, s, o)
    | S d => match rows id with
             | None => leaf id o s
             | Some f => body (run steps d) id (f_sites f) steps o s
             end
    end.
End Machine.

Definition rows_of (t : list frow) (id : positive) : option frow := find (fun r => Pos.eqb (f_id r) id) t.

(* ------------------------------------------------------------------------------------------------ Part 3 *)
Definition pset := PositiveSet.t.
Definition pmem (p : positive * positive) (l : list (positive * positive)) : bool :=
  existsb (fun q => Pos.eqb (fst p) (fst q) && Pos.eqb (snd p) (snd q)) l.
Definition excused (exc : list (positive * positive)) (s : st) : bool := existsb (fun p => pmem p exc) (lost s).

Definition callee_reaches (prim : positive -> bool) (R : pset) (x : site) : bool :=
  prim (s_callee x) || PositiveSet.mem (s_callee x) R.
Definition row_reaches prim (R : pset) (f : frow) : bool := existsb (callee_reaches prim R) (f_sites f).
Definition rstep prim (t : list frow) (R : pset) : pset :=
  fold_left (fun R f => if row_reaches prim R f then PositiveSet.add (f_id f) R else R) t R.
Fixpoint riter prim t (n : nat) (R : pset) : pset :=
  match n with
  | O => R
  | S n' => let R' := rstep prim t R in
            if Nat.eqb (PositiveSet.cardinal R') (PositiveSet.cardinal R) then R else riter prim t n' R'
  end.
(* least set closed under "has a site whose callee is a primitive or in the set": fuel = number of functions *)
Definition reach prim (t : list frow) : pset := riter prim t (List.length t + 1) PositiveSet.empty.
Definition closed_b prim (t : list frow) (R : pset) : bool :=
  forallb (fun f => implb (row_reaches prim R f) (PositiveSet.mem (f_id f) R)) t.

(* the status of a call that can reach a primitive write / seek / close is propagated, or the (caller, callee) pair is
   an explicit exception *)
Definition site_ok prim (R : pset) (exc : list (positive * positive)) (f : frow) (x : site) : bool :=
  implb (callee_reaches prim R x) (propagates (s_cont x) || pmem (f_id f, s_callee x) exc).
Definition row_ok prim R exc (f : frow) : bool := forallb (site_ok prim R exc f) (f_sites f).
Definition all_checked prim (t : list frow) (exc : list (positive * positive)) (R : pset) : bool :=
  closed_b prim t R && forallb (row_ok prim R exc) t.
Definition all_parsed (t : list frow) : bool :=
  forallb (fun f => forallb (fun x => negb (is_unparsed (s_cont x))) (f_sites f)) t.

(* ------------------------------------------------------------------------------------------------ specification side *)
Local Open Scope string_scope.
Definition smem (s : string) (l : list string) : bool := existsb (String.eqb s) l.
Definition spmem (p : string * string) (l : list (string * string)) : bool :=
  existsb (fun q => String.eqb (fst p) (fst q) && String.eqb (snd p) (snd q)) l.

(* the primitive writes / seeks / closes as seen from the three files: the system calls, the retrying write wrapper
   ADFI_write (coq/AdfIO.v proves C14_retry about it: full length or -1, EINTR and short counts retried), and the
   entry points of the HDF5 back end that create, change, flush or close a file (libhdf5 does its own I/O) *)
Definition prim_io : list string :=
  ["ADFI_write"; "write"; "pwrite"; "lseek"; "fsync"; "fdatasync"; "ftruncate"; "close";
   "ADFH_Database_Open"; "ADFH_Database_Close"; "ADFH_Flush_to_Disk"; "ADFH_Create"; "ADFH_Delete"; "ADFH_Put_Name";
   "ADFH_Move_Child"; "ADFH_Link"; "ADFH_Set_Label"; "ADFH_Put_Dimension_Information"; "ADFH_Write_All_Data";
   "ADFH_Write_Block_Data"; "ADFH_Write_Data"; "ADFH_Database_Delete"; "ADFH_Database_Garbage_Collection"].
(* functions of the table that the machine treats as callees outside the table (the oracle decides whether they fail):
   the two retry loops around write() / read(), whose contract is the business of coq/AdfIO.v *)
Definition wrappers : list string := ["ADFI_write"; "ADFI_read"].

(* EXCEPTIONS of the CURRENT code: (caller, callee) pairs whose status can reach a primitive write / seek / close and is
   NOT propagated.  Each is replayed dynamically by checks/C14b.py (EIO injected at the primitive calls made under that
   call site); justification or finding in notes/C14b.md.  A listed pair is excused, never required: repairing it in
   /repo does not break any obligation (the pair then appears in Gen_C14.stale_exceptions). *)
Definition known_unchecked : list (string * string) :=
  [ (* ("ADF_Delete", "ADFI_delete_data") and ("ADFI_write_data_chunk", "ADFI_write_disk_pointer_2_disk") were
       repaired in /repo a52e496 / ed97a70 and are no longer excused: re-introducing either breaks the obligation *)
    ("ADFI_close_file", "ADFI_close_file");
    ("ADFI_read_chunk_length", "ADFI_read_file");
    ("rewrite_file", "cgio_close_file");
    ("cgio_cleanup", "cgio_close_file");
    ("cgio_find_file", "cgio_check_file");
    ("cgio_check_file", "ADFH_Database_Open");
    ("cgio_error_exit", "cgio_cleanup");
    ("cg_is_cgns", "cgio_close_file");
    ("cg_precision", "cgio_get_data_type");
    ("cgi_read_boco", "cgio_get_name");
    ("cgi_read_boco", "cgio_get_node_id")
  ].
Local Close Scope string_scope.

(* ------------------------------------------------------------------------------------------------ table-level helpers *)
Definition eff_table (t : list frow) : list frow := filter (fun f => negb (smem (f_name f) wrappers)) t.
Definition name_of (t : list frow) (externs : list (positive * string)) (i : positive) : string :=
  match find (fun f => Pos.eqb (f_id f) i) t with
  | Some f => f_name f
  | None => match find (fun p => Pos.eqb (fst p) i) externs with Some p => snd p | None => EmptyString end
  end.
Definition prim_set (t : list frow) (externs : list (positive * string)) : pset :=
  fold_left (fun S p => if smem (snd p) prim_io then PositiveSet.add (fst p) S else S) externs
    (fold_left (fun S f => if smem (f_name f) prim_io && smem (f_name f) wrappers then PositiveSet.add (f_id f) S else S)
               t PositiveSet.empty).
Definition primf (P : pset) (i : positive) : bool := PositiveSet.mem i P.
(* every id pair of the translated exception list is a pair of the hand list *)
Definition exceptions_named (t : list frow) externs (exc : list (positive * positive)) : bool :=
  forallb (fun p => spmem (name_of t externs (fst p), name_of t externs (snd p)) known_unchecked) exc.
(* the ids of the table are pairwise different and differ from the ids of the externs *)
Fixpoint nodup_b (l : list positive) : bool :=
  match l with [] => true | x :: r => negb (existsb (Pos.eqb x) r) && nodup_b r end.
Definition ids_ok (t : list frow) (externs : list (positive * string)) : bool :=
  nodup_b (map f_id t ++ map fst externs).

(* the rows that break the obligation, for reports: (caller, callee, line, continuation) *)
Definition bad_rows prim (t : list frow) exc (R : pset) : list (string * positive * positive * cont) :=
  flat_map (fun f => map (fun x => (f_name f, s_callee x, s_line x, s_cont x))
                         (filter (fun x => negb (site_ok prim R exc f x)) (f_sites f))) t.
Definition unparsed_rows (t : list frow) : list (string * positive) :=
  flat_map (fun f => map (fun x => (f_name f, s_line x)) (filter (fun x => is_unparsed (s_cont x)) (f_sites f))) t.
Definition reach_names (t : list frow) (R : pset) : list string :=
  map f_name (filter (fun f => PositiveSet.mem (f_id f) R) t).
(* rows that are excused by the exception list (for the dynamic replay) *)
Definition excused_rows prim (t : list frow) (R : pset) : list (string * positive * positive * cont) :=
  flat_map (fun f => map (fun x => (f_name f, s_callee x, s_line x, s_cont x))
                         (filter (fun x => callee_reaches prim R x && negb (propagates (s_cont x))) (f_sites f))) t.

(* the whole analysis of a table, as run by the extracted engine *)
Definition analyse_R (t : list frow) (externs : list (positive * string)) : pset :=
  reach (primf (prim_set t externs)) (eff_table t).
