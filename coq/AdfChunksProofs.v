(* AdfChunksProofs.v -- proofs about the data-chunk model (AdfChunks.v): the chunk-table invariant, read-after-write for
   every history, totality of the per-element chunk lookup, and the kernel-evaluated witnesses of the defects. *)
From Coq Require Import ZArith List Bool Lia FMapPositive Sorted.
From CgnsV Require Import ListX AdfCodec Hyperslab HyperslabProofs AdfChunks.
Import ListNotations.
Local Open Scope Z_scope.

Ltac Zify.zify_post_hook ::= Z.div_mod_to_equations.

(* ------------------------------------------------------------------ the byte store *)
Lemma key_inj p q : 0 <= p -> 0 <= q -> key p = key q -> p = q.
Proof. unfold key. intros Hp Hq H. apply Z2Pos.inj in H; lia. Qed.

Lemma lenZ_nonneg {A} (l : list A) : 0 <= lenZ l.
Proof. unfold lenZ. lia. Qed.
Lemma lenZ_cons {A} (x : A) l : lenZ (x :: l) = lenZ l + 1.
Proof. unfold lenZ. simpl length. lia. Qed.
Lemma lenZ_app {A} (a b : list A) : lenZ (a ++ b) = lenZ a + lenZ b.
Proof. unfold lenZ. rewrite app_length. lia. Qed.
Lemma lenZ_nil {A} : lenZ (@nil A) = 0.
Proof. reflexivity. Qed.

Lemma dget_neg d x : x < 0 -> dget d x = None.
Proof. unfold dget. intros H. destruct (Z.ltb_spec x 0); auto; lia. Qed.

Lemma dget_add_eq d x v : 0 <= x -> dget (PositiveMap.add (key x) v d) x = Some v.
Proof. unfold dget. intros H. destruct (Z.ltb_spec x 0); [lia|]. now rewrite PositiveMap.gss. Qed.
Lemma dget_add_neq d x y v : 0 <= x -> x <> y -> dget (PositiveMap.add (key x) v d) y = dget d y.
Proof.
  unfold dget. intros H Hn. destruct (Z.ltb_spec y 0); auto.
  rewrite PositiveMap.gso; auto. intro E. apply Hn. symmetry. now apply key_inj.
Qed.
Lemma dget_rem_eq d x : dget (PositiveMap.remove (key x) d) x = None.
Proof. unfold dget. destruct (x <? 0); auto. now rewrite PositiveMap.grs. Qed.
Lemma dget_rem_neq d x y : 0 <= x -> x <> y -> dget (PositiveMap.remove (key x) d) y = dget d y.
Proof.
  unfold dget. intros H Hn. destruct (Z.ltb_spec y 0); auto.
  rewrite PositiveMap.gro; auto. intro E. apply Hn. symmetry. now apply key_inj.
Qed.

Lemma dget_dput l : forall d a x, 0 <= a ->
  dget (dput d a l) x = if (a <=? x) && (x <? a + lenZ l) then Some (nth (Z.to_nat (x - a)) l 0) else dget d x.
Proof.
  induction l as [|b r IH]; intros d a x Ha; simpl dput.
  - rewrite lenZ_nil. destruct (Z.leb_spec a x), (Z.ltb_spec x (a + 0)); simpl; auto; lia.
  - rewrite IH by lia. rewrite lenZ_cons. pose proof (lenZ_nonneg r).
    destruct (Z.eq_dec x a) as [->|Hne].
    + rewrite dget_add_eq by lia.
      destruct (Z.leb_spec (a + 1) a), (Z.ltb_spec a (a + 1 + lenZ r)),
               (Z.leb_spec a a), (Z.ltb_spec a (a + (lenZ r + 1))); simpl; try lia.
      all: now replace (a - a) with 0 by lia.
    + rewrite dget_add_neq by lia.
      destruct (Z.leb_spec (a + 1) x), (Z.ltb_spec x (a + 1 + lenZ r)),
               (Z.leb_spec a x), (Z.ltb_spec x (a + (lenZ r + 1))); simpl; try lia; auto.
      replace (Z.to_nat (x - a)) with (S (Z.to_nat (x - (a + 1)))) by lia. reflexivity.
Qed.

Lemma dget_dclr n : forall d a x, 0 <= a ->
  dget (dclr d a n) x = if (a <=? x) && (x <? a + Z.of_nat n) then None else dget d x.
Proof.
  induction n as [|n IH]; intros d a x Ha; simpl dclr.
  - destruct (Z.leb_spec a x), (Z.ltb_spec x (a + Z.of_nat 0)); simpl; auto; lia.
  - rewrite IH by lia.
    destruct (Z.eq_dec x a) as [->|Hne].
    + rewrite dget_rem_eq.
      destruct (Z.leb_spec (a + 1) a), (Z.ltb_spec a (a + 1 + Z.of_nat n)),
               (Z.leb_spec a a), (Z.ltb_spec a (a + Z.of_nat (S n))); simpl; auto; lia.
    + rewrite dget_rem_neq by lia.
      destruct (Z.leb_spec (a + 1) x), (Z.ltb_spec x (a + 1 + Z.of_nat n)),
               (Z.leb_spec a x), (Z.ltb_spec x (a + Z.of_nat (S n))); simpl; auto; lia.
Qed.

Lemma drd_length n : forall d a, length (drd d a n) = n.
Proof. induction n; intros; simpl; auto. Qed.
Lemma drd_nth n : forall d a i, (i < n)%nat -> nth i (drd d a n) None = dget d (a + Z.of_nat i).
Proof.
  induction n as [|n IH]; intros d a i Hi; [lia|]. simpl. destruct i as [|i].
  - f_equal. lia.
  - rewrite IH by lia. f_equal. lia.
Qed.
Lemma drd_ext n : forall d d' a, (forall x, a <= x < a + Z.of_nat n -> dget d' x = dget d x) -> drd d' a n = drd d a n.
Proof.
  induction n as [|n IH]; intros d d' a H; simpl; auto. f_equal.
  - apply H. lia.
  - apply IH. intros x Hx. apply H. lia.
Qed.
Lemma drd_app n m : forall d a, drd d a (n + m) = drd d a n ++ drd d (a + Z.of_nat n) m.
Proof.
  induction n as [|n IH]; intros d a; simpl.
  - f_equal. lia.
  - f_equal. rewrite IH. do 2 f_equal. lia.
Qed.

(* the store holds the bytes bs at address a *)
Definition holds (d : disk) (a : Z) (bs : bytes) : Prop :=
  forall i, (i < length bs)%nat -> dget d (a + Z.of_nat i) = Some (nth i bs 0).

Lemma known_map bs : known (map Some bs) = Some bs.
Proof. induction bs as [|b r IH]; simpl; auto. now rewrite IH. Qed.
Lemma known_inv l : forall bs, known l = Some bs -> l = map Some bs.
Proof.
  induction l as [|x r IH]; intros bs H; simpl in H.
  - inversion H. reflexivity.
  - destruct x as [b|]; [|discriminate]. destruct (known r) as [t|] eqn:E; [|discriminate].
    inversion H; subst. simpl. f_equal. now apply IH.
Qed.
Lemma known_some l bs : known l = Some bs <-> l = map Some bs.
Proof. split; [apply known_inv|intros ->; apply known_map]. Qed.

Lemma holds_drd d a bs : holds d a bs <-> drd d a (length bs) = map Some bs.
Proof.
  split.
  - revert a. induction bs as [|b r IH]; intros a H; simpl; auto. f_equal.
    + specialize (H 0%nat). simpl in H. rewrite Z.add_0_r in H. apply H. lia.
    + apply IH. intros i Hi. specialize (H (S i)). simpl in H. replace (a + 1 + Z.of_nat i) with (a + Z.pos (Pos.of_succ_nat i)) by lia.
      apply H. lia.
  - intros H i Hi. rewrite <- drd_nth with (n := length bs) by auto. rewrite H.
    rewrite nth_indep with (d' := Some 0) by (rewrite map_length; auto).
    now rewrite (map_nth Some bs 0 i).
Qed.

Lemma holds_known d a bs : holds d a bs -> known (drd d a (length bs)) = Some bs.
Proof. intros H. apply known_some. now apply holds_drd. Qed.

Lemma holds_dput_same d a bs : 0 <= a -> holds (dput d a bs) a bs.
Proof.
  intros Ha i Hi. rewrite dget_dput by auto. unfold lenZ.
  destruct (Z.leb_spec a (a + Z.of_nat i)), (Z.ltb_spec (a + Z.of_nat i) (a + Z.of_nat (length bs))); simpl; try lia.
  do 2 f_equal. lia.
Qed.

(* d' agrees with d outside [lo, hi) *)
Definition same_out (d d' : disk) (lo hi : Z) : Prop := forall x, x < lo \/ hi <= x -> dget d' x = dget d x.

Lemma same_out_refl d lo hi : same_out d d lo hi.
Proof. intros x _. reflexivity. Qed.
Lemma same_out_weaken d d' lo hi lo' hi' : same_out d d' lo hi -> lo' <= lo -> hi <= hi' -> same_out d d' lo' hi'.
Proof. intros H H1 H2 x Hx. apply H. lia. Qed.
Lemma same_out_trans d1 d2 d3 lo hi : same_out d1 d2 lo hi -> same_out d2 d3 lo hi -> same_out d1 d3 lo hi.
Proof. intros A B x Hx. rewrite B, A; auto. Qed.
Lemma same_out_dput d a bs : 0 <= a -> same_out d (dput d a bs) a (a + lenZ bs).
Proof.
  intros Ha x Hx. rewrite dget_dput by auto.
  destruct (Z.leb_spec a x), (Z.ltb_spec x (a + lenZ bs)); simpl; auto; lia.
Qed.
Lemma same_out_dclr d a n : 0 <= a -> same_out d (dclr d a n) a (a + Z.of_nat n).
Proof.
  intros Ha x Hx. rewrite dget_dclr by auto.
  destruct (Z.leb_spec a x), (Z.ltb_spec x (a + Z.of_nat n)); simpl; auto; lia.
Qed.

Lemma holds_same_out d d' a bs lo hi :
  holds d a bs -> same_out d d' lo hi -> a + lenZ bs <= lo \/ hi <= a -> holds d' a bs.
Proof.
  intros H S Hd i Hi. rewrite S; [apply H; auto|]. unfold lenZ in Hd. lia.
Qed.

(* ------------------------------------------------------------------ pointers *)
(* a normalised pointer below 2^32 blocks *)
Definition gp (p : ptr) : Prop := 0 <= fst p < 2 ^ 32 /\ 0 <= snd p < DBS.
(* the normalised pointer of a linear address *)
Definition pnorm (a : Z) : ptr := (a / DBS, a mod DBS).

Lemma addr_pnorm a : addr (pnorm a) = a.
Proof. unfold addr, pnorm, DBS; simpl. lia. Qed.
Lemma pnorm_addr p : 0 <= snd p < DBS -> pnorm (addr p) = p.
Proof.
  destruct p as [b o]. unfold addr, pnorm, DBS; simpl. intros H. f_equal.
  - rewrite Z.div_add_l by lia. rewrite Z.div_small by lia. lia.
  - rewrite Z.add_comm, Z.mod_add by lia. apply Z.mod_small. lia.
Qed.
Lemma gp_pnorm a : 0 <= a < 2 ^ 44 -> gp (pnorm a).
Proof. unfold gp, pnorm, DBS; simpl. intros H. split; [|lia]. change (2 ^ 44) with (2 ^ 32 * 4096) in H. lia. Qed.
Lemma gp_addr p : gp p -> 0 <= addr p < 2 ^ 44.
Proof. destruct p as [b o]. unfold gp, addr, DBS; simpl. change (2 ^ 44) with (2 ^ 32 * 4096). lia. Qed.

Lemma adjust_ok b o : 0 <= b -> 0 <= o -> b * DBS + o < 2 ^ 60 ->
  adjust (b, o) = Ok (pnorm (b * DBS + o)).
Proof.
  intros Hb Ho Hs. unfold adjust, pnorm. change BLK with 4096. unfold DBS in *.
  destruct (Z.ltb_spec o 4096).
  - f_equal. f_equal.
    + rewrite Z.div_add_l by lia. rewrite Z.div_small by lia. lia.
    + rewrite Z.add_comm, Z.mod_add by lia. symmetry. apply Z.mod_small. lia.
  - assert (E : (b + o / 4096) mod AdfCodec.W64 = b + o / 4096).
    { apply Z.mod_small. unfold AdfCodec.W64. lia. }
    rewrite E. destruct (Z.ltb_spec (b + o / 4096) b); [lia|].
    f_equal. f_equal.
    + rewrite Z.div_add_l by lia. lia.
    + rewrite Z.add_comm, Z.mod_add by lia. lia.
Qed.

Lemma adjust_gt_ok b o : 0 <= b -> 0 <= o -> b * DBS + o < 2 ^ 60 ->
  exists q, adjust_gt (b, o) = Ok q /\ addr q = b * DBS + o.
Proof.
  intros Hb Ho Hs. unfold adjust_gt. simpl snd. destruct (Z.gtb_spec o DBS).
  - rewrite adjust_ok by auto. eexists; split; [reflexivity|apply addr_pnorm].
  - eexists; split; [reflexivity|]. reflexivity.
Qed.

(* ------------------------------------------------------------------ the pointer codec (new-version files) *)
(* (proved here and not taken from AdfCodecProofs.v so that this layer depends on AdfCodec.v only) *)
Definition fa_good (fa : fattr) : Prop := fa_old fa = false /\ (fa_fmt fa = 76 \/ fa_fmt fa = 66 \/ fa_fmt fa = 67).

Lemma le_enc_len n : forall v, length (le_enc n v) = n.
Proof. induction n; intros; simpl; auto. Qed.
Lemma le_rt n : forall v, 0 <= v < 256 ^ Z.of_nat n -> le_dec (le_enc n v) = v.
Proof.
  induction n as [|n IH]; intros v Hv.
  - simpl in *. lia.
  - cbn [le_enc le_dec]. rewrite IH.
    + lia.
    + rewrite Nat2Z.inj_succ, Z.pow_succ_r in Hv by lia. lia.
Qed.
Lemma conv_enc_len fmt n v : length (conv_int_enc fmt n v) = n.
Proof. unfold conv_int_enc. destruct (_ || _); [rewrite rev_length|]; apply le_enc_len. Qed.
Lemma conv_rt fmt n v : fmt = 76 \/ fmt = 66 \/ fmt = 67 -> 0 <= v < 256 ^ Z.of_nat n ->
  conv_int fmt (conv_int_enc fmt n v) = Ok v.
Proof.
  intros F Hv. unfold conv_int, conv_int_enc, conv_mode.
  destruct F as [ -> | [ -> | -> ] ]; simpl; rewrite ?rev_involutive, le_rt; auto.
Qed.

Lemma dp_enc_len fa p : fa_good fa -> length (dp_enc fa p) = 12%nat.
Proof. intros [O _]. unfold dp_enc. rewrite O, app_length, !conv_enc_len. reflexivity. Qed.

Lemma firstn_app_len {A} (a b : list A) n : length a = n -> firstn n (a ++ b) = a.
Proof. intros <-. rewrite firstn_app, Nat.sub_diag, firstn_O, app_nil_r. apply firstn_all. Qed.
Lemma skipn_app_len {A} (a b : list A) n : length a = n -> skipn n (a ++ b) = b.
Proof. intros <-. rewrite skipn_app, Nat.sub_diag, skipn_all. reflexivity. Qed.

Lemma dp_rt fa p : fa_good fa -> 0 <= fst p < 2 ^ 64 -> 0 <= snd p < 2 ^ 32 -> dp_dec fa (dp_enc fa p) = Ok p.
Proof.
  intros [O F] Hb Ho. unfold dp_dec, dp_enc. rewrite O. unfold sub.
  change (skipn 0 ?l) with l.
  rewrite firstn_app_len by apply conv_enc_len.
  rewrite conv_rt by (auto; change (256 ^ Z.of_nat 8) with (2 ^ 64); lia). cbn [bind].
  rewrite skipn_app_len by apply conv_enc_len.
  rewrite firstn_all2 by (rewrite conv_enc_len; lia).
  rewrite conv_rt by (auto; change (256 ^ Z.of_nat 4) with (2 ^ 32); lia). cbn [bind]. now destruct p.
Qed.

Lemma gp_dp_rt fa p : fa_good fa -> gp p -> dp_dec fa (dp_enc fa p) = Ok p.
Proof.
  intros G [Hb Ho]. apply dp_rt; auto.
  - split; [lia|]. eapply Z.lt_trans; [apply Hb|]. reflexivity.
  - unfold DBS in Ho. split; [lia|]. eapply Z.lt_trans; [apply Ho|]. reflexivity.
Qed.

(* ------------------------------------------------------------------ holds: more *)
Lemma holds_dput_other d a bs a' l : 0 <= a' -> holds d a bs -> a + lenZ bs <= a' \/ a' + lenZ l <= a -> holds (dput d a' l) a bs.
Proof. intros Ha H Hd. eapply holds_same_out; [exact H|apply same_out_dput; auto|]. lia. Qed.

Lemma holds_app d a x y : holds d a (x ++ y) <-> holds d a x /\ holds d (a + lenZ x) y.
Proof.
  unfold lenZ. split.
  - intros H. split.
    + intros i Hi. rewrite H by (rewrite app_length; lia). now rewrite app_nth1.
    + intros i Hi. specialize (H (length x + i)%nat). rewrite app_length in H.
      rewrite app_nth2 in H by lia. replace (length x + i - length x)%nat with i in H by lia. rewrite <- H by lia. f_equal. lia.
  - intros [H1 H2] i Hi. rewrite app_length in Hi. destruct (Nat.lt_ge_cases i (length x)).
    + rewrite app_nth1 by auto. auto.
    + rewrite app_nth2 by auto. specialize (H2 (i - length x)%nat). rewrite <- H2 by lia. f_equal. lia.
Qed.

Lemma nth_firstn_lt {A} (l : list A) n i d0 : (i < n)%nat -> nth i (firstn n l) d0 = nth i l d0.
Proof.
  revert l i. induction n as [|n IH]; intros l i H; [lia|].
  destruct l as [|x r]; [destruct i; reflexivity|]. destruct i as [|i]; simpl; auto. apply IH. lia.
Qed.
Lemma holds_firstn d a bs n : holds d a bs -> holds d a (firstn n bs).
Proof.
  intros H i Hi. rewrite firstn_length in Hi. rewrite H by lia. f_equal. symmetry. apply nth_firstn_lt. lia.
Qed.

Lemma holds_unique d a x y : length x = length y -> holds d a x -> holds d a y -> x = y.
Proof.
  intros L Hx Hy. apply nth_ext with (d := 0) (d' := 0); auto.
  intros i Hi. specialize (Hx i Hi). rewrite Hy in Hx by lia. congruence.
Qed.

Lemma holds_nil d a : holds d a [].
Proof. intros i Hi. simpl in Hi. lia. Qed.

Lemma repeat_nth {A} (x d : A) n i : (i < n)%nat -> nth i (repeat x n) d = x.
Proof. revert i. induction n as [|n IH]; intros [|i] H; simpl; auto; try lia. apply IH. lia. Qed.

Lemma lenZ_zeros n : 0 <= n -> lenZ (zeros n) = n.
Proof. intros H. unfold lenZ, zeros. rewrite repeat_length. lia. Qed.
Lemma lenZ_firstn_le {A} (l : list A) n : lenZ (firstn n l) <= Z.of_nat n.
Proof. unfold lenZ. rewrite firstn_length. lia. Qed.

Lemma tag_len4 : length tag_DaTa = 4%nat /\ length tag_dEnD = 4%nat /\ length tag_DCtb = 4%nat /\ length tag_dcTE = 4%nat.
Proof. repeat split. Qed.

Lemma tag4_refl_DaTa : tag4 tag_DaTa tag_DaTa = true. Proof. reflexivity. Qed.
Lemma tag4_refl_dEnD : tag4 tag_dEnD tag_dEnD = true. Proof. reflexivity. Qed.
Lemma tag4_refl_DCtb : tag4 tag_DCtb tag_DCtb = true. Proof. reflexivity. Qed.
Lemma tag4_refl_dcTE : tag4 tag_dcTE tag_dcTE = true. Proof. reflexivity. Qed.
Lemma tag4_DaTa_DCtb : tag4 tag_DaTa tag_DCtb = false. Proof. reflexivity. Qed.
Lemma tag4_DCtb_DaTa : tag4 tag_DCtb tag_DaTa = false. Proof. reflexivity. Qed.

Section Proofs.
Variable cf : cfg.
Variable fa : fattr.
Hypothesis Hfa : fa_good fa.
Hypothesis Hsigned : c_signed cf = true.
Hypothesis Hwall : c_fix_wall cf = true.
Hypothesis Hwblock : c_fix_wblock cf = true.
Hypothesis Hzero : c_fix_zero cf = true.
Hypothesis Hrblock : c_fix_rblock cf = true.

(* ------------------------------------------------------------------ reading tags and pointers *)
Lemma rd_unfold d p n : rd d p n = drd d (addr p) (Z.to_nat n).
Proof. reflexivity. Qed.

Lemma read_tag_holds d p t : length t = 4%nat -> holds d (addr p) t -> read_tag d p = Ok t.
Proof.
  intros L H. unfold read_tag, rd. change (Z.to_nat TAG_SIZE) with 4%nat. rewrite <- L.
  now rewrite holds_known.
Qed.

Lemma read_ptr_holds d p q : gp q -> holds d (addr p) (dp_enc fa q) -> read_ptr fa d p = Ok q.
Proof.
  intros G H. unfold read_ptr, rd. change (Z.to_nat DPS) with 12%nat. rewrite <- (dp_enc_len fa q Hfa).
  rewrite holds_known by auto. now apply gp_dp_rt.
Qed.

Lemma read_chunk_length_holds d p t e : length t = 4%nat -> gp e ->
  holds d (addr p) t -> holds d (addr p + 4) (dp_enc fa e) -> read_chunk_length fa d p = Ok (t, e).
Proof.
  intros L G Ht He. unfold read_chunk_length, rd.
  replace (Z.to_nat HDR) with (length (t ++ dp_enc fa e)) by (rewrite app_length, L, dp_enc_len by auto; reflexivity).
  rewrite holds_known.
  - replace (skipn 4 (t ++ dp_enc fa e)) with (dp_enc fa e) by (rewrite <- L, skipn_app_len; auto).
    rewrite gp_dp_rt by auto. cbn [bind]. rewrite <- L, firstn_app_len; auto.
  - apply holds_app. split; auto. unfold lenZ. rewrite L. exact He.
Qed.

(* ------------------------------------------------------------------ chunks *)
Definition cstart (c : ptr * ptr) : Z := addr (fst c).
Definition cend (c : ptr * ptr) : Z := addr (snd c).

Lemma csize_addr c : csize c = cend c - cstart c - HDR.
Proof. destruct c as [[sb so] [eb eo]]. unfold csize, cend, cstart, addr, HDR, DBS; simpl. ring. Qed.

(* a well-formed data chunk: both pointers normalised, positive size, both tags and its own end pointer in place *)
Definition chunk_at (d : disk) (c : ptr * ptr) : Prop :=
  gp (fst c) /\ gp (snd c) /\ 0 < csize c /\
  holds d (cstart c) tag_DaTa /\ holds d (cstart c + 4) (dp_enc fa (snd c)) /\ holds d (cend c) tag_dEnD.

Lemma chunk_at_same_out d d' c lo hi :
  chunk_at d c -> same_out d d' lo hi -> cend c + 4 <= lo \/ hi <= cstart c -> chunk_at d' c.
Proof.
  intros (G1 & G2 & S & T1 & P & T2) SO Hd. rewrite csize_addr in S. unfold HDR in S.
  split; [exact G1|]. split; [exact G2|]. split; [rewrite csize_addr; unfold HDR; lia|]. split; [|split].
  - eapply holds_same_out; eauto. unfold lenZ; simpl. lia.
  - eapply holds_same_out; eauto. unfold lenZ. rewrite dp_enc_len by auto. simpl. lia.
  - eapply holds_same_out; eauto. unfold lenZ; simpl. lia.
Qed.

(* the four writes of ADFI_write_data_chunk at linear addresses *)
Lemma four_puts d a t1 enc so cb data t2 n :
  0 <= a -> length t1 = 4%nat -> length enc = 12%nat -> length t2 = 4%nat ->
  0 <= so -> lenZ data <= n -> so + n <= cb ->
  let d' := dput (dput (dput (dput d a t1) (a + 4) enc) (a + 16 + so) data) (a + 16 + cb) t2 in
  holds d' a t1 /\ holds d' (a + 4) enc /\ holds d' (a + 16 + so) data /\ holds d' (a + 16 + cb) t2 /\
  (forall x, ~ (a <= x < a + 16) -> ~ (a + 16 + so <= x < a + 16 + so + n) -> ~ (a + 16 + cb <= x < a + 16 + cb + 4) ->
             dget d' x = dget d x).
Proof.
  intros Ha L1 L2 L3 Hso Hn Hcb d'. pose proof (lenZ_nonneg data) as Hd0.
  assert (E1 : lenZ t1 = 4) by (unfold lenZ; rewrite L1; reflexivity).
  assert (E2 : lenZ enc = 12) by (unfold lenZ; rewrite L2; reflexivity).
  assert (E3 : lenZ t2 = 4) by (unfold lenZ; rewrite L3; reflexivity).
  subst d'. repeat split.
  - repeat (apply holds_dput_other; [lia| |lia]). apply holds_dput_same; lia.
  - repeat (apply holds_dput_other; [lia| |lia]). apply holds_dput_same; lia.
  - apply holds_dput_other; [lia| |lia]. apply holds_dput_same; lia.
  - apply holds_dput_same; lia.
  - intros x H1 H2 H3. rewrite !dget_dput by lia. rewrite E1, E2, E3.
    repeat match goal with |- context [Z.leb ?u ?v] => destruct (Z.leb_spec u v) end;
    repeat match goal with |- context [Z.ltb ?u ?v] => destruct (Z.ltb_spec u v) end; simpl; auto; lia.
Qed.

Lemma addr_unfold p : addr p = fst p * DBS + snd p.
Proof. reflexivity. Qed.

Lemma gp_nonneg p : gp p -> 0 <= fst p /\ 0 <= snd p /\ 0 <= addr p < 2 ^ 44.
Proof. intros G. pose proof (gp_addr p G). destruct G as [[? ?] [? ?]]. auto. Qed.

Lemma pow_facts : 2 ^ 44 + 2 ^ 41 < 2 ^ 60 /\ 2 ^ 44 + 2 ^ 41 < 2 ^ 64 /\ 0 < 2 ^ 40 /\ 2 ^ 40 * 2 = 2 ^ 41 /\ 2 ^ 44 = 2 ^ 32 * 4096.
Proof. repeat split; reflexivity. Qed.

Lemma wdc_some d p cb so n bs :
  gp p -> 0 < cb < 2 ^ 40 -> 0 <= so -> 0 <= n -> so + n <= cb ->
  exists d', write_data_chunk cf fa d p cb so n (Some bs) = (Ok tt, d') /\
    holds d' (addr p) tag_DaTa /\ holds d' (addr p + 4) (dp_enc fa (pnorm (addr p + HDR + cb))) /\
    holds d' (addr p + HDR + cb) tag_dEnD /\
    holds d' (addr p + HDR + so) (firstn (Z.to_nat n) bs) /\
    (forall x, ~ (addr p <= x < addr p + HDR) -> ~ (addr p + HDR + so <= x < addr p + HDR + so + n) ->
               ~ (addr p + HDR + cb <= x < addr p + HDR + cb + 4) -> dget d' x = dget d x).
Proof.
  intros G Hcb Hso Hn Hle. destruct (gp_nonneg p G) as (Hb & Ho & Ha). pose proof pow_facts as (P1 & P2 & P3 & P4 & P5).
  pose proof (addr_unfold p) as Ea.
  unfold write_data_chunk. destruct (Z.gtb_spec (n + so) cb); [lia|].
  unfold TAG_SIZE, DPS. rewrite adjust_ok by lia. cbn [bindO].
  rewrite adjust_ok by lia. cbn [bindO].
  replace (fst p * DBS + (snd p + 4)) with (addr p + 4) by (rewrite addr_unfold; ring).
  replace (fst p * DBS + (snd p + 4 + 12 + cb)) with (addr p + HDR + cb) by (rewrite addr_unfold; unfold HDR; ring).
  assert (Hcl : 0 <= fst (pnorm (addr p + 4)) /\ 0 <= snd (pnorm (addr p + 4))).
  { unfold pnorm, DBS; simpl. lia. }
  pose proof (addr_pnorm (addr p + 4)) as Ecl. rewrite addr_unfold in Ecl.
  rewrite adjust_ok by lia.
  cbn [bindO].
  replace (fst (pnorm (addr p + 4)) * DBS + (snd (pnorm (addr p + 4)) + so + 12)) with (addr p + HDR + so)
    by (unfold HDR; lia).
  eexists. split; [reflexivity|]. unfold wr. rewrite !addr_pnorm.
  assert (Hlen : lenZ (firstn (Z.to_nat n) bs) <= n) by (pose proof (lenZ_firstn_le bs (Z.to_nat n)); lia).
  destruct (four_puts d (addr p) tag_DaTa (dp_enc fa (pnorm (addr p + HDR + cb))) so cb (firstn (Z.to_nat n) bs) tag_dEnD n
              (proj1 Ha) eq_refl (dp_enc_len fa _ Hfa) eq_refl Hso Hlen Hle) as (F1 & F2 & F3 & F4 & F5).
  unfold HDR in *.
  split; [exact F1|split; [exact F2|split; [exact F4|split; [exact F3|exact F5]]]].
Qed.
