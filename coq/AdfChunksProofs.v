(* AdfChunksProofs.v -- placeholder while the tie is developed *)
From Coq Require Import ZArith List Bool Lia.
From CgnsV Require Import ListX AdfCodec AdfChunks.
Lemma placeholder : True. Proof. exact I. Qed.
