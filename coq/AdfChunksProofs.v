(* AdfChunksProofs.v -- proofs about the data-chunk model (AdfChunks.v): the chunk-table invariant, read-after-write for
   every history, totality of the per-element chunk lookup, and the kernel-evaluated witnesses of the defects. *)
From Coq Require Import ZArith List Bool Lia FMapPositive Sorted.
From CgnsV Require Import ListX AdfCodec Hyperslab HyperslabProofs AdfChunks.
Import ListNotations.
Local Open Scope Z_scope.

Ltac Zify.zify_post_hook ::= Z.div_mod_to_equations.

(* ------------------------------------------------------------------ the byte store *)
Lemma key_inj p q : 0 <= p -> 0 <= q -> key p = key q -> p = q.
Proof. unfold key. intros Hp Hq H. apply Z2Pos.inj in H; lia. Qed.

Lemma lenZ_nonneg {A} (l : list A) : 0 <= lenZ l.
Proof. unfold lenZ. lia. Qed.
Lemma lenZ_cons {A} (x : A) l : lenZ (x :: l) = lenZ l + 1.
Proof. unfold lenZ. simpl length. lia. Qed.
Lemma lenZ_app {A} (a b : list A) : lenZ (a ++ b) = lenZ a + lenZ b.
Proof. unfold lenZ. rewrite app_length. lia. Qed.
Lemma lenZ_nil {A} : lenZ (@nil A) = 0.
Proof. reflexivity. Qed.

Lemma dget_neg d x : x < 0 -> dget d x = None.
Proof. unfold dget. intros H. destruct (Z.ltb_spec x 0); auto; lia. Qed.

Lemma dget_add_eq d x v : 0 <= x -> dget (PositiveMap.add (key x) v d) x = Some v.
Proof. unfold dget. intros H. destruct (Z.ltb_spec x 0); [lia|]. now rewrite PositiveMap.gss. Qed.
Lemma dget_add_neq d x y v : 0 <= x -> x <> y -> dget (PositiveMap.add (key x) v d) y = dget d y.
Proof.
  unfold dget. intros H Hn. destruct (Z.ltb_spec y 0); auto.
  rewrite PositiveMap.gso; auto. intro E. apply Hn. symmetry. now apply key_inj.
Qed.
Lemma dget_rem_eq d x : dget (PositiveMap.remove (key x) d) x = None.
Proof. unfold dget. destruct (x <? 0); auto. now rewrite PositiveMap.grs. Qed.
Lemma dget_rem_neq d x y : 0 <= x -> x <> y -> dget (PositiveMap.remove (key x) d) y = dget d y.
Proof.
  unfold dget. intros H Hn. destruct (Z.ltb_spec y 0); auto.
  rewrite PositiveMap.gro; auto. intro E. apply Hn. symmetry. now apply key_inj.
Qed.

Lemma dget_dput l : forall d a x, 0 <= a ->
  dget (dput d a l) x = if (a <=? x) && (x <? a + lenZ l) then Some (nth (Z.to_nat (x - a)) l 0) else dget d x.
Proof.
  induction l as [|b r IH]; intros d a x Ha; simpl dput.
  - rewrite lenZ_nil. destruct (Z.leb_spec a x), (Z.ltb_spec x (a + 0)); simpl; auto; lia.
  - rewrite IH by lia. rewrite lenZ_cons. pose proof (lenZ_nonneg r).
    destruct (Z.eq_dec x a) as [->|Hne].
    + rewrite dget_add_eq by lia.
      destruct (Z.leb_spec (a + 1) a), (Z.ltb_spec a (a + 1 + lenZ r)),
               (Z.leb_spec a a), (Z.ltb_spec a (a + (lenZ r + 1))); simpl; try lia.
      all: now replace (a - a) with 0 by lia.
    + rewrite dget_add_neq by lia.
      destruct (Z.leb_spec (a + 1) x), (Z.ltb_spec x (a + 1 + lenZ r)),
               (Z.leb_spec a x), (Z.ltb_spec x (a + (lenZ r + 1))); simpl; try lia; auto.
      replace (Z.to_nat (x - a)) with (S (Z.to_nat (x - (a + 1)))) by lia. reflexivity.
Qed.

Lemma dget_dclr n : forall d a x, 0 <= a ->
  dget (dclr d a n) x = if (a <=? x) && (x <? a + Z.of_nat n) then None else dget d x.
Proof.
  induction n as [|n IH]; intros d a x Ha; simpl dclr.
  - destruct (Z.leb_spec a x), (Z.ltb_spec x (a + Z.of_nat 0)); simpl; auto; lia.
  - rewrite IH by lia.
    destruct (Z.eq_dec x a) as [->|Hne].
    + rewrite dget_rem_eq.
      destruct (Z.leb_spec (a + 1) a), (Z.ltb_spec a (a + 1 + Z.of_nat n)),
               (Z.leb_spec a a), (Z.ltb_spec a (a + Z.of_nat (S n))); simpl; auto; lia.
    + rewrite dget_rem_neq by lia.
      destruct (Z.leb_spec (a + 1) x), (Z.ltb_spec x (a + 1 + Z.of_nat n)),
               (Z.leb_spec a x), (Z.ltb_spec x (a + Z.of_nat (S n))); simpl; auto; lia.
Qed.

Lemma drd_length n : forall d a, length (drd d a n) = n.
Proof. induction n; intros; simpl; auto. Qed.
Lemma drd_nth n : forall d a i, (i < n)%nat -> nth i (drd d a n) None = dget d (a + Z.of_nat i).
Proof.
  induction n as [|n IH]; intros d a i Hi; [lia|]. simpl. destruct i as [|i].
  - f_equal. lia.
  - rewrite IH by lia. f_equal. lia.
Qed.
Lemma drd_ext n : forall d d' a, (forall x, a <= x < a + Z.of_nat n -> dget d' x = dget d x) -> drd d' a n = drd d a n.
Proof.
  induction n as [|n IH]; intros d d' a H; simpl; auto. f_equal.
  - apply H. lia.
  - apply IH. intros x Hx. apply H. lia.
Qed.
Lemma drd_app n m : forall d a, drd d a (n + m) = drd d a n ++ drd d (a + Z.of_nat n) m.
Proof.
  induction n as [|n IH]; intros d a; simpl.
  - f_equal. lia.
  - f_equal. rewrite IH. do 2 f_equal. lia.
Qed.

(* the store holds the bytes bs at address a *)
Definition holds (d : disk) (a : Z) (bs : bytes) : Prop :=
  forall i, (i < length bs)%nat -> dget d (a + Z.of_nat i) = Some (nth i bs 0).

Lemma known_map bs : known (map Some bs) = Some bs.
Proof. induction bs as [|b r IH]; simpl; auto. now rewrite IH. Qed.
Lemma known_inv l : forall bs, known l = Some bs -> l = map Some bs.
Proof.
  induction l as [|x r IH]; intros bs H; simpl in H.
  - inversion H. reflexivity.
  - destruct x as [b|]; [|discriminate]. destruct (known r) as [t|] eqn:E; [|discriminate].
    inversion H; subst. simpl. f_equal. now apply IH.
Qed.
Lemma known_some l bs : known l = Some bs <-> l = map Some bs.
Proof. split; [apply known_inv|intros ->; apply known_map]. Qed.

Lemma holds_drd d a bs : holds d a bs <-> drd d a (length bs) = map Some bs.
Proof.
  split.
  - revert a. induction bs as [|b r IH]; intros a H; simpl; auto. f_equal.
    + specialize (H 0%nat). simpl in H. rewrite Z.add_0_r in H. apply H. lia.
    + apply IH. intros i Hi. specialize (H (S i)). simpl in H. replace (a + 1 + Z.of_nat i) with (a + Z.pos (Pos.of_succ_nat i)) by lia.
      apply H. lia.
  - intros H i Hi. rewrite <- drd_nth with (n := length bs) by auto. rewrite H.
    rewrite nth_indep with (d' := Some 0) by (rewrite map_length; auto).
    now rewrite (map_nth Some bs 0 i).
Qed.

Lemma holds_get d a bs x : holds d a bs -> a <= x < a + lenZ bs -> dget d x = Some (nth (Z.to_nat (x - a)) bs 0).
Proof. intros H Hx. specialize (H (Z.to_nat (x - a))). replace x with (a + Z.of_nat (Z.to_nat (x - a))) at 1 by lia. apply H. unfold lenZ in Hx. lia. Qed.

Lemma holds_known d a bs : holds d a bs -> known (drd d a (length bs)) = Some bs.
Proof. intros H. apply known_some. now apply holds_drd. Qed.

Lemma holds_dput_same d a bs : 0 <= a -> holds (dput d a bs) a bs.
Proof.
  intros Ha i Hi. rewrite dget_dput by auto. unfold lenZ.
  destruct (Z.leb_spec a (a + Z.of_nat i)), (Z.ltb_spec (a + Z.of_nat i) (a + Z.of_nat (length bs))); simpl; try lia.
  do 2 f_equal. lia.
Qed.

(* d' agrees with d outside [lo, hi) *)
Definition same_out (d d' : disk) (lo hi : Z) : Prop := forall x, x < lo \/ hi <= x -> dget d' x = dget d x.

Lemma same_out_refl d lo hi : same_out d d lo hi.
Proof. intros x _. reflexivity. Qed.
Lemma same_out_weaken d d' lo hi lo' hi' : same_out d d' lo hi -> lo' <= lo -> hi <= hi' -> same_out d d' lo' hi'.
Proof. intros H H1 H2 x Hx. apply H. lia. Qed.
Lemma same_out_trans d1 d2 d3 lo hi : same_out d1 d2 lo hi -> same_out d2 d3 lo hi -> same_out d1 d3 lo hi.
Proof. intros A B x Hx. rewrite B, A; auto. Qed.
Lemma same_out_dput d a bs : 0 <= a -> same_out d (dput d a bs) a (a + lenZ bs).
Proof.
  intros Ha x Hx. rewrite dget_dput by auto.
  destruct (Z.leb_spec a x), (Z.ltb_spec x (a + lenZ bs)); simpl; auto; lia.
Qed.
Lemma same_out_dclr d a n : 0 <= a -> same_out d (dclr d a n) a (a + Z.of_nat n).
Proof.
  intros Ha x Hx. rewrite dget_dclr by auto.
  destruct (Z.leb_spec a x), (Z.ltb_spec x (a + Z.of_nat n)); simpl; auto; lia.
Qed.

Lemma holds_same_out d d' a bs lo hi :
  holds d a bs -> same_out d d' lo hi -> a + lenZ bs <= lo \/ hi <= a -> holds d' a bs.
Proof.
  intros H S Hd i Hi. rewrite S; [apply H; auto|]. unfold lenZ in Hd. lia.
Qed.

(* ------------------------------------------------------------------ pointers *)
(* a normalised pointer below 2^32 blocks *)
Definition gp (p : ptr) : Prop := 0 <= fst p < 2 ^ 32 /\ 0 <= snd p < DBS.
(* the normalised pointer of a linear address *)
Definition pnorm (a : Z) : ptr := (a / DBS, a mod DBS).

Lemma addr_pnorm a : addr (pnorm a) = a.
Proof. unfold addr, pnorm, DBS; simpl. lia. Qed.
Lemma pnorm_addr p : 0 <= snd p < DBS -> pnorm (addr p) = p.
Proof.
  destruct p as [b o]. unfold addr, pnorm, DBS; simpl. intros H. f_equal.
  - rewrite Z.div_add_l by lia. rewrite Z.div_small by lia. lia.
  - rewrite Z.add_comm, Z.mod_add by lia. apply Z.mod_small. lia.
Qed.
Lemma gp_pnorm a : 0 <= a < 2 ^ 44 -> gp (pnorm a).
Proof. unfold gp, pnorm, DBS; simpl. intros H. split; [|lia]. change (2 ^ 44) with (2 ^ 32 * 4096) in H. lia. Qed.
Lemma gp_addr p : gp p -> 0 <= addr p < 2 ^ 44.
Proof. destruct p as [b o]. unfold gp, addr, DBS; simpl. change (2 ^ 44) with (2 ^ 32 * 4096). lia. Qed.

Lemma adjust_ok b o : 0 <= b -> 0 <= o -> b * DBS + o < 2 ^ 60 ->
  adjust (b, o) = Ok (pnorm (b * DBS + o)).
Proof.
  intros Hb Ho Hs. unfold adjust, pnorm. change BLK with 4096. unfold DBS in *.
  destruct (Z.ltb_spec o 4096).
  - f_equal. f_equal.
    + rewrite Z.div_add_l by lia. rewrite Z.div_small by lia. lia.
    + rewrite Z.add_comm, Z.mod_add by lia. symmetry. apply Z.mod_small. lia.
  - assert (E : (b + o / 4096) mod AdfCodec.W64 = b + o / 4096).
    { apply Z.mod_small. unfold AdfCodec.W64. lia. }
    rewrite E. destruct (Z.ltb_spec (b + o / 4096) b); [lia|].
    f_equal. f_equal.
    + rewrite Z.div_add_l by lia. lia.
    + rewrite Z.add_comm, Z.mod_add by lia. lia.
Qed.

Lemma adjust_gt_ok b o : 0 <= b -> 0 <= o -> b * DBS + o < 2 ^ 60 ->
  exists q, adjust_gt (b, o) = Ok q /\ addr q = b * DBS + o.
Proof.
  intros Hb Ho Hs. unfold adjust_gt. simpl snd. destruct (Z.gtb_spec o DBS).
  - rewrite adjust_ok by auto. eexists; split; [reflexivity|apply addr_pnorm].
  - eexists; split; [reflexivity|]. reflexivity.
Qed.

(* ------------------------------------------------------------------ the pointer codec (new-version files) *)
(* (proved here and not taken from AdfCodecProofs.v so that this layer depends on AdfCodec.v only) *)
Definition fa_good (fa : fattr) : Prop := fa_old fa = false /\ (fa_fmt fa = 76 \/ fa_fmt fa = 66 \/ fa_fmt fa = 67).

Lemma le_enc_len n : forall v, length (le_enc n v) = n.
Proof. induction n; intros; simpl; auto. Qed.
Lemma le_rt n : forall v, 0 <= v < 256 ^ Z.of_nat n -> le_dec (le_enc n v) = v.
Proof.
  induction n as [|n IH]; intros v Hv.
  - simpl in *. lia.
  - cbn [le_enc le_dec]. rewrite IH.
    + lia.
    + rewrite Nat2Z.inj_succ, Z.pow_succ_r in Hv by lia. lia.
Qed.
Lemma conv_enc_len fmt n v : length (conv_int_enc fmt n v) = n.
Proof. unfold conv_int_enc. destruct (_ || _); [rewrite rev_length|]; apply le_enc_len. Qed.
Lemma conv_rt fmt n v : fmt = 76 \/ fmt = 66 \/ fmt = 67 -> 0 <= v < 256 ^ Z.of_nat n ->
  conv_int fmt (conv_int_enc fmt n v) = Ok v.
Proof.
  intros F Hv. unfold conv_int, conv_int_enc, conv_mode.
  destruct F as [ -> | [ -> | -> ] ]; simpl; rewrite ?rev_involutive, le_rt; auto.
Qed.

Lemma dp_enc_len fa p : fa_good fa -> length (dp_enc fa p) = 12%nat.
Proof. intros [O _]. unfold dp_enc. rewrite O, app_length, !conv_enc_len. reflexivity. Qed.

Lemma firstn_app_len {A} (a b : list A) n : length a = n -> firstn n (a ++ b) = a.
Proof. intros <-. rewrite firstn_app, Nat.sub_diag, firstn_O, app_nil_r. apply firstn_all. Qed.
Lemma skipn_app_len {A} (a b : list A) n : length a = n -> skipn n (a ++ b) = b.
Proof. intros <-. rewrite skipn_app, Nat.sub_diag, skipn_all. reflexivity. Qed.

Lemma dp_rt fa p : fa_good fa -> 0 <= fst p < 2 ^ 64 -> 0 <= snd p < 2 ^ 32 -> dp_dec fa (dp_enc fa p) = Ok p.
Proof.
  intros [O F] Hb Ho. unfold dp_dec, dp_enc. rewrite O. unfold sub.
  change (skipn 0 ?l) with l.
  rewrite firstn_app_len by apply conv_enc_len.
  rewrite conv_rt by (auto; change (256 ^ Z.of_nat 8) with (2 ^ 64); lia). cbn [bind].
  rewrite skipn_app_len by apply conv_enc_len.
  rewrite firstn_all2 by (rewrite conv_enc_len; lia).
  rewrite conv_rt by (auto; change (256 ^ Z.of_nat 4) with (2 ^ 32); lia). cbn [bind]. now destruct p.
Qed.

Lemma gp_dp_rt fa p : fa_good fa -> gp p -> dp_dec fa (dp_enc fa p) = Ok p.
Proof.
  intros G [Hb Ho]. apply dp_rt; auto.
  - split; [lia|]. eapply Z.lt_trans; [apply Hb|]. reflexivity.
  - unfold DBS in Ho. split; [lia|]. eapply Z.lt_trans; [apply Ho|]. reflexivity.
Qed.

(* ------------------------------------------------------------------ holds: more *)
Lemma holds_dput_other d a bs a' l : 0 <= a' -> holds d a bs -> a + lenZ bs <= a' \/ a' + lenZ l <= a -> holds (dput d a' l) a bs.
Proof. intros Ha H Hd. eapply holds_same_out; [exact H|apply same_out_dput; auto|]. lia. Qed.

Lemma holds_app d a x y : holds d a (x ++ y) <-> holds d a x /\ holds d (a + lenZ x) y.
Proof.
  unfold lenZ. split.
  - intros H. split.
    + intros i Hi. rewrite H by (rewrite app_length; lia). now rewrite app_nth1.
    + intros i Hi. specialize (H (length x + i)%nat). rewrite app_length in H.
      rewrite app_nth2 in H by lia. replace (length x + i - length x)%nat with i in H by lia. rewrite <- H by lia. f_equal. lia.
  - intros [H1 H2] i Hi. rewrite app_length in Hi. destruct (Nat.lt_ge_cases i (length x)).
    + rewrite app_nth1 by auto. auto.
    + rewrite app_nth2 by auto. specialize (H2 (i - length x)%nat). rewrite <- H2 by lia. f_equal. lia.
Qed.

Lemma nth_firstn_lt {A} (l : list A) n i d0 : (i < n)%nat -> nth i (firstn n l) d0 = nth i l d0.
Proof.
  revert l i. induction n as [|n IH]; intros l i H; [lia|].
  destruct l as [|x r]; [destruct i; reflexivity|]. destruct i as [|i]; simpl; auto. apply IH. lia.
Qed.
Lemma holds_firstn d a bs n : holds d a bs -> holds d a (firstn n bs).
Proof.
  intros H i Hi. rewrite firstn_length in Hi. rewrite H by lia. f_equal. symmetry. apply nth_firstn_lt. lia.
Qed.

Lemma holds_unique d a x y : length x = length y -> holds d a x -> holds d a y -> x = y.
Proof.
  intros L Hx Hy. apply nth_ext with (d := 0) (d' := 0); auto.
  intros i Hi. specialize (Hx i Hi). rewrite Hy in Hx by lia. congruence.
Qed.

Lemma holds_nil d a : holds d a [].
Proof. intros i Hi. simpl in Hi. lia. Qed.

Lemma repeat_nth {A} (x d : A) n i : (i < n)%nat -> nth i (repeat x n) d = x.
Proof. revert i. induction n as [|n IH]; intros [|i] H; simpl; auto; try lia. apply IH. lia. Qed.

Lemma lenZ_zeros n : 0 <= n -> lenZ (zeros n) = n.
Proof. intros H. unfold lenZ, zeros. rewrite repeat_length. lia. Qed.
Lemma lenZ_firstn_le {A} (l : list A) n : lenZ (firstn n l) <= Z.of_nat n.
Proof. unfold lenZ. rewrite firstn_length. lia. Qed.

Lemma tag_len4 : length tag_DaTa = 4%nat /\ length tag_dEnD = 4%nat /\ length tag_DCtb = 4%nat /\ length tag_dcTE = 4%nat.
Proof. repeat split. Qed.

Lemma tag4_refl_DaTa : tag4 tag_DaTa tag_DaTa = true. Proof. reflexivity. Qed.
Lemma tag4_refl_dEnD : tag4 tag_dEnD tag_dEnD = true. Proof. reflexivity. Qed.
Lemma tag4_refl_DCtb : tag4 tag_DCtb tag_DCtb = true. Proof. reflexivity. Qed.
Lemma tag4_refl_dcTE : tag4 tag_dcTE tag_dcTE = true. Proof. reflexivity. Qed.
Lemma tag4_DaTa_DCtb : tag4 tag_DaTa tag_DCtb = false. Proof. reflexivity. Qed.
Lemma tag4_DCtb_DaTa : tag4 tag_DCtb tag_DaTa = false. Proof. reflexivity. Qed.

Section Proofs.
Variable cf : cfg.
Variable fa : fattr.
Hypothesis Hfa : fa_good fa.
Hypothesis Hsigned : c_signed cf = true.
Hypothesis Hwall : c_fix_wall cf = true.
Hypothesis Hwblock : c_fix_wblock cf = true.
Hypothesis Hzero : c_fix_zero cf = true.
Hypothesis Hrblock : c_fix_rblock cf = true.

(* ------------------------------------------------------------------ reading tags and pointers *)
Lemma rd_unfold d p n : rd d p n = drd d (addr p) (Z.to_nat n).
Proof. reflexivity. Qed.

Lemma read_tag_holds d p t : length t = 4%nat -> holds d (addr p) t -> read_tag d p = Ok t.
Proof.
  intros L H. unfold read_tag, rd. change (Z.to_nat TAG_SIZE) with 4%nat. rewrite <- L.
  now rewrite holds_known.
Qed.

Lemma read_ptr_holds d p q : gp q -> holds d (addr p) (dp_enc fa q) -> read_ptr fa d p = Ok q.
Proof.
  intros G H. unfold read_ptr, rd. change (Z.to_nat DPS) with 12%nat. rewrite <- (dp_enc_len fa q Hfa).
  rewrite holds_known by auto. now apply gp_dp_rt.
Qed.

Lemma read_chunk_length_holds d p t e : length t = 4%nat -> gp e ->
  holds d (addr p) t -> holds d (addr p + 4) (dp_enc fa e) -> read_chunk_length fa d p = Ok (t, e).
Proof.
  intros L G Ht He. unfold read_chunk_length, rd.
  replace (Z.to_nat HDR) with (length (t ++ dp_enc fa e)) by (rewrite app_length, L, dp_enc_len by auto; reflexivity).
  rewrite holds_known.
  - replace (skipn 4 (t ++ dp_enc fa e)) with (dp_enc fa e) by (rewrite <- L, skipn_app_len; auto).
    rewrite gp_dp_rt by auto. cbn [bind]. rewrite <- L, firstn_app_len; auto.
  - apply holds_app. split; auto. unfold lenZ. rewrite L. exact He.
Qed.

(* ------------------------------------------------------------------ chunks *)
Definition cstart (c : ptr * ptr) : Z := addr (fst c).
Definition cend (c : ptr * ptr) : Z := addr (snd c).

Lemma csize_addr c : csize c = cend c - cstart c - HDR.
Proof. destruct c as [[sb so] [eb eo]]. unfold csize, cend, cstart, addr, HDR, DBS; simpl. ring. Qed.

(* a well-formed data chunk: both pointers normalised, positive size, both tags and its own end pointer in place *)
Definition chunk_at (d : disk) (c : ptr * ptr) : Prop :=
  gp (fst c) /\ gp (snd c) /\ 0 < csize c < 2 ^ 40 /\
  holds d (cstart c) tag_DaTa /\ holds d (cstart c + 4) (dp_enc fa (snd c)) /\ holds d (cend c) tag_dEnD.

Lemma chunk_at_same_out d d' c lo hi :
  chunk_at d c -> same_out d d' lo hi -> cend c + 4 <= lo \/ hi <= cstart c -> chunk_at d' c.
Proof.
  intros (G1 & G2 & S & T1 & P & T2) SO Hd. rewrite csize_addr in S. unfold HDR in S.
  split; [exact G1|]. split; [exact G2|]. split; [rewrite csize_addr; unfold HDR; lia|]. split; [|split].
  - eapply holds_same_out; eauto. unfold lenZ; simpl. lia.
  - eapply holds_same_out; eauto. unfold lenZ. rewrite dp_enc_len by auto. simpl. lia.
  - eapply holds_same_out; eauto. unfold lenZ; simpl. lia.
Qed.

(* the four writes of ADFI_write_data_chunk at linear addresses *)
Lemma four_puts d a t1 enc so cb data t2 n :
  0 <= a -> length t1 = 4%nat -> length enc = 12%nat -> length t2 = 4%nat ->
  0 <= so -> lenZ data <= n -> so + n <= cb ->
  let d' := dput (dput (dput (dput d a t1) (a + 4) enc) (a + 16 + so) data) (a + 16 + cb) t2 in
  holds d' a t1 /\ holds d' (a + 4) enc /\ holds d' (a + 16 + so) data /\ holds d' (a + 16 + cb) t2 /\
  (forall x, ~ (a <= x < a + 16) -> ~ (a + 16 + so <= x < a + 16 + so + n) -> ~ (a + 16 + cb <= x < a + 16 + cb + 4) ->
             dget d' x = dget d x).
Proof.
  intros Ha L1 L2 L3 Hso Hn Hcb d'. pose proof (lenZ_nonneg data) as Hd0.
  assert (E1 : lenZ t1 = 4) by (unfold lenZ; rewrite L1; reflexivity).
  assert (E2 : lenZ enc = 12) by (unfold lenZ; rewrite L2; reflexivity).
  assert (E3 : lenZ t2 = 4) by (unfold lenZ; rewrite L3; reflexivity).
  subst d'. repeat split.
  - repeat (apply holds_dput_other; [lia| |lia]). apply holds_dput_same; lia.
  - repeat (apply holds_dput_other; [lia| |lia]). apply holds_dput_same; lia.
  - apply holds_dput_other; [lia| |lia]. apply holds_dput_same; lia.
  - apply holds_dput_same; lia.
  - intros x H1 H2 H3. rewrite !dget_dput by lia. rewrite E1, E2, E3.
    repeat match goal with |- context [Z.leb ?u ?v] => destruct (Z.leb_spec u v) end;
    repeat match goal with |- context [Z.ltb ?u ?v] => destruct (Z.ltb_spec u v) end; simpl; auto; lia.
Qed.

Lemma addr_unfold p : addr p = fst p * DBS + snd p.
Proof. reflexivity. Qed.

Lemma gp_nonneg p : gp p -> 0 <= fst p /\ 0 <= snd p /\ 0 <= addr p < 2 ^ 44.
Proof. intros G. pose proof (gp_addr p G). destruct G as [[? ?] [? ?]]. auto. Qed.

Lemma pow_facts : 2 ^ 44 + 2 ^ 41 < 2 ^ 60 /\ 2 ^ 44 + 2 ^ 41 < 2 ^ 64 /\ 0 < 2 ^ 40 /\ 2 ^ 40 * 2 = 2 ^ 41 /\ 2 ^ 44 = 2 ^ 32 * 4096.
Proof. repeat split; reflexivity. Qed.

Lemma wdc_some d p cb so n (bs : list Z) :
  gp p -> 0 < cb < 2 ^ 40 -> 0 <= so -> 0 <= n -> so + n <= cb ->
  exists d', write_data_chunk cf fa d p cb so n (Some bs) = (Ok tt, d') /\
    holds d' (addr p) tag_DaTa /\ holds d' (addr p + 4) (dp_enc fa (pnorm (addr p + HDR + cb))) /\
    holds d' (addr p + HDR + cb) tag_dEnD /\
    holds d' (addr p + HDR + so) (firstn (Z.to_nat n) bs) /\
    (forall x, ~ (addr p <= x < addr p + HDR) -> ~ (addr p + HDR + so <= x < addr p + HDR + so + n) ->
               ~ (addr p + HDR + cb <= x < addr p + HDR + cb + 4) -> dget d' x = dget d x).
Proof.
  intros G Hcb Hso Hn Hle. destruct (gp_nonneg p G) as (Hb & Ho & Ha). pose proof pow_facts as (P1 & P2 & P3 & P4 & P5).
  pose proof (addr_unfold p) as Ea.
  unfold write_data_chunk. destruct (Z.gtb_spec (n + so) cb); [lia|].
  unfold TAG_SIZE, DPS. rewrite adjust_ok by lia. cbn [bindO].
  rewrite adjust_ok by lia. cbn [bindO].
  replace (fst p * DBS + (snd p + 4)) with (addr p + 4) by (rewrite addr_unfold; ring).
  replace (fst p * DBS + (snd p + 4 + 12 + cb)) with (addr p + HDR + cb) by (rewrite addr_unfold; unfold HDR; ring).
  assert (Hcl : 0 <= fst (pnorm (addr p + 4)) /\ 0 <= snd (pnorm (addr p + 4))).
  { unfold pnorm, DBS; simpl. lia. }
  pose proof (addr_pnorm (addr p + 4)) as Ecl. rewrite addr_unfold in Ecl.
  rewrite adjust_ok by lia.
  cbn [bindO].
  replace (fst (pnorm (addr p + 4)) * DBS + (snd (pnorm (addr p + 4)) + so + 12)) with (addr p + HDR + so)
    by (unfold HDR; lia).
  eexists. split; [reflexivity|]. unfold wr. rewrite !addr_pnorm.
  assert (Hlen : lenZ (firstn (Z.to_nat n) bs) <= n) by (pose proof (lenZ_firstn_le bs (Z.to_nat n)); lia).
  destruct (four_puts d (addr p) tag_DaTa (dp_enc fa (pnorm (addr p + HDR + cb))) so cb (firstn (Z.to_nat n) bs) tag_dEnD n
              (proj1 Ha) eq_refl (dp_enc_len fa _ Hfa) eq_refl Hso Hlen Hle) as (F1 & F2 & F3 & F4 & F5).
  unfold HDR in *.
  split; [exact F1|split; [exact F2|split; [exact F4|split; [exact F3|exact F5]]]].
Qed.

(* ------------------------------------------------------------------ extensional equality of stores *)
Definition deq (d d' : disk) : Prop := forall x, dget d x = dget d' x.
Lemma deq_refl d : deq d d. Proof. intros x; reflexivity. Qed.
Lemma deq_sym d d' : deq d d' -> deq d' d. Proof. intros H x; symmetry; apply H. Qed.
Lemma deq_dput d d' a l : 0 <= a -> deq d d' -> deq (dput d a l) (dput d' a l).
Proof. intros Ha H x. rewrite !dget_dput by auto. now rewrite H. Qed.
Lemma holds_deq d d' a bs : deq d d' -> holds d a bs -> holds d' a bs.
Proof. intros E H i Hi. rewrite <- E. auto. Qed.

(* ------------------------------------------------------------------ the zero fill (as repaired by 5177c7b) *)
Lemma zeros_nth n i : nth i (zeros n) 0 = 0.
Proof.
  unfold zeros. destruct (Nat.lt_ge_cases i (Z.to_nat n)).
  - now apply repeat_nth.
  - apply nth_overflow. rewrite repeat_length. lia.
Qed.

Lemma zloop_fix_dget n : forall d b t x, 0 <= b -> 0 <= t -> t <= Z.of_nat n * DBS ->
  dget (zloop_fix n d (b, 0) t) x = if (b * DBS <=? x) && (x <? b * DBS + t) then Some 0 else dget d x.
Proof.
  induction n as [|n IH]; intros d b t x Hb Ht Hn.
  - simpl in *. assert (t = 0) by lia. subst.
    destruct (Z.leb_spec (b * DBS) x), (Z.ltb_spec x (b * DBS + 0)); simpl; auto; lia.
  - cbn [zloop_fix]. destruct (Z.gtb_spec t 0).
    + cbn [fst snd]. rewrite IH; try lia.
      2:{ unfold DBS in *. lia. }
      unfold wr. rewrite dget_dput by (unfold addr, DBS; simpl; lia).
      rewrite lenZ_zeros by (unfold DBS; lia). unfold addr; cbn [fst snd]. rewrite zeros_nth.
      unfold DBS in *.
      repeat match goal with |- context [Z.leb ?u ?v] => destruct (Z.leb_spec u v) end;
      repeat match goal with |- context [Z.ltb ?u ?v] => destruct (Z.ltb_spec u v) end; simpl; auto; lia.
    + assert (t = 0) by lia. subst.
      destruct (Z.leb_spec (b * DBS) x), (Z.ltb_spec x (b * DBS + 0)); simpl; auto; lia.
Qed.

Lemma zero_fill_deq d cl total : 0 <= fst cl -> 0 <= snd cl < DBS -> 0 < total ->
  deq (zero_fill cf d cl total) (dput d (addr cl) (zeros total)).
Proof.
  intros Hb Ho Ht x. unfold zero_fill. rewrite Hzero.
  assert (Ha : 0 <= addr cl) by (unfold addr, DBS in *; lia).
  rewrite (dget_dput (zeros total)) by auto. rewrite lenZ_zeros by lia. rewrite zeros_nth.
  destruct (Z.gtb_spec total DBS).
  - rewrite zloop_fix_dget.
    + unfold wr. rewrite dget_dput by auto. rewrite lenZ_zeros by lia. rewrite zeros_nth.
      unfold addr, DBS in *.
      repeat match goal with |- context [Z.leb ?u ?v] => destruct (Z.leb_spec u v) end;
      repeat match goal with |- context [Z.ltb ?u ?v] => destruct (Z.ltb_spec u v) end; simpl; auto; lia.
    + lia.
    + lia.
    + rewrite Z2Nat.id by (unfold DBS; lia). unfold DBS in *. lia.
  - unfold wr. rewrite dget_dput by auto. rewrite lenZ_zeros by lia. now rewrite zeros_nth.
Qed.

Lemma firstn_zeros n : firstn (Z.to_nat n) (zeros n) = zeros n.
Proof. unfold zeros. apply firstn_all2. rewrite repeat_length. lia. Qed.

(* ADFI_write_data_chunk(.., NULL, ..) has the effect of writing [total_bytes] zeros *)
Lemma wdc_none d p cb so n :
  gp p -> 0 < cb < 2 ^ 40 -> 0 <= so -> 0 < n -> so + n <= cb ->
  exists d', write_data_chunk cf fa d p cb so n None = (Ok tt, d') /\
    holds d' (addr p) tag_DaTa /\ holds d' (addr p + 4) (dp_enc fa (pnorm (addr p + HDR + cb))) /\
    holds d' (addr p + HDR + cb) tag_dEnD /\
    holds d' (addr p + HDR + so) (zeros n) /\
    (forall x, ~ (addr p <= x < addr p + HDR) -> ~ (addr p + HDR + so <= x < addr p + HDR + so + n) ->
               ~ (addr p + HDR + cb <= x < addr p + HDR + cb + 4) -> dget d' x = dget d x).
Proof.
  intros G Hcb Hso Hn Hle. destruct (gp_nonneg p G) as (Hb & Ho & Ha). pose proof pow_facts as (P1 & P2 & P3 & P4 & P5).
  pose proof (addr_unfold p) as Ea.
  unfold write_data_chunk. destruct (Z.gtb_spec (n + so) cb); [lia|].
  unfold TAG_SIZE, DPS. rewrite adjust_ok by lia. cbn [bindO].
  rewrite adjust_ok by lia. cbn [bindO].
  replace (fst p * DBS + (snd p + 4)) with (addr p + 4) by (rewrite addr_unfold; ring).
  replace (fst p * DBS + (snd p + 4 + 12 + cb)) with (addr p + HDR + cb) by (rewrite addr_unfold; unfold HDR; ring).
  assert (Hcl : 0 <= fst (pnorm (addr p + 4)) /\ 0 <= snd (pnorm (addr p + 4))).
  { unfold pnorm, DBS; simpl. lia. }
  pose proof (addr_pnorm (addr p + 4)) as Ecl. rewrite addr_unfold in Ecl.
  rewrite adjust_ok by lia.
  cbn [bindO].
  replace (fst (pnorm (addr p + 4)) * DBS + (snd (pnorm (addr p + 4)) + so + 12)) with (addr p + HDR + so)
    by (unfold HDR; lia).
  unfold zero_src_ok. rewrite Hzero. cbn [orb].
  eexists. split; [reflexivity|]. unfold wr. rewrite !addr_pnorm.
  assert (Hlen : lenZ (zeros n) <= n) by (rewrite lenZ_zeros; lia).
  destruct (four_puts d (addr p) tag_DaTa (dp_enc fa (pnorm (addr p + HDR + cb))) so cb (zeros n) tag_dEnD n
              (proj1 Ha) eq_refl (dp_enc_len fa _ Hfa) eq_refl Hso Hlen Hle) as (F1 & F2 & F3 & F4 & F5).
  set (d2 := dput (dput d (addr p) tag_DaTa) (addr p + 4) (dp_enc fa (pnorm (addr p + HDR + cb)))) in *.
  assert (E : deq (dput (zero_fill cf d2 (pnorm (addr p + HDR + so)) n) (addr p + HDR + cb) tag_dEnD)
                  (dput (dput d2 (addr p + 16 + so) (zeros n)) (addr p + 16 + cb) tag_dEnD)).
  { apply deq_dput; [unfold HDR; lia|].
    replace (addr p + 16 + so) with (addr (pnorm (addr p + HDR + so))) by (rewrite addr_pnorm; unfold HDR; ring).
    apply zero_fill_deq; unfold pnorm, DBS, HDR; simpl; lia. }
  apply deq_sym in E. unfold HDR in *.
  split; [eapply holds_deq; eauto|split; [eapply holds_deq; eauto|split; [eapply holds_deq; eauto|split; [eapply holds_deq; eauto|]]]].
  intros x H1 H2 H3. rewrite <- E. apply F5; auto.
Qed.

(* ------------------------------------------------------------------ ADFI_read_data_chunk *)
Lemma rdc_ok d c cb so n : chunk_at d c -> cb <= csize c -> 0 <= so -> 0 < n -> so + n <= cb ->
  read_data_chunk fa d (fst c) cb so n = Ok (drd d (cstart c + HDR + so) (Z.to_nat n)).
Proof.
  intros (G1 & G2 & S & T1 & P & T2) Hcb Hso Hn Hle.
  destruct (gp_nonneg _ G1) as (Hb & Ho & Ha). destruct (gp_nonneg _ G2) as (Hb2 & Ho2 & Ha2).
  pose proof pow_facts as (P1 & P2 & P3 & P4 & P5).
  pose proof (csize_addr c) as Ec. unfold cstart, cend, HDR in *.
  unfold read_data_chunk. destruct (Z.gtb_spec (n + so) cb); [lia|].
  rewrite (read_chunk_length_holds d (fst c) tag_DaTa (snd c)); auto. cbn [bind].
  rewrite tag4_refl_DaTa. cbn [negb].
  rewrite (read_tag_holds d (snd c) tag_dEnD); auto. cbn [bind]. rewrite tag4_refl_dEnD. cbn [negb].
  pose proof (addr_unfold (fst c)) as Ea. pose proof (addr_unfold (snd c)) as Ee.
  unfold DPS, TAG_SIZE. rewrite adjust_ok by lia. cbn [bind].
  set (ds := pnorm (fst (fst c) * DBS + (snd (fst c) + so + 12 + 4))).
  assert (Eds : addr ds = addr (fst c) + 16 + so) by (unfold ds; rewrite addr_pnorm; lia).
  pose proof (addr_unfold ds) as Ed.
  replace (snd (snd c) - snd ds + so + (fst (snd c) - fst ds) * DBS) with (csize c) by lia.
  destruct (Z.gtb_spec cb (csize c)); [lia|].
  destruct (Z.leb_spec n 0); [lia|].
  unfold rd. rewrite Eds. reflexivity.
Qed.

(* ------------------------------------------------------------------ data-chunk tables *)
Definition tbytes (es : list (ptr * ptr)) : bytes := flat_map (fun c => dp_enc fa (fst c) ++ dp_enc fa (snd c)) es.
Lemma tbytes_len es : lenZ (tbytes es) = 24 * lenZ es.
Proof.
  induction es as [|c r IH]; [reflexivity|]. unfold tbytes in *. cbn [flat_map]. rewrite !lenZ_app, IH, lenZ_cons.
  unfold lenZ at 1 2. rewrite !dp_enc_len by auto. lia.
Qed.

Definition ptrs_gp (es : list (ptr * ptr)) : Prop := Forall (fun c => gp (fst c) /\ gp (snd c)) es.

Lemma pnorm_nonneg a : 0 <= a -> 0 <= fst (pnorm a) /\ 0 <= snd (pnorm a) < DBS.
Proof. intros H. unfold pnorm, DBS. cbn [fst snd]. lia. Qed.

Lemma lenZ_dp_enc p : lenZ (dp_enc fa p) = 12.
Proof. unfold lenZ. rewrite dp_enc_len by auto. reflexivity. Qed.

Lemma dput_app x : forall d a y, dput d a (x ++ y) = dput (dput d a x) (a + lenZ x) y.
Proof.
  induction x as [|b r IH]; intros d a y; simpl.
  - rewrite lenZ_nil. f_equal. lia.
  - rewrite IH, lenZ_cons. f_equal. lia.
Qed.

Lemma write_entries_deq es : forall d q, ptrs_gp es -> 0 <= fst q -> 0 <= snd q -> addr q + 24 * lenZ es < 2 ^ 59 ->
  exists d', write_entries fa es d q = (Ok tt, d') /\ deq d' (dput d (addr q) (tbytes es)).
Proof.
  induction es as [|[s e] r IH]; intros d q G Hb Ho Hs.
  - eexists. split; [reflexivity|]. apply deq_refl.
  - inversion G as [|? ? [G1 G2] Gr]; subst. cbn [write_entries].
    pose proof (addr_unfold q) as Eq. rewrite lenZ_cons in Hs. pose proof (lenZ_nonneg r).
    assert (P : 2 ^ 59 < 2 ^ 60) by reflexivity. unfold DPS.
    destruct q as [qb qo]. cbn [fst snd] in *. assert (0 <= qb * DBS) by (unfold DBS; lia).
    rewrite adjust_ok by lia. cbn [bindO].
    set (dp1 := pnorm (qb * DBS + qo)).
    assert (E1 : addr dp1 = qb * DBS + qo) by apply addr_pnorm. pose proof (addr_unfold dp1) as U1.
    assert (N1 : 0 <= fst dp1 /\ 0 <= snd dp1 < DBS) by (apply pnorm_nonneg; lia).
    rewrite adjust_ok by lia.
    set (dp3 := pnorm (fst dp1 * DBS + (snd dp1 + 12))).
    assert (E3 : addr dp3 = qb * DBS + qo + 12) by (unfold dp3; rewrite addr_pnorm; lia).
    pose proof (addr_unfold dp3) as U3.
    assert (N3 : 0 <= fst dp3 /\ 0 <= snd dp3 < DBS) by (apply pnorm_nonneg; lia).
    destruct (IH (wr (wr d dp1 (dp_enc fa s)) dp3 (dp_enc fa e)) (fst dp3, snd dp3 + 12)) as (d' & R & Dq); auto;
      cbn [fst snd]; try lia.
    { rewrite addr_unfold. cbn [fst snd]. lia. }
    exists d'. split; [exact R|].
    intros x. rewrite Dq. unfold wr, tbytes. cbn [flat_map]. fold (tbytes r).
    rewrite <- app_assoc, !dput_app. rewrite !lenZ_dp_enc.
    rewrite E1, E3. rewrite (addr_unfold (fst dp3, snd dp3 + 12)), (addr_unfold (qb, qo)). cbn [fst snd].
    replace (fst dp3 * DBS + (snd dp3 + 12)) with (qb * DBS + qo + 12 + 12) by lia. reflexivity.
Qed.

Definition table_at (d : disk) (t : ptr) (es : list (ptr * ptr)) : Prop :=
  gp t /\ ptrs_gp es /\ addr t + 20 + 24 * lenZ es < 2 ^ 44 /\
  holds d (addr t) tag_DCtb /\ holds d (addr t + 4) (dp_enc fa (pnorm (addr t + HDR + 24 * lenZ es))) /\
  holds d (addr t + HDR) (tbytes es) /\ holds d (addr t + HDR + 24 * lenZ es) tag_dcTE.

Lemma write_table_ok d t es : gp t -> ptrs_gp es -> addr t + 20 + 24 * lenZ es < 2 ^ 44 ->
  exists d', write_table fa d t es = (Ok tt, d') /\ table_at d' t es /\
             same_out d d' (addr t) (addr t + 20 + 24 * lenZ es).
Proof.
  intros G Ge Hs. destruct (gp_nonneg t G) as (Hb & Ho & Ha). pose proof pow_facts as (P1 & P2 & P3 & P4 & P5).
  pose proof (addr_unfold t) as Ea. pose proof (lenZ_nonneg es) as Hn.
  unfold write_table, TAG_SIZE, DPS. rewrite adjust_ok by lia. cbn [bindO].
  set (dp := pnorm (fst t * DBS + (snd t + 4))).
  assert (Edp : addr dp = addr t + 4) by (unfold dp; rewrite addr_pnorm; lia).
  pose proof (addr_unfold dp) as Udp.
  assert (Ndp : 0 <= fst dp /\ 0 <= snd dp < DBS) by (apply pnorm_nonneg; lia).
  rewrite adjust_ok by lia. cbn [bindO].
  replace (fst dp * DBS + (snd dp + 12 + lenZ es * 2 * 12)) with (addr t + HDR + 24 * lenZ es) by (unfold HDR; lia).
  destruct (write_entries_deq es (wr (wr d t tag_DCtb) dp (dp_enc fa (pnorm (addr t + HDR + 24 * lenZ es)))) (fst dp, snd dp + 12))
    as (d3 & R & D3); auto; cbn [fst snd]; try lia.
  { rewrite addr_unfold. cbn [fst snd]. assert (2 ^ 44 < 2 ^ 59) by reflexivity. lia. }
  rewrite R. cbn [bindR]. eexists. split; [reflexivity|].
  unfold wr in *. rewrite addr_pnorm. rewrite Edp in *.
  rewrite (addr_unfold (fst dp, snd dp + 12)) in D3. cbn [fst snd] in D3.
  replace (fst dp * DBS + (snd dp + 12)) with (addr t + 16 + 0) in D3 by lia.
  assert (Hlen : lenZ (tbytes es) <= 24 * lenZ es) by (rewrite tbytes_len; lia).
  destruct (four_puts d (addr t) tag_DCtb (dp_enc fa (pnorm (addr t + HDR + 24 * lenZ es))) 0 (24 * lenZ es) (tbytes es) tag_dcTE
              (24 * lenZ es) (proj1 Ha) eq_refl (dp_enc_len fa _ Hfa) eq_refl (Z.le_refl 0) Hlen ltac:(lia)) as (F1 & F2 & F3 & F4 & F5).
  assert (E : deq (dput d3 (addr t + HDR + 24 * lenZ es) tag_dcTE)
                  (dput (dput (dput (dput d (addr t) tag_DCtb) (addr t + 4) (dp_enc fa (pnorm (addr t + HDR + 24 * lenZ es))))
                              (addr t + 16 + 0) (tbytes es)) (addr t + 16 + 24 * lenZ es) tag_dcTE)).
  { unfold HDR. apply deq_dput; [lia|exact D3]. }
  apply deq_sym in E. unfold HDR in *. split.
  - unfold table_at. split; [exact G|]. split; [exact Ge|]. split; [exact Hs|]. unfold HDR.
    split; [exact (holds_deq _ _ _ _ E F1)|split; [exact (holds_deq _ _ _ _ E F2)|split; [|exact (holds_deq _ _ _ _ E F4)]]].
    pose proof (holds_deq _ _ _ _ E F3) as X. rewrite Z.add_0_r in X. exact X.
  - intros x Hx. rewrite <- E. apply F5; lia.
Qed.

Lemma read_entries_ok es : forall d tmp, ptrs_gp es -> 0 <= fst tmp -> 0 <= snd tmp -> addr tmp + 12 + 24 * lenZ es < 2 ^ 59 ->
  holds d (addr tmp + 12) (tbytes es) -> read_entries fa (length es) d tmp = Ok es.
Proof.
  induction es as [|[s e] r IH]; intros d tmp G Hb Ho Hs H; [reflexivity|].
  inversion G as [|? ? [G1 G2] Gr]; subst. cbn [length read_entries].
  pose proof (addr_unfold tmp) as Eq. rewrite lenZ_cons in Hs. pose proof (lenZ_nonneg r).
  assert (P : 2 ^ 59 < 2 ^ 60) by reflexivity. unfold DPS.
  assert (0 <= fst tmp * DBS) by (unfold DBS; lia).
  unfold tbytes in H. cbn [flat_map] in H. fold (tbytes r) in H.
  rewrite <- app_assoc in H. apply holds_app in H. destruct H as [K1 H]. apply holds_app in H. destruct H as [K2 K3].
  rewrite !lenZ_dp_enc in *.
  rewrite adjust_ok by lia. cbn [bind].
  set (t1 := pnorm (fst tmp * DBS + (snd tmp + 12))).
  assert (E1 : addr t1 = addr tmp + 12) by (unfold t1; rewrite addr_pnorm; lia). pose proof (addr_unfold t1) as U1.
  assert (N1 : 0 <= fst t1 /\ 0 <= snd t1 < DBS) by (apply pnorm_nonneg; lia).
  rewrite (read_ptr_holds d t1 s) by (auto; rewrite E1; auto). cbn [bind].
  rewrite adjust_ok by lia. cbn [bind].
  set (t2 := pnorm (fst t1 * DBS + (snd t1 + 12))).
  assert (E2 : addr t2 = addr tmp + 24) by (unfold t2; rewrite addr_pnorm; lia). pose proof (addr_unfold t2) as U2.
  assert (N2 : 0 <= fst t2 /\ 0 <= snd t2 < DBS) by (apply pnorm_nonneg; lia).
  rewrite (read_ptr_holds d t2 e) by (auto; rewrite E2; replace (addr tmp + 24) with (addr tmp + 12 + 12) by ring; auto).
  cbn [bind]. rewrite IH; auto; try lia.
  rewrite E2. replace (addr tmp + 24 + 12) with (addr tmp + 12 + 12 + 12) by ring. exact K3.
Qed.

Lemma read_table_ok d t es room : table_at d t es -> lenZ es <= room -> read_table fa d t room = Ok es.
Proof.
  intros (G & Ge & Hs & T1 & P & B & T2) Hr. destruct (gp_nonneg t G) as (Hb & Ho & Ha).
  pose proof (addr_unfold t) as Ea. pose proof (lenZ_nonneg es) as Hn. unfold HDR in *.
  assert (Ge' : gp (pnorm (addr t + 16 + 24 * lenZ es))) by (apply gp_pnorm; lia).
  unfold read_table. rewrite (read_chunk_length_holds d t tag_DCtb (pnorm (addr t + 16 + 24 * lenZ es))); auto.
  cbn [bind]. rewrite tag4_refl_DCtb. cbn [negb].
  set (e := pnorm (addr t + 16 + 24 * lenZ es)).
  assert (Ee : addr e = addr t + 16 + 24 * lenZ es) by apply addr_pnorm. pose proof (addr_unfold e) as Ue.
  replace ((fst e - fst t) * DBS + (snd e - snd t) - HDR) with (24 * lenZ es) by (unfold HDR; lia).
  destruct (Z.ltb_spec (24 * lenZ es) 0); [lia|]. unfold DPS.
  replace (24 * lenZ es / (2 * 12)) with (lenZ es) by (rewrite Z.mul_comm, Z.div_mul; lia).
  destruct (Z.ltb_spec room (lenZ es)); [lia|].
  unfold lenZ at 1. rewrite Nat2Z.id. unfold TAG_SIZE.
  rewrite (read_entries_ok es d (fst t, snd t + 4)); auto; cbn [fst snd]; try lia.
  - cbn [bind]. rewrite (read_tag_holds d e tag_dcTE) by (auto; rewrite Ee; auto). cbn [bind].
    rewrite tag4_refl_dcTE. reflexivity.
  - rewrite addr_unfold. cbn [fst snd]. assert (2 ^ 44 < 2 ^ 59) by reflexivity. lia.
  - rewrite addr_unfold. cbn [fst snd]. replace (fst t * DBS + (snd t + 4) + 12) with (addr t + 16) by lia. exact B.
Qed.

(* ------------------------------------------------------------------ logical bytes: the abstraction *)
Fixpoint phys (cs : list (ptr * ptr)) (x : Z) : option Z :=
  match cs with
  | [] => None
  | c :: r => if x <? csize c then Some (cstart c + HDR + x) else phys r (x - csize c)
  end.
(* the x-th byte of the node's data as the chunk list cs places it *)
Definition absb (d : disk) (cs : list (ptr * ptr)) (x : Z) : option Z :=
  if x <? 0 then None else match phys cs x with Some a => dget d a | None => None end.
Definition lread (d : disk) (cs : list (ptr * ptr)) (x n : Z) : list (option Z) := map (absb d cs) (zrange x n).

Lemma zr_length n : forall a, length (zr a n) = n.
Proof. induction n; intros; simpl; auto. Qed.
Lemma zr_app n m : forall a, zr a (n + m) = zr a n ++ zr (a + Z.of_nat n) m.
Proof.
  induction n as [|n IH]; intros a; simpl.
  - f_equal. lia.
  - f_equal. rewrite IH. do 2 f_equal. lia.
Qed.
Lemma zrange_app a n m : 0 <= n -> 0 <= m -> zrange a (n + m) = zrange a n ++ zrange (a + n) m.
Proof. intros Hn Hm. unfold zrange. rewrite Z2Nat.inj_add, zr_app by auto. do 2 f_equal. lia. Qed.
Lemma lread_app d cs x n m : 0 <= n -> 0 <= m -> lread d cs x (n + m) = lread d cs x n ++ lread d cs (x + n) m.
Proof. intros. unfold lread. rewrite zrange_app, map_app by auto. reflexivity. Qed.
Lemma lread_length d cs x n : length (lread d cs x n) = Z.to_nat n.
Proof. unfold lread, zrange. now rewrite map_length, zr_length. Qed.

Lemma map_zr_ext (f g : Z -> option Z) n : forall a, (forall x, a <= x < a + Z.of_nat n -> f x = g x) -> map f (zr a n) = map g (zr a n).
Proof.
  induction n as [|n IH]; intros a H; simpl; auto. f_equal.
  - apply H. lia.
  - apply IH. intros x Hx. apply H. lia.
Qed.
Lemma map_zr_drd d n : forall a b, (forall i, 0 <= i < Z.of_nat n -> 0 <= a + i) ->
  map (fun x => dget d (x + b)) (zr a n) = drd d (a + b) n.
Proof.
  induction n as [|n IH]; intros a b H; simpl; auto. f_equal.
  replace (a + b + 1) with (a + 1 + b) by ring. apply IH. intros i Hi. specialize (H (i + 1)). lia.
Qed.

Lemma csize_cap_nonneg cs : Forall (fun c => 0 < csize c) cs -> 0 <= cap_of cs.
Proof. induction 1; simpl; lia. Qed.

(* a range inside the first chunk is read from that chunk *)
Lemma lread_first d c r x n : 0 <= x -> 0 <= n -> x + n <= csize c ->
  lread d (c :: r) x n = drd d (cstart c + HDR + x) (Z.to_nat n).
Proof.
  intros Hx Hn Hle. unfold lread, zrange.
  replace (cstart c + HDR + x) with (x + (cstart c + HDR)) by ring.
  rewrite <- (map_zr_drd d (Z.to_nat n) x (cstart c + HDR)) by lia.
  apply map_zr_ext. intros y Hy. unfold absb. destruct (Z.ltb_spec y 0); [lia|]. cbn [phys].
  destruct (Z.ltb_spec y (csize c)); [|lia]. f_equal. ring.
Qed.

(* a range beyond the first chunk is a range of the remaining chunks *)
Lemma lread_skip d c r x n : 0 <= csize c -> csize c <= x ->
  lread d (c :: r) x n = lread d r (x - csize c) n.
Proof.
  intros Hc Hx. unfold lread, zrange. generalize (Z.to_nat n) as k. intros k. revert x Hx.
  induction k as [|k IH]; intros x Hx; simpl; auto. f_equal.
  - unfold absb. destruct (Z.ltb_spec x 0), (Z.ltb_spec (x - csize c) 0); try lia. cbn [phys].
    destruct (Z.ltb_spec x (csize c)); [lia|]. reflexivity.
  - replace (x - csize c + 1) with (x + 1 - csize c) by ring. apply IH. lia.
Qed.

Lemma absb_same_out d d' cs x lo hi :
  same_out d d' lo hi -> (forall a, phys cs x = Some a -> a < lo \/ hi <= a) -> absb d' cs x = absb d cs x.
Proof.
  intros S H. unfold absb. destruct (x <? 0); auto. destruct (phys cs x) as [a|] eqn:E; auto.
Qed.

(* ------------------------------------------------------------------ the chunk-table invariant *)
Definition ext (c : ptr * ptr) : Z * Z := (cstart c, cend c + 4).
Definition disj (a b : Z * Z) : Prop := snd a <= fst b \/ snd b <= fst a.
Fixpoint pdisj (l : list (Z * Z)) : Prop :=
  match l with [] => True | x :: r => Forall (disj x) r /\ pdisj r end.
Definition text (t : ptr) (n : Z) : Z * Z := (addr t, addr t + 20 + 24 * n).

(* cs = the node's data chunks in table order *)
Definition Inv (h : hdr) (d : disk) (cs : list (ptr * ptr)) : Prop :=
  h_n h = lenZ cs /\ Forall (chunk_at d) cs /\ pdisj (map ext cs) /\
  Forall (fun c => csize c mod esz (h_ty h) = 0) cs /\ (cs <> [] -> 0 < esz (h_ty h)) /\
  match cs with
  | [] => True
  | [c] => h_dc h = fst c
  | _ => table_at d (h_dc h) cs /\ Forall (disj (text (h_dc h) (lenZ cs))) (map ext cs)
  end.

Lemma chunk_at_gp d c : chunk_at d c -> gp (fst c) /\ gp (snd c) /\ 0 < csize c.
Proof. intros (G1 & G2 & S & _). split; [auto|split; [auto|lia]]. Qed.

Lemma Forall_chunk_ptrs d cs : Forall (chunk_at d) cs -> ptrs_gp cs.
Proof. intros H. eapply Forall_impl; [|exact H]. intros c (G1 & G2 & _). auto. Qed.

Lemma chunks_of_inv h d cs : Inv h d cs -> chunks_of fa h d = Ok cs.
Proof.
  intros (N & C & _ & _ & _ & M). unfold chunks_of. destruct cs as [|c [|c2 r]].
  - rewrite N. reflexivity.
  - rewrite N. change (lenZ [c]) with 1. cbn [Z.eqb Pos.eqb]. inversion C as [|? ? Hc _]; subst.
    destruct Hc as (G1 & G2 & S & T1 & P & T2). destruct (gp_nonneg _ G1) as (Hb & Ho & Ha).
    rewrite M. pose proof (addr_unfold (fst c)) as Ea. pose proof pow_facts as (P1 & _).
    unfold TAG_SIZE. rewrite adjust_ok by lia. cbn [bind].
    rewrite (read_ptr_holds d _ (snd c)); auto.
    + cbn [bind]. now destruct c.
    + rewrite addr_pnorm. replace (fst (fst c) * DBS + (snd (fst c) + 4)) with (cstart c + 4) by (unfold cstart; lia). exact P.
  - destruct M as [T _]. rewrite N. pose proof (lenZ_nonneg r).
    assert (L : lenZ (c :: c2 :: r) = lenZ r + 2) by (rewrite !lenZ_cons; ring). rewrite L.
    destruct (Z.eqb_spec (lenZ r + 2) 0); [lia|]. destruct (Z.eqb_spec (lenZ r + 2) 1); [lia|].
    rewrite <- L. rewrite (read_table_ok d (h_dc h) (c :: c2 :: r)); auto; [|lia]. cbn [bind].
    unfold lenZ. rewrite Nat2Z.id, firstn_all. reflexivity.
Qed.

(* ------------------------------------------------------------------ ADF_Read_All_Data *)
Lemma lread_zero d cs x : lread d cs x 0 = [].
Proof. reflexivity. Qed.

Lemma rall_loop_ok d total : forall cs br, Forall (chunk_at d) cs -> 0 <= br <= total ->
  rall_loop fa cs d total br =
    Ok (lread d cs 0 (Z.min (cap_of cs) (total - br)), br + Z.min (cap_of cs) (total - br)).
Proof.
  induction cs as [|c r IH]; intros br C Hbr.
  - cbn [rall_loop cap_of fold_right]. rewrite Z.min_l by lia. rewrite lread_zero. do 2 f_equal. lia.
  - inversion C as [|? ? Hc Cr]; subst. pose proof (chunk_at_gp _ _ Hc) as (_ & _ & S).
    assert (Hr : 0 <= cap_of r).
    { apply csize_cap_nonneg. eapply Forall_impl; [|exact Cr]. intros a Ha. apply (chunk_at_gp _ _ Ha). }
    cbn [rall_loop]. change (cap_of (c :: r)) with (csize c + cap_of r).
    set (btr := if br + csize c >? total then total - br else csize c).
    assert (Eb : btr = Z.min (csize c) (total - br)).
    { unfold btr. destruct (Z.gtb_spec (br + csize c) total); lia. }
    clearbody btr.
    destruct (Z.eqb_spec btr 0) as [E0|E0].
    + assert (total - br = 0) by lia. rewrite Z.min_r by lia. replace (total - br) with 0 by lia.
      rewrite lread_zero. do 2 f_equal. lia.
    + rewrite (rdc_ok d c btr 0 btr) by (auto; lia). cbn [bind].
      rewrite IH by (auto; lia). cbn [bind].
      rewrite <- (lread_first d c r 0 btr) by lia.
      f_equal. f_equal.
      * destruct (Z.lt_ge_cases (total - br) (csize c)).
        -- assert (btr = total - br) by lia. replace (total - (br + btr)) with 0 by lia.
           rewrite (Z.min_r (cap_of r)) by lia. rewrite lread_zero, app_nil_r. f_equal. lia.
        -- assert (Hb : btr = csize c) by lia. rewrite Hb.
           set (K := Z.min (cap_of r) (total - (br + csize c))).
           replace (lread d r 0 K) with (lread d (c :: r) (0 + csize c) K)
             by (rewrite lread_skip by lia; f_equal; lia).
           rewrite <- lread_app by (unfold K; lia). f_equal. unfold K. lia.
      * lia.
Qed.

Lemma lenZ_0_nil {A} (l : list A) : lenZ l = 0 -> l = [].
Proof. destruct l; [auto|]. rewrite lenZ_cons. pose proof (lenZ_nonneg l). lia. Qed.

(* the node's data fit the storage it owns *)
Definition ready (h : hdr) (cs : list (ptr * ptr)) : Prop :=
  cs <> [] /\ 0 < total_bytes h <= cap_of cs /\ lenZ (h_dims h) <> 0.

Lemma firstn_lenZ {A} (l : list A) : firstn (Z.to_nat (lenZ l)) l = l.
Proof. unfold lenZ. rewrite Nat2Z.id. apply firstn_all. Qed.

Lemma read_all_ok h d cs : Inv h d cs -> ready h cs ->
  read_all fa h d = Ok (lread d cs 0 (total_bytes h)).
Proof.
  intros I (Ne & T & R). pose proof (chunks_of_inv _ _ _ I) as CO. destruct I as (N & C & _ & _ & Z0 & M).
  specialize (Z0 Ne). unfold read_all.
  destruct (Z.eqb_spec (esz (h_ty h)) 0); [lia|]. destruct (Z.eqb_spec (lenZ (h_dims h)) 0); [lia|]. cbn [orb].
  destruct cs as [|c [|c2 r]]; [congruence| |].
  - rewrite N. change (lenZ [c]) with 1. cbn [Z.eqb Pos.eqb]. rewrite M.
    inversion C as [|? ? Hc _]; subst. cbn [cap_of fold_right] in T.
    rewrite (rdc_ok d c (total_bytes h) 0 (total_bytes h)) by (auto; lia).
    rewrite Z.add_0_r. rewrite lread_first by lia. now rewrite Z.add_0_r.
  - destruct M as [Tb _]. rewrite N. pose proof (lenZ_nonneg r).
    assert (L : lenZ (c :: c2 :: r) = lenZ r + 2) by (rewrite !lenZ_cons; ring). rewrite L.
    destruct (Z.eqb_spec (lenZ r + 2) 0); [lia|]. destruct (Z.eqb_spec (lenZ r + 2) 1); [lia|].
    rewrite <- L. rewrite (read_table_ok d (h_dc h) (c :: c2 :: r)) by (auto; lia). cbn [bind].
    rewrite firstn_lenZ. rewrite rall_loop_ok by (auto; lia). cbn [bind].
    rewrite Z.sub_0_r, Z.min_r by lia. destruct (Z.ltb_spec (0 + total_bytes h) (total_bytes h)); [lia|]. reflexivity.
Qed.

(* ------------------------------------------------------------------ ADF_Read_Block_Data *)
(* [base] = logical offset of the first chunk of [suf]; br = the part of the block that lies before [base] *)
Lemma rblock_loop_ok d total sb eb : 0 <= sb -> sb < eb -> eb <= total ->
  forall suf base br, Forall (chunk_at d) suf -> 0 <= base <= total -> total <= base + cap_of suf ->
  br = Z.min (eb - sb) (Z.max 0 (base - sb)) ->
  rblock_loop fa suf d total sb eb (eb - sb) base br =
    Ok (lread d suf (sb + br - base) (eb - sb - br), eb - sb).
Proof.
  intros Hsb Hlt Heb. induction suf as [|c r IH]; intros base br C Hbase Hcap Hbr.
  - cbn [cap_of fold_right] in Hcap. cbn [rblock_loop]. assert (E : br = eb - sb) by lia. rewrite E.
    replace (eb - sb - (eb - sb)) with 0 by ring. reflexivity.
  - inversion C as [|? ? Hc Cr]. subst x l. pose proof (chunk_at_gp _ _ Hc) as (_ & _ & S).
    assert (Hr : 0 <= cap_of r).
    { apply csize_cap_nonneg. eapply Forall_impl; [|exact Cr]. intros a Ha. apply (chunk_at_gp _ _ Ha). }
    change (cap_of (c :: r)) with (csize c + cap_of r) in Hcap.
    cbn [rblock_loop].
    set (cs := if base + csize c >? total then total - base else csize c).
    assert (Ecs : cs = Z.min (csize c) (total - base)).
    { unfold cs. destruct (Z.gtb_spec (base + csize c) total); lia. }
    clearbody cs.
    destruct (Z.eqb_spec cs 0) as [E0|E0].
    { assert (br = eb - sb) by lia. replace (eb - sb - br) with 0 by lia. rewrite lread_zero. f_equal. f_equal. lia. }
    destruct (Z.geb_spec sb (base + cs)) as [Hskip|Hin].
    + assert (cs = csize c) by lia.
      rewrite (IH (base + cs) br); auto; try lia.
      f_equal. f_equal. rewrite (lread_skip d c r) by lia. f_equal. lia.
    + set (so := if sb >? base + cs - cs then sb - (base + cs - cs) else 0).
      assert (Eso : so = Z.max 0 (sb - base)).
      { unfold so. destruct (Z.gtb_spec sb (base + cs - cs)); lia. }
      clearbody so.
      set (btr := if br + (cs - so) >? eb - sb then eb - sb - br else cs - so).
      assert (Ebtr : btr = Z.min (cs - so) (eb - sb - br)).
      { unfold btr. destruct (Z.gtb_spec (br + (cs - so)) (eb - sb)); lia. }
      clearbody btr.
      destruct (Z.eqb_spec btr 0) as [B0|B0].
      { cbn [orb]. assert (br = eb - sb) by lia. replace (eb - sb - br) with 0 by lia. rewrite lread_zero. f_equal. f_equal. lia. }
      destruct (Z.gtb_spec (base + cs - cs) eb) as [Hgt|Hle].
      { cbn [orb]. exfalso. lia. }
      cbn [orb].
      rewrite (rdc_ok d c cs so btr) by (auto; lia). cbn [bind].
      rewrite (IH (base + cs) (br + btr)); auto; try lia.
      cbn [bind]. f_equal. f_equal.
      rewrite <- (lread_first d c r so btr) by lia.
      replace (sb + br - base) with so by lia.
      destruct (Z.eq_dec (eb - sb - (br + btr)) 0) as [Z0|Z0].
      * rewrite Z0, lread_zero, app_nil_r. f_equal. lia.
      * assert (btr = cs - so) by lia. assert (cs = csize c) by lia.
        replace (sb + (br + btr) - (base + cs)) with 0 by lia.
        replace (lread d r 0 (eb - sb - (br + btr))) with (lread d (c :: r) (so + btr) (eb - sb - (br + btr)))
          by (rewrite lread_skip by lia; f_equal; lia).
        rewrite <- lread_app by lia. f_equal. lia.
Qed.

Lemma read_block_ok h d cs b e : Inv h d cs -> ready h cs ->
  0 <= esz (h_ty h) * (b - 1) -> esz (h_ty h) * (b - 1) < esz (h_ty h) * e -> esz (h_ty h) * e <= total_bytes h ->
  read_block cf fa h d b e = Ok (lread d cs (esz (h_ty h) * (b - 1)) (esz (h_ty h) * e - esz (h_ty h) * (b - 1))).
Proof.
  intros I (Ne & T & R) H0 H1 H2. pose proof (chunks_of_inv _ _ _ I) as CO. destruct I as (N & C & _ & _ & Z0 & M).
  specialize (Z0 Ne). unfold read_block.
  destruct (Z.eqb_spec (esz (h_ty h)) 0); [lia|]. destruct (Z.eqb_spec (lenZ (h_dims h)) 0); [lia|]. cbn [orb].
  destruct (Z.eqb_spec (total_bytes h) 0); [lia|].
  set (sb := esz (h_ty h) * (b - 1)) in *. set (eb := esz (h_ty h) * e) in *.
  destruct (Z.ltb_spec sb 0); [lia|]. destruct (Z.gtb_spec sb eb); [lia|]. destruct (Z.gtb_spec eb (total_bytes h)); [lia|].
  cbn [orb].
  destruct cs as [|c [|c2 r]]; [congruence| |].
  - rewrite N. change (lenZ [c]) with 1. cbn [Z.eqb Pos.eqb]. rewrite M.
    inversion C as [|? ? Hc _]; subst. cbn [cap_of fold_right] in T.
    rewrite (rdc_ok d c (total_bytes h) sb (eb - sb)) by (auto; lia).
    rewrite lread_first by lia. reflexivity.
  - destruct M as [Tb _]. rewrite N. pose proof (lenZ_nonneg r).
    assert (L : lenZ (c :: c2 :: r) = lenZ r + 2) by (rewrite !lenZ_cons; ring). rewrite L.
    destruct (Z.eqb_spec (lenZ r + 2) 0); [lia|]. destruct (Z.eqb_spec (lenZ r + 2) 1); [lia|].
    rewrite <- L. rewrite (read_table_ok d (h_dc h) (c :: c2 :: r)) by (auto; lia). cbn [bind].
    rewrite firstn_lenZ. rewrite (rblock_loop_ok d (total_bytes h) sb eb) with (br := 0) by (auto; lia). cbn [bind].
    destruct (Z.ltb_spec (eb - sb) (eb - sb)); [lia|]. do 2 f_equal; lia.
Qed.

(* ------------------------------------------------------------------ the per-element chunk lookup *)
Definition sizes_pos (cs : list (ptr * ptr)) : Prop := Forall (fun c => 0 < csize c) cs.

Lemma cap_of_app a b : cap_of (a ++ b) = cap_of a + cap_of b.
Proof. induction a as [|x r IH]; simpl; [lia|]. fold (cap_of (r ++ b)). fold (cap_of r). lia. Qed.
Lemma cap_of_cons c r : cap_of (c :: r) = csize c + cap_of r.
Proof. reflexivity. Qed.
Lemma sizes_pos_cap cs : sizes_pos cs -> 0 <= cap_of cs.
Proof. apply csize_cap_nonneg. Qed.

(* the lookup state designates the chunk [l_cur] of cs, preceded by chunks of [l_past] bytes in all *)
Definition lk_ok (cs : list (ptr * ptr)) (lk : look) : Prop :=
  exists pre, cs = pre ++ l_cur lk :: l_rest lk /\ l_past lk = cap_of pre /\ l_size lk = csize (l_cur lk).

Lemma lookup_ok cs : sizes_pos cs -> forall rest cur pre rel,
  cs = pre ++ cur :: rest -> cap_of pre <= rel < cap_of cs ->
  exists lk, lookup rest cur (cap_of pre) (csize cur) rel = Ok lk /\ lk_ok cs lk /\
             l_past lk <= rel < l_past lk + l_size lk.
Proof.
  intros P. induction rest as [|c r IH]; intros cur pre rel E H.
  - cbn [lookup]. rewrite E, cap_of_app, cap_of_cons in H. cbn [cap_of fold_right] in H.
    destruct (Z.geb_spec rel (cap_of pre + csize cur)); [lia|].
    eexists. split; [reflexivity|]. split; [exists pre; auto|]. cbn [l_past l_size]. lia.
  - cbn [lookup]. destruct (Z.geb_spec rel (cap_of pre + csize cur)) as [G|G].
    + specialize (IH c (pre ++ [cur]) rel). rewrite cap_of_app in IH. cbn [cap_of fold_right] in IH.
      rewrite Z.add_0_r in IH. apply IH; [rewrite <- app_assoc; exact E|lia].
    + eexists. split; [reflexivity|]. split; [exists pre; auto|]. cbn [l_past l_size]. lia.
Qed.

Lemma phys_app pre : forall c rest x, sizes_pos pre -> cap_of pre <= x < cap_of pre + csize c ->
  phys (pre ++ c :: rest) x = Some (cstart c + HDR + (x - cap_of pre)).
Proof.
  induction pre as [|p r IH]; intros c rest x P H.
  - cbn [app phys cap_of fold_right] in *. destruct (Z.ltb_spec x (csize c)); [|lia]. do 2 f_equal. lia.
  - inversion P as [|? ? Hp Pr]; subst. pose proof (sizes_pos_cap _ Pr). rewrite cap_of_cons in H.
    cbn [app phys]. destruct (Z.ltb_spec x (csize p)); [lia|].
    rewrite IH by (auto; lia). rewrite cap_of_cons. do 2 f_equal. lia.
Qed.

Lemma lread_phys d pre : forall c rest x n, sizes_pos pre -> 0 <= n -> cap_of pre <= x -> x + n <= cap_of pre + csize c ->
  lread d (pre ++ c :: rest) x n = drd d (cstart c + HDR + (x - cap_of pre)) (Z.to_nat n).
Proof.
  induction pre as [|p r IH]; intros c rest x n P Hn Hx Hle.
  - cbn [app cap_of fold_right] in *. rewrite lread_first by lia. do 2 f_equal. lia.
  - inversion P as [|? ? Hp Pr]; subst. pose proof (sizes_pos_cap _ Pr). rewrite cap_of_cons in *.
    cbn [app]. rewrite lread_skip by lia. rewrite IH by (auto; lia). do 2 f_equal. lia.
Qed.

(* an element never straddles two chunks: all sizes are multiples of the element size *)
Lemma divide_cap fb cs : Forall (fun c => csize c mod fb = 0) cs -> 0 < fb -> (fb | cap_of cs).
Proof.
  intros H Hfb. induction H as [|c r Hc _ IH]; [exists 0; reflexivity|]. rewrite cap_of_cons.
  apply Z.divide_add_r; auto. apply Z.mod_divide; [lia|auto].
Qed.

Lemma elem_fits fb past size p : 0 < fb -> (fb | past) -> (fb | size) -> past <= p * fb < past + size ->
  p * fb + fb <= past + size.
Proof.
  intros Hfb [a Ha] [b Hb] H. subst. assert (p < a + b) by nia. nia.
Qed.

Lemma adjust_gt_ok' b o : 0 <= b -> 0 <= o -> b * DBS + o < 2 ^ 60 ->
  exists q, adjust_gt (b, o) = Ok q /\ addr q = b * DBS + o /\ 0 <= fst q /\ 0 <= snd q.
Proof.
  intros Hb Ho Hs. unfold adjust_gt. simpl snd. destruct (Z.gtb_spec o DBS).
  - rewrite adjust_ok by auto. eexists; split; [reflexivity|]. split; [apply addr_pnorm|].
    assert (0 <= b * DBS) by (unfold DBS; lia). pose proof (pnorm_nonneg (b * DBS + o)). lia.
  - eexists; split; [reflexivity|]. cbn [fst snd]. split; [reflexivity|lia].
Qed.

Lemma in_app_mid {A} (pre : list A) c rest : In c (pre ++ c :: rest).
Proof. apply in_or_app. right. left. reflexivity. Qed.

Lemma rmulti_ok d cs fb : Forall (chunk_at d) cs -> 0 < fb -> Forall (fun c => csize c mod fb = 0) cs ->
  forall ps lk, lk_ok cs lk -> StronglySorted Z.lt ps ->
  Forall (fun p => l_past lk <= p * fb /\ p * fb + fb <= cap_of cs) ps ->
  rmulti ps lk fb d = Ok (flat_map (fun p => lread d cs (p * fb) fb) ps).
Proof.
  intros C Hfb Dv. assert (P : sizes_pos cs).
  { eapply Forall_impl; [|exact C]. intros a Ha. apply (chunk_at_gp _ _ Ha). }
  induction ps as [|p r IH]; intros lk L S F; [reflexivity|].
  inversion S as [|? ? Sr Hlt]; subst. inversion F as [|? ? [Hp1 Hp2] Fr]; subst.
  destruct L as (pre & E & Epast & Esize). cbn [rmulti]. rewrite Epast, Esize.
  destruct (lookup_ok cs P (l_rest lk) (l_cur lk) pre (p * fb) E) as (lk1 & R & L1 & B1); [lia|].
  rewrite R. cbn [bind]. destruct L1 as (pre1 & E1 & Epast1 & Esize1).
  assert (Ppre1 : sizes_pos pre1).
  { unfold sizes_pos in *. rewrite E1 in P. apply Forall_app in P. tauto. }
  assert (Hc1 : chunk_at d (l_cur lk1)).
  { rewrite Forall_forall in C. apply C. rewrite E1. apply in_app_mid. }
  destruct Hc1 as (G1 & G2 & S1 & _). destruct (gp_nonneg _ G1) as (Hb & Ho & Ha). destruct (gp_nonneg _ G2) as (_ & _ & Ha2).
  pose proof (csize_addr (l_cur lk1)) as Ecs. unfold cstart, cend, HDR in Ecs.
  pose proof (addr_unfold (fst (l_cur lk1))) as Ea. assert (P60 : 2 ^ 44 + 2 ^ 44 < 2 ^ 60) by reflexivity.
  unfold elem_ptr, TAG_SIZE, DPS.
  destruct (adjust_gt_ok' (fst (fst (l_cur lk1))) (snd (fst (l_cur lk1)) + (4 + 12) + (p * fb - l_past lk1))) as (rb & Rb & Arb & _);
    try lia.
  rewrite Rb. cbn [bind].
  rewrite (IH lk1); auto.
  - cbn [bind flat_map]. f_equal. f_equal. unfold rd. rewrite Arb.
    rewrite E1 at 1. rewrite lread_phys; auto; try lia.
    + f_equal. unfold cstart, HDR. lia.
    + rewrite <- Epast1, <- Esize1.
      apply elem_fits; auto.
      * rewrite Epast1. apply divide_cap; auto. rewrite E1 in Dv. apply Forall_app in Dv. tauto.
      * rewrite Esize1. apply Z.mod_divide; [lia|]. rewrite Forall_forall in Dv. apply Dv. rewrite E1. apply in_app_mid.
  - exists pre1. auto.
  - rewrite Forall_forall in *. intros q Hq. specialize (Fr q Hq). specialize (Hlt q Hq). split; [nia|lia].
Qed.

Lemma rsingle_ok d c fb : chunk_at d c -> 0 < fb ->
  forall ps prev bo, StronglySorted Z.lt ps -> Forall (fun p => prev <= p /\ p * fb + fb <= csize c) ps -> 0 <= prev ->
  0 <= fst bo -> 0 <= snd bo -> addr bo = cstart c + HDR + prev * fb ->
  rsingle ps prev bo fb d = Ok (flat_map (fun p => lread d [c] (p * fb) fb) ps).
Proof.
  intros (G1 & G2 & S1 & _) Hfb. destruct (gp_nonneg _ G1) as (Hb & Ho & Ha). destruct (gp_nonneg _ G2) as (_ & _ & Ha2).
  pose proof (csize_addr c) as Ecs. unfold cstart, cend, HDR in *. assert (P60 : 2 ^ 44 + 2 ^ 44 < 2 ^ 60) by reflexivity.
  induction ps as [|p r IH]; intros prev bo S F Hprev Hbb Hbo Abo; [reflexivity|].
  inversion S as [|? ? Sr Hlt]; subst. inversion F as [|? ? [Hp1 Hp2] Fr]; subst.
  cbn [rsingle]. pose proof (addr_unfold bo) as Ebo.
  destruct (adjust_gt_ok' (fst bo) (snd bo + (p - prev) * fb)) as (bo1 & R1 & A1 & N1 & N2); try nia.
  rewrite R1. cbn [bind]. rewrite (IH p bo1); auto; try nia.
  - cbn [bind flat_map]. f_equal. f_equal. unfold rd. rewrite lread_first by nia. f_equal. unfold cstart, HDR. nia.
  - rewrite Forall_forall in *. intros q Hq. specialize (Fr q Hq). specialize (Hlt q Hq). lia.
Qed.

(* ------------------------------------------------------------------ the selected positions (Hyperslab.v, property C05) *)
Lemma dims_of_mk_sel dims : forall sel, length sel = length dims -> dims_of (mk_sel dims sel) = dims.
Proof.
  unfold dims_of, mk_sel. induction dims as [|a r IH]; intros [|s t] L; simpl in *; try discriminate; auto.
  f_equal. apply IH. lia.
Qed.

Lemma lenZ_eq_length {A B} (a : list A) (b : list B) : lenZ a = lenZ b -> length a = length b.
Proof. unfold lenZ. lia. Qed.

Lemma prodZ_dims_pos dims : forallb (fun v => 1 <=? v) dims = true -> 1 <= prodZ dims.
Proof.
  intros H. apply prodZ_pos. rewrite forallb_forall in H. apply Forall_forall. intros x Hx. specialize (H x Hx).
  destruct (Z.leb_spec 1 x); [lia|discriminate].
Qed.

Lemma sel_positions_facts h sel ps : dims_ok (h_dims h) = true -> sel_positions h sel = Ok ps ->
  StronglySorted Z.lt ps /\ Forall (fun p => 0 <= p < prodZ (h_dims h)) ps.
Proof.
  intros D H. unfold sel_positions in H.
  destruct (Z.eqb_spec (lenZ sel) (lenZ (h_dims h))) as [L|L]; [|discriminate]. cbn [negb] in H.
  set (ds := mk_sel (h_dims h) sel) in *.
  destruct (adf_walk w64 ds) as [e|ps'] eqn:W; [discriminate|]. inversion H; subst ps'.
  assert (Ed : dims_of ds = h_dims h) by (apply dims_of_mk_sel, lenZ_eq_length; auto).
  unfold dims_ok in D. apply andb_true_iff in D. destruct D as [D D3]. apply andb_true_iff in D. destruct D as [D1 D2].
  assert (V : valid ds /\ (1 <= length ds <= 12)%nat).
  { unfold adf_walk, count_total in W.
    destruct ((Z.of_nat (length ds) <=? 0) || (12 <? Z.of_nat (length ds))) eqn:Rk; [discriminate|].
    destruct (ctp_check ds) eqn:Ck; [discriminate|]. split; [now apply ctp_check_None|].
    apply orb_false_iff in Rk. destruct Rk as [R1 R2].
    destruct (Z.leb_spec (Z.of_nat (length ds)) 0); [discriminate|]. destruct (Z.ltb_spec 12 (Z.of_nat (length ds))); [discriminate|]. lia. }
  destruct V as [V Rk].
  assert (OK : sel_ok ds).
  { split; [exact Rk|]. split; [exact V|]. rewrite Ed. pose proof (prodZ_dims_pos _ D2).
    destruct (Z.ltb_spec (prodZ (h_dims h) * 16) (2 ^ 40)); [|discriminate].
    assert (2 ^ 40 < 2 ^ 63) by reflexivity. lia. }
  rewrite adf_walk_ok in W by auto. inversion W; subst ps.
  split; [apply spec_positions_sorted; auto|]. rewrite <- Ed. apply spec_positions_range; auto.
Qed.

(* ------------------------------------------------------------------ ADF_Read_Data *)
Lemma total_bytes_unfold h : total_bytes h = esz (h_ty h) * prodZ (h_dims h).
Proof. reflexivity. Qed.

Lemma read_strided_ok h d cs sel ps : Inv h d cs -> ready h cs -> dims_ok (h_dims h) = true ->
  sel_positions h sel = Ok ps ->
  read_strided fa h d sel = Ok (flat_map (fun p => lread d cs (p * esz (h_ty h)) (esz (h_ty h))) ps).
Proof.
  intros I (Ne & T & R) D SP. destruct (sel_positions_facts _ _ _ D SP) as [Srt Rng].
  pose proof (chunks_of_inv _ _ _ I) as CO. destruct I as (N & C & _ & Dv & Z0 & M).
  specialize (Z0 Ne). unfold read_strided. rewrite SP. cbn [bind].
  destruct (Z.eqb_spec (esz (h_ty h)) 0); [lia|]. destruct (Z.eqb_spec (lenZ (h_dims h)) 0); [lia|]. cbn [orb].
  set (fb := esz (h_ty h)) in *. rewrite total_bytes_unfold in T. fold fb in T.
  assert (Rng' : Forall (fun p => 0 <= p /\ p * fb + fb <= cap_of cs) ps).
  { eapply Forall_impl; [|exact Rng]. intros p Hp. cbn beta in Hp. split; [lia|nia]. }
  destruct cs as [|c [|c2 r]]; [congruence| |].
  - rewrite N. change (lenZ [c]) with 1. cbn [Z.eqb Pos.eqb]. rewrite M.
    inversion C as [|? ? Hc _]; subst. cbn [cap_of fold_right] in Rng'. rewrite Z.add_0_r in Rng'.
    destruct ps as [|p0 pr]; [reflexivity|].
    pose proof Hc as (G1 & G2 & S1 & _). destruct (gp_nonneg _ G1) as (Hb & Ho & Ha). destruct (gp_nonneg _ G2) as (_ & _ & Ha2).
    pose proof (csize_addr c) as Ecs. unfold cstart, cend, HDR in Ecs.
    inversion Rng' as [|? ? [Q1 Q2] Rr]; subst. inversion Srt as [|? ? Sr Hlt]; subst.
    pose proof (addr_unfold (fst c)) as Ea. assert (P60 : 2 ^ 44 + 2 ^ 44 < 2 ^ 60) by reflexivity.
    unfold TAG_SIZE, DPS. rewrite adjust_ok by nia. cbn [bind].
    apply (rsingle_ok d c fb Hc Z0 (p0 :: pr) p0); auto.
    + constructor; [lia|]. rewrite Forall_forall in *. intros q Hq. specialize (Rr q Hq). specialize (Hlt q Hq). lia.
    + pose proof (pnorm_nonneg (fst (fst c) * DBS + (snd (fst c) + 4 + 12 + p0 * fb))). nia.
    + pose proof (pnorm_nonneg (fst (fst c) * DBS + (snd (fst c) + 4 + 12 + p0 * fb))). nia.
    + rewrite addr_pnorm. unfold cstart, HDR. lia.
  - destruct M as [Tb _]. rewrite N. pose proof (lenZ_nonneg r).
    assert (L : lenZ (c :: c2 :: r) = lenZ r + 2) by (rewrite !lenZ_cons; ring). rewrite L.
    destruct (Z.eqb_spec (lenZ r + 2) 0); [lia|]. destruct (Z.eqb_spec (lenZ r + 2) 1); [lia|].
    rewrite <- L. rewrite (read_table_ok d (h_dc h) (c :: c2 :: r)) by (auto; lia). cbn [bind].
    rewrite firstn_lenZ.
    apply (rmulti_ok d (c :: c2 :: r) fb); auto.
    + exists []. cbn [l_cur l_rest l_past l_size app cap_of fold_right]. auto.
    + cbn [l_past]. eapply Forall_impl; [|exact Rng']. intros p Hp. cbn beta in *. nia.
Qed.

(* ------------------------------------------------------------------ allocation, release, small readers *)
Lemma alloc_ok_step p r size d : 0 < size <= MAXSZ -> gp p ->
  alloc (p :: r) size d = (Ok (p, r), dclr d (addr p) (Z.to_nat size)) /\
  same_out d (dclr d (addr p) (Z.to_nat size)) (addr p) (addr p + size).
Proof.
  intros Hs G. destruct (gp_nonneg p G) as (_ & _ & Ha). unfold alloc.
  destruct (Z.leb_spec size 0); [lia|]. destruct (Z.ltb_spec MAXSZ size); [lia|]. cbn [orb]. split; [reflexivity|].
  pose proof (same_out_dclr d (addr p) (Z.to_nat size) (proj1 Ha)) as S. rewrite Z2Nat.id in S by lia. exact S.
Qed.

Lemma ptr_in_range_gp p : ptr_in_range p = true -> gp p /\ addr p < 2 ^ 43.
Proof.
  unfold ptr_in_range. intros H. repeat (apply andb_true_iff in H; destruct H as [H ?]).
  destruct (Z.leb_spec 0 (fst p)); [|discriminate]. destruct (Z.ltb_spec (fst p) (2 ^ 31)); [|discriminate].
  destruct (Z.leb_spec 0 (snd p)); [|discriminate]. destruct (Z.ltb_spec (snd p) DBS); [|discriminate].
  assert (E : 2 ^ 31 < 2 ^ 32 /\ 2 ^ 43 = 2 ^ 31 * 4096) by (split; reflexivity). destruct E as [E1 E2].
  split; [split; lia|]. rewrite addr_unfold. unfold DBS in *. lia.
Qed.

Lemma one_chunk_size_ok d c : chunk_at d c -> one_chunk_size fa d (fst c) = Ok (csize c).
Proof.
  intros (G1 & G2 & S & T1 & P & T2). destruct (gp_nonneg _ G1) as (Hb & Ho & Ha). destruct (gp_nonneg _ G2) as (Hb2 & Ho2 & Ha2).
  unfold one_chunk_size. rewrite (read_chunk_length_holds d (fst c) tag_DaTa (snd c)); auto. cbn [bind].
  rewrite tag4_refl_DaTa. cbn [negb]. pose proof (addr_unfold (fst c)) as Ea. pose proof (addr_unfold (snd c)) as Ee.
  pose proof pow_facts as (P1 & _). unfold TAG_SIZE, DPS. rewrite adjust_ok by lia. cbn [bind]. f_equal.
  set (ds := pnorm (fst (fst c) * DBS + (snd (fst c) + 4 + 12))).
  assert (Eds : addr ds = addr (fst c) + 16) by (unfold ds; rewrite addr_pnorm; lia). pose proof (addr_unfold ds).
  rewrite csize_addr. unfold cstart, cend, HDR. lia.
Qed.

Lemma own_end_ok d c : chunk_at d c ->
  (t <- adjust (fst (fst c), snd (fst c) + TAG_SIZE) ;; read_ptr fa d t) = Ok (snd c).
Proof.
  intros (G1 & G2 & S & T1 & P & T2). destruct (gp_nonneg _ G1) as (Hb & Ho & Ha).
  pose proof (addr_unfold (fst c)) as Ea. pose proof pow_facts as (P1 & _).
  unfold TAG_SIZE. rewrite adjust_ok by lia. cbn [bind].
  apply read_ptr_holds; auto. rewrite addr_pnorm.
  replace (fst (fst c) * DBS + (snd (fst c) + 4)) with (cstart c + 4) by (unfold cstart; lia). exact P.
Qed.

Lemma two_entries_ok d c0 c1 : chunk_at d c0 -> chunk_at d c1 -> two_entries fa d (fst c0) (fst c1) = Ok [c0; c1].
Proof.
  intros H0 H1. unfold two_entries.
  pose proof (own_end_ok d c0 H0) as E0. pose proof (own_end_ok d c1 H1) as E1.
  destruct (adjust (fst (fst c0), snd (fst c0) + TAG_SIZE)) as [t0| | | | | | | | |]; try discriminate. cbn [bind] in *. rewrite E0. cbn [bind].
  destruct (adjust (fst (fst c1), snd (fst c1) + TAG_SIZE)) as [t1| | | | | | | | |]; try discriminate. cbn [bind] in *. rewrite E1. cbn [bind].
  now destruct c0, c1.
Qed.

Lemma file_free_table d t es : table_at d t es ->
  exists d', file_free fa d t = (Ok tt, d') /\ same_out d d' (addr t) (addr t + 20 + 24 * lenZ es).
Proof.
  intros (G & Ge & Hs & T1 & P & B & T2). destruct (gp_nonneg t G) as (Hb & Ho & Ha).
  pose proof (addr_unfold t) as Ea. pose proof (lenZ_nonneg es) as Hn. unfold HDR in *.
  assert (Ge' : gp (pnorm (addr t + 16 + 24 * lenZ es))) by (apply gp_pnorm; lia).
  set (e := pnorm (addr t + 16 + 24 * lenZ es)) in *.
  assert (Ee : addr e = addr t + 16 + 24 * lenZ es) by apply addr_pnorm. pose proof (addr_unfold e) as Ue.
  pose proof pow_facts as (P1 & _).
  unfold file_free. rewrite (read_tag_holds d t tag_DCtb) by auto. cbn [bindO].
  rewrite tag4_DCtb_DaTa, tag4_refl_DCtb. unfold TAG_SIZE. rewrite adjust_ok by lia. cbn [bindO].
  rewrite (read_ptr_holds d _ e); auto.
  2:{ rewrite addr_pnorm. replace (fst t * DBS + (snd t + 4)) with (addr t + 4) by lia. exact P. }
  cbn [bindO]. rewrite (read_tag_holds d e tag_dcTE) by (auto; rewrite Ee; auto). cbn [bindO].
  rewrite tag4_refl_dcTE. cbn [negb]. eexists. split; [reflexivity|].
  replace ((fst e - fst t) * DBS + (snd e - snd t + 4)) with (20 + 24 * lenZ es) by lia.
  pose proof (same_out_dclr d (addr t) (Z.to_nat (20 + 24 * lenZ es)) (proj1 Ha)) as S.
  rewrite Z2Nat.id in S by lia. replace (addr t + 20 + 24 * lenZ es) with (addr t + (20 + 24 * lenZ es)) by ring. exact S.
Qed.

Lemma file_free_chunk d c : chunk_at d c ->
  exists d', file_free fa d (fst c) = (Ok tt, d') /\ same_out d d' (cstart c) (cend c + 4).
Proof.
  intros (G1 & G2 & S & T1 & P & T2). destruct (gp_nonneg _ G1) as (Hb & Ho & Ha). destruct (gp_nonneg _ G2) as (Hb2 & Ho2 & Ha2).
  pose proof (addr_unfold (fst c)) as Ea. pose proof (addr_unfold (snd c)) as Ee. pose proof pow_facts as (P1 & _).
  pose proof (csize_addr c) as Ec. unfold cstart, cend, HDR in *.
  unfold file_free. rewrite (read_tag_holds d (fst c) tag_DaTa) by auto. cbn [bindO].
  rewrite tag4_refl_DaTa. unfold TAG_SIZE. rewrite adjust_ok by lia. cbn [bindO].
  rewrite (read_ptr_holds d _ (snd c)); auto.
  2:{ rewrite addr_pnorm. replace (fst (fst c) * DBS + (snd (fst c) + 4)) with (addr (fst c) + 4) by lia. exact P. }
  cbn [bindO]. rewrite (read_tag_holds d (snd c) tag_dEnD) by auto. cbn [bindO].
  rewrite tag4_refl_dEnD. cbn [negb]. eexists. split; [reflexivity|].
  replace ((fst (snd c) - fst (fst c)) * DBS + (snd (snd c) - snd (fst c) + 4)) with (addr (snd c) + 4 - addr (fst c)) by lia.
  pose proof (same_out_dclr d (addr (fst c)) (Z.to_nat (addr (snd c) + 4 - addr (fst c))) (proj1 Ha)) as SO.
  rewrite Z2Nat.id in SO by lia. eapply same_out_weaken; [exact SO|lia|lia].
Qed.

(* ------------------------------------------------------------------ writing into an existing / a new chunk *)
Lemma pnorm_cend c : gp (snd c) -> pnorm (cstart c + HDR + csize c) = snd c.
Proof.
  intros G. rewrite csize_addr. replace (cstart c + HDR + (cend c - cstart c - HDR)) with (cend c) by ring.
  apply pnorm_addr. apply G.
Qed.

Lemma rewrite_chunk d c so n (bs : list Z) : chunk_at d c -> 0 <= so -> 0 <= n -> so + n <= csize c ->
  exists d', write_data_chunk cf fa d (fst c) (csize c) so n (Some bs) = (Ok tt, d') /\ chunk_at d' c /\
    holds d' (cstart c + HDR + so) (firstn (Z.to_nat n) bs) /\
    (forall x, ~ (cstart c <= x < cstart c + HDR) -> ~ (cstart c + HDR + so <= x < cstart c + HDR + so + n) ->
               ~ (cend c <= x < cend c + 4) -> dget d' x = dget d x).
Proof.
  intros (G1 & G2 & S & T1 & P & T2) Hso Hn Hle.
  destruct (wdc_some d (fst c) (csize c) so n bs G1 S Hso Hn Hle) as (d' & R & A1 & A2 & A3 & A4 & A5).
  fold (cstart c) in *. rewrite pnorm_cend in A2 by auto.
  assert (Ee : cstart c + HDR + csize c = cend c) by (rewrite csize_addr; ring). rewrite Ee in *.
  exists d'. split; [exact R|]. split; [|split; [exact A4|exact A5]].
  unfold chunk_at. auto 10.
Qed.

(* the same with the zero fill, used only on new chunks; stated for any pointer *)
Lemma fresh_chunk d p cb so n (data : option (list Z)) : gp p -> addr p < 2 ^ 43 -> 0 < cb < 2 ^ 40 -> 0 <= so -> 0 < n -> so + n <= cb ->
  let c := (p, pnorm (addr p + HDR + cb)) in
  exists d', write_data_chunk cf fa d p cb so n data = (Ok tt, d') /\ chunk_at d' c /\ csize c = cb /\
    holds d' (addr p + HDR + so) (match data with Some bs => firstn (Z.to_nat n) bs | None => zeros n end) /\
    same_out d d' (addr p) (addr p + HDR + cb + 4).
Proof.
  intros G Hp Hcb Hso Hn Hle c. destruct (gp_nonneg p G) as (_ & _ & Ha).
  assert (P43 : 2 ^ 43 + 2 ^ 40 + 20 < 2 ^ 44) by reflexivity.
  assert (Gc : gp (snd c)) by (apply gp_pnorm; unfold HDR; lia).
  assert (Ec : cend c = addr p + HDR + cb) by (unfold cend, c; cbn [snd]; apply addr_pnorm).
  assert (Es : csize c = cb) by (rewrite csize_addr, Ec; unfold cstart, c; cbn [fst]; ring).
  assert (W : exists d', write_data_chunk cf fa d p cb so n data = (Ok tt, d') /\
    holds d' (addr p) tag_DaTa /\ holds d' (addr p + 4) (dp_enc fa (pnorm (addr p + HDR + cb))) /\
    holds d' (addr p + HDR + cb) tag_dEnD /\
    holds d' (addr p + HDR + so) (match data with Some bs => firstn (Z.to_nat n) bs | None => zeros n end) /\
    (forall x, ~ (addr p <= x < addr p + HDR) -> ~ (addr p + HDR + so <= x < addr p + HDR + so + n) ->
               ~ (addr p + HDR + cb <= x < addr p + HDR + cb + 4) -> dget d' x = dget d x)).
  { destruct data as [bs|]; [apply wdc_some|apply wdc_none]; auto; lia. }
  destruct W as (d' & R & A1 & A2 & A3 & A4 & A5). exists d'. split; [exact R|].
  split; [|split; [exact Es|split; [exact A4|]]].
  - unfold chunk_at. rewrite Es, Ec. unfold cstart, c. cbn [fst snd]. auto 10.
  - intros x Hx. apply A5; unfold HDR in *; lia.
Qed.

(* ------------------------------------------------------------------ frames *)
Definition frame (d d' : disk) (R : Z -> Prop) : Prop := forall x, ~ R x -> dget d' x = dget d x.
Definition in_ext (c : ptr * ptr) (x : Z) : Prop := cstart c <= x < cend c + 4.
Definition in_exts (cs : list (ptr * ptr)) (x : Z) : Prop := exists c, In c cs /\ in_ext c x.

Lemma frame_refl d R : frame d d R. Proof. intros x _. reflexivity. Qed.
Lemma frame_trans d1 d2 d3 (R1 R2 R : Z -> Prop) :
  frame d1 d2 R1 -> frame d2 d3 R2 -> (forall x, R1 x -> R x) -> (forall x, R2 x -> R x) -> frame d1 d3 R.
Proof. intros A B H1 H2 x Hx. rewrite B, A; auto. Qed.
Lemma frame_weaken d d' (R R' : Z -> Prop) : frame d d' R -> (forall x, R x -> R' x) -> frame d d' R'.
Proof. intros A H x Hx. apply A. auto. Qed.
Lemma same_out_frame d d' lo hi : same_out d d' lo hi -> frame d d' (fun x => lo <= x < hi).
Proof. intros S x Hx. apply S. lia. Qed.
Lemma frame_same_out d d' (R : Z -> Prop) lo hi : frame d d' R -> (forall x, R x -> lo <= x < hi) -> same_out d d' lo hi.
Proof. intros F H x Hx. apply F. intros Rx. specialize (H x Rx). lia. Qed.

Lemma holds_frame d d' a bs R : holds d a bs -> frame d d' R -> (forall x, a <= x < a + lenZ bs -> ~ R x) -> holds d' a bs.
Proof. intros H F Hn i Hi. rewrite F; [apply H; auto|]. apply Hn. unfold lenZ. lia. Qed.

Lemma chunk_at_frame d d' c R : chunk_at d c -> frame d d' R -> (forall x, in_ext c x -> ~ R x) -> chunk_at d' c.
Proof.
  intros (G1 & G2 & S & T1 & P & T2) F Hn. rewrite csize_addr in S. unfold HDR in S. unfold in_ext in Hn.
  split; [exact G1|]. split; [exact G2|]. split; [rewrite csize_addr; unfold HDR; lia|]. split; [|split].
  - apply (holds_frame d d' _ _ R T1 F). intros x Hx. apply Hn. change (lenZ tag_DaTa) with 4 in Hx. lia.
  - apply (holds_frame d d' _ _ R P F). intros x Hx. apply Hn. rewrite lenZ_dp_enc in Hx. lia.
  - apply (holds_frame d d' _ _ R T2 F). intros x Hx. apply Hn. change (lenZ tag_dEnD) with 4 in Hx. lia.
Qed.

(* only the two tags and the end pointer matter *)
Lemma chunk_at_frame_hdr d d' c R : chunk_at d c -> frame d d' R ->
  (forall x, cstart c <= x < cstart c + HDR \/ cend c <= x < cend c + 4 -> ~ R x) -> chunk_at d' c.
Proof.
  intros (G1 & G2 & S & T1 & P & T2) F Hn. unfold HDR in *.
  split; [exact G1|]. split; [exact G2|]. split; [exact S|]. split; [|split].
  - apply (holds_frame d d' _ _ R T1 F). intros x Hx. apply Hn. change (lenZ tag_DaTa) with 4 in Hx. lia.
  - apply (holds_frame d d' _ _ R P F). intros x Hx. apply Hn. rewrite lenZ_dp_enc in Hx. lia.
  - apply (holds_frame d d' _ _ R T2 F). intros x Hx. apply Hn. change (lenZ tag_dEnD) with 4 in Hx. lia.
Qed.

Lemma table_at_frame d d' t es R : table_at d t es -> frame d d' R ->
  (forall x, addr t <= x < addr t + 20 + 24 * lenZ es -> ~ R x) -> table_at d' t es.
Proof.
  intros (G & Ge & Hs & T1 & P & B & T2) F Hn. pose proof (lenZ_nonneg es). unfold HDR in *.
  split; [exact G|]. split; [exact Ge|]. split; [exact Hs|]. split; [|split; [|split]].
  - apply (holds_frame d d' _ _ R T1 F). intros x Hx. apply Hn. change (lenZ tag_DCtb) with 4 in Hx. lia.
  - apply (holds_frame d d' _ _ R P F). intros x Hx. apply Hn. rewrite lenZ_dp_enc in Hx. lia.
  - apply (holds_frame d d' _ _ R B F). intros x Hx. apply Hn. rewrite tbytes_len in Hx. lia.
  - apply (holds_frame d d' _ _ R T2 F). intros x Hx. apply Hn. change (lenZ tag_dcTE) with 4 in Hx. lia.
Qed.

Lemma lread_frame d d' cs x n R : frame d d' R ->
  (forall y a, x <= y < x + n -> phys cs y = Some a -> ~ R a) -> lread d' cs x n = lread d cs x n.
Proof.
  intros F H. unfold lread, zrange. destruct (Z.le_gt_cases n 0).
  { replace (Z.to_nat n) with 0%nat by lia. reflexivity. }
  apply map_zr_ext. intros y Hy. unfold absb. destruct (y <? 0); auto.
  destruct (phys cs y) as [a|] eqn:E; auto. apply F. apply (H y a); auto. lia.
Qed.

(* physical addresses of logical bytes lie in the data area of a chunk of the list *)
Lemma phys_in cs : forall x a, sizes_pos cs -> 0 <= x -> phys cs x = Some a ->
  exists c, In c cs /\ cstart c + HDR <= a < cend c.
Proof.
  induction cs as [|c r IH]; intros x a P Hx E; [discriminate|]. inversion P as [|? ? Hc Pr]; subst.
  cbn [phys] in E. destruct (Z.ltb_spec x (csize c)).
  - inversion E; subst. exists c. split; [left; auto|]. rewrite csize_addr in *. lia.
  - destruct (IH (x - csize c) a Pr ltac:(lia) E) as (c' & I' & B). exists c'. split; [right; auto|auto].
Qed.

Lemma Forall_chunk_sizes d cs : Forall (chunk_at d) cs -> sizes_pos cs.
Proof. intros C. eapply Forall_impl; [|exact C]. intros a Ha. apply (chunk_at_gp _ _ Ha). Qed.

Lemma pdisj_in c r : pdisj (map ext (c :: r)) -> forall c', In c' r -> forall x, in_ext c x -> ~ in_ext c' x.
Proof.
  intros [F _] c' I x Hx Hx'. cbn [map] in F. rewrite Forall_forall in F. specialize (F (ext c') (in_map ext _ _ I)).
  unfold disj, ext, in_ext in *. cbn [fst snd] in F. lia.
Qed.

(* ------------------------------------------------------------------ ADF_Write_All_Data: the chunk loop *)
Lemma lenZ_firstn_ge {A} (l : list A) n : 0 <= n <= lenZ l -> lenZ (firstn (Z.to_nat n) l) = n.
Proof. intros H. unfold lenZ in *. rewrite firstn_length. lia. Qed.
Lemma lenZ_skipn {A} (l : list A) n : 0 <= n <= lenZ l -> lenZ (skipn (Z.to_nat n) l) = lenZ l - n.
Proof. intros H. unfold lenZ in *. rewrite skipn_length. lia. Qed.

Lemma skipn_skipn' {A} (x y : nat) : forall l : list A, skipn x (skipn y l) = skipn (x + y) l.
Proof.
  induction y as [|y IH]; intros l.
  - rewrite Nat.add_0_r. reflexivity.
  - destruct l as [|a r]; [rewrite !skipn_nil; reflexivity|]. rewrite Nat.add_succ_r. cbn [skipn]. apply IH.
Qed.

Lemma holds_lread_first d c r so bs : 0 <= so -> so + lenZ bs <= csize c -> holds d (cstart c + HDR + so) bs ->
  lread d (c :: r) so (lenZ bs) = map Some bs.
Proof.
  intros Hso Hle H. pose proof (lenZ_nonneg bs). rewrite lread_first by lia. unfold lenZ. rewrite Nat2Z.id.
  now apply holds_drd.
Qed.

Lemma in_exts_cons c r x : in_exts (c :: r) x <-> in_ext c x \/ in_exts r x.
Proof.
  unfold in_exts. split.
  - intros (c' & [E|I] & H); [subst; auto|right; eauto].
  - intros [H|(c' & I & H)]; [exists c; split; [left|]; auto|exists c'; split; [right|]; auto].
Qed.

Lemma wall_loop_ok : forall suf d (data : list Z) total, Forall (chunk_at d) suf -> pdisj (map ext suf) -> 0 < total -> total <= lenZ data ->
  let m := Z.min total (cap_of suf) in
  exists d', wall_loop cf fa suf d data total = (Ok (skipn (Z.to_nat m) data, total - m), d') /\
    Forall (chunk_at d') suf /\ frame d d' (in_exts suf) /\
    lread d' suf 0 m = map Some (firstn (Z.to_nat m) data).
Proof.
  induction suf as [|c r IH]; intros d data total C PD Ht Hd m.
  - subst m. cbn [cap_of fold_right]. rewrite Z.min_r by lia. cbn [wall_loop Z.to_nat skipn].
    exists d. rewrite Z.sub_0_r. split; [reflexivity|]. split; [constructor|]. split; [apply frame_refl|reflexivity].
  - inversion C as [|? ? Hc Cr]; subst. pose proof (chunk_at_gp _ _ Hc) as (_ & _ & S).
    pose proof (sizes_pos_cap _ (Forall_chunk_sizes _ _ Cr)) as Hr. pose proof PD as PDall. destruct PD as [PD1 PDr].
    cbn [wall_loop]. rewrite Hwall. unfold bytes in *. set (cur := Z.min (csize c) total).
    assert (Hcur : cur = Z.min (csize c) total) by reflexivity. clearbody cur.
    destruct (rewrite_chunk d c 0 cur data Hc) as (d1 & R1 & C1 & H1 & F1); try lia.
    rewrite R1. cbn [bindR]. assert (Em0 : m = Z.min total (csize c + cap_of r)) by reflexivity. clearbody m.
    assert (Fr1 : frame d d1 (in_ext c)).
    { pose proof (csize_addr c). intros x Hx. apply F1; unfold in_ext in Hx; unfold HDR in *; lia. }
    assert (Cr1 : Forall (chunk_at d1) r).
    { rewrite Forall_forall in *. intros c' I'. apply (chunk_at_frame d d1 c' (in_ext c)); auto.
      intros x Hx Hx'. exact (pdisj_in c r PDall c' I' x Hx' Hx). }
    destruct (Z.leb_spec (total - cur) 0) as [Stop|Go].
    + assert (Em : m = cur) by lia. assert (Ec : cur = total) by lia. rewrite Em.
      exists d1. split; [reflexivity|]. split; [constructor; auto|]. split.
      * eapply frame_weaken; [exact Fr1|]. intros x Hx. apply in_exts_cons. auto.
      * rewrite <- (lenZ_firstn_ge data cur) at 1 by lia. apply holds_lread_first; [lia| |exact H1].
        rewrite lenZ_firstn_ge by lia. lia.
    + assert (Ec : cur = csize c) by lia.
      destruct (IH d1 (skipn (Z.to_nat cur) data) (total - cur) Cr1 PDr) as (d' & R' & C' & F' & L'); try lia.
      { rewrite lenZ_skipn by lia. lia. }
      set (m' := Z.min (total - cur) (cap_of r)) in *. assert (Em : m = cur + m') by lia.
      exists d'. split.
      { rewrite R'. rewrite skipn_skipn'. replace (Z.to_nat m' + Z.to_nat cur)%nat with (Z.to_nat m) by lia.
        replace (total - cur - m') with (total - m) by lia. reflexivity. }
      assert (Cc' : chunk_at d' c).
      { apply (chunk_at_frame d1 d' c (in_exts r)); auto. intros x Hx (c' & I' & Hx').
        exact (pdisj_in c r PDall c' I' x Hx Hx'). }
      split; [constructor; auto|]. split.
      * eapply frame_trans; [exact Fr1|exact F'| |]; intros x Hx; apply in_exts_cons; auto.
      * rewrite Em. rewrite lread_app by lia.
        replace (0 + cur) with (csize c) by lia. rewrite (lread_skip d' c r (csize c) m') by lia.
        rewrite Z.sub_diag. rewrite L'.
        assert (Hh : holds d' (cstart c + HDR + 0) (firstn (Z.to_nat cur) data)).
        { apply (holds_frame d1 d' _ _ (in_exts r) H1 F'). intros x Hx (c' & I' & Hx').
          rewrite lenZ_firstn_ge in Hx by lia.
          apply (pdisj_in c r PDall c' I' x); auto. unfold in_ext. pose proof (csize_addr c). unfold HDR in *. lia. }
        rewrite <- (lenZ_firstn_ge data cur) at 1 by lia.
        rewrite holds_lread_first; [| lia | rewrite lenZ_firstn_ge by lia; lia | exact Hh ].
        rewrite <- map_app. f_equal.
        rewrite Z2Nat.inj_add by lia. rewrite <- firstn_skipn with (n := Z.to_nat cur) (l := firstn (Z.to_nat cur + Z.to_nat m') data).
        rewrite firstn_firstn, Nat.min_l by lia. f_equal.
        rewrite firstn_skipn_comm. reflexivity.
Qed.

(* ------------------------------------------------------------------ freshness of the allocator's answers *)
Definition fresh_at (E : list (Z * Z)) (p : ptr) (n : Z) : Prop :=
  gp p /\ addr p < 2 ^ 43 /\ Forall (fun e => addr p + n <= fst e \/ snd e <= addr p) E.

Lemma fresh_cons_inv E p r n nr : fresh E (p :: r) (n :: nr) = true ->
  fresh_at E p n /\ fresh ((addr p, addr p + n) :: E) r nr = true.
Proof.
  cbn [fresh]. intros H. apply andb_true_iff in H. destruct H as [H H3]. apply andb_true_iff in H. destruct H as [H1 H2].
  destruct (ptr_in_range_gp p H1) as [G A]. split; [|exact H3]. split; [exact G|]. split; [exact A|].
  rewrite forallb_forall in H2. apply Forall_forall. intros e He. specialize (H2 e He).
  unfold disjoint in H2. cbn [fst snd] in H2. apply orb_true_iff in H2.
  destruct H2 as [H2|H2]; [left|right]; [destruct (Z.leb_spec (addr p + n) (fst e))|destruct (Z.leb_spec (snd e) (addr p))]; auto; discriminate.
Qed.

Lemma fresh_nil_sizes E n nr : fresh E [] (n :: nr) = true -> False.
Proof. cbn. discriminate. Qed.

Lemma live_extents_inv h d cs : Inv h d cs ->
  live_extents fa h d = map ext cs ++ (if h_n h >=? 2 then [text (h_dc h) (h_n h)] else []).
Proof.
  intros I. unfold live_extents. rewrite (chunks_of_inv _ _ _ I). f_equal.
  unfold table_extent, text, TAG_SIZE, DPS. destruct (h_n h >=? 2); auto. do 2 f_equal. ring.
Qed.

Lemma total_bounds h : dims_ok (h_dims h) = true -> total_bytes h <> 0 ->
  0 < esz (h_ty h) /\ 0 < total_bytes h < 2 ^ 40 /\ total_bytes h mod esz (h_ty h) = 0.
Proof.
  intros D T. unfold dims_ok in D. apply andb_true_iff in D. destruct D as [D D3]. apply andb_true_iff in D. destruct D as [D1 D2].
  pose proof (prodZ_dims_pos _ D2) as P. rewrite total_bytes_unfold in *.
  destruct (Z.ltb_spec (prodZ (h_dims h) * 16) (2 ^ 40)); [|discriminate].
  assert (E : 0 <= esz (h_ty h) <= 16) by (destruct (h_ty h); cbn; lia).
  split; [nia|]. split; [nia|]. rewrite Z.mul_comm. apply Z.mod_mul. nia.
Qed.

Lemma inv_single ty dims d c : chunk_at d c -> csize c mod esz ty = 0 -> 0 < esz ty ->
  Inv (mkHdr ty dims 1 (fst c)) d [c].
Proof.
  intros C M Z0. unfold Inv. cbn [h_n h_ty h_dc map pdisj]. split; [reflexivity|]. split; [constructor; auto|].
  split; [split; auto; constructor|]. split; [constructor; auto|]. split; auto.
Qed.

(* ------------------------------------------------------------------ adding a second chunk and a table (all three writers) *)
Definition grow1_term {A} (al : list ptr) (d1 : disk) (dc : ptr) (tot' : Z) (W : disk -> ptr -> R unit)
           (K : list (ptr * ptr) -> ptr -> disk -> R A) : R A :=
  bindR (alloc al (tot' + TAG_SIZE + TAG_SIZE + DPS) d1) (fun pa d2 =>
  let p2 := fst pa in
  bindR (W d2 p2) (fun _ d3 =>
  bindR (alloc (snd pa) (2 * TAG_SIZE + 5 * DPS) d3) (fun pb d4 =>
  let pt := fst pb in
  bindO (two_entries fa d4 dc p2) d4 (fun es =>
  bindR (write_table fa d4 pt es) (fun _ d5 => K es pt d5))))).

(* what the write into the new chunk must do (ADFI_write_data_chunk on a fresh region, any payload) *)
Definition wspec (W : disk -> ptr -> R unit) (size : Z) : Prop :=
  forall d2 p2, gp p2 -> addr p2 < 2 ^ 43 ->
  exists d3, W d2 p2 = (Ok tt, d3) /\ chunk_at d3 (p2, pnorm (addr p2 + HDR + size)) /\
             csize (p2, pnorm (addr p2 + HDR + size)) = size /\
             same_out d2 d3 (addr p2) (addr p2 + HDR + size + 4).

Lemma disj_sym a b : disj a b -> disj b a.
Proof. unfold disj. tauto. Qed.

Lemma grow1_ok {A} ty dims al d1 c tot' W (K : list (ptr * ptr) -> ptr -> disk -> R A) :
  chunk_at d1 c -> 0 < esz ty -> csize c mod esz ty = 0 -> tot' mod esz ty = 0 -> 0 < tot' < 2 ^ 40 ->
  wspec W tot' -> fresh [ext c] al [tot' + 20; 68] = true ->
  exists p2 pt rest d2 d3 d5, al = p2 :: pt :: rest /\
    let c2 := (p2, pnorm (addr p2 + HDR + tot')) in
    gp p2 /\ addr p2 < 2 ^ 43 /\
    W d2 p2 = (Ok tt, d3) /\
    same_out d1 d2 (addr p2) (addr p2 + tot' + 20) /\ same_out d2 d3 (addr p2) (addr p2 + tot' + 20) /\
    same_out d3 d5 (addr pt) (addr pt + 68) /\
    disj (ext c) (ext c2) /\ disj (text pt 2) (ext c) /\ disj (text pt 2) (ext c2) /\ cend c2 + 4 = addr p2 + tot' + 20 /\
    grow1_term al d1 (fst c) tot' W K = K [c; c2] pt d5 /\
    Inv (mkHdr ty dims 2 pt) d5 [c; c2] /\ csize c2 = tot'.
Proof.
  intros C1 Z0 M1 M2 Ht WS F.
  destruct al as [|p2 al']; [exfalso; eapply fresh_nil_sizes; eauto|].
  apply fresh_cons_inv in F. destruct F as [(G2 & A2 & D2) F].
  destruct al' as [|pt rest]; [exfalso; eapply fresh_nil_sizes; eauto|].
  apply fresh_cons_inv in F. destruct F as [(Gt & At & Dt) _].
  inversion D2 as [|? ? D2c _]; subst. inversion Dt as [|? ? Dt2 Dt']; subst. inversion Dt' as [|? ? Dtc _]; subst.
  cbn [fst snd ext] in D2c, Dt2, Dtc.
  assert (P40 : 2 ^ 40 + 20 <= MAXSZ) by (unfold MAXSZ; lia).
  destruct (alloc_ok_step p2 (pt :: rest) (tot' + 20) d1) as [R2 S12]; [lia|auto|].
  set (d2 := dclr d1 (addr p2) (Z.to_nat (tot' + 20))) in *.
  destruct (WS d2 p2 G2 A2) as (d3 & RW & C3 & Sz & S23).
  set (c2 := (p2, pnorm (addr p2 + HDR + tot'))) in *.
  assert (Ec2 : cend c2 = addr p2 + HDR + tot') by (unfold cend, c2; cbn [snd]; apply addr_pnorm).
  assert (Es2 : cstart c2 = addr p2) by reflexivity.
  destruct (alloc_ok_step pt rest 68 d3) as [Rt S34]; [unfold MAXSZ; lia|auto|].
  set (d4 := dclr d3 (addr pt) (Z.to_nat 68)) in *.
  pose proof C1 as (Gc1 & Gc2 & Sc & _). pose proof (csize_addr c) as Ecs. unfold HDR in *.
  assert (C4c : chunk_at d4 c).
  { apply (chunk_at_same_out d3 d4 c _ _ (chunk_at_same_out d2 d3 c _ _ (chunk_at_same_out d1 d2 c _ _ C1 S12 ltac:(lia)) S23 ltac:(lia)) S34). lia. }
  assert (C4c2 : chunk_at d4 c2) by (apply (chunk_at_same_out d3 d4 c2 _ _ C3 S34); lia).
  destruct (write_table_ok d4 pt [c; c2]) as (d5 & RT & T5 & S45); auto.
  { constructor; [split; auto|]. constructor; [|constructor]. destruct C3 as (? & ? & _). split; auto. }
  { change (lenZ [c; c2]) with 2. assert (2 ^ 43 + 100 < 2 ^ 44) by reflexivity. lia. }
  change (lenZ [c; c2]) with 2 in S45. replace (addr pt + 20 + 24 * 2) with (addr pt + 68) in S45 by ring.
  exists p2, pt, rest, d2, d3, d5. split; [reflexivity|]. cbn zeta. fold c2.
  split; [exact G2|]. split; [exact A2|]. split; [exact RW|]. split; [eapply same_out_weaken; [exact S12|lia|lia]|].
  split; [eapply same_out_weaken; [exact S23|lia|lia]|].
  split; [eapply same_out_trans; [eapply same_out_weaken; [exact S34|lia|lia]|exact S45]|].
  assert (Dc : disj (ext c) (ext c2)) by (unfold disj, ext; cbn [fst snd]; lia).
  assert (Dt1 : disj (text pt 2) (ext c)) by (unfold disj, ext, text; cbn [fst snd]; lia).
  assert (Dt2' : disj (text pt 2) (ext c2)) by (unfold disj, ext, text; cbn [fst snd]; lia).
  split; [exact Dc|]. split; [exact Dt1|]. split; [exact Dt2'|]. split; [lia|].
  split.
  - unfold grow1_term, TAG_SIZE, DPS. replace (tot' + 4 + 4 + 12) with (tot' + 20) by ring.
    rewrite R2. cbn [bindR fst snd]. rewrite RW. cbn [bindR]. change (2 * 4 + 5 * 12) with 68. rewrite Rt. cbn [bindR fst snd].
    change p2 with (fst c2) at 1. rewrite (two_entries_ok d4 c c2) by auto. cbn [bindO]. rewrite RT. reflexivity.
  - split; [|exact Sz].
    assert (C5c : chunk_at d5 c) by (apply (chunk_at_same_out d4 d5 c _ _ C4c S45); lia).
    assert (C5c2 : chunk_at d5 c2) by (apply (chunk_at_same_out d4 d5 c2 _ _ C4c2 S45); lia).
    unfold Inv. cbn [h_n h_ty h_dc]. split; [reflexivity|]. split; [constructor; [exact C5c|constructor; [exact C5c2|constructor]]|].
    split; [cbn [map pdisj]; split; [constructor; [exact Dc|constructor]|split; [constructor|exact I]]|].
    split; [constructor; [exact M1|constructor; [rewrite Sz; exact M2|constructor]]|]. split; [auto|].
    split; [exact T5|]. cbn [map]. constructor; [exact Dt1|constructor; [exact Dt2'|constructor]].
Qed.

(* ------------------------------------------------------------------ appending a chunk to a table (all three writers) *)
Definition grown_term {A} (al : list ptr) (d1 : disk) (h : hdr) (tb : list (ptr * ptr)) (tot' : Z)
           (W : disk -> ptr -> R unit) (K : list (ptr * ptr) -> ptr -> disk -> R A) : R A :=
  bindR (alloc al (2 * TAG_SIZE + DPS + tot') d1) (fun pa d2 =>
  let p := fst pa in
  bindO (new_entry_end p tot') d2 (fun e =>
  bindR (alloc (snd pa) (2 * TAG_SIZE + (2 * (h_n h + 1) + 1) * DPS) d2) (fun pb d3 =>
  let pt := fst pb in
  bindR (write_table fa d3 pt (tb ++ [(p, e)])) (fun _ d4 =>
  bindR (W d4 p) (fun _ d5 =>
  bindR (file_free fa d5 (h_dc h)) (fun _ d6 => K (tb ++ [(p, e)]) pt d6)))))).

Lemma pdisj_snoc l x : pdisj l -> Forall (fun e => disj e x) l -> pdisj (l ++ [x]).
Proof.
  induction l as [|a r IH]; intros P F; cbn [app pdisj].
  - split; [constructor|exact I].
  - destruct P as [P1 P2]. inversion F as [|? ? Fa Fr]; subst. split; [|auto].
    apply Forall_app. split; [exact P1|constructor; [exact Fa|constructor]].
Qed.

Lemma lenZ_snoc {A} (l : list A) x : lenZ (l ++ [x]) = lenZ l + 1.
Proof. rewrite lenZ_app. reflexivity. Qed.

Lemma grown_ok {A} al d1 h cs tot' W (K : list (ptr * ptr) -> ptr -> disk -> R A) :
  h_n h = lenZ cs -> 2 <= lenZ cs -> lenZ cs < 2 ^ 20 -> Forall (chunk_at d1) cs -> pdisj (map ext cs) ->
  table_at d1 (h_dc h) cs -> Forall (disj (text (h_dc h) (lenZ cs))) (map ext cs) ->
  0 < esz (h_ty h) -> Forall (fun c => csize c mod esz (h_ty h) = 0) cs -> tot' mod esz (h_ty h) = 0 -> 0 < tot' < 2 ^ 40 ->
  wspec W tot' ->
  fresh (map ext cs ++ [text (h_dc h) (lenZ cs)]) al [tot' + 20; 8 + (2 * (lenZ cs + 1) + 1) * 12] = true ->
  exists p pt rest d4 d5 d6, al = p :: pt :: rest /\
    let c' := (p, pnorm (addr p + HDR + tot')) in
    gp p /\ addr p < 2 ^ 43 /\ W d4 p = (Ok tt, d5) /\ csize c' = tot' /\
    frame d1 d4 (fun x => addr p <= x < addr p + tot' + 20 \/ addr pt <= x < addr pt + 20 + 24 * (lenZ cs + 1)) /\
    same_out d4 d5 (addr p) (addr p + tot' + 20) /\
    same_out d5 d6 (addr (h_dc h)) (addr (h_dc h) + 20 + 24 * lenZ cs) /\
    Forall (fun e => disj e (ext c')) (map ext cs) /\ disj (text (h_dc h) (lenZ cs)) (ext c') /\
    Forall (disj (text pt (lenZ cs + 1))) (map ext cs) /\
    cend c' + 4 = addr p + tot' + 20 /\
    grown_term al d1 h cs tot' W K = K (cs ++ [c']) pt d6 /\
    Inv (mkHdr (h_ty h) (h_dims h) (h_n h + 1) pt) d6 (cs ++ [c']).
Proof.
  intros N L2 Lb C1 PD T1 TD Z0 Dv M2 Ht WS F. pose proof (lenZ_nonneg cs) as Hn.
  destruct al as [|p al']; [exfalso; eapply fresh_nil_sizes; eauto|].
  apply fresh_cons_inv in F. destruct F as [(Gp & Ap & Dp) F].
  destruct al' as [|pt rest]; [exfalso; eapply fresh_nil_sizes; eauto|].
  apply fresh_cons_inv in F. destruct F as [(Gt & At & Dt) _].
  apply Forall_app in Dp. destruct Dp as [Dpc Dpt]. inversion Dpt as [|? ? Dpo _]; subst.
  inversion Dt as [|? ? Dtn Dt']; subst. apply Forall_app in Dt'. destruct Dt' as [Dtc Dtt]. inversion Dtt as [|? ? Dto _]; subst.
  cbn [fst snd text] in Dpo, Dtn, Dto. set (n := lenZ cs) in *. set (dc := h_dc h) in *.
  assert (P40 : 2 ^ 40 + 20 <= MAXSZ /\ 2 ^ 43 + 2 ^ 40 + 100 < 2 ^ 44 /\ 2 ^ 43 + 24 * 2 ^ 20 + 100 < 2 ^ 44 /\ 100 + 24 * 2 ^ 20 <= MAXSZ) by (unfold MAXSZ; lia).
  destruct P40 as (Q1 & Q2 & Q3 & Q4).
  set (szt := 8 + (2 * (n + 1) + 1) * 12) in *. assert (Eszt : szt = 20 + 24 * (n + 1)) by (unfold szt; ring).
  destruct (alloc_ok_step p (pt :: rest) (tot' + 20) d1) as [R2 S12]; [lia|auto|].
  set (d2 := dclr d1 (addr p) (Z.to_nat (tot' + 20))) in *.
  destruct (gp_nonneg p Gp) as (Hpb & Hpo & Hpa). pose proof (addr_unfold p) as Epa. pose proof pow_facts as (P1 & _).
  set (e := pnorm (addr p + HDR + tot')). set (c' := (p, e)).
  assert (Re : new_entry_end p tot' = Ok e).
  { unfold new_entry_end, TAG_SIZE, DPS. rewrite adjust_ok by lia. unfold e, HDR. do 2 f_equal. lia. }
  assert (Ge : gp e) by (apply gp_pnorm; unfold HDR; lia).
  assert (Ec' : cend c' = addr p + HDR + tot') by (unfold cend, c', e; cbn [snd]; apply addr_pnorm).
  assert (Es' : cstart c' = addr p) by reflexivity.
  destruct (alloc_ok_step pt rest szt d2) as [Rt S23]; [lia|auto|].
  set (d3 := dclr d2 (addr pt) (Z.to_nat szt)) in *.
  assert (PG : ptrs_gp (cs ++ [c'])).
  { apply Forall_app. split; [apply (Forall_chunk_ptrs d1); auto|]. constructor; [split; auto|constructor]. }
  destruct (write_table_ok d3 pt (cs ++ [c'])) as (d4 & RT & T4 & S34); auto.
  { rewrite lenZ_snoc. fold n. lia. }
  rewrite lenZ_snoc in S34. fold n in S34.
  destruct (WS d4 p Gp Ap) as (d5 & RW & C5 & Sz & S45). fold e in C5, Sz, S45. fold c' in C5, Sz.
  unfold HDR in *.
  (* the old table is still there *)
  assert (T5 : table_at d5 dc cs).
  { apply (table_at_frame d1 d5 dc cs (fun x => addr p <= x < addr p + tot' + 20 \/ addr pt <= x < addr pt + szt)); auto.
    - intros x Hx. rewrite S45, S34, S23, S12; auto; lia.
    - fold n. intros x Hx. lia. }
  destruct (file_free_table d5 dc cs T5) as (d6 & RF & S56). fold n in S56.
  exists p, pt, rest, d4, d5, d6. split; [reflexivity|]. cbn zeta. fold e. fold c'.
  split; [exact Gp|]. split; [exact Ap|]. split; [exact RW|]. split; [exact Sz|].
  split.
  { intros x Hx. rewrite S34, S23, S12; auto; lia. }
  split; [eapply same_out_weaken; [exact S45|lia|lia]|]. split; [exact S56|].
  assert (Dc' : Forall (fun x => disj x (ext c')) (map ext cs)).
  { eapply Forall_impl; [|exact Dpc]. intros x Hx. cbn beta in Hx. unfold disj, ext. cbn [fst snd]. lia. }
  assert (Do' : disj (text dc n) (ext c')) by (unfold disj, ext, text; cbn [fst snd]; lia).
  assert (Dtc' : Forall (disj (text pt (n + 1))) (map ext cs)).
  { eapply Forall_impl; [|exact Dtc]. intros x Hx. cbn beta in Hx. unfold disj, text. cbn [fst snd]. lia. }
  split; [exact Dc'|]. split; [exact Do'|]. split; [exact Dtc'|]. split; [lia|].
  split.
  - unfold grown_term, TAG_SIZE, DPS. replace (2 * 4 + 12 + tot') with (tot' + 20) by ring.
    rewrite R2. cbn [bindR fst snd]. rewrite Re. cbn [bindO]. rewrite N. fold n.
    replace (2 * 4 + (2 * (n + 1) + 1) * 12) with szt by (unfold szt; ring). rewrite Rt. cbn [bindR fst snd].
    fold c'. rewrite RT. cbn [bindR]. rewrite RW. cbn [bindR]. fold dc. rewrite RF. reflexivity.
  - (* the new invariant *)
    assert (C6 : Forall (chunk_at d6) (cs ++ [c'])).
    { apply Forall_app. split.
      - rewrite Forall_forall in *. intros c Ic. specialize (C1 c Ic).
        specialize (Dpc (ext c) (in_map ext _ _ Ic)). specialize (Dtc (ext c) (in_map ext _ _ Ic)). specialize (TD (ext c) (in_map ext _ _ Ic)).
        unfold disj, ext, text in *. cbn [fst snd] in *.
        apply (chunk_at_frame d1 d6 c (fun x => addr p <= x < addr p + tot' + 20 \/ addr pt <= x < addr pt + szt \/ addr dc <= x < addr dc + 20 + 24 * n)); auto.
        + intros x Hx. rewrite S56, S45, S34, S23, S12; auto; lia.
        + unfold in_ext. intros x Hx. lia.
      - constructor; [|constructor]. apply (chunk_at_same_out d5 d6 c' _ _ C5 S56). lia. }
    assert (T6 : table_at d6 pt (cs ++ [c'])).
    { apply (table_at_frame d4 d6 pt _ (fun x => addr p <= x < addr p + tot' + 20 \/ addr dc <= x < addr dc + 20 + 24 * n)); auto.
      - intros x Hx. rewrite S56, S45; auto; lia.
      - rewrite lenZ_snoc. fold n. intros x Hx. lia. }
    unfold Inv. cbn [h_n h_ty h_dc]. rewrite lenZ_snoc. fold n.
    split; [lia|]. split; [exact C6|]. split.
    { rewrite map_app. cbn [map]. apply pdisj_snoc; auto. }
    split.
    { apply Forall_app. split; [exact Dv|constructor; [rewrite Sz; exact M2|constructor]]. }
    split; [auto|].
    destruct cs as [|a [|b r]]; [unfold n in L2; cbn in L2; lia|unfold n in L2; cbn in L2; lia|].
    cbn [app]. split; [exact T6|]. change (a :: b :: r ++ [c']) with ((a :: b :: r) ++ [c']).
    rewrite map_app. apply Forall_app. split; [exact Dtc'|].
    cbn [map]. constructor; [|constructor]. unfold disj, ext, text. cbn [fst snd]. lia.
Qed.

(* ------------------------------------------------------------------ ADF_Write_All_Data *)
Lemma wspec_wdc size so n (data : option (list Z)) : 0 < size < 2 ^ 40 -> 0 <= so -> 0 < n -> so + n <= size ->
  wspec (fun d2 p2 => write_data_chunk cf fa d2 p2 size so n data) size.
Proof.
  intros Hs Hso Hn Hle d2 p2 G A.
  destruct (fresh_chunk d2 p2 size so n data G A Hs Hso Hn Hle) as (d3 & R & C & Sz & _ & S).
  exists d3. auto.
Qed.

Lemma requests_unfold h d cs o : Inv h d cs -> (match o with WriteAll _ | WriteBlock _ _ _ | WriteStrided _ _ => True | _ => False end) ->
  requests fa (mkSt h d) o =
    if h_n h =? 0 then [total_bytes h + 20]
    else if total_bytes h >? cap_of cs then
           if h_n h =? 1 then [total_bytes h - cap_of cs + 20; 68]
           else [total_bytes h - cap_of cs + 20; 8 + (2 * (h_n h + 1) + 1) * DPS]
         else [].
Proof.
  intros I Ho. unfold requests. cbn [s_h s_d]. rewrite (chunks_of_inv _ _ _ I). destruct o; try contradiction; reflexivity.
Qed.

Lemma map_Some_app (a b : bytes) : map Some a ++ map Some b = map Some (a ++ b).
Proof. now rewrite map_app. Qed.

Lemma firstn_split_skipn {A} (l : list A) a b : firstn a l ++ firstn b (skipn a l) = firstn (a + b) l.
Proof.
  revert l. induction a as [|a IH]; intros l; [reflexivity|].
  destruct l as [|x r]; [cbn [skipn]; rewrite !firstn_nil; reflexivity|].
  cbn [Nat.add firstn skipn app]. f_equal. apply IH.
Qed.

Lemma phys_some cs : sizes_pos cs -> forall y, 0 <= y < cap_of cs -> exists a, phys cs y = Some a.
Proof.
  induction 1 as [|c r Hc Pr IH]; intros y Hy; [cbn in Hy; lia|]. rewrite cap_of_cons in Hy. cbn [phys].
  destruct (Z.ltb_spec y (csize c)); [eauto|]. apply IH. lia.
Qed.
Lemma phys_app_l cs x : forall y a, phys cs y = Some a -> phys (cs ++ x) y = Some a.
Proof.
  induction cs as [|c r IH]; intros y a H; [discriminate|]. cbn [app phys] in *. destruct (y <? csize c); auto.
Qed.

Lemma write_all_ok h d cs al (data : list Z) : Inv h d cs -> dims_ok (h_dims h) = true -> total_bytes h <> 0 ->
  total_bytes h <= lenZ data -> h_n h < 65535 ->
  alloc_ok fa (mkSt h d) (WriteAll data) al = true ->
  exists h' d' cs', write_all cf fa h d al data = (Ok h', d') /\ Inv h' d' cs' /\
    h_ty h' = h_ty h /\ h_dims h' = h_dims h /\
    lenZ cs' = (if lenZ cs =? 0 then 1 else if total_bytes h >? cap_of cs then lenZ cs + 1 else lenZ cs) /\
    cap_of cs' = (if (lenZ cs =? 1) && (total_bytes h <=? cap_of cs) then total_bytes h
                  else if lenZ cs =? 0 then total_bytes h
                  else if total_bytes h >? cap_of cs then total_bytes h else cap_of cs) /\
    lread d' cs' 0 (total_bytes h) = map Some (firstn (Z.to_nat (total_bytes h)) data).
Proof.
  intros I D T Hd Hn AO. destruct (total_bounds h D T) as (Z0 & Tb & Tm).
  unfold alloc_ok in AO. cbn [s_h s_d] in AO. rewrite (live_extents_inv _ _ _ I), (requests_unfold _ _ _ _ I) in AO by exact Logic.I.
  pose proof I as (N & C & PD & Dv & _ & M).
  set (t := total_bytes h) in *. unfold write_all. fold t. unfold bytes in *. destruct (Z.eqb_spec t 0); [lia|].
  destruct cs as [|c [|c2 r]].
  - (* no data yet *)
    change (lenZ []) with 0 in N. rewrite N in *. cbn [Z.eqb Z.geb Z.compare map app] in AO |- *.
    destruct al as [|p al']; [discriminate|]. apply fresh_cons_inv in AO. destruct AO as [(Gp & Ap & _) _].
    destruct (alloc_ok_step p al' (t + 20) d) as [R1 S1]; [unfold MAXSZ; lia|auto|].
    unfold TAG_SIZE, DPS. replace (t + 4 + 4 + 12) with (t + 20) by ring. rewrite R1. cbn [bindR fst].
    destruct (fresh_chunk (dclr d (addr p) (Z.to_nat (t + 20))) p t 0 t (Some data) Gp Ap Tb) as (d2 & R2 & C2 & Sz & H2 & _); try lia.
    rewrite R2. cbn [bindR]. set (c := (p, pnorm (addr p + HDR + t))) in *.
    exists (mkHdr (h_ty h) (h_dims h) 1 p), d2, [c]. split; [reflexivity|].
    split; [apply (inv_single (h_ty h) (h_dims h) d2 c); auto; rewrite Sz; auto|].
    cbn [h_ty h_dims cap_of fold_right]. rewrite Sz. change (lenZ []) with 0. change (lenZ [c]) with 1. cbn [Z.eqb andb].
    split; [reflexivity|]. split; [reflexivity|]. split; [reflexivity|]. split; [lia|].
    rewrite <- (lenZ_firstn_ge data t) at 1 by lia. apply holds_lread_first; [lia|rewrite lenZ_firstn_ge by lia; lia|].
    exact H2.
  - (* one chunk *)
    change (lenZ [c]) with 1 in *. rewrite N in *. cbn [Z.eqb Pos.eqb Z.geb Z.compare Pos.compare Pos.compare_cont map app cap_of fold_right] in AO |- *.
    rewrite Z.add_0_r in *. rewrite M. inversion C as [|? ? Hc _]; subst. inversion Dv as [|? ? Dvc _]; subst.
    rewrite (one_chunk_size_ok d c Hc). cbn [bindO].
    pose proof Hc as (_ & _ & Sc & _).
    destruct (Z.gtb_spec t (csize c)) as [Grow|Fit].
    + (* the data outgrow the chunk: second chunk and table *)
      destruct (rewrite_chunk d c 0 (csize c) data Hc) as (d1 & R1 & C1 & H1 & F1); try lia.
      rewrite R1. cbn [bindR].
      assert (WS : wspec (fun d2 p2 => write_data_chunk cf fa d2 p2 (t - csize c) 0 (t - csize c) (Some (skipn (Z.to_nat (csize c)) data))) (t - csize c))
        by (apply wspec_wdc; lia).
      assert (Mt : (t - csize c) mod esz (h_ty h) = 0).
      { apply Z.mod_divide; [lia|]. apply Z.divide_sub_r; apply Z.mod_divide; auto; lia. }
      destruct (grow1_ok (h_ty h) (h_dims h) al d1 c (t - csize c) _
                  (fun es pt d5 => (Ok (mkHdr (h_ty h) (h_dims h) 2 pt), d5)) C1 Z0 Dvc Mt ltac:(lia) WS AO)
        as (p2 & pt & rest & d2 & d3 & d5 & Eal & Gp2 & Ap2 & RW & S12 & S23 & S35 & Dc & Dt1 & Dt2 & Ece & GT & I5 & Sz2).
      unfold grow1_term in GT. rewrite GT.
      set (c2 := (p2, pnorm (addr p2 + HDR + (t - csize c)))) in *.
      exists (mkHdr (h_ty h) (h_dims h) 2 pt), d5, [c; c2]. split; [reflexivity|]. split; [exact I5|].
      cbn [h_ty h_dims cap_of fold_right]. change (lenZ [c; c2]) with 2. rewrite Sz2.
      destruct (Z.leb_spec t (csize c)); [lia|]. cbn [andb].
      split; [reflexivity|]. split; [reflexivity|]. split; [reflexivity|]. split; [lia|].
      (* what was written *)
      destruct (fresh_chunk d2 p2 (t - csize c) 0 (t - csize c) (Some (skipn (Z.to_nat (csize c)) data)) Gp2 Ap2) as (d3' & R3' & _ & _ & H3 & _); try lia.
      rewrite RW in R3'. inversion R3'; subst d3'. clear R3'.
      replace t with (csize c + (t - csize c)) at 1 by ring. rewrite lread_app by lia. rewrite Z.add_0_l.
      rewrite (lread_skip d5 c [c2] (csize c)) by lia. rewrite Z.sub_diag.
      pose proof (csize_addr c) as Ecs. unfold disj, ext, text in Dc, Dt1, Dt2. cbn [fst snd] in Dc, Dt1, Dt2. unfold HDR in *.
      assert (Es2 : cstart c2 = addr p2) by reflexivity.
      assert (H1' : holds d5 (cstart c + 16 + 0) (firstn (Z.to_nat (csize c)) data)).
      { intros i Hi. rewrite S35, S23, S12; [apply H1; auto| | |]; rewrite firstn_length in Hi; lia. }
      assert (H3' : holds d5 (addr p2 + 16 + 0) (firstn (Z.to_nat (t - csize c)) (skipn (Z.to_nat (csize c)) data))).
      { intros i Hi. rewrite S35; [apply H3; auto|]. rewrite firstn_length in Hi. change (cstart c2) with (addr p2) in *. lia. }
      rewrite <- (lenZ_firstn_ge data (csize c)) at 1 by lia.
      rewrite holds_lread_first; [|lia|rewrite lenZ_firstn_ge by lia; lia|exact H1'].
      assert (L3 : lenZ (firstn (Z.to_nat (t - csize c)) (skipn (Z.to_nat (csize c)) data)) = t - csize c).
      { apply lenZ_firstn_ge. rewrite lenZ_skipn by lia. lia. }
      rewrite <- L3 at 1. rewrite holds_lread_first; [|lia|rewrite L3, Sz2; lia|exact H3'].
      rewrite map_Some_app. f_equal. rewrite firstn_split_skipn. f_equal. lia.
    + (* the chunk is rewritten with the size of the data *)
      destruct (wdc_some d (fst c) t 0 t data) as (d1 & R1 & A1 & A2 & A3 & A4 & A5); try lia.
      { apply Hc. }
      rewrite R1. cbn [bindR]. fold (cstart c) in *.
      set (c1 := (fst c, pnorm (cstart c + HDR + t))).
      assert (Ec1 : cend c1 = cstart c + HDR + t) by (unfold cend, c1; cbn [snd]; apply addr_pnorm).
      assert (Es1 : csize c1 = t) by (rewrite csize_addr, Ec1; unfold cstart, c1; cbn [fst]; ring).
      pose proof Hc as (Gc1 & Gc2 & _). pose proof (gp_addr _ Gc2) as Be. pose proof (gp_addr _ Gc1) as Bs.
      pose proof (csize_addr c) as Ecs. unfold HDR in *.
      assert (Gn : gp (pnorm (cstart c + 16 + t))) by (apply gp_pnorm; unfold cend, cstart in *; lia).
      assert (C1 : chunk_at d1 c1).
      { unfold chunk_at. rewrite Es1, Ec1. unfold cstart, c1. cbn [fst snd]. fold (cstart c).
        split; [exact Gc1|]. split; [exact Gn|]. auto 10. }
      exists h, d1, [c1]. split; [reflexivity|]. split.
      { replace h with (mkHdr (h_ty h) (h_dims h) 1 (fst c1)) by (destruct h; cbn in *; subst; reflexivity).
        apply inv_single; auto. rewrite Es1. exact Tm. }
      cbn [cap_of fold_right]. rewrite Es1. change (lenZ [c1]) with 1. destruct (Z.leb_spec t (csize c)); [|lia]. cbn [andb].
      split; [reflexivity|]. split; [reflexivity|]. split; [reflexivity|]. split; [lia|].
      rewrite <- (lenZ_firstn_ge data t) at 1 by lia. apply holds_lread_first; [lia|rewrite lenZ_firstn_ge by lia; lia|].
      unfold cstart, c1. cbn [fst]. exact A4.
  - (* several chunks *)
    destruct M as [Tb0 TD]. pose proof (lenZ_nonneg r) as Hr.
    assert (L : lenZ (c :: c2 :: r) = lenZ r + 2) by (rewrite !lenZ_cons; ring).
    remember (c :: c2 :: r) as cs eqn:Ecs0.
    replace (h_n h >=? 2) with true in AO by (symmetry; apply Z.geb_le; lia).
    replace (h_n h =? 0) with false in AO by (symmetry; apply Z.eqb_neq; lia).
    replace (h_n h =? 1) with false in AO by (symmetry; apply Z.eqb_neq; lia).
    destruct (Z.eqb_spec (h_n h) 0); [lia|]. destruct (Z.eqb_spec (h_n h) 1); [lia|].
    rewrite (read_table_ok d (h_dc h) cs) by (auto; lia). cbn [bindO].
    replace (firstn (Z.to_nat (h_n h)) cs) with cs by (rewrite N; symmetry; apply firstn_lenZ).
    destruct (wall_loop_ok cs d data t C PD ltac:(lia) Hd) as (d1 & R1 & C1 & F1 & L1).
    rewrite R1. cbn [bindR fst snd].
    assert (Pc : 0 <= cap_of cs) by (apply sizes_pos_cap, (Forall_chunk_sizes d); auto).
    assert (T1 : table_at d1 (h_dc h) cs).
    { apply (table_at_frame d d1 _ _ (in_exts cs) Tb0 F1). intros x Hx (c' & I' & Hx').
      rewrite Forall_forall in TD. specialize (TD (ext c') (in_map ext _ _ I')).
      unfold disj, text, ext, in_ext in *. cbn [fst snd] in *. lia. }
    destruct (Z.gtb_spec (t - Z.min t (cap_of cs)) 0) as [Grow|Fit].
    + (* a further chunk *)
      assert (Et : t - Z.min t (cap_of cs) = t - cap_of cs) by lia. rewrite Et in *.
      replace (t >? cap_of cs) with true in AO by (symmetry; apply Z.gtb_lt; lia).
      assert (Mt : (t - cap_of cs) mod esz (h_ty h) = 0).
      { apply Z.mod_divide; [lia|]. apply Z.divide_sub_r; [apply Z.mod_divide; auto; lia|apply divide_cap; auto]. }
      set (data' := skipn (Z.to_nat (Z.min t (cap_of cs))) data) in *.
      assert (WS : wspec (fun d2 p2 => write_data_chunk cf fa d2 p2 (t - cap_of cs) 0 (t - cap_of cs) (Some data')) (t - cap_of cs))
        by (apply wspec_wdc; lia).
      destruct (grown_ok al d1 h cs (t - cap_of cs) _ (fun cs' pt d6 => (Ok (mkHdr (h_ty h) (h_dims h) (h_n h + 1) pt), d6))
                  N ltac:(lia) ltac:(lia) C1 PD T1 TD Z0 Dv Mt ltac:(lia) WS)
        as (p & pt & rest & d4 & d5 & d6 & Eal & Gp & Ap & RW & Sz & F14 & S45 & S56 & Dc' & Do' & Dtc' & Ece & GT & I6).
      { rewrite <- N. unfold DPS in AO. exact AO. }
      unfold grown_term in GT. rewrite GT. set (c' := (p, pnorm (addr p + HDR + (t - cap_of cs)))) in *.
      exists (mkHdr (h_ty h) (h_dims h) (h_n h + 1) pt), d6, (cs ++ [c']). split; [reflexivity|]. split; [exact I6|].
      cbn [h_ty h_dims]. rewrite lenZ_snoc, cap_of_app. cbn [cap_of fold_right]. rewrite Sz, L.
      destruct (Z.eqb_spec (lenZ r + 2) 1); [lia|]. destruct (Z.eqb_spec (lenZ r + 2) 0); [lia|]. cbn [andb].
      destruct (Z.gtb_spec t (cap_of cs)); [|lia].
      split; [reflexivity|]. split; [reflexivity|]. split; [reflexivity|]. split; [lia|].
      (* what was written *)
      destruct (fresh_chunk d4 p (t - cap_of cs) 0 (t - cap_of cs) (Some data') Gp Ap) as (d5' & R5' & _ & _ & H5 & _); try lia.
      rewrite RW in R5'. inversion R5'; subst d5'. clear R5'.
      replace t with (cap_of cs + (t - cap_of cs)) at 1 by ring. rewrite lread_app by lia. rewrite Z.add_0_l.
      assert (Psz : sizes_pos cs) by (apply (Forall_chunk_sizes d); auto).
      (* first part: unchanged since the loop *)
      assert (E1 : lread d6 (cs ++ [c']) 0 (cap_of cs) = lread d1 cs 0 (cap_of cs)).
      { unfold lread, zrange. apply map_zr_ext. intros y Hy. unfold absb. destruct (Z.ltb_spec y 0); auto.
        rewrite Z2Nat.id in Hy by lia.
        destruct (phys_some cs Psz y ltac:(lia)) as (a & Pa).
        pose proof (phys_app_l cs [c'] y a Pa) as Pa'.
        rewrite Pa, Pa'. destruct (phys_in cs y a Psz H0 Pa) as (c0 & I0 & B0).
        rewrite Forall_forall in Dc', TD, Dtc'. specialize (Dc' (ext c0) (in_map ext _ _ I0)).
        specialize (TD (ext c0) (in_map ext _ _ I0)). specialize (Dtc' (ext c0) (in_map ext _ _ I0)).
        unfold disj, ext, text in *. cbn [fst snd] in *. change (cstart c') with (addr p) in *. unfold HDR in *.
        rewrite S56, S45, F14; auto; try lia. }
      rewrite E1. rewrite Z.min_r in L1 by lia. rewrite L1.
      (* second part: the new chunk *)
      assert (E2 : lread d6 (cs ++ [c']) (cap_of cs) (t - cap_of cs) = drd d6 (cstart c' + HDR + 0) (Z.to_nat (t - cap_of cs))).
      { rewrite (lread_phys d6 cs c' [] (cap_of cs) (t - cap_of cs)); auto; try lia. do 2 f_equal. lia. }
      rewrite E2.
      assert (H6 : holds d6 (addr p + HDR + 0) (firstn (Z.to_nat (t - cap_of cs)) data')).
      { intros i Hi. rewrite S56; [apply H5; auto|]. rewrite firstn_length in Hi.
        unfold disj, ext, text in Do'. cbn [fst snd] in Do'. change (cstart c') with (addr p) in *. unfold HDR in *. lia. }
      assert (L6 : lenZ (firstn (Z.to_nat (t - cap_of cs)) data') = t - cap_of cs).
      { apply lenZ_firstn_ge. unfold data'. rewrite Z.min_r by lia. rewrite lenZ_skipn by lia. lia. }
      apply holds_drd in H6. unfold lenZ in L6. change (cstart c') with (addr p).
      replace (Z.to_nat (t - cap_of cs)) with (length (firstn (Z.to_nat (t - cap_of cs)) data')) at 1 by lia.
      rewrite H6. rewrite map_Some_app. f_equal. unfold data'. rewrite Z.min_r by lia.
      rewrite firstn_split_skipn. f_equal. lia.
    + (* the chunks hold the data *)
      exists h, d1, cs. split; [reflexivity|].
      assert (I1 : Inv h d1 cs).
      { unfold Inv. split; [exact N|]. split; [exact C1|]. split; [exact PD|]. split; [exact Dv|]. split; [auto|].
        rewrite Ecs0. rewrite <- Ecs0. split; [exact T1|exact TD]. }
      split; [exact I1|]. rewrite L.
      destruct (Z.eqb_spec (lenZ r + 2) 1); [lia|]. destruct (Z.eqb_spec (lenZ r + 2) 0); [lia|]. cbn [andb].
      destruct (Z.gtb_spec t (cap_of cs)); [lia|].
      split; [reflexivity|]. split; [reflexivity|]. split; [reflexivity|]. split; [reflexivity|].
      rewrite Z.min_l in L1 by lia. exact L1.
Qed.

(* ------------------------------------------------------------------ ADF_Put_Dimension_Information *)
Lemma free_all_ok : forall cs d, Forall (chunk_at d) cs -> pdisj (map ext cs) ->
  exists d', free_all fa cs d = (Ok tt, d') /\ frame d d' (in_exts cs).
Proof.
  induction cs as [|c r IH]; intros d C PD.
  - exists d. split; [reflexivity|apply frame_refl].
  - inversion C as [|? ? Hc Cr]; subst. pose proof PD as PDall. destruct PD as [PD1 PDr].
    cbn [free_all]. destruct (file_free_chunk d c Hc) as (d1 & R1 & S1). rewrite R1. cbn [bindR].
    assert (Cr1 : Forall (chunk_at d1) r).
    { rewrite Forall_forall in *. intros c' I'. specialize (Cr c' I').
      apply (chunk_at_frame d d1 c' (in_ext c)); auto.
      - intros x Hx. apply S1. unfold in_ext in Hx. lia.
      - intros x Hx Hx'. exact (pdisj_in c r PDall c' I' x Hx' Hx). }
    destruct (IH d1 Cr1 PDr) as (d' & R' & F'). exists d'. split; [exact R'|].
    eapply frame_trans; [apply (same_out_frame _ _ _ _ S1)|exact F'| |]; intros x Hx; apply in_exts_cons; auto.
Qed.

Lemma dims_ok_checks dims : dims_ok dims = true -> (12 <? lenZ dims) = false /\ existsb (fun v => v <=? 0) dims = false.
Proof.
  unfold dims_ok. intros D. apply andb_true_iff in D. destruct D as [D D3]. apply andb_true_iff in D. destruct D as [D1 D2].
  split; [destruct (Z.leb_spec (lenZ dims) 12); [|discriminate]; apply Z.ltb_ge; lia|].
  apply not_true_is_false. intros E. apply existsb_exists in E. destruct E as (v & Iv & Hv).
  rewrite forallb_forall in D2. specialize (D2 v Iv). destruct (Z.leb_spec 1 v); [|discriminate]. destruct (Z.leb_spec v 0); [lia|discriminate].
Qed.

Lemma inv_nil ty dims dc d : Inv (mkHdr ty dims 0 dc) d [].
Proof. unfold Inv. cbn. repeat split; auto; try constructor. intros H; congruence. Qed.

Lemma put_dims_ok h d cs ty dims : Inv h d cs -> dims_ok dims = true ->
  if dtype_eqb (h_ty h) ty && (lenZ dims =? lenZ (h_dims h))
  then put_dims fa h d ty dims = (Ok (mkHdr (h_ty h) dims (h_n h) (h_dc h)), d)
  else exists d', put_dims fa h d ty dims = (Ok (mkHdr ty dims 0 blank_ptr), d').
Proof.
  intros I D. destruct (dims_ok_checks dims D) as [D1 D2]. unfold put_dims. rewrite D1, D2.
  destruct (dtype_eqb (h_ty h) ty && (lenZ dims =? lenZ (h_dims h))); [reflexivity|].
  pose proof I as (N & C & PD & Dv & _ & M). unfold delete_data.
  destruct cs as [|c [|c2 r]].
  - rewrite N. cbn [lenZ length Z.of_nat Z.eqb]. eexists. reflexivity.
  - rewrite N. change (lenZ [c]) with 1. cbn [Z.eqb Pos.eqb]. rewrite M. inversion C as [|? ? Hc _]; subst.
    destruct (file_free_chunk d c Hc) as (d1 & R1 & _). rewrite R1. eexists. reflexivity.
  - destruct M as [Tb TD]. pose proof (lenZ_nonneg r).
    assert (L : lenZ (c :: c2 :: r) = lenZ r + 2) by (rewrite !lenZ_cons; ring).
    remember (c :: c2 :: r) as cs eqn:Ecs0.
    destruct (Z.eqb_spec (h_n h) 0); [lia|]. destruct (Z.eqb_spec (h_n h) 1); [lia|].
    rewrite (read_table_ok d (h_dc h) cs) by (auto; lia). cbn [bindO].
    replace (firstn (Z.to_nat (h_n h)) cs) with cs by (rewrite N; symmetry; apply firstn_lenZ).
    destruct (free_all_ok cs d C PD) as (d1 & R1 & F1). rewrite R1. cbn [bindR].
    assert (T1 : table_at d1 (h_dc h) cs).
    { apply (table_at_frame d d1 _ _ (in_exts cs) Tb F1). intros x Hx (c' & I' & Hx').
      rewrite Forall_forall in TD. specialize (TD (ext c') (in_map ext _ _ I')).
      unfold disj, text, ext, in_ext in *. cbn [fst snd] in *. lia. }
    destruct (file_free_table d1 (h_dc h) cs T1) as (d2 & R2 & _). rewrite R2. eexists. reflexivity.
Qed.

(* ------------------------------------------------------------------ writing one element through the chunk list *)
Lemma pdisj_forall l : pdisj l -> forall i j, (i < j < length l)%nat -> disj (nth i l (0, 0)) (nth j l (0, 0)).
Proof.
  induction l as [|a r IH]; intros P i j H; [simpl in H; lia|]. destruct P as [P1 P2].
  destruct i as [|i]; destruct j as [|j]; try lia; cbn [nth].
  - rewrite Forall_forall in P1. apply P1. apply nth_In. simpl in H. lia.
  - apply IH; auto. simpl in H. lia.
Qed.

Lemma pdisj_mid pre c rest : pdisj (map ext (pre ++ c :: rest)) ->
  forall c', In c' pre \/ In c' rest -> disj (ext c) (ext c').
Proof.
  intros P c' H. rewrite map_app in P. cbn [map] in P.
  set (l := map ext pre ++ ext c :: map ext rest) in *.
  assert (Lc : nth (length pre) l (0, 0) = ext c).
  { unfold l. rewrite app_nth2 by (rewrite map_length; lia). rewrite map_length, Nat.sub_diag. reflexivity. }
  destruct H as [H|H].
  - destruct (In_nth _ _ c H) as (i & Hi & Ei).
    assert (Li : nth i l (0, 0) = ext c').
    { unfold l. rewrite app_nth1 by (rewrite map_length; lia).
      rewrite nth_indep with (d' := ext c) by (rewrite map_length; lia). rewrite map_nth. now rewrite Ei. }
    apply disj_sym. rewrite <- Lc, <- Li. apply pdisj_forall; auto. unfold l. rewrite app_length, map_length. simpl. lia.
  - destruct (In_nth _ _ c H) as (j & Hj & Ej).
    assert (Lj : nth (length pre + S j) l (0, 0) = ext c').
    { unfold l. rewrite app_nth2 by (rewrite map_length; lia). rewrite map_length.
      replace (length pre + S j - length pre)%nat with (S j) by lia. cbn [nth].
      rewrite nth_indep with (d' := ext c) by (rewrite map_length; lia). rewrite map_nth. now rewrite Ej. }
    rewrite <- Lc, <- Lj. apply pdisj_forall; auto. unfold l. rewrite app_length, map_length. cbn [length]. rewrite map_length. lia.
Qed.

Lemma phys_post pre : forall c rest x, sizes_pos pre -> 0 < csize c -> cap_of pre + csize c <= x ->
  phys (pre ++ c :: rest) x = phys rest (x - cap_of pre - csize c).
Proof.
  induction pre as [|p r IH]; intros c rest x P Hc H.
  - cbn [app phys cap_of fold_right] in *. destruct (Z.ltb_spec x (csize c)); [lia|]. f_equal. lia.
  - inversion P as [|? ? Hp Pr]; subst. pose proof (sizes_pos_cap _ Pr). rewrite cap_of_cons in *.
    cbn [app phys]. destruct (Z.ltb_spec x (csize p)); [lia|]. rewrite IH by (auto; lia). f_equal. lia.
Qed.

(* one element of fb bytes stored at logical offset rel, inside chunk c of cs = pre ++ c :: rest *)
Lemma elem_write d pre c rest rel (bs : list Z) :
  let cs := pre ++ c :: rest in
  Forall (chunk_at d) cs -> pdisj (map ext cs) -> cap_of pre <= rel -> rel + lenZ bs <= cap_of pre + csize c ->
  let a := cstart c + HDR + (rel - cap_of pre) in
  let d1 := dput d a bs in
  Forall (chunk_at d1) cs /\
  frame d d1 (fun y => cstart c + HDR <= y < cend c) /\
  (forall x, 0 <= x -> absb d1 cs x = over (absb d cs) rel bs x).
Proof.
  intros cs C PD Hr Hle a d1. pose proof (lenZ_nonneg bs) as Hb.
  assert (Psz : sizes_pos cs) by (apply (Forall_chunk_sizes d); auto).
  assert (Ppre : sizes_pos pre) by (unfold sizes_pos, cs in *; apply Forall_app in Psz; tauto).
  assert (Hc : chunk_at d c) by (rewrite Forall_forall in C; apply C; unfold cs; apply in_app_mid).
  pose proof Hc as (G1 & _ & Sc & _). pose proof (gp_addr _ G1) as Ba. pose proof (csize_addr c) as Ecs.
  pose proof (sizes_pos_cap _ Ppre) as Hpre. unfold HDR in *.
  assert (Ha : 0 <= a) by (unfold a, cstart; lia).
  assert (Fa : frame d d1 (fun y => a <= y < a + lenZ bs)).
  { intros y Hy. unfold d1. rewrite dget_dput by auto.
    destruct (Z.leb_spec a y), (Z.ltb_spec y (a + lenZ bs)); cbn [andb]; auto. exfalso. apply Hy. lia. }
  assert (F : frame d d1 (fun y => cstart c + 16 <= y < cend c)).
  { eapply frame_weaken; [exact Fa|]. intros y Hy. unfold a in *. lia. }
  split; [|split; [exact F|]].
  - rewrite Forall_forall in *. intros c' I'. apply (chunk_at_frame_hdr d d1 c' _ (C c' I') F).
    intros x Hx Hx'. unfold cs in I'. apply in_app_or in I'. destruct I' as [I'|[E|I']].
    + pose proof (C c' ltac:(unfold cs; apply in_or_app; auto)) as (_ & _ & Sc' & _). pose proof (csize_addr c') as Ecs'.
      pose proof (pdisj_mid pre c rest PD c' (or_introl I')) as Dj. unfold disj, ext in *. cbn [fst snd] in *. unfold HDR in *. lia.
    + subst c'. unfold HDR in *. lia.
    + pose proof (C c' ltac:(unfold cs; apply in_or_app; right; right; auto)) as (_ & _ & Sc' & _). pose proof (csize_addr c') as Ecs'.
      pose proof (pdisj_mid pre c rest PD c' (or_intror I')) as Dj. unfold disj, ext in *. cbn [fst snd] in *. unfold HDR in *. lia.
  - intros x Hx. unfold over, absb. destruct (Z.ltb_spec x 0); [lia|].
    destruct (Z.leb_spec rel x), (Z.ltb_spec x (rel + lenZ bs)); cbn [andb].
    + (* x is one of the bytes of the element *)
      unfold cs. rewrite (phys_app pre c rest x) by (auto; lia). unfold d1. rewrite dget_dput by auto.
      unfold HDR, a. destruct (Z.leb_spec (cstart c + 16 + (rel - cap_of pre)) (cstart c + 16 + (x - cap_of pre))); [|lia].
      destruct (Z.ltb_spec (cstart c + 16 + (x - cap_of pre)) (cstart c + 16 + (rel - cap_of pre) + lenZ bs)); [|lia].
      cbn [andb]. do 2 f_equal. lia.
    + destruct (phys cs x) as [b|] eqn:E; auto. apply Fa. intros Hb'. unfold a in Hb'.
      destruct (Z.lt_ge_cases x (cap_of pre + csize c)).
      * unfold cs in E. rewrite (phys_app pre c rest x) in E by (auto; lia). inversion E; subst b.
        unfold HDR in *. lia.
      * unfold cs in E. rewrite (phys_post pre c rest x) in E by (auto; lia).
        assert (Prest : sizes_pos rest).
        { unfold sizes_pos, cs in *. apply Forall_app in Psz. destruct Psz as [_ Q]. inversion Q; auto. }
        destruct (phys_in rest (x - cap_of pre - csize c) b Prest ltac:(lia) E) as (c' & I' & B').
        pose proof (pdisj_mid pre c rest PD c' (or_intror I')) as Dj. unfold disj, ext in Dj. cbn [fst snd] in Dj. unfold HDR in *. lia.
    + destruct (phys cs x) as [b|] eqn:E; auto. apply Fa. intros Hb'. unfold a in Hb'.
      destruct (Z.lt_ge_cases x (cap_of pre)).
      * assert (E' : phys pre x = Some b).
        { destruct (phys_some pre Ppre x ltac:(lia)) as (b' & Eb'). unfold cs in E. rewrite (phys_app_l pre (c :: rest) x b' Eb') in E. congruence. }
        destruct (phys_in pre x b Ppre ltac:(lia) E') as (c' & I' & B').
        pose proof (pdisj_mid pre c rest PD c' (or_introl I')) as Dj. unfold disj, ext in Dj. cbn [fst snd] in Dj. unfold HDR in *. lia.
      * unfold cs in E. rewrite (phys_app pre c rest x) in E by (auto; lia). inversion E; subst b. unfold HDR in *. lia.
    + lia.
Qed.

(* ------------------------------------------------------------------ the element loops of ADF_Write_Data *)
Lemma over_elems_ext ps : forall (f g : Z -> option Z) fb data x, f x = g x -> over_elems f ps fb data x = over_elems g ps fb data x.
Proof.
  induction ps as [|p r IH]; intros f g fb data x H; cbn [over_elems]; auto.
  apply IH. unfold over. destruct ((p * fb <=? x) && (x <? p * fb + lenZ (firstn (Z.to_nat fb) data))); auto.
Qed.

Definition in_data (cs : list (ptr * ptr)) (y : Z) : Prop := exists c, In c cs /\ cstart c + HDR <= y < cend c.

Lemma wmulti_ok cs fb : 0 < fb -> Forall (fun c => csize c mod fb = 0) cs -> pdisj (map ext cs) ->
  forall ps lk (data : list Z) d, Forall (chunk_at d) cs -> lk_ok cs lk -> StronglySorted Z.lt ps ->
  Forall (fun p => l_past lk <= p * fb /\ p * fb + fb <= cap_of cs) ps -> lenZ data = lenZ ps * fb ->
  exists d', wmulti ps lk fb data d = (Ok tt, d') /\ Forall (chunk_at d') cs /\ frame d d' (in_data cs) /\
    (forall x, 0 <= x -> absb d' cs x = over_elems (absb d cs) ps fb data x).
Proof.
  intros Hfb Dv PD. induction ps as [|p r IH]; intros lk data d C L S F Hd.
  - exists d. split; [reflexivity|]. split; [exact C|]. split; [apply frame_refl|reflexivity].
  - assert (P : sizes_pos cs) by (apply (Forall_chunk_sizes d); auto).
    inversion S as [|? ? Sr Hlt]; subst. inversion F as [|? ? [Hp1 Hp2] Fr]; subst.
    destruct L as (pre & E & Epast & Esize). cbn [wmulti]. rewrite Epast, Esize.
    destruct (lookup_ok cs P (l_rest lk) (l_cur lk) pre (p * fb) E) as (lk1 & R & L1 & B1); [lia|].
    rewrite R. cbn [bindO]. destruct L1 as (pre1 & E1 & Epast1 & Esize1).
    assert (Ppre1 : sizes_pos pre1) by (unfold sizes_pos in *; rewrite E1 in P; apply Forall_app in P; tauto).
    assert (Hc1 : chunk_at d (l_cur lk1)) by (rewrite Forall_forall in C; apply C; rewrite E1; apply in_app_mid).
    destruct Hc1 as (G1 & G2 & S1 & _). destruct (gp_nonneg _ G1) as (Hb & Ho & Ha). destruct (gp_nonneg _ G2) as (_ & _ & Ha2).
    pose proof (csize_addr (l_cur lk1)) as Ecs. unfold cstart, cend, HDR in Ecs.
    pose proof (addr_unfold (fst (l_cur lk1))) as Ea. assert (P60 : 2 ^ 44 + 2 ^ 44 < 2 ^ 60) by reflexivity.
    unfold elem_ptr, TAG_SIZE, DPS.
    destruct (adjust_gt_ok' (fst (fst (l_cur lk1))) (snd (fst (l_cur lk1)) + (4 + 12) + (p * fb - l_past lk1))) as (rb & Rb & Arb & _);
      try lia.
    rewrite Rb. cbn [bindO]. rewrite lenZ_cons in Hd. pose proof (lenZ_nonneg r) as Hr0.
    assert (Lf : lenZ (firstn (Z.to_nat fb) data) = fb) by (apply lenZ_firstn_ge; nia).
    assert (Fit : p * fb + fb <= cap_of pre1 + csize (l_cur lk1)).
    { rewrite <- Epast1, <- Esize1. apply elem_fits; auto.
      - rewrite Epast1. apply divide_cap; auto. rewrite E1 in Dv. apply Forall_app in Dv. tauto.
      - rewrite Esize1. apply Z.mod_divide; [lia|]. rewrite Forall_forall in Dv. apply Dv. rewrite E1. apply in_app_mid. }
    pose proof (elem_write d pre1 (l_cur lk1) (l_rest lk1) (p * fb) (firstn (Z.to_nat fb) data)) as EW.
    cbn zeta in EW. rewrite <- E1 in EW. destruct EW as (C1 & F1 & A1); auto; try lia.
    assert (Eaddr : addr rb = cstart (l_cur lk1) + HDR + (p * fb - cap_of pre1)) by (unfold cstart, HDR; lia).
    unfold wr. rewrite Eaddr.
    set (d1 := dput d (cstart (l_cur lk1) + HDR + (p * fb - cap_of pre1)) (firstn (Z.to_nat fb) data)) in *.
    destruct (IH lk1 (skipn (Z.to_nat fb) data) d1 C1) as (d' & R' & C' & F' & A'); auto.
    + exists pre1. auto.
    + rewrite Forall_forall in *. intros q Hq. specialize (Fr q Hq). specialize (Hlt q Hq). split; [nia|lia].
    + rewrite lenZ_skipn by nia. lia.
    + exists d'. split; [exact R'|]. split; [exact C'|]. split.
      * eapply frame_trans; [exact F1|exact F'| |]; intros y Hy; auto.
        exists (l_cur lk1). split; [rewrite E1; apply in_app_mid|exact Hy].
      * intros x Hx. rewrite A' by auto. cbn [over_elems]. apply over_elems_ext. apply A1. exact Hx.
Qed.

Lemma wsingle_ok c fb : 0 < fb ->
  forall ps prev bo (data : list Z) d, chunk_at d c -> StronglySorted Z.lt ps ->
  Forall (fun p => prev <= p /\ p * fb + fb <= csize c) ps -> 0 <= prev -> 0 <= fst bo -> 0 <= snd bo ->
  addr bo = cstart c + HDR + prev * fb -> lenZ data = lenZ ps * fb ->
  exists d', wsingle ps prev bo fb data d = (Ok tt, d') /\ chunk_at d' c /\ frame d d' (in_data [c]) /\
    (forall x, 0 <= x -> absb d' [c] x = over_elems (absb d [c]) ps fb data x).
Proof.
  intros Hfb. induction ps as [|p r IH]; intros prev bo data d Hc S F Hprev Hbb Hbo Abo Hd.
  - exists d. split; [reflexivity|]. split; [exact Hc|]. split; [apply frame_refl|reflexivity].
  - inversion S as [|? ? Sr Hlt]; subst. inversion F as [|? ? [Hp1 Hp2] Fr]; subst.
    pose proof Hc as (G1 & G2 & S1 & _). destruct (gp_nonneg _ G1) as (Hb & Ho & Ha). destruct (gp_nonneg _ G2) as (_ & _ & Ha2).
    pose proof (csize_addr c) as Ecs. unfold cstart, cend, HDR in *. assert (P60 : 2 ^ 44 + 2 ^ 44 < 2 ^ 60) by reflexivity.
    cbn [wsingle]. pose proof (addr_unfold bo) as Ebo.
    destruct (adjust_gt_ok' (fst bo) (snd bo + (p - prev) * fb)) as (bo1 & R1 & A1 & N1 & N2); try nia.
    rewrite R1. cbn [bindO]. rewrite lenZ_cons in Hd. pose proof (lenZ_nonneg r) as Hr0.
    assert (Lf : lenZ (firstn (Z.to_nat fb) data) = fb) by (apply lenZ_firstn_ge; nia).
    pose proof (elem_write d [] c [] (p * fb) (firstn (Z.to_nat fb) data)) as EW. cbn zeta in EW. cbn [app cap_of fold_right] in EW.
    destruct EW as (C1 & F1 & E1); auto; try nia.
    { cbn [map pdisj]. split; [constructor|exact Logic.I]. }
    inversion C1 as [|? ? Hc1 _]; subst.
    assert (Eaddr : addr bo1 = addr (fst c) + 16 + (p * fb - 0)) by nia.
    unfold wr. rewrite Eaddr. unfold cstart, HDR in *.
    set (d1 := dput d (addr (fst c) + 16 + (p * fb - 0)) (firstn (Z.to_nat fb) data)) in *.
    destruct (IH p bo1 (skipn (Z.to_nat fb) data) d1 Hc1) as (d' & R' & C' & F' & A'); auto; try nia.
    + rewrite Forall_forall in *. intros q Hq. specialize (Fr q Hq). specialize (Hlt q Hq). lia.
    + rewrite lenZ_skipn by nia. lia.
    + exists d'. split; [exact R'|]. split; [exact C'|]. split.
      * eapply frame_trans; [exact F1|exact F'| |]; intros y Hy; auto.
        exists c. split; [left; reflexivity|exact Hy].
      * intros x Hx. rewrite A' by auto. cbn [over_elems]. apply over_elems_ext. apply E1. exact Hx.
Qed.

(* ------------------------------------------------------------------ ADF_Write_Data: element loop on a node with storage *)
Lemma phys_none cs : sizes_pos cs -> forall x, cap_of cs <= x -> phys cs x = None.
Proof.
  induction 1 as [|c r Hc Pr IH]; intros x Hx; [reflexivity|]. rewrite cap_of_cons in Hx. cbn [phys].
  pose proof (sizes_pos_cap _ Pr). destruct (Z.ltb_spec x (csize c)); [lia|]. apply IH. lia.
Qed.

Lemma in_data_ext cs y : in_data cs y -> Forall (fun c => 0 < csize c) cs -> in_exts cs y.
Proof.
  intros (c & I & H) P. exists c. split; auto. unfold in_ext. pose proof (csize_addr c). unfold HDR in *. lia.
Qed.

Lemma elem_loop_w_ok h d cs ps (data : list Z) : Inv h d cs -> ready h cs -> dims_ok (h_dims h) = true ->
  StronglySorted Z.lt ps -> Forall (fun p => 0 <= p < prodZ (h_dims h)) ps -> lenZ data = lenZ ps * esz (h_ty h) ->
  exists d', elem_loop_w h cs ps data d = (Ok tt, d') /\ Inv h d' cs /\
    (forall x, 0 <= x -> absb d' cs x = over_elems (absb d cs) ps (esz (h_ty h)) data x).
Proof.
  intros I (Ne & T & R) D Srt Rng Hd. pose proof I as (N & C & PD & Dv & Z0 & M). specialize (Z0 Ne).
  set (fb := esz (h_ty h)) in *. rewrite total_bytes_unfold in T. fold fb in T.
  assert (Rng' : Forall (fun p => 0 <= p /\ p * fb + fb <= cap_of cs) ps).
  { eapply Forall_impl; [|exact Rng]. intros p Hp. cbn beta in Hp. split; [lia|nia]. }
  unfold elem_loop_w. fold fb.
  destruct cs as [|c [|c2 r]]; [congruence| |].
  - rewrite N. change (lenZ [c]) with 1. cbn [Z.eqb Pos.eqb]. rewrite M.
    inversion C as [|? ? Hc _]; subst. cbn [cap_of fold_right] in Rng'. rewrite Z.add_0_r in Rng'.
    destruct ps as [|p0 pr].
    { exists d. split; [reflexivity|]. split; [exact I|reflexivity]. }
    pose proof Hc as (G1 & G2 & S1 & _). destruct (gp_nonneg _ G1) as (Hb & Ho & Ha). destruct (gp_nonneg _ G2) as (_ & _ & Ha2).
    pose proof (csize_addr c) as Ecs. unfold cstart, cend, HDR in Ecs.
    inversion Rng' as [|? ? [Q1 Q2] Rr]; subst. inversion Srt as [|? ? Sr Hlt]; subst.
    pose proof (addr_unfold (fst c)) as Ea. assert (P60 : 2 ^ 44 + 2 ^ 44 < 2 ^ 60) by reflexivity.
    unfold TAG_SIZE, DPS. rewrite adjust_ok by nia. cbn [bindO].
    set (bo := pnorm (fst (fst c) * DBS + (snd (fst c) + 4 + 12 + p0 * fb))).
    pose proof (pnorm_nonneg (fst (fst c) * DBS + (snd (fst c) + 4 + 12 + p0 * fb)) ltac:(nia)) as Nbo. fold bo in Nbo.
    destruct (wsingle_ok c fb Z0 (p0 :: pr) p0 bo data d Hc) as (d' & R' & C' & F' & A'); auto; try lia.
    + constructor; [lia|]. rewrite Forall_forall in *. intros q Hq. specialize (Rr q Hq). specialize (Hlt q Hq). lia.
    + unfold bo. rewrite addr_pnorm. unfold cstart, HDR. lia.
    + exists d'. split; [exact R'|]. split; [|exact A'].
      unfold Inv. split; [exact N|]. split; [constructor; auto|]. split; [exact PD|]. split; [exact Dv|]. split; [auto|exact M].
  - destruct M as [Tb TD]. pose proof (lenZ_nonneg r).
    assert (L : lenZ (c :: c2 :: r) = lenZ r + 2) by (rewrite !lenZ_cons; ring).
    destruct (Z.eqb_spec (h_n h) 1); [lia|].
    destruct (wmulti_ok (c :: c2 :: r) fb Z0 Dv PD ps (mkLook c (c2 :: r) 0 (csize c)) data d C) as (d' & R' & C' & F' & A'); auto.
    + exists []. cbn [l_cur l_rest l_past l_size app cap_of fold_right]. auto.
    + cbn [l_past]. eapply Forall_impl; [|exact Rng']. intros p Hp. cbn beta in *. nia.
    + exists d'. split; [exact R'|]. split; [|exact A'].
      unfold Inv. split; [exact N|]. split; [exact C'|]. split; [exact PD|]. split; [exact Dv|]. split; [auto|].
      split; [|exact TD].
      apply (table_at_frame d d' _ _ (in_data (c :: c2 :: r)) Tb F'). intros x Hx Hin.
      apply in_data_ext in Hin; [|apply (Forall_chunk_sizes d); auto]. destruct Hin as (c' & I' & Hx').
      rewrite Forall_forall in TD. specialize (TD (ext c') (in_map ext _ _ I')).
      unfold disj, text, ext, in_ext in *. cbn [fst snd] in *. lia.
Qed.

(* ------------------------------------------------------------------ ADF_Write_Data *)
Lemma wdata_count_ok cs : sizes_pos cs -> forall total,
  (total <= cap_of cs -> wdata_count cf cs total <= 0) /\ (cap_of cs < total -> wdata_count cf cs total = total - cap_of cs).
Proof.
  induction 1 as [|c r Hc Pr IH]; intros total.
  - cbn [wdata_count cap_of fold_right]. split; intros; lia.
  - cbn [wdata_count]. rewrite Hsigned, cap_of_cons. pose proof (sizes_pos_cap _ Pr). destruct (IH (total - csize c)) as [I1 I2].
    destruct (Z.leb_spec (total - csize c) 0) as [Le|Gt].
    + split; intros; lia.
    + split; intros; [apply I1; lia|rewrite I2 by lia; ring].
Qed.

(* the logical bytes right after a chunk c' of zeros was appended for the range [cap, t) *)
Lemma grown_abs d dg cs c' t : sizes_pos cs -> 0 < csize c' -> csize c' = t - cap_of cs ->
  holds dg (cstart c' + HDR) (zeros (t - cap_of cs)) ->
  (forall x a, 0 <= x -> phys cs x = Some a -> dget dg a = dget d a) ->
  forall x, 0 <= x -> absb dg (cs ++ [c']) x = over (absb d cs) (cap_of cs) (zeros (t - cap_of cs)) x.
Proof.
  intros P Hc Ec Hz Fr x Hx. pose proof (sizes_pos_cap _ P) as Hcap. unfold over, absb. destruct (Z.ltb_spec x 0); [lia|].
  rewrite lenZ_zeros by lia. rewrite zeros_nth.
  destruct (Z.leb_spec (cap_of cs) x), (Z.ltb_spec x (cap_of cs + (t - cap_of cs))); cbn [andb].
  - rewrite (phys_app cs c' [] x) by (auto; lia).
    specialize (Hz (Z.to_nat (x - cap_of cs))). unfold zeros in Hz at 1. rewrite repeat_length in Hz.
    rewrite zeros_nth in Hz. rewrite <- Hz by lia. f_equal. lia.
  - rewrite (phys_post cs c' [] x) by (auto; lia). cbn [phys]. rewrite (phys_none cs P x) by lia. reflexivity.
  - destruct (phys_some cs P x ltac:(lia)) as (a & Pa). rewrite (phys_app_l cs [c'] x a Pa), Pa. apply (Fr x a); auto.
  - lia.
Qed.

Lemma absb_nil d x : absb d [] x = None.
Proof. unfold absb. destruct (x <? 0); reflexivity. Qed.

Lemma strided_finish hg dg csg ps (data : list Z) (Zf : Z -> option Z) :
  Inv hg dg csg -> ready hg csg -> dims_ok (h_dims hg) = true ->
  StronglySorted Z.lt ps -> Forall (fun p => 0 <= p < prodZ (h_dims hg)) ps -> lenZ data = lenZ ps * esz (h_ty hg) ->
  (forall x, 0 <= x -> absb dg csg x = Zf x) ->
  exists d', bindR (elem_loop_w hg csg ps data dg) (fun _ d5 => (Ok hg, d5)) = (Ok hg, d') /\ Inv hg d' csg /\
    (forall x, 0 <= x -> absb d' csg x = over_elems Zf ps (esz (h_ty hg)) data x).
Proof.
  intros I R D S F Hd A. destruct (elem_loop_w_ok hg dg csg ps data I R D S F Hd) as (d' & R' & I' & A').
  exists d'. rewrite R'. split; [reflexivity|]. split; [exact I'|].
  intros x Hx. rewrite A' by auto. apply over_elems_ext. auto.
Qed.

Lemma write_strided_ok h d cs al sel ps (data : list Z) : Inv h d cs -> dims_ok (h_dims h) = true -> total_bytes h <> 0 ->
  lenZ (h_dims h) <> 0 -> sel_positions h sel = Ok ps -> lenZ data = lenZ ps * esz (h_ty h) -> h_n h < 65535 ->
  alloc_ok fa (mkSt h d) (WriteStrided sel data) al = true ->
  exists h' d' cs', write_strided cf fa h d al sel data = (Ok h', d') /\ Inv h' d' cs' /\
    h_ty h' = h_ty h /\ h_dims h' = h_dims h /\
    lenZ cs' = (if lenZ cs =? 0 then 1 else if total_bytes h >? cap_of cs then lenZ cs + 1 else lenZ cs) /\
    cap_of cs' = (if lenZ cs =? 0 then total_bytes h else if total_bytes h >? cap_of cs then total_bytes h else cap_of cs) /\
    (forall x, 0 <= x -> absb d' cs' x =
       over_elems (if (lenZ cs =? 0) || (total_bytes h >? cap_of cs)
                   then over (absb d cs) (cap_of cs) (zeros (total_bytes h - cap_of cs)) else absb d cs)
                  ps (esz (h_ty h)) data x).
Proof.
  intros I D T Rk SP Hd Hn AO. destruct (total_bounds h D T) as (Z0 & Tb & Tm).
  destruct (sel_positions_facts _ _ _ D SP) as [Srt Rng].
  unfold alloc_ok in AO. cbn [s_h s_d] in AO. rewrite (live_extents_inv _ _ _ I), (requests_unfold _ _ _ _ I) in AO by exact Logic.I.
  pose proof I as (N & C & PD & Dv & _ & M).
  set (t := total_bytes h) in *. set (fb := esz (h_ty h)) in *.
  unfold write_strided. fold t fb. unfold bytes in *. rewrite SP. cbn [bindO].
  destruct (Z.eqb_spec fb 0); [lia|]. destruct (Z.eqb_spec (lenZ (h_dims h)) 0); [lia|]. cbn [orb].
  destruct (Z.eqb_spec (lenZ data) (lenZ ps * fb)); [|lia]. cbn [negb]. destruct (Z.eqb_spec t 0); [lia|].
  destruct cs as [|c [|c2 r]].
  - (* no data yet: a chunk of zeros, then the elements *)
    change (lenZ []) with 0 in *. rewrite N in *. cbn [Z.eqb Z.geb Z.compare map app orb cap_of fold_right] in AO |- *.
    destruct al as [|p al']; [discriminate|]. apply fresh_cons_inv in AO. destruct AO as [(Gp & Ap & _) _].
    destruct (alloc_ok_step p al' (t + 20) d) as [R1 S1]; [unfold MAXSZ; lia|auto|].
    unfold TAG_SIZE, DPS. replace (t + 4 + 4 + 12) with (t + 20) by ring. rewrite R1. cbn [bindR fst].
    destruct (fresh_chunk (dclr d (addr p) (Z.to_nat (t + 20))) p t 0 t None Gp Ap Tb) as (d2 & R2 & C2 & Sz & H2 & _); try lia.
    rewrite R2. cbn [bindR]. set (c := (p, pnorm (addr p + HDR + t))) in *.
    set (h1 := mkHdr (h_ty h) (h_dims h) 1 p).
    assert (I1 : Inv h1 d2 [c]) by (apply (inv_single (h_ty h) (h_dims h) d2 c); auto; rewrite Sz; auto).
    assert (Rd : ready h1 [c]).
    { split; [congruence|]. unfold total_bytes, h1. cbn [h_ty h_dims cap_of fold_right]. fold (total_bytes h). fold t. rewrite Sz. split; [lia|auto]. }
    assert (Ag : forall x, 0 <= x -> absb d2 [c] x = over (absb d []) 0 (zeros (t - 0)) x).
    { change [c] with ([] ++ [c]). apply (grown_abs d d2 [] c t); auto; try (constructor); cbn [cap_of fold_right]; try lia.
      - rewrite Z.sub_0_r. rewrite Z.add_0_r in H2. exact H2.
      - intros x a _ E. discriminate. }
    replace (elem_loop_w h1 [] ps data d2) with (elem_loop_w h1 [c] ps data d2) by reflexivity.
    destruct (strided_finish h1 d2 [c] ps data _ I1 Rd D Srt Rng Hd Ag) as (d' & R' & I' & A').
    exists h1, d', [c]. split; [exact R'|]. split; [exact I'|].
    cbn [h_ty h_dims cap_of fold_right]. rewrite Sz. change (lenZ [c]) with 1.
    split; [reflexivity|]. split; [reflexivity|]. split; [reflexivity|]. split; [lia|]. exact A'.
  - (* one chunk *)
    change (lenZ [c]) with 1 in *. rewrite N in *. cbn [Z.eqb Pos.eqb Z.geb Z.compare Pos.compare Pos.compare_cont map app orb cap_of fold_right] in AO |- *.
    rewrite Z.add_0_r in *. rewrite M. inversion C as [|? ? Hc _]; subst. inversion Dv as [|? ? Dvc _]; subst.
    rewrite (one_chunk_size_ok d c Hc). cbn [bindO]. pose proof Hc as (_ & _ & Sc & _).
    destruct (Z.gtb_spec t (csize c)) as [Grow|Fit].
    + assert (WS : wspec (fun d2 p2 => write_data_chunk cf fa d2 p2 (t - csize c) 0 (t - csize c) (@None (list Z))) (t - csize c))
        by (apply wspec_wdc; lia).
      assert (Mt : (t - csize c) mod fb = 0).
      { apply Z.mod_divide; [lia|]. apply Z.divide_sub_r; apply Z.mod_divide; auto; lia. }
      destruct (grow1_ok (h_ty h) (h_dims h) al d c (t - csize c) _
                  (fun es pt d4 => let h1 := mkHdr (h_ty h) (h_dims h) 2 pt in bindR (elem_loop_w h1 es ps data d4) (fun _ d5 => (Ok h1, d5)))
                  Hc Z0 Dvc Mt ltac:(lia) WS AO)
        as (p2 & pt & rest & d2 & d3 & d5 & Eal & Gp2 & Ap2 & RW & S12 & S23 & S35 & Dc & Dt1 & Dt2 & Ece & GT & I5 & Sz2).
      unfold grow1_term in GT. rewrite GT. cbn zeta.
      set (c2 := (p2, pnorm (addr p2 + HDR + (t - csize c)))) in *. set (h1 := mkHdr (h_ty h) (h_dims h) 2 pt) in *.
      assert (Rd : ready h1 [c; c2]).
      { split; [congruence|]. unfold total_bytes, h1. cbn [h_ty h_dims cap_of fold_right]. fold (total_bytes h). fold t. rewrite Sz2. split; [lia|auto]. }
      destruct (fresh_chunk d2 p2 (t - csize c) 0 (t - csize c) None Gp2 Ap2) as (d3' & R3' & _ & _ & H3 & _); try lia.
      rewrite RW in R3'. inversion R3'; subst d3'. clear R3'.
      pose proof (csize_addr c) as Ecs. unfold disj, ext, text in Dc, Dt1, Dt2. cbn [fst snd] in Dc, Dt1, Dt2.
      assert (Es2 : cstart c2 = addr p2) by reflexivity.
      assert (Ag : forall x, 0 <= x -> absb d5 [c; c2] x = over (absb d [c]) (csize c) (zeros (t - csize c)) x).
      { change [c; c2] with ([c] ++ [c2]). intros x Hx.
        replace (csize c) with (cap_of [c]) at 1 2 by (cbn [cap_of fold_right]; lia).
        apply (grown_abs d d5 [c] c2 t); auto; try (cbn [cap_of fold_right]; lia).
        - constructor; [lia|constructor].
        - intros i Hi. unfold zeros in Hi. rewrite repeat_length in Hi. cbn [cap_of fold_right] in Hi. rewrite S35.
          + cbn [cap_of fold_right]. rewrite Z.add_0_r, Es2. rewrite Z.add_0_r in H3. apply H3. unfold zeros. rewrite repeat_length. lia.
          + unfold HDR in *. lia.
        - intros y a Hy E. cbn [phys] in E. destruct (Z.ltb_spec y (csize c)); [|discriminate]. inversion E; subst a.
          unfold HDR in *. rewrite S35, S23, S12; auto; lia. }
      destruct (strided_finish h1 d5 [c; c2] ps data _ I5 Rd D Srt Rng Hd Ag) as (d' & R' & I' & A').
      exists h1, d', [c; c2]. split; [exact R'|]. split; [exact I'|].
      cbn [h_ty h_dims cap_of fold_right]. rewrite Sz2. change (lenZ [c; c2]) with 2.
      split; [reflexivity|]. split; [reflexivity|]. split; [reflexivity|]. split; [lia|]. exact A'.
    + assert (Rd : ready h [c]).
      { split; [congruence|]. fold t. cbn [cap_of fold_right]. split; [lia|auto]. }
      replace (elem_loop_w h [] ps data d) with (elem_loop_w h [c] ps data d).
      2:{ unfold elem_loop_w. rewrite N. reflexivity. }
      destruct (strided_finish h d [c] ps data (absb d [c]) I Rd D Srt Rng Hd ltac:(auto)) as (d' & R' & I' & A').
      exists h, d', [c]. split; [exact R'|]. split; [exact I'|]. cbn [cap_of fold_right].
      split; [reflexivity|]. split; [reflexivity|]. split; [reflexivity|]. split; [lia|]. exact A'.
  - (* several chunks *)
    destruct M as [Tb0 TD]. pose proof (lenZ_nonneg r) as Hr.
    assert (L : lenZ (c :: c2 :: r) = lenZ r + 2) by (rewrite !lenZ_cons; ring).
    remember (c :: c2 :: r) as cs eqn:Ecs0.
    replace (h_n h >=? 2) with true in AO by (symmetry; apply Z.geb_le; lia).
    replace (h_n h =? 0) with false in AO by (symmetry; apply Z.eqb_neq; lia).
    replace (h_n h =? 1) with false in AO by (symmetry; apply Z.eqb_neq; lia).
    destruct (Z.eqb_spec (h_n h) 0); [lia|]. destruct (Z.eqb_spec (h_n h) 1); [lia|].
    rewrite (read_table_ok d (h_dc h) cs) by (auto; lia). cbn [bindO].
    replace (firstn (Z.to_nat (h_n h)) cs) with cs by (rewrite N; symmetry; apply firstn_lenZ).
    assert (Psz : sizes_pos cs) by (apply (Forall_chunk_sizes d); auto).
    pose proof (sizes_pos_cap _ Psz) as Pc. destruct (wdata_count_ok cs Psz t) as [W1 W2].
    rewrite L. destruct (Z.eqb_spec (lenZ r + 2) 0); [lia|]. cbn [orb].
    destruct (Z.gtb_spec t (cap_of cs)) as [Grow|Fit].
    + rewrite W2 by lia. destruct (Z.gtb_spec (t - cap_of cs) 0); [|lia]. rewrite Hsigned.
      assert (Mt : (t - cap_of cs) mod fb = 0).
      { apply Z.mod_divide; [lia|]. apply Z.divide_sub_r; [apply Z.mod_divide; auto; lia|apply divide_cap; auto]. }
      assert (WS : wspec (fun d2 p2 => write_data_chunk cf fa d2 p2 (t - cap_of cs) 0 (t - cap_of cs) (@None (list Z))) (t - cap_of cs))
        by (apply wspec_wdc; lia).
      destruct (grown_ok al d h cs (t - cap_of cs) _
                  (fun cs' pt d6 => let h1 := mkHdr (h_ty h) (h_dims h) (h_n h + 1) pt in
                                    bindR (elem_loop_w h1 cs' ps data d6) (fun _ d7 => (Ok h1, d7)))
                  N ltac:(lia) ltac:(lia) C PD Tb0 TD Z0 Dv Mt ltac:(lia) WS)
        as (p & pt & rest & d4 & d5 & d6 & Eal & Gp & Ap & RW & Sz & F14 & S45 & S56 & Dc' & Do' & Dtc' & Ece & GT & I6).
      { rewrite <- N. unfold DPS in AO. exact AO. }
      unfold grown_term in GT. rewrite GT. cbn zeta.
      set (c' := (p, pnorm (addr p + HDR + (t - cap_of cs)))) in *. set (h1 := mkHdr (h_ty h) (h_dims h) (h_n h + 1) pt) in *.
      assert (Rd : ready h1 (cs ++ [c'])).
      { split; [destruct cs; discriminate|]. unfold total_bytes, h1. cbn [h_ty h_dims]. fold (total_bytes h). fold t.
        rewrite cap_of_app. cbn [cap_of fold_right]. rewrite Sz. split; [lia|auto]. }
      destruct (fresh_chunk d4 p (t - cap_of cs) 0 (t - cap_of cs) None Gp Ap) as (d5' & R5' & _ & _ & H5 & _); try lia.
      rewrite RW in R5'. inversion R5'; subst d5'. clear R5'.
      assert (Es' : cstart c' = addr p) by reflexivity.
      assert (Ag : forall x, 0 <= x -> absb d6 (cs ++ [c']) x = over (absb d cs) (cap_of cs) (zeros (t - cap_of cs)) x).
      { apply (grown_abs d d6 cs c' t); auto; try lia.
        - intros i Hi. unfold zeros in Hi. rewrite repeat_length in Hi. rewrite S56.
          + rewrite Es'. rewrite Z.add_0_r in H5. apply H5. unfold zeros. rewrite repeat_length. lia.
          + unfold disj, ext, text in Do'. cbn [fst snd] in Do'. unfold HDR in *. lia.
        - intros y a Hy E. destruct (phys_in cs y a Psz Hy E) as (c0 & I0 & B0).
          rewrite Forall_forall in Dc', TD, Dtc'. specialize (Dc' (ext c0) (in_map ext _ _ I0)).
          specialize (TD (ext c0) (in_map ext _ _ I0)). specialize (Dtc' (ext c0) (in_map ext _ _ I0)).
          unfold disj, ext, text in *. cbn [fst snd] in *. unfold HDR in *.
          rewrite S56, S45, F14; auto; lia. }
      destruct (strided_finish h1 d6 (cs ++ [c']) ps data _ I6 Rd D Srt Rng Hd Ag) as (d' & R' & I' & A').
      exists h1, d', (cs ++ [c']). split; [exact R'|]. split; [exact I'|].
      cbn [h_ty h_dims]. rewrite lenZ_snoc, cap_of_app. cbn [cap_of fold_right]. rewrite Sz, L.
      split; [reflexivity|]. split; [reflexivity|]. split; [reflexivity|]. split; [lia|]. exact A'.
    + specialize (W1 ltac:(lia)). destruct (Z.gtb_spec (wdata_count cf cs t) 0); [lia|].
      assert (Rd : ready h cs).
      { split; [destruct cs; discriminate|]. fold t. split; [lia|auto]. }
      destruct (strided_finish h d cs ps data (absb d cs) I Rd D Srt Rng Hd ltac:(auto)) as (d' & R' & I' & A').
      exists h, d', cs. split; [exact R'|]. split; [exact I'|]. rewrite L.
      split; [reflexivity|]. split; [reflexivity|]. split; [reflexivity|]. split; [reflexivity|]. exact A'.
Qed.

(* ------------------------------------------------------------------ ADF_Write_Block_Data: the chunk loop *)
Lemma absb_first d c r x : 0 <= x < csize c -> absb d (c :: r) x = dget d (cstart c + HDR + x).
Proof. intros H. unfold absb. destruct (Z.ltb_spec x 0); [lia|]. cbn [phys]. destruct (Z.ltb_spec x (csize c)); [reflexivity|lia]. Qed.
Lemma absb_skip d c r x : 0 < csize c -> csize c <= x -> absb d (c :: r) x = absb d r (x - csize c).
Proof.
  intros Hc H. unfold absb. destruct (Z.ltb_spec x 0), (Z.ltb_spec (x - csize c) 0); try lia. cbn [phys].
  destruct (Z.ltb_spec x (csize c)); [lia|reflexivity].
Qed.

Lemma over_over_app f a (l1 l2 : list Z) x : over (over f a l1) (a + lenZ l1) l2 x = over f a (l1 ++ l2) x.
Proof.
  unfold over. rewrite lenZ_app. pose proof (lenZ_nonneg l1). pose proof (lenZ_nonneg l2).
  destruct (Z.leb_spec (a + lenZ l1) x), (Z.ltb_spec x (a + lenZ l1 + lenZ l2)); cbn [andb].
  - destruct (Z.leb_spec a x), (Z.ltb_spec x (a + (lenZ l1 + lenZ l2))); cbn [andb]; try lia.
    rewrite app_nth2 by (unfold lenZ in *; lia). do 2 f_equal. unfold lenZ in *. lia.
  - destruct (Z.leb_spec a x), (Z.ltb_spec x (a + lenZ l1)); cbn [andb]; try lia.
    destruct (Z.ltb_spec x (a + (lenZ l1 + lenZ l2))); [lia|reflexivity].
  - destruct (Z.leb_spec a x), (Z.ltb_spec x (a + lenZ l1)); cbn [andb].
    + destruct (Z.ltb_spec x (a + (lenZ l1 + lenZ l2))); [|lia]. rewrite app_nth1 by (unfold lenZ in *; lia). reflexivity.
    + lia.
    + reflexivity.
    + reflexivity.
  - lia.
Qed.

Lemma over_nil f a x : over f a [] x = f x.
Proof. unfold over. rewrite lenZ_nil. destruct (Z.leb_spec a x), (Z.ltb_spec x (a + 0)); cbn [andb]; auto; lia. Qed.

Lemma wblock_loop_ok sb eb : 0 <= sb -> sb <= eb ->
  forall suf d base bw (data : list Z), Forall (chunk_at d) suf -> pdisj (map ext suf) -> 0 <= base ->
  bw = Z.min (eb - sb) (Z.max 0 (base - sb)) -> eb - sb - bw <= lenZ data ->
  let m := Z.min (eb - sb) (Z.max 0 (base + cap_of suf - sb)) - bw in
  exists d', wblock_loop cf fa suf d sb eb (eb - sb) base bw data = (Ok (base + cap_of suf, bw + m, skipn (Z.to_nat m) data), d') /\
    Forall (chunk_at d') suf /\ frame d d' (in_exts suf) /\
    (forall x, 0 <= x -> absb d' suf x = over (absb d suf) (sb + bw - base) (firstn (Z.to_nat m) data) x).
Proof.
  intros Hsb Hse. induction suf as [|c r IH]; intros d base bw data C PD Hbase Hbw Hd m.
  - subst m. cbn [cap_of fold_right]. rewrite Z.add_0_r. replace (Z.min (eb - sb) (Z.max 0 (base - sb)) - bw) with 0 by lia.
    cbn [wblock_loop Z.to_nat skipn firstn]. exists d. rewrite Z.add_0_r. split; [reflexivity|]. split; [constructor|].
    split; [apply frame_refl|]. intros x Hx. now rewrite over_nil.
  - inversion C as [|? ? Hc Cr]; subst x l. pose proof (chunk_at_gp _ _ Hc) as (_ & _ & S).
    pose proof (sizes_pos_cap _ (Forall_chunk_sizes _ _ Cr)) as Hr. pose proof PD as PDall. destruct PD as [PD1 PDr].
    assert (Em0 : m = Z.min (eb - sb) (Z.max 0 (base + (csize c + cap_of r) - sb)) - bw) by reflexivity. clearbody m.
    cbn [wblock_loop]. unfold bytes in *. set (cs := csize c) in *. pose proof (csize_addr c) as Ecs. fold cs in Ecs.
    set (bw' := Z.min (eb - sb) (Z.max 0 (base + cs - sb))).
    (* what follows once this chunk has received btw bytes at offset so (btw = 0: nothing was written) *)
    assert (Cont : forall d1 btw, 0 <= btw -> bw + btw = bw' -> (0 < btw -> Z.max 0 (sb - base) + btw <= cs) ->
              (0 < btw -> sb + bw - base = Z.max 0 (sb - base)) ->
              Forall (chunk_at d1) (c :: r) -> frame d d1 (in_ext c) ->
              (forall x, 0 <= x < cs -> dget d1 (cstart c + HDR + x) = over (fun y => dget d (cstart c + HDR + y)) (sb + bw - base) (firstn (Z.to_nat btw) data) x) ->
              exists d', wblock_loop cf fa r d1 sb eb (eb - sb) (base + cs) (bw + btw) (skipn (Z.to_nat btw) data)
                         = (Ok (base + (cs + cap_of r), bw + m, skipn (Z.to_nat m) data), d') /\
                Forall (chunk_at d') (c :: r) /\ frame d d' (in_exts (c :: r)) /\
                (forall x, 0 <= x -> absb d' (c :: r) x = over (absb d (c :: r)) (sb + bw - base) (firstn (Z.to_nat m) data) x)).
    { intros d1 btw Hb0 Hbw' Hfit Hso C1 Fr1 E1.
    inversion C1 as [|? ? Hc1 Cr1]; subst x l.
    destruct (IH d1 (base + cs) (bw + btw) (skipn (Z.to_nat btw) data) Cr1 PDr) as (d' & R' & C' & F' & A'); try lia.
    { rewrite lenZ_skipn by lia. lia. }
    set (m' := Z.min (eb - sb) (Z.max 0 (base + cs + cap_of r - sb)) - (bw + btw)) in *.
    assert (Em : m = btw + m') by (unfold m'; lia). assert (Hm' : 0 <= m') by (unfold m', bw' in *; lia).
    exists d'. split.
    { rewrite R'. rewrite skipn_skipn'. replace (Z.to_nat m' + Z.to_nat btw)%nat with (Z.to_nat m) by lia.
      replace (base + cs + cap_of r) with (base + (cs + cap_of r)) by ring. replace (bw + btw + m') with (bw + m) by lia. reflexivity. }
    assert (Cc' : chunk_at d' c).
    { apply (chunk_at_frame d1 d' c (in_exts r)); auto. intros x Hx (c' & I' & Hx'). exact (pdisj_in c r PDall c' I' x Hx Hx'). }
    split; [constructor; auto|]. split.
    { eapply frame_trans; [exact Fr1|exact F'| |]; intros x Hx; apply in_exts_cons; auto. }
    intros x Hx.
    assert (Lb : lenZ (firstn (Z.to_nat btw) data) = btw) by (apply lenZ_firstn_ge; lia).
    assert (Split : firstn (Z.to_nat m) data = firstn (Z.to_nat btw) data ++ firstn (Z.to_nat m') (skipn (Z.to_nat btw) data)).
    { rewrite firstn_split_skipn. f_equal. lia. }
    rewrite Split. rewrite <- over_over_app. rewrite Lb.
    destruct (Z.lt_ge_cases x cs) as [Hin|Hout].
    + (* a byte of this chunk *)
      rewrite absb_first by (fold cs; lia).
      assert (E' : dget d' (cstart c + HDR + x) = dget d1 (cstart c + HDR + x)).
      { apply F'. intros (c' & I' & Hx'). apply (pdisj_in c r PDall c' I' (cstart c + HDR + x)); auto. unfold in_ext, HDR in *. lia. }
      rewrite E', E1 by lia.
      assert (Outer : over (over (absb d (c :: r)) (sb + bw - base) (firstn (Z.to_nat btw) data)) (sb + bw - base + btw)
                           (firstn (Z.to_nat m') (skipn (Z.to_nat btw) data)) x
                      = over (absb d (c :: r)) (sb + bw - base) (firstn (Z.to_nat btw) data) x).
      { destruct (Z.eq_dec m' 0) as [Z0|NZ].
        - rewrite Z0. cbn [Z.to_nat firstn]. apply over_nil.
        - assert (Hfull : cs <= sb + bw - base + btw) by (unfold m', bw' in *; lia).
          unfold over at 1. destruct (Z.leb_spec (sb + bw - base + btw) x); [lia|]. reflexivity. }
      rewrite Outer. unfold over. destruct ((sb + bw - base <=? x) && (x <? sb + bw - base + lenZ (firstn (Z.to_nat btw) data))); auto.
      now rewrite absb_first by (fold cs; lia).
    + (* a byte of a later chunk *)
      rewrite absb_skip by (fold cs; lia). fold cs. rewrite A' by lia.
      assert (Eold : absb d1 r (x - cs) = absb d (c :: r) x).
      { rewrite (absb_skip d c r x) by (fold cs; lia). fold cs. unfold absb. destruct (x - cs <? 0); auto.
        destruct (phys r (x - cs)) as [a|] eqn:Pa; auto. apply Fr1.
        destruct (phys_in r (x - cs) a (Forall_chunk_sizes _ _ Cr) ltac:(lia) Pa) as (c' & I' & B').
        intros Hx'. apply (pdisj_in c r PDall c' I' a Hx'). unfold in_ext, HDR in *. pose proof (csize_addr c'). lia. }
      assert (Inner : over (absb d (c :: r)) (sb + bw - base) (firstn (Z.to_nat btw) data) x = absb d (c :: r) x).
      { unfold over. rewrite Lb. destruct (Z.leb_spec (sb + bw - base) x), (Z.ltb_spec x (sb + bw - base + btw)); cbn [andb]; try reflexivity.
        exfalso. assert (0 < btw) by lia. specialize (Hfit H1). specialize (Hso H1). lia. }
      unfold over at 1 2. rewrite Inner, Eold.
      set (L' := lenZ (firstn (Z.to_nat m') (skipn (Z.to_nat btw) data))).
      destruct (Z.leb_spec (sb + (bw + btw) - (base + cs)) (x - cs)), (Z.ltb_spec (x - cs) (sb + (bw + btw) - (base + cs) + L')); cbn [andb];
      destruct (Z.leb_spec (sb + bw - base + btw) x), (Z.ltb_spec x (sb + bw - base + btw + L')); cbn [andb]; try lia; try reflexivity.
      do 2 f_equal. lia. }
    (* the cases of the loop body *)
    assert (NoOp : bw = bw' ->
              exists d', wblock_loop cf fa r d sb eb (eb - sb) (base + cs) bw data
                         = (Ok (base + (cs + cap_of r), bw + m, skipn (Z.to_nat m) data), d') /\
                Forall (chunk_at d') (c :: r) /\ frame d d' (in_exts (c :: r)) /\
                (forall x, 0 <= x -> absb d' (c :: r) x = over (absb d (c :: r)) (sb + bw - base) (firstn (Z.to_nat m) data) x)).
    { intros E. destruct (Cont d 0) as (d' & R' & Rest); try lia; auto.
      - apply frame_refl.
      - intros x Hx. cbn [Z.to_nat firstn]. now rewrite over_nil.
      - exists d'. rewrite Z.add_0_r in R'. cbn [Z.to_nat skipn] in R'. split; [exact R'|exact Rest]. }
    rewrite cap_of_cons. fold cs.
    destruct (Z.gtb_spec sb (base + cs)) as [Skip|In].
    { apply NoOp. unfold bw'. lia. }
    replace (base + cs - cs) with base by ring.
    set (so := if sb >? base then sb - base else 0). assert (Eso : so = Z.max 0 (sb - base)) by (unfold so; destruct (Z.gtb_spec sb base); lia).
    clearbody so.
    set (btw1 := if bw + (cs - so) >? eb - sb then eb - sb - bw else cs - so).
    assert (Eb1 : btw1 = Z.min (cs - so) (eb - sb - bw)) by (unfold btw1; destruct (Z.gtb_spec (bw + (cs - so)) (eb - sb)); lia).
    clearbody btw1.
    destruct (Z.eqb_spec btw1 0) as [B0|B0]; [cbn [orb]; apply NoOp; unfold bw'; lia|].
    destruct (Z.gtb_spec base eb) as [G|G]; [cbn [orb]; apply NoOp; unfold bw'; lia|]. cbn [orb].
    destruct (rewrite_chunk d c so btw1 data Hc) as (d1 & R1 & C1 & H1 & F1); try lia.
    fold cs in R1. rewrite R1. cbn [bindR].
    assert (Lf : lenZ (firstn (Z.to_nat btw1) data) = btw1) by (apply lenZ_firstn_ge; lia).
    assert (Fr1 : frame d d1 (in_ext c)).
    { intros x Hx. apply F1; unfold in_ext in Hx; unfold HDR in *; lia. }
    assert (A0 : 0 <= btw1) by lia.
    assert (A1 : bw + btw1 = bw') by (unfold bw'; lia).
    assert (A2 : 0 < btw1 -> Z.max 0 (sb - base) + btw1 <= cs) by lia.
    assert (A3 : 0 < btw1 -> sb + bw - base = Z.max 0 (sb - base)) by lia.
    assert (A4 : Forall (chunk_at d1) (c :: r)).
    { constructor; [exact C1|]. rewrite Forall_forall in *. intros c' I'. apply (chunk_at_frame d d1 c' (in_ext c)); auto.
      intros x Hx Hx'. exact (pdisj_in c r PDall c' I' x Hx' Hx). }
    assert (A5 : forall x, 0 <= x < cs -> dget d1 (cstart c + HDR + x) = over (fun y => dget d (cstart c + HDR + y)) (sb + bw - base) (firstn (Z.to_nat btw1) data) x).
    { intros x Hx. unfold over. rewrite Lf. replace (sb + bw - base) with so by lia.
      destruct (Z.leb_spec so x), (Z.ltb_spec x (so + btw1)); cbn [andb].
      * specialize (H1 (Z.to_nat (x - so))). rewrite <- H1 by (unfold lenZ in Lf; lia). f_equal. unfold HDR. lia.
      * apply F1; unfold HDR in *; lia.
      * apply F1; unfold HDR in *; lia.
      * lia. }
    exact (Cont d1 btw1 A0 A1 A2 A3 A4 Fr1 A5).
Qed.

(* ------------------------------------------------------------------ ADF_Write_Block_Data *)
(* the logical bytes after a chunk c' holding the bytes bs at offset so was appended *)
Lemma grown_abs_data d dg cs c' so (bs : list Z) : sizes_pos cs -> 0 < csize c' -> 0 <= so -> so + lenZ bs <= csize c' ->
  holds dg (cstart c' + HDR + so) bs ->
  (forall x a, 0 <= x -> phys cs x = Some a -> dget dg a = dget d a) ->
  forall x v, 0 <= x -> over (absb d cs) (cap_of cs + so) bs x = Some v -> absb dg (cs ++ [c']) x = Some v.
Proof.
  intros P Hc Hso Hle Hh Fr x v Hx. pose proof (sizes_pos_cap _ P) as Hcap. pose proof (lenZ_nonneg bs) as Hb.
  unfold over. destruct (Z.leb_spec (cap_of cs + so) x), (Z.ltb_spec x (cap_of cs + so + lenZ bs)); cbn [andb]; intros E.
  - unfold absb. destruct (Z.ltb_spec x 0); [lia|]. rewrite (phys_app cs c' [] x) by (auto; lia).
    specialize (Hh (Z.to_nat (x - (cap_of cs + so)))). rewrite <- E. rewrite <- Hh by (unfold lenZ in *; lia). f_equal. lia.
  - assert (x < cap_of cs).
    { destruct (Z.lt_ge_cases x (cap_of cs)); auto. unfold absb in E. destruct (x <? 0); [discriminate|]. rewrite (phys_none cs P x) in E by lia. discriminate. }
    lia.
  - assert (Hlt : x < cap_of cs).
    { destruct (Z.lt_ge_cases x (cap_of cs)); auto. unfold absb in E. destruct (x <? 0); [discriminate|]. rewrite (phys_none cs P x) in E by lia. discriminate. }
    destruct (phys_some cs P x ltac:(lia)) as (a & Pa). unfold absb in *. destruct (Z.ltb_spec x 0); [lia|].
    rewrite (phys_app_l cs [c'] x a Pa). rewrite Pa in E. rewrite (Fr x a); auto.
  - lia.
Qed.

Lemma over_split f a (l : list Z) k x : 0 <= k <= lenZ l ->
  over f a l x = over (over f a (firstn (Z.to_nat k) l)) (a + k) (skipn (Z.to_nat k) l) x.
Proof.
  intros Hk. rewrite <- (firstn_skipn (Z.to_nat k) l) at 1. rewrite <- over_over_app. rewrite lenZ_firstn_ge by lia. reflexivity.
Qed.

Lemma write_block_ok h d cs al b e (data : list Z) : Inv h d cs -> dims_ok (h_dims h) = true -> total_bytes h <> 0 ->
  0 <= esz (h_ty h) * (b - 1) -> esz (h_ty h) * (b - 1) < esz (h_ty h) * e -> esz (h_ty h) * e <= total_bytes h ->
  esz (h_ty h) * e - esz (h_ty h) * (b - 1) <= lenZ data -> h_n h < 65535 ->
  alloc_ok fa (mkSt h d) (WriteBlock b e data) al = true ->
  exists h' d' cs', write_block cf fa h d al b e data = (Ok h', d') /\ Inv h' d' cs' /\
    h_ty h' = h_ty h /\ h_dims h' = h_dims h /\
    lenZ cs' = (if lenZ cs =? 0 then 1 else if total_bytes h >? cap_of cs then lenZ cs + 1 else lenZ cs) /\
    cap_of cs' = (if lenZ cs =? 0 then total_bytes h else if total_bytes h >? cap_of cs then total_bytes h else cap_of cs) /\
    (forall x v, 0 <= x ->
       over (absb d cs) (esz (h_ty h) * (b - 1)) (firstn (Z.to_nat (esz (h_ty h) * e - esz (h_ty h) * (b - 1))) data) x = Some v ->
       absb d' cs' x = Some v).
Proof.
  intros I D T H0 H1 H2 Hd Hn AO. destruct (total_bounds h D T) as (Z0 & Tb & Tm).
  unfold alloc_ok in AO. cbn [s_h s_d] in AO. rewrite (live_extents_inv _ _ _ I), (requests_unfold _ _ _ _ I) in AO by exact Logic.I.
  pose proof I as (N & C & PD & Dv & _ & M).
  set (t := total_bytes h) in *. set (fb := esz (h_ty h)) in *.
  set (sb := fb * (b - 1)) in *. set (eb := fb * e) in *. set (bb := eb - sb) in *.
  assert (Lblk : lenZ (firstn (Z.to_nat bb) data) = bb) by (apply lenZ_firstn_ge; unfold bb; lia).
  unfold write_block. fold t fb sb eb. unfold bytes in *. destruct (Z.eqb_spec t 0); [lia|].
  destruct (Z.ltb_spec sb 0); [lia|]. destruct (Z.gtb_spec sb eb); [lia|]. destruct (Z.gtb_spec eb t); [lia|]. cbn [orb].
  fold bb.
  destruct cs as [|c [|c2 r]].
  - (* no data yet: one chunk, only the block is written *)
    change (lenZ []) with 0 in *. rewrite N in *. cbn [Z.eqb Z.geb Z.compare map app cap_of fold_right] in AO |- *.
    destruct al as [|p al']; [discriminate|]. apply fresh_cons_inv in AO. destruct AO as [(Gp & Ap & _) _].
    destruct (alloc_ok_step p al' (t + 20) d) as [R1 S1]; [unfold MAXSZ; lia|auto|].
    unfold TAG_SIZE, DPS. replace (t + 4 + 4 + 12) with (t + 20) by ring. rewrite R1. cbn [bindR fst].
    destruct (fresh_chunk (dclr d (addr p) (Z.to_nat (t + 20))) p t sb bb (Some data) Gp Ap Tb) as (d2 & R2 & C2 & Sz & Hh & _); try (unfold bb; lia).
    rewrite R2. cbn [bindR]. set (c := (p, pnorm (addr p + HDR + t))) in *.
    exists (mkHdr (h_ty h) (h_dims h) 1 p), d2, [c]. split; [reflexivity|].
    split; [apply (inv_single (h_ty h) (h_dims h) d2 c); auto; rewrite Sz; auto|].
    cbn [h_ty h_dims cap_of fold_right]. rewrite Sz. change (lenZ [c]) with 1.
    split; [reflexivity|]. split; [reflexivity|]. split; [reflexivity|]. split; [lia|].
    intros x v Hx E. change [c] with ([] ++ [c]).
    assert (G1 : sizes_pos []) by constructor.
    assert (G2 : 0 < csize c) by lia.
    assert (G3 : sb + lenZ (firstn (Z.to_nat bb) data) <= csize c) by (rewrite Lblk, Sz; unfold bb; lia).
    assert (G4 : forall y a, 0 <= y -> phys [] y = Some a -> dget d2 a = dget d a) by (intros y a _ Ey; discriminate).
    exact (grown_abs_data d d2 [] c sb (firstn (Z.to_nat bb) data) G1 G2 H G3 Hh G4 x v Hx E).
  - (* one chunk *)
    change (lenZ [c]) with 1 in *. rewrite N in *. cbn [Z.eqb Pos.eqb Z.geb Z.compare Pos.compare Pos.compare_cont map app cap_of fold_right] in AO |- *.
    rewrite Z.add_0_r in *. rewrite M. inversion C as [|? ? Hc _]; subst. inversion Dv as [|? ? Dvc _]; subst.
    rewrite (one_chunk_size_ok d c Hc). cbn [bindO]. pose proof Hc as (_ & _ & Sc & _). set (cs0 := csize c) in *.
    destruct (Z.gtb_spec t cs0) as [Grow|Fit].
    + (* second chunk and table *)
      set (btw1 := if sb <=? cs0 then Z.min bb (cs0 - sb) else 0).
      assert (Eb1 : btw1 = Z.min bb (Z.max 0 (cs0 - sb))) by (unfold btw1; destruct (Z.leb_spec sb cs0); lia). clearbody btw1.
      assert (Step1 : exists d1, (if sb <=? cs0 then write_data_chunk cf fa d (fst c) cs0 sb btw1 (Some data) else (Ok tt, d)) = (Ok tt, d1) /\
                chunk_at d1 c /\ frame d d1 (in_ext c) /\
                (forall x, 0 <= x < cs0 -> dget d1 (cstart c + HDR + x) = over (fun y => dget d (cstart c + HDR + y)) sb (firstn (Z.to_nat btw1) data) x)).
      { destruct (Z.leb_spec sb cs0).
        - destruct (rewrite_chunk d c sb btw1 data Hc) as (d1 & R1 & C1 & Hh1 & F1); try (fold cs0; lia).
          fold cs0 in R1. exists d1. split; [exact R1|]. split; [exact C1|].
          pose proof (csize_addr c) as Ecs. fold cs0 in Ecs. unfold HDR in *. split.
          + intros x Hx. apply F1; unfold in_ext in Hx; lia.
          + assert (Lf : lenZ (firstn (Z.to_nat btw1) data) = btw1) by (apply lenZ_firstn_ge; unfold bb in *; lia).
            intros x Hx. unfold over. rewrite Lf.
            destruct (Z.leb_spec sb x), (Z.ltb_spec x (sb + btw1)); cbn [andb].
            * specialize (Hh1 (Z.to_nat (x - sb))). rewrite <- Hh1 by (unfold lenZ in Lf; lia). f_equal. lia.
            * apply F1; lia.
            * apply F1; lia.
            * lia.
        - exists d. split; [reflexivity|]. split; [exact Hc|]. split; [apply frame_refl|].
          intros x Hx. replace btw1 with 0 by lia. cbn [Z.to_nat firstn]. now rewrite over_nil. }
      destruct Step1 as (d1 & R1 & C1 & Fr1 & E1). rewrite R1. cbn [bindR].
      set (so := Z.max 0 (sb - cs0)). set (n2 := bb - btw1).
      set (W := fun (d2 : disk) (p2 : ptr) =>
                  if btw1 <? bb then write_data_chunk cf fa d2 p2 (t - cs0) so n2 (Some (skipn (Z.to_nat btw1) data))
                  else write_data_chunk cf fa d2 p2 (t - cs0) 0 (t - cs0) (@None (list Z))).
      assert (WS : wspec W (t - cs0)).
      { unfold W. destruct (Z.ltb_spec btw1 bb); apply wspec_wdc; unfold so, n2, bb in *; lia. }
      assert (Mt : (t - cs0) mod fb = 0).
      { apply Z.mod_divide; [lia|]. apply Z.divide_sub_r; apply Z.mod_divide; auto; lia. }
      destruct (grow1_ok (h_ty h) (h_dims h) al d1 c (t - cs0) W
                  (fun es pt d5 => (Ok (mkHdr (h_ty h) (h_dims h) 2 pt), d5)) C1 Z0 Dvc Mt ltac:(lia) WS AO)
        as (p2 & pt & rest & d2 & d3 & d5 & Eal & Gp2 & Ap2 & RW & S12 & S23 & S35 & Dc & Dt1 & Dt2 & Ece & GT & I5 & Sz2).
      unfold grow1_term, W in GT. rewrite GT.
      set (c2 := (p2, pnorm (addr p2 + HDR + (t - cs0)))) in *.
      exists (mkHdr (h_ty h) (h_dims h) 2 pt), d5, [c; c2]. split; [reflexivity|]. split; [exact I5|].
      cbn [h_ty h_dims cap_of fold_right]. change (lenZ [c; c2]) with 2. rewrite Sz2. fold cs0.
      split; [reflexivity|]. split; [reflexivity|]. split; [reflexivity|]. split; [lia|].
      pose proof (csize_addr c) as Ecs. fold cs0 in Ecs. unfold disj, ext, text in Dc, Dt1, Dt2. cbn [fst snd] in Dc, Dt1, Dt2.
      assert (Es2 : cstart c2 = addr p2) by reflexivity.
      (* the part of the block that went into the new chunk *)
      assert (Part2 : btw1 < bb -> holds d5 (cstart c2 + HDR + so) (firstn (Z.to_nat n2) (skipn (Z.to_nat btw1) data))).
      { intros Hlt. unfold W in RW. destruct (Z.ltb_spec btw1 bb); [|lia].
        destruct (fresh_chunk d2 p2 (t - cs0) so n2 (Some (skipn (Z.to_nat btw1) data)) Gp2 Ap2) as (d3' & R3' & _ & _ & Hq3 & _); try (unfold so, n2, bb in *; lia).
        rewrite RW in R3'. inversion R3'; subst d3'. clear R3'.
        intros i Hi. rewrite S35; [rewrite Es2; apply Hq3; auto|]. rewrite firstn_length in Hi. unfold HDR, so, n2, bb in *. lia. }
      intros x v Hx E.
      rewrite (over_split _ sb (firstn (Z.to_nat bb) data) btw1) in E by (rewrite Lblk; unfold bb in *; lia).
      rewrite firstn_firstn in E. replace (Init.Nat.min (Z.to_nat btw1) (Z.to_nat bb)) with (Z.to_nat btw1) in E by (unfold bb in *; lia).
      change [c; c2] with ([c] ++ [c2]).
      assert (Frame1 : forall y a, 0 <= y -> phys [c] y = Some a -> dget d5 a = dget d1 a).
      { intros y a Hy Ey. cbn [phys] in Ey. fold cs0 in Ey. destruct (Z.ltb_spec y cs0); [|discriminate]. inversion Ey; subst a.
        unfold HDR in *. rewrite S35, S23, S12; auto; lia. }
      assert (Old1 : forall y, 0 <= y -> absb d1 [c] y = over (absb d [c]) sb (firstn (Z.to_nat btw1) data) y).
      { intros y Hy. destruct (Z.lt_ge_cases y cs0).
        - rewrite absb_first by (fold cs0; lia). rewrite E1 by lia. unfold over.
          destruct ((sb <=? y) && (y <? sb + lenZ (firstn (Z.to_nat btw1) data))); auto. now rewrite absb_first by (fold cs0; lia).
        - assert (Lf : lenZ (firstn (Z.to_nat btw1) data) = btw1) by (apply lenZ_firstn_ge; unfold bb in *; lia).
          unfold over. rewrite Lf. destruct (Z.leb_spec sb y), (Z.ltb_spec y (sb + btw1)); cbn [andb]; try lia;
          unfold absb; destruct (y <? 0); auto; cbn [phys]; fold cs0; destruct (Z.ltb_spec y cs0); try lia; reflexivity. }
      destruct (Z.lt_ge_cases btw1 bb) as [More|Done].
      * (* the rest of the block is in the new chunk *)
        assert (L2 : lenZ (firstn (Z.to_nat n2) (skipn (Z.to_nat btw1) data)) = n2).
        { apply lenZ_firstn_ge. rewrite lenZ_skipn by (unfold bb in *; lia). unfold n2, bb in *. lia. }
        assert (G1 : sizes_pos [c]) by (constructor; [fold cs0; lia|constructor]).
        assert (G2 : 0 < csize c2) by (rewrite Sz2; lia).
        assert (G3 : 0 <= so) by (unfold so; lia).
        assert (G4 : so + lenZ (firstn (Z.to_nat n2) (skipn (Z.to_nat btw1) data)) <= csize c2) by (rewrite L2, Sz2; unfold so, n2, bb in *; lia).
        refine (grown_abs_data d1 d5 [c] c2 so (firstn (Z.to_nat n2) (skipn (Z.to_nat btw1) data)) G1 G2 G3 G4 (Part2 More) Frame1 x v Hx _).
        cbn [cap_of fold_right]. fold cs0. rewrite Z.add_0_r.
        replace (cs0 + so) with (sb + btw1) by (unfold so in *; lia).
        assert (Esk : skipn (Z.to_nat btw1) (firstn (Z.to_nat bb) data) = firstn (Z.to_nat n2) (skipn (Z.to_nat btw1) data)).
        { rewrite skipn_firstn_comm. f_equal. unfold n2. lia. }
        rewrite <- Esk. unfold over in E |- *.
        destruct ((sb + btw1 <=? x) && (x <? sb + btw1 + lenZ (skipn (Z.to_nat btw1) (firstn (Z.to_nat bb) data)))); auto.
        rewrite Old1 by auto. unfold over. exact E.
      * (* the whole block was in the old chunk *)
        assert (Ebb : btw1 = bb) by lia. rewrite Ebb in E, Old1.
        replace (skipn (Z.to_nat bb) (firstn (Z.to_nat bb) data)) with (@nil Z) in E.
        2:{ symmetry. apply skipn_all2. rewrite firstn_length. lia. }
        rewrite over_nil in E. rewrite <- Old1 in E by auto.
        assert (Hlt : x < cs0).
        { destruct (Z.lt_ge_cases x cs0); auto. unfold absb in E. destruct (x <? 0); [discriminate|]. cbn [phys] in E. fold cs0 in E.
          destruct (Z.ltb_spec x cs0); [lia|discriminate]. }
        unfold absb in *. destruct (Z.ltb_spec x 0); [lia|]. cbn [app phys] in *. fold cs0 in E |- *.
        destruct (Z.ltb_spec x cs0); [|lia]. rewrite (Frame1 x _ Hx); [exact E|]. cbn [phys]. fold cs0. destruct (Z.ltb_spec x cs0); [reflexivity|lia].
    + (* the chunk holds the data *)
      destruct (rewrite_chunk d c sb bb data Hc) as (d1 & R1 & C1 & Hh1 & F1); try (fold cs0; unfold bb in *; lia).
      fold cs0 in R1. rewrite R1. cbn [bindR].
      exists h, d1, [c]. split; [reflexivity|]. split.
      { unfold Inv. split; [exact N|]. split; [constructor; auto|]. split; [exact PD|]. split; [constructor; auto|]. split; [auto|exact M]. }
      cbn [cap_of fold_right]. fold cs0.
      split; [reflexivity|]. split; [reflexivity|]. split; [reflexivity|]. split; [lia|].
      intros x v Hx E. pose proof (csize_addr c) as Ecs. fold cs0 in Ecs. unfold HDR in *.
      unfold over in E. rewrite Lblk in E. unfold absb in *. destruct (Z.ltb_spec x 0); [lia|]. cbn [phys] in *. fold cs0 in E |- *.
      destruct (Z.leb_spec sb x), (Z.ltb_spec x (sb + bb)); cbn [andb] in E.
      * destruct (Z.ltb_spec x cs0); [|unfold bb in *; lia]. rewrite <- E.
        unfold HDR. rewrite (holds_get d1 _ _ (cstart c + 16 + x) Hh1) by (rewrite Lblk; lia). do 2 f_equal. lia.
      * destruct (Z.ltb_spec x cs0); [|discriminate]. unfold HDR. rewrite F1; auto; lia.
      * destruct (Z.ltb_spec x cs0); [|discriminate]. unfold HDR. rewrite F1; auto; lia.
      * lia.
  - (* several chunks *)
    destruct M as [Tb0 TD]. pose proof (lenZ_nonneg r) as Hr.
    assert (L : lenZ (c :: c2 :: r) = lenZ r + 2) by (rewrite !lenZ_cons; ring).
    remember (c :: c2 :: r) as cs eqn:Ecs0.
    replace (h_n h >=? 2) with true in AO by (symmetry; apply Z.geb_le; lia).
    replace (h_n h =? 0) with false in AO by (symmetry; apply Z.eqb_neq; lia).
    replace (h_n h =? 1) with false in AO by (symmetry; apply Z.eqb_neq; lia).
    destruct (Z.eqb_spec (h_n h) 0); [lia|]. destruct (Z.eqb_spec (h_n h) 1); [lia|].
    rewrite (read_table_ok d (h_dc h) cs) by (auto; lia). cbn [bindO].
    replace (firstn (Z.to_nat (h_n h)) cs) with cs by (rewrite N; symmetry; apply firstn_lenZ).
    assert (Psz : sizes_pos cs) by (apply (Forall_chunk_sizes d); auto). pose proof (sizes_pos_cap _ Psz) as Pc.
    destruct (wblock_loop_ok sb eb ltac:(lia) ltac:(lia) cs d 0 0 data C PD ltac:(lia) ltac:(lia)) as (d1 & R1 & C1 & F1 & A1); [fold bb; lia|].
    cbn zeta in R1, A1. fold bb in R1, A1. rewrite Z.add_0_l, Z.sub_0_r, Z.add_0_r in *.
    set (m := Z.min bb (Z.max 0 (cap_of cs - sb))) in *. rewrite Z.add_0_l in R1. rewrite R1. cbn [bindR].
    replace (m - 0) with m in A1 by lia.
    rewrite L. destruct (Z.eqb_spec (lenZ r + 2) 0); [lia|].
    assert (T1 : table_at d1 (h_dc h) cs).
    { apply (table_at_frame d d1 _ _ (in_exts cs) Tb0 F1). intros x Hx (c' & I' & Hx').
      rewrite Forall_forall in TD. specialize (TD (ext c') (in_map ext _ _ I')).
      unfold disj, text, ext, in_ext in *. cbn [fst snd] in *. lia. }
    assert (Lm : lenZ (firstn (Z.to_nat m) data) = m) by (apply lenZ_firstn_ge; unfold m, bb in *; lia).
    destruct (Z.gtb_spec (t - cap_of cs) 0) as [Grow|Fit].
    + (* a further chunk *)
      replace (t >? cap_of cs) with true in AO by (symmetry; apply Z.gtb_lt; lia).
      destruct (Z.gtb_spec t (cap_of cs)); [|lia]. rewrite Hwblock.
      set (so := Z.max 0 (sb - cap_of cs)). set (nb2 := bb - m).
      set (W := fun (d4 : disk) (p : ptr) =>
                  if m <? bb then write_data_chunk cf fa d4 p (t - cap_of cs) so nb2 (Some (skipn (Z.to_nat m) data))
                  else write_data_chunk cf fa d4 p (t - cap_of cs) 0 (t - cap_of cs) (@None (list Z))).
      assert (WS : wspec W (t - cap_of cs)).
      { unfold W. destruct (Z.ltb_spec m bb); apply wspec_wdc; unfold so, nb2, m, bb in *; lia. }
      assert (Mt : (t - cap_of cs) mod fb = 0).
      { apply Z.mod_divide; [lia|]. apply Z.divide_sub_r; [apply Z.mod_divide; auto; lia|apply divide_cap; auto]. }
      destruct (grown_ok al d1 h cs (t - cap_of cs) W (fun cs' pt d6 => (Ok (mkHdr (h_ty h) (h_dims h) (h_n h + 1) pt), d6))
                  N ltac:(lia) ltac:(lia) C1 PD T1 TD Z0 Dv Mt ltac:(lia) WS)
        as (p & pt & rest & d4 & d5 & d6 & Eal & Gp & Ap & RW & Sz & F14 & S45 & S56 & Dc' & Do' & Dtc' & Ece & GT & I6).
      { rewrite <- N. unfold DPS in AO. exact AO. }
      unfold grown_term, W in GT. fold so nb2. rewrite GT. set (c' := (p, pnorm (addr p + HDR + (t - cap_of cs)))) in *.
      exists (mkHdr (h_ty h) (h_dims h) (h_n h + 1) pt), d6, (cs ++ [c']). split; [reflexivity|]. split; [exact I6|].
      cbn [h_ty h_dims]. rewrite lenZ_snoc, cap_of_app. cbn [cap_of fold_right]. rewrite Sz, L.
      split; [reflexivity|]. split; [reflexivity|]. split; [reflexivity|]. split; [lia|].
      assert (Es' : cstart c' = addr p) by reflexivity.
      assert (Part2 : m < bb -> holds d6 (cstart c' + HDR + so) (firstn (Z.to_nat nb2) (skipn (Z.to_nat m) data))).
      { intros Hlt. unfold W in RW. destruct (Z.ltb_spec m bb); [|lia].
        destruct (fresh_chunk d4 p (t - cap_of cs) so nb2 (Some (skipn (Z.to_nat m) data)) Gp Ap) as (d5' & R5' & _ & _ & Hq5 & _); try (unfold so, nb2, m, bb in *; lia).
        rewrite RW in R5'. inversion R5'; subst d5'. clear R5'.
        intros i Hi. rewrite S56; [rewrite Es'; apply Hq5; auto|]. rewrite firstn_length in Hi.
        unfold disj, ext, text in Do'. cbn [fst snd] in Do'. unfold HDR, so, nb2, m, bb in *. lia. }
      assert (Frame1 : forall y a, 0 <= y -> phys cs y = Some a -> dget d6 a = dget d1 a).
      { intros y a Hy Ey. destruct (phys_in cs y a Psz Hy Ey) as (c0 & I0 & B0).
        rewrite Forall_forall in Dc', TD, Dtc'. specialize (Dc' (ext c0) (in_map ext _ _ I0)).
        specialize (TD (ext c0) (in_map ext _ _ I0)). specialize (Dtc' (ext c0) (in_map ext _ _ I0)).
        unfold disj, ext, text in *. cbn [fst snd] in *. unfold HDR in *. rewrite S56, S45, F14; auto; lia. }
      intros x v Hx E.
      rewrite (over_split _ sb (firstn (Z.to_nat bb) data) m) in E by (rewrite Lblk; unfold m, bb in *; lia).
      rewrite firstn_firstn in E. replace (Init.Nat.min (Z.to_nat m) (Z.to_nat bb)) with (Z.to_nat m) in E by (unfold m, bb in *; lia).
      destruct (Z.lt_ge_cases m bb) as [More|Done].
      * assert (L2 : lenZ (firstn (Z.to_nat nb2) (skipn (Z.to_nat m) data)) = nb2).
        { apply lenZ_firstn_ge. rewrite lenZ_skipn by (unfold m, bb in *; lia). unfold nb2, m, bb in *. lia. }
        assert (G2 : 0 < csize c') by lia.
        assert (G3 : 0 <= so) by (unfold so; lia).
        assert (G4 : so + lenZ (firstn (Z.to_nat nb2) (skipn (Z.to_nat m) data)) <= csize c') by (rewrite L2, Sz; unfold so, nb2, m, bb in *; lia).
        refine (grown_abs_data d1 d6 cs c' so (firstn (Z.to_nat nb2) (skipn (Z.to_nat m) data)) Psz G2 G3 G4 (Part2 More) Frame1 x v Hx _).
        replace (cap_of cs + so) with (sb + m) by (unfold so, m in *; lia).
        assert (Esk : skipn (Z.to_nat m) (firstn (Z.to_nat bb) data) = firstn (Z.to_nat nb2) (skipn (Z.to_nat m) data)).
        { rewrite skipn_firstn_comm. f_equal. unfold nb2. lia. }
        rewrite <- Esk. unfold over in E |- *.
        destruct ((sb + m <=? x) && (x <? sb + m + lenZ (skipn (Z.to_nat m) (firstn (Z.to_nat bb) data)))); auto.
        rewrite A1 by auto. unfold over. exact E.
      * assert (m = bb) by (unfold m in *; lia).
        replace (skipn (Z.to_nat m) (firstn (Z.to_nat bb) data)) with (@nil Z) in E.
        2:{ symmetry. apply skipn_all2. rewrite firstn_length. lia. }
        rewrite over_nil in E. rewrite <- A1 in E by auto.
        assert (Hlt : x < cap_of cs).
        { destruct (Z.lt_ge_cases x (cap_of cs)); auto. unfold absb in E. destruct (x <? 0); [discriminate|]. rewrite (phys_none cs Psz x) in E by lia. discriminate. }
        destruct (phys_some cs Psz x ltac:(lia)) as (a & Pa). unfold absb in *. destruct (Z.ltb_spec x 0); [lia|].
        rewrite (phys_app_l cs [c'] x a Pa). rewrite Pa in E. rewrite (Frame1 x a); auto.
    + (* the chunks hold the data *)
      exists h, d1, cs. split; [reflexivity|].
      assert (I1 : Inv h d1 cs).
      { unfold Inv. split; [exact N|]. split; [exact C1|]. split; [exact PD|]. split; [exact Dv|]. split; [auto|].
        rewrite Ecs0. rewrite <- Ecs0. split; [exact T1|exact TD]. }
      split; [exact I1|]. destruct (Z.gtb_spec t (cap_of cs)); [lia|].
      split; [reflexivity|]. split; [reflexivity|]. split; [exact L|]. split; [reflexivity|].
      intros x v Hx E. rewrite A1 by auto. assert (Emb : m = bb) by (unfold m, bb in *; lia). rewrite Emb. exact E.
Qed.

(* ------------------------------------------------------------------ refinement of the plain byte array *)
Definition refines (I : ideal) (s : st) : Prop :=
  exists cs, Inv (s_h s) (s_d s) cs /\ h_ty (s_h s) = i_ty I /\ h_dims (s_h s) = i_dims I /\
    lenZ cs = i_n I /\ cap_of cs = i_cap I /\ dims_ok (i_dims I) = true /\
    (forall x v, i_b I x = Some v -> 0 <= x < i_total I /\ absb (s_d s) cs x = Some v).

Lemma refines_init : refines i0 st0.
Proof.
  exists []. split; [apply inv_nil|]. repeat split; auto; try discriminate.
Qed.

Lemma Inv_dims h d cs dims : Inv h d cs -> Inv (mkHdr (h_ty h) dims (h_n h) (h_dc h)) d cs.
Proof. unfold Inv. cbn [h_n h_ty h_dc]. tauto. Qed.

Lemma lread_nth d cs a n (bs : list Z) : lread d cs a n = map Some bs -> lenZ bs = n ->
  forall x, a <= x < a + n -> absb d cs x = Some (nth (Z.to_nat (x - a)) bs 0).
Proof.
  intros E L x Hx. unfold lread, zrange in E.
  assert (Hn : forall k m (l : list Z), map (absb d cs) (zr m k) = map Some l -> forall i, (i < k)%nat -> absb d cs (m + Z.of_nat i) = Some (nth i l 0)).
  { induction k as [|k IH]; intros m l El i Hi; [lia|]. destruct l as [|b r]; [discriminate|]. cbn [zr map] in El. inversion El as [[E0 E1]].
    destruct i as [|i]; cbn [nth]; [rewrite Z.add_0_r; auto|]. replace (m + Z.of_nat (S i)) with (m + 1 + Z.of_nat i) by lia. apply IH; auto. lia. }
  replace x with (a + Z.of_nat (Z.to_nat (x - a))) at 1 by lia. apply (Hn (Z.to_nat n) a bs E). lia.
Qed.

Lemma over_mono (f g : Z -> option Z) a l x v : (forall v, f x = Some v -> g x = Some v) -> over f a l x = Some v -> over g a l x = Some v.
Proof. unfold over. destruct ((a <=? x) && (x <? a + lenZ l)); auto. Qed.

Lemma over_elems_mono ps : forall (f g : Z -> option Z) fb data x v, (forall v, f x = Some v -> g x = Some v) ->
  over_elems f ps fb data x = Some v -> over_elems g ps fb data x = Some v.
Proof.
  induction ps as [|p r IH]; intros f g fb data x v H E; cbn [over_elems] in *; auto.
  eapply IH; [|exact E]. intros w. apply over_mono. exact H.
Qed.

Lemma over_elems_range ps : forall (f : Z -> option Z) fb data x v lo hi, 0 < fb ->
  Forall (fun p => lo <= p * fb /\ p * fb + fb <= hi) ps ->
  (forall v, f x = Some v -> lo <= x < hi) -> over_elems f ps fb data x = Some v -> lo <= x < hi.
Proof.
  induction ps as [|p r IH]; intros f fb data x v lo hi Hfb F H E; cbn [over_elems] in E; [eauto|].
  inversion F as [|? ? [P1 P2] Fr]; subst. eapply IH; [exact Hfb|exact Fr| |exact E].
  intros w. unfold over. pose proof (lenZ_firstn_le data (Z.to_nat fb)).
  destruct (Z.leb_spec (p * fb) x), (Z.ltb_spec x (p * fb + lenZ (firstn (Z.to_nat fb) data))); cbn [andb]; eauto. intros _. lia.
Qed.

Lemma sel_positions_dims h h' sel : h_dims h = h_dims h' -> sel_positions h sel = sel_positions h' sel.
Proof. intros E. unfold sel_positions. now rewrite E. Qed.

Lemma st_eta s : mkSt (s_h s) (s_d s) = s.
Proof. destruct s; reflexivity. Qed.

Lemma total_eq I s : h_ty (s_h s) = i_ty I -> h_dims (s_h s) = i_dims I -> total_bytes (s_h s) = i_total I.
Proof. intros E1 E2. unfold total_bytes, i_total. now rewrite E1, E2. Qed.

Lemma andb3 a b c : a && b && c = true -> a = true /\ b = true /\ c = true.
Proof. intros H. apply andb_true_iff in H. destruct H as [H ?]. apply andb_true_iff in H. tauto. Qed.

(* ------------------------------------------------------------------ one step preserves the refinement *)
Lemma step_putdims I s ty dims al : refines I s -> dims_ok dims = true ->
  refines (istep I (PutDims ty dims)) (snd (step cf fa s (PutDims ty dims) al)).
Proof.
  intros (cs & I1 & Ety & Edims & En & Ecap & Dok & B) D. destruct (dims_ok_checks dims D) as [D1 D2].
  cbn [step istep]. rewrite D1, D2. cbn [orb]. rewrite <- Ety, <- Edims.
  pose proof (put_dims_ok (s_h s) (s_d s) cs ty dims I1 D) as P.
  destruct (dtype_eqb (h_ty (s_h s)) ty && (lenZ dims =? lenZ (h_dims (s_h s)))).
  - rewrite P. cbn [snd]. exists cs. cbn [s_h s_d h_ty h_dims i_ty i_dims i_n i_cap i_b].
    split; [apply Inv_dims; exact I1|]. split; [reflexivity|]. split; [reflexivity|]. split; [exact En|]. split; [exact Ecap|].
    split; [exact D|]. intros x v E. unfold restrict in E. unfold i_total. cbn [i_ty i_dims].
    destruct (Z.ltb_spec x (esz (h_ty (s_h s)) * prodZ dims)); [|discriminate]. destruct (B x v E) as [R A]. split; [lia|exact A].
  - destruct P as (d' & P). rewrite P. cbn [snd]. exists []. cbn [s_h s_d h_ty h_dims i_ty i_dims i_n i_cap i_b].
    split; [apply inv_nil|]. repeat split; auto; try discriminate.
Qed.

Lemma step_writeall I s data al : refines I s -> safe_step cf fa s (WriteAll data) = true ->
  alloc_ok fa s (WriteAll data) al = true -> buf_ok (s_h s) (WriteAll data) = true ->
  refines (istep I (WriteAll data)) (snd (step cf fa s (WriteAll data) al)) /\
  (i_total I <> 0 -> fst (step cf fa s (WriteAll data) al) = Ok AUnit /\ i_total I <= i_cap (istep I (WriteAll data))).
Proof.
  intros R0 Sf AO Bf. pose proof R0 as (cs & I1 & Ety & Edims & En & Ecap & Dok & B).
  cbn [safe_step] in Sf. apply andb_true_iff in Sf. destruct Sf as [_ Nc]. unfold nchunks_ok in Nc.
  destruct (Z.ltb_spec (h_n (s_h s)) 65535); [|discriminate].
  cbn [buf_ok] in Bf. destruct (Z.leb_spec (total_bytes (s_h s)) (lenZ data)); [|discriminate].
  pose proof (total_eq I s Ety Edims) as Et. cbn [step istep]. rewrite <- Et.
  destruct (Z.eqb_spec (total_bytes (s_h s)) 0) as [T0|T0].
  - split; [|intros; lia]. unfold write_all. rewrite T0. cbn [Z.eqb snd]. rewrite st_eta. exact R0.
  - rewrite <- (st_eta s) in AO. rewrite <- Edims in Dok.
    destruct (write_all_ok (s_h s) (s_d s) cs al data I1 Dok T0 ltac:(lia) ltac:(lia) AO) as (h' & d' & cs' & RW & I' & Ty' & Dm' & Ln & Cp & Rd).
    rewrite RW. cbn [snd fst]. split.
    + exists cs'. cbn [s_h s_d i_ty i_dims i_n i_cap i_b].
      split; [exact I'|]. split; [congruence|]. split; [congruence|].
      split; [rewrite Ln; unfold i_grow; rewrite <- En, <- Ecap; destruct (lenZ cs =? 0); [reflexivity|]; destruct (total_bytes (s_h s) >? cap_of cs); reflexivity|].
      split; [rewrite Cp; unfold i_grow; rewrite <- En, <- Ecap; destruct ((lenZ cs =? 1) && (total_bytes (s_h s) <=? cap_of cs)); [reflexivity|];
              destruct (lenZ cs =? 0); [reflexivity|]; destruct (total_bytes (s_h s) >? cap_of cs); reflexivity|].
      split; [rewrite <- Edims; exact Dok|].
      destruct (total_bounds (s_h s) Dok T0) as (_ & Tb & _).
      assert (Lf : lenZ (firstn (Z.to_nat (total_bytes (s_h s))) data) = total_bytes (s_h s)) by (apply lenZ_firstn_ge; lia).
      intros x v E. unfold i_total. cbn [i_ty i_dims]. fold (i_total I). rewrite <- Et.
      unfold over in E. rewrite Lf in E. destruct (Z.leb_spec 0 x), (Z.ltb_spec x (0 + total_bytes (s_h s))); cbn [andb] in E.
      * split; [lia|]. rewrite (lread_nth d' cs' 0 (total_bytes (s_h s)) _ Rd Lf x) by lia. exact E.
      * destruct (B x v E) as [Rg _]. lia.
      * destruct (B x v E) as [Rg _]. lia.
      * destruct (B x v E) as [Rg _]. lia.
    + intros _. split; [reflexivity|]. cbn [i_cap]. unfold i_grow. rewrite <- En, <- Ecap.
      destruct (Z.eqb_spec (lenZ cs) 1), (Z.leb_spec (total_bytes (s_h s)) (cap_of cs)); cbn [andb]; try lia;
      destruct (Z.eqb_spec (lenZ cs) 0); cbn [snd]; try lia; destruct (Z.gtb_spec (total_bytes (s_h s)) (cap_of cs)); cbn [snd]; lia.
Qed.

Lemma grow_len I cs t : lenZ cs = i_n I -> cap_of cs = i_cap I ->
  (if lenZ cs =? 0 then 1 else if t >? cap_of cs then lenZ cs + 1 else lenZ cs) = fst (i_grow I t) /\
  (if lenZ cs =? 0 then t else if t >? cap_of cs then t else cap_of cs) = snd (i_grow I t).
Proof.
  intros En Ecap. unfold i_grow. rewrite <- En, <- Ecap. destruct (lenZ cs =? 0); [auto|]. destruct (t >? cap_of cs); auto.
Qed.

Lemma step_writeblock I s b e data al : refines I s -> safe_step cf fa s (WriteBlock b e data) = true ->
  alloc_ok fa s (WriteBlock b e data) al = true -> buf_ok (s_h s) (WriteBlock b e data) = true ->
  refines (istep I (WriteBlock b e data)) (snd (step cf fa s (WriteBlock b e data) al)) /\
  (block_valid I b e = true -> fst (step cf fa s (WriteBlock b e data) al) = Ok AUnit /\ i_total I <= i_cap (istep I (WriteBlock b e data))).
Proof.
  intros R0 Sf AO Bf. pose proof R0 as (cs & I1 & Ety & Edims & En & Ecap & Dok & B).
  cbn [safe_step] in Sf. apply andb3 in Sf. destruct Sf as (_ & Nc & Ne). unfold nchunks_ok in Nc.
  destruct (Z.ltb_spec (h_n (s_h s)) 65535); [|discriminate].
  cbn [buf_ok] in Bf. pose proof (total_eq I s Ety Edims) as Et. cbn [step istep]. unfold block_valid. rewrite <- Et, <- Ety.
  set (fb := esz (h_ty (s_h s))) in *. set (sb := fb * (b - 1)) in *. set (eb := fb * e) in *. set (t := total_bytes (s_h s)) in *.
  destruct (Z.leb_spec (eb - sb) (lenZ data)); [|discriminate]. destruct (Z.eqb_spec sb eb) as [|Nempty]; [discriminate|].
  destruct (Z.eqb_spec t 0) as [T0|T0].
  { cbn [negb andb]. split; [|intros; discriminate]. unfold write_block. fold t. rewrite T0. cbn [Z.eqb snd]. rewrite st_eta. exact R0. }
  cbn [negb andb].
  destruct (Z.leb_spec 0 sb) as [S0|S0]; cbn [andb].
  2:{ split; [|intros; discriminate]. unfold write_block. fold t fb sb eb. destruct (Z.eqb_spec t 0); [lia|].
      destruct (Z.ltb_spec sb 0); [|lia]. cbn [orb snd]. rewrite st_eta. exact R0. }
  destruct (Z.ltb_spec sb eb) as [S1|S1]; cbn [andb].
  2:{ split; [|intros; discriminate]. unfold write_block. fold t fb sb eb. destruct (Z.eqb_spec t 0); [lia|].
      destruct (Z.ltb_spec sb 0); [lia|]. destruct (Z.gtb_spec sb eb); [|lia]. cbn [orb snd]. rewrite st_eta. exact R0. }
  destruct (Z.leb_spec eb t) as [S2|S2]; cbn [negb].
  2:{ split; [|intros; discriminate]. unfold write_block. fold t fb sb eb. destruct (Z.eqb_spec t 0); [lia|].
      destruct (Z.ltb_spec sb 0); [lia|]. destruct (Z.gtb_spec sb eb); [lia|]. destruct (Z.gtb_spec eb t); [|lia]. cbn [orb snd]. rewrite st_eta. exact R0. }
  rewrite <- (st_eta s) in AO. rewrite <- Edims in Dok.
  destruct (write_block_ok (s_h s) (s_d s) cs al b e data I1 Dok T0 S0 S1 S2 ltac:(fold fb sb eb; lia) ltac:(lia) AO) as (h' & d' & cs' & RW & I' & Ty' & Dm' & Ln & Cp & Rd).
  rewrite RW. cbn [snd fst]. fold fb sb eb t in Ln, Cp, Rd. destruct (grow_len I cs t En Ecap) as [G1 G2]. split.
  - exists cs'. cbn [s_h s_d i_ty i_dims i_n i_cap i_b].
    split; [exact I'|]. split; [congruence|]. split; [congruence|]. split; [rewrite Ln; exact G1|]. split; [rewrite Cp; exact G2|].
    split; [rewrite <- Edims; exact Dok|].
    assert (Lf : lenZ (firstn (Z.to_nat (eb - sb)) data) = eb - sb) by (apply lenZ_firstn_ge; lia).
    intros x v E. unfold i_total. cbn [i_ty i_dims]. rewrite <- ?Edims. change (fb * prodZ (h_dims (s_h s))) with t.
    assert (Rg : 0 <= x < t).
    { unfold over in E. rewrite Lf in E. destruct (Z.leb_spec sb x), (Z.ltb_spec x (sb + (eb - sb))); cbn [andb] in E; try lia;
      destruct (B x v E) as [Rg _]; rewrite <- Et in Rg; fold t in Rg; lia. }
    split; [exact Rg|]. apply Rd; [lia|]. eapply over_mono; [|exact E]. intros w Ew. apply (B x w Ew).
  - intros _. split; [reflexivity|]. cbn [i_cap]. rewrite <- G2.
    destruct (Z.eqb_spec (lenZ cs) 0); [lia|]. destruct (Z.gtb_spec t (cap_of cs)); lia.
Qed.

Lemma step_writestrided I s sel data al : refines I s -> safe_step cf fa s (WriteStrided sel data) = true ->
  alloc_ok fa s (WriteStrided sel data) al = true ->
  refines (istep I (WriteStrided sel data)) (snd (step cf fa s (WriteStrided sel data) al)) /\
  (forall ps, esz (i_ty I) <> 0 -> lenZ (i_dims I) <> 0 -> sel_positions (i_hdr I) sel = Ok ps -> lenZ data = lenZ ps * esz (i_ty I) ->
     fst (step cf fa s (WriteStrided sel data) al) = Ok AUnit /\ i_total I <= i_cap (istep I (WriteStrided sel data))).
Proof.
  intros R0 Sf AO. pose proof R0 as (cs & I1 & Ety & Edims & En & Ecap & Dok & B).
  cbn [safe_step] in Sf. unfold nchunks_ok in Sf. destruct (Z.ltb_spec (h_n (s_h s)) 65535); [|discriminate].
  pose proof (total_eq I s Ety Edims) as Et. cbn [step istep]. rewrite <- Ety, <- Edims.
  rewrite (sel_positions_dims (i_hdr I) (s_h s) sel) by (cbn [i_hdr h_dims]; congruence).
  set (fb := esz (h_ty (s_h s))) in *.
  assert (Unch : forall r d', write_strided cf fa (s_h s) (s_d s) al sel data = (r, d') -> d' = s_d s -> (forall h', r <> Ok h') ->
                 refines I (snd (match r with Ok h' => (Ok AUnit, mkSt h' d') | e => (@cast hdr ans e, mkSt (s_h s) d') end))).
  { intros r d' _ -> Hr. destruct r; try (exfalso; eapply Hr; reflexivity); cbn [snd]; rewrite st_eta; exact R0. }
  destruct (Z.eqb_spec fb 0) as [F0|F0].
  { cbn [orb]. split; [|intros; congruence]. unfold write_strided. fold fb. rewrite F0. cbn [Z.eqb orb snd]. rewrite st_eta. exact R0. }
  destruct (Z.eqb_spec (lenZ (h_dims (s_h s))) 0) as [K0|K0].
  { cbn [orb]. split; [|intros; congruence]. unfold write_strided. fold fb. destruct (Z.eqb_spec fb 0); [lia|]. rewrite K0. cbn [Z.eqb orb snd]. rewrite st_eta. exact R0. }
  cbn [orb].
  destruct (sel_positions (s_h s) sel) as [ps| | | | | | | | |] eqn:SP;
    try (split; [|intros; congruence]; unfold write_strided; fold fb; destruct (Z.eqb_spec fb 0); [lia|];
         destruct (Z.eqb_spec (lenZ (h_dims (s_h s))) 0); [lia|]; cbn [orb]; rewrite SP; cbn [bindO cast snd]; rewrite st_eta; exact R0).
  destruct (Z.eqb_spec (lenZ data) (lenZ ps * fb)) as [Ld|Ld]; cbn [negb].
  2:{ split; [|intros ps' _ _ E1 E2; inversion E1; subst; lia].
      unfold write_strided. fold fb. destruct (Z.eqb_spec fb 0); [lia|].
      destruct (Z.eqb_spec (lenZ (h_dims (s_h s))) 0); [lia|]. cbn [orb]. rewrite SP. cbn [bindO].
      destruct (Z.eqb_spec (lenZ data) (lenZ ps * fb)); [lia|]. cbn [negb snd]. rewrite st_eta. exact R0. }
  rewrite <- Edims in Dok.
  assert (T0 : total_bytes (s_h s) <> 0).
  { rewrite total_bytes_unfold. fold fb. unfold dims_ok in Dok. apply andb3 in Dok. destruct Dok as (_ & D2 & _).
    pose proof (prodZ_dims_pos _ D2). assert (0 <= fb) by (unfold fb; destruct (h_ty (s_h s)); cbn; lia). nia. }
  rewrite <- (st_eta s) in AO.
  destruct (write_strided_ok (s_h s) (s_d s) cs al sel ps data I1 Dok T0 K0 SP Ld ltac:(lia) AO) as (h' & d' & cs' & RW & I' & Ty' & Dm' & Ln & Cp & Rd).
  rewrite RW. cbn [snd fst]. set (t := total_bytes (s_h s)) in *. destruct (grow_len I cs t En Ecap) as [G1 G2].
  destruct (total_bounds (s_h s) Dok T0) as (Z0 & Tb & _). fold fb t in Z0, Tb.
  destruct (sel_positions_facts _ _ _ Dok SP) as [Srt Rng].
  assert (Pc : 0 <= cap_of cs) by (destruct I1 as (_ & C & _); apply sizes_pos_cap, (Forall_chunk_sizes (s_d s)); auto).
  split.
  - exists cs'. cbn [s_h s_d i_ty i_dims i_n i_cap i_b].
    split; [exact I'|]. split; [congruence|]. split; [congruence|]. split; [rewrite Ln; rewrite <- Et; exact G1|]. split; [rewrite Cp; rewrite <- Et; exact G2|].
    split; [first [exact Dok|rewrite <- Edims; exact Dok]|].
    intros x v E. unfold i_total. cbn [i_ty i_dims]. rewrite <- ?Edims. change (fb * prodZ (h_dims (s_h s))) with t.
    rewrite <- ?Et in E. fold t in E.
    set (z := if i_n I =? 0 then over (i_b I) 0 (zeros t) else if t >? i_cap I then over (i_b I) (i_cap I) (zeros (t - i_cap I)) else i_b I) in *.
    assert (Zr : forall w, z x = Some w -> 0 <= x < t).
    { intros w. unfold z. rewrite <- En, <- Ecap.
      destruct (Z.eqb_spec (lenZ cs) 0); [|destruct (Z.gtb_spec t (cap_of cs))]; unfold over; try rewrite lenZ_zeros by lia;
      repeat match goal with |- context [Z.leb ?u ?v] => destruct (Z.leb_spec u v) end;
      repeat match goal with |- context [Z.ltb ?u ?v] => destruct (Z.ltb_spec u v) end; cbn [andb]; intros Ew; try lia;
      destruct (B x w Ew) as [Rg _]; rewrite <- Et in Rg; fold t in Rg; lia. }
    assert (Rg : 0 <= x < t).
    { eapply (over_elems_range ps z fb data x v 0 t Z0); [|exact Zr|exact E].
      eapply Forall_impl; [|exact Rng]. intros p Hp. cbn beta in Hp. assert (Et2 : t = fb * prodZ (h_dims (s_h s))) by reflexivity. nia. }
    split; [exact Rg|]. rewrite Rd by lia. eapply over_elems_mono; [|exact E].
    intros w. unfold z. rewrite <- En, <- Ecap.
    destruct (Z.eqb_spec (lenZ cs) 0) as [L0|L0]; cbn [orb].
    + assert (cs = []) by (apply lenZ_0_nil; auto). subst cs. cbn [cap_of fold_right]. rewrite Z.sub_0_r.
      apply over_mono. intros u Eu. apply (B x u Eu).
    + destruct (Z.gtb_spec t (cap_of cs)).
      * apply over_mono. intros u Eu. apply (B x u Eu).
      * intros Ew. apply (B x w Ew).
  - intros ps' _ _ _ _. split; [reflexivity|]. cbn [i_cap]. rewrite <- Et. fold t. rewrite <- G2.
    destruct (Z.eqb_spec (lenZ cs) 0); [lia|]. destruct (Z.gtb_spec t (cap_of cs)); lia.
Qed.

(* ------------------------------------------------------------------ histories *)
Lemma step_refines I s o al : refines I s -> safe_step cf fa s o = true -> alloc_ok fa s o al = true ->
  buf_ok (s_h s) o = true -> refines (istep I o) (snd (step cf fa s o al)).
Proof.
  intros R Sf AO Bf. destruct o.
  - apply step_putdims; auto.
  - apply step_writeall; auto.
  - apply step_writeblock; auto.
  - apply step_writestrided; auto.
  - cbn [step istep]. destruct (read_all fa (s_h s) (s_d s)); cbn [snd]; exact R.
  - cbn [step istep]. destruct (read_block cf fa (s_h s) (s_d s) b_start b_end); cbn [snd]; exact R.
  - cbn [step istep]. destruct (read_strided fa (s_h s) (s_d s) sel); cbn [snd]; exact R.
Qed.

Lemma good_hist_cons s o al r : good_hist cf fa s ((o, al) :: r) = true ->
  safe_step cf fa s o = true /\ alloc_ok fa s o al = true /\ buf_ok (s_h s) o = true /\ good_hist cf fa (snd (step cf fa s o al)) r = true.
Proof.
  cbn [good_hist]. intros H. repeat (apply andb_true_iff in H; destruct H as [H ?]). auto.
Qed.

Lemma run_refines : forall hist I s, refines I s -> good_hist cf fa s hist = true ->
  refines (irun I (map fst hist)) (run cf fa s hist).
Proof.
  induction hist as [|[o al] r IH]; intros I s R G; [exact R|].
  apply good_hist_cons in G. destruct G as (Sf & AO & Bf & G). cbn [map fst irun run]. apply IH; auto.
  apply step_refines; auto.
Qed.

Lemma run_app s h1 h2 : run cf fa s (h1 ++ h2) = run cf fa (run cf fa s h1) h2.
Proof. revert s. induction h1 as [|[o al] r IH]; intros s; cbn [app run]; auto. Qed.
Lemma good_hist_app s h1 h2 : good_hist cf fa s (h1 ++ h2) = true ->
  good_hist cf fa s h1 = true /\ good_hist cf fa (run cf fa s h1) h2 = true.
Proof.
  revert s. induction h1 as [|[o al] r IH]; intros s G; cbn [app run good_hist] in *; [auto|].
  repeat (apply andb_true_iff in G; destruct G as [G ?]). destruct (IH _ H) as [A B]. rewrite G, H0, H1, H2, A. auto.
Qed.

(* ------------------------------------------------------------------ what the readers answer *)
Lemma agrees_map (f g : Z -> option Z) xs : (forall x v, In x xs -> f x = Some v -> g x = Some v) ->
  agrees (map f xs) (map g xs) = true.
Proof.
  induction xs as [|x r IH]; intros H; [reflexivity|]. cbn [map agrees]. rewrite IH by (intros; eapply H; eauto; right; auto).
  destruct (f x) as [v|] eqn:E; [|reflexivity]. rewrite (H x v (or_introl eq_refl) E). now rewrite Z.eqb_refl.
Qed.
Lemma agrees_app a1 a2 b1 b2 : agrees a1 b1 = true -> agrees a2 b2 = true -> agrees (a1 ++ a2) (b1 ++ b2) = true.
Proof.
  revert b1. induction a1 as [|x r IH]; intros [|y s] H1 H2; cbn [app agrees] in *; try discriminate; auto.
  apply andb_true_iff in H1. destruct H1 as [A B]. rewrite A. cbn [andb]. apply IH; auto.
Qed.
Lemma zr_in n : forall a x, In x (zr a n) -> a <= x < a + Z.of_nat n.
Proof. induction n as [|n IH]; intros a x H; [destruct H|]. destruct H as [<-|H]; [lia|]. apply IH in H. lia. Qed.

Lemma refines_ready I s cs : i_ready I = true -> Inv (s_h s) (s_d s) cs -> h_ty (s_h s) = i_ty I -> h_dims (s_h s) = i_dims I ->
  lenZ cs = i_n I -> cap_of cs = i_cap I -> dims_ok (i_dims I) = true -> ready (s_h s) cs.
Proof.
  intros Rd I1 Ety Edims En Ecap Dok. unfold i_ready in Rd. apply andb_true_iff in Rd. destruct Rd as [Rd R4]. apply andb3 in Rd. destruct Rd as (R1 & R2 & R3).
  pose proof (total_eq I s Ety Edims) as Et.
  destruct (Z.leb_spec 1 (i_n I)); [|discriminate]. destruct (Z.leb_spec (i_total I) (i_cap I)); [|discriminate].
  destruct (Z.eqb_spec (esz (i_ty I)) 0); [discriminate|]. destruct (Z.eqb_spec (lenZ (i_dims I)) 0); [discriminate|].
  split; [intros ->; cbn in En; lia|]. split; [|congruence]. rewrite Et, Ecap. split; [|lia].
  unfold i_total. unfold dims_ok in Dok. apply andb3 in Dok. destruct Dok as (_ & D2 & _). pose proof (prodZ_dims_pos _ D2).
  assert (0 <= esz (i_ty I)) by (destruct (i_ty I); cbn; lia). nia.
Qed.

Lemma reads_answer I s o exp : refines I s -> iread I o = Some exp ->
  exists l, step cf fa s o [] = (Ok (ABytes l), s) /\ agrees exp l = true.
Proof.
  intros (cs & I1 & Ety & Edims & En & Ecap & Dok & B) E. unfold iread in E.
  destruct (i_ready I) eqn:Rd; [|discriminate]. cbn [negb] in E.
  pose proof (refines_ready I s cs Rd I1 Ety Edims En Ecap Dok) as Rdy. pose proof (total_eq I s Ety Edims) as Et.
  assert (Mono : forall x v, i_b I x = Some v -> absb (s_d s) cs x = Some v) by (intros x v Ex; apply (B x v Ex)).
  destruct o; try discriminate.
  - inversion E; subst exp. cbn [step]. rewrite (read_all_ok (s_h s) (s_d s) cs I1 Rdy). eexists. split; [reflexivity|].
    rewrite Et. unfold lread. apply agrees_map. auto.
  - destruct (block_valid I b_start b_end) eqn:Bv; [|discriminate]. inversion E; subst exp. unfold block_valid in Bv.
    apply andb_true_iff in Bv. destruct Bv as [Bv V4]. apply andb3 in Bv. destruct Bv as (V1 & V2 & V3).
    rewrite <- Ety, <- Et in *.
    destruct (Z.leb_spec 0 (esz (h_ty (s_h s)) * (b_start - 1))); [|discriminate].
    destruct (Z.ltb_spec (esz (h_ty (s_h s)) * (b_start - 1)) (esz (h_ty (s_h s)) * b_end)); [|discriminate].
    destruct (Z.leb_spec (esz (h_ty (s_h s)) * b_end) (total_bytes (s_h s))); [|discriminate].
    cbn [step]. rewrite (read_block_ok (s_h s) (s_d s) cs b_start b_end I1 Rdy) by lia. eexists. split; [reflexivity|].
    unfold lread. apply agrees_map. auto.
  - rewrite (sel_positions_dims (i_hdr I) (s_h s) sel) in E by (cbn [i_hdr h_dims]; congruence).
    destruct (sel_positions (s_h s) sel) as [ps| | | | | | | | |] eqn:SP; try discriminate. inversion E; subst exp.
    rewrite <- Edims in Dok. cbn [step]. rewrite (read_strided_ok (s_h s) (s_d s) cs sel ps I1 Rdy Dok SP). eexists. split; [reflexivity|].
    rewrite <- Ety. clear -Mono. induction ps as [|p r IH]; [reflexivity|]. cbn [flat_map]. apply agrees_app; [|exact IH].
    unfold lread. apply agrees_map. auto.
Qed.

(* ------------------------------------------------------------------ a valid write is accepted and leaves room for all the bytes *)
Lemma write_accepted I s o al : refines I s -> safe_step cf fa s o = true -> alloc_ok fa s o al = true ->
  buf_ok (s_h s) o = true -> accepts I o = true ->
  fst (step cf fa s o al) = Ok AUnit /\
  exists cs, Inv (s_h (snd (step cf fa s o al))) (s_d (snd (step cf fa s o al))) cs /\
             total_bytes (s_h (snd (step cf fa s o al))) <= cap_of cs.
Proof.
  intros R Sf AO Bf Ac.
  assert (Fin : refines (istep I o) (snd (step cf fa s o al)) -> i_total (istep I o) <= i_cap (istep I o) ->
                exists cs, Inv (s_h (snd (step cf fa s o al))) (s_d (snd (step cf fa s o al))) cs /\
                           total_bytes (s_h (snd (step cf fa s o al))) <= cap_of cs).
  { intros (cs & I1 & Ety & Edims & En & Ecap & _) Le. exists cs. split; [exact I1|].
    rewrite (total_eq _ _ Ety Edims), Ecap. exact Le. }
  destruct o; try discriminate; cbn [accepts] in Ac.
  - destruct (step_writeall I s data al R Sf AO Bf) as [R' V]. destruct (Z.eqb_spec (i_total I) 0); [discriminate|].
    destruct (V ltac:(auto)) as [Ok' Le]. split; [exact Ok'|]. apply Fin; [exact R'|].
    cbn [istep] in *. destruct (Z.eqb_spec (i_total I) 0); [lia|]. exact Le.
  - destruct (step_writeblock I s b_start b_end data al R Sf AO Bf) as [R' V].
    destruct (V Ac) as [Ok' Le]. split; [exact Ok'|]. apply Fin; [exact R'|].
    cbn [istep] in *. rewrite Ac in *. cbn [negb] in *. exact Le.
  - destruct (step_writestrided I s sel data al R Sf AO) as [R' V].
    apply andb3 in Ac. destruct Ac as (A1 & A2 & A3).
    destruct (Z.eqb_spec (esz (i_ty I)) 0); [discriminate|]. destruct (Z.eqb_spec (lenZ (i_dims I)) 0); [discriminate|].
    destruct (sel_positions (i_hdr I) sel) as [ps| | | | | | | | |] eqn:SP; try discriminate.
    destruct (Z.eqb_spec (lenZ data) (lenZ ps * esz (i_ty I))); [|discriminate].
    destruct (V ps ltac:(auto) ltac:(auto) eq_refl ltac:(auto)) as [Ok' Le]. split; [exact Ok'|]. apply Fin; [exact R'|].
    cbn [istep] in *. destruct (Z.eqb_spec (esz (i_ty I)) 0); [lia|]. destruct (Z.eqb_spec (lenZ (i_dims I)) 0); [lia|]. cbn [orb] in *.
    rewrite SP in *. destruct (Z.eqb_spec (lenZ data) (lenZ ps * esz (i_ty I))); [|lia]. cbn [negb] in *. exact Le.
Qed.

(* ------------------------------------------------------------------ the lookup loop never runs past the table *)
Lemma lookup_total cs lk rel : sizes_pos cs -> lk_ok cs lk -> l_past lk <= rel < cap_of cs ->
  exists lk', lookup (l_rest lk) (l_cur lk) (l_past lk) (l_size lk) rel = Ok lk' /\ lk_ok cs lk' /\
    l_past lk' <= rel < l_past lk' + l_size lk' /\
    phys cs rel = Some (cstart (l_cur lk') + HDR + (rel - l_past lk')).
Proof.
  intros P (pre & E & Ep & Es) H. rewrite Ep, Es.
  destruct (lookup_ok cs P (l_rest lk) (l_cur lk) pre rel E ltac:(lia)) as (lk' & R & L' & B').
  exists lk'. split; [exact R|]. split; [exact L'|]. split; [exact B'|].
  destruct L' as (pre' & E' & Ep' & Es'). rewrite E' at 1. rewrite Ep'. apply phys_app.
  - unfold sizes_pos in *. rewrite E' in P. apply Forall_app in P. tauto.
  - lia.
Qed.

End Proofs.

(* ================================================================== the theorems about the code as it is (Cur) *)
Lemma fa_native_good : fa_good fa_native.
Proof. split; [reflexivity|left; reflexivity]. Qed.

(* every history: the store refines the plain byte array, and every read answers from it *)
Theorem chunks_read_after_write : forall fa hist, fa_good fa -> good_hist Cur fa st0 hist = true ->
  refines fa (irun i0 (map fst hist)) (run Cur fa st0 hist) /\
  (forall o exp, iread (irun i0 (map fst hist)) o = Some exp ->
     exists l, step Cur fa (run Cur fa st0 hist) o [] = (Ok (ABytes l), run Cur fa st0 hist) /\ agrees exp l = true).
Proof.
  intros fa hist G H.
  assert (R : refines fa (irun i0 (map fst hist)) (run Cur fa st0 hist)).
  { apply (run_refines Cur fa G eq_refl eq_refl eq_refl eq_refl hist i0 st0 (refines_init fa) H). }
  split; [exact R|]. intros o exp E. apply (reads_answer Cur fa G _ _ o exp R E).
Qed.

(* the invariant holds after every history; a write the specification accepts is accepted and leaves capacity for all
   the node's bytes *)
Theorem chunks_invariant : forall fa hist, fa_good fa -> good_hist Cur fa st0 hist = true ->
  (exists cs, Inv fa (s_h (run Cur fa st0 hist)) (s_d (run Cur fa st0 hist)) cs) /\
  (forall o al, good_hist Cur fa st0 (hist ++ [(o, al)]) = true -> accepts (irun i0 (map fst hist)) o = true ->
     fst (step Cur fa (run Cur fa st0 hist) o al) = Ok AUnit /\
     exists cs, Inv fa (s_h (run Cur fa st0 (hist ++ [(o, al)]))) (s_d (run Cur fa st0 (hist ++ [(o, al)]))) cs /\
                total_bytes (s_h (run Cur fa st0 (hist ++ [(o, al)]))) <= cap_of cs).
Proof.
  intros fa hist G H.
  pose proof (run_refines Cur fa G eq_refl eq_refl eq_refl eq_refl hist i0 st0 (refines_init fa) H) as R.
  split; [destruct R as (cs & I1 & _); exists cs; exact I1|].
  intros o al H2 Ac. apply good_hist_app in H2. destruct H2 as [_ H2]. apply good_hist_cons in H2. destruct H2 as (Sf & AO & Bf & _).
  rewrite run_app. cbn [run].
  apply (write_accepted Cur fa G eq_refl eq_refl eq_refl eq_refl _ _ o al R Sf AO Bf Ac).
Qed.

(* the strided writer's / reader's lookup: total, and it designates THE chunk and offset holding the byte *)
Theorem chunk_lookup_total : forall cs lk rel, sizes_pos cs -> lk_ok cs lk -> l_past lk <= rel < cap_of cs ->
  exists lk', lookup (l_rest lk) (l_cur lk) (l_past lk) (l_size lk) rel = Ok lk' /\ lk_ok cs lk' /\
    l_past lk' <= rel < l_past lk' + l_size lk' /\
    phys cs rel = Some (cstart (l_cur lk') + HDR + (rel - l_past lk')).
Proof. exact lookup_total. Qed.

(* INCOMPLETE_DATA is unreachable: after any good history, a strided read of a node that was written after it last grew
   succeeds for every valid selection *)
Theorem strided_read_never_incomplete : forall fa hist sel, fa_good fa -> good_hist Cur fa st0 hist = true ->
  i_ready (irun i0 (map fst hist)) = true ->
  (exists ps, sel_positions (i_hdr (irun i0 (map fst hist))) sel = Ok ps) ->
  exists l, step Cur fa (run Cur fa st0 hist) (ReadStrided sel) [] = (Ok (ABytes l), run Cur fa st0 hist).
Proof.
  intros fa hist sel G H Rd (ps & SP). destruct (chunks_read_after_write fa hist G H) as [_ A].
  destruct (A (ReadStrided sel) (flat_map (fun p => map (i_b (irun i0 (map fst hist))) (zrange (p * esz (i_ty (irun i0 (map fst hist)))) (esz (i_ty (irun i0 (map fst hist)))))) ps)) as (l & E & _).
  - unfold iread. rewrite Rd, SP. reflexivity.
  - exists l. exact E.
Qed.

(* ================================================================== historical witnesses, evaluated by the kernel *)
Definition bseq (n k : nat) : bytes := map (fun i => Z.of_nat ((i + k) mod 251)) (seq 0 n).
Definition runv (c : cfg) := run c fa_native st0.
Definition res_of (c : cfg) (h : list (op * list ptr)) (o : op) (al : list ptr) : out ans := fst (step c fa_native (runv c h) o al).

(* d6f9e64: 1024 x I4 written, grown to 1536 and block-written across the chunk boundary, shrunk to 9, strided write of
   element 9 *)
Definition wit_shrink : list (op * list ptr) :=
  [(PutDims I4 [1024], []); (WriteAll (bseq 4096 1), [(1, 0)]); (PutDims I4 [1536], []);
   (WriteBlock 1000 1100 (bseq 404 7), [(3, 100); (5, 0)]); (PutDims I4 [9], [])].
Definition wit_shrink_op : op := WriteStrided [(9, 9, 1)] [77; 0; 0; 0].

Lemma shrink_old_refuted :
  good_hist Cur fa_native st0 (wit_shrink ++ [(wit_shrink_op, [])]) = true /\
  res_of Before_d6f9e64 wit_shrink wit_shrink_op [] = Err E_FWRITE /\
  res_of Cur wit_shrink wit_shrink_op [] = Ok AUnit /\
  res_of Cur (wit_shrink ++ [(wit_shrink_op, [])]) (ReadStrided [(9, 9, 1)]) [] = Ok (ABytes [Some 77; Some 0; Some 0; Some 0]).
Proof. vm_compute. repeat split; reflexivity. Qed.

(* b21b08d: two chunks 400 + 800 bytes; rewritten as 150 elements; grown back; every element rewritten by a strided
   write; read_all *)
Definition wit_wall : list (op * list ptr) :=
  [(PutDims I4 [100], []); (WriteAll (bseq 400 1), [(1, 0)]); (PutDims I4 [300], []);
   (WriteAll (bseq 1200 2), [(2, 0); (3, 0)]); (PutDims I4 [150], []); (WriteAll (bseq 600 3), []);
   (PutDims I4 [300], []); (WriteStrided [(1, 300, 1)] (bseq 1200 4), [])].

Lemma wall_old_refuted :
  good_hist Cur fa_native st0 wit_wall = true /\
  res_of Before_b21b08d wit_wall ReadAll [] = Err E_TAG /\
  res_of Cur wit_wall ReadAll [] = Ok (ABytes (map Some (bseq 1200 4))).
Proof. vm_compute. repeat split; reflexivity. Qed.

(* 3f8f7e0: chunks 400 + 400 bytes, grown to 600 elements, block 301..350 written *)
Definition wit_wblk : list (op * list ptr) :=
  [(PutDims I4 [100], []); (WriteAll (bseq 400 1), [(1, 0)]); (PutDims I4 [200], []);
   (WriteAll (bseq 800 2), [(2, 0); (3, 0)]); (PutDims I4 [600], []);
   (WriteBlock 301 350 (bseq 200 5), [(4, 0); (5, 0)])].

Lemma wblock_old_refuted :
  good_hist Cur fa_native st0 wit_wblk = true /\
  res_of Before_3f8f7e0 wit_wblk (ReadBlock 301 350) [] = Ok (ABytes (repeat None 200)) /\
  res_of Before_3f8f7e0 wit_wblk (ReadBlock 201 250) [] = Ok (ABytes (map Some (bseq 200 5))) /\
  res_of Cur wit_wblk (ReadBlock 301 350) [] = Ok (ABytes (map Some (bseq 200 5))).
Proof. vm_compute. repeat split; reflexivity. Qed.

(* 5177c7b: a chunk of 5000 data bytes whose data area starts on a block boundary, zero-filled by the strided writer *)
Definition wit_zero_op : op := WriteStrided [(7, 7, 1)] [65].
Lemma zero_old_refuted :
  good_hist Cur fa_native st0 [(PutDims C1 [5000], []); (wit_zero_op, [(1, 4080)])] = true /\
  res_of Before_5177c7b [(PutDims C1 [5000], [])] wit_zero_op [(1, 4080)] = OOBR 9 /\
  res_of Cur [(PutDims C1 [5000], [])] wit_zero_op [(1, 4080)] = Ok AUnit /\
  res_of Cur [(PutDims C1 [5000], []); (wit_zero_op, [(1, 4080)])] (ReadStrided [(4990, 4999, 1)]) [] = Ok (ABytes (repeat (Some 0) 10)) /\
  (* before the repair, with the data elsewhere in the block: the far end of the chunk is not zeroed *)
  res_of Before_5177c7b [(PutDims C1 [5000], []); (wit_zero_op, [(1, 0)])] (ReadStrided [(4990, 4999, 1)]) [] = Ok (ABytes (repeat None 10)).
Proof. vm_compute. repeat split; reflexivity. Qed.

(* 5c54229: two chunks of 16 bytes, re-dimensioned to 88 bytes and not rewritten: read_block of the last element *)
Definition wit_rblk : list (op * list ptr) :=
  [(PutDims I8 [2], []); (WriteAll (bseq 16 1), [(1, 0)]); (PutDims I8 [4], []);
   (WriteBlock 4 4 (bseq 8 2), [(2, 0); (3, 0)]); (PutDims I8 [11], [])].
Lemma rblock_old_refuted :
  good_hist Cur fa_native st0 wit_rblk = true /\
  res_of Before_5c54229 wit_rblk (ReadBlock 11 11) [] = OOBW 7 /\
  res_of Cur wit_rblk (ReadBlock 11 11) [] = Err E_INCOMPLETE.
Proof. vm_compute. repeat split; reflexivity. Qed.

(* non-vacuity: a history that reaches three chunks, shrinks below the first one and grows again *)
Definition ex_hist : list (op * list ptr) :=
  [(PutDims I4 [10], []); (WriteAll (bseq 40 1), [(1, 0)]); (PutDims I4 [30], []);
   (WriteBlock 8 25 (bseq 72 2), [(1, 100); (1, 300)]); (PutDims I4 [50], []);
   (WriteStrided [(11, 50, 3)] (bseq 56 3), [(2, 0); (2, 500)]); (PutDims I4 [4], []);
   (WriteStrided [(1, 4, 1)] (bseq 16 4), []); (PutDims I4 [50], []); (WriteAll (bseq 200 5), [])].
Lemma ex_hist_good :
  good_hist Cur fa_native st0 ex_hist = true /\ i_ready (irun i0 (map fst ex_hist)) = true /\ i_n (irun i0 (map fst ex_hist)) = 3.
Proof. vm_compute. repeat split; reflexivity. Qed.
