(* Properties_C16.v -- independence of simultaneously open files and validity of handles, at the level of the
   ideal node database (sessions of TreeDB.v).  The real handle tables are tied by checks/C16.py: interleaved
   histories over 2..8 files on both back ends must give every file the answers of its own history run alone. *)
From Coq Require Import ZArith List.
From CgnsV Require Import TreeDB TreeDBProofs.
Import ListNotations.
Local Open Scope Z_scope.

(* any interleaving (opens and closes anywhere) gives each file the answers and the final content of its own
   events run alone *)
Theorem C16_interleaving_independent : forall evs s1 s2 f, view s1 f = view s2 f ->
  run_for s1 evs f = run_for s2 (only f evs) f /\
  view (final s1 evs) f = view (final s2 (only f evs)) f.
Proof. exact interleaving_independent. Qed.
Print Assumptions C16_interleaving_independent.

(* an event on one file leaves every other file's content, mode and back end as they were *)
Theorem C16_other_files_untouched : forall s f e g, f <> g -> view (fst (sstep s f e)) g = view s g.
Proof. exact sstep_other. Qed.
Print Assumptions C16_other_files_untouched.

(* a closed or never-opened handle is refused and nothing changes *)
Theorem C16_closed_handle_refused : forall s f o, get_mode (s_modes s) f = 0 -> step s f o = (s, RErr).
Proof. intros s f o H. unfold step. rewrite H. reflexivity. Qed.
Print Assumptions C16_closed_handle_refused.

Example C16_example :
  let evs := [(1, EOpen true 2 0); (2, EOpen true 2 1); (1, EOp (OCreate 0 1 [65])); (2, EOp (OCreate 0 1 [66]));
              (1, EClose); (2, EOp (ONChildren 0)); (1, EOp (ONChildren 0))] in
  run_for empty_session evs 2 = [ROk; ROk; RInt 1] /\ run_for empty_session evs 1 = [ROk; ROk; ROk; RErr].
Proof. vm_compute. split; reflexivity. Qed.
