(* Properties_C09.v -- copy, convert, compact and save-as preserve the whole tree; cgnsdiff is silent exactly on
   forests that are equal up to the order of children.  Exported statements about the model Copy.v (a transcription
   of recurse_nodes / cgio_copy_node / cgio_compute_data_size / cgio_copy_file / rewrite_file of src/cgns_io.c,
   cg_save_as, the tool drivers, and compare_data / compare_nodes of tools/cgnsdiff.c).
   [Cur] is the code of /repo now; [Old] the code before the repairs cb07d24, 3a1c414, 39f8525, e3072bd, kept only in
   the ..._old_refuted theorems, which record what those repairs changed.  Every positive theorem is about [Cur]
   (those stated for all [v] hold for both).
   Only statements closed by [exact]; Print Assumptions under each. *)
From Coq Require Import ZArith List Bool Permutation.
From Flocq Require Import IEEE754.Binary IEEE754.Bits.
From CgnsV Require Import ListX Copy CopyProofs.
Import ListNotations.
Local Open Scope Z_scope.

(* ---- the recursive copy, links kept (follow_links = 0) ------------------------------------------------------------------
   For EVERY source (any depth, fan-out, any of the documented types -- for an ADF destination also spelled with a
   lower-case first letter, which ADF keeps -- any size, empty data, internal and external links) whose nodes are well
   formed, every model budget and every resolution of links: the source's children -- all of them, in order, with
   label, type, dimensions, data and their own subtrees, links as links -- are appended to the output root.
   Into an empty file (ks0 = []) the result's forest IS the source's forest. *)
Theorem C09_copy_preserves : forall dst_hdf5 resolve fuel nm lbl dt dims data kids n l t d da ks0,
  forallb (tree_ok Cur dst_hdf5) kids = true -> forallb links_ok kids = true ->
  copy_file Cur dst_hdf5 resolve fuel false (Node nm lbl dt dims data kids) (Node n l t d da ks0) =
  Ok (Node n l t d da (ks0 ++ kids)).
Proof. exact (copy_file_nofollow Cur). Qed.
Print Assumptions C09_copy_preserves.

(* one node at depth > 0: label, type, dimension values and data of the output node become the source's *)
Theorem C09_copy_node_exact : forall h lbl dt dims data n l0 t0 d0 da0 ks,
  node_ok Cur h dt dims data = true ->
  copy_node Cur h lbl dt dims data (Node n l0 t0 d0 da0 ks) = Ok (Node n lbl dt dims data ks).
Proof. exact (copy_node_ok Cur). Qed.
Print Assumptions C09_copy_node_exact.

(* the node that the old code copied without its data (type "r8") is inside the domain of C09_copy_preserves now, was
   outside the old domain, and is copied exactly; into HDF5 (upper-case names only) it arrives as "R8" with its data *)
Theorem C09_lowercase_type_copied :
  forallb (tree_ok Cur false) (kids_of w_lower) = true /\ forallb (tree_ok Old false) (kids_of w_lower) = false /\
  copy_file Cur false (fun _ _ => None) 0 false w_lower adf_root = Ok (match adf_root with
                                                                       | Node n l t d da _ => Node n l t d da (kids_of w_lower)
                                                                       | x => x end).
Proof. exact lowercase_type_copied. Qed.
Print Assumptions C09_lowercase_type_copied.
Theorem C09_lowercase_type_to_hdf5 :
  exists out, copy_file Cur true (fun _ _ => None) 0 false w_lower hdf5_root = Ok out /\
              kids_of out = [Node [78;49] [76] [82;56] [2] [1;2;3;4;5;6;7;8;9;10;11;12;13;14;15;16] []].
Proof. exact lowercase_type_to_hdf5. Qed.
Print Assumptions C09_lowercase_type_to_hdf5.

(* a compound ADF type ("I4,R8", "R8[3]"; anything longer than two characters) on a node that has data: cgio_copy_node
   returns an error before it writes anything to the output node, and the copy as a whole reports the error *)
Theorem C09_compound_type_reports_error : forall h lbl dt dims data out,
  is_nil dims = false -> compute_data_size Cur (firstn 2 dt) dims <> 0 -> 2 < lenZ dt ->
  copy_node Cur h lbl dt dims data out = Err.
Proof. exact copy_node_compound_err. Qed.
Print Assumptions C09_compound_type_reports_error.
Theorem C09_compound_type_copy_fails :
  copy_file Cur false (fun _ _ => None) 0 false w_compound adf_root = Err /\
  copy_file Cur true (fun _ _ => None) 0 false w_compound hdf5_root = Err.
Proof. exact compound_type_reports_error. Qed.
Print Assumptions C09_compound_type_copy_fails.

(* ---- follow_links = 1: whenever the copy succeeds its result is the expansion of the source: proper nodes and
   internal links kept, every external link replaced by a node of the link's name that carries label, type,
   dimensions, data and the (expanded) children of the node the link resolves to *)
Theorem C09_copy_follow_expands : forall h resolve,
  (forall f p t, resolve f p = Some t -> tree_ok Cur h t = true) ->
  forall fuel nm lbl dt dims data kids n l t d da ks0 o,
  forallb (tree_ok Cur h) kids = true ->
  copy_file Cur h resolve fuel true (Node nm lbl dt dims data kids) (Node n l t d da ks0) = Ok o ->
  exists ks', o = Node n l t d da (ks0 ++ ks') /\ ExpandsL resolve kids ks'.
Proof. exact (copy_file_follow_sound Cur). Qed.
Print Assumptions C09_copy_follow_expands.

(* ---- the entry points ------------------------------------------------------------------------------------------------------ *)
(* cgio_copy_file / cg_save_as / cgnsconvert, links kept: the new file's forest is the source's, in both format directions *)
Theorem C09_save_as_convert_preserve : forall fuel w src dst dst_hdf5 r,
  get_file w src = Some r -> is_link r = false ->
  kids_ok Cur dst_hdf5 r = true -> forallb links_ok (kids_of r) = true ->
  cg_save_as Cur fuel w src dst dst_hdf5 false = Ok (set_file w dst (with_kids (new_root dst_hdf5) (kids_of r))) /\
  cgnsconvert Cur fuel w src dst dst_hdf5 false = Ok (set_file w dst (with_kids (new_root dst_hdf5) (kids_of r))).
Proof. exact (save_as_convert_preserve Cur). Qed.
Print Assumptions C09_save_as_convert_preserve.

Theorem C09_save_as_convert_expand : forall fuel w src dst h r w',
  get_file w src = Some r -> kids_ok Cur h r = true ->
  (forall f p t, resolve_in w src f p = Some t -> tree_ok Cur h t = true) ->
  cg_save_as Cur fuel w src dst h true = Ok w' ->
  exists ks', w' = set_file w dst (with_kids (new_root h) ks') /\ ExpandsL (resolve_in w src) (kids_of r) ks'.
Proof. exact (do_copy_file_follow Cur). Qed.
Print Assumptions C09_save_as_convert_expand.

(* rewrite_file = cgio_compress_file = compress-on-close = cgnscompress: the named file ends up holding the source's
   forest (same format), every other file of the world is untouched *)
Theorem C09_compress_preserves : forall fuel w src filename h r,
  get_file w src = Some r -> is_link r = false ->
  kids_ok Cur h r = true -> forallb links_ok (kids_of r) = true ->
  exists w', cgio_compress_file Cur fuel w src filename h = Ok w' /\
             get_file w' filename = Some (with_kids (new_root h) (kids_of r)) /\
             (forall g, bytes_eqb filename g = false -> get_file w' g = get_file w g).
Proof. exact (rewrite_file_preserves Cur). Qed.
Print Assumptions C09_compress_preserves.

(* ---- cgnsdiff -d, tolerance 0 --------------------------------------------------------------------------------------------------
   Whole files: for link-free forests of well-formed nodes (upper-case type names, the ones cgnsdiff's size table
   knows) with unique non-empty sibling names, of ANY depth: the output is empty IFF the two forests below the roots
   are equal up to the order of children (canon sorts every child list by name).  The roots' own name, label, type
   and data -- format specific -- are not compared. *)
Theorem C09_diff_silent_iff_equal_unordered : forall w1 w2 follow fuel f1 f2 r1 r2,
  get_file w1 f1 = Some r1 -> get_file w2 f2 = Some r2 ->
  link_free r1 = true -> link_free r2 = true ->
  names_unique r1 = true -> names_unique r2 = true ->
  names_nonempty r1 = true -> names_nonempty r2 = true ->
  kids_ok Old false r1 = true -> kids_ok Old false r2 = true ->
  (depth r1 <= fuel)%nat ->
  (cgnsdiff Cur true follow w1 w2 fuel f1 f2 = [] <->
   sort_nodes (map canon (kids_of r1)) = sort_nodes (map canon (kids_of r2))).
Proof. exact DiffP.cgnsdiff_silent_iff. Qed.
Print Assumptions C09_diff_silent_iff_equal_unordered.

(* in particular a file and any file with the same forest under another root (its ADF <-> HDF5 conversion) *)
Theorem C09_diff_cross_format_silent : forall w1 w2 follow fuel f1 f2 r1 r2,
  get_file w1 f1 = Some r1 -> get_file w2 f2 = Some r2 ->
  kids_of r2 = kids_of r1 ->
  link_free r1 = true -> link_free r2 = true -> names_unique r1 = true -> names_nonempty r1 = true ->
  kids_ok Old false r1 = true -> (depth r1 <= fuel)%nat ->
  cgnsdiff Cur true follow w1 w2 fuel f1 f2 = [].
Proof. exact DiffP.cgnsdiff_same_forest_silent. Qed.
Print Assumptions C09_diff_cross_format_silent.

(* the same at any pair of nodes other than the two roots (cgnsdiff with dataset arguments and -r) *)
Theorem C09_diff_sound_complete : forall w1 w2 follow fuel name1 cf1 t1 name2 cf2 t2,
  bytes_eqb name1 [47] && bytes_eqb name2 [47] = false ->
  link_free t1 = true -> link_free t2 = true ->
  names_unique t1 = true -> names_unique t2 = true ->
  names_nonempty t1 = true -> names_nonempty t2 = true ->
  tree_ok Old false t1 = true -> tree_ok Old false t2 = true ->
  (depth t1 <= fuel)%nat ->
  (compare_nodes Cur true follow w1 w2 fuel name1 cf1 t1 name2 cf2 t2 = [] <-> strip (canon t1) = strip (canon t2)).
Proof. exact DiffP.diff_empty_iff. Qed.
Print Assumptions C09_diff_sound_complete.

(* canon is a canonical form for "equal up to the order of children" *)
Theorem C09_canon_ignores_child_order : forall nm l dt d da ks1 ks2,
  Permutation ks1 ks2 -> nodup_names (map node_name ks1) = true ->
  canon (Node nm l dt d da ks1) = canon (Node nm l dt d da ks2).
Proof. exact DiffP.canon_perm. Qed.
Print Assumptions C09_canon_ignores_child_order.

Theorem C09_canon_idempotent : forall t, names_unique t = true -> canon (canon t) = canon t.
Proof. exact DiffP.canon_idem. Qed.
Print Assumptions C09_canon_idempotent.

(* ---- known findings: where the current code does NOT do what the property says (replayed on the library by the
   corpus of checks/C09.py; listed in KNOWN_FINDINGS.txt) ------------------------------------------------------------------------ *)
(* follow_links: an internal link inside an externally linked subtree is copied verbatim and then points elsewhere *)
Theorem C09_follow_nested_internal_link_refuted :
  exists w src dst w', get_file w src = Some fileA /\
    cgnsconvert Cur 4 w src dst false true = Ok w' /\
    full_view 8 w' dst (match get_file w' dst with Some r => r | None => fileA end) <> full_view 8 w src fileA /\
    full_view 8 w src fileA <> None.
Proof. exact follow_nested_internal_link_misdirected. Qed.
Print Assumptions C09_follow_nested_internal_link_refuted.

(* cgnsdiff never compares the file and path of a link *)
Theorem C09_diff_link_target_blind_refuted :
  exists w f1 f2 r1 r2, get_file w f1 = Some r1 /\ get_file w f2 = Some r2 /\
    cgnsdiff Cur true false w w 8 f1 f2 = [] /\
    strip (canon r1) <> strip (canon r2) /\
    full_view 8 w f1 r1 <> full_view 8 w f2 r2 /\ full_view 8 w f1 r1 <> None /\ full_view 8 w f2 r2 <> None.
Proof. exact diff_link_target_blind. Qed.
Print Assumptions C09_diff_link_target_blind_refuted.

(* outside the default options: with -t<tol> the comparison is fabs(a-b) > tol, false for a NaN -- 2.0 against NaN is
   silent (with the default tolerance 0 bytes are compared and the same pair IS reported).  Flocq's binary64. *)
Theorem C09_diff_tol_nan_refuted :
  exists d1 d2 tol, d1 <> d2 /\ Binary.is_nan 53 1024 (b64_of_bits d2) = true /\
                    compare_doubles tol [d1] [d2] = false /\
                    compare_data true [47;97] [47;97] (Node [97] [] [82;56] [1] [0;0;0;0;0;0;0;64] [])
                                                      (Node [97] [] [82;56] [1] [0;0;0;0;0;0;248;127] []) = [DData [47;97] [47;97]].
Proof. exact diff_tol_nan_blind. Qed.
Print Assumptions C09_diff_tol_nan_refuted.

(* ---- history: what the OLD code did on the witnesses of the repaired defects (regression inputs in corpus/C09) ------------------ *)
(* before cb07d24: an ADF node whose type string is lower case got size 0, the copy succeeded without the data *)
Theorem C09_unknown_type_data_dropped_old_refuted :
  exists src out, copy_file Old false (fun _ _ => None) 0 false src adf_root = Ok out /\
                  kids_of out = [Node [78;49] [76] [114;56] [2] [] []] /\ kids_of out <> kids_of src.
Proof. exact lowercase_type_data_dropped_old. Qed.
Print Assumptions C09_unknown_type_data_dropped_old_refuted.

(* before 3a1c414: a compound type -- the buffer was sized from the first two characters, the read overran it *)
Theorem C09_compound_type_overflow_old_refuted :
  exists src, copy_file Old false (fun _ _ => None) 0 false src adf_root = Overflow.
Proof. exact compound_type_overflow_old. Qed.
Print Assumptions C09_compound_type_overflow_old_refuted.

(* before 39f8525: cgnsdiff on an ADF file and its exact HDF5 conversion reported the roots' labels; now silent *)
Theorem C09_diff_cross_format_root_label_old_refuted :
  exists w src dst w', get_file w src = Some (with_kids adf_root [Node [78] [76] I4 [1] [7;0;0;0] []]) /\
    cgnsconvert Cur 4 w src dst true false = Ok w' /\
    (forall r r', get_file w' src = Some r -> get_file w' dst = Some r' -> kids_of r' = kids_of r) /\
    cgnsdiff Old true false w' w' 8 src dst = [DLabel [47] [47]] /\
    cgnsdiff Cur true false w' w' 8 src dst = [].
Proof. exact diff_cross_format_root_label_old. Qed.
Print Assumptions C09_diff_cross_format_root_label_old_refuted.

(* before e3072bd: a 40-deep chain of 32-character names, copied exactly, overflowed cgnsdiff's 1024-byte path
   buffers; now the pair is compared to the bottom and found equal *)
Theorem C09_diff_deep_path_overflow_old_refuted :
  exists w f r, get_file w f = Some r /\ link_free r = true /\ names_unique r = true /\ tree_ok Cur true r = true /\
    copy_file Cur false (fun _ _ => None) 0 false r adf_root = Ok r /\
    has_overflow (cgnsdiff Old true false w w 64 f f) = true /\
    cgnsdiff Cur true false w w 64 f f = [].
Proof. exact diff_deep_path_overflow_old. Qed.
Print Assumptions C09_diff_deep_path_overflow_old_refuted.

(* ---- non-vacuity ---------------------------------------------------------------------------------------------------------------------- *)
Example C09_hypotheses_satisfiable_copy :
  kids_ok Cur false sample_tree = true /\ forallb links_ok (kids_of sample_tree) = true /\ names_unique sample_tree = true /\
  kids_ok Old false sample_tree = false.
Proof. exact sample_ok. Qed.
Example C09_hypotheses_satisfiable_diff :
  link_free sample_plain = true /\ names_unique sample_plain = true /\ names_nonempty sample_plain = true /\
  kids_ok Old false sample_plain = true /\ (depth sample_plain <= 8)%nat /\
  canon sample_plain <> sample_plain_permuted /\
  kids_of (canon sample_plain) = kids_of (canon sample_plain_permuted).
Proof. exact sample_plain_ok. Qed.
Example C09_follow_succeeds_somewhere :
  exists w', cgnsconvert Cur 4 worldAB [65] [67] false true = Ok w'.
Proof. exact follow_succeeds_somewhere. Qed.
(* [depth] is carried exactly as recurse_nodes carries it (incremented once per copied sibling, not per level) *)
Example C09_depth_counts_siblings :
  let rec_depth := fun (k : node) (c : node) (d : Z) => Ok (Node (node_name c) [] [] [d] [] []) in
  kids_loop rec_depth (fun _ _ c d => Ok (Node (node_name c) [] [] [d] [] [])) true
    [Node [97] [] s_MT [] [] []; LinkNode [108] [] [47;97]; Node [98] [] s_MT [] [] []; LinkNode [109] [66] [47;88];
     Node [99] [] s_MT [] [] []]
    (Node [] [] s_MT [] [] []) 5 =
  Ok (Node [] [] s_MT [] []
        [Node [97] [] [] [6] [] []; LinkNode [108] [] [47;97]; Node [98] [] [] [7] [] []; Node [109] [] [] [8] [] [];
         Node [99] [] [] [9] [] []]).
Proof. exact depth_counts_siblings. Qed.
