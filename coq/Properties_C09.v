(* Properties_C09.v -- copy, convert, compact and save-as preserve the whole tree; cgnsdiff is silent exactly on
   forests that are equal up to the order of children.  Exported statements about the model Copy.v (a transcription
   of recurse_nodes / cgio_copy_node / cgio_compute_data_size / cgio_copy_file / rewrite_file of src/cgns_io.c,
   cg_save_as, the tool drivers, and compare_data / compare_nodes of tools/cgnsdiff.c).
   [Cur] is the code of /repo now; [Old] the code before the repairs cb07d24, 3a1c414, 39f8525, e3072bd, kept only in
   the ..._old_refuted theorems, which record what those repairs changed.  Every positive theorem is about [Cur]
   (those stated for all [v] hold for both).
   Only statements closed by [exact]; Print Assumptions under each. *)
From Coq Require Import ZArith List Bool Permutation.
From Flocq Require Import IEEE754.Binary IEEE754.Bits.
From CgnsV Require Import ListX Copy CopyProofs.
Import ListNotations.
Local Open Scope Z_scope.

(* ---- the recursive copy, links kept (follow_links = 0) ------------------------------------------------------------------
   For EVERY source (any depth, fan-out, any of the documented types -- for an ADF destination also spelled with a
   lower-case first letter, which ADF keeps -- any size, empty data, internal and external links) whose nodes are well
   formed, every model budget and every resolution of links: the source's children -- all of them, in order, with
   label, type, dimensions, data and their own subtrees, links as links -- are appended to the output root.
   Into an empty file (ks0 = []) the result's forest IS the source's forest. *)
Theorem C09_copy_preserves : forall dst_hdf5 resolve fuel nm lbl dt dims data kids n l t d da ks0,
  forallb (tree_ok Cur dst_hdf5) kids = true -> forallb links_ok kids = true ->
  copy_file Cur dst_hdf5 resolve fuel false (Node nm lbl dt dims data kids) (Node n l t d da ks0) =
  Ok (Node n l t d da (ks0 ++ kids)).
Proof. exact (copy_file_nofollow Cur). Qed.
Print Assumptions C09_copy_preserves.

(* one node at depth > 0: label, type, dimension values and data of the output node become the source's *)
Theorem C09_copy_node_exact : forall h lbl dt dims data n l0 t0 d0 da0 ks,
  node_ok Cur h dt dims data = true ->
  copy_node Cur h lbl dt dims data (Node n l0 t0 d0 da0 ks) = Ok (Node n lbl dt dims data ks).
Proof. exact (copy_node_ok Cur). Qed.
Print Assumptions C09_copy_node_exact.

(* the node that the old code copied without its data (type "r8") is inside the domain of C09_copy_preserves now, was
   outside the old domain, and is copied exactly; into HDF5 (upper-case names only) it arrives as "R8" with its data *)
Theorem C09_lowercase_type_copied :
  forallb (tree_ok Cur false) (kids_of w_lower) = true /\ forallb (tree_ok Old false) (kids_of w_lower) = false /\
  copy_file Cur false (fun _ _ => None) 0 false w_lower adf_root = Ok (match adf_root with
                                                                       | Node n l t d da _ => Node n l t d da (kids_of w_lower)
                                                                       | x => x end).
Proof. exact lowercase_type_copied. Qed.
Print Assumptions C09_lowercase_type_copied.
Theorem C09_lowercase_type_to_hdf5 :
  exists out, copy_file Cur true (fun _ _ => None) 0 false w_lower hdf5_root = Ok out /\
              kids_of out = [Node [78;49] [76] [82;56] [2] [1;2;3;4;5;6;7;8;9;10;11;12;13;14;15;16] []].
Proof. exact lowercase_type_to_hdf5. Qed.
Print Assumptions C09_lowercase_type_to_hdf5.

(* a compound ADF type ("I4,R8", "R8[3]"; anything longer than two characters) on a node that has data: cgio_copy_node
   returns an error before it writes anything to the output node, and the copy as a whole reports the error *)
Theorem C09_compound_type_reports_error : forall h lbl dt dims data out,
  is_nil dims = false -> compute_data_size Cur (firstn 2 dt) dims <> 0 -> 2 < lenZ dt ->
  copy_node Cur h lbl dt dims data out = Err.
Proof. exact copy_node_compound_err. Qed.
Print Assumptions C09_compound_type_reports_error.
Theorem C09_compound_type_copy_fails :
  copy_file Cur false (fun _ _ => None) 0 false w_compound adf_root = Err /\
  copy_file Cur true (fun _ _ => None) 0 false w_compound hdf5_root = Err.
Proof. exact compound_type_reports_error. Qed.
Print Assumptions C09_compound_type_copy_fails.

(* ---- follow_links = 1: whenever the copy succeeds its result is the expansion of the source: proper nodes and
   internal links kept, every external link replaced by a node of the link's name that carries label, type,
   dimensions, data and the (expanded) children of the node the link resolves to *)
Theorem C09_copy_follow_expands : forall h resolve,
  (forall f p t, resolve f p = Some t -> tree_ok Cur h t = true) ->
  forall fuel nm lbl dt dims data kids n l t d da ks0 o,
  forallb (tree_ok Cur h) kids = true ->
  copy_file Cur h resolve fuel true (Node nm lbl dt dims data kids) (Node n l t d da ks0) = Ok o ->
  exists ks', o = Node n l t d da (ks0 ++ ks') /\ ExpandsL resolve kids ks'.
Proof. exact (copy_file_follow_sound Cur). Qed.
Print Assumptions C09_copy_follow_expands.

(* ---- the entry points ------------------------------------------------------------------------------------------------------ *)
(* cgio_copy_file / cg_save_as / cgnsconvert, links kept: the new file's forest is the source's, in both format directions *)
Theorem C09_save_as_convert_preserve : forall fuel w src dst dst_hdf5 r,
  get_file w src = Some r -> is_link r = false ->
  kids_ok Cur dst_hdf5 r = true -> forallb links_ok (kids_of r) = true ->
  cg_save_as Cur fuel w src dst dst_hdf5 false = Ok (set_file w dst (with_kids (new_root dst_hdf5) (kids_of r))) /\
  cgnsconvert Cur fuel w src dst dst_hdf5 false = Ok (set_file w dst (with_kids (new_root dst_hdf5) (kids_of r))).
Proof. exact (save_as_convert_preserve Cur). Qed.
Print Assumptions C09_save_as_convert_preserve.

Theorem C09_save_as_convert_expand : forall fuel w src dst h r w',
  get_file w src = Some r -> kids_ok Cur h r = true ->
  (forall f p t, resolve_in w src f p = Some t -> tree_ok Cur h t = true) ->
  cg_save_as Cur fuel w src dst h true = Ok w' ->
  exists ks', w' = set_file w dst (with_kids (new_root h) ks') /\ ExpandsL (resolve_in w src) (kids_of r) ks'.
Proof. exact (do_copy_file_follow Cur). Qed.
Print Assumptions C09_save_as_convert_expand.

(* rewrite_file = cgio_compress_file = compress-on-close = cgnscompress: the named file ends up holding the source's
   forest (same format), every other file of the world is untouched *)
Theorem C09_compress_preserves : forall fuel w src filename h r,
  get_file w src = Some r -> is_link r = false ->
  kids_ok Cur h r = true -> forallb links_ok (kids_of r) = true ->
  exists w', cgio_compress_file Cur fuel w src filename h = Ok w' /\
             get_file w' filename = Some (with_kids (new_root h) (kids_of r)) /\
             (forall g, bytes_eqb filename g = false -> get_file w' g = get_file w g).
Proof. exact (rewrite_file_preserves Cur). Qed.
Print Assumptions C09_compress_preserves.

(* ---- cgnsdiff: every option set ------------------------------------------------------------------------------------------------
   [o : dopts] carries -d -f -c -i and "recurse" (-r, always on without dataset arguments); -q sets a variable nobody
   reads.  K o = find_key o = copy_name (-c folds case, -i drops white space) is the key names are compared by. *)

(* (1) the two uses of the normalisation -- the qsort comparator and find_name -- agree.  This is the obligation a
   comparator / search-key mismatch breaks: the theorems below need the children sorted by the key find_name uses *)
Theorem C09_diff_sort_and_search_keys_agree : forall o nm, sort_key o nm = find_key o nm.
Proof. exact DiffP.keys_agree. Qed.
Print Assumptions C09_diff_sort_and_search_keys_agree.

(* (2) find_name as written (first probe, last probe, bisection) returns the position a scan finds -- for EVERY list that
   is strictly sorted BY THE SAME KEY, every name, every key function ... *)
Theorem C09_diff_bisection_correct_when_sorted_by_search_key : forall key m l name,
  l <> [] -> DiffP.ksorted key l -> find_name m key name l = find_scan key name l.
Proof. exact DiffP.find_name_correct. Qed.
Print Assumptions C09_diff_bisection_correct_when_sorted_by_search_key.
Theorem C09_diff_sort_sorts_by_its_key : forall key l, NoDup (map key l) -> DiffP.ksorted key (sort_names_by key l).
Proof. exact DiffP.sort_names_by_sorted. Qed.
Print Assumptions C09_diff_sort_sorts_by_its_key.
(* ... and not otherwise: "B D a c e" sorted by the raw names, searched with the case-folded key, loses "D" *)
Theorem C09_diff_bisection_key_mismatch_refuted :
  exists l name, let raw := fun x : bytes => x in let fold := copy_name true false in
    NoDup (map fold l) /\ In name l /\
    find_name MCur fold name (sort_names_by raw l) <> find_scan fold name (sort_names_by raw l).
Proof. exact DiffP.find_name_key_mismatch_refuted. Qed.
Print Assumptions C09_diff_bisection_key_mismatch_refuted.

(* (3) the matching loop pairs EXACTLY the children whose keys are equal, reports exactly the others as < / >, and never
   leaves the arrays -- for every pair of child lists whose keys are distinct within each list ([rec] just records the
   pair it is called with) *)
Theorem C09_diff_matching_exact : forall key nm1 nm2 c1 c2,
  NoDup (map key c1) -> NoDup (map key c2) ->
  let out := diff_loop MCur false key (fun p q => [DData p q]) (sort_names_by key c2) nm1 nm2 (sort_names_by key c1) 0 in
  (forall p q, In (DData p q) out <-> In p c1 /\ In q c2 /\ key p = key q) /\
  (forall x, In (DLeft x) out <-> exists p, x = slash nm1 p /\ In p c1 /\ ~ In (key p) (map key c2)) /\
  (forall x, In (DRight x) out <-> exists q, x = slash nm2 q /\ In q c2 /\ ~ In (key q) (map key c1)) /\
  ~ In DOutOfBounds out /\ ~ In DPathOverflow out.
Proof. exact DiffP.matching_exact. Qed.
Print Assumptions C09_diff_matching_exact.

(* (4) whole files, any option set without an active tolerance (no -t, or a tolerance that is not > 0; for -t see (6)): for link-free forests of well-formed nodes (upper-case type names) whose sibling
   KEYS are distinct and whose names are not empty, of ANY depth: the output is empty IFF the two forests are equal up
   to the order of children, up to the normalisation of names, and (without -d) up to the data. *)
Theorem C09_diff_silent_iff_equal_unordered : forall o w1 w2 fuel f1 f2 r1 r2,
  d_recurse o = true -> tol_active (d_tol o) = false ->
  get_file w1 f1 = Some r1 -> get_file w2 f2 = Some r2 ->
  link_free r1 = true -> link_free r2 = true ->
  keys_unique (find_key o) r1 = true -> keys_unique (find_key o) r2 = true ->
  names_nonempty r1 = true -> names_nonempty r2 = true ->
  kids_ok Old false r1 = true -> kids_ok Old false r2 = true ->
  (depth r1 <= fuel)%nat ->
  (cgnsdiff Cur MCur o w1 w2 fuel f1 f2 = [] <->
   sort_nodes (map (canon_by (find_key o) (d_data o)) (kids_of r1)) =
   sort_nodes (map (canon_by (find_key o) (d_data o)) (kids_of r2))).
Proof. exact DiffP.cgnsdiff_silent_iff. Qed.
Print Assumptions C09_diff_silent_iff_equal_unordered.

(* nothing is reported for identical forests (a file and its copy, its ADF <-> HDF5 conversion) ... *)
Theorem C09_diff_cross_format_silent : forall o w1 w2 fuel f1 f2 r1 r2,
  d_recurse o = true -> tol_active (d_tol o) = false -> get_file w1 f1 = Some r1 -> get_file w2 f2 = Some r2 -> kids_of r2 = kids_of r1 ->
  link_free r1 = true -> link_free r2 = true -> keys_unique (find_key o) r1 = true -> names_nonempty r1 = true ->
  kids_ok Old false r1 = true -> (depth r1 <= fuel)%nat ->
  cgnsdiff Cur MCur o w1 w2 fuel f1 f2 = [].
Proof. exact DiffP.cgnsdiff_same_forest_silent. Qed.
Print Assumptions C09_diff_cross_format_silent.

(* ... and every difference (so every one-edit difference of a copy) is reported *)
Theorem C09_diff_reports_every_difference : forall o w1 w2 fuel f1 f2 r1 r2,
  d_recurse o = true -> tol_active (d_tol o) = false ->
  get_file w1 f1 = Some r1 -> get_file w2 f2 = Some r2 ->
  link_free r1 = true -> link_free r2 = true ->
  keys_unique (find_key o) r1 = true -> keys_unique (find_key o) r2 = true ->
  names_nonempty r1 = true -> names_nonempty r2 = true ->
  kids_ok Old false r1 = true -> kids_ok Old false r2 = true ->
  (depth r1 <= fuel)%nat ->
  sort_nodes (map (canon_by (find_key o) (d_data o)) (kids_of r1)) <>
  sort_nodes (map (canon_by (find_key o) (d_data o)) (kids_of r2)) ->
  cgnsdiff Cur MCur o w1 w2 fuel f1 f2 <> [].
Proof. exact DiffP.cgnsdiff_reports_difference. Qed.
Print Assumptions C09_diff_reports_every_difference.

(* (5) the point of the repair 180fd8e -- NO hypothesis on the keys: a forest compared with itself (a file and its copy) is
   silent for every option set, also when sibling names collide after normalisation, and the loop never reads
   children2 past its end, for ANY two lists *)
Theorem C09_diff_self_compare_silent : forall o w1 w2 fuel f1 f2 r1 r2,
  get_file w1 f1 = Some r1 -> get_file w2 f2 = Some r2 -> kids_of r2 = kids_of r1 ->
  link_free r1 = true -> link_free r2 = true -> (depth r1 <= fuel)%nat ->
  cgnsdiff Cur MCur o w1 w2 fuel f1 f2 = [].
Proof. exact DiffP.cgnsdiff_self_silent. Qed.
Print Assumptions C09_diff_self_compare_silent.
Theorem C09_diff_self_compare_silent_at_any_node : forall o w1 w2 fuel name1 cf1 name2 cf2 t,
  link_free t = true -> (depth t <= fuel)%nat ->
  compare_nodes Cur MCur o w1 w2 fuel name1 cf1 t name2 cf2 t = [].
Proof. exact DiffP.self_compare_silent. Qed.
Print Assumptions C09_diff_self_compare_silent_at_any_node.
Theorem C09_diff_loop_stays_in_bounds : forall chk key rec c2 nm1 nm2 l1 n2,
  0 <= n2 ->
  ~ In DOutOfBounds (diff_loop MCur chk key
                       (fun p q => filter (fun d => match d with DOutOfBounds => false | _ => true end) (rec p q))
                       c2 nm1 nm2 l1 n2).
Proof. exact DiffP.diff_loop_cur_in_bounds. Qed.
Print Assumptions C09_diff_loop_stays_in_bounds.

(* (6) -t<tol> as compare_data implements it: with tol > 0.0, R4 and X4 data are compared as floats (so the two components
   of a complex value are two values), R8 and X8 as doubles, each pair by fabs (a - b) > tol in IEEE arithmetic; every
   other type, and every tolerance that is not > 0, by bytes.  [values n da] are the n-byte values the C code indexes. *)
Theorem C09_diff_tolerance_silent_iff : forall tol n1 n2 a1 l1 t1 d1 da1 k1 a2 l2 t2 d2 da2 k2,
  node_ok Old false t1 d1 da1 = true -> node_ok Old false t2 d2 da2 = true ->
  (compare_data true tol n1 n2 (Node a1 l1 t1 d1 da1 k1) (Node a2 l2 t2 d2 da2 k2) = [] <->
   l1 = l2 /\ t1 = t2 /\ d1 = d2 /\ DiffP.data_within tol t1 da1 da2).
Proof. exact DiffP.compare_data_tol_iff. Qed.
Print Assumptions C09_diff_tolerance_silent_iff.
(* ONE value -- one component of one element -- beyond the tolerance is reported, for every numeric type *)
Theorem C09_diff_one_value_beyond_tolerance_reported : forall tol n1 n2 a1 a2 l t d da1 da2 k1 k2 x y,
  node_ok Old false t d da1 = true -> node_ok Old false t d da2 = true ->
  tol_active tol = true ->
  (diff_num_size t = 4 /\ In (x, y) (combine (values 4 da1) (values 4 da2)) /\ exceeds_tol32 x y tol = true \/
   diff_num_size t = 8 /\ In (x, y) (combine (values 8 da1) (values 8 da2)) /\ exceeds_tol64 x y tol = true) ->
  compare_data true tol n1 n2 (Node a1 l t d da1 k1) (Node a2 l t d da2 k2) = [DData n1 n2].
Proof. exact DiffP.one_value_beyond_tolerance_reported. Qed.
Print Assumptions C09_diff_one_value_beyond_tolerance_reported.
Theorem C09_diff_values_compared_one_by_one : forall n a rest,
  (0 < n)%nat -> length a = n -> values n (a ++ rest) = le_val a :: values n rest.
Proof. exact DiffP.values_cons. Qed.
Print Assumptions C09_diff_values_compared_one_by_one.
Theorem C09_diff_compare_floats_spec : forall tol l1 l2,
  compare_floats tol l1 l2 = true <-> exists x y, In (x, y) (combine l1 l2) /\ exceeds_tol32 x y tol = true.
Proof. exact DiffP.compare_floats_true_iff. Qed.
Print Assumptions C09_diff_compare_floats_spec.
Theorem C09_diff_compare_doubles_spec : forall tol l1 l2,
  compare_doubles tol l1 l2 = true <-> exists x y, In (x, y) (combine l1 l2) /\ exceeds_tol64 x y tol = true.
Proof. exact DiffP.compare_doubles_true_iff. Qed.
Print Assumptions C09_diff_compare_doubles_spec.
(* -t means nothing for integers and characters *)
Theorem C09_diff_tolerance_ignored_for_non_numeric : forall dd tol n1 n2 a1 l1 t1 d1 da1 k1 y,
  diff_num_size t1 = 0 ->
  compare_data dd tol n1 n2 (Node a1 l1 t1 d1 da1 k1) y = compare_data dd 0 n1 n2 (Node a1 l1 t1 d1 da1 k1) y.
Proof. exact DiffP.tol_ignored_for_non_numeric. Qed.
Print Assumptions C09_diff_tolerance_ignored_for_non_numeric.
(* what comparing complex floats as doubles would lose: (1.0f, 1e-30f) against (1.5f, 1e-30f) at tolerance 0.1 *)
Theorem C09_diff_x4_as_doubles_refuted :
  let da1 := [0;0;128;63; 96;66;162;13; 0;0;64;64; 0;0;128;192] in
  let da2 := [0;0;192;63; 96;66;162;13; 0;0;64;64; 0;0;128;192] in
  compare_floats 0x3FB999999999999A (values 4 da1) (values 4 da2) = true /\
  compare_doubles 0x3FB999999999999A (values 8 da1) (values 8 da2) = false.
Proof. exact DiffP.x4_as_doubles_misses_real_part. Qed.
Print Assumptions C09_diff_x4_as_doubles_refuted.

(* the same at any pair of nodes other than the two roots (dataset arguments with -r) *)
Theorem C09_diff_sound_complete : forall o w1 w2 fuel name1 cf1 t1 name2 cf2 t2,
  d_recurse o = true -> tol_active (d_tol o) = false ->
  bytes_eqb name1 [47] && bytes_eqb name2 [47] = false ->
  link_free t1 = true -> link_free t2 = true ->
  keys_unique (find_key o) t1 = true -> keys_unique (find_key o) t2 = true ->
  names_nonempty t1 = true -> names_nonempty t2 = true ->
  tree_ok Old false t1 = true -> tree_ok Old false t2 = true ->
  (depth t1 <= fuel)%nat ->
  (compare_nodes Cur MCur o w1 w2 fuel name1 cf1 t1 name2 cf2 t2 = [] <->
   strip (canon_by (find_key o) (d_data o) t1) = strip (canon_by (find_key o) (d_data o) t2)).
Proof. exact DiffP.diff_empty_iff. Qed.
Print Assumptions C09_diff_sound_complete.

(* dataset arguments without -r: the two named nodes' own label / type / dimensions / data and nothing else *)
Theorem C09_diff_without_recurse : forall o w1 w2 f name1 cf1 a1 l1 t1 d1 da1 ks1 name2 cf2 a2 l2 t2 d2 da2 ks2,
  d_recurse o = false ->
  compare_nodes Cur MCur o w1 w2 (S f) name1 cf1 (Node a1 l1 t1 d1 da1 ks1) name2 cf2 (Node a2 l2 t2 d2 da2 ks2) =
  if bytes_eqb name1 [47] && bytes_eqb name2 [47] then []
  else compare_data (d_data o) (d_tol o) name1 name2 (Node a1 l1 t1 d1 da1 ks1) (Node a2 l2 t2 d2 da2 ks2).
Proof. exact DiffP.no_recurse_only_data. Qed.
Print Assumptions C09_diff_without_recurse.

(* canon_by is a canonical form for "equal up to the order of children" (and the normalisation [key]) *)
Theorem C09_canon_ignores_child_order : forall key dd nm l dt d da ks1 ks2,
  Permutation ks1 ks2 -> nodup_names (map (fun k => key (node_name k)) ks1) = true ->
  canon_by key dd (Node nm l dt d da ks1) = canon_by key dd (Node nm l dt d da ks2).
Proof. exact DiffP.canon_by_perm. Qed.
Print Assumptions C09_canon_ignores_child_order.

Theorem C09_canon_idempotent : forall t, names_unique t = true -> canon (canon t) = canon t.
Proof. exact DiffP.canon_idem. Qed.
Print Assumptions C09_canon_idempotent.

(* ---- known findings: where the current code does NOT do what the property says (replayed on the library by the
   corpus of checks/C09.py; listed in KNOWN_FINDINGS.txt) ------------------------------------------------------------------------ *)
(* follow_links: an internal link inside an externally linked subtree is copied verbatim and then points elsewhere *)
Theorem C09_follow_nested_internal_link_refuted :
  exists w src dst w', get_file w src = Some fileA /\
    cgnsconvert Cur 4 w src dst false true = Ok w' /\
    full_view 8 w' dst (match get_file w' dst with Some r => r | None => fileA end) <> full_view 8 w src fileA /\
    full_view 8 w src fileA <> None.
Proof. exact follow_nested_internal_link_misdirected. Qed.
Print Assumptions C09_follow_nested_internal_link_refuted.

(* cgnsdiff never compares the file and path of a link *)
Theorem C09_diff_link_target_blind_refuted :
  exists w f1 f2 r1 r2, get_file w f1 = Some r1 /\ get_file w f2 = Some r2 /\
    cgnsdiff Cur MCur o_d w w 8 f1 f2 = [] /\
    strip (canon r1) <> strip (canon r2) /\
    full_view 8 w f1 r1 <> full_view 8 w f2 r2 /\ full_view 8 w f1 r1 <> None /\ full_view 8 w f2 r2 <> None.
Proof. exact diff_link_target_blind. Qed.
Print Assumptions C09_diff_link_target_blind_refuted.

(* the same known finding seen from the other side: a link against a proper node with the target's header (other children) is
   silent without -f even with -d; -f reports the children *)
Theorem C09_diff_link_vs_node_blind_refuted :
  cgnsdiff Cur MCur o_d [([49], linkfile 49); ([50], linkfile_node)] [([49], linkfile 49); ([50], linkfile_node)] 8 [49] [50] = [] /\
  cgnsdiff Cur MCur (mkO true true false false true 0) [([49], linkfile 49); ([50], linkfile_node)]
           [([49], linkfile 49); ([50], linkfile_node)] 8 [49] [50] = [DLeft [47;75;47;107;49]; DRight [47;75;47;111;116;104;101;114]] /\
  full_view 8 [([49], linkfile 49)] [49] (linkfile 49) <> full_view 8 [([50], linkfile_node)] [50] linkfile_node.
Proof. exact diff_link_vs_node_blind. Qed.
Print Assumptions C09_diff_link_vs_node_blind_refuted.

(* a documented limit of -t: the comparison is fabs(a-b) > tol, false for a NaN -- 2.0 against NaN is silent under -t1e-6
   (with the default tolerance 0 bytes are compared and the same pair IS reported).  Flocq's binary64. *)
Theorem C09_diff_tol_nan_refuted :
  exists d1 d2 tol, d1 <> d2 /\ Binary.is_nan 53 1024 (b64_of_bits d2) = true /\ tol_active tol = true /\
                    compare_doubles tol [d1] [d2] = false /\
                    compare_data true tol [47;97] [47;97] (Node [97] [] [82;56] [1] [0;0;0;0;0;0;0;64] [])
                                                          (Node [97] [] [82;56] [1] [0;0;0;0;0;0;248;127] []) = [] /\
                    compare_data true 0 [47;97] [47;97] (Node [97] [] [82;56] [1] [0;0;0;0;0;0;0;64] [])
                                                        (Node [97] [] [82;56] [1] [0;0;0;0;0;0;248;127] []) = [DData [47;97] [47;97]].
Proof. exact diff_tol_nan_blind. Qed.
Print Assumptions C09_diff_tol_nan_refuted.

(* ---- history: what the OLD code did on the witnesses of the repaired defects (regression inputs in corpus/C09) ------------------ *)
(* before cb07d24: an ADF node whose type string is lower case got size 0, the copy succeeded without the data *)
Theorem C09_unknown_type_data_dropped_old_refuted :
  exists src out, copy_file Old false (fun _ _ => None) 0 false src adf_root = Ok out /\
                  kids_of out = [Node [78;49] [76] [114;56] [2] [] []] /\ kids_of out <> kids_of src.
Proof. exact lowercase_type_data_dropped_old. Qed.
Print Assumptions C09_unknown_type_data_dropped_old_refuted.

(* before 3a1c414: a compound type -- the buffer was sized from the first two characters, the read overran it *)
Theorem C09_compound_type_overflow_old_refuted :
  exists src, copy_file Old false (fun _ _ => None) 0 false src adf_root = Overflow.
Proof. exact compound_type_overflow_old. Qed.
Print Assumptions C09_compound_type_overflow_old_refuted.

(* before 39f8525: cgnsdiff on an ADF file and its exact HDF5 conversion reported the roots' labels; now silent *)
Theorem C09_diff_cross_format_root_label_old_refuted :
  exists w src dst w', get_file w src = Some (with_kids adf_root [Node [78] [76] I4 [1] [7;0;0;0] []]) /\
    cgnsconvert Cur 4 w src dst true false = Ok w' /\
    (forall r r', get_file w' src = Some r -> get_file w' dst = Some r' -> kids_of r' = kids_of r) /\
    cgnsdiff Old MOld o_d w' w' 8 src dst = [DLabel [47] [47]] /\
    cgnsdiff Cur MCur o_d w' w' 8 src dst = [].
Proof. exact diff_cross_format_root_label_old. Qed.
Print Assumptions C09_diff_cross_format_root_label_old_refuted.

(* before e3072bd: a 40-deep chain of 32-character names, copied exactly, overflowed cgnsdiff's 1024-byte path
   buffers; now the pair is compared to the bottom and found equal *)
Theorem C09_diff_deep_path_overflow_old_refuted :
  exists w f r, get_file w f = Some r /\ link_free r = true /\ names_unique r = true /\ tree_ok Cur true r = true /\
    copy_file Cur false (fun _ _ => None) 0 false r adf_root = Ok r /\
    has_overflow (cgnsdiff Old MOld o_d w w 64 f f) = true /\
    cgnsdiff Cur MCur o_d w w 64 f f = [].
Proof. exact diff_deep_path_overflow_old. Qed.
Print Assumptions C09_diff_deep_path_overflow_old_refuted.

(* before 180fd8e: sibling names that collide after normalisation (x Y y under -c; a "b c" bc under -i; distinct raw names), a
   file against itself: spurious lines, then children2 was read past its end (find_name answered the LAST entry of the run,
   the loop paired by position); the repaired code is silent on the same pairs *)
Theorem C09_diff_name_collision_old_refuted :
  names_unique collide_c = true /\ keys_unique (find_key o_cd) collide_c = false /\
  cgnsdiff Cur MOld o_cd [([65], collide_c)] [([65], collide_c)] 5 [65] [65] =
    [DRight [47;89]; DLabel [47;89] [47;121]; DOutOfBounds] /\
  cgnsdiff Cur MCur o_cd [([65], collide_c)] [([65], collide_c)] 5 [65] [65] = [] /\
  names_unique collide_i = true /\ keys_unique (find_key o_di) collide_i = false /\
  has_oob (cgnsdiff Cur MOld o_di [([65], collide_i)] [([65], collide_i)] 5 [65] [65]) = true /\
  cgnsdiff Cur MCur o_di [([65], collide_i)] [([65], collide_i)] 5 [65] [65] = [].
Proof. exact diff_name_collision_old. Qed.
Print Assumptions C09_diff_name_collision_old_refuted.
Theorem C09_find_name_old_vs_cur :
  let fold := copy_name true false in
  find_name MOld fold [89] [[120];[89];[121]] = 2 /\ find_name MCur fold [89] [[120];[89];[121]] = 1 /\
  find_scan fold [89] [[120];[89];[121]] = 1.
Proof. exact DiffP.find_name_old_vs_cur. Qed.
Print Assumptions C09_find_name_old_vs_cur.

(* ---- non-vacuity ---------------------------------------------------------------------------------------------------------------------- *)
Example C09_hypotheses_satisfiable_copy :
  kids_ok Cur false sample_tree = true /\ forallb links_ok (kids_of sample_tree) = true /\ names_unique sample_tree = true /\
  kids_ok Old false sample_tree = false.
Proof. exact sample_ok. Qed.
Example C09_hypotheses_satisfiable_diff :
  link_free sample_plain = true /\ names_unique sample_plain = true /\ names_nonempty sample_plain = true /\
  kids_ok Old false sample_plain = true /\ (depth sample_plain <= 8)%nat /\
  canon sample_plain <> sample_plain_permuted /\
  kids_of (canon sample_plain) = kids_of (canon sample_plain_permuted).
Proof. exact sample_plain_ok. Qed.
Example C09_follow_succeeds_somewhere :
  exists w', cgnsconvert Cur 4 worldAB [65] [67] false true = Ok w'.
Proof. exact follow_succeeds_somewhere. Qed.
(* [depth] is carried exactly as recurse_nodes carries it (incremented once per copied sibling, not per level) *)
Example C09_depth_counts_siblings :
  let rec_depth := fun (k : node) (c : node) (d : Z) => Ok (Node (node_name c) [] [] [d] [] []) in
  kids_loop rec_depth (fun _ _ c d => Ok (Node (node_name c) [] [] [d] [] [])) true
    [Node [97] [] s_MT [] [] []; LinkNode [108] [] [47;97]; Node [98] [] s_MT [] [] []; LinkNode [109] [66] [47;88];
     Node [99] [] s_MT [] [] []]
    (Node [] [] s_MT [] [] []) 5 =
  Ok (Node [] [] s_MT [] []
        [Node [97] [] [] [6] [] []; LinkNode [108] [] [47;97]; Node [98] [] [] [7] [] []; Node [109] [] [] [8] [] [];
         Node [99] [] [] [9] [] []]).
Proof. exact depth_counts_siblings. Qed.
