(* Properties_C09.v -- copy, convert, compact and save-as preserve the whole tree; cgnsdiff is silent exactly on trees
   that are equal up to the order of children.  Exported statements about the model Copy.v (a transcription of
   recurse_nodes / cgio_copy_node / cgio_compute_data_size / cgio_copy_file / rewrite_file of src/cgns_io.c, cg_save_as,
   the tool drivers, and compare_data / compare_nodes of tools/cgnsdiff.c).
   Only statements closed by [exact]; Print Assumptions under each. *)
From Coq Require Import ZArith List Bool Permutation.
From Flocq Require Import IEEE754.Binary IEEE754.Bits.
From CgnsV Require Import ListX Copy CopyProofs.
Import ListNotations.
Local Open Scope Z_scope.

(* ---- the recursive copy, links kept (follow_links = 0) ------------------------------------------------------------------
   For EVERY source (any depth, fan-out, any of the documented types and sizes, empty data, internal and external
   links) whose nodes are well formed, every model budget and every resolution of links: the source's children --
   all of them, in order, with label, type, dimensions, data and their own subtrees, links as links -- are appended
   to the output root.  Into an empty file (ks0 = []) the result's forest IS the source's forest. *)
Theorem C09_copy_preserves : forall dst_hdf5 resolve fuel nm lbl dt dims data kids n l t d da ks0,
  forallb (tree_ok dst_hdf5) kids = true -> forallb links_ok kids = true ->
  copy_file dst_hdf5 resolve fuel false (Node nm lbl dt dims data kids) (Node n l t d da ks0) =
  Ok (Node n l t d da (ks0 ++ kids)).
Proof. exact copy_file_nofollow. Qed.
Print Assumptions C09_copy_preserves.

(* one node at depth > 0: label, type, dimension values and data of the output node become the source's *)
Theorem C09_copy_node_exact : forall h lbl dt dims data n l0 t0 d0 da0 ks,
  node_ok h dt dims data = true ->
  copy_node h lbl dt dims data (Node n l0 t0 d0 da0 ks) = Ok (Node n lbl dt dims data ks).
Proof. exact copy_node_ok. Qed.
Print Assumptions C09_copy_node_exact.

(* ---- follow_links = 1: whenever the copy succeeds its result is the expansion of the source: proper nodes and
   internal links kept, every external link replaced by a node of the link's name that carries label, type,
   dimensions, data and the (expanded) children of the node the link resolves to *)
Theorem C09_copy_follow_expands : forall h resolve,
  (forall f p t, resolve f p = Some t -> tree_ok h t = true) ->
  forall fuel nm lbl dt dims data kids n l t d da ks0 o,
  forallb (tree_ok h) kids = true ->
  copy_file h resolve fuel true (Node nm lbl dt dims data kids) (Node n l t d da ks0) = Ok o ->
  exists ks', o = Node n l t d da (ks0 ++ ks') /\ ExpandsL resolve kids ks'.
Proof. exact copy_file_follow_sound. Qed.
Print Assumptions C09_copy_follow_expands.

(* ---- the entry points ------------------------------------------------------------------------------------------------------ *)
(* cgio_copy_file / cg_save_as / cgnsconvert, links kept: the new file's forest is the source's, in both format directions *)
Theorem C09_save_as_convert_preserve : forall fuel w src dst dst_hdf5 r,
  get_file w src = Some r -> is_link r = false ->
  kids_ok dst_hdf5 r = true -> forallb links_ok (kids_of r) = true ->
  cg_save_as fuel w src dst dst_hdf5 false = Ok (set_file w dst (with_kids (new_root dst_hdf5) (kids_of r))) /\
  cgnsconvert fuel w src dst dst_hdf5 false = Ok (set_file w dst (with_kids (new_root dst_hdf5) (kids_of r))).
Proof. exact save_as_convert_preserve. Qed.
Print Assumptions C09_save_as_convert_preserve.

Theorem C09_save_as_convert_expand : forall fuel w src dst h r w',
  get_file w src = Some r -> kids_ok h r = true ->
  (forall f p t, resolve_in w src f p = Some t -> tree_ok h t = true) ->
  cg_save_as fuel w src dst h true = Ok w' ->
  exists ks', w' = set_file w dst (with_kids (new_root h) ks') /\ ExpandsL (resolve_in w src) (kids_of r) ks'.
Proof. exact do_copy_file_follow. Qed.
Print Assumptions C09_save_as_convert_expand.

(* rewrite_file = cgio_compress_file = compress-on-close = cgnscompress: the named file ends up holding the source's
   forest (same format), every other file of the world is untouched *)
Theorem C09_compress_preserves : forall fuel w src filename h r,
  get_file w src = Some r -> is_link r = false ->
  kids_ok h r = true -> forallb links_ok (kids_of r) = true ->
  exists w', cgio_compress_file fuel w src filename h = Ok w' /\
             get_file w' filename = Some (with_kids (new_root h) (kids_of r)) /\
             (forall g, bytes_eqb filename g = false -> get_file w' g = get_file w g).
Proof. exact rewrite_file_preserves. Qed.
Print Assumptions C09_compress_preserves.

(* ---- cgnsdiff -d, tolerance 0 --------------------------------------------------------------------------------------------------
   For link-free well-formed trees with unique sibling names whose paths fit cgnsdiff's buffers: the output is
   empty IFF the two trees are equal up to the order of children (canon sorts every child list by name; strip
   forgets the root's own name, which cgnsdiff never looks at). *)
Theorem C09_diff_silent_iff_equal_unordered : forall w1 w2 follow fuel f1 f2 r1 r2,
  get_file w1 f1 = Some r1 -> get_file w2 f2 = Some r2 ->
  link_free r1 = true -> link_free r2 = true ->
  names_unique r1 = true -> names_unique r2 = true ->
  tree_ok false r1 = true -> tree_ok false r2 = true ->
  paths_fit 0 r1 = true -> paths_fit 0 r2 = true ->
  (depth r1 <= fuel)%nat ->
  (cgnsdiff true follow w1 w2 fuel f1 f2 = [] <-> strip (canon r1) = strip (canon r2)).
Proof. exact DiffP.cgnsdiff_silent_iff. Qed.
Print Assumptions C09_diff_silent_iff_equal_unordered.

(* the same at any pair of nodes (cgnsdiff with dataset arguments and -r) *)
Theorem C09_diff_sound_complete : forall w1 w2 follow fuel name1 cf1 t1 name2 cf2 t2,
  link_free t1 = true -> link_free t2 = true ->
  names_unique t1 = true -> names_unique t2 = true ->
  tree_ok false t1 = true -> tree_ok false t2 = true ->
  paths_fit (lenZ (unroot name1)) t1 = true -> paths_fit (lenZ (unroot name2)) t2 = true ->
  (depth t1 <= fuel)%nat ->
  (compare_nodes true follow w1 w2 fuel name1 cf1 t1 name2 cf2 t2 = [] <-> strip (canon t1) = strip (canon t2)).
Proof. exact DiffP.diff_empty_iff. Qed.
Print Assumptions C09_diff_sound_complete.

(* canon is a canonical form for "equal up to the order of children" *)
Theorem C09_canon_ignores_child_order : forall nm l dt d da ks1 ks2,
  Permutation ks1 ks2 -> nodup_names (map node_name ks1) = true ->
  canon (Node nm l dt d da ks1) = canon (Node nm l dt d da ks2).
Proof. exact DiffP.canon_perm. Qed.
Print Assumptions C09_canon_ignores_child_order.

Theorem C09_canon_idempotent : forall t, names_unique t = true -> canon (canon t) = canon t.
Proof. exact DiffP.canon_idem. Qed.
Print Assumptions C09_canon_idempotent.

(* ---- where the code does NOT do what the property says (each witness is replayed on the library by checks/C09.py) --------------- *)
(* an ADF node whose type string is lower case: size 0, the copy succeeds without the data *)
Theorem C09_unknown_type_data_dropped_refuted :
  exists src out, copy_file false (fun _ _ => None) 0 false src adf_root = Ok out /\
                  kids_of out = [Node [78;49] [76] [114;56] [2] [] []] /\ kids_of out <> kids_of src.
Proof. exact lowercase_type_data_dropped. Qed.
Print Assumptions C09_unknown_type_data_dropped_refuted.

(* an ADF node of a compound type: the buffer is sized from the first two characters, the read overruns it *)
Theorem C09_compound_type_overflow_refuted :
  exists src, copy_file false (fun _ _ => None) 0 false src adf_root = Overflow.
Proof. exact compound_type_overflow. Qed.
Print Assumptions C09_compound_type_overflow_refuted.

(* follow_links: an internal link inside an externally linked subtree is copied verbatim and then points elsewhere *)
Theorem C09_follow_nested_internal_link_refuted :
  exists w src dst w', get_file w src = Some fileA /\
    cgnsconvert 4 w src dst false true = Ok w' /\
    full_view 8 w' dst (match get_file w' dst with Some r => r | None => fileA end) <> full_view 8 w src fileA /\
    full_view 8 w src fileA <> None.
Proof. exact follow_nested_internal_link_misdirected. Qed.
Print Assumptions C09_follow_nested_internal_link_refuted.

(* cgnsdiff on an ADF file and its exact HDF5 conversion reports the roots' labels *)
Theorem C09_diff_cross_format_root_label_refuted :
  exists w src dst w', get_file w src = Some (with_kids adf_root [Node [78] [76] I4 [1] [7;0;0;0] []]) /\
    cgnsconvert 4 w src dst true false = Ok w' /\
    (forall r r', get_file w' src = Some r -> get_file w' dst = Some r' -> kids_of r' = kids_of r) /\
    cgnsdiff true false w' w' 8 src dst = [DLabel [47] [47]].
Proof. exact diff_cross_format_root_label. Qed.
Print Assumptions C09_diff_cross_format_root_label_refuted.

(* cgnsdiff never compares the file and path of a link *)
Theorem C09_diff_link_target_blind_refuted :
  exists w f1 f2 r1 r2, get_file w f1 = Some r1 /\ get_file w f2 = Some r2 /\
    cgnsdiff true false w w 8 f1 f2 = [] /\
    strip (canon r1) <> strip (canon r2) /\
    full_view 8 w f1 r1 <> full_view 8 w f2 r2 /\ full_view 8 w f1 r1 <> None /\ full_view 8 w f2 r2 <> None.
Proof. exact diff_link_target_blind. Qed.
Print Assumptions C09_diff_link_target_blind_refuted.

(* a tree the copy reproduces exactly makes cgnsdiff write past its 1024-byte path buffers *)
Theorem C09_diff_deep_path_overflow_refuted :
  exists w f r, get_file w f = Some r /\ link_free r = true /\ names_unique r = true /\ tree_ok true r = true /\
    copy_file false (fun _ _ => None) 0 false r adf_root = Ok r /\
    has_overflow (cgnsdiff true false w w 64 f f) = true.
Proof. exact diff_deep_path_overflow. Qed.
Print Assumptions C09_diff_deep_path_overflow_refuted.

(* outside the default options: with -t<tol> the comparison is fabs(a-b) > tol, false for a NaN -- 2.0 against NaN is
   silent (with the default tolerance 0 bytes are compared and the same pair IS reported).  Flocq's binary64. *)
Theorem C09_diff_tol_nan_refuted :
  exists d1 d2 tol, d1 <> d2 /\ Binary.is_nan 53 1024 (b64_of_bits d2) = true /\
                    compare_doubles tol [d1] [d2] = false /\
                    compare_data true [47;97] [47;97] (Node [97] [] [82;56] [1] [0;0;0;0;0;0;0;64] [])
                                                      (Node [97] [] [82;56] [1] [0;0;0;0;0;0;248;127] []) = [DData [47;97] [47;97]].
Proof. exact diff_tol_nan_blind. Qed.
Print Assumptions C09_diff_tol_nan_refuted.

(* ---- non-vacuity ---------------------------------------------------------------------------------------------------------------------- *)
Example C09_hypotheses_satisfiable_copy :
  kids_ok true sample_tree = true /\ forallb links_ok (kids_of sample_tree) = true /\ names_unique sample_tree = true.
Proof. exact sample_ok. Qed.
Example C09_hypotheses_satisfiable_diff :
  link_free sample_plain = true /\ names_unique sample_plain = true /\ tree_ok false sample_plain = true /\
  paths_fit 0 sample_plain = true /\ (depth sample_plain <= 8)%nat /\
  canon sample_plain <> sample_plain_permuted /\
  kids_of (canon sample_plain) = kids_of (canon sample_plain_permuted).
Proof. exact sample_plain_ok. Qed.
Example C09_follow_succeeds_somewhere :
  exists w', cgnsconvert 4 worldAB [65] [67] false true = Ok w'.
Proof. exact follow_succeeds_somewhere. Qed.
