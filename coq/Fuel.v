(* Fuel.v -- early-exit loops with binary (positive) fuel.

   C loops "for (;;) { ... return ...; ... }" are modelled as the iteration of
   a step function  S -> S + R  (inl = continue with new state, inr = return).
   [loopN n] runs at most n steps (unary fuel, convenient for proofs);
   [loopP p] runs at most [Pos.to_nat p] steps but recurses on the binary
   representation of p, so that running the model with a fuel of 2^20 does not
   allocate a unary number.  [loopP_loopN] ties the two.  Running out of fuel
   is the distinguished outcome [inl _] (the caller maps it to an error value
   that theorems exclude explicitly). *)
From Coq Require Import PArith Arith Lia.

Section Loop.
  Context {S R : Type}.
  Variable step : S -> S + R.

  Fixpoint loopN (n : nat) (s : S) : S + R :=
    match n with
    | O => inl s
    | Datatypes.S n' => match step s with inl s' => loopN n' s' | inr r => inr r end
    end.

  Fixpoint loopP (p : positive) (s : S) : S + R :=
    match p with
    | xH => step s
    | xO p' => match loopP p' s with inl s' => loopP p' s' | inr r => inr r end
    | xI p' => match step s with
               | inl s0 => match loopP p' s0 with inl s' => loopP p' s' | inr r => inr r end
               | inr r => inr r
               end
    end.

  Lemma loopN_add : forall a b s,
      loopN (a + b) s = match loopN a s with inl s' => loopN b s' | inr r => inr r end.
  Proof.
    induction a as [|a IH]; intros b s; cbn [loopN plus]; [reflexivity|].
    destruct (step s) as [s'|r]; [apply IH|reflexivity].
  Qed.

  Lemma loopP_loopN : forall p s, loopP p s = loopN (Pos.to_nat p) s.
  Proof.
    induction p as [p IH|p IH|]; intros s; cbn [loopP].
    - rewrite Pos2Nat.inj_xI. replace (Datatypes.S (2 * Pos.to_nat p)) with (1 + (Pos.to_nat p + Pos.to_nat p)) by lia.
      cbn [plus loopN]. destruct (step s) as [s0|r]; [|reflexivity].
      rewrite loopN_add, <- IH. destruct (loopP p s0) as [s'|r]; [apply IH|reflexivity].
    - rewrite Pos2Nat.inj_xO. replace (2 * Pos.to_nat p) with (Pos.to_nat p + Pos.to_nat p) by lia.
      rewrite loopN_add, <- IH. destruct (loopP p s) as [s'|r]; [apply IH|reflexivity].
    - rewrite Pos2Nat.inj_1. cbn [loopN]. destruct (step s); reflexivity.
  Qed.

  (* If the loop returns within n steps, more fuel returns the same. *)
  Lemma loopN_mono : forall n m s r, loopN n s = inr r -> n <= m -> loopN m s = inr r.
  Proof.
    induction n as [|n IH]; intros m s r H Hle; cbn [loopN] in H; [discriminate|].
    destruct m as [|m]; [lia|]. cbn [loopN].
    destruct (step s) as [s'|r']; [apply IH; [assumption|lia]|assumption].
  Qed.
End Loop.
