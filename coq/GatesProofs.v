(* GatesProofs.v -- proofs about the skeleton machine of Gates.v (properties C07 and C12).

   Generic part (any table, any closed sets):
     run_pure            a function outside a closed "may touch" set leaves the file (and the tree) unchanged;
     run_gated           a gated function run on a read-mode file returns a failure and changes nothing;
     ro_seq              any sequence of calls of gated-or-non-mutating functions on a read-mode file leaves the file
                         unchanged and every gated call fails;
     run_invalid         a function whose argument checks precede its effects changes nothing when it returns at a
                         failing argument check;
     getter_bounds       the canonical getter test accepts exactly 1..count and selects element i-1.
   The table-level obligations (vm_compute over coq/Gen_C07.v) are in Properties_C07.v / Properties_C12.v. *)
From Coq Require Import List String Bool PArith ZArith Lia FSetPositive.
From CgnsV Require Import Gates.
Import ListNotations.

Lemma pop_spec : forall o, exists b o', pop o = (b, o').
Proof. intros [|b r]; simpl; eauto. Qed.

Lemma fail_res_not_ok : forall e, fail_res e <> ROK.
Proof. intros e; unfold fail_res; destruct (is_argcheck e); discriminate. Qed.

Definition same (mi : bool) (s s' : st) : Prop := s_file s' = s_file s /\ (mi = true -> s_mir s' = s_mir s).

Lemma same_refl : forall mi s, same mi s s.
Proof. intros; split; auto. Qed.
Lemma same_trans : forall mi a b c, same mi a b -> same mi b c -> same mi a c.
Proof. intros mi a b c [H1 H2] [H3 H4]; split; [congruence|]. intros H; rewrite (H4 H), (H2 H); reflexivity. Qed.
Lemma same_err : forall mi s, same mi s (set_err s).
Proof. intros; split; auto. Qed.

Lemma do_callee_same : forall rows prim call mi (S : positive -> ctx -> bool) c e o1 s r s2 o2,
    (forall c id o s r s' o', S id c = false -> call c id o s = (r, s', o') -> same mi s s') ->
    match callee e with Some (i, a) => prim i = false /\ S i (tgt a c) = false | None => True end ->
    do_callee rows prim call c e o1 s = (r, s2, o2) -> same mi s s2.
Proof.
  intros rows prim call mi S c e o1 s r s2 o2 Hcall Hf Hd. unfold do_callee in Hd.
  destruct (callee e) as [[i a]|].
  - destruct Hf as [Hp Hs]. rewrite Hp in Hd. destruct (rows i).
    + eapply Hcall; eauto.
    + destruct (pop o1) as [b o']. inversion Hd; subst; apply same_refl.
  - destruct (pop o1) as [b o']. inversion Hd; subst; apply same_refl.
Qed.

(* ------------------------------------------------------------------------------------------------ purity *)
Section Pure.
  Variable rows : positive -> option frow.
  Variable prim : positive -> bool.
  Variable mode : fmode.
  Variable um mi : bool.
  Variable S : positive -> ctx -> bool.
  Hypothesis Hmode : um = true -> mode = FRead.
  Hypothesis Hclosed : forall id r c e, rows id = Some r -> In e (revs r) ->
                                        touches um mi prim S c e = true -> S id c = true.

  Lemma touches_active : forall c e,
      active mode c e = true -> touches um mi prim S c e = false ->
      match ek e with
      | KMirror => mi = false
      | KUnparsed => False
      | _ => match callee e with
             | Some (i, a) => prim i = false /\ S i (tgt a c) = false
             | None => True
             end
      end.
  Proof.
    intros c e Ha Ht. unfold active in Ha. apply andb_true_iff in Ha. destruct Ha as [Ha1 Ha2].
    apply negb_true_iff in Ha1. apply negb_true_iff in Ha2.
    unfold touches in Ht. rewrite Ha2 in Ht.
    assert (Hg : um && emg e = false).
    { destruct um eqn:Eu; [|reflexivity]. rewrite (Hmode eq_refl) in Ha1. simpl in Ha1.
      rewrite andb_true_r in Ha1. simpl. exact Ha1. }
    rewrite Hg in Ht. simpl in Ht.
    destruct (ek e); try exact Ht; try discriminate;
      try (destruct (callee e) as [[i0 a0]|]; [apply orb_false_iff in Ht; exact Ht | exact I]).
  Qed.

  Section ExecPure.
    Variable call : ctx -> positive -> list bool -> st -> res * st * list bool.
    Hypothesis Hcall : forall c id o s r s' o', S id c = false -> call c id o s = (r, s', o') -> same mi s s'.

    Lemma exec_pure : forall c l o s r s' o',
        (forall e, In e l -> touches um mi prim S c e = false) ->
        exec rows prim mode call c l o s = (r, s', o') -> same mi s s'.
    Proof.
      intros c l; induction l as [|e l IH]; intros o s r s' o' Hl Hx; simpl in Hx.
      - inversion Hx; subst; apply same_refl.
      - assert (Hl' : forall e0, In e0 l -> touches um mi prim S c e0 = false) by (intros; apply Hl; right; assumption).
        assert (He : touches um mi prim S c e = false) by (apply Hl; left; reflexivity).
        destruct (active mode c e) eqn:Ha; simpl in Hx; [|eapply IH; eauto].
        pose proof (touches_active c e Ha He) as Hf.
        destruct (if econd e then pop o else (true, o)) as [take o1] eqn:Ep.
        destruct take; simpl in Hx; [|eapply IH; eauto].
        assert (Hstep : forall (Hf' : match callee e with Some (i, a) => prim i = false /\ S i (tgt a c) = false | None => True end),
                   (let '(r2, s2, o2) := do_callee rows prim call c e o1 s in
                    match r2 with
                    | RFUEL => (RFUEL, s2, o2)
                    | ROK => exec rows prim mode call c l o2 s2
                    | RERR | RINV => if erf e then (fail_res e, s2, o2) else exec rows prim mode call c l o2 s2
                    end) = (r, s', o') -> same mi s s').
        { intros Hf' Hy. destruct (do_callee rows prim call c e o1 s) as [[r2 s2] o2] eqn:Eq.
          pose proof (do_callee_same _ _ _ _ _ _ _ _ _ _ _ _ Hcall Hf' Eq) as Hsame.
          destruct r2.
          - eapply same_trans; [exact Hsame|eapply IH; eauto].
          - destruct (erf e); [inversion Hy; subst; exact Hsame|eapply same_trans; [exact Hsame|eapply IH; eauto]].
          - destruct (erf e); [inversion Hy; subst; exact Hsame|eapply same_trans; [exact Hsame|eapply IH; eauto]].
          - inversion Hy; subst; exact Hsame. }
        destruct (ek e) eqn:Ek.
        + apply (Hstep Hf Hx).
        + apply (Hstep Hf Hx).
        + destruct (rejects mode m); [destruct (erf e)|].
          * inversion Hx; subst; apply same_err.
          * eapply same_trans; [apply same_err|eapply IH; eauto].
          * eapply IH; eauto.
        + apply (Hstep Hf Hx).
        + apply (Hstep Hf Hx).
        + eapply same_trans; [|eapply IH; eauto]. split; [reflexivity|]. intros Hm; congruence.
        + eapply same_trans; [apply same_err|eapply IH; eauto].
        + destruct r0; try (inversion Hx; subst; apply same_refl).
          destruct (pop o1) as [b o2]; inversion Hx; subst; apply same_refl.
        + eapply IH; eauto.
        + destruct Hf.
    Qed.
  End ExecPure.

  Lemma run_pure : forall fuel c id o s r s' o',
      S id c = false -> run rows prim mode fuel c id o s = (r, s', o') -> same mi s s'.
  Proof.
    induction fuel as [|n IH]; intros c id o s r s' o' Hs Hr; simpl in Hr.
    - inversion Hr; subst; apply same_refl.
    - destruct (rows id) as [r0|] eqn:Er.
      + eapply (exec_pure (run rows prim mode n)); [intros; eapply IH; eauto| |exact Hr].
        intros e He. destruct (touches um mi prim S c e) eqn:Et; [|reflexivity].
        rewrite (Hclosed id r0 c e Er He Et) in Hs. discriminate.
      + inversion Hr; subst; apply same_refl.
  Qed.
End Pure.

(* ------------------------------------------------------------------------------------------------ gates (C07) *)
Section Gated.
  Variable rows : positive -> option frow.
  Variable prim : positive -> bool.
  Variable SM : positive -> ctx -> bool.
  Variable G : positive -> bool.
  Hypothesis HclosedM : forall id r c e, rows id = Some r -> In e (revs r) ->
                                         touches true true prim SM c e = true -> SM id c = true.
  Hypothesis HG : forall g, G g = true -> exists r, rows g = Some r /\ gate_scan prim SM G (revs r) = true.

  Definition unchanged (s s' : st) : Prop := s_file s' = s_file s /\ s_mir s' = s_mir s.
  Lemma same_unchanged : forall s s', same true s s' -> unchanged s s'.
  Proof. intros s s' [H1 H2]; split; auto. Qed.
  Lemma unchanged_trans : forall a b c, unchanged a b -> unchanged b c -> unchanged a c.
  Proof. intros a b c [H1 H2] [H3 H4]; split; congruence. Qed.

  Section ExecGated.
    Variable call : ctx -> positive -> list bool -> st -> res * st * list bool.
    Hypothesis Hpure : forall c id o s r s' o', SM id c = false -> call c id o s = (r, s', o') -> same true s s'.
    Hypothesis Hgat : forall id o s r s' o', G id = true -> call CW id o s = (r, s', o') -> r <> ROK /\ unchanged s s'.

    Lemma exec_gated : forall l o s r s' o',
        gate_scan prim SM G l = true ->
        exec rows prim FRead call CW l o s = (r, s', o') -> r <> ROK /\ unchanged s s'.
    Proof.
      induction l as [|e l IH]; intros o s r s' o' Hg Hx; simpl in Hg; [discriminate|].
      simpl in Hx.
      destruct (emg e) eqn:Em.
      - unfold active in Hx. rewrite Em in Hx. simpl in Hx. eapply IH; eauto.
      - assert (Ha : active FRead CW e = true).
        { unfold active. rewrite Em. simpl. rewrite andb_false_r. reflexivity. }
        rewrite Ha in Hx. simpl in Hx.
        destruct (is_gate prim G e) eqn:Eg.
        + (* the gate itself *)
          unfold is_gate in Eg. apply andb_true_iff in Eg. destruct Eg as [Eg Ek].
          apply andb_true_iff in Eg. destruct Eg as [Ec Erf]. apply negb_true_iff in Ec.
          rewrite Ec in Hx. simpl in Hx.
          destruct (ek e) eqn:Eke; try discriminate.
          * destruct m; try discriminate; simpl in Hx; rewrite Erf in Hx; inversion Hx; subst;
              (split; [discriminate|split; reflexivity]).
          * assert (Hcal : callee e = Some (eid e, a)) by (unfold callee; rewrite Eke; reflexivity).
            assert (Hpg : prim (eid e) = false /\ G (eid e) = true /\ tgt a CW = CW).
            { destruct a; try discriminate; apply andb_true_iff in Ek; destruct Ek as [E1 E2];
                apply negb_true_iff in E1; auto. }
            destruct Hpg as [Hp [Hge Ht]].
            destruct (HG _ Hge) as [r0 [Hr0 _]].
            unfold do_callee in Hx. rewrite Hcal, Hp, Ht, Hr0 in Hx.
            destruct (call CW (eid e) o s) as [[r2 s2] o2] eqn:Eq.
            destruct (Hgat _ _ _ _ _ _ Hge Eq) as [Hn Hu].
            destruct r2; try (exfalso; apply Hn; reflexivity).
            -- rewrite Erf in Hx. inversion Hx; subst. split; [apply fail_res_not_ok|exact Hu].
            -- rewrite Erf in Hx. inversion Hx; subst. split; [apply fail_res_not_ok|exact Hu].
            -- inversion Hx; subst. split; [discriminate|exact Hu].
        + (* an event before the gate *)
          apply andb_true_iff in Hg. destruct Hg as [Hp Hg].
          destruct (if econd e then pop o else (true, o)) as [take o1] eqn:Ep.
          destruct take; simpl in Hx; [|eapply IH; eauto].
          assert (Hstep : touches true true prim SM CW e = false ->
                     (let '(r2, s2, o2) := do_callee rows prim call CW e o1 s in
                      match r2 with
                      | RFUEL => (RFUEL, s2, o2)
                      | ROK => exec rows prim FRead call CW l o2 s2
                      | RERR | RINV => if erf e then (fail_res e, s2, o2) else exec rows prim FRead call CW l o2 s2
                      end) = (r, s', o') ->
                     match ek e with KMirror | KUnparsed => False | _ => True end ->
                     r <> ROK /\ unchanged s s').
          { intros Ht Hy Hk.
            pose proof (touches_active rows prim FRead true true SM (fun _ => eq_refl) HclosedM CW e Ha Ht) as Hf.
            assert (Hf' : match callee e with Some (i, a) => prim i = false /\ SM i (tgt a CW) = false | None => True end).
            { destruct (ek e); try exact Hf; try destruct Hk. }
            destruct (do_callee rows prim call CW e o1 s) as [[r2 s2] o2] eqn:Eq.
            pose proof (same_unchanged _ _ (do_callee_same _ _ _ _ _ _ _ _ _ _ _ _ Hpure Hf' Eq)) as Hu.
            destruct r2.
            - destruct (IH _ _ _ _ _ Hg Hy) as [Hn Hu2]. split; [exact Hn|eapply unchanged_trans; eauto].
            - destruct (erf e).
              + inversion Hy; subst. split; [apply fail_res_not_ok|exact Hu].
              + destruct (IH _ _ _ _ _ Hg Hy) as [Hn Hu2]. split; [exact Hn|eapply unchanged_trans; eauto].
            - destruct (erf e).
              + inversion Hy; subst. split; [apply fail_res_not_ok|exact Hu].
              + destruct (IH _ _ _ _ _ Hg Hy) as [Hn Hu2]. split; [exact Hn|eapply unchanged_trans; eauto].
            - inversion Hy; subst. split; [discriminate|exact Hu]. }
          unfold pre_ok in Hp.
          destruct (ek e) eqn:Eke; try discriminate.
          * apply negb_true_iff in Hp. apply (Hstep Hp Hx I).
          * apply negb_true_iff in Hp. apply (Hstep Hp Hx I).
          * destruct (rejects FRead m); [destruct (erf e)|].
            -- inversion Hx; subst. split; [discriminate|split; reflexivity].
            -- destruct (IH _ _ _ _ _ Hg Hx) as [Hn [H1 H2]]. split; [exact Hn|split; [exact H1|exact H2]].
            -- eapply IH; eauto.
          * apply negb_true_iff in Hp. apply (Hstep Hp Hx I).
          * apply negb_true_iff in Hp. apply (Hstep Hp Hx I).
          * destruct (IH _ _ _ _ _ Hg Hx) as [Hn [H1 H2]]. split; [exact Hn|split; [exact H1|exact H2]].
          * destruct r0; try discriminate. inversion Hx; subst. split; [discriminate|split; reflexivity].
    Qed.
  End ExecGated.

  Lemma run_gated : forall fuel id o s r s' o',
      G id = true -> run rows prim FRead fuel CW id o s = (r, s', o') -> r <> ROK /\ unchanged s s'.
  Proof.
    induction fuel as [|n IH]; intros id o s r s' o' Hg Hr; simpl in Hr.
    - inversion Hr; subst. split; [discriminate|split; reflexivity].
    - destruct (HG _ Hg) as [r0 [Hr0 Hs]]. rewrite Hr0 in Hr.
      eapply (exec_gated (run rows prim FRead n)); [| |exact Hs|exact Hr].
      + intros c i o0 s0 r1 s1 o1 Hsm Hc.
        eapply (run_pure rows prim FRead true true SM (fun _ => eq_refl) HclosedM); eauto.
      + intros; eapply IH; eauto.
  Qed.

  (* the file part alone, for functions outside the (smaller) set Sf of file mutators *)
  Variable Sf : positive -> ctx -> bool.
  Hypothesis HclosedF : forall id r c e, rows id = Some r -> In e (revs r) ->
                                         touches true false prim Sf c e = true -> Sf id c = true.

  Theorem ro_call : forall fuel id o s r s' o',
      G id = true \/ Sf id CW = false ->
      run rows prim FRead fuel CW id o s = (r, s', o') ->
      s_file s' = s_file s /\ (G id = true -> r <> ROK /\ s_mir s' = s_mir s).
  Proof.
    intros fuel id o s r s' o' [Hg|Hs] Hr.
    - destruct (run_gated _ _ _ _ _ _ _ Hg Hr) as [Hn [H1 H2]]. split; [exact H1|intros _; split; assumption].
    - pose proof (run_pure rows prim FRead true false Sf (fun _ => eq_refl) HclosedF _ _ _ _ _ _ _ _ Hs Hr) as [H1 _].
      split; [exact H1|]. intros Hg. destruct (run_gated _ _ _ _ _ _ _ Hg Hr) as [Hn [_ H2]]. split; assumption.
  Qed.

  Theorem ro_seq : forall fuel calls s rs s',
      (forall id o, In (id, o) calls -> G id = true \/ Sf id CW = false) ->
      run_seq rows prim FRead fuel calls s = (rs, s') ->
      s_file s' = s_file s /\
      Forall2 (fun cl r => G (fst cl) = true -> r <> ROK) calls rs.
  Proof.
    intros fuel calls; induction calls as [|[id o] cs IH]; intros s rs s' Hd Hr; simpl in Hr.
    - inversion Hr; subst. split; [reflexivity|constructor].
    - destruct (run rows prim FRead fuel CW id o s) as [[r s1] o1] eqn:E1.
      destruct (run_seq rows prim FRead fuel cs s1) as [rs2 s2] eqn:E2.
      inversion Hr; subst.
      destruct (ro_call _ _ _ _ _ _ _ (Hd id o (or_introl eq_refl)) E1) as [Hf Hg].
      destruct (IH s1 rs2 s' (fun i o0 Hi => Hd i o0 (or_intror Hi)) E2) as [Hf2 HF].
      split; [congruence|]. constructor; [|exact HF]. simpl. intros Hgi. apply (Hg Hgi).
  Qed.
End Gated.

(* ------------------------------------------------------------------------------------------------ invalid calls (C12) *)
Section Invalid.
  Variable rows : positive -> option frow.
  Variable prim : positive -> bool.
  Variable mode : fmode.
  Variable SA : positive -> ctx -> bool.
  Hypothesis HclosedA : forall id r c e, rows id = Some r -> In e (revs r) ->
                                         touches false true prim SA c e = true -> SA id c = true.

  Section ExecInv.
    Variable call : ctx -> positive -> list bool -> st -> res * st * list bool.
    Hypothesis Hpure : forall c id o s r s' o', SA id c = false -> call c id o s = (r, s', o') -> same true s s'.

    Lemma fail_res_inv : forall e, is_argcheck e = false -> fail_res e <> RINV.
    Proof. intros e H; unfold fail_res; rewrite H; discriminate. Qed.

    (* RINV can only be produced at an argument check *)
    Lemma exec_no_inv : forall c l o s r s' o',
        (forall e, In e l -> is_argcheck e = false) ->
        exec rows prim mode call c l o s = (r, s', o') -> r <> RINV.
    Proof.
      intros c l; induction l as [|e l IH]; intros o s r s' o' Hl Hx; simpl in Hx.
      - inversion Hx; subst; discriminate.
      - assert (Hl' : forall e0, In e0 l -> is_argcheck e0 = false) by (intros; apply Hl; right; assumption).
        assert (He : is_argcheck e = false) by (apply Hl; left; reflexivity).
        destruct (active mode c e); simpl in Hx; [|eapply IH; eauto].
        destruct (if econd e then pop o else (true, o)) as [take o1].
        destruct take; simpl in Hx; [|eapply IH; eauto].
        pose proof (fail_res_inv e He) as Hfr.
        assert (Hstep : (let '(r2, s2, o2) := do_callee rows prim call c e o1 s in
                         match r2 with
                         | RFUEL => (RFUEL, s2, o2)
                         | ROK => exec rows prim mode call c l o2 s2
                         | RERR | RINV => if erf e then (fail_res e, s2, o2) else exec rows prim mode call c l o2 s2
                         end) = (r, s', o') -> r <> RINV).
        { intros Hy. destruct (do_callee rows prim call c e o1 s) as [[r2 s2] o2].
          destruct r2; try destruct (erf e); try (inversion Hy; subst; first [exact Hfr|discriminate]); eapply IH; eauto. }
        unfold is_argcheck in He.
        destruct (ek e) eqn:Ek; try discriminate; try (eapply IH; eauto; fail); try (apply Hstep; exact Hx).
        destruct r0; try (inversion Hx; subst; discriminate).
        destruct (pop o1) as [b o2]; destruct b; inversion Hx; subst; discriminate.
    Qed.

    Lemma vbe_seen_noargs : forall l, vbe_scan prim SA true l = true -> forall e, In e l -> is_argcheck e = false.
    Proof.
      induction l as [|e l IH]; intros H e0 Hi; [destruct Hi|]. simpl in H.
      destruct (is_argcheck e) eqn:Ea; simpl in H; [discriminate|].
      destruct Hi as [<-|Hi]; [exact Ea|apply IH; assumption].
    Qed.

    Lemma exec_invalid : forall l o s s' o',
        vbe_scan prim SA false l = true ->
        exec rows prim mode call CW l o s = (RINV, s', o') -> same true s s'.
    Proof.
      induction l as [|e l IH]; intros o s s' o' Hv Hx.
      - simpl in Hx; inversion Hx.
      - simpl in Hv.
        destruct (touches false true prim SA CW e) eqn:Et.
        + (* an effect: no argument check from here on, so RINV is impossible *)
          simpl in Hv.
          destruct (is_argcheck e) eqn:Ea; simpl in Hv; [discriminate|].
          exfalso. eapply (exec_no_inv CW (e :: l)); [|exact Hx|reflexivity].
          intros e0 [<-|Hi]; [exact Ea|eapply vbe_seen_noargs; eauto].
        + simpl in Hv.
          assert (Hv' : vbe_scan prim SA false l = true).
          { destruct (is_argcheck e); simpl in Hv; [rewrite ?andb_false_r in Hv; simpl in Hv|]; exact Hv. }
          simpl in Hx.
          destruct (active mode CW e) eqn:Ha; simpl in Hx; [|eapply IH; eauto].
          assert (Hf : match ek e with
                       | KMirror => False
                       | KUnparsed => False
                       | _ => match callee e with
                              | Some (i, a) => prim i = false /\ SA i (tgt a CW) = false
                              | None => True
                              end
                       end).
          { unfold touches in Et. simpl in Et. rewrite andb_false_r in Et. simpl in Et.
            destruct (ek e); try discriminate; try exact I;
              try (destruct (callee e) as [[i0 a0]|]; [apply orb_false_iff in Et; exact Et|exact I]). }
          destruct (if econd e then pop o else (true, o)) as [take o1].
          destruct take; simpl in Hx; [|eapply IH; eauto].
          assert (Hstep : forall (Hf' : match callee e with Some (i, a) => prim i = false /\ SA i (tgt a CW) = false | None => True end),
                     (let '(r2, s2, o2) := do_callee rows prim call CW e o1 s in
                      match r2 with
                      | RFUEL => (RFUEL, s2, o2)
                      | ROK => exec rows prim mode call CW l o2 s2
                      | RERR | RINV => if erf e then (fail_res e, s2, o2) else exec rows prim mode call CW l o2 s2
                      end) = (RINV, s', o') -> same true s s').
          { intros Hf' Hy. destruct (do_callee rows prim call CW e o1 s) as [[r2 s2] o2] eqn:Eq.
            pose proof (do_callee_same _ _ _ _ _ _ _ _ _ _ _ _ Hpure Hf' Eq) as Hsame.
            destruct r2.
            - eapply same_trans; [exact Hsame|eapply IH; eauto].
            - destruct (erf e); [inversion Hy; subst; exact Hsame|eapply same_trans; [exact Hsame|eapply IH; eauto]].
            - destruct (erf e); [inversion Hy; subst; exact Hsame|eapply same_trans; [exact Hsame|eapply IH; eauto]].
            - discriminate Hy. }
          destruct (ek e) eqn:Ek; try (destruct Hf; fail).
          * apply (Hstep Hf Hx).
          * apply (Hstep Hf Hx).
          * destruct (rejects mode m); [destruct (erf e)|].
            -- inversion Hx; subst; apply same_err.
            -- eapply same_trans; [apply same_err|eapply IH; eauto].
            -- eapply IH; eauto.
          * apply (Hstep Hf Hx).
          * apply (Hstep Hf Hx).
          * eapply same_trans; [apply same_err|eapply IH; eauto].
          * destruct r; try discriminate. destruct (pop o1) as [b o2]; destruct b; discriminate.
          * eapply IH; eauto.
    Qed.
  End ExecInv.

  Theorem run_invalid : forall fuel id r0 o s s' o',
      rows id = Some r0 -> vbe_scan prim SA false (revs r0) = true ->
      run rows prim mode fuel CW id o s = (RINV, s', o') ->
      s_file s' = s_file s /\ s_mir s' = s_mir s.
  Proof.
    intros fuel id r0 o s s' o' Hr Hv Hx. destruct fuel as [|n]; simpl in Hx; [discriminate|].
    rewrite Hr in Hx.
    assert (Hs : same true s s').
    { eapply (exec_invalid (run rows prim mode n)); [|exact Hv|exact Hx].
      intros c i o0 s0 r1 s1 o1 Hsa Hc.
      eapply (run_pure rows prim mode false true SA); eauto. intros H; discriminate. }
    destruct Hs as [H1 H2]. split; [exact H1|apply H2; reflexivity].
  Qed.
End Invalid.

(* ------------------------------------------------------------------------------------------------ concrete tables *)
Lemma rows_of_in : forall t id r, rows_of t id = Some r -> In r t /\ rid r = id.
Proof.
  intros t id r H. unfold rows_of in H. apply find_some in H. destruct H as [H1 H2].
  split; [exact H1|apply Pos.eqb_eq; exact H2].
Qed.

Lemma closed_b_sound : forall um mi prim t S,
    closed_b um mi prim t S = true ->
    forall id r c e, rows_of t id = Some r -> In e (revs r) ->
                     touches um mi prim (inset S) c e = true -> inset S id c = true.
Proof.
  intros um mi prim t S H id r c e Hr He Ht.
  destruct (rows_of_in _ _ _ Hr) as [Hin Hid]. subst id.
  unfold closed_b in H. rewrite forallb_forall in H. specialize (H r Hin).
  apply andb_true_iff in H. destruct H as [HR HW].
  assert (Hx : row_touch um mi prim S r c = true).
  { unfold row_touch. apply existsb_exists. exists e. split; assumption. }
  destruct c; [rewrite Hx in HR; exact HR|rewrite Hx in HW; exact HW].
Qed.

Lemma gated_consistent_sound : forall prim SM t G,
    gated_consistent_b prim SM t G = true ->
    forall g, PositiveSet.mem g G = true ->
              exists r, rows_of t g = Some r /\ gate_scan prim SM (fun i => PositiveSet.mem i G) (revs r) = true.
Proof.
  intros prim SM t G H g Hg. unfold gated_consistent_b in H. apply andb_true_iff in H. destruct H as [H1 H2].
  apply PositiveSet.for_all_2 in H2; [|intros x y ->; reflexivity].
  assert (Hin : PositiveSet.In g G) by (apply PositiveSet.mem_2; exact Hg).
  specialize (H2 g Hin). simpl in H2.
  destruct (rows_of t g) as [r|] eqn:Er.
  - exists r. split; [reflexivity|]. destruct (rows_of_in _ _ _ Er) as [Hi Hid].
    rewrite forallb_forall in H1. specialize (H1 r Hi). rewrite Hid, Hg in H1. exact H1.
  - exfalso. apply existsb_exists in H2. destruct H2 as [r [Hi He]].
    unfold rows_of in Er. eapply find_none in Er; [|exact Hi]. rewrite He in Er. discriminate.
Qed.

(* everything the kernel has to evaluate on a concrete table, in one boolean *)
Theorem table_ro_unchanged : forall t a,
    an_ok t a = true ->
    forall fuel calls s rs s',
      (forall id o, In (id, o) calls -> PositiveSet.mem id (a_G a) = true \/ inset (a_S a) id CW = false) ->
      run_seq (rows_of t) (fun i => PositiveSet.mem i (a_prim a)) FRead fuel calls s = (rs, s') ->
      s_file s' = s_file s /\
      Forall2 (fun cl r => PositiveSet.mem (fst cl) (a_G a) = true -> r <> ROK) calls rs.
Proof.
  intros t a H fuel calls s rs s' Hd Hr. unfold an_ok in H.
  repeat (apply andb_true_iff in H; destruct H as [H ?]).
  eapply (ro_seq (rows_of t) (fun i => PositiveSet.mem i (a_prim a)) (inset (a_SM a)) (fun i => PositiveSet.mem i (a_G a))).
  - eapply closed_b_sound; eassumption.
  - eapply gated_consistent_sound; eassumption.
  - eapply closed_b_sound. exact H.
  - exact Hd.
  - exact Hr.
Qed.

Theorem table_gated_call : forall t a,
    an_ok t a = true ->
    forall fuel id o s r s' o',
      PositiveSet.mem id (a_G a) = true ->
      run (rows_of t) (fun i => PositiveSet.mem i (a_prim a)) FRead fuel CW id o s = (r, s', o') ->
      r <> ROK /\ s_file s' = s_file s /\ s_mir s' = s_mir s.
Proof.
  intros t a H fuel id o s r s' o' Hg Hr. unfold an_ok in H.
  repeat (apply andb_true_iff in H; destruct H as [H ?]).
  eapply (run_gated (rows_of t) (fun i => PositiveSet.mem i (a_prim a)) (inset (a_SM a)) (fun i => PositiveSet.mem i (a_G a))); eauto.
  - eapply closed_b_sound; eassumption.
  - eapply gated_consistent_sound; eassumption.
Qed.

(* a function outside the all-modes closure changes the file in NO mode *)
Theorem table_pure_any_mode : forall t a,
    an_ok t a = true ->
    forall mode fuel id o s r s' o',
      inset (a_Sany a) id CW = false ->
      run (rows_of t) (fun i => PositiveSet.mem i (a_prim a)) mode fuel CW id o s = (r, s', o') ->
      s_file s' = s_file s.
Proof.
  intros t a H mode fuel id o s r s' o' Hs Hr. unfold an_ok in H.
  repeat (apply andb_true_iff in H; destruct H as [H ?]).
  assert (Hsame : same false s s').
  { eapply (run_pure (rows_of t) (fun i => PositiveSet.mem i (a_prim a)) mode false false (inset (a_Sany a))); eauto.
    - intros Hf; discriminate.
    - eapply closed_b_sound; eassumption. }
  destruct Hsame; assumption.
Qed.

Theorem table_invalid_no_change : forall t a,
    an_ok t a = true ->
    forall mode fuel id r0 o s s' o',
      rows_of t id = Some r0 -> vbe_row a r0 = true ->
      run (rows_of t) (fun i => PositiveSet.mem i (a_prim a)) mode fuel CW id o s = (RINV, s', o') ->
      s_file s' = s_file s /\ s_mir s' = s_mir s.
Proof.
  intros t a H mode fuel id r0 o s s' o' Hr Hv Hx. unfold an_ok in H.
  repeat (apply andb_true_iff in H; destruct H as [H ?]).
  eapply (run_invalid (rows_of t) (fun i => PositiveSet.mem i (a_prim a)) mode (inset (a_SA a))); eauto.
  eapply closed_b_sound; eassumption.
Qed.

(* ------------------------------------------------------------------------------------------------ getters (C12) *)
Local Open Scope Z_scope.
Theorem getter_bounds : forall pairs g idx parent cnt arr hi lo lo_val sub i n,
    getter_ok pairs (GIdx g idx parent cnt arr hi lo lo_val sub) = true ->
    getter_accepts hi lo lo_val i n = true ->
    1 <= i <= n /\ 0 <= i + sub < n /\ i + sub = i - 1 /\ pair_mem (cnt, arr) pairs = true.
Proof.
  intros pairs g idx parent cnt arr hi lo lo_val sub i n Hok Hacc.
  unfold getter_ok in Hok. repeat (apply andb_true_iff in Hok; destruct Hok as [Hok ?]).
  destruct hi; try discriminate.
  assert (Hsub : sub = -1) by (apply Z.eqb_eq; assumption). subst sub.
  unfold getter_accepts in Hacc. apply negb_true_iff in Hacc. apply orb_false_iff in Hacc. destruct Hacc as [Hh Hl].
  simpl in Hh. rewrite Z.gtb_ltb in Hh. apply Z.ltb_ge in Hh.
  destruct lo; try discriminate.
  - destruct lo_val as [|[| |]|]; try discriminate. simpl in Hl. apply Z.ltb_ge in Hl.
    repeat split; try lia; assumption.
  - destruct lo_val; try discriminate. simpl in Hl. apply Z.leb_gt in Hl. repeat split; try lia; assumption.
Qed.

(* the accepted range is not empty, and nothing inside 1..n is rejected *)
Theorem getter_complete : forall pairs g idx parent cnt arr hi lo lo_val sub i n,
    getter_ok pairs (GIdx g idx parent cnt arr hi lo lo_val sub) = true ->
    1 <= i <= n -> getter_accepts hi lo lo_val i n = true.
Proof.
  intros pairs g idx parent cnt arr hi lo lo_val sub i n Hok Hi.
  unfold getter_ok in Hok. repeat (apply andb_true_iff in Hok; destruct Hok as [Hok ?]).
  destruct hi; try discriminate. unfold getter_accepts. apply negb_true_iff. apply orb_false_iff.
  split; [simpl; rewrite Z.gtb_ltb; apply Z.ltb_ge; lia|].
  destruct lo; try discriminate.
  - destruct lo_val as [|[| |]|]; try discriminate. simpl. apply Z.ltb_ge; lia.
  - destruct lo_val; try discriminate. simpl. apply Z.leb_gt; lia.
Qed.
Local Close Scope Z_scope.

(* ------------------------------------------------------------------------------------------------ error provenance *)
Lemma silent_closed_sound : forall ext t S,
    silent_closed_b ext t S = true ->
    forall r, In r t -> PositiveSet.mem (rid r) S = false ->
              forall e, In e (revs r) -> ret_silent (fun i => ext i || PositiveSet.mem i S) e = false.
Proof.
  intros ext t S H r Hr Hm e He. unfold silent_closed_b in H. rewrite forallb_forall in H. specialize (H r Hr).
  rewrite Hm in H. destruct (existsb _ (revs r)) eqn:Ex; [discriminate|].
  destruct (ret_silent _ e) eqn:Es; [|reflexivity].
  assert (existsb (ret_silent (fun i => ext i || PositiveSet.mem i S)) (revs r) = true)
    by (apply existsb_exists; exists e; split; assumption). congruence.
Qed.

(* a function outside a closed "silent" set: each of its failing returns has a message in its block, or is guarded by
   callees none of which is silent or an inline test *)
Theorem not_silent_explained : forall ext t S,
    silent_closed_b ext t S = true ->
    forall r, In r t -> PositiveSet.mem (rid r) S = false ->
    forall e rk w, In e (revs r) -> ek e = KRet rk w -> (rk = RErr \/ rk = RVar) ->
      w = WMsg \/ exists l, w = WCallee l /\
                            forall i, In i l -> i <> 1%positive /\ ext i = false /\ PositiveSet.mem i S = false.
Proof.
  intros ext t S H r Hr Hm e rk w He Hk Hrk.
  pose proof (silent_closed_sound _ _ _ H r Hr Hm e He) as Hs. unfold ret_silent in Hs. rewrite Hk in Hs.
  assert (Hw : match w with WMsg => false | WNone => true
                       | WCallee l => existsb (fun i => Pos.eqb i 1 || (ext i || PositiveSet.mem i S)) l end = false)
    by (destruct Hrk; subst rk; exact Hs).
  destruct w as [| |l]; [left; reflexivity|discriminate|].
  right. exists l. split; [reflexivity|]. intros i Hi.
  assert (Hx : (Pos.eqb i 1 || (ext i || PositiveSet.mem i S)) = false).
  { destruct (Pos.eqb i 1 || (ext i || PositiveSet.mem i S)) eqn:E; [|reflexivity].
    assert (existsb (fun i => Pos.eqb i 1 || (ext i || PositiveSet.mem i S)) l = true)
      by (apply existsb_exists; exists i; split; assumption). congruence. }
  apply orb_false_iff in Hx. destruct Hx as [H1 H2]. apply orb_false_iff in H2. destruct H2 as [H2 H3].
  split; [apply Pos.eqb_neq; exact H1|split; assumption].
Qed.
