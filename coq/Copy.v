(* Copy.v -- executable model of the tree copy of src/cgns_io.c (recurse_nodes, cgio_copy_node,
   cgio_compute_data_size, cgio_copy_file, rewrite_file / cgio_compress_file), of cg_save_as (src/cgnslib.c) and of
   the tool drivers built on them (tools/cgnsconvert.c, tools/cgnscompress.c), and of the comparison made by
   tools/cgnsdiff.c (compare_data, compare_nodes).  Definitions only; proofs in CopyProofs.v.

   A file is its root node.  A node is either a proper node (name, label, data type, dimension values, the bytes
   of its data, ordered children) or a link node (name, file, path).  An empty [file] is an internal link.
   The source is read through the cgio queries the C code uses (number_children / children_ids / get_name /
   is_link / link_size / get_link / get_label / get_data_type / get_dimensions / read_all_data); queries on a link
   id answer for the link's target, which is what [resolve] / [chase] stand for.
   The output is built with create_node / create_link / set_label / put_dimension_information / write_all_data. *)
From Coq Require Import ZArith List Bool Lia.
From CgnsV Require Import ListX.
Import ListNotations.
Local Open Scope Z_scope.

Definition bytes := list Z.

Inductive node :=
| Node (nm lbl dt : bytes) (dims : list Z) (data : bytes) (kids : list node)
| LinkNode (nm file path : bytes).

Definition node_name (n : node) : bytes :=
  match n with Node nm _ _ _ _ _ => nm | LinkNode nm _ _ => nm end.
Definition kids_of (n : node) : list node :=
  match n with Node _ _ _ _ _ ks => ks | LinkNode _ _ _ => [] end.
Definition is_link (n : node) : bool :=
  match n with Node _ _ _ _ _ _ => false | LinkNode _ _ _ => true end.
Definition rename (nm : bytes) (n : node) : node :=
  match n with Node _ l dt d da ks => Node nm l dt d da ks | LinkNode _ f p => LinkNode nm f p end.

Fixpoint bytes_eqb (a b : bytes) : bool :=
  match a, b with
  | [], [] => true
  | x :: a', y :: b' => (x =? y) && bytes_eqb a' b'
  | _, _ => false
  end.
Definition is_nil {A} (l : list A) : bool := match l with [] => true | _ => false end.

Definition s_MT : bytes := [77; 84].

(* ---- results ---------------------------------------------------------------------------------------------- *)
(* Err      : a cgio call returned an error (the copy fails, reported to the caller)
   OutOfFuel: the model's recursion budget for following links ran out (excluded by the theorems)
   Overflow : the C code writes past the buffer it allocated (memory error, no defined result) *)
Inductive res (A : Type) := Ok (a : A) | Err | OutOfFuel | Overflow.
Arguments Ok {A} a. Arguments Err {A}. Arguments OutOfFuel {A}. Arguments Overflow {A}.
Definition bind {A B} (r : res A) (f : A -> res B) : res B :=
  match r with Ok a => f a | Err => Err | OutOfFuel => OutOfFuel | Overflow => Overflow end.

(* ---- two versions of the code --------------------------------------------------------------------------------
   Cur : /repo as it is now.
   Old : the code before the repairs cb07d24 (cgio_compute_data_size looked at upper-case letters only), 3a1c414
         (ADF_Read_All_Data accepted a simple memory type for a node of compound type), 39f8525 (cgnsdiff compared
         the labels of the two root nodes) and e3072bd (cgnsdiff built paths in char[1024]).  Kept so that the
         ..._old_refuted theorems document what the repairs changed; every positive theorem is about Cur. *)
Inductive ver := Old | Cur.

(* ---- cgio_compute_data_size / compute_data_size (cgns_io.c:160-168, 680-711) ------------------------------ *)
(* switch on data_type[0]: 'B','C' -> return CG_ERROR (= 1); 'I','U' -> [1]=='4' ? sizeof(int) : [1]=='8' ?
   sizeof(cglong_t); 'R' -> 4 / 8; 'X' -> 8 / 16; everything else (break / no case) -> CG_OK (= 0). *)
Definition second (dt : bytes) : Z := match dt with _ :: c :: _ => c | _ => 0 end.
Definition type_size_upper (dt : bytes) : Z :=
  match dt with
  | 66 :: _ => 1                                              (* 'B' *)
  | 67 :: _ => 1                                              (* 'C' *)
  | 73 :: _ => if second dt =? 52 then 4 else if second dt =? 56 then 8 else 0   (* 'I' *)
  | 85 :: _ => if second dt =? 52 then 4 else if second dt =? 56 then 8 else 0   (* 'U' *)
  | 82 :: _ => if second dt =? 52 then 4 else if second dt =? 56 then 8 else 0   (* 'R' *)
  | 88 :: _ => if second dt =? 52 then 8 else if second dt =? 56 then 16 else 0  (* 'X' *)
  | _ => 0
  end.
(* if (ndims > 0) { count = dims[0]; for (i = 1; i < ndims; i++) count *= dims[i]; } else count = 0; *)
Definition elem_count (dims : list Z) : Z :=
  match dims with [] => 0 | d :: rest => fold_left Z.mul rest d end.
Definition upper (c : Z) : Z := if (97 <=? c) && (c <=? 122) then c - 32 else c.
(* since cb07d24: switch (toupper((unsigned char)*data_type)) -- the first character only *)
Definition norm_type (dt : bytes) : bytes := match dt with c :: r => upper c :: r | [] => [] end.
Definition type_size (v : ver) (dt : bytes) : Z :=
  match v with Cur => type_size_upper (norm_type dt) | Old => type_size_upper dt end.
Definition compute_data_size (v : ver) (dt : bytes) (dims : list Z) : Z := type_size v dt * elem_count dims.

(* ---- the output database ---------------------------------------------------------------------------------- *)
Definition fresh (nm : bytes) : node := Node nm [] s_MT [] [] [].

(* cgio_create_node(output, OutputID, name, &newID): a new empty child, last in the parent's list *)
Definition create_node (out : node) (nm : bytes) : res node :=
  match out with
  | Node n l t d da ks => Ok (Node n l t d da (ks ++ [fresh nm]))
  | LinkNode _ _ _ => Err
  end.
(* cgio_create_link(output, OutputID, name, link_file, link_name, &newID) *)
Definition create_link (out : node) (nm file path : bytes) : res node :=
  match out with
  | Node n l t d da ks => Ok (Node n l t d da (ks ++ [LinkNode nm file path]))
  | LinkNode _ _ _ => Err
  end.
(* run [f] on the node newID designates (the child created last) *)
Fixpoint on_last (ks : list node) (f : node -> res node) : res (list node) :=
  match ks with
  | [] => Err
  | [k] => bind (f k) (fun k' => Ok [k'])
  | k :: rest => bind (on_last rest f) (fun rest' => Ok (k :: rest'))
  end.
Definition with_new (out : node) (f : node -> res node) : res node :=
  match out with
  | Node n l t d da ks => bind (on_last ks f) (fun ks' => Ok (Node n l t d da ks'))
  | LinkNode _ _ _ => Err
  end.

(* ADF_Put_Dimension_Information / ADFH_Put_Dimension_Information as cgio_copy_node calls them.
   ADF keeps the type string as given; ADFH keeps the first two characters in upper case, accepts only the ten
   simple types (and MT), and refuses ndims = 0 for a type other than MT. *)
Definition std_type (dt : bytes) : bool :=
  match dt with
  | [66; 49] | [67; 49] | [73; 52] | [73; 56] | [85; 52] | [85; 56] | [82; 52] | [82; 56] | [88; 52] | [88; 56] => true
  | _ => false
  end.
Definition put_dims (dst_hdf5 : bool) (out : node) (dt : bytes) (dims : list Z) : res node :=
  match out with
  | LinkNode _ _ _ => Err
  | Node n l _ _ _ ks =>
      if dst_hdf5 then
        let t2 := map upper (firstn 2 dt) in
        if bytes_eqb t2 s_MT then Ok (Node n l t2 [] [] ks)
        else if std_type t2 && negb (is_nil dims) then Ok (Node n l t2 dims [] ks) else Err
      else
        if bytes_eqb dt s_MT then Ok (Node n l dt [] [] ks) else Ok (Node n l dt dims [] ks)
  end.
Definition set_label (out : node) (lbl : bytes) : res node :=
  match out with Node n _ t d da ks => Ok (Node n lbl t d da ks) | LinkNode _ _ _ => Err end.
Definition write_all (out : node) (data : bytes) : res node :=
  match out with Node n l t d _ ks => Ok (Node n l t d data ks) | LinkNode _ _ _ => Err end.

(* ---- cgio_copy_node (cgns_io.c:1245-1346) ------------------------------------------------------------------
   label, data_type, ndims read from the input; if (ndims > 0) { dims; data_size = compute_data_size(...);
   if (data_size) { data = malloc(data_size); Read_All_Data(id, data_type, data) } }
   then Set_Label; Put_Dimension_Information; if (data_size) Write_All_Data.
   ADF_Get_Data_Type / ADFH_Get_Data_Type hand out the first TWO characters of the type string
   (ADF_CGIO_DATA_TYPE_LENGTH); that is the string everything below works with.
   Read_All_Data transfers ALL of the node's data: more than data_size bytes is a write past the malloc'd
   buffer; a node that has dimensions but no data makes the read (ADF) fail.  Since 3a1c414 the read refuses
   (INVALID_DATA_TYPE) a two-character memory type for a node whose type string goes on (a compound type). *)
Definition copy_node (v : ver) (dst_hdf5 : bool) (lbl dt : bytes) (dims : list Z) (data : bytes) (out : node) : res node :=
  let dt2 := firstn 2 dt in
  let data_size := if is_nil dims then 0 else compute_data_size v dt2 dims in
  bind (if data_size =? 0 then Ok tt
        else if (match v with Cur => 2 <? lenZ dt | Old => false end) then Err
        else if data_size <? lenZ data then Overflow
        else if lenZ data <? data_size then Err else Ok tt) (fun _ =>
  bind (set_label out lbl) (fun o1 =>
  bind (put_dims dst_hdf5 o1 dt2 dims) (fun o2 =>
  if data_size =? 0 then Ok o2 else write_all o2 data))).

(* name_len && (file_len == 0 || follow_links == 0)    (cgns_io.c:198) *)
Definition keep_link (file path : bytes) (follow : bool) : bool :=
  negb (is_nil path) && (is_nil file || negb follow).

(* ---- recurse_nodes (cgns_io.c:172-226) ----------------------------------------------------------------------
   [resolve file path] is the node the queries on a link id answer for (None: the target cannot be reached).
   The recursion on the children of the source is structural; fuel is spent only when an external link is
   followed into another tree. *)
Section Recurse.
Variable v : ver.
Variable dst_hdf5 : bool.
Variable resolve : bytes -> bytes -> option node.

(* the loop over the children, cgns_io.c:189-224; [go] is the recursive call on a proper child, [go_link] the
   recursive call through a link that is followed *)
Section Loop.
Variable go : node -> node -> Z -> res node.
Variable go_link : bytes -> bytes -> node -> Z -> res node.
Variable follow : bool.
Fixpoint kids_loop (ks : list node) (out : node) (depth : Z) {struct ks} : res node :=
  match ks with
  | [] => Ok out
  | k :: rest =>
      match k with
      | LinkNode nm file path =>
          if keep_link file path follow then
            bind (create_link out nm file path) (fun out' => kids_loop rest out' depth)
          else
            bind (create_node out nm) (fun out' =>
            bind (with_new out' (fun c => go_link file path c (depth + 1))) (fun out'' =>
            kids_loop rest out'' (depth + 1)))
      | Node nm _ _ _ _ _ =>
          bind (create_node out nm) (fun out' =>
          bind (with_new out' (fun c => go k c (depth + 1))) (fun out'' =>
          kids_loop rest out'' (depth + 1)))
      end
  end.
End Loop.

Fixpoint recurse_nodes (fuel : nat) (follow : bool) : node -> node -> Z -> res node :=
  fix go (src : node) (out : node) (depth : Z) {struct src} : res node :=
    match src with
    | LinkNode _ _ _ => Err
    | Node _ lbl dt dims data kids =>
        (* if (depth && cgio_copy_node(input, InputID, output, OutputID)) return CG_ERROR; *)
        bind (if depth =? 0 then Ok out else copy_node v dst_hdf5 lbl dt dims data out) (fun out1 =>
        kids_loop go
          (fun file path c d =>
             match fuel with
             | O => OutOfFuel
             | S f => match resolve file path with
                      | None => Err
                      | Some tgt => recurse_nodes f follow tgt c d
                      end
             end)
          follow kids out1 depth)
    end.

(* cgio_copy_file: recurse_nodes(inp, input->rootid, out, output->rootid, follow_links, 0) *)
Definition copy_file (fuel : nat) (follow : bool) (src_root out_root : node) : res node :=
  recurse_nodes fuel follow src_root out_root 0.
End Recurse.

(* the root node a back end gives a newly created file *)
Definition adf_root : node := Node [65;68;70;32;77;111;116;104;101;114;78;111;100;101]
  [82;111;111;116;32;78;111;100;101;32;111;102;32;65;68;70;32;70;105;108;101] s_MT [] [] [].
Definition hdf5_root : node := Node [72;68;70;53;32;77;111;116;104;101;114;78;111;100;101]
  [82;111;111;116;32;78;111;100;101;32;111;102;32;72;68;70;53;32;70;105;108;101] s_MT [] [] [].
Definition new_root (hdf5 : bool) : node := if hdf5 then hdf5_root else adf_root.

(* ---- worlds of files, link resolution ------------------------------------------------------------------------- *)
Definition world := list (bytes * node).
Fixpoint get_file (w : world) (f : bytes) : option node :=
  match w with [] => None | (g, r) :: rest => if bytes_eqb g f then Some r else get_file rest f end.
Fixpoint set_file (w : world) (f : bytes) (r : node) : world :=
  match w with
  | [] => [(f, r)]
  | (g, r0) :: rest => if bytes_eqb g f then (f, r) :: rest else (g, r0) :: set_file rest f r
  end.
Fixpoint find_kid (ks : list node) (nm : bytes) : option node :=
  match ks with [] => None | k :: rest => if bytes_eqb (node_name k) nm then Some k else find_kid rest nm end.

(* path segments: separated by '/', empty segments ignored *)
Fixpoint split_path (p : bytes) (cur : bytes) : list bytes :=
  match p with
  | [] => if is_nil cur then [] else [cur]
  | c :: rest => if c =? 47 then (if is_nil cur then split_path rest [] else cur :: split_path rest [])
                 else split_path rest (cur ++ [c])
  end.

(* the proper node (and the file it lives in) a node id answers for: links are chased, also along the path *)
Fixpoint chase (fuel : nat) (w : world) (cur : bytes) (n : node) {struct fuel} : option (bytes * node) :=
  match n with
  | Node _ _ _ _ _ _ => Some (cur, n)
  | LinkNode _ file path =>
      match fuel with
      | O => None
      | S f =>
          let tf := if is_nil file then cur else file in
          match get_file w tf with
          | None => None
          | Some root =>
              (fix walk (cf : bytes) (at_ : node) (segs : list bytes) {struct segs} : option (bytes * node) :=
                 match segs with
                 | [] => Some (cf, at_)
                 | s :: rest =>
                     match find_kid (kids_of at_) s with
                     | None => None
                     | Some k => match chase f w cf k with
                                 | Some (cf', k') => walk cf' k' rest
                                 | None => None
                                 end
                     end
                 end) tf root (split_path path [])
          end
      end
  end.

Definition link_fuel : nat := 64.
Definition resolve_in (w : world) (cur : bytes) (file path : bytes) : option node :=
  match chase link_fuel w cur (LinkNode [] file path) with Some (_, t) => Some t | None => None end.

(* ---- the entry points as compositions ---------------------------------------------------------------------------- *)
(* cgio_copy_file between two open files of a world; the output file has just been created *)
Definition do_copy_file (v : ver) (fuel : nat) (w : world) (src dst : bytes) (dst_hdf5 follow : bool) : res world :=
  match get_file w src with
  | None => Err
  | Some r =>
      bind (copy_file v dst_hdf5 (resolve_in w src) fuel follow r (new_root dst_hdf5))
           (fun r' => Ok (set_file w dst r'))
  end.
(* cg_save_as(fn, filename, file_type, follow_links): cgio_open_file(filename, WRITE, file_type) ; cgio_copy_file ;
   cgio_close_file *)
Definition cg_save_as := do_copy_file.
(* cgnsconvert [-l] in out: cgio_copy_file(inp, tempfile, links) ; unlink(out) ; rename(tempfile, out) *)
Definition cgnsconvert := do_copy_file.
(* rewrite_file(cginp, filename): copy into "<filename>.temp" of the SAME type with follow_links = 0, close both,
   unlink(filename), rename(temp, filename)  -- cgio_compress_file, compress-on-close of cg_close, cgnscompress *)
Definition rewrite_file (v : ver) (fuel : nat) (w : world) (src filename : bytes) (src_hdf5 : bool) : res world :=
  do_copy_file v fuel w src filename src_hdf5 false.
Definition cgio_compress_file := rewrite_file.

(* ---- fully resolved view (what a reader that follows every link sees) ---------------------------------------------- *)
Fixpoint full_view (fuel : nat) (w : world) (cur : bytes) (n : node) {struct fuel} : option node :=
  match fuel with
  | O => None
  | S f =>
      match chase link_fuel w cur n with
      | Some (cf, Node _ l dt d da ks) =>
          match (fix all (ks : list node) : option (list node) :=
                   match ks with
                   | [] => Some []
                   | k :: rest => match full_view f w cf k, all rest with
                                  | Some k', Some rest' => Some (k' :: rest')
                                  | _, _ => None
                                  end
                   end) ks with
          | Some ks' => Some (Node (node_name n) l dt d da ks')
          | None => None
          end
      | _ => None
      end
  end.

(* =====================================================================================================================
   cgnsdiff (tools/cgnsdiff.c): options -c -i -d -f -t (-q sets a variable nobody reads),
   whole-file mode (recurse = 1) and dataset mode with / without -r
   ===================================================================================================================== *)
Inductive dline :=
| DLabel (p1 p2 : bytes)        (* "%s <> %s : labels differ" *)
| DType (p1 p2 : bytes)         (* data types differ *)
| DNdim (p1 p2 : bytes)         (* number of dimensions differ *)
| DDims (p1 p2 : bytes)         (* dimensions differ *)
| DData (p1 p2 : bytes)         (* data values differ *)
| DLeft (p : bytes)             (* "< %s/%s" *)
| DRight (p : bytes)            (* "> %s/%s" *)
| DErrExit                      (* err_exit: a cgio call failed (e.g. a link that cannot be resolved) *)
| DPathOverflow                 (* sprintf past char path1[1024] / path2[1024] *)
| DOutOfBounds                  (* children2[33*n2] read with n2 >= nc2 (only when normalised names collide) *)
| DFuel.                        (* model budget exhausted (excluded by the theorems) *)

(* data_size (cgnsdiff.c:63-101): exact two-character type names; 0 for anything else or ndim < 1 *)
Definition diff_type_size (dt : bytes) : Z :=
  match dt with
  | [67; 49] | [66; 49] => 1
  | [73; 52] | [85; 52] => 4
  | [73; 56] | [85; 56] => 8
  | [82; 52] => 4 | [82; 56] => 8
  | [88; 52] => 8 | [88; 56] => 16
  | _ => 0
  end.
Definition diff_data_size (dt : bytes) (dims : list Z) : Z :=
  if is_nil dims then 0 else diff_type_size dt * fold_left Z.mul dims 1.

(* ---- -t<tol>: compare_floats / compare_doubles (cgnsdiff.c:113-131) and the choice made in compare_data (:210-219) -----------
   data_size sets *size = 4 for R4 and X4, 8 for R8 and X8, 0 for every other type.  With tol > 0.0 and *size != 0 the
   data are compared numerically, element by element: as (bytes >> 2) floats when *size == 4 -- so the two components of an
   X4 value are two floats --, as (bytes >> 3) doubles otherwise; "fabs (d1[n] - d2[n]) > tol" with the subtraction in the
   element's own format (binary32 for floats, then widened exactly) and tol a double (atof).  Integers, characters and a
   tolerance that is not > 0 (0, negative, NaN): compare_bytes.  IEEE arithmetic through Flocq. *)
From Flocq Require Import Core.Zaux Core.Raux IEEE754.BinarySingleNaN IEEE754.Binary IEEE754.Bits.
Definition Hp64 : FLX.Prec_gt_0 53 := eq_refl.
Definition Hm64 : Prec_lt_emax 53 1024 := eq_refl.
Definition Hp32 : FLX.Prec_gt_0 24 := eq_refl.
Definition Hm32 : Prec_lt_emax 24 128 := eq_refl.
Definition dbl (u : Z) : BinarySingleNaN.binary_float 53 1024 := B2BSN 53 1024 (b64_of_bits u).
Definition flt (u : Z) : BinarySingleNaN.binary_float 24 128 := B2BSN 24 128 (b32_of_bits u).
(* (double) of a float: exact *)
Definition widen (x : BinarySingleNaN.binary_float 24 128) : BinarySingleNaN.binary_float 53 1024 :=
  match x with
  | BinarySingleNaN.B754_zero s => BinarySingleNaN.B754_zero s
  | BinarySingleNaN.B754_infinity s => BinarySingleNaN.B754_infinity s
  | BinarySingleNaN.B754_nan => BinarySingleNaN.B754_nan
  | BinarySingleNaN.B754_finite s mm e _ =>
      BinarySingleNaN.binary_normalize 53 1024 Hp64 Hm64 mode_NE (cond_Zopp s (Zpos mm)) e s
  end.
Definition gt_tol (x : BinarySingleNaN.binary_float 53 1024) (tol : Z) : bool :=
  match BinarySingleNaN.Bcompare (BinarySingleNaN.Babs x) (dbl tol) with Some Gt => true | _ => false end.
(* fabs (d1[n] - d2[n]) > tol   on the bit patterns of two doubles / two floats and of the double tol *)
Definition exceeds_tol64 (d1 d2 tol : Z) : bool :=
  gt_tol (@BinarySingleNaN.Bminus 53 1024 Hp64 Hm64 mode_NE (dbl d1) (dbl d2)) tol.
Definition exceeds_tol32 (d1 d2 tol : Z) : bool :=
  gt_tol (widen (@BinarySingleNaN.Bminus 24 128 Hp32 Hm32 mode_NE (flt d1) (flt d2))) tol.
(* for (n = 0; n < cnt; n++) if (fabs(d1[n] - d2[n]) > tol) return 1;  return 0; *)
Fixpoint compare_doubles (tol : Z) (d1 d2 : list Z) : bool :=
  match d1, d2 with
  | x :: r1, y :: r2 => if exceeds_tol64 x y tol then true else compare_doubles tol r1 r2
  | _, _ => false
  end.
Fixpoint compare_floats (tol : Z) (d1 d2 : list Z) : bool :=
  match d1, d2 with
  | x :: r1, y :: r2 => if exceeds_tol32 x y tol then true else compare_floats tol r1 r2
  | _, _ => false
  end.
(* tol > 0.0 *)
Definition tol_active (tol : Z) : bool :=
  match BinarySingleNaN.Bcompare (dbl tol) (BinarySingleNaN.B754_zero false) with Some Gt => true | _ => false end.
(* *size of data_size *)
Definition diff_num_size (dt : bytes) : Z :=
  match dt with
  | [82; 52] | [88; 52] => 4
  | [82; 56] | [88; 56] => 8
  | _ => 0
  end.
(* the data as the (cnt) little-endian values of n bytes each that the C code indexes; a trailing partial value is not looked at *)
Fixpoint le_val (bs : bytes) : Z := match bs with [] => 0 | b :: r => b + 256 * le_val r end.
Fixpoint groups (n : nat) (fuel : nat) (l : bytes) : list Z :=
  match fuel with
  | O => []
  | S f => let g := firstn n l in if (length g <? n)%nat then [] else le_val g :: groups n f (skipn n l)
  end.
Definition values (n : nat) (l : bytes) : list Z := groups n (length l) l.

(* compare_data (cgnsdiff.c:133-225) on the nodes the two ids answer for *)
Definition compare_data (node_data : bool) (tol : Z) (name1 name2 : bytes) (n1 n2 : node) : list dline :=
  match n1, n2 with
  | Node _ l1 t1 d1 da1 _, Node _ l2 t2 d2 da2 _ =>
      if negb (bytes_eqb l1 l2) then [DLabel name1 name2]
      else if negb (bytes_eqb t1 t2) then [DType name1 name2]
      else if negb (Nat.eqb (length d1) (length d2)) then [DNdim name1 name2]
      else if negb (bytes_eqb d1 d2) then [DDims name1 name2]
      else if negb node_data || is_nil d1 then []
      else let b := diff_data_size t1 d1 in
           if 0 <? b then
             let a1 := firstn (Z.to_nat b) da1 in
             let a2 := firstn (Z.to_nat b) da2 in
             let err := if tol_active tol && negb (diff_num_size t1 =? 0)
                        then (if diff_num_size t1 =? 4 then compare_floats tol (values 4 a1) (values 4 a2)
                              else compare_doubles tol (values 8 a1) (values 8 a2))
                        else negb (bytes_eqb a1 a2) in
             if err then [DData name1 name2] else []
           else []
  | _, _ => [DErrExit]
  end.

(* strcmp on the names (printable ASCII) *)
Fixpoint bytes_ltb (a b : bytes) : bool :=
  match a, b with
  | [], [] => false
  | [], _ :: _ => true
  | _ :: _, [] => false
  | x :: a', y :: b' => if x <? y then true else if y <? x then false else bytes_ltb a' b'
  end.
(* ---- name normalisation: copy_name (cgnsdiff.c:227-253) ------------------------------------------------------------------
   nospace (-i): characters with isspace() are dropped; nocase (-c): tolower() on every (remaining) character. *)
Definition isspace (c : Z) : bool := (c =? 32) || ((9 <=? c) && (c <=? 13)).
Definition tolower (c : Z) : Z := if (65 <=? c) && (c <=? 90) then c + 32 else c.
Definition copy_name (nocase nospace : bool) (nm : bytes) : bytes :=
  if nospace then
    if nocase then map tolower (filter (fun c => negb (isspace c)) nm)
    else filter (fun c => negb (isspace c)) nm
  else if nocase then map tolower nm
  else nm.

(* the options of a run *)
Record dopts := mkO { d_data : bool;       (* -d *)
                      d_follow : bool;     (* -f *)
                      d_case : bool;       (* -c *)
                      d_space : bool;      (* -i *)
                      d_recurse : bool;    (* -r, or no dataset arguments *)
                      d_tol : Z }.         (* -t<tol>: the bits of the double atof gives; 0 = the default 0.0 *)
(* sort_children (the qsort comparator) and find_name each call copy_name on what they compare: TWO uses of the
   normalisation that must agree -- bisection over a list is only correct when the list is sorted by the key the
   search compares (KeysAgree in CopyProofs.v is that obligation) *)
Definition sort_key (o : dopts) : bytes -> bytes := copy_name (d_case o) (d_space o).
Definition find_key (o : dopts) : bytes -> bytes := copy_name (d_case o) (d_space o).

(* the matching code before / after the repair 180fd8e:
   MOld : find_name probes the first AND the last entry, bisects, and answers the entry the bisection hits; the merge
          loop searches the WHOLE second list for every child of the first;
   MCur : find_name probes the first entry, bisects, and walks back to the FIRST entry of a run of equal keys; the loop
          searches only the entries of the second list that are not paired yet (and nothing once they are used up). *)
Inductive mver := MOld | MCur.

(* qsort (children, nc, 33, sort_children): strcmp (key v1, key v2).  glibc's qsort is a merge sort (stable); the
   order of entries with EQUAL keys matters only when normalised names collide *)
Section SortBy.
Variable m : mver.
Variable key : bytes -> bytes.
Fixpoint insert_name_by (x : bytes) (l : list bytes) : list bytes :=
  match l with
  | [] => [x]
  | y :: rest => if bytes_ltb (key y) (key x) then y :: insert_name_by x rest else x :: l
  end.
Fixpoint sort_names_by (l : list bytes) : list bytes :=
  match l with [] => [] | x :: rest => insert_name_by x (sort_names_by rest) end.

(* find_name (cgnsdiff.c:264-294): p1 = key name; the first (MOld: and the last) entry is probed, then
   while (lo <= hi) { mid = (lo + hi) >> 1; cmp = strcmp (p1, key list[mid]);
                      0 -> MOld: return mid;  MCur: while (mid > 0 && key list[mid-1] == p1) mid--; return mid;
                      > 0 -> lo = mid + 1; else hi = mid - 1 } *)
Fixpoint walk_back (fuel : nat) (p1 : bytes) (l : list bytes) (mid : Z) : Z :=
  match fuel with
  | O => mid
  | S f => if (0 <? mid) && bytes_eqb p1 (key (nth (Z.to_nat (mid - 1)) l [])) then walk_back f p1 l (mid - 1) else mid
  end.
Fixpoint bisect (fuel : nat) (p1 : bytes) (l : list bytes) (lo hi : Z) : Z :=
  match fuel with
  | O => -1
  | S f =>
      if hi <? lo then -1
      else
        let mid := (lo + hi) / 2 in
        let p2 := key (nth (Z.to_nat mid) l []) in
        if bytes_eqb p1 p2 then (match m with MOld => mid | MCur => walk_back (Z.to_nat mid) p1 l mid end)
        else if bytes_ltb p2 p1 then bisect f p1 l (mid + 1) hi
        else bisect f p1 l lo (mid - 1)
  end.
Definition find_name (name : bytes) (l : list bytes) : Z :=
  let p1 := key name in
  let hi := lenZ l - 1 in
  if bytes_eqb p1 (key (nth 0 l [])) then 0
  else if (match m with MOld => true | MCur => false end) && bytes_eqb p1 (key (nth (Z.to_nat hi) l [])) then hi
  else bisect (S (length l)) p1 l 0 hi.
(* what the search is FOR: the position of the first entry with that key, -1 when there is none *)
Fixpoint find_scan_from (p1 : bytes) (l : list bytes) (i : Z) : Z :=
  match l with
  | [] => -1
  | y :: rest => if bytes_eqb p1 (key y) then i else find_scan_from p1 rest (i + 1)
  end.
Definition find_scan (name : bytes) (l : list bytes) : Z := find_scan_from (key name) l 0.
End SortBy.

Definition slash (a b : bytes) : bytes := a ++ 47 :: b.
(* if (0 == strcmp (name, "/")) name = ""; *)
Definition unroot (name : bytes) : bytes := if bytes_eqb name [47] then [] else name.
(* sprintf (path, "%s/%s", name, p) into char path[1024] *)
Definition path_fits (name p : bytes) : bool := lenZ name + 1 + lenZ p + 1 <=? 1024.

(* the matching loop, cgnsdiff.c:352-392; [rec p q] compares child p of the first with child q of the second node;
   [kfind] is the key find_name searches with *)
Section DiffLoop.
Variable m : mver.
Variable chk : bool.            (* paths are built in char[1024] (before e3072bd) *)
Variable kfind : bytes -> bytes.
Variable rec : bytes -> bytes -> list dline.
Variables (c2 : list bytes) (nm1 nm2 : bytes).
Fixpoint diff_loop (l1 : list bytes) (n2_ : Z) {struct l1} : list dline :=
  match l1 with
  | [] => map (fun q => DRight (slash nm2 q)) (skipn (Z.to_nat n2_) c2)
  | p :: rest =>
      (* MOld: nret = find_name (p, nc2, children2);
         MCur: nret = n2 < nc2 ? find_name (p, nc2 - n2, &children2[33*n2]) : -1;  if (nret >= 0) nret += n2; *)
      let nret := match m with
                  | MOld => find_name MOld kfind p c2
                  | MCur => if n2_ <? lenZ c2
                            then (let r := find_name MCur kfind p (skipn (Z.to_nat n2_) c2) in if 0 <=? r then r + n2_ else r)
                            else -1
                  end in
      if nret <? 0 then DLeft (slash nm1 p) :: diff_loop rest n2_
      else
        let gap := firstn (Z.to_nat (nret - n2_)) (skipn (Z.to_nat n2_) c2) in
        let n2' := Z.max n2_ nret in
        map (fun q => DRight (slash nm2 q)) gap ++
        (if lenZ c2 <=? n2' then [DOutOfBounds]                 (* p = &children2[33*n2] past the array *)
         else
           let q := nth (Z.to_nat n2') c2 [] in
           if negb chk || (path_fits nm1 p && path_fits nm2 q) then rec p q ++ diff_loop rest (n2' + 1)
           else [DPathOverflow])
  end.
End DiffLoop.

Section Diff.
Variable v : ver.
Variable m : mver.
Variable o : dopts.
Variable w1 w2 : world.

Fixpoint compare_nodes (fuel : nat) (name1 : bytes) (cf1 : bytes) (n1 : node)
                       (name2 : bytes) (cf2 : bytes) (n2 : node) {struct fuel} : list dline :=
  match fuel with
  | O => [DFuel]
  | S f =>
      match chase link_fuel w1 cf1 n1, chase link_fuel w2 cf2 n2 with
      | Some (f1, r1), Some (f2, r2) =>
          (* since 39f8525: if (strcmp (name1, "/") || strcmp (name2, "/")) compare_data (...) *)
          let out := if (match v with Cur => true | Old => false end) && bytes_eqb name1 [47] && bytes_eqb name2 [47]
                     then [] else compare_data (d_data o) (d_tol o) name1 name2 r1 r2 in
          if negb (d_recurse o) then out                                   (* if (!recurse) return; *)
          else if negb (d_follow o) && (is_link n1 || is_link n2) then out
          else
            let c1 := sort_names_by (sort_key o) (map node_name (kids_of r1)) in
            let c2 := sort_names_by (sort_key o) (map node_name (kids_of r2)) in
            let nm1 := unroot name1 in
            let nm2 := unroot name2 in
            out ++
            (if is_nil c1 then map (fun q => DRight (slash nm2 q)) c2
             else if is_nil c2 then map (fun p => DLeft (slash nm1 p)) c1
             else
               diff_loop m (match v with Old => true | Cur => false end) (find_key o)
                 (fun p q =>
                    match find_kid (kids_of r1) p, find_kid (kids_of r2) q with
                    | Some k1, Some k2 => compare_nodes f (slash nm1 p) f1 k1 (slash nm2 q) f2 k2
                    | _, _ => [DErrExit]
                    end)
                 c2 nm1 nm2 c1 0)
      | _, _ => [DErrExit]
      end
  end.

(* main without dataset arguments: recurse = 1; compare_nodes ("/", root1, "/", root2) *)
Definition cgnsdiff (fuel : nat) (file1 file2 : bytes) : list dline :=
  match get_file w1 file1, get_file w2 file2 with
  | Some r1, Some r2 => compare_nodes fuel [47] file1 r1 [47] file2 r2
  | _, _ => [DErrExit]
  end.
End Diff.
Definition whole (o : dopts) : dopts := mkO (d_data o) (d_follow o) (d_case o) (d_space o) true (d_tol o).

(* main with dataset arguments: cgio_get_node_id (root, ds) on both files (err_exit when absent), then
   compare_nodes (ds1, node1, ds2, node2) with recurse as given by -r.  [walk_path] resolves a path of names. *)
Fixpoint walk_path (w : world) (cf : bytes) (n : node) (segs : list bytes) : option (bytes * node) :=
  match segs with
  | [] => Some (cf, n)
  | s :: rest =>
      match chase link_fuel w cf n with
      | Some (cf', r) => match find_kid (kids_of r) s with
                         | Some k => walk_path w cf' k rest
                         | None => None
                         end
      | None => None
      end
  end.
Definition cgnsdiff_ds (v : ver) (m : mver) (o : dopts) (w1 w2 : world) (fuel : nat) (file1 ds1 file2 ds2 : bytes) : list dline :=
  match get_file w1 file1, get_file w2 file2 with
  | Some r1, Some r2 =>
      match walk_path w1 file1 r1 (split_path ds1 []), walk_path w2 file2 r2 (split_path ds2 []) with
      | Some (c1, k1), Some (c2, k2) => compare_nodes v m o w1 w2 fuel ds1 c1 k1 ds2 c2 k2
      | _, _ => [DErrExit]
      end
  | _, _ => [DErrExit]
  end.

(* ---- equality of trees up to the order of children and up to the normalisation of names --------------------------------- *)
Fixpoint insert_node (x : node) (l : list node) : list node :=
  match l with
  | [] => [x]
  | y :: rest => if bytes_ltb (node_name y) (node_name x) then y :: insert_node x rest else x :: l
  end.
Fixpoint sort_nodes (l : list node) : list node :=
  match l with [] => [] | x :: rest => insert_node x (sort_nodes rest) end.
(* every name replaced by its key, every child list sorted by (that) name; without -d the data are not looked at *)
Fixpoint canon_by (key : bytes -> bytes) (keep_data : bool) (n : node) : node :=
  match n with
  | Node nm l dt d da ks => Node (key nm) l dt d (if keep_data then da else []) (sort_nodes (map (canon_by key keep_data) ks))
  | LinkNode nm f p => LinkNode (key nm) f p
  end.
Definition canon : node -> node := canon_by (fun x => x) true.
(* sibling names stay distinct after normalisation, at every level *)
Fixpoint keys_unique (key : bytes -> bytes) (n : node) : bool :=
  match n with
  | Node _ _ _ _ _ ks =>
      (fix nd (l : list bytes) : bool :=
         match l with [] => true | x :: r => negb (existsb (bytes_eqb x) r) && nd r end) (map (fun k => key (node_name k)) ks)
      && forallb (keys_unique key) ks
  | LinkNode _ _ _ => true
  end.

(* ---- well-formed sources ------------------------------------------------------------------------------------------------ *)
(* the documented data types and the size of their data, from a table that is NOT cgio_compute_data_size *)
Definition std_size (dt : bytes) : Z :=
  match dt with
  | [66; 49] | [67; 49] => 1
  | [73; 52] | [85; 52] | [82; 52] => 4
  | [73; 56] | [85; 56] | [82; 56] | [88; 52] => 8
  | [88; 56] => 16
  | _ => 0
  end.
Definition prodZ (l : list Z) : Z := fold_right Z.mul 1 l.
(* a node as the documented API can leave it: MT without dimensions and data, or one of the ten types with
   positive dimension values and exactly the bytes of its elements (ADF also allows a typed node without
   dimensions; the HDF5 back end cannot hold one).  ADF keeps the type string as it was given, so a lower-case
   first letter ("r8") is a legal ADF type; the HDF5 back end stores upper case only.  The old code sized only
   upper-case names. *)
Definition type_norm (v : ver) (dst_hdf5 : bool) (dt : bytes) : bytes :=
  match v, dst_hdf5 with Cur, false => norm_type dt | _, _ => dt end.
Definition node_ok (v : ver) (dst_hdf5 : bool) (dt : bytes) (dims : list Z) (data : bytes) : bool :=
  if bytes_eqb dt s_MT then is_nil dims && is_nil data
  else std_type (type_norm v dst_hdf5 dt) && forallb (Z.leb 1) dims &&
       (if is_nil dims then is_nil data && negb dst_hdf5
        else lenZ data =? std_size (type_norm v dst_hdf5 dt) * prodZ dims).
Fixpoint tree_ok (v : ver) (dst_hdf5 : bool) (n : node) : bool :=
  match n with
  | Node _ _ dt dims data ks => node_ok v dst_hdf5 dt dims data && forallb (tree_ok v dst_hdf5) ks
  | LinkNode _ _ _ => true
  end.
Definition kids_ok (v : ver) (dst_hdf5 : bool) (n : node) : bool := forallb (tree_ok v dst_hdf5) (kids_of n).
(* names as every file has them: not empty *)
Fixpoint names_nonempty (n : node) : bool :=
  match n with
  | Node _ _ _ _ _ ks => forallb (fun k => negb (is_nil (node_name k)) && names_nonempty k) ks
  | LinkNode _ _ _ => true
  end.

Fixpoint link_free (n : node) : bool :=
  match n with Node _ _ _ _ _ ks => forallb link_free ks | LinkNode _ _ _ => false end.
Fixpoint nodup_names (l : list bytes) : bool :=
  match l with [] => true | x :: rest => negb (existsb (bytes_eqb x) rest) && nodup_names rest end.
Fixpoint names_unique (n : node) : bool :=
  match n with
  | Node _ _ _ _ _ ks => nodup_names (map node_name ks) && forallb names_unique ks
  | LinkNode _ _ _ => true
  end.
Fixpoint depth (n : node) : nat :=
  match n with
  | Node _ _ _ _ _ ks => S (fold_right (fun k m => Nat.max (depth k) m) O ks)
  | LinkNode _ _ _ => 1%nat
  end.
(* every path cgnsdiff builds below [prefix] fits its 1024-byte buffers *)
Fixpoint paths_fit (prefix : Z) (n : node) : bool :=
  match n with
  | Node _ _ _ _ _ ks =>
      forallb (fun k => (prefix + 1 + lenZ (node_name k) + 1 <=? 1024) &&
                        paths_fit (prefix + 1 + lenZ (node_name k)) k) ks
  | LinkNode _ _ _ => true
  end.
