(* Ftoc.v -- executable model for property C20 (Fortran-callable bindings).  Definitions only, no proofs.

   Part 1: the four static string helpers of src/cg_ftoc.c (string_2_C_string, string_2_F_string) and
           src/cgio_ftoc.c (to_c_string, to_f_string), transcribed statement by statement over byte lists.
           Memory effects are EXPLICIT: a helper yields its list of writes (index, byte) in program order;
           [apply_writes] replays them on a buffer.  An index outside the buffer is representable (it is what
           an overrun would be), so "no overrun" is a statement about the write list, not an artefact of lists.
   Part 2: the row type of the regenerated wrapper table coq/Gen_C20.v (written by translators/c20_ftoc.py from
           the current sources) and the decidable predicate [row_ok] evaluated on it by the kernel. *)
From Coq Require Import ZArith List String Ascii Bool.
From CgnsV Require Import ListX.
Import ListNotations.
Local Open Scope Z_scope.

(* ------------------------------------------------------------------------------------------------ Part 1 *)
Definition blank : Z := 32.

(* int <- size_t hidden length: the implicit conversion at the call of the helpers (int string_length) *)
Definition to_int32 (n : Z) : Z := let m := n mod 4294967296 in if m <? 2147483648 then m else m - 4294967296.

(* for (iend = string_length-1; iend >= 0; iend--) if (string[iend] != ' ') break;     result: iend *)
Fixpoint scan_back (f : list Z) (n : nat) : Z :=
  match n with
  | O => -1
  | S k => if nthZ f (Z.of_nat k) 0 =? blank then scan_back f k else Z.of_nat k
  end.
Definition find_iend (f : list Z) (flen : Z) : Z := scan_back f (Z.to_nat flen).

(* if (iend >= max_len) iend = max_len - 1; *)
Definition clamp_iend (iend max_len : Z) : Z := if iend >=? max_len then max_len - 1 else iend.

(* for (i = 0; i < n; i++) dst[i] = src[i];   as a write list *)
Definition copy_writes (src : list Z) (n : Z) : list (Z * Z) :=
  map (fun k => (Z.of_nat k, nthZ src (Z.of_nat k) 0)) (seq 0 (Z.to_nat n)).

(* while (i < upto) dst[i++] = ' ';  starting at i = from *)
Definition pad_writes (from upto : Z) : list (Z * Z) :=
  map (fun k => (Z.of_nat k, blank)) (seq (Z.to_nat from) (Z.to_nat (upto - from))).

(* number of iterations of  for (i = 0; i <= iend; i++)  = value of i after the loop *)
Definition copy_count (iend : Z) : Z := Z.max 0 (iend + 1).

(* to_c_string (cgio_ftoc.c:41-54): writes, and the returned i *)
Definition to_c_writes (f : list Z) (flen max_len : Z) : list (Z * Z) :=
  let n := copy_count (clamp_iend (find_iend f flen) max_len) in
  copy_writes f n ++ [(n, 0)].
Definition to_c_ret (f : list Z) (flen max_len : Z) : Z :=
  copy_count (clamp_iend (find_iend f flen) max_len).

(* string_2_C_string (cg_ftoc.c:68-92): same loop, plus the NULL checks and *ierr.
   fnull / cnull say whether string / c_string is the NULL pointer.  Result: (writes, value stored in *ierr). *)
Definition s2c (fnull cnull : bool) (f : list Z) (flen max_len : Z) : list (Z * Z) * Z :=
  if fnull || cnull then ([], 1) else (to_c_writes f flen max_len, 0).

(* strlen: index of the first NUL; a list without NUL stands for an unterminated buffer (strlen would read
   beyond it) -- the distinguished value is the list length and the theorems require a NUL to be present *)
Fixpoint strlen_nat (c : list Z) : nat :=
  match c with [] => O | x :: r => if x =? 0 then O else S (strlen_nat r) end.
Definition strlenZ (c : list Z) : Z := Z.of_nat (strlen_nat c).
Definition has_nul (c : list Z) : bool := existsb (fun x => x =? 0) c.

(* to_f_string (cgio_ftoc.c:58-70) / string_2_F_string (cg_ftoc.c:96-114):
     len = (int)strlen(c); if (len > f_len) len = f_len;
     for (i = 0; i < len; i++) f[i] = c[i];   while (i < f_len) f[i++] = ' ';                       *)
Definition to_f_writes (c : list Z) (flen : Z) : list (Z * Z) :=
  let len := if strlenZ c >? flen then flen else strlenZ c in
  let n := Z.max 0 len in
  copy_writes c n ++ pad_writes n flen.
Definition to_f_ret (flen : Z) : Z := flen.
Definition s2f (cnull fnull : bool) (c : list Z) (flen : Z) : list (Z * Z) * Z :=
  if cnull || fnull then ([], 1) else (to_f_writes c flen, 0).

(* replaying a write list on a buffer; writes outside the buffer are collected, not dropped *)
Definition in_buf {A} (buf : list A) (i : Z) : bool := (0 <=? i) && (i <? lenZ buf).
Fixpoint apply_writes (buf : list Z) (ws : list (Z * Z)) : list Z :=
  match ws with
  | [] => buf
  | (i, v) :: r => apply_writes (if in_buf buf i then updZ buf i v else buf) r
  end.
Definition oob_writes (bufsize : Z) (ws : list (Z * Z)) : list Z :=
  map fst (filter (fun w => negb ((0 <=? fst w) && (fst w <? bufsize))) ws).

(* the specification side: a Fortran string value is its first flen bytes without trailing blanks *)
Fixpoint drop_blanks (l : list Z) : list Z :=
  match l with
  | x :: r => if x =? blank then drop_blanks r else l
  | [] => []
  end.
Definition rtrim (l : list Z) : list Z := rev (drop_blanks (rev l)).
Definition fvalue (f : list Z) (flen : Z) : list Z := rtrim (firstn (Z.to_nat flen) f).
Definition cvalue (c : list Z) : list Z := firstn (strlen_nat c) c.
Definition zrange (n : Z) : list Z := map Z.of_nat (seq 0 (Z.to_nat n)).

(* one entry point for the extracted engine: op, string, two lengths, initial buffer ->
   (final buffer, out-of-buffer write indices, return value / ierr) *)
Inductive hop := HToC | HS2C | HToF | HS2F.
Definition run_helper (op : hop) (src : list Z) (a b : Z) (buf : list Z) : list Z * list Z * Z :=
  match op with
  | HToC => let ws := to_c_writes src a b in (apply_writes buf ws, oob_writes (lenZ buf) ws, to_c_ret src a b)
  | HS2C => let r := s2c false false src a b in (apply_writes buf (fst r), oob_writes (lenZ buf) (fst r), snd r)
  | HToF => let ws := to_f_writes src a in (apply_writes buf ws, oob_writes (lenZ buf) ws, to_f_ret a)
  | HS2F => let r := s2f false false src a in (apply_writes buf (fst r), oob_writes (lenZ buf) (fst r), snd r)
  end.

(* ------------------------------------------------------------------------------------------------ Part 2 *)
Local Open Scope string_scope.
Local Open Scope Z_scope.

(* classes of parameter / prototype types *)
Inductive pty := TInt | TIntP | TFInt | TFIntP | TSize | TSizeP | TEnum | TEnumP | TDouble | TDoubleP | TFloat
  | TFloatP | TStr | TStrP | TVoidP | TVoid | TFStr | THidden | TLongP | TSizePP | TIntPP | TOther.
(* how one argument of the target call is formed *)
Inductive akind :=
  | KIntDeref    (* (int)*p *)
  | KDeref       (* *p *)
  | KCastDeref   (* (T)*p, T <> int *)
  | KPass        (* p *)
  | KAddrLocal   (* &local; source = the parameter the local is copied back to *)
  | KLocalArr    (* a local array; source = the parameter it is copied from / to *)
  | KLocalVal    (* a local scalar / pointer table *)
  | KBuf         (* the C-side buffer of a Fortran string parameter *)
  | KScratch     (* a C buffer whose content is discarded *)
  | KConst | KOther.
(* the C-side buffer of a string parameter *)
Inductive buf :=
  | BFixed (n : Z)      (* char b[n] (or malloc of the constant n) *)
  | BHeapHidden1        (* malloc(hidden length + 1) *)
  | BHeapQueried1       (* malloc(length queried from the library + 1) *)
  | BLibAlloc           (* char* allocated by the library (char ** argument) *)
  | BLibStatic          (* pointer returned by the library *)
  | BHeapArr (elem : Z) (* malloc(count * elem): array of C strings *)
  | BUnknown.
(* max_len given to string_2_C_string / length given to string_2_F_string *)
Inductive slen := LConst (n : Z) | LHidden | LUser | LUnknown.
Inductive sdir := SIn | SOut.
Record strp := { s_name : string; s_pidx : Z; s_dir : sdir; s_buf : buf; s_len : slen;
                 s_stride : Z;      (* 0: one string; n > 0: array, element k at offset k*n; -1: array with the
                                       user-supplied element length as stride; -2: not understood *)
                 s_carg : Z;        (* position of the buffer in the target call, -1: none *)
                 s_guarded : bool   (* copy-back reached only when the status is zero *) }.
Inductive ierk := IerStored | IerReturned | IerVoid | IerMissing.
Record wrapper := { r_file : string; r_name : string; r_ptys : list pty;
                    r_strparams : list string; r_hiddens : list string; r_hidden_last : bool;
                    r_target : string; r_ncalls : Z; r_ier : ierk; r_has_ier : bool; r_pre : list string;
                    r_strs : list strp; r_args : list (akind * Z);
                    r_proto_known : bool; r_proto : list pty }.
Inductive row := Wrapper (w : wrapper) | Unparsed (name reason : string).

Definition row_name (r : row) : string := match r with Wrapper w => r_name w | Unparsed n _ => n end.

(* ---- specification-side tables (hand-written, small, reviewed) *)
Definition lower_ascii (a : ascii) : ascii :=
  let n := nat_of_ascii a in if (65 <=? n)%nat && (n <=? 90)%nat then ascii_of_nat (n + 32) else a.
Fixpoint lower (s : string) : string :=
  match s with EmptyString => EmptyString | String a r => String (lower_ascii a) (lower r) end.
Definition mem (x : string) (l : list string) : bool := existsb (String.eqb x) l.

(* wrappers whose name is not <C function>_f : (wrapper, C function it must call) *)
Definition aliases : list (string * string) :=
  [ ("cg_state_size_f", "cg_state_read"); ("cg_descriptor_size_f", "cg_descriptor_read");
    ("cgio_set_dimensions_f_0", "cgio_set_dimensions"); ("cgio_set_dimensions_f_1", "cgio_set_dimensions");
    ("cgio_get_dimensions_f_0", "cgio_get_dimensions"); ("cgio_get_dimensions_f_1", "cgio_get_dimensions");
    ("cg_configure_c_ptr", "cg_configure"); ("cg_configure_c_funptr", "cg_configure");
    ("cg_exit_on_error_f", "cg_error_handler");
    ("cg_goto_fc1", "cgi_set_posit"); ("cg_gorel_fc1", "cgi_update_posit") ].
Definition same_named (name target : string) : bool :=
  String.eqb name (lower target ++ "_f")%string ||
  existsb (fun p => String.eqb (fst p) name && String.eqb (snd p) target) aliases.
(* the call of the target sits in mutually exclusive branches (value-dependent argument marshalling) *)
(* cg_1to1_read_global_f: when no interface is counted the C function may still be called (with no arrays) only to
   obtain its status; the current code calls it once *)
Definition branching : list string := [ "cg_configure_c_ptr"; "cg_1to1_read_global_f" ].
(* C functions without a status *)
Definition void_targets : list string :=
  [ "cg_error_exit"; "cg_error_print"; "cg_get_error"; "cg_error_handler"; "cgio_error_code"; "cgio_error_exit";
    "cgio_error_abort" ].
(* BIND(C) helpers that take NUL-terminated strings and return the status *)
Definition cstring_helpers : list string := [ "cg_goto_fc1"; "cg_gorel_fc1" ].
(* read-only queries a wrapper may make besides its target *)
Definition allowed_pre : list string :=
  [ "cg_index_dim"; "cgi_posit_index_dim"; "cg_subreg_info"; "cg_base_read"; "cg_n1to1_global" ].
(* documented size of the caller's buffer for an output string argument of the C API: 33 (32 + NUL) unless
   listed (cgnslib.h / cgns_io.h: char_md = 20*33+1 family paths; CGIO_MAX_FILE/LINK/ERROR/DATATYPE_LENGTH + 1) *)
Definition out_max (target : string) (carg : Z) : Z :=
  if String.eqb target "cg_famname_read" then 661
  else if String.eqb target "cg_multifam_read" && (carg =? 2) then 661
  else if String.eqb target "cgio_get_link" && (carg =? 2) then 1025
  else if String.eqb target "cgio_get_link" && (carg =? 3) then 4097
  else if String.eqb target "cgio_error_message" then 81
  else if String.eqb target "cgio_get_data_type" then 3
  else 33.
(* rows of the CURRENT code known to violate row_ok (kept visible: see C20_known_row_refuted and notes/C20.md) *)
Definition known_rows : list string := [ "cg_bcdataset_info_f" ].

(* ---- the decidable row predicate *)
Definition pty_eqb (a b : pty) : bool :=
  match a, b with
  | TInt, TInt | TIntP, TIntP | TFInt, TFInt | TFIntP, TFIntP | TSize, TSize | TSizeP, TSizeP | TEnum, TEnum
  | TEnumP, TEnumP | TDouble, TDouble | TDoubleP, TDoubleP | TFloat, TFloat | TFloatP, TFloatP | TStr, TStr
  | TStrP, TStrP | TVoidP, TVoidP | TVoid, TVoid | TFStr, TFStr | THidden, THidden | TLongP, TLongP
  | TSizePP, TSizePP | TIntPP, TIntPP | TOther, TOther => true
  | _, _ => false
  end.
Definition nth_pty (l : list pty) (i : Z) : pty := nthZ l i TOther.

(* may an argument formed as [k] from a parameter of class [src] be passed where the prototype wants [p] ? *)
Definition compat (p : pty) (k : akind) (src : pty) (has_src : bool) : bool :=
  match p with
  | TInt => match k with
            | KIntDeref => pty_eqb src TFIntP || pty_eqb src TSizeP
            | KDeref => pty_eqb src TFIntP || pty_eqb src TIntP
            | KPass => pty_eqb src TInt
            | KConst | KLocalVal => true
            | _ => false end
  | TIntP | TLongP => match k with KAddrLocal => has_src | KLocalArr => true | _ => false end
  | TSize => match k with KDeref => pty_eqb src TSizeP | _ => false end
  | TSizeP => match k with KPass => pty_eqb src TSizeP | KAddrLocal => true | _ => false end
  | TEnum => match k with KDeref | KCastDeref => pty_eqb src TEnumP | _ => false end
  | TEnumP => match k with KAddrLocal => has_src | KPass => pty_eqb src TEnumP | _ => false end
  | TDouble => match k with KDeref => pty_eqb src TDoubleP | _ => false end
  | TDoubleP => match k with KPass => pty_eqb src TDoubleP | _ => false end
  | TFloat => match k with KDeref => pty_eqb src TFloatP | _ => false end
  | TFloatP => match k with KPass => pty_eqb src TFloatP | _ => false end
  | TStr => match k with KBuf | KScratch | KConst => true | KPass => pty_eqb src TStr | _ => false end
  | TStrP => match k with KAddrLocal | KBuf | KScratch | KLocalArr => true | _ => false end
  | TVoidP => match k with KPass | KOther => true | _ => false end
  | TSizePP | TIntPP => match k with KLocalVal | KLocalArr => true | _ => false end
  | _ => true
  end.

Fixpoint args_compat (ptys : list pty) (args : list (akind * Z)) (proto : list pty) : bool :=
  match args, proto with
  | [], [] => true
  | (k, s) :: ar, p :: pr => compat p k (nth_pty ptys s) (0 <=? s) && args_compat ptys ar pr
  | _, _ => false
  end.

(* the parameters feeding the call appear in the order of the wrapper's own parameter list
   (the Fortran API keeps the C argument order): a swapped pair breaks this *)
Fixpoint increasing (prev : Z) (l : list Z) : bool :=
  match l with [] => true | x :: r => (prev <? x) && increasing x r end.
Definition sources (args : list (akind * Z)) : list Z := filter (fun s => 0 <=? s) (map snd args).

Definition list_eqb (a b : list string) : bool :=
  (Nat.eqb (List.length a) (List.length b)) && forallb (fun p => String.eqb (fst p) (snd p)) (combine a b).

(* --- C20_buffers_fit, per string parameter *)
Definition str_in_ok (s : strp) : bool :=
  match s_buf s, s_len s with
  | BFixed n, LConst m => (0 <=? m) && (m + 1 <=? n)
  | BHeapHidden1, LHidden => true
  | _, _ => false
  end && (s_stride s =? 0).
Definition str_out_ok (target : string) (guard_needed : bool) (s : strp) : bool :=
  (match s_buf s with
   | BFixed n | BHeapArr n => (0 <=? s_carg s) && (out_max target (s_carg s) <=? n)
   | BHeapQueried1 | BLibAlloc => 0 <=? s_carg s
   | BLibStatic => true
   | _ => false
   end) &&
  (match s_len s, s_stride s with
   | LHidden, 0 => true                      (* one string, its own hidden length *)
   | LConst m, st => (0 <? m) && (m <=? st)  (* array of strings: element writes stay inside the element slot *)
   | LUser, -1 => true                       (* array, stride = the element length used *)
   | _, _ => false
   end) &&
  (negb guard_needed || s_guarded s).
Definition str_ok (w : wrapper) (s : strp) : bool :=
  match s_dir s with
  | SIn => str_in_ok s
  | SOut => str_out_ok (r_target w) (match r_ier w with IerStored => true | _ => false end) s
  end.
Definition buffers_ok (w : wrapper) : bool := forallb (str_ok w) (r_strs w).

(* --- C20_wrapper_is_call *)
Definition call_ok (w : wrapper) : bool :=
  same_named (r_name w) (r_target w) &&
  ((r_ncalls w =? 1) || ((1 <=? r_ncalls w) && mem (r_name w) branching)) &&
  (match r_ier w with
   | IerStored => r_has_ier w
   | IerReturned => mem (r_name w) cstring_helpers
   | IerVoid => mem (r_target w) void_targets
   | IerMissing => false
   end) &&
  forallb (fun c => mem c allowed_pre) (r_pre w).
Definition args_ok (w : wrapper) : bool :=
  r_proto_known w && args_compat (r_ptys w) (r_args w) (r_proto w) && increasing (-1) (sources (r_args w)).
(* hidden lengths: one per Fortran string, same order, after all other parameters; plain C strings only in
   the BIND(C) helpers *)
Definition hidden_ok (w : wrapper) : bool :=
  list_eqb (r_strparams w) (r_hiddens w) && r_hidden_last w &&
  (negb (existsb (pty_eqb TStr) (r_ptys w)) || mem (r_name w) cstring_helpers) &&
  forallb (fun p => mem p (map s_name (r_strs w))) (r_strparams w) &&
  Nat.eqb (List.length (r_strs w)) (List.length (r_strparams w)).

Definition row_ok (r : row) : bool :=
  match r with
  | Wrapper w => buffers_ok w && call_ok w && args_ok w && hidden_ok w
  | Unparsed _ _ => false
  end.
Definition row_known (r : row) : bool :=
  match r with Wrapper w => mem (r_name w) known_rows | Unparsed _ _ => false end.
Definition bad_rows (t : list row) : list string := map row_name (filter (fun r => negb (row_ok r)) t).
Definition table_ok (t : list row) : bool := forallb (fun r => row_ok r || row_known r) t.

(* numeric reading of a row for a given hidden length (used by the semantic form of C20_buffers_fit) *)
Definition max_len_of (s : strp) (hidden : Z) : Z :=
  match s_len s with LConst m => m | LHidden => hidden | _ => -1 end.
Definition buf_size_of (s : strp) (hidden : Z) : Z :=
  match s_buf s with BFixed n => n | BHeapHidden1 => hidden + 1 | _ => -1 end.

(* a literal copy of the offending row of the current code (see FtocProofs.known_row_refuted) *)
Definition witness_bcdataset_info : row :=
  Wrapper {| r_file := "cg_ftoc.c"; r_name := "cg_bcdataset_info_f"; r_ptys := [TFIntP; TFIntP; THidden];
             r_strparams := []; r_hiddens := ["Dataset_name"]; r_hidden_last := true;
             r_target := "cg_bcdataset_info"; r_ncalls := 1; r_ier := IerStored; r_has_ier := true; r_pre := [];
             r_strs := []; r_args := [(KAddrLocal, 0)]; r_proto_known := true; r_proto := [TIntP] |}.
