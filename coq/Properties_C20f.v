(* Properties_C20f.v -- exported theorems of the C20f extension (the Fortran side of the binding layer, src/cgns_f.F90,
   against the C definitions).  Only statements, each closed by [exact] of a lemma of FtocAbiProofs.v or by evaluation
   of the decidable predicate on the REGENERATED table Gen_C20f.abi_table, each followed by Print Assumptions. *)
From Coq Require Import ZArith List String.
From CgnsV Require Import ListX Ftoc FtocAbi FtocAbiProofs FtocGoto FtocGotoProofs FtocMod FtocModProofs Gen_C20f.
Import ListNotations.
Local Open Scope Z_scope.

(* abi_ok holds of every row of the table regenerated from the current cgns_f.F90 / cg_ftoc.c / cgio_ftoc.c / cgnslib.h,
   except the rows named in FtocAbi.abi_known (re-evaluated by the kernel on every run) *)
Theorem C20f_abi_table_checked : abi_table_ok Gen_C20f.abi_table = true.
Proof. vm_compute. reflexivity. Qed.
Print Assumptions C20f_abi_table_checked.

(* nothing in cgns_f.F90 was left unclassified by the translator *)
Theorem C20f_every_interface_parsed : abi_all_parsed Gen_C20f.abi_table = true.
Proof. vm_compute. reflexivity. Qed.
Print Assumptions C20f_every_interface_parsed.

(* for every interface body of the module (module level or nested in a module procedure) that is paired with a C
   definition and is not on the exception list: same number of arguments as the C definition has non-hidden
   parameters; without BIND(C) exactly one hidden length on the C side per CHARACTER argument, with BIND(C) none;
   position by position the classes are compatible; a Fortran-convention C string parameter receives a CHARACTER
   actual by reference through an interface without BIND(C) and a CHARACTER actual goes nowhere else than to a string /
   untyped data parameter; cgsize_t* receives INTEGER(cgsize_t), cgint_f* receives a default INTEGER *)
Theorem C20f_interfaces_match : forall i, In (AIface i) Gen_C20f.abi_table -> arow_known (AIface i) = false ->
  a_variadic i = false -> iface_matches i.
Proof. exact (fun i => interfaces_match Gen_C20f.abi_table i C20f_abi_table_checked). Qed.
Print Assumptions C20f_interfaces_match.

(* a wrapper that the module does not declare but DOCUMENTS (commented-out interface body): the C definition takes, position
   by position, the kinds the documentation tells a caller to pass (iface_matches, as above; no BIND(C): F77 convention) *)
Theorem C20f_documented_kinds_match : forall i, In (ADoc i) Gen_C20f.abi_table -> arow_known (ADoc i) = false ->
  iface_matches i /\ a_bindc i = false.
Proof. exact (fun i => documented_match Gen_C20f.abi_table i C20f_abi_table_checked). Qed.
Print Assumptions C20f_documented_kinds_match.

(* a wrapper that the module does not declare (F77-style call) is defined under the symbol gfortran generates *)
Theorem C20f_implicit_symbols : forall n sym p, In (AImplicit n sym p) Gen_C20f.abi_table ->
  arow_known (AImplicit n sym p) = false -> sym = (n ++ "_")%string.
Proof. exact (fun n sym p => implicit_symbol Gen_C20f.abi_table n sym p C20f_abi_table_checked). Qed.
Print Assumptions C20f_implicit_symbols.

(* the exception list is not vacuous and not wider than stated: a literal copy of the one excused row of the current
   code fails abi_ok; the row produced by an interface body whose link name has no C definition (cg_field_id_f before
   6bd923b) fails abi_ok, is not excused, and makes the table obligation false *)
Theorem C20f_known_rows_refuted : abi_ok witness_bcdataset_info_abi = false /\ arow_known witness_bcdataset_info_abi = true /\
  abi_ok witness_field_id = false /\ arow_known witness_field_id = false /\ abi_table_ok [witness_field_id] = false.
Proof. exact known_rows_refuted. Qed.
Print Assumptions C20f_known_rows_refuted.

(* ---- where a go-to path ends: cg_goto_fc1 / cg_gorel_fc1 (C halves of cg_goto_f / cg_gorel_f) against cg_goto / cg_gorel *)

(* the terminator tests found in the CURRENT cg_ftoc.c (regenerated) have the repaired shape, or a shape listed in
   FtocGoto.term_known (the shape of the code before notes/C20-fixes/01-goto-fc1-terminator.diff) *)
Theorem C20f_goto_terminators_checked : terms_checked Gen_C20f.goto_terms = true.
Proof. vm_compute. reflexivity. Qed.
Print Assumptions C20f_goto_terminators_checked.

(* for a test that is not on the exception list: cg_goto_fc1 / cg_gorel_fc1 take a label for "no pair" exactly when
   cg_goto / cg_gorel end the path there, for EVERY string *)
Theorem C20f_goto_terminators_agree : forall t, In t Gen_C20f.goto_terms -> existsb (term_eqb t) term_known = false ->
  forall l, fc1_is_term t l = c_is_term l.
Proof. exact (fun t => terms_checked_sound Gen_C20f.goto_terms t C20f_goto_terminators_checked). Qed.
Print Assumptions C20f_goto_terminators_agree.

(* any test of the repaired shape agrees with cg_goto / cg_gorel on every string *)
Theorem C20f_goto_terminator_repaired_shape : forall t l, term_ok t = true -> fc1_is_term t l = c_is_term l.
Proof. exact term_ok_sound. Qed.
Print Assumptions C20f_goto_terminator_repaired_shape.

(* the test of the old code is refuted: a child NAMED endwall / ENDPLATE is never reached (the path ends at its parent),
   an all-blank Fortran label (empty after TRIM) is not an end, a leading blank is *)
Theorem C20f_goto_terminator_old_refuted :
  fc1_is_term term_old w_endwall = true /\ c_is_term w_endwall = false /\
  fc1_is_term term_old w_ENDPLATE = true /\ c_is_term w_ENDPLATE = false /\
  fc1_is_term term_old w_empty = false /\ c_is_term w_empty = true /\
  fc1_is_term term_old w_lead = true /\ c_is_term w_lead = false /\
  term_ok term_old = false.
Proof. exact term_old_refuted. Qed.
Print Assumptions C20f_goto_terminator_old_refuted.

(* ---- the twenty blocks of the module procedures cg_goto_f / cg_gorel_f *)

(* the executable statements of both procedures, re-extracted from the current cgns_f.F90, are exactly: depth 1 to
   cg_goto_fc1 resp. cg_gorel_fc1, then for k = 2..20  IF (PRESENT(i_k)) THEN; ier = cg_gorel_fc1(fn, UserDataName_k, i_k);
   IF (ier /= 0) RETURN; END IF *)
Theorem C20f_goto_blocks_checked : goto_blocks_ok Gen_C20f.goto_f_stmts Gen_C20f.gorel_f_stmts = true.
Proof. vm_compute. reflexivity. Qed.
Print Assumptions C20f_goto_blocks_checked.

(* hence every depth has its block, and no forwarding call pairs UserDataName_k with another depth's index *)
Theorem C20f_goto_blocks_forward :
  (forall k, 2 <= k <= 20 -> In (GCall CGorel k k) Gen_C20f.goto_f_stmts /\ In (GCall CGorel k k) Gen_C20f.gorel_f_stmts /\
                             In (GIfPresent k) Gen_C20f.goto_f_stmts /\ In (GIfPresent k) Gen_C20f.gorel_f_stmts) /\
  In (GCall CGoto 1 1) Gen_C20f.goto_f_stmts /\ In (GCall CGoto 1 0) Gen_C20f.goto_f_stmts /\
  In (GCall CGorel 1 1) Gen_C20f.gorel_f_stmts /\ In (GCall CGorel 1 0) Gen_C20f.gorel_f_stmts /\
  forallb call_forwards_own_pair Gen_C20f.goto_f_stmts = true /\ forallb call_forwards_own_pair Gen_C20f.gorel_f_stmts = true /\
  List.length (filter (fun s => match s with GCall _ _ _ => true | _ => false end) Gen_C20f.goto_f_stmts) = 21%nat /\
  List.length (filter (fun s => match s with GCall _ _ _ => true | _ => false end) Gen_C20f.gorel_f_stmts) = 21%nat.
Proof. exact (blocks_forward Gen_C20f.goto_f_stmts Gen_C20f.gorel_f_stmts C20f_goto_blocks_checked). Qed.
Print Assumptions C20f_goto_blocks_forward.

(* ---- the Fortran-implemented wrappers (module procedures that call a C function through a nested BIND(C) interface) *)

(* mp_ok holds of every regenerated row (FtocMod.mp_known is empty) *)
Theorem C20f_modproc_table_checked : mp_table_ok Gen_C20f.mp_rows = true.
Proof. vm_compute. reflexivity. Qed.
Print Assumptions C20f_modproc_table_checked.

(* for every such procedure that is not excused: it has exactly one dummy more (ier) than the C function has parameters; no
   INTENT(OUT) dummy is left unassigned; every output of the C call lands in a dummy -- directly, or through a local temporary
   that IS copied to a dummy afterwards -- and a CHARACTER temporary is at least as large as what the C function may write *)
Theorem C20f_modproc_outputs_reach_caller : forall r, In r Gen_C20f.mp_rows -> mp_row_known r = false ->
  (m_ncparams r <> -1 -> m_ndummies r = m_ncparams r + 1) /\
  m_unassigned r = [] /\
  (forall pos k size, In (pos, k, size) (m_outs r) ->
     (k = OutDirect \/ k = OutCopied) /\
     (k = OutCopied -> size = -1 \/ size = 0 \/ mp_out_max (m_cfunc r) pos <= size)).
Proof. exact (fun r => mp_row_sound Gen_C20f.mp_rows r C20f_modproc_table_checked). Qed.
Print Assumptions C20f_modproc_outputs_reach_caller.

(* the rows of the OLD code (before 9418046 / 26cde09 / f901b55 / 763a68d) fail mp_ok, are not excused any more, and each of
   them alone falsifies the table obligation *)
Theorem C20f_modproc_known_refuted : mp_ok w_coord_id = false /\ mp_ok w_discrete_ptset_write = false /\ mp_ok w_family_name_read = false /\
  arity_ok w_coord_id = false /\ mp_row_known w_coord_id = false /\ mp_row_known w_discrete_ptset_write = false /\
  mp_row_known w_family_name_read = false /\ mp_table_ok [w_coord_id] = false /\ mp_table_ok [w_discrete_ptset_write] = false /\
  mp_table_ok [w_family_name_read] = false.
Proof. exact mp_known_refuted. Qed.
Print Assumptions C20f_modproc_known_refuted.

(* hypotheses are satisfiable: the table contains interface rows that are not excused *)
Example C20f_nonvacuous : existsb (fun r => match r with AIface i => andb (negb (arow_known r)) (negb (a_variadic i)) | _ => false end)
                                  Gen_C20f.abi_table = true.
Proof. vm_compute. reflexivity. Qed.
