(* FtocGotoProofs.v -- lemmas about the path-terminator tests of FtocGoto.v *)
From Coq Require Import ZArith List Bool Lia.
From CgnsV Require Import FtocGoto.
Import ListNotations.
Local Open Scope Z_scope.

(* a test of the repaired shape decides exactly like cg_goto / cg_gorel, on every string *)
Lemma term_ok_sound : forall t l, term_ok t = true -> fc1_is_term t l = c_is_term l.
Proof.
  intros [c b e] l H. unfold term_ok in H. simpl in H.
  destruct c; simpl in H; try discriminate.
  destruct e; simpl in H; try discriminate.
  destruct b; simpl in H; try discriminate.
  unfold fc1_is_term, c_is_term. simpl.
  destruct l as [|x r]; simpl; reflexivity.
Qed.

(* the test of the old code differs from cg_goto / cg_gorel: a name that merely STARTS with end / END ends the path
   (the position stays at the parent, status 0), the empty string does not, a leading blank does *)
Lemma term_old_refuted :
  fc1_is_term term_old w_endwall = true /\ c_is_term w_endwall = false /\
  fc1_is_term term_old w_ENDPLATE = true /\ c_is_term w_ENDPLATE = false /\
  fc1_is_term term_old w_empty = false /\ c_is_term w_empty = true /\
  fc1_is_term term_old w_lead = true /\ c_is_term w_lead = false /\
  term_ok term_old = false.
Proof. vm_compute. repeat split; reflexivity. Qed.

Lemma term_old_exists : exists l, fc1_is_term term_old l <> c_is_term l.
Proof. exists w_endwall. vm_compute. discriminate. Qed.

Lemma terms_checked_sound : forall ts t, terms_checked ts = true -> In t ts ->
  existsb (term_eqb t) term_known = false -> forall l, fc1_is_term t l = c_is_term l.
Proof.
  intros ts t H Hin Hk l. unfold terms_checked in H. rewrite forallb_forall in H. specialize (H t Hin).
  rewrite Hk, orb_false_r in H. now apply term_ok_sound.
Qed.
