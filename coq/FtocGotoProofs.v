(* FtocGotoProofs.v -- lemmas about the path-terminator tests of FtocGoto.v *)
From Coq Require Import ZArith List Bool Lia String.
From CgnsV Require Import FtocGoto.
Import ListNotations.
Local Open Scope Z_scope.

(* a test of the repaired shape decides exactly like cg_goto / cg_gorel, on every string *)
Lemma term_ok_sound : forall t l, term_ok t = true -> fc1_is_term t l = c_is_term l.
Proof.
  intros [c b e] l H. unfold term_ok in H. simpl in H.
  destruct c; simpl in H; try discriminate.
  destruct e; simpl in H; try discriminate.
  destruct b; simpl in H; try discriminate.
  unfold fc1_is_term, c_is_term. simpl.
  destruct l as [|x r]; simpl; reflexivity.
Qed.

(* the test of the old code differs from cg_goto / cg_gorel: a name that merely STARTS with end / END ends the path
   (the position stays at the parent, status 0), the empty string does not, a leading blank does *)
Lemma term_old_refuted :
  fc1_is_term term_old w_endwall = true /\ c_is_term w_endwall = false /\
  fc1_is_term term_old w_ENDPLATE = true /\ c_is_term w_ENDPLATE = false /\
  fc1_is_term term_old w_empty = false /\ c_is_term w_empty = true /\
  fc1_is_term term_old w_lead = true /\ c_is_term w_lead = false /\
  term_ok term_old = false.
Proof. vm_compute. repeat split; reflexivity. Qed.

Lemma term_old_exists : exists l, fc1_is_term term_old l <> c_is_term l.
Proof. exists w_endwall. vm_compute. discriminate. Qed.

Lemma terms_checked_sound : forall ts t, terms_checked ts = true -> In t ts ->
  existsb (term_eqb t) term_known = false -> forall l, fc1_is_term t l = c_is_term l.
Proof.
  intros ts t H Hin Hk l. unfold terms_checked in H. rewrite forallb_forall in H. specialize (H t Hin).
  rewrite Hk, orb_false_r in H. now apply term_ok_sound.
Qed.

(* ---- the blocks of cg_goto_f / cg_gorel_f *)
Lemma gstmt_eqb_eq : forall a b, gstmt_eqb a b = true -> a = b.
Proof.
  destruct a, b; simpl; intros H; try discriminate; try reflexivity.
  - apply Z.eqb_eq in H. now subst.
  - apply Z.eqb_eq in H. now subst.
  - apply andb_true_iff in H. destruct H as [H H3]. apply andb_true_iff in H. destruct H as [H1 H2].
    apply Z.eqb_eq in H2, H3. subst. destruct c, c0; simpl in H1; try discriminate; reflexivity.
Qed.

Lemma gstmts_eqb_eq : forall a b, gstmts_eqb a b = true -> a = b.
Proof.
  induction a as [|x ar IH]; destruct b as [|y br]; simpl; intros H; try discriminate; auto.
  apply andb_true_iff in H. destruct H as [H1 H2]. f_equal; [now apply gstmt_eqb_eq | now apply IH].
Qed.

(* the generic statement behind C20f_goto_blocks_forward: for ANY pair of statement lists accepted by goto_blocks_ok,
   every depth k = 2..20 has its block  IF (PRESENT(i_k)) ... cg_gorel_fc1(fn, UserDataName_k, i_k)  in both procedures,
   depth 1 goes to cg_goto_fc1 resp. cg_gorel_fc1 with UserDataName_1 and i_1 (or the literal 0 when i_1 is absent), and NO
   forwarding call pairs a name with another depth's index *)
Lemma blocks_forward : forall g r, goto_blocks_ok g r = true ->
  (forall k, 2 <= k <= 20 -> In (GCall CGorel k k) g /\ In (GCall CGorel k k) r /\ In (GIfPresent k) g /\ In (GIfPresent k) r) /\
  In (GCall CGoto 1 1) g /\ In (GCall CGoto 1 0) g /\ In (GCall CGorel 1 1) r /\ In (GCall CGorel 1 0) r /\
  forallb call_forwards_own_pair g = true /\ forallb call_forwards_own_pair r = true /\
  List.length (filter (fun s => match s with GCall _ _ _ => true | _ => false end) g) = 21%nat /\
  List.length (filter (fun s => match s with GCall _ _ _ => true | _ => false end) r) = 21%nat.
Proof.
  intros g r H. unfold goto_blocks_ok in H. apply andb_true_iff in H. destruct H as [Hg Hr].
  apply gstmts_eqb_eq in Hg. apply gstmts_eqb_eq in Hr. subst g r.
  split.
  - intros k Hk.
    assert (Hc : k = 2 \/ k = 3 \/ k = 4 \/ k = 5 \/ k = 6 \/ k = 7 \/ k = 8 \/ k = 9 \/ k = 10 \/ k = 11 \/ k = 12 \/ k = 13 \/
                 k = 14 \/ k = 15 \/ k = 16 \/ k = 17 \/ k = 18 \/ k = 19 \/ k = 20) by lia.
    repeat (destruct Hc as [-> | Hc]; [vm_compute; intuition|]). subst k. vm_compute. intuition.
  - vm_compute. intuition.
Qed.

(* a list in which the sixth block forwards i_5 (seeded change C20-6) is rejected *)
Lemma swapped_block_rejected :
  let bad := [GIfNotPresent 1; GCall CGoto 1 0; GReturn; GElse; GCall CGoto 1 1; GRetIfErr; GEndIf] ++
             flat_map (fun k => [GIfPresent k; GCall CGorel k (if k =? 6 then 5 else k); GRetIfErr; GEndIf]) (map Z.of_nat (seq 2 19)) in
  goto_blocks_ok bad expected_gorel = false /\ forallb call_forwards_own_pair bad = false.
Proof. vm_compute. split; reflexivity. Qed.
